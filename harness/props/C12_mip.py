"""C12 (search) — the program `priceable()` REALLY builds is the program the Lean model `PriceMIP.constraints` emits.

Lean proves (PabuProofs/Properties/C12MIP.lean) that the modelled program encodes the definition of a (stable) price system
(`encoding_sound`, `encoding_complete*`).  This file ties the modelled program to the code:

  * in a worker subprocess `mip.Model.optimize` is replaced (no change to the library) by a function that reads back the
    model python-mip was given — every variable (name, type, bounds) and every row of `mip_model.constrs`
    (`c.expr.expr` coefficients, `c.expr.sense`, `c.expr.const`) plus the objective — and then either returns without
    solving or calls the real solver and records the returned point;
  * the same election / flags go to the Lean driver (`pricemip …`), which prints `PriceMIP.vars` and `PriceMIP.constraints`;
  * both sides are canonicalised (variables renamed to b, p.<idx>.<id>, x.<id>, r.<idx>, m.<idx>; duplicate terms merged, zero
    coefficients dropped, `>=` rows negated to `<=`, equalities sign-normalised, constants moved to the right-hand side, exact
    rationals) and compared as MULTISETS (the library iterates over a set of projects: row order is not specified).
    Any difference is a model/implementation disagreement (`ctx.disagreements`);
  * cross-check: the point CBC returns (rationalised floats) is substituted into the MODEL's rows with the tolerance of
    harness/mipcheck.py (1e-6); a violated row is counted as a solver fault (the program itself was compared exactly);
  * the same for `priceable(..., relaxation=R)` with the five relaxation classes (`mip_relax_part`): variables with type and BOUNDS
    (`add_beta`), all rows (`add_stability_constraint` and the rows of `add_beta`), the objective's sense and coefficients
    (`add_objective`) and the keyword arguments of `optimize()` against `pricemiprelax` = `PriceMIP.rprogram`
    (PabuModel/PriceMIPRelax.lean; proved in C12MIPRelax.lean: relaxed_encoding_sound / relaxed_encoding_complete /
    relaxed_optimum_spec).  On solved calls the returned point is substituted into the model's rows (solver faults counted) and
    `get_beta` / `get_relaxed_cost` / allocation / voter budget as the library reads them off that point are compared with
    `PriceMIP.getBeta` / `rcOf` evaluated by the driver at the same point (`pricemiprelaxsat`; deterministic code: a difference
    is a disagreement).  Exact optimal relaxed systems of the LP oracle (the definition, independent code) are replayed through
    the executable model: `rsat` and `exactRelaxed` must accept them with `getBeta` = the oracle's optimum;
  * the finding of the Lean development (completeness fails beyond 10 supporters / for a project costing more than 10 x budget)
    is replayed on the real `priceable()` and recorded in the evidence (`extra["bigM_limits"]`) — outside C12's quantifier
    (<= 4 voters, small costs), therefore not a violation of the property.
"""
from __future__ import annotations

import json
import os
import subprocess
import sys
from collections import Counter
from fractions import Fraction as F

from .. import core
from .. import pricebox as solverbox
from ..core import Case, q2s

TOL = F(1, 10**6)
INF_UB = 1e300
RELAX_KINDS = ("mul", "add", "vec", "vecpos", "off")
RELAX_CLASS = {"mul": "MinMul", "add": "MinAdd", "vec": "MinAddVector", "vecpos": "MinAddVectorPositive", "off": "MinAddOffset"}


# ----------------------------------------------------------------------------------------------
# parent side: a Box whose worker is this module


class MipBox(solverbox.Box):
    def _spawn(self):
        r, w = os.pipe()
        env = dict(os.environ)
        here = os.path.dirname(os.path.dirname(os.path.dirname(os.path.abspath(__file__))))
        env["PYTHONPATH"] = here + os.pathsep + env.get("PYTHONPATH", "")
        self.p = subprocess.Popen(
            [sys.executable, "-m", "harness.props.C12_mip", "--fd", str(w)],
            stdin=subprocess.PIPE, stdout=subprocess.DEVNULL, stderr=subprocess.DEVNULL, pass_fds=(w,), env=env, cwd=here,
        )
        os.close(w)
        self.r = r
        self.buf = b""


# ----------------------------------------------------------------------------------------------
# canonical form of a linear program


def canon_row(terms, sense, rhs):
    """terms: iterable of (var, Fraction); sense in '<', '>', '=' -> hashable canonical row"""
    acc = {}
    for v, k in terms:
        acc[v] = acc.get(v, F(0)) + k
    items = sorted((v, k) for v, k in acc.items() if k != 0)
    if sense == ">":
        items = [(v, -k) for v, k in items]
        rhs = -rhs
        sense = "<"
    elif sense == "=" and ((items and items[0][1] < 0) or (not items and rhs < 0)):
        items = [(v, -k) for v, k in items]
        rhs = -rhs
    return (sense, tuple(items), rhs)


def show_row(row):
    sense, items, rhs = row
    lhs = " + ".join(f"{q2s(k)}*{v}" for v, k in items) or "0"
    return f"{lhs} {'<=' if sense == '<' else '=='} {q2s(rhs)}"


def var_names(case: Case, n):
    """library variable name -> canonical name"""
    out = {"voter_budget": "b", "beta": "beta"}
    for c in case.names:
        out[f"beta_{c}"] = f"beta.{case.rank[c]}"
    for i in range(n):
        out[f"r_{i}"] = f"r.{i}"
        out[f"m_{i}"] = f"m.{i}"
        for c in case.names:
            out[f"p_{i}_{c}"] = f"p.{i}.{case.rank[c]}"
    for c in case.names:
        out[f"x_{c}"] = f"x.{case.rank[c]}"
    return out


def rat(x):
    """a coefficient python-mip stores as a float -> the exact rational it stands for (integers and dyadic numbers are exact;
    other rationals are recovered to 9 digits)"""
    f = F(x)
    return f if f.denominator <= 2**20 else f.limit_denominator(10**9)


def canon_impl(case: Case, dump):
    names = var_names(case, len(case.ballots))
    vs = Counter()
    for name, ty, lb, ub in dump["vars"]:
        ub_s = "inf" if ub >= INF_UB else q2s(rat(ub))
        vs[(names.get(name, "?" + name), ty, q2s(rat(lb)), ub_s)] += 1
    rows = Counter()
    for coeffs, sense, const in dump["cons"]:
        rows[canon_row([(names.get(v, "?" + v), rat(k)) for v, k in coeffs], sense, -rat(const))] += 1
    return vs, rows


def canon_model(answer):
    """`ok <vars> <constraints>` of the Lean driver -> (vars, rows, named rows in the model's order)"""
    parts = answer.strip().split(" ")
    if parts[0] != "ok" or len(parts) != 3:
        raise core.DriverError("pricemip: unexpected answer " + answer[:200])
    vs = Counter()
    for tok in parts[1].split(","):
        v, ty = tok.split(":")
        vs[(v, ty, "0", "1" if ty == "B" else "inf")] += 1
    rows = Counter()
    named = []
    for tok in parts[2].split("|"):
        name, lhs, sense, rhs = tok.split(":")
        terms = []
        for t in (lhs.split("+") if lhs else []):
            k, v = t.split("*")
            terms.append((v, F(k)))
        row = canon_row(terms, {"le": "<", "ge": ">", "eq": "="}[sense], F(rhs))
        rows[row] += 1
        named.append((name, row))
    return vs, rows, named


def model_line(case: Case, W, stable, exhaustive, fb=None, pf=None):
    line = (f"pricemip {case.enc_common()} stable={int(stable)} exh={int(exhaustive)} given={0 if W is None else 1} "
            f"W={'.'.join(str(i) for i in sorted(case.ids(W or [])))}")
    if fb is not None:
        line += f" fb={q2s(fb)}"
    if pf is not None:
        byid = sorted(case.names, key=lambda c: case.rank[c])
        line += " pf=" + "|".join(",".join(q2s(p[c]) for c in byid) for p in pf)
    return line


def row_violation(row, point):
    sense, items, rhs = row
    v = sum((k * point.get(var, F(0)) for var, k in items), F(0)) - rhs
    return max(v, F(0)) if sense == "<" else abs(v)


# ----------------------------------------------------------------------------------------------
# one comparison


def compare(ctx, case: Case, job, dump, answer):
    """library dump vs model answer; returns the model's named rows (or None)"""
    cfg = {"part": "mip", "W": job["W"], "stable": job["stable"], "exhaustive": job["exhaustive"], "fb": job.get("fb"),
           "pf": job.get("pf")}
    line = job["_line"]
    ivs, irows = canon_impl(case, dump)
    mvs, mrows, named = canon_model(answer)
    ok = True
    if dump.get("nopt") != 1:
        ok = False
        ctx.disagreements.append({"line": line, "impl": f"{dump.get('nopt')} optimize calls", "model": "1", "case": case.to_json(), "cfg": cfg,
                                  "what": "priceable() did not hand exactly one program to the solver"})
    if dump["obj"]:
        ok = False
        ctx.disagreements.append({"line": line, "impl": str(dump["obj"]), "model": "no objective", "case": case.to_json(), "cfg": cfg,
                                  "what": "priceable(relaxation=None) sets an objective; the model is a pure feasibility program"})
    if ivs != mvs:
        ok = False
        ctx.disagreements.append({"line": line, "impl": sorted(map(str, (ivs - mvs).elements()))[:8], "model": sorted(map(str, (mvs - ivs).elements()))[:8],
                                  "case": case.to_json(), "cfg": cfg, "what": "variables (name, type, bounds) of the program priceable() builds != PriceMIP.vars"})
    if irows != mrows:
        ok = False
        only_impl = [show_row(r) for r in sorted((irows - mrows).elements(), key=str)]
        only_model = [show_row(r) for r in sorted((mrows - irows).elements(), key=str)]
        fam = sorted({n for n, r in named if (mrows - irows)[r] > 0})
        ctx.disagreements.append({"line": line, "impl": only_impl[:8], "model": only_model[:8], "case": case.to_json(), "cfg": cfg,
                                  "what": f"constraints of the program priceable() builds != PriceMIP.constraints ({len(only_impl)} rows only in the "
                                          f"library, {len(only_model)} only in the model; model families {fam})"})
    ctx.count("mip_compare", "equal" if ok else "different")
    ctx.count("mip_rows", "total", sum(mrows.values()))
    return named if ok else None


def check_point(ctx, case: Case, job, dump, named):
    """the point the solver returned satisfies the model's rows and domains (tolerance 1e-6)"""
    if dump.get("status") not in ("OPTIMAL", "FEASIBLE") or dump.get("point") is None:
        ctx.count("mip_point", "no point (" + str(dump.get("status")) + ")")
        return
    names = var_names(case, len(case.ballots))
    point = {names.get(v, "?" + v): F(x) for v, x in dump["point"].items()}
    worst, worst_name = F(0), None
    for name, row in named:
        d = row_violation(row, point)
        if d > worst:
            worst, worst_name = d, name
    for v, x in point.items():
        d = max(-x, F(0))
        if v.startswith("x."):
            d = max(d, min(abs(x), abs(x - 1)))
        if d > worst:
            worst, worst_name = d, "domain of " + v
    if worst > TOL:
        # the program was compared exactly: a point that violates it is the solver's doing
        ctx.solver_faults += 1
        ctx.count("solver_fault", "mip_point_violates_model")
        ctx.count("mip_point", "violates " + str(worst_name))
        l = ctx.extra.setdefault("mip_point_fault_samples", [])
        if len(l) < 3:
            l.append({"case": case.to_json(), "cfg": {k: job[k] for k in ("W", "stable", "exhaustive")}, "row": worst_name, "by": float(worst)})
    else:
        ctx.count("mip_point", "satisfies the model's rows")


def adjudicate(box, case: Case, W, stable, exhaustive, searched):
    """A search verdict contradicts the exact oracle, or the returned price system is invalid: whose doing is it?  The call is
    repeated in the capture worker.  When the program the library hands to the solver IS the program of PriceMIP (compared
    row by row, and proved sound and complete for these sizes) the only party left is the solver: its point violates the
    program it was given, or it calls a feasible program infeasible -> ("solver_fault", why).  Anything else - another
    program, or a result that is not the solver's point read off as the code documents - is the library's -> ("library", why)."""
    job = {"op": "capture", "case": case.to_json(), "W": None if searched else W, "stable": stable, "exhaustive": exhaustive,
           "solve": True, "want_result": True}
    line = model_line(case, job["W"], stable, exhaustive)
    answer = core.run_driver([line])[0]
    dump = box.call(job)
    if dump is None:
        return "solver_fault", "the solver crashed or hung when the call was repeated"
    if "error" in dump:
        return "library", "priceable raised " + dump["error"]
    ivs, irows = canon_impl(case, dump)
    mvs, mrows, named = canon_model(answer)
    if dump.get("nopt") != 1 or dump["obj"] or ivs != mvs or irows != mrows:
        return "library", "the program handed to the solver is not the program of PriceMIP"
    if dump.get("status") in ("OPTIMAL", "FEASIBLE") and dump.get("point") is not None:
        names = var_names(case, len(case.ballots))
        point = {names.get(v, "?" + v): F(x) for v, x in dump["point"].items()}
        worst, worst_name = F(0), None
        for name, row in named:
            d = row_violation(row, point)
            if d > worst:
                worst, worst_name = d, name
        for v, x in point.items():
            d = max(-x, F(0))
            if v.startswith("x."):
                d = max(d, min(abs(x), abs(x - 1)))
            if d > worst:
                worst, worst_name = d, "domain of " + v
        if worst > TOL:
            return "solver_fault", f"the solver's point violates the program it was given ({worst_name} by {float(worst):.2e})"
        raw, res = dump["point"], dump.get("result") or {}
        want_alloc = sorted(c for c in case.names if raw.get("x_" + c, 0.0) >= 0.99)
        want_pf = [{c: raw.get(f"p_{i}_{c}", 0.0) for c in case.names if raw.get(f"p_{i}_{c}", 0.0) > 1e-8} for i in range(len(case.ballots))]
        got_pf = [{c: v for c, v in d.items() if v != 0.0} for d in (res.get("pf") or [])]
        if res.get("alloc") != want_alloc or res.get("b") != raw.get("voter_budget") or got_pf != want_pf:
            return "library", "the returned result is not the solver's point read off as documented (x >= 0.99, payments > 1e-8)"
        return "library", "the solver's point satisfies the proved program, yet the verdict contradicts the oracle"
    return "solver_fault", f"the solver answers {dump.get('status')} for a program that is the proved one (the exact oracle disagrees with the solver, not with the library)"


class _Collect:
    """just enough of a Ctx for compare_relax / compare outside a run"""

    def __init__(self):
        self.disagreements = []

    def count(self, *a, **k):
        pass


def adjudicate_relax(box, case: Case, W, kind, exhaustive, searched):
    """as `adjudicate`, for priceable(..., stable=True, relaxation=R): the program is compared with PriceMIP.rprogram
    (variables with bounds, rows, objective, optimize() arguments); when it is the proved one, a point that violates it, a
    non-optimal beta under status OPTIMAL, or INFEASIBLE for a feasible program are the solver's doing
    (C12MIPRelax.relaxed_optimum_spec / relaxed_infeasible_spec assume nothing else about the solver)."""
    job = {"op": "capture", "case": case.to_json(), "W": None if searched else W, "relax": kind, "stable": True, "exhaustive": exhaustive,
           "solve": True, "want_result": True}
    job["_line"] = model_line_relax(case, job)
    answer = core.run_driver([job["_line"]])[0]
    dump = box.call({k: v for k, v in job.items() if not k.startswith("_")})
    if dump is None:
        return "solver_fault", "the solver crashed or hung when the call was repeated"
    if "error" in dump:
        return "library", "priceable raised " + dump["error"]
    c = _Collect()
    if compare_relax(c, case, job, dump, answer) is None:
        return "library", "the program handed to the solver is not PriceMIP.rprogram: " + (c.disagreements[0]["what"] if c.disagreements else "?")
    if dump.get("status") in ("OPTIMAL", "FEASIBLE") and dump.get("point") is not None:
        raw, res = dump["point"], dump.get("result") or {}
        want_alloc = sorted(c_ for c_ in case.names if raw.get("x_" + c_, 0.0) >= 0.99)
        if res.get("alloc") != want_alloc or res.get("b") != raw.get("voter_budget"):
            return "library", "the returned result is not the solver's point read off as documented"
    return "solver_fault", f"the program is the proved one; the solver's answer ({dump.get('status')}) for it is what contradicts the oracle"


def witness_line(case: Case, W, stable, exhaustive, b, pf):
    """the point that encodes the exact price system (b capped at the budget limit, as `encoding_complete` does) -> driver line"""
    byid = sorted(case.names, key=lambda c: case.rank[c])
    b = min(b, case.budget)
    left = [b - sum((p[c] for c in case.names), F(0)) for p in pf]
    mx = [max([p[c] for c in case.names] + [left[i]]) for i, p in enumerate(pf)]
    Wset = set(W)
    return (model_line(case, W, stable, exhaustive).replace("pricemip ", "pricemipsat ", 1)
            + f" b={q2s(b)} p={'|'.join(','.join(q2s(p[c]) for c in byid) for p in pf)} x={','.join('1' if c in Wset else '0' for c in byid)}"
            + f" r={','.join(q2s(v) for v in left)} m={','.join(q2s(v) for v in mx)}")


def witness_part(ctx, case: Case, jobs, every=4):
    """Lean proves: an exact price system (here: found by the exact LP oracle, independent code) is a point of the program
    (`encoding_complete`, <= 10 voters).  Replayed through the executable model: `PriceMIP.sat` must accept the point and
    `Price.exact` must accept the point read back as a price system."""
    from .. import lp_oracle

    lines, meta = [], []
    for k, job in enumerate(jobs):
        if job["W"] is None or job.get("fb") is not None or job.get("pf") is not None or k % every:
            continue
        ok, wit = lp_oracle.price_system_exists(case.names, case.cost, case.budget, case.ballots, job["W"], job["stable"], job["exhaustive"])
        ctx.count("mip_witness", "exact price system exists" if ok else "none exists")
        if not ok:
            continue
        lines.append(witness_line(case, job["W"], job["stable"], job["exhaustive"], wit[0], wit[1]))
        meta.append(job)
    for line, job, out in zip(lines, meta, core.run_driver(lines)):
        ctx.evaluations += 1
        if out.strip() != "ok 1 1":
            ctx.disagreements.append({"line": line, "impl": "exact price system (LP oracle)", "model": out.strip(), "case": case.to_json(),
                                      "cfg": {"part": "mip", "W": job["W"], "stable": job["stable"], "exhaustive": job["exhaustive"]},
                                      "what": "the point that encodes an exact price system is rejected by PriceMIP.sat / Price.exact (expected `ok 1 1`)"})


def gen_fixed(rng, case: Case):
    """hard-coded voter budget / payment functions (dyadic numbers: exact as floats)"""
    fb = F(rng.randint(0, 12), rng.choice([1, 2, 4]))
    pf = None
    if rng.random() < 0.6:
        pf = [{c: (F(rng.randint(0, 8), rng.choice([1, 2, 4])) if (c in bal or rng.random() < 0.2) else F(0)) for c in case.names} for bal in case.ballots]
    if rng.random() < 0.3:
        fb = None
    return fb, pf


def mip_part(ctx, n_elections, solve_every=5, gen_case=None, subsets=None, budget_s=None):
    rng = ctx.rng
    box = MipBox()
    t0 = ctx.elapsed()
    try:
        for e in range(n_elections):
            if budget_s is not None and ctx.elapsed() - t0 > budget_s:
                ctx.count("mip_part", "stopped by time budget")
                break
            case = gen_case(rng)
            jobs = []
            for W in list(subsets(case.names)) + [None]:
                for stable in (False, True):
                    for exhaustive in (False, True):
                        jobs.append({"op": "capture", "case": case.to_json(), "W": W, "stable": stable, "exhaustive": exhaustive})
            # optional arguments voter_budget / payment_functions on two random modes
            for _ in range(2):
                fb, pf = gen_fixed(rng, case)
                W = rng.choice(list(subsets(case.names)) + [None])
                jobs.append({"op": "capture", "case": case.to_json(), "W": W, "stable": rng.random() < 0.5, "exhaustive": rng.random() < 0.5,
                             "fb": None if fb is None else q2s(fb), "pf": None if pf is None else [{c: q2s(v) for c, v in p.items()} for p in pf]})
            lines = []
            for k, job in enumerate(jobs):
                fb = None if job.get("fb") is None else F(job["fb"])
                pf = None if job.get("pf") is None else [{c: F(v) for c, v in p.items()} for p in job["pf"]]
                job["_line"] = model_line(case, job["W"], job["stable"], job["exhaustive"], fb, pf)
                job["solve"] = (e * 131 + k) % solve_every == 0
                lines.append(job["_line"])
            answers = core.run_driver(lines)
            witness_part(ctx, case, jobs)
            for job, answer in zip(jobs, answers):
                send = {k: v for k, v in job.items() if not k.startswith("_")}
                dump = box.call(send)
                if dump is None and send["solve"]:
                    # CBC crashed / hung on this program: count it and read the program back without solving
                    ctx.solver_faults += 1
                    ctx.count("solver_fault", "mip_capture_crash_or_timeout")
                    send["solve"] = False
                    dump = box.call(send)
                ctx.evaluations += 1
                mode = ("searched" if job["W"] is None else "given") + ("/stable" if job["stable"] else "/plain") + ("/exh" if job["exhaustive"] else "") \
                    + ("/fixed" if (job.get("fb") is not None or job.get("pf") is not None) else "")
                ctx.count("mip_mode", mode)
                if dump is None:
                    raise core.DriverError("C12_mip: the capture worker died without calling the solver")
                if "error" in dump:
                    ctx.violations.append({"what": "priceable raised " + dump["error"] + " while building its program", "case": case.to_json(),
                                           "cfg": {"part": "mip", "W": job["W"], "stable": job["stable"], "exhaustive": job["exhaustive"]},
                                           "impl": dump["error"], "expected": "a program", "sig": {"call": "priceable", "kind": "exception"}})
                    continue
                if "vars" not in dump:
                    # no program reached the solver at all (round 7, C12-r7A: a shortcut answering without the search): the tie is
                    # broken for this call — recorded, and the call's verdict is judged by the search streams of C12
                    ctx.count("mip_compare", "no program posed")
                    ctx.disagreements.append({"line": job["_line"], "impl": "no optimize() call: " + str({k: dump[k] for k in list(dump)[:4]})[:200], "model": "1 program",
                                              "case": case.to_json(), "cfg": {"part": "mip", "W": job["W"], "stable": job["stable"], "exhaustive": job["exhaustive"],
                                                                              "fb": job.get("fb"), "pf": job.get("pf")},
                                              "what": "priceable() answered without handing a program to the solver; the model poses exactly one"})
                    continue
                named = compare(ctx, case, job, dump, answer)
                if len(case.ballots) >= 2 and len(case.names) >= 2:
                    ctx.nontrivial.add((case.key(), "mip", None if job["W"] is None else tuple(job["W"]), job["stable"], job["exhaustive"],
                                        job.get("fb"), str(job.get("pf"))))
                if named is not None and send["solve"]:
                    check_point(ctx, case, job, dump, named)
                if named is not None and e < 2 and job["W"] is not None and len(job["W"]) == 1 and not job["stable"]:
                    ctx.sample(f"{job['_line']} -> impl {sum(1 for _ in dump['cons'])} rows, {len(dump['vars'])} variables | model identical (as multisets)")
    finally:
        ctx.extra.setdefault("solver_fault_kinds_mip", {}).update(box.fault_kinds)
        box.close()


# ----------------------------------------------------------------------------------------------
# the relaxed programs: priceable(..., relaxation=R)  ==  PriceMIP.rprogram  (PabuModel/PriceMIPRelax.lean, C12MIPRelax.lean)


def parse_terms(lhs):
    terms = []
    for t in (lhs.split("+") if lhs else []):
        k, v = t.split("*")
        terms.append((v, F(k)))
    return terms


def canon_model_relax(answer):
    """`ok <vars> <constraints> min:<objective>` of `pricemiprelax` -> (vars, rows, named rows, objective, {var: (type, lb)})"""
    parts = answer.strip().split(" ")
    if parts[0] != "ok" or len(parts) != 4 or not parts[3].startswith("min:"):
        raise core.DriverError("pricemiprelax: unexpected answer " + answer[:200])
    vs = Counter()
    decl = {}
    for tok in parts[1].split(","):
        v, ty, lb = tok.split(":")
        vs[(v, ty, q2s(F(lb)), "1" if ty == "B" else "inf")] += 1
        decl[v] = (ty, F(lb))
    rows = Counter()
    named = []
    for tok in parts[2].split("|"):
        name, lhs, sense, rhs = tok.split(":")
        row = canon_row(parse_terms(lhs), {"le": "<", "ge": ">", "eq": "="}[sense], F(rhs))
        rows[row] += 1
        named.append((name, row))
    obj = canon_row(parse_terms(parts[3][4:]), "<", F(0))[1]
    return vs, rows, named, obj, decl


def model_line_relax(case: Case, job):
    fb = None if job.get("fb") is None else F(job["fb"])
    pf = None if job.get("pf") is None else [{c: F(v) for c, v in p.items()} for p in job["pf"]]
    return model_line(case, job["W"], job["stable"], job["exhaustive"], fb, pf).replace("pricemip ", "pricemiprelax ", 1) + f" relax={job['relax']}"


def relax_cfg(job):
    return {"part": "miprelax", "W": job["W"], "relax": job["relax"], "stable": job["stable"], "exhaustive": job["exhaustive"],
            "fb": job.get("fb"), "pf": job.get("pf")}


def compare_relax(ctx, case: Case, job, dump, answer):
    """program priceable(relaxation=R) hands to the solver vs PriceMIP.rprogram; returns (named rows, declarations) or None"""
    cfg = relax_cfg(job)
    line = job["_line"]
    cls = RELAX_CLASS[job["relax"]]
    ivs, irows = canon_impl(case, dump)
    mvs, mrows, named, mobj, decl = canon_model_relax(answer)
    names = var_names(case, len(case.ballots))
    ok = True

    def differ(impl, model, what):
        ctx.disagreements.append({"line": line, "impl": impl, "model": model, "case": case.to_json(), "cfg": cfg, "what": what})

    if dump.get("nopt") != 1:
        ok = False
        differ(f"{dump.get('nopt')} optimize calls", "1", f"priceable(relaxation={cls}) did not hand exactly one program to the solver")
    if "max_solutions" in (dump.get("kw") or []):
        ok = False
        differ(str(dump.get("kw")), "optimize(max_seconds=…)", f"priceable(relaxation={cls}) stops the solver at the first solution: the returned "
               "beta need not be optimal (C12MIPRelax.relaxed_optimum_spec assumes an objective-optimal answer)")
    iobj = canon_row([(names.get(v, "?" + v), rat(k)) for v, k in dump["obj"]], "<", F(0))[1]
    if iobj != mobj or dump.get("obj_sense") != "MIN" or dump.get("obj_const") != 0.0:
        ok = False
        differ(f"{dump.get('obj_sense')} {list(map(str, iobj))} + {dump.get('obj_const')}", f"MIN {list(map(str, mobj))} + 0",
               f"objective of the program priceable(relaxation={cls}) builds != PriceMIP.robjective (add_objective)")
    if ivs != mvs:
        ok = False
        differ(sorted(map(str, (ivs - mvs).elements()))[:8], sorted(map(str, (mvs - ivs).elements()))[:8],
               f"variables (name, type, bounds) of the program priceable(relaxation={cls}) builds != PriceMIP.rvars (add_beta)")
    if irows != mrows:
        ok = False
        only_impl = [show_row(r) for r in sorted((irows - mrows).elements(), key=str)]
        only_model = [show_row(r) for r in sorted((mrows - irows).elements(), key=str)]
        fam = sorted({n for n, r in named if (mrows - irows)[r] > 0})
        differ(only_impl[:8], only_model[:8],
               f"constraints of the program priceable(relaxation={cls}) builds != PriceMIP.rconstraints ({len(only_impl)} rows only in the library, "
               f"{len(only_model)} only in the model; model families {fam})")
    ctx.count("miprelax_compare", job["relax"] + ("/equal" if ok else "/different"))
    ctx.count("miprelax_rows", "total", sum(mrows.values()))
    return (named, decl) if ok else None


def point_line_relax(case: Case, job, point):
    """a point (canonical variable name -> Fraction) as a `pricemiprelaxsat` line"""
    n = len(case.ballots)
    ids = sorted(case.rank[c] for c in case.names)
    g = lambda v: q2s(point.get(v, F(0)))  # noqa: E731
    return (job["_line"].replace("pricemiprelax ", "pricemiprelaxsat ", 1)
            + f" b={g('b')} p={'|'.join(','.join(g(f'p.{i}.{c}') for c in ids) for i in range(n))} x={','.join(g(f'x.{c}') for c in ids)}"
            + f" r={','.join(g(f'r.{i}') for i in range(n))} m={','.join(g(f'm.{i}') for i in range(n))}"
            + f" beta={g('beta')} betav={','.join(g(f'beta.{c}') for c in ids)}")


def check_point_relax(ctx, case: Case, job, dump, named, decl, sat_lines):
    """the point the solver returned: (a) satisfies the model's rows and declared domains (tolerance 1e-6; otherwise a solver fault,
    counted), (b) read through get_beta / get_relaxed_cost gives the numbers the model computes from the same point
    (PriceMIP.getBeta / rcOf — deterministic library code, so a difference is a disagreement; checked in `flush_points_relax`)"""
    if dump.get("status") not in ("OPTIMAL", "FEASIBLE") or dump.get("point") is None:
        ctx.count("miprelax_point", "no point (" + str(dump.get("status")) + ")")
        return
    names = var_names(case, len(case.ballots))
    point = {names.get(v, "?" + v): F(x) for v, x in dump["point"].items()}
    worst, worst_name = F(0), None
    for name, row in named:
        d = row_violation(row, point)
        if d > worst:
            worst, worst_name = d, name
    for v, x in point.items():
        ty, lb = decl.get(v, ("C", F(0)))
        d = max(lb - x, F(0))
        if ty == "B":
            d = max(d, min(abs(x), abs(x - 1)))
        if d > worst:
            worst, worst_name = d, "domain of " + v
    if worst > TOL:
        ctx.solver_faults += 1
        ctx.count("solver_fault", "miprelax_point_violates_model")
        ctx.count("miprelax_point", "violates " + str(worst_name))
        l = ctx.extra.setdefault("mip_point_fault_samples", [])
        if len(l) < 3:
            l.append({"case": case.to_json(), "cfg": relax_cfg(job), "row": worst_name, "by": float(worst)})
        return
    ctx.count("miprelax_point", "satisfies the model's rows")
    if dump.get("ret") is not None:
        sat_lines.append((point_line_relax(case, job, point), case, job, dump["ret"], point))


def close(a, b, tol=F(1, 10**9)):
    return abs(a - b) <= tol * max(1, abs(a), abs(b))


def flush_points_relax(ctx, sat_lines):
    if not sat_lines:
        return
    outs = core.run_driver([l[0] for l in sat_lines])
    for (line, case, job, ret, point), out in zip(sat_lines, outs):
        parts = out.strip().split(" ")
        if parts[0] != "ok" or len(parts) != 6:
            raise core.DriverError("pricemiprelaxsat: unexpected answer " + out[:200])
        ctx.evaluations += 1
        kind = job["relax"]
        cls = RELAX_CLASS[kind]
        m_beta, m_obj = F(parts[3]), F(parts[4])
        m_rc = {int(t.split(":")[0]): F(t.split(":")[1]) for t in parts[5].split(",")}
        cfg = relax_cfg(job)

        def differ(impl, model, what):
            ctx.disagreements.append({"line": line, "impl": impl, "model": model, "case": case.to_json(), "cfg": cfg, "what": what})

        # get_beta: the number reported as the optimum
        if kind in ("mul", "add"):
            l_beta = None if "beta" not in ret else F(ret["beta"])
        elif kind == "off":
            l_beta = None if ret.get("beta_global") is None else F(ret["beta_global"])
        else:
            l_beta = F(ret["sum"])
        if l_beta is None or not close(l_beta, m_beta):
            differ(str(ret), q2s(m_beta), f"{cls}.get_beta != PriceMIP.getBeta at the point the solver returned")
        if m_obj != m_beta:
            differ(q2s(m_obj), q2s(m_beta), "model: objective value != getBeta (contradicts C12MIPRelax.objective_eq_getBeta)")
        if kind in ("vec", "vecpos", "off"):
            for c in case.names:
                if not close(F(ret["betav"][c]), point.get(f"beta.{case.rank[c]}", F(0))):
                    differ(str(ret["betav"]), q2s(point.get(f"beta.{case.rank[c]}", F(0))), f"{cls}.get_beta: beta[{c}] != beta_{c}.x")
            if not close(F(ret["sum"]), sum((point.get(f"beta.{case.rank[c]}", F(0)) for c in case.names), F(0))):
                differ(str(ret["sum"]), "sum of beta_c.x", f"{cls}.get_beta: 'sum' != sum of beta_c.x")
            want = ["beta", "sum"] + (["beta_global"] if kind == "off" else [])
            if ret.get("keys") != sorted(want):
                differ(str(ret.get("keys")), str(sorted(want)), f"{cls}.get_beta: keys of the returned dict")
        # get_relaxed_cost for the saved beta
        for c in case.names:
            if not close(F(ret["rc"][c]), m_rc[case.rank[c]]):
                differ({k: v for k, v in ret["rc"].items()}, {c2: q2s(m_rc[case.rank[c2]]) for c2 in case.names},
                       f"{cls}.get_relaxed_cost != PriceMIP.rcOf at the point the solver returned")
                break
        # allocation and voter budget are read off the same point
        x_alloc = sorted(c for c in case.names if point.get(f"x.{case.rank[c]}", F(0)) >= F(99, 100))
        if ret["alloc"] != x_alloc or F(ret["b"]) != point.get("b", F(0)):
            differ([ret["alloc"], ret["b"]], [x_alloc, float(point.get("b", F(0)))], "PriceableResult.allocation / voter_budget != x >= 0.99 / b.x of the point")
        ctx.count("miprelax_get_beta", kind)


def witness_relax(ctx, case: Case, job, lines):
    """Lean proves (`relaxed_encoding_complete`): an exact relaxed price system within the class's declared domain is a point of
    the program.  Replayed through the executable model on the optimum of the exact LP oracle (independent code, the
    DEFINITION of the relaxation, not the program): `rsat` and `exactRelaxed` must accept it and `getBeta` must be its value."""
    from .. import lp_oracle

    W, kind = job["W"], job["relax"]
    if W is None or not job["stable"] or job.get("fb") is not None or job.get("pf") is not None:
        return
    if kind in ("add", "off") and len(W) == len(case.names):
        ctx.count("miprelax_witness", "degenerate (every project selected): skipped")  # relaxed_encoding_complete_FullStatement_false
        return
    st, val, wit = lp_oracle.relaxed_optimum(case.names, case.cost, case.budget, case.ballots, W, kind, job["exhaustive"], faithful=False)
    ctx.count("miprelax_witness", "exact relaxed optimum exists" if st == "optimal" else str(st))
    if st != "optimal":
        return
    b = min(wit["b"], case.budget)
    pf = wit["pf"]
    left = [b - sum((p[c] for c in case.names), F(0)) for p in pf]
    mx = [max([p[c] for c in case.names] + [left[i]]) for i, p in enumerate(pf)]
    point = {"b": b, "beta": wit["beta"] if wit["beta"] is not None else F(0)}
    Wset = set(W)
    for c in case.names:
        k = case.rank[c]
        point[f"x.{k}"] = F(1 if c in Wset else 0)
        point[f"beta.{k}"] = wit["betav"].get(c, F(0))
        for i, p in enumerate(pf):
            point[f"p.{i}.{k}"] = p[c]
    for i in range(len(pf)):
        point[f"m.{i}"] = mx[i]
    lines.append((point_line_relax(case, job, point), case, job, val))


def flush_witness_relax(ctx, lines):
    if not lines:
        return
    outs = core.run_driver([l[0] for l in lines])
    for (line, case, job, val), out in zip(lines, outs):
        ctx.evaluations += 1
        parts = out.strip().split(" ")
        if parts[:3] != ["ok", "1", "1"] or len(parts) != 6 or F(parts[3]) != val or F(parts[4]) != val:
            ctx.disagreements.append({"line": line, "impl": f"exact relaxed optimum {q2s(val)} (LP oracle)", "model": " ".join(parts[:5]), "case": case.to_json(),
                                      "cfg": relax_cfg(job),
                                      "what": "the point that encodes an exact optimal relaxed price system is rejected by PriceMIP.rsat / "
                                              f"Price.exactRelaxed or has another getBeta / objective (expected `ok 1 1 {q2s(val)} {q2s(val)}`)"})


def relax_jobs(rng, case: Case, subsets, given_per_election=3):
    """the calls of C12.relax_part (feasible allocations in the election's own shuffle + the searched mode), every class,
    exhaustive on and off; plus the plain-with-relaxation call and hard-coded voter budget / payments on random ones"""
    import random

    from .. import lp_oracle

    feas = [W for W in subsets(case.names) if lp_oracle.is_feasible_alloc(case.cost, case.budget, W)]
    r = random.Random(case.seed)
    r.shuffle(feas)
    allocs = feas[:given_per_election] + [None]
    infeas = [W for W in subsets(case.names) if not lp_oracle.is_feasible_alloc(case.cost, case.budget, W)]
    if infeas:
        allocs.append(rng.choice(infeas))  # the program is built all the same
    jobs = []
    for W in allocs:
        for kind in RELAX_KINDS:
            for exhaustive in (False, True):
                jobs.append({"op": "capture", "case": case.to_json(), "W": W, "relax": kind, "stable": True, "exhaustive": exhaustive})
    for kind in RELAX_KINDS:
        W = rng.choice(allocs)
        job = {"op": "capture", "case": case.to_json(), "W": W, "relax": kind, "stable": rng.random() < 0.5, "exhaustive": rng.random() < 0.5}
        if rng.random() < 0.6:
            fb, pf = gen_fixed(rng, case)
            job["fb"] = None if fb is None else q2s(fb)
            job["pf"] = None if pf is None else [{c: q2s(v) for c, v in p.items()} for p in pf]
        jobs.append(job)
    return jobs


def mip_relax_part(ctx, n_elections, solve_every=5, witness_every=5, gen_case=None, subsets=None, budget_s=None):
    rng = ctx.rng
    box = MipBox()
    t0 = ctx.elapsed()
    sat_lines, wit_lines = [], []
    try:
        for e in range(n_elections):
            if budget_s is not None and ctx.elapsed() - t0 > budget_s:
                ctx.count("miprelax_part", "stopped by time budget")
                break
            case = gen_case(rng)
            jobs = relax_jobs(rng, case, subsets)
            for k, job in enumerate(jobs):
                job["_line"] = model_line_relax(case, job)
                job["solve"] = (e * 131 + k) % solve_every == 0
            answers = core.run_driver([job["_line"] for job in jobs])
            for k, (job, answer) in enumerate(zip(jobs, answers)):
                if (e * 131 + k) % witness_every == 1:
                    witness_relax(ctx, case, job, wit_lines)
                send = {k2: v for k2, v in job.items() if not k2.startswith("_")}
                dump = box.call(send)
                if dump is None and send["solve"]:
                    ctx.solver_faults += 1
                    ctx.count("solver_fault", "miprelax_capture_crash_or_timeout")
                    send["solve"] = False
                    dump = box.call(send)
                ctx.evaluations += 1
                mode = job["relax"] + ("/searched" if job["W"] is None else "/given") + ("/stable" if job["stable"] else "/plain") \
                    + ("/exh" if job["exhaustive"] else "") + ("/fixed" if (job.get("fb") is not None or job.get("pf") is not None) else "")
                ctx.count("miprelax_mode", mode)
                if dump is None:
                    raise core.DriverError("C12_mip: the capture worker died without calling the solver")
                if "error" in dump:
                    ctx.violations.append({"what": f"priceable with {RELAX_CLASS[job['relax']]} raised " + dump["error"] + " while building its program",
                                           "case": case.to_json(), "cfg": relax_cfg(job), "impl": dump["error"], "expected": "a program",
                                           "sig": {"call": "priceable", "kind": "exception", "relaxation": RELAX_CLASS[job["relax"]]}})
                    continue
                res = compare_relax(ctx, case, job, dump, answer)
                if len(case.ballots) >= 2 and len(case.names) >= 2:
                    ctx.nontrivial.add((case.key(), "miprelax", job["relax"], None if job["W"] is None else tuple(job["W"]), job["stable"],
                                        job["exhaustive"], job.get("fb"), str(job.get("pf"))))
                if res is not None and send["solve"]:
                    check_point_relax(ctx, case, job, dump, res[0], res[1], sat_lines)
                if res is not None and e < 1 and job["W"] is not None and len(job["W"]) == 1 and job["stable"] and not job["exhaustive"]:
                    ctx.sample(f"{job['_line']} -> impl {sum(1 for _ in dump['cons'])} rows, {len(dump['vars'])} variables, objective {dump['obj']} | "
                               "model identical (as multisets)")
        flush_points_relax(ctx, sat_lines)
        flush_witness_relax(ctx, wit_lines)
    finally:
        ctx.extra.setdefault("solver_fault_kinds_mip", {}).update(box.fault_kinds)
        box.close()


def bigM_limits(ctx):
    """the two families the Lean development proves to be outside the reach of INF = 10 x budget (X13_infeasible,
    expensive_project_counterexample), replayed on the real priceable().  Outside C12's quantifier: recorded, not judged."""
    box = solverbox.Box()
    out = {}
    try:
        names13 = ["p0", "p1"]
        c13 = Case([("p0", F(1)), ("p1", F(10))], F(11), "app", [["p1"]] + [["p0"]] * 12)
        cbig = Case([("p0", F(1)), ("p1", F(11))], F(1), "app", [["p0"]])
        for tag, case, W in (("13 voters, costs 1 and 10, budget 11, allocation {p0,p1} (exact price system: b=10)", c13, names13),
                             ("1 voter, costs 1 and 11, budget 1, allocation {p0} (exact price system: b=1)", cbig, ["p0"])):
            from .. import lp_oracle

            D, _ = lp_oracle.price_system_exists(case.names, case.cost, case.budget, case.ballots, W, False, True)
            ans = box.call({"op": "priceable", "case": case.to_json(), "W": W, "stable": False, "exhaustive": True})
            out[tag] = {"price_system_exists (exact oracle)": D, "priceable() status": None if ans is None else ans.get("status", ans.get("error"))}
        # C12MIPRelax.relaxed_encoding_complete_FullStatement_false / XDeg_beta_bound / XDeg_attains: MinAdd with every project selected
        cdeg = Case([("p0", F(3)), ("p1", F(1))], F(4), "app", [["p0"], ["p1"]])
        ans = box.call({"op": "relax", "case": cdeg.to_json(), "W": ["p0", "p1"], "kind": "add", "exhaustive": True})
        Ds, Dv, _ = lp_oracle.relaxed_optimum(cdeg.names, cdeg.cost, cdeg.budget, cdeg.ballots, ["p0", "p1"], "add", True, faithful=False)
        out["2 voters, costs 3 and 1, budget 4, allocation {p0,p1}, relaxation MinAdd (Lean: every point has beta >= -39, attained)"] = {
            "least beta by the definition within the declared domain (exact oracle)": None if Dv is None else q2s(Dv),
            "priceable(relaxation=MinAdd) beta": None if ans is None else ans.get("beta", ans.get("error", ans.get("status")))}
    finally:
        box.close()
    ctx.extra["bigM_limits"] = out
    ctx.extra["bigM_limits_note"] = ("Lean: encoding_complete_FullStatement_false / expensive_project_counterexample.  priceable() answers INFEASIBLE for a "
                                     "priceable allocation as soon as the supporters of a selected project can keep more than cost + 10 x budget, or an "
                                     "unselected project costs more than 10 x budget.  Outside C12's quantifier (<= 4 voters, small costs).")


# ----------------------------------------------------------------------------------------------
# worker side


def _capture(job):
    import mip
    from pabutools.analysis.priceability import priceable

    case = Case.from_json(job["case"])
    inst, projs = core.build_instance(case)
    prof = core.build_profile(case, inst, projs, multi=False)
    W = job.get("W")
    alloc = None if W is None else [projs[n] for n in W]
    vb = None if job.get("fb") is None else core.to_num(F(job["fb"]))
    pf = None if job.get("pf") is None else [{projs[c]: core.to_num(F(v)) for c, v in p.items()} for p in job["pf"]]
    cap = {"nopt": 0}
    orig = mip.Model.optimize
    R = None
    if job.get("relax"):
        import pabutools.analysis.priceability_relaxation as rel

        R = getattr(rel, RELAX_CLASS[job["relax"]])(inst, prof)

    def optimize(self, *a, **kw):
        cap["nopt"] += 1
        cap["kw"] = sorted(kw)
        cap["vars"] = [[v.name, str(v.var_type), float(v.lb), float(v.ub)] for v in self.vars]
        cap["cons"] = [[[[v.name, float(k)] for v, k in c.expr.expr.items()], str(c.expr.sense), float(c.expr.const)] for c in self.constrs]
        cap["obj"] = [[v.name, float(k)] for v, k in self.objective.expr.items() if k != 0]
        cap["obj_const"] = float(self.objective.const)
        cap["obj_sense"] = str(self.sense)
        if not job.get("solve"):
            return mip.OptimizationStatus.INFEASIBLE
        st = orig(self, *a, **kw)
        cap["status"] = st.name
        if st in (mip.OptimizationStatus.OPTIMAL, mip.OptimizationStatus.FEASIBLE):
            cap["point"] = {v.name: float(v.x) for v in self.vars}
        return st

    mip.Model.optimize = optimize
    try:
        res = priceable(inst, prof, alloc, voter_budget=vb, payment_functions=pf, stable=bool(job.get("stable")),
                        exhaustive=bool(job.get("exhaustive")), max_seconds=int(job.get("max_seconds", 30)),
                        **({} if R is None else {"relaxation": R}))
    finally:
        mip.Model.optimize = orig
    if R is not None and cap.get("point") is not None and res.validate():
        # what get_beta / get_relaxed_cost make of the point the solver returned
        beta = res.relaxation_beta
        if isinstance(beta, dict):
            cap["ret"] = {"betav": {n: float(beta["beta"].get(projs[n], 0)) for n in case.names},
                          "beta_global": float(beta["beta_global"]) if "beta_global" in beta else None, "sum": float(beta["sum"]),
                          "keys": sorted(str(k) for k in beta)}
        else:
            cap["ret"] = {"beta": float(beta)}
        cap["ret"]["rc"] = {n: float(R.get_relaxed_cost(projs[n])) for n in case.names}
        cap["ret"]["alloc"] = sorted(p.name for p in res.allocation)
        cap["ret"]["b"] = float(res.voter_budget)
    if job.get("want_result"):
        ok = res.status in (mip.OptimizationStatus.OPTIMAL, mip.OptimizationStatus.FEASIBLE)
        cap["result"] = {"status": res.status.name, "alloc": sorted(p.name for p in res.allocation) if ok else None,
                         "b": float(res.voter_budget) if ok else None,
                         "pf": [{p.name: float(v) for p, v in d.items()} for d in res.payment_functions] if ok else None}
    return cap


def _worker(fd):
    out = os.fdopen(fd, "w")
    devnull = os.open(os.devnull, os.O_WRONLY)
    os.dup2(devnull, 1)
    os.dup2(devnull, 2)
    for line in sys.stdin:
        line = line.strip()
        if not line:
            continue
        job = json.loads(line)
        try:
            ans = _capture(job)
        except Exception as e:  # noqa: BLE001
            ans = {"error": f"{type(e).__name__}: {e}"}
        out.write(json.dumps(ans) + "\n")
        out.flush()


if __name__ == "__main__":
    _worker(int(sys.argv[sys.argv.index("--fd") + 1]))
