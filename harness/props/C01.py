"""C01 — every rule outcome is a feasible set of distinct instance projects; the call returns normally."""
from __future__ import annotations

from fractions import Fraction as F

from .. import core, rulegen, rules, ruleprops, solverbox
from ..core import Case
from ..ruleprops import violation

RULE = ("seeded structured elections x rule configurations (rule, measure, tie rule, Profile/MultiProfile, resolute/irresolute, "
        "initial allocation); the ILP path of the welfare maximiser in a child process (general elections and the corners: nothing left to decide, "
        "no project, empty ballots; solver faults discarded); plus a high-volume predicate-only stream of small elections with a binding budget (3-7 projects of varied "
        "cost, budget between the dearest project and the total: several purchase rounds, every rule in turn); "
        "non-trivial = at least 2 projects, at least one project selected, distinct by canonical case+cfg hash")
ASSUMPTIONS = ["exact-arithmetic mode (FRACTION = gmpy2)", ">=1 voter, positive budget, non-negative exact costs, feasible initial allocation"]
TRUSTED = ["ILP path: CBC solver answers re-validated exactly; solver faults discarded"]


def outcomes_of(it):
    kind, val = it.ans
    if kind == "ok":
        return [val]
    if kind == "oks":
        return val
    return []


def predicate(it):
    case, cfg = it.case, it.cfg
    out = []
    kind, val = it.ans
    sig = {"rule": cfg["rule"], "sat": cfg.get("sat"), "err": val if kind == "err" else None}
    if kind == "err":
        if val == "tie" and cfg.get("tie") == "refuse":
            return out  # documented behaviour of the refusing rule
        out.append(violation(f"rule raised {val}: {it.raw!r}", case, cfg, impl=rules.canon(it.ans), sig=sig))
        return out
    init_ids = set(case.ids(cfg.get("init") or []))
    all_ids = set(range(len(case.names)))
    for W in outcomes_of(it):
        if len(set(W)) != len(W):
            out.append(violation("project selected twice", case, cfg, impl=W, sig=sig))
        if not set(W) <= all_ids:
            out.append(violation("outcome contains a non-instance project", case, cfg, impl=W, sig=sig))
        if not init_ids <= set(W):
            out.append(violation("initial allocation not included", case, cfg, impl=W, sig=sig))
        cost = sum((case.cost[case.names[i]] for i in W), F(0))
        if cost > case.budget:
            out.append(violation(f"outcome cost {cost} exceeds budget {case.budget}", case, cfg, impl=W, sig=sig))
    if kind == "oks" and len(val) == 0:
        out.append(violation("irresolute call returned no allocation", case, cfg, impl=val, sig=sig))
    return out


def nontrivial(it):
    return len(it.case.projects) >= 2 and any(len(W) > 0 for W in outcomes_of(it))


def pairs(ctx, n):
    rng = ctx.rng
    for _ in range(n):
        case = core.gen_election(rng)
        cfg = rulegen.gen_rule_cfg(rng, case, allow_refuse=True)
        yield case, cfg


def run(ctx):
    ctx.rule = RULE
    n = ctx.scale(500, 5000)
    ruleprops.run_items(ctx, pairs(ctx, n), predicate, nontrivial)
    # corner stream: no project left to decide, all-zero costs, empty ballots
    ruleprops.run_items(ctx, corner_pairs(ctx, ctx.scale(120, 600)), predicate, nontrivial)
    wrapper_stream(ctx, ctx.scale(1500, 10000))
    ilp_stream(ctx, ctx.scale(160, 1500))
    # binding-budget volume stream (predicate only, no model run): overshooting by a rule is a rare event on random
    # elections (1 in 10^3), so it is looked for where it can show — many small multi-round elections with a tight budget
    ruleprops.run_items(ctx, tight_pairs(ctx, ctx.scale(20000, 100000)), predicate, nontrivial, compare=False, keep=False)


TIGHT_RULES = ("mes", "maxw", "mes", "greedy", "phragmen")  # Equal Shares is the slowest to show an overshoot: double share


def tight_pairs(ctx, n):
    rng = ctx.rng
    for k in range(n):
        case = core.gen_tight_election(rng, btypes=("app", "app", "app", "app", "card", "cum", "ord"), m=(3, 7), n=(2, 7))
        rule = TIGHT_RULES[k % len(TIGHT_RULES)]
        if rule == "phragmen" and case.btype != "app":
            rule = "mes"
        cfg = rulegen.gen_rule_cfg(rng, case, rules=(rule,), allow_refuse=False)
        if rule != "maxw":
            # an irresolute call returns every tied outcome: many more allocations checked per call
            cfg["res"] = not (len(case.projects) <= 6 and rng.random() < 0.5)
        ctx.count("stream", "tight-budget:" + rule)
        yield case, cfg


def wrapper_stream(ctx, n):
    """the completion / budget-increase wrappers and iterated Equal Shares: same four clauses on what they return"""
    from . import C09

    for _ in range(n):
        if ctx.budget_s is not None and ctx.elapsed() > ctx.budget_s:
            break
        case, cfg = C09.gen(ctx)
        built = rules.Built(case, multi=cfg.get("multi", False))
        ctx.evaluations += 1
        ctx.count("rule", "wrapper:" + cfg["mode"])
        sig = {"rule": "wrapper:" + cfg["mode"], "base": cfg.get("rule") or ",".join(cfg.get("rules", [])) or "mes"}
        try:
            out = C09.run_wrapper(case, cfg, built)
        except Exception as e:  # noqa: BLE001
            ctx.violations.append(violation(f"wrapper raised {e!r}", case, cfg, sig=dict(sig, err=core.err_enum(e))))
            continue
        outs = [out] if cfg["res"] else list(out)
        init_ids = set(case.ids(cfg.get("init") or []))
        for o in outs:
            W = [case.rank[p.name] for p in o]
            cost = sum((case.cost[case.names[i]] for i in W), F(0))
            if len(set(W)) != len(W) or not init_ids <= set(W) or cost > case.budget:
                ctx.violations.append(violation(f"wrapper outcome {sorted(W)} (cost {cost}, budget {case.budget}) is not a feasible duplicate-free extension of the initial allocation",
                                                case, cfg, impl=sorted(W), sig=sig))
        if len(case.projects) >= 2 and any(len(o) > 0 for o in outs):
            ctx.nontrivial.add(case.key() + str(sorted(cfg.items(), key=str)))


def ilp_pairs(ctx, n):
    """the exact welfare maximiser with the OTHER solver (ILP): general elections, and the corners of the statement — every
    project already in the initial allocation, an instance without projects, empty ballots, free projects only"""
    rng = ctx.rng
    corners = corner_pairs(ctx, n)
    for k in range(n):
        if k % 2:
            case, cfg = next(corners)
            init = cfg.get("init") if cfg.get("rule") != "mes" else None
            cfg = rulegen.gen_rule_cfg(rng, case, rules=("maxw",), allow_refuse=False)
            if init is not None:
                cfg["init"] = init
            elif k % 8 == 1:
                # everything that fits, greedily, is already selected
                tot, init = F(0), []
                for nm, c in case.projects:
                    if tot + c <= case.budget:
                        init.append(nm)
                        tot += c
                cfg["init"] = init
        else:
            case = core.gen_election(rng, btypes=("app", "app", "card", "cum", "ord"), m_lo=0, m_hi=6)
            cfg = rulegen.gen_rule_cfg(rng, case, rules=("maxw",), allow_refuse=False)
        yield case, dict(cfg, algo="ilp", res=rng.random() < 0.5)


def ilp_stream(ctx, n):
    """ILP path of the welfare maximiser, in a child process (a CBC abort or an answer that is invalid for the program it was
    given is a solver fault: discarded, as the statement says); the four clauses and 'returns normally' on what it returns"""
    box = solverbox.Box()
    try:
        for case, cfg in ilp_pairs(ctx, n):
            if ctx.budget_s is not None and ctx.elapsed() > ctx.budget_s:
                break
            ans = box.ask({"case": case.to_json(), "cfg": ruleprops.cfg_json(cfg)})
            ctx.evaluations += 1
            free = len(case.names) - len(set(cfg.get("init") or []))
            ctx.count("rule", "maxw-ilp-" + ("res" if cfg["res"] else "irres") + ("-nothing-to-decide" if free == 0 else ""))
            if ans.startswith("solver-fault"):
                ctx.solver_faults += 1
                continue
            if ans.startswith("harness-error"):
                raise core.DriverError("ILP worker: " + ans)
            if ans.startswith("err"):
                parsed = ("err", ans[4:].strip())
            else:
                body = ans[2:].strip()
                if cfg["res"]:
                    parsed = ("ok", [int(x) for x in body.split(",") if x != ""])
                else:
                    parsed = ("oks", [[int(x) for x in part.split(",") if x != ""] for part in body.split("|")])
            it = ruleprops.Item(case, dict(cfg), None, parsed, ans, None)
            vs = predicate(it)
            for v in vs:
                v.setdefault("sig", {})["algo"] = "ilp"
            ctx.violations.extend(vs)
            if nontrivial(it):
                ctx.nontrivial.add(case.key() + "ilp" + str(cfg["res"]))
            ctx.sample(f"maxw-ilp res={cfg['res']} init={cfg.get('init')} on {case.enc_common()} -> {ans}", cap=6)
    finally:
        box.close()


def corner_pairs(ctx, n):
    rng = ctx.rng
    for k in range(n):
        case = core.gen_election(rng, m_hi=4)
        mode = k % 4
        if mode == 0:
            # everything already selected
            case = Case([(nm, F(0) if i else c) for i, (nm, c) in enumerate(case.projects)], case.budget, case.btype, case.ballots, case.seed)
        elif mode == 1:
            case = Case([(nm, F(0)) for nm, _ in case.projects], case.budget, case.btype, case.ballots, case.seed)
        elif mode == 2:
            empty = [{} if case.btype in ("card", "cum") else [] for _ in case.ballots]
            case = Case(case.projects, case.budget, case.btype, empty, case.seed)
        else:
            case = Case([], case.budget, case.btype, [{} if case.btype in ("card", "cum") else [] for _ in case.ballots], case.seed)
        cfg = rulegen.gen_rule_cfg(rng, case, allow_refuse=False)
        if mode == 0 and cfg["rule"] != "mes":
            tot = F(0)
            init = []
            for nm, c in case.projects:
                if tot + c <= case.budget:
                    init.append(nm)
                    tot += c
            cfg["init"] = init
        yield case, cfg


def search(ctx, disagreements):
    ctx.rule = RULE
    ruleprops.run_items(ctx, pairs(ctx, 6000), predicate, nontrivial, compare=False)
    ruleprops.run_items(ctx, tight_pairs(ctx, 40000), predicate, nontrivial, compare=False, keep=False)


def replay(payload):
    case = Case.from_json(payload["case"])
    cfg = ruleprops.cfg_from_json(payload["cfg"])
    if cfg.get("mode") is not None and "rule" not in cfg or str(payload.get("sig", {}).get("rule", "")).startswith("wrapper:"):
        # a violation of the wrapper stream: re-run the wrapper and re-judge its outcomes
        from . import C09

        built = rules.Built(case, multi=cfg.get("multi", False))
        try:
            out = C09.run_wrapper(case, cfg, built)
        except Exception as e:  # noqa: BLE001
            return False, f"still fails: wrapper raised {e!r}"
        init_ids = set(case.ids(cfg.get("init") or []))
        for o in ([out] if cfg["res"] else list(out)):
            W = [case.rank[p.name] for p in o]
            cost = sum((case.cost[case.names[i]] for i in W), F(0))
            if len(set(W)) != len(W) or not init_ids <= set(W) or cost > case.budget:
                return False, f"still fails: wrapper outcome {sorted(W)} (cost {cost}, budget {case.budget})"
        return True, "the wrapper's outcomes are feasible extensions of the initial allocation on the replayed input"
    built = rules.Built(case, multi=cfg.get("multi", False))
    rulegen.fix_loads(cfg, built)
    ans, raw = rules.impl_answer(built, cfg)
    it = ruleprops.Item(case, cfg, built, ans, raw, None)
    vs = predicate(it)
    if vs:
        return False, "still fails: " + vs[0]["what"]
    return True, "property holds on the replayed input: " + rules.canon(ans)
