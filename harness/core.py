"""
Shared machinery of the correspondence harness: election cases, generators, protocol encoding,
adapters to the real pabutools API (in-process), the Lean driver runner, canonicalisation.

Everything random derives from one random.Random(seed); every case carries its own sub-seed.
"""
from __future__ import annotations

import hashlib
import itertools
import json
import os
import random
import subprocess
import sys
import time
from fractions import Fraction as F

VERIF = os.path.dirname(os.path.dirname(os.path.abspath(__file__)))
REPO = os.environ.get("PABU_REPO", "/repo")
LEAN_DIR = os.path.join(VERIF, "lean")
DRIVER = os.path.join(LEAN_DIR, ".lake", "build", "bin", "pabu_driver")

if REPO not in sys.path:
    sys.path.insert(0, REPO)

# ----------------------------------------------------------------------------------------------
# rationals


def q2s(x) -> str:
    """protocol form of an exact number (int, Fraction, mpq)"""
    x = toF(x)
    return str(x.numerator) if x.denominator == 1 else f"{x.numerator}/{x.denominator}"


def toF(x) -> F:
    if isinstance(x, F):
        return x
    if isinstance(x, int):
        return F(x)
    if isinstance(x, float):
        return F(x)  # exact binary value
    # gmpy2 mpq / mpz
    try:
        return F(int(x.numerator), int(x.denominator))
    except AttributeError:
        return F(x)


def s2q(s: str) -> F:
    return F(s)


# ----------------------------------------------------------------------------------------------
# cases

NAME_POOL = ["p%d" % i for i in range(12)]


class Case:
    """An election + configuration.  Projects carry (name, cost); ids are name ranks."""

    def __init__(self, projects, budget, btype, ballots, seed=0, **cfg):
        self.projects = [(n, F(c)) for n, c in projects]  # presentation order
        self.budget = F(budget)
        self.btype = btype  # app | card | cum | ord
        self.ballots = ballots  # list of voters: app: list[name]; card/cum: dict name->score; ord: list[name]
        self.seed = seed
        self.cfg = dict(cfg)
        names = sorted(n for n, _ in self.projects)
        self.rank = {n: i for i, n in enumerate(names)}
        self.names = names
        self.cost = {n: c for n, c in self.projects}

    # -- structural helpers
    def ids(self, names):
        return [self.rank[n] for n in names]

    def to_json(self):
        def jb(b):
            if self.btype in ("card", "cum"):
                return {k: q2s(v) for k, v in b.items()}
            return list(b)

        return {
            "projects": [[n, q2s(c)] for n, c in self.projects],
            "budget": q2s(self.budget),
            "btype": self.btype,
            "ballots": [jb(b) for b in self.ballots],
            "seed": self.seed,
            "cfg": {k: (q2s(v) if isinstance(v, F) else v) for k, v in self.cfg.items()},
        }

    @staticmethod
    def from_json(d):
        bt = d["btype"]
        if bt in ("card", "cum"):
            ballots = [{k: F(v) for k, v in b.items()} for b in d["ballots"]]
        else:
            ballots = [list(b) for b in d["ballots"]]
        cfg = {}
        for k, v in d.get("cfg", {}).items():
            cfg[k] = v
        return Case([(n, F(c)) for n, c in d["projects"]], F(d["budget"]), bt, ballots, d.get("seed", 0), **cfg)

    def key(self):
        return hashlib.sha1(json.dumps(self.to_json(), sort_keys=True).encode()).hexdigest()

    # -- compressed (multiprofile) view: entries in first-occurrence order
    def entries(self):
        out = []
        idx = {}
        for b in self.ballots:
            k = self.ballot_key(b)
            if k in idx:
                out[idx[k]][1] += 1
            else:
                idx[k] = len(out)
                out.append([b, 1])
        return [(b, m) for b, m in out]

    def ballot_key(self, b):
        if self.btype == "app":
            return ("a",) + tuple(sorted(b))
        if self.btype in ("card", "cum"):
            return ("c",) + tuple(sorted((k, toF(v)) for k, v in b.items()))
        return ("o",) + tuple(b)

    # -- protocol
    def enc_ballot(self, b):
        if self.btype == "app":
            return ".".join(str(i) for i in sorted(self.ids(b)))
        if self.btype in ("card", "cum"):
            return ".".join(f"{self.rank[k]}~{q2s(v)}" for k, v in b.items())
        return ".".join(str(self.rank[n]) for n in b)

    def enc_common(self, entries=None, enum=None):
        """B=, P=, T=, V= tokens.  entries: list of (ballot, mult); enum: project names in impl order"""
        if entries is None:
            entries = [(b, 1) for b in self.ballots]
        if enum is None:
            enum = [n for n, _ in self.projects]
        ptok = ",".join(f"{self.rank[n]}:{q2s(self.cost[n])}" for n in enum)
        ty = {"app": "app", "card": "card", "cum": "card", "ord": "ord"}[self.btype]
        vtok = "|".join(f"{m}*{self.enc_ballot(b)}" for b, m in entries)
        return f"B={q2s(self.budget)} P={ptok} T={ty} V={vtok}"


# ----------------------------------------------------------------------------------------------
# building real pabutools objects


def pb():
    import pabutools.election as e

    return e


def build_instance(case: Case, order=None):
    from pabutools.election import Instance, Project

    projs = {n: Project(n, to_cost(c)) for n, c in case.projects}
    inst = Instance()
    for n in order if order is not None else [n for n, _ in case.projects]:
        inst.add(projs[n])
    inst.budget_limit = to_cost(case.budget)
    return inst, projs


def to_cost(c: F):
    from pabutools.fractions import frac

    return int(c) if c.denominator == 1 else frac(int(c.numerator), int(c.denominator))


def to_num(c):
    c = toF(c)
    return to_cost(c)


def build_profile(case: Case, inst, projs, multi=False, ballots=None):
    import pabutools.election as e

    ballots = case.ballots if ballots is None else ballots
    if case.btype == "app":
        prof = e.ApprovalProfile([e.ApprovalBallot([projs[n] for n in b]) for b in ballots], instance=inst)
    elif case.btype == "card":
        prof = e.CardinalProfile([e.CardinalBallot({projs[n]: to_num(s) for n, s in b.items()}) for b in ballots], instance=inst)
    elif case.btype == "cum":
        prof = e.CumulativeProfile([e.CumulativeBallot({projs[n]: to_num(s) for n, s in b.items()}) for b in ballots], instance=inst)
    else:
        prof = e.OrdinalProfile([e.OrdinalBallot([projs[n] for n in b]) for b in ballots], instance=inst)
    if multi:
        prof = prof.as_multiprofile()
    return prof


def profile_entries(case: Case, prof):
    """(ballot-as-case-form, multiplicity) in the order the implementation enumerates the profile"""
    out = []
    for b in prof:
        m = prof.multiplicity(b)
        if case.btype == "app":
            cb = [p.name for p in b]
        elif case.btype in ("card", "cum"):
            cb = {p.name: toF(s) for p, s in b.items()}
        else:
            cb = [p.name for p in b]
        out.append((cb, m))
    return out


SAT_BY_TYPE = {
    "app": [
        "Cardinality_Sat",
        "Cost_Sat",
        "Relative_Cardinality_Sat",
        "Relative_Cost_Approx_Normaliser_Sat",
        "Effort_Sat",
    ],
    "card": ["Additive_Cardinal_Sat"],
    "cum": ["Additive_Cardinal_Sat"],
    "ord": ["Additive_Borda_Sat"],
}
SAT_NONADD = {"app": ["CC_Sat", "Cost_Sqrt_Sat", "Cost_Log_Sat"], "card": ["CC_Sat"], "cum": ["CC_Sat"], "ord": []}
SAT_FLOAT_ADD = {"app": ["Additive_Cost_Sqrt_Sat", "Additive_Cost_Log_Sat"]}
SAT_MIP = {"app": ["Relative_Cost_Sat"], "card": ["Additive_Cardinal_Relative_Sat"], "cum": ["Additive_Cardinal_Relative_Sat"]}

TIES = ["lexico", "app_score", "min_cost", "max_cost"]


def sat_class(name):
    import pabutools.election.satisfaction as s

    return getattr(s, name)


def tie_rule(name, case=None, projs=None):
    import pabutools.tiebreaking as t

    if name.startswith("perm:"):
        order = [int(x) for x in name[5:].split(".") if x != ""]
        pos = {case.names[i]: k for k, i in enumerate(order)}
        return t.TieBreakingRule(lambda inst, prof, proj: pos.get(proj.name, len(pos)))
    return {
        "lexico": t.lexico_tie_breaking,
        "app_score": t.app_score_tie_breaking,
        "min_cost": t.min_cost_tie_breaking,
        "max_cost": t.max_cost_tie_breaking,
        "refuse": t.refuse_tie_breaking,
    }[name]


def err_enum(exc) -> str:
    from pabutools.tiebreaking import TieBreakingException

    if isinstance(exc, TieBreakingException):
        return "tie"
    if isinstance(exc, IndexError):
        return "index"
    if isinstance(exc, ZeroDivisionError):
        return "zeroDiv"
    if isinstance(exc, TypeError):
        return "type"
    if isinstance(exc, KeyError):
        return "key"
    if isinstance(exc, ValueError):
        return "value"
    return "other:" + type(exc).__name__


def outcome_ids(case: Case, alloc):
    return sorted(case.rank[p.name] for p in alloc)


def fmt_outcome(ids):
    return "ok " + ",".join(str(i) for i in sorted(ids))


def fmt_outcomes(list_of_ids):
    ls = sorted(sorted(l) for l in list_of_ids)
    return "ok " + "|".join(",".join(str(i) for i in l) for l in ls)


def parse_outcome(s):
    """'ok 0,1' -> [0,1];  'ok a|b' -> list of lists; 'err x' -> ('err', x)"""
    s = s.strip()
    if s.startswith("err"):
        return ("err", s[4:].strip())
    body = s[2:].strip()
    if "|" in body:
        return [[int(x) for x in part.split(",") if x != ""] for part in body.split("|")]
    return [int(x) for x in body.split(",") if x != ""]


# ----------------------------------------------------------------------------------------------
# Lean driver


class DriverError(Exception):
    pass


def run_driver(lines, timeout=600):
    """send all lines to the compiled model driver, get one answer per line"""
    if not lines:
        return []
    if not os.path.exists(DRIVER):
        raise DriverError(f"driver missing: {DRIVER} (run setup: cd lean && lake build)")
    data = "\n".join(lines) + "\n"
    p = subprocess.run([DRIVER], input=data.encode(), stdout=subprocess.PIPE, stderr=subprocess.PIPE, timeout=timeout)
    if p.returncode != 0:
        raise DriverError(f"driver exit {p.returncode}: {p.stderr.decode()[:500]}")
    out = p.stdout.decode().split("\n")
    if out and out[-1] == "":
        out.pop()
    if len(out) != len(lines):
        raise DriverError(f"driver answered {len(out)} lines for {len(lines)} cases")
    return out


# ----------------------------------------------------------------------------------------------
# generators

COST_POOLS = [
    [0, 1, 2, 3, 5],
    [1, 2, 3, 4, 6],
    [1, 1, 2, 2, 3],
    [F(1, 2), 1, F(3, 2), 2, F(5, 3)],
    [2, 2, 2, 2],
    [1, 2, 4, 8],
    [0, 0, 1, 3],
    [F(1, 3), F(2, 3), 1, F(4, 3), 0],
]


def gen_projects(rng: random.Random, m_lo=0, m_hi=6, allow_zero=True):
    m = rng.randint(m_lo, m_hi)
    pool = rng.choice(COST_POOLS)
    if not allow_zero:
        pool = [c for c in pool if c != 0] or [1]
    names = rng.sample(NAME_POOL, m)
    projects = [(n, F(rng.choice(pool))) for n in names]
    return projects


def gen_budget(rng: random.Random, projects, positive=True):
    costs = [c for _, c in projects]
    total = sum(costs, F(0))
    choices = []
    if costs:
        k = rng.randint(0, len(costs))
        sub = rng.sample(costs, k)
        choices.append(sum(sub, F(0)))
        choices.append(min(costs))
        choices.append(total)
        pos = [c for c in costs if c > 0]
        gap = min(pos) if pos else F(1)
        choices.append(sum(sub, F(0)) + gap / 2)
        choices.append(total + 1)
        choices.append(max(F(0), sum(sub, F(0)) - gap / 2))
        choices.append(total / 2)
    choices.append(F(rng.randint(1, 12)))
    b = rng.choice(choices)
    if positive and b <= 0:
        b = F(rng.randint(1, 6))
    return F(b)


def gen_ballots(rng: random.Random, btype, names, n_lo=1, n_hi=6, distinct_hi=4, full_scores=False):
    n = rng.randint(n_lo, n_hi)
    k = rng.randint(1, max(1, min(distinct_hi, n)))
    protos = []
    style = rng.random()
    for _ in range(k):
        if btype == "app":
            if style < 0.15 and names:
                # party-list structure
                parts = [names[i::2] for i in range(2)]
                b = list(rng.choice(parts))
            else:
                r = rng.random()
                if r < 0.1:
                    b = []
                elif r < 0.2:
                    b = list(names)
                else:
                    b = [x for x in names if rng.random() < 0.5]
            rng.shuffle(b)
            protos.append(b)
        elif btype in ("card", "cum"):
            b = {}
            for x in names:
                if full_scores or rng.random() < 0.6:
                    b[x] = F(rng.choice([0, 1, 1, 2, 3, F(1, 2), 5])) if btype == "card" else F(rng.choice([0, 1, 2, 3]))
            items = list(b.items())
            rng.shuffle(items)
            protos.append(dict(items))
        else:
            ln = rng.randint(0, len(names))
            b = rng.sample(names, ln)
            protos.append(b)
    ballots = []
    for i in range(n):
        p = protos[i % k] if i < k else rng.choice(protos)
        ballots.append(dict(p) if isinstance(p, dict) else list(p))
    rng.shuffle(ballots)
    return ballots


def gen_election(rng: random.Random, btypes=("app", "card", "cum", "ord"), m_lo=0, m_hi=6, n_hi=6, allow_zero=True, full_scores=False):
    sub = rng.getrandbits(48)
    r = random.Random(sub)
    btype = r.choice(list(btypes))
    projects = gen_projects(r, m_lo, m_hi, allow_zero)
    budget = gen_budget(r, projects)
    names = [n for n, _ in projects]
    ballots = gen_ballots(r, btype, names, 1, n_hi, full_scores=full_scores)
    return Case(projects, budget, btype, ballots, seed=sub)


def gen_big_election(rng: random.Random, btypes=("app",), m=(6, 9), n=(5, 9), distinct=6):
    """larger elections with varied costs and a budget that is a fraction of the total: several rounds with
    binding budgets (lazy-evaluation and caching slips only show after a few rounds)"""
    sub = rng.getrandbits(48)
    r = random.Random(sub)
    btype = r.choice(list(btypes))
    k = r.randint(*m)
    names = r.sample(["q%02d" % i for i in range(24)], k)
    pool = r.choice([[1, 2, 3, 4, 5, 6, 7, 8], [1, 2, 3, 5, 8, 13], [2, 3, 4, F(5, 2), F(7, 2), 6], [1, 1, 2, 2, 3, 3, 4]])
    projects = [(nm, F(r.choice(pool))) for nm in names]
    tot = sum((c for _, c in projects), F(0))
    budget = tot * F(r.choice([1, 2, 1]), r.choice([3, 4, 2]))
    if budget <= 0:
        budget = F(1)
    nv = r.randint(*n)
    ballots = gen_ballots(r, btype, names, nv, nv, distinct_hi=distinct)
    return Case(projects, budget, btype, ballots, seed=sub)


def gen_init(rng: random.Random, case: Case):
    """a random feasible subset as initial allocation (often empty)"""
    if rng.random() < 0.6 or not case.projects:
        return []
    names = [n for n, _ in case.projects]
    rng.shuffle(names)
    out, tot = [], F(0)
    for n in names:
        if rng.random() < 0.5 and tot + case.cost[n] <= case.budget:
            out.append(n)
            tot += case.cost[n]
    return out


# ----------------------------------------------------------------------------------------------
# shrinking


def shrink_case(case: Case, fails, max_steps=200):
    """greedy shrinking: drop voters, drop projects, simplify costs, while `fails(case)` stays true"""
    steps = 0
    cur = case
    changed = True
    while changed and steps < max_steps:
        changed = False
        # drop a voter
        for i in range(len(cur.ballots)):
            if len(cur.ballots) <= 1:
                break
            c2 = Case(cur.projects, cur.budget, cur.btype, cur.ballots[:i] + cur.ballots[i + 1 :], cur.seed, **cur.cfg)
            steps += 1
            if _safe(fails, c2):
                cur, changed = c2, True
                break
        if changed:
            continue
        # drop a project
        for i in range(len(cur.projects)):
            n = cur.projects[i][0]
            if n in (cur.cfg.get("init") or []):
                continue
            projs = cur.projects[:i] + cur.projects[i + 1 :]
            if cur.btype in ("card", "cum"):
                bl = [{k: v for k, v in b.items() if k != n} for b in cur.ballots]
            else:
                bl = [[x for x in b if x != n] for b in cur.ballots]
            cfg = dict(cur.cfg)
            if isinstance(cfg.get("tie"), str) and cfg["tie"].startswith("perm:"):
                continue
            c2 = Case(projs, cur.budget, cur.btype, bl, cur.seed, **cfg)
            steps += 1
            if _safe(fails, c2):
                cur, changed = c2, True
                break
    return cur


def _safe(f, c):
    try:
        return bool(f(c))
    except Exception:
        return False


def gen_tight_election(rng: random.Random, btypes=("app",), m=(3, 6), n=(2, 6)):
    """small elections with varied costs, ballots of mixed sizes and a BINDING budget somewhere between the dearest
    project and the total: several purchase rounds, a rule that overshoots is visible on the total, supporters who have
    already spent part of their share (Equal Shares) / items at the frontier of the knapsack bound (welfare maximiser)"""
    sub = rng.getrandbits(48)
    r = random.Random(sub)
    btype = r.choice(list(btypes))
    k = r.randint(*m)
    names = r.sample(NAME_POOL, k)
    style = r.random()
    if style < 0.6:
        hi = r.choice([4, 6, 9, 12])
        costs = [F(r.randint(1, hi)) for _ in names]
    elif style < 0.8:
        den = r.choice([2, 3, 4, 6])
        costs = [F(r.randint(1, 4 * den), den) for _ in names]
    else:
        base = r.choice([2, 3, 5])
        costs = [F(base + r.choice([-1, 0, 0, 1, 2])) for _ in names]
    projects = list(zip(names, costs))
    tot = sum(costs, F(0))
    lo = max(costs)
    u = r.random()
    if u < 0.5 and tot.denominator == 1 and lo.denominator == 1:
        budget = F(r.randint(int(lo), int(tot)))
    elif u < 0.8:
        budget = lo + (tot - lo) * F(r.randint(0, 8), 8)
    else:
        sub_ = [c for c in costs if r.random() < 0.6] or [lo]
        budget = max(lo, sum(sub_, F(0)))
    nv = r.randint(*n)
    ballots = []
    for _ in range(nv):
        if btype == "app":
            p = r.choice([0.3, 0.5, 0.5, 0.7])
            b = [x for x in names if r.random() < p]
            if not b and r.random() < 0.8:
                b = [r.choice(names)]
            r.shuffle(b)
        elif btype in ("card", "cum"):
            b = {x: F(r.choice([1, 1, 2, 3, 5])) for x in names if r.random() < 0.55}
        else:
            b = r.sample(names, r.randint(0, k))
        ballots.append(b)
    if nv >= 3 and r.random() < 0.3:
        ballots[-1] = dict(ballots[0]) if isinstance(ballots[0], dict) else list(ballots[0])
    return Case(projects, budget, btype, ballots, seed=sub)


RATIO_POOL = sorted({F(a, b) for a in (1, 2, 3, 5, 7, 14, 21) for b in (1, 2, 3, 4, 5, 6, 10)})
HUGE = 2**60


def gen_equalcost_election(rng: random.Random, btypes=("app",), m=(3, 6), n=(2, 6)):
    """elections in which several projects have the SAME cost (costs drawn from one or two values), ballots approve many
    projects and the budget fits some of them only: what counts per ballot here — how many of its projects fit together,
    their total cost — is what the voter-normalised measures divide by; a helper that collapses equal costs, or equal
    projects, into one shows on nothing else"""
    sub = rng.getrandbits(48)
    r = random.Random(sub)
    btype = r.choice(list(btypes))
    k = r.randint(*m)
    names = r.sample(NAME_POOL, k)
    a = F(r.choice([1, 2, 2, 3, 5])) / r.choice([1, 1, 1, 2, 3])
    b = a * r.choice([1, 2, 2, 3, F(3, 2)])
    costs = [a if r.random() < 0.65 else b for _ in names]
    projects = list(zip(names, costs))
    tot = sum(costs, F(0))
    u = r.random()
    if u < 0.6:
        budget = a * r.randint(2, max(2, k - 1))
    else:
        budget = max(costs) + (tot - max(costs)) * F(r.randint(1, 7), 8)
    nv = r.randint(*n)
    ballots = []
    for _ in range(nv):
        if btype == "app":
            bl = [x for x in names if r.random() < 0.65]
            if len(bl) < 2:
                bl = r.sample(names, min(2, k))
            r.shuffle(bl)
        elif btype in ("card", "cum"):
            bl = {x: F(r.choice([1, 1, 2, 3])) for x in names if r.random() < 0.7}
            if not bl:
                bl = {r.choice(names): F(1)}
        else:
            bl = r.sample(names, r.randint(min(2, k), k))
        ballots.append(bl)
    if r.random() < 0.4 and ballots:
        ballots.append(ballots[0] if btype != "card" and btype != "cum" else dict(ballots[0]))
    return Case(projects, budget, btype, ballots, seed=sub)


def gen_proportional_election(rng: random.Random, btypes=("app",), m=(2, 6), n=(2, 8)):
    """exact-arithmetic stress: the cost of most projects is (total support) x k for one of two rational factors k, so
    that projects are TIED on support per unit of cost at a value that is usually not a dyadic number, while their costs
    are of mixed kinds (some integral, some proper fractions — also after a common scaling by 1/3, 10/7, ...); the budget
    fits only some of them.  Any rounding in the comparison of the ratios changes which project wins."""
    sub = rng.getrandbits(48)
    r = random.Random(sub)
    btype = r.choice(list(btypes))
    k = r.randint(*m)
    names = r.sample(NAME_POOL, k)
    nv = r.randint(*n)
    ks = [r.choice(RATIO_POOL), r.choice(RATIO_POOL)]
    if btype == "app":
        ballots = [[] for _ in range(nv)]
        support = {}
        for x in names:
            s = r.randint(1, nv)
            for v in r.sample(range(nv), s):
                ballots[v].append(x)
            support[x] = F(s)
        for b in ballots:
            r.shuffle(b)
    else:
        ballots = [dict() for _ in range(nv)]
        support = {}
        for x in names:
            s = r.randint(1, nv)
            tot = F(0)
            for v in r.sample(range(nv), s):
                sc = F(r.choice([1, 1, 2, 3]))
                ballots[v][x] = sc
                tot += sc
            support[x] = tot
    projects = []
    for x in names:
        u = r.random()
        if u < 0.8:
            c = support[x] * ks[0 if r.random() < 0.75 else 1]
        else:
            c = F(r.choice([1, 2, 3, F(3, 2), F(7, 3), 5]))
        projects.append((x, c))
    budget = _binding_budget(r, projects)
    return Case(projects, budget, btype, ballots, seed=sub)


def _binding_budget(r, projects):
    """a budget that fits a proper part of the projects: the cost of a random non-empty proper subset, sometimes plus
    half of the cheapest positive cost (so that nothing fits exactly)"""
    costs = [c for _, c in projects]
    if len(costs) < 2:
        return gen_budget(r, projects)
    sub_ = r.sample(costs, r.randint(1, len(costs) - 1))
    b = sum(sub_, F(0))
    pos = [c for c in costs if c > 0]
    if pos and r.random() < 0.3:
        b += min(pos) / 2
    if b <= 0:
        b = min(pos) if pos else F(1)
    return F(b)


def gen_huge_election(rng: random.Random, m=(2, 5), n=(1, 5)):
    """exact-arithmetic stress, magnitudes: cardinal scores (and sometimes costs) far above 2**53 whose totals differ by
    one or two units — differences that any detour through binary floating point erases or invents"""
    sub = rng.getrandbits(48)
    r = random.Random(sub)
    k = r.randint(*m)
    names = r.sample(NAME_POOL, k)
    nv = r.randint(*n)
    big_cost = r.random() < 0.4
    unit = F(HUGE + r.choice([0, 1, 3])) if big_cost else F(1)
    pool = r.choice([[1, 1, 2], [2, 2, 3], [1, 2, 3, 3], [F(3, 2), 3, 3]])
    projects = [(x, F(r.choice(pool)) * unit) for x in names]
    ballots = []
    for _ in range(nv):
        b = {x: F(HUGE * r.choice([1, 1, 2]) + r.choice([0, 0, 1, 2, 3])) for x in names if r.random() < 0.8}
        ballots.append(b)
    budget = _binding_budget(r, projects)
    return Case(projects, budget, "card", ballots, seed=sub)


# names that mix purely numeric identifiers (as in Pabulib files), numbers with leading zeros, and alphanumeric ones: an order on
# projects that treats some pairs "naturally" and others as strings is not transitive on them ("2" < "10" < "1a" < "2")
MIXED_NAMES = ["2", "10", "1a", "9", "07", "100", "1", "a1", "A1", "b", "10a", "3b", "20", "02", "z", "P2", "p10", "p9", "11", "1_0"]


def rename_case(case: "Case", mapping) -> "Case":
    """the same election with other project names (ranks follow the new names' string order)"""
    def rb(b):
        if case.btype in ("card", "cum"):
            return {mapping[k]: v for k, v in b.items()}
        return [mapping[k] for k in b]

    return Case([(mapping[n], c) for n, c in case.projects], case.budget, case.btype, [rb(b) for b in case.ballots], case.seed, **case.cfg)


def with_mixed_names(rng: random.Random, case: "Case") -> "Case":
    names = [n for n, _ in case.projects]
    if len(names) > len(MIXED_NAMES):
        return case
    new = rng.sample(MIXED_NAMES, len(names))
    return rename_case(case, dict(zip(names, new)))


def gen_scoretie_election(rng: random.Random, m=(2, 5)):
    """approval elections in which EVERY project costs the same amount per supporting VOTER (cost = r x number of supporters), built
    from a few distinct ballots with multiplicities 1..4: projects with different approval scores tie on price per supporter (first
    Phragmen load, first Equal Shares price, greedy density under Cost_Sat-like measures), while their numbers of distinct
    supporting ballots are equal or ordered the other way; binding budget"""
    sub = rng.getrandbits(48)
    r = random.Random(sub)
    k = r.randint(*m)
    names = r.sample(NAME_POOL, k)
    nb = r.randint(2, 4)
    mult = [r.choice([1, 1, 2, 2, 3, 4]) for _ in range(nb)]
    if len(set(mult)) == 1:
        mult[0] += 1
    appr = [[x for x in names if r.random() < 0.5] for _ in range(nb)]
    for x in names:
        if not any(x in a for a in appr):
            r.choice(appr).append(x)
    rate = F(r.choice([1, 1, 2, F(1, 2), F(3, 2)]))
    score = {x: sum(mu for a, mu in zip(appr, mult) if x in a) for x in names}
    projects = [(x, rate * score[x]) for x in names]
    costs = [c for _, c in projects]
    tot = sum(costs, F(0))
    lo = max(costs)
    budget = r.choice([lo, lo + min(costs), tot - min(costs) if tot - min(costs) >= lo else lo, lo + (tot - lo) * F(r.randint(0, 4), 4)])
    ballots = []
    for a, mu in zip(appr, mult):
        for _ in range(mu):
            ballots.append(sorted(a))
    r.shuffle(ballots)
    return Case(projects, budget, "app", ballots, seed=sub)


def gen_neartie_election(rng: random.Random, m=(2, 5), n=(2, 5)):
    """cardinal elections whose per-project price-per-utility values are CLOSE without being equal: every score is a
    multiple of a large N plus 0..2, so cost / (total score) differs between projects by about 1/N**2 (below any
    'equal up to rounding' threshold for N >= 1500) while exact arithmetic still tells them apart; small costs, a binding
    budget, every project with a supporter"""
    sub = rng.getrandbits(48)
    r = random.Random(sub)
    k = r.randint(*m)
    names = r.sample(NAME_POOL, k)
    N = r.choice([1500, 2000, 2001, 10**4, 10**6, 2**31, 2**53 + 1])
    pool = r.choice([[1, 1, 2], [1, 2, 2], [1, 1, 1], [F(3, 2), 3, 3]])
    projects = [(x, F(r.choice(pool))) for x in names]
    nv = r.randint(*n)
    ballots = []
    for _ in range(nv):
        b = {x: F(N * r.choice([1, 1, 2]) + r.choice([0, 0, 1, 2])) for x in names if r.random() < 0.6}
        ballots.append(b)
    for x in names:
        if not any(x in b for b in ballots):
            r.choice(ballots)[x] = F(N + r.choice([0, 1]))
    budget = _binding_budget(r, projects)
    return Case(projects, budget, "card", ballots, seed=sub)


# ----------------------------------------------------------------------------------------------
# opt-in generators added in round 4 (nothing above draws from them: the streams of the existing checks are unchanged)


def gen_degenerate_election(rng: random.Random, btypes=("app",), m=(1, 5), n=(1, 5)):
    """degenerate budgets x free projects: the budget limit is exactly 0, exactly the cost of one project, exactly the
    total cost, or one of these minus/plus the smallest positive cost — on elections that usually hold one or two
    zero-cost projects, most of them supported by some voter (a rule that decides 'nothing can be bought' from the
    budget alone forgets the projects that cost nothing)"""
    sub = rng.getrandbits(48)
    r = random.Random(sub)
    btype = r.choice(list(btypes))
    k = r.randint(*m)
    names = r.sample(NAME_POOL, k)
    pool = r.choice([[1, 2, 3], [1, 1, 2], [2, 3, 5], [F(1, 2), 1, F(3, 2)], [1, 2, 4], [F(1, 3), F(2, 3), 1]])
    costs = [F(r.choice(pool)) for _ in names]
    free = []
    if r.random() < 0.8:
        free = r.sample(range(k), min(k, r.choice([1, 1, 2])))
        for i in free:
            costs[i] = F(0)
    projects = list(zip(names, costs))
    tot = sum(costs, F(0))
    pos = [c for c in costs if c > 0]
    gap = min(pos) if pos else F(1)
    u = r.random()
    if u < 0.4:
        budget = F(0)
    elif u < 0.6:
        budget = F(r.choice(costs))
    elif u < 0.75:
        budget = tot
    elif u < 0.85:
        budget = max(F(0), tot - gap)
    elif u < 0.95:
        budget = gap / 2
    else:
        budget = tot + gap
    nv = r.randint(*n)
    ballots = gen_ballots(r, btype, names, nv, nv)
    # most free projects get a supporter (for cardinal ballots: a positive score; for rankings: not the last place)
    for i in free:
        if r.random() < 0.8:
            x = names[i]
            b = ballots[r.randrange(nv)]
            if btype == "app":
                if x not in b:
                    b.append(x)
            elif btype in ("card", "cum"):
                b[x] = F(r.choice([1, 2, 3]))
            else:
                if x in b:
                    b.remove(x)
                b.insert(0, x)
    return Case(projects, budget, btype, ballots, seed=sub)


def gen_overbudget_election(rng: random.Random, m=(2, 6), n=(2, 6)):
    """approval elections holding a widely supported project that costs MORE than the whole budget limit (by half a unit
    up to twice the limit), next to cheaper ones that do not all fit: a rule run with inflated voter budgets (iterated
    Equal Shares) can pay for the dear project although no feasible allocation holds it"""
    sub = rng.getrandbits(48)
    r = random.Random(sub)
    k = r.randint(*m)
    names = r.sample(NAME_POOL, k)
    pool = r.choice([[1, 2, 3, 4], [1, 1, 2, 2, 3], [2, 3, 5], [F(1, 2), 1, F(3, 2), 2], [1, 2, 4]])
    costs = [F(r.choice(pool)) for _ in names]
    dear = r.sample(range(k), 1 if r.random() < 0.8 or k < 3 else 2)
    cheap = [c for i, c in enumerate(costs) if i not in dear]
    budget = sum(r.sample(cheap, r.randint(1, len(cheap))), F(0))
    if r.random() < 0.3:
        budget += min(cheap) / 2
    for i in dear:
        costs[i] = budget + r.choice([F(1, 2), 1, 1, 2, budget / 2, budget])
    nv = r.randint(*n)
    ballots = []
    for _ in range(nv):
        p = r.choice([0.3, 0.5, 0.5, 0.7])
        b = [x for i, x in enumerate(names) if r.random() < (0.8 if i in dear else p)]
        r.shuffle(b)
        ballots.append(b)
    if not any(names[dear[0]] in b for b in ballots):
        ballots[r.randrange(nv)].append(names[dear[0]])
    projects = list(zip(names, costs))
    r.shuffle(projects)
    return Case(projects, budget, "app", ballots, seed=sub)


def collection_variants(items, alloc_cls=None, one_shot=True):
    """The same collection as the argument types a caller may use for it (round 7 of the seeded changes: a check or a fast path
    placed before the copy of an argument consumes a one-shot iterable).  Returns [(label, factory)]; every factory builds a
    FRESH object, so a generator is never handed over twice.  `one_shot=False` leaves the iterators out (for parameters the
    unchanged library itself traverses twice)."""
    items = list(items)
    out = [("tuple", lambda: tuple(items)), ("set", lambda: set(items)), ("frozenset", lambda: frozenset(items)),
           ("dict_keys", lambda: dict.fromkeys(items).keys()), ("reversed_list", lambda: list(reversed(items)))]
    if one_shot:
        out += [("generator", lambda: (p for p in items)), ("iter", lambda: iter(items)), ("map", lambda: map(lambda p: p, items)),
                ("filter", lambda: filter(lambda p: True, items))]
    if alloc_cls is not None:
        out.append(("BudgetAllocation", lambda: alloc_cls(items)))
    return out


INIT_TYPES = ["list", "list", "list", "tuple", "set", "BudgetAllocation", "generator", "iter", "map", "dict_keys", "frozenset", "filter"]


def pick_init_type(seed, k):
    """the argument type of an initial allocation: a deterministic function of the case (so that a replay hands over the same kind)"""
    return INIT_TYPES[(int(seed) * 2654435761 + 97 * int(k)) % 4294967296 % len(INIT_TYPES)]


def shape_init(items, kind):
    """the initial allocation `items` (a list of projects) as the argument type `kind`; one-shot iterables are built afresh"""
    items = list(items)
    if kind == "BudgetAllocation":
        from pabutools.rules import BudgetAllocation

        return BudgetAllocation(items)
    return {"list": lambda: list(items), "tuple": lambda: tuple(items), "set": lambda: set(items), "frozenset": lambda: frozenset(items),
            "generator": lambda: (p for p in items), "iter": lambda: iter(items), "map": lambda: map(lambda p: p, items),
            "filter": lambda: filter(lambda p: True, items), "dict_keys": lambda: dict.fromkeys(items).keys()}[kind]()
