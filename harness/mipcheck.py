"""
mipcheck — exact re-validation of every answer the bundled CBC solver gives, inside the process that calls it.
`install()` wraps mip.Model.optimize: after each call the model that was actually handed to the solver
(objective, constraints, binary variables) is read back and the reported status/solution is checked by brute
force over all 0/1 assignments (models here have <= 12 variables).  An answer that is invalid for the model it
was given (infeasible point, non-optimal value, "infeasible" for a feasible model) is a SOLVER FAULT, recorded
in `FAULTS`; the properties exclude such cases.
"""
from __future__ import annotations

import itertools
from fractions import Fraction as F

FAULTS = []
CALLS = [0]
MAXV = 14


def _lin(expr):
    """LinExpr -> ({var_idx: Fraction}, const Fraction)"""
    coeffs = {}
    for v, c in expr.expr.items():
        coeffs[v.idx] = coeffs.get(v.idx, F(0)) + F(c)
    return coeffs, F(expr.const)


def check(model, status):
    import mip

    n = len(model.vars)
    if n > MAXV:
        return
    if n == 0:
        # python-mip does not call CBC for a model without variables ("Model has no variables. Nothing to optimize.",
        # status OTHER): whatever the library does next is its own doing, not a solver fault (D46)
        return
    try:
        obj, oc = _lin(model.objective)
        cons = []
        for c in model.constrs:
            co, k = _lin(c.expr)
            cons.append((co, k, c.expr.sense))
        maximize = model.sense == mip.MAXIMIZE
    except Exception as e:  # noqa: BLE001
        FAULTS.append("unreadable model: %r" % (e,))
        return
    tol = F(1, 10**6)

    def feas(x):
        for co, k, sense in cons:
            v = sum((c * x[i] for i, c in co.items()), F(0)) + k
            if sense == "<" and v > tol:
                return False
            if sense == ">" and v < -tol:
                return False
            if sense == "=" and abs(v) > tol:
                return False
        return True

    best = None
    for bits in itertools.product((0, 1), repeat=n):
        if feas(bits):
            val = sum((c * bits[i] for i, c in obj.items()), F(0)) + oc
            if best is None or (val > best if maximize else val < best):
                best = val
    if status == mip.OptimizationStatus.OPTIMAL:
        xs = []
        for v in model.vars:
            if v.x is None:
                FAULTS.append("optimal status without a solution")
                return
            r = round(v.x)
            if abs(v.x - r) > 1e-6 or r not in (0, 1):
                FAULTS.append("non-integral solution")
                return
            xs.append(int(r))
        if not feas(xs):
            FAULTS.append("solution violates a constraint of the model it was given")
            return
        val = sum((c * xs[i] for i, c in obj.items()), F(0)) + oc
        if best is None or abs(val - best) > tol * max(1, abs(best)):
            FAULTS.append("solution is not optimal for the model it was given")
    elif status in (mip.OptimizationStatus.INFEASIBLE, mip.OptimizationStatus.INT_INFEASIBLE):
        if best is not None:
            FAULTS.append("reported infeasible for a feasible model")
    else:
        FAULTS.append("unexpected solver status %s" % status)


def install():
    import mip

    if getattr(mip.Model, "_pabu_wrapped", False):
        return
    orig = mip.Model.optimize

    def optimize(self, *a, **kw):
        st = orig(self, *a, **kw)
        CALLS[0] += 1
        try:
            check(self, st)
        except Exception as e:  # noqa: BLE001
            FAULTS.append("validator error %r" % (e,))
        return st

    mip.Model.optimize = optimize
    mip.Model._pabu_wrapped = True


def take_faults():
    f = list(FAULTS)
    FAULTS.clear()
    return f
