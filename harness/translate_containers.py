"""
translate_containers — regenerate lean/Gen/Containers.lean from the class sources of the library (C17).

Reads (with `ast`, nothing is imported or executed) the container classes of
  pabutools/election/instance.py, election/ballot/*.py, election/profile/*.py,
  election/satisfaction/satisfactionprofile.py, rules/budgetallocation.py
and writes one `ClassRow` per container class:
  base          builtin base (first of set/list/dict/Counter/tuple met walking the bases left to right)
  wrapped       names registered by `<Class>._wrap_methods([...])` calls whose receiver is the class itself
                (a registration on an ancestor re-wraps into the ancestor, so it does not count)
  ownMethods    methods defined in the class body
  inherited     methods defined in the bodies of its ancestors that live in the library
  validating    methods (own or inherited) whose body calls `self.validate_ballot(...)`
  ctorCopies    the class's `__init__` copies attributes from an `init` object of its family (`isinstance(init, ...)`)
  ctorKeeps     no statement of `__init__` re-runs an abstract initialiser without arguments after name/meta were set
                (the D21 pattern `AbstractXBallot.__init__(self)`)
  metaDefaultOk no `meta = dict` assignment (the type instead of an empty dict)
  asMultiComplete  (list profiles) `as_multiprofile` passes every `legal_*` parameter of the constructor

What it cannot see: behaviour of the method bodies beyond these syntactic facts (e.g. whether an override really
returns an object of the right class) - that is what the operation-sequence harness (harness/props/C17.py) checks.
"""
from __future__ import annotations

import ast
import os

BUILTIN = {"set": "set", "list": "list", "dict": "dict", "Counter": "counter", "tuple": "tuple"}
FILES = [
    "pabutools/election/instance.py",
    "pabutools/election/ballot/ballot.py",
    "pabutools/election/ballot/approvalballot.py",
    "pabutools/election/ballot/cardinalballot.py",
    "pabutools/election/ballot/cumulativeballot.py",
    "pabutools/election/ballot/ordinalballot.py",
    "pabutools/election/profile/profile.py",
    "pabutools/election/profile/approvalprofile.py",
    "pabutools/election/profile/cardinalprofile.py",
    "pabutools/election/profile/cumulativeprofile.py",
    "pabutools/election/profile/ordinalprofile.py",
    "pabutools/election/satisfaction/satisfactionmeasure.py",
    "pabutools/election/satisfaction/satisfactionprofile.py",
    "pabutools/rules/budgetallocation.py",
]
TARGETS = [
    ("Instance", "inst"),
    ("ApprovalBallot", "ballot"), ("CardinalBallot", "ballot"), ("CumulativeBallot", "ballot"), ("OrdinalBallot", "ballot"),
    ("FrozenApprovalBallot", "frozenBallot"), ("FrozenCardinalBallot", "frozenBallot"),
    ("FrozenCumulativeBallot", "frozenBallot"), ("FrozenOrdinalBallot", "frozenBallot"),
    ("ApprovalProfile", "listProfile"), ("CardinalProfile", "listProfile"), ("CumulativeProfile", "listProfile"), ("OrdinalProfile", "listProfile"),
    ("ApprovalMultiProfile", "multiProfile"), ("CardinalMultiProfile", "multiProfile"),
    ("CumulativeMultiProfile", "multiProfile"), ("OrdinalMultiProfile", "multiProfile"),
    ("SatisfactionProfile", "satProfile"), ("SatisfactionMultiProfile", "satProfile"),
    ("BudgetAllocation", "allocation"),
]  # fmt: skip


def _base_name(node):
    if isinstance(node, ast.Subscript):
        return _base_name(node.value)
    if isinstance(node, ast.Name):
        return node.id
    if isinstance(node, ast.Attribute):
        return node.attr
    return None


def parse(repo):
    classes = {}
    wraps = {}
    for rel in FILES:
        path = os.path.join(repo, rel)
        tree = ast.parse(open(path).read(), filename=path)
        for node in tree.body:
            if isinstance(node, ast.ClassDef):
                methods = {n.name: n for n in node.body if isinstance(n, (ast.FunctionDef, ast.AsyncFunctionDef))}
                classes[node.name] = {"bases": [_base_name(b) for b in node.bases], "methods": methods, "file": rel}
            elif isinstance(node, ast.Expr) and isinstance(node.value, ast.Call):
                f = node.value.func
                if isinstance(f, ast.Attribute) and f.attr == "_wrap_methods" and isinstance(f.value, ast.Name):
                    for a in node.value.args:
                        if isinstance(a, ast.List):
                            wraps.setdefault(f.value.id, []).extend(e.value for e in a.elts if isinstance(e, ast.Constant))
    return classes, wraps


def ancestors(classes, name, seen=None):
    """library ancestors in left-to-right depth-first order (an approximation of the MRO that is exact for 'who defines m')"""
    out = []
    seen = set() if seen is None else seen
    for b in classes.get(name, {}).get("bases", []):
        if b in classes and b not in seen:
            seen.add(b)
            out.append(b)
            out.extend(ancestors(classes, b, seen))
    return out


def builtin_base(classes, name):
    for b in classes[name]["bases"]:
        if b in BUILTIN:
            return BUILTIN[b]
        if b in classes:
            r = builtin_base(classes, b)
            if r:
                return r
    return None


def _calls_validate(fn):
    for n in ast.walk(fn):
        if isinstance(n, ast.Call) and isinstance(n.func, ast.Attribute) and n.func.attr == "validate_ballot":
            return True
    return False


def _ctor_facts(fn):
    copies = False
    keeps = True
    meta_ok = True
    if fn is None:
        return False, True, True
    for n in ast.walk(fn):
        if isinstance(n, ast.Call) and isinstance(n.func, ast.Name) and n.func.id == "isinstance" and n.args and isinstance(n.args[0], ast.Name) and n.args[0].id == "init":
            copies = True
        if isinstance(n, ast.Assign) and len(n.targets) == 1 and isinstance(n.targets[0], ast.Name) and n.targets[0].id == "meta":
            if isinstance(n.value, ast.Name) and n.value.id == "dict":
                meta_ok = False
    # statement-level `X.__init__(self)` without further arguments where X is a ballot class: resets name/meta
    set_seen = False
    for st in fn.body:
        for n in ast.walk(st):
            if isinstance(n, ast.Call) and isinstance(n.func, ast.Attribute) and n.func.attr == "__init__" and isinstance(n.func.value, ast.Name):
                recv = n.func.value.id
                nargs = len(n.args) + len(n.keywords)
                if "Ballot" in recv:
                    if nargs > 1:
                        set_seen = True
                    elif set_seen:
                        keeps = False
    return copies, keeps, meta_ok


def _as_multi_complete(cls):
    fn = cls["methods"].get("as_multiprofile")
    init = cls["methods"].get("__init__")
    if fn is None or init is None:
        return True
    legal = {a.arg for a in init.args.args if a.arg.startswith("legal_")}
    passed = set()
    for n in ast.walk(fn):
        if isinstance(n, ast.Call):
            passed |= {k.arg for k in n.keywords if k.arg}
    return legal <= passed


def rows(repo):
    classes, wraps = parse(repo)
    out = []
    for name, role in TARGETS:
        c = classes[name]
        anc = ancestors(classes, name)
        own = sorted(c["methods"])
        inh = sorted({m for a in anc for m in classes[a]["methods"]} - set(own))
        validating = sorted(
            {m for m, fn in c["methods"].items() if _calls_validate(fn)}
            | {m for a in anc for m, fn in classes[a]["methods"].items() if m not in c["methods"] and _calls_validate(fn)}
        )
        copies, keeps, meta_ok = _ctor_facts(c["methods"].get("__init__"))
        out.append(
            {
                "name": name,
                "base": builtin_base(classes, name),
                "role": role,
                "wrapped": sorted(set(wraps.get(name, []))),
                "ownMethods": own,
                "inherited": inh,
                "validating": validating,
                "ctorCopies": copies,
                "ctorKeeps": keeps,
                "metaDefaultOk": meta_ok,
                "asMultiComplete": _as_multi_complete(c),
            }
        )
    return out


def _lean_list(l):
    return "[" + ", ".join('"%s"' % x for x in l) + "]"


def _lean_bool(b):
    return "true" if b else "false"


def render(rs, repo):
    lines = [
        "/-",
        "  GENERATED by harness/translate_containers.py - do not edit.",
        "  One row per container class of the library, read from its class sources.",
        "-/",
        "import PabuModel.Containers",
        "namespace Pabu.Gen",
        "open Pabu.Containers",
        "",
        "def containerRows : List ClassRow := [",
    ]
    for i, r in enumerate(rs):
        lines.append(
            "  { name := \"%s\", base := .%s, role := .%s,\n    wrapped := %s,\n    ownMethods := %s,\n    inherited := %s,\n    validating := %s,\n"
            "    ctorCopies := %s, ctorKeeps := %s, metaDefaultOk := %s, asMultiComplete := %s }%s"
            % (
                r["name"], r["base"], r["role"], _lean_list(r["wrapped"]), _lean_list(r["ownMethods"]), _lean_list(r["inherited"]),
                _lean_list(r["validating"]), _lean_bool(r["ctorCopies"]), _lean_bool(r["ctorKeeps"]), _lean_bool(r["metaDefaultOk"]),
                _lean_bool(r["asMultiComplete"]), "," if i + 1 < len(rs) else "",
            )
        )  # fmt: skip
    lines += ["]", "", "end Pabu.Gen", ""]
    return "\n".join(lines)


def write_if_changed(path, text):
    os.makedirs(os.path.dirname(path), exist_ok=True)
    if os.path.exists(path) and open(path).read() == text:
        return False
    with open(path, "w") as f:
        f.write(text)
    return True


def regenerate(repo, lean_dir):
    text = render(rows(repo), repo)
    return write_if_changed(os.path.join(lean_dir, "Gen", "Containers.lean"), text)


if __name__ == "__main__":
    import sys

    repo = sys.argv[1] if len(sys.argv) > 1 else os.environ.get("PABU_REPO", "/repo")
    print(render(rows(repo), repo))
