"""
Generators of (case, cfg) pairs for the voting rules, shared by C01/C02/C03/C05/C06/C08/C13.
"""
from __future__ import annotations

import random
from fractions import Fraction as F

from . import core
from .core import Case


def gen_rule_cfg(rng: random.Random, case: Case, rules=("mes", "greedy", "phragmen", "maxw"), allow_refuse=False,
                 allow_float=True, allow_mip=False, allow_irres=True, allow_init=True):
    bt = case.btype
    rules = [r for r in rules if not (r == "phragmen" and bt != "app")]
    rule = rng.choice(rules)
    cfg = {"rule": rule}
    ties = list(core.TIES) + (["refuse"] if allow_refuse else [])
    cfg["tie"] = rng.choice(ties) if rng.random() < 0.7 else "lexico"
    if cfg["tie"] == "app_score" and bt != "app":
        cfg["tie"] = "lexico"
    cfg["multi"] = rng.random() < 0.5
    cfg["res"] = (not allow_irres) or rng.random() < 0.75
    add = list(core.SAT_BY_TYPE[bt])
    if allow_float:
        add += core.SAT_FLOAT_ADD.get(bt, [])
    if allow_mip:
        add += core.SAT_MIP.get(bt, [])
    if rule == "mes":
        cfg["sat"] = rng.choice(add)
        cfg["binary"] = rng.choice([None, None, True, False])
        cfg["init"] = []
    elif rule == "greedy":
        nonadd = core.SAT_NONADD[bt] if allow_float else [s for s in core.SAT_NONADD[bt] if s == "CC_Sat"]
        if nonadd and rng.random() < 0.35:
            cfg["sat"] = rng.choice(nonadd)
            cfg["additive"] = rng.choice([None, False])
        else:
            cfg["sat"] = rng.choice(add)
            cfg["additive"] = rng.choice([None, True, False])
        cfg["init"] = core.gen_init(rng, case) if allow_init else []
    elif rule == "phragmen":
        cfg["init"] = core.gen_init(rng, case) if allow_init else []
        if rng.random() < 0.3:
            # equal ballots get equal initial loads, so that the multiprofile presentation is the same election
            by_key = {}
            for b in case.ballots:
                by_key.setdefault(case.ballot_key(b), F(rng.choice([0, 0, 1, F(1, 2), 2])))
            cfg["loads_per_voter"] = [by_key[case.ballot_key(b)] for b in case.ballots]
    elif rule == "maxw":
        cfg["sat"] = rng.choice(add)
        cfg["algo"] = "pd"
        cfg["res"] = True
        cfg["init"] = core.gen_init(rng, case) if allow_init else []
    return cfg


def fix_loads(cfg, built):
    """initial loads are per profile entry: with a multiprofile they must be given per distinct ballot;
    to keep both presentations the same election, equal ballots get equal loads"""
    if cfg.get("loads_direct") is not None and not built.multi:
        # a LIST profile takes one initial load per ballot of the list: identical ballots may start with different loads
        # (round 8, C05-r8A: identical ballots of a plain profile merged into one voter)
        cfg["loads_expanded"] = list(cfg["loads_direct"])
        cfg["loads"] = list(cfg["loads_direct"])
        return
    lp = cfg.get("loads_per_voter")
    if lp is None:
        return
    case = built.case
    by_key = {}
    for b, l in zip(case.ballots, lp):
        by_key.setdefault(case.ballot_key(b), l)
    cfg["loads_expanded"] = [by_key[case.ballot_key(b)] for b in case.ballots]
    cfg["loads"] = [by_key[case.ballot_key(b)] for b, _ in built.entries()]


def has_tie_structure(case: Case):
    costs = [c for _, c in case.projects]
    return len(set(costs)) < len(costs)


COUNT_SATS = {"app": ["Cardinality_Sat", "Cardinality_Sat", "CC_Sat"], "card": ["Additive_Cardinal_Sat"], "cum": ["Additive_Cardinal_Sat"]}


def gen_count_cfg(rng: random.Random, case: Case, rules=("greedy",), p=0.7, **kw):
    """configuration for the exact-arithmetic stress elections (core.gen_proportional_election / gen_huge_election), whose
    ties are ties of total support per unit of cost: with probability p the measure is one that counts support (the
    approval count, its Chamberlin-Courant variant, the sum of scores) and the additivity flag is drawn uniformly, so that
    the fast path, the general path and the irresolute enumeration all meet the ties; otherwise any configuration"""
    cfg = gen_rule_cfg(rng, case, rules=rules, **kw)
    if rng.random() < p and cfg.get("sat") and case.btype in COUNT_SATS:
        cfg["sat"] = rng.choice(COUNT_SATS[case.btype])
        if cfg["rule"] == "greedy":
            cfg["additive"] = rng.choice([None, False]) if cfg["sat"] == "CC_Sat" else rng.choice([None, True, False])
    return cfg


# ----------------------------------------------------------------------------------------------
# opt-in (round 4): calls that hand over their own satisfaction profile

# classes that may be NAMED as sat_class next to a caller-supplied satisfaction profile: the documentation says the class is
# then disregarded, so it only has to be a class a caller could plausibly name for that kind of ballot
SAT_CLASS_NAMES = {
    "app": core.SAT_BY_TYPE["app"] + ["CC_Sat"],
    "card": ["Additive_Cardinal_Sat", "CC_Sat", "Cardinality_Sat", "Cost_Sat"],
    "cum": ["Additive_Cardinal_Sat", "CC_Sat", "Cardinality_Sat", "Cost_Sat"],
    "ord": ["Additive_Borda_Sat", "Cardinality_Sat", "Cost_Sat"],
}
SP_MODES = ["only", "other-measure", "sub-electorate", "empty", "other-representation"]


def gen_satprofile_cfg(rng: random.Random, case: Case, rule, modes=SP_MODES, **kw):
    """configuration of a call with `sat_profile=`: the measure gen_rule_cfg drew becomes the measure of the satisfaction
    profile (cfg["sp_sat"]); the mode says what else the caller passes
      only            no sat_class at all
      other-measure   sat_class = another class than the one the satisfaction profile was built with
      sub-electorate  the satisfaction profile holds only some voters of the profile argument (sat_class: any class)
      empty           the satisfaction profile holds no voter at all (an empty collection is falsy), sat_class: any class
    In every mode the documented precedence makes the call a statement about the satisfaction profile alone."""
    from . import rules as _rules

    cfg = gen_rule_cfg(rng, case, rules=(rule,), **kw)
    mode = rng.choice(list(modes))
    measure = cfg["sat"]
    cfg["sp_sat"] = measure
    cfg["sp_mode"] = mode
    n = len(case.ballots)
    if mode == "other-representation":
        cfg["sp_repr"] = rng.choice(["other", "direct-multi"])
        cfg["sp_only"] = rng.random() < 0.5
    elif mode == "only":
        cfg["sp_only"] = True
    else:
        names = SAT_CLASS_NAMES[case.btype]
        others = [s for s in names if s != measure]
        if mode == "other-measure":
            cfg["sat"] = rng.choice(others) if others else measure
        else:
            cfg["sat"] = rng.choice(names)
            cfg["sp_voters"] = [] if mode == "empty" else sorted(rng.sample(range(n), rng.randint(0, max(0, n - 1))))
    if rule == "greedy":
        # the additivity flag describes the satisfaction profile.  Left to None it is deduced from sat_class when one is
        # given ("directly deducted if sat_class is provided") and means the general path otherwise: None is only drawn
        # when that deduction cannot put a non-additive measure on the additive fast path
        add_ok = measure in _rules.ADDITIVE_SATS
        flags = [False, None] + ([True] if add_ok else [])
        cfg["additive"] = rng.choice(flags)
        if cfg["additive"] is None and not cfg.get("sp_only") and cfg["sat"] in _rules.ADDITIVE_CLASS_SATS and not add_ok:
            cfg["additive"] = False
    return cfg
