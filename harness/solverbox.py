"""
solverbox — run calls that reach the CBC MIP solver in a child interpreter, one request per line, so that a
solver abort (CBC can kill the process, e.g. on an all-zero constraint row) is caught: the crashed request is
reported as a fault and the child is restarted.  Requests are {"case":…, "cfg":…} exactly as for
harness.worker; answers are the canonical strings of harness.rules.canon (plus optional " W=<welfare>").
"""
from __future__ import annotations

import json
import os
import subprocess
import sys

from . import core

FAULT = "solver-fault"


class Box:
    def __init__(self, module="harness.worker", timeout=60):
        self.module = module
        self.timeout = timeout
        self.p = None
        self.faults = 0

    def _start(self):
        env = dict(os.environ)
        env["PYTHONPATH"] = core.REPO + ":" + core.VERIF + (":" + env["PYTHONPATH"] if env.get("PYTHONPATH") else "")
        env["PABU_REPO"] = core.REPO
        self.p = subprocess.Popen([sys.executable, "-u", "-m", self.module, "--interactive"], stdin=subprocess.PIPE, stdout=subprocess.PIPE,
                                  stderr=subprocess.DEVNULL, env=env, cwd=core.VERIF)

    def ask(self, req: dict) -> str:
        if self.p is None or self.p.poll() is not None:
            self._start()
        try:
            self.p.stdin.write((json.dumps(req) + "\n").encode())
            self.p.stdin.flush()
            line = _readline_timeout(self.p, self.timeout)
        except (BrokenPipeError, OSError):
            line = None
        if not line:
            self.faults += 1
            try:
                self.p.kill()
            except Exception:  # noqa: BLE001
                pass
            self.p = None
            return FAULT
        # CBC prints banners on stdout in some builds: take the last protocol line
        return line.decode(errors="replace").strip()

    def close(self):
        if self.p is not None:
            try:
                self.p.stdin.close()
                self.p.wait(timeout=5)
            except Exception:  # noqa: BLE001
                self.p.kill()
            self.p = None


def _readline_timeout(p, timeout):
    import select

    buf = b""
    while True:
        r, _, _ = select.select([p.stdout], [], [], timeout)
        if not r:
            return None
        chunk = os.read(p.stdout.fileno(), 65536)
        if not chunk:
            return None
        buf += chunk
        if b"\n" in buf:
            lines = [l for l in buf.split(b"\n") if l.strip()]
            # the protocol answer is the last complete line starting with a known prefix
            for l in reversed(lines):
                if l.startswith((b"ok", b"err", b"harness-error", b"solver-fault", b"ANS ")):
                    return l
            # keep reading (solver chatter)
