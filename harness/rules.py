"""
Adapters: run one voting-rule configuration on the real library, and produce the protocol line
that makes the Lean model run the same configuration.

A configuration `cfg` is a dict:
  rule: mes | greedy | phragmen | maxw
  sat: measure class name (not for phragmen)
  tie: lexico | app_score | min_cost | max_cost | refuse | perm:<ids>
  multi: bool        -- run on profile.as_multiprofile()
  res: bool          -- resoluteness
  init: [names]      -- initial allocation
  mes:   binary: None|True|False, inc: Fraction|None (iterated), analytics: bool
  greedy: additive: None|True|False
  phragmen: loads: [Fraction]|None
  maxw: algo: pd | ilp
  opt-in (mes, greedy, maxw) — the caller hands over its OWN satisfaction profile:
    sp_sat: measure the satisfaction profile is built with; sp_voters: indices of the voters it holds (None = all);
    sp_only: True = sat_class is not passed at all, otherwise sat_class=cfg["sat"] is passed alongside
"""
from __future__ import annotations

from fractions import Fraction as F

from . import core
from .core import Case, q2s, toF


class Built:
    """real objects for a case, built once per (case, multi, presentation)"""

    def __init__(self, case: Case, multi=False, order=None, ballots=None):
        self.case = case
        self.inst, self.projs = core.build_instance(case, order)
        self.prof = core.build_profile(case, self.inst, self.projs, multi=multi, ballots=ballots)
        self.multi = multi

    def entries(self):
        return core.profile_entries(self.case, self.prof)

    def enum(self):
        return [p.name for p in self.inst]


def utilities_table(built: Built, sat_name):
    """u[i][id] as exact Fractions dumped from the real satisfaction objects (entry order of the profile)"""
    sc = core.sat_class(sat_name)
    sp = built.prof.as_sat_profile(sc)
    rows = []
    case = built.case
    for s in sp:
        row = [F(0)] * len(case.names)
        for n in case.names:
            row[case.rank[n]] = toF(s.sat_project(built.projs[n]))
        rows.append(row)
    return rows, [sp.multiplicity(s) for s in sp]


def setfn_table(built: Built, sat_name):
    """sat(S) for every subset S (bitmask over ids) per profile entry"""
    sc = core.sat_class(sat_name)
    sp = built.prof.as_sat_profile(sc)
    case = built.case
    k = len(case.names)
    rows = []
    for s in sp:
        row = []
        for mask in range(2**k):
            S = [built.projs[case.names[i]] for i in range(k) if mask >> i & 1]
            row.append(toF(s.sat(S)))
        rows.append(row)
    return rows


MODELLED_SATS = {
    "Cardinality_Sat",
    "Relative_Cardinality_Sat",
    "Cost_Sat",
    "Relative_Cost_Sat",
    "Relative_Cost_Approx_Normaliser_Sat",
    "Effort_Sat",
    "Additive_Cardinal_Sat",
    "Additive_Cardinal_Relative_Sat",
    "Additive_Borda_Sat",
    "CC_Sat",
}
ADDITIVE_SATS = MODELLED_SATS - {"CC_Sat"} | {"Additive_Cost_Sqrt_Sat", "Additive_Cost_Log_Sat"}
# measures the library itself recognises as additive (subclasses of AdditiveSatisfaction); Borda is additive
# but is a PositionalSatisfaction, so greedy only takes the fast path for it when told to
ADDITIVE_CLASS_SATS = ADDITIVE_SATS - {"Additive_Borda_Sat"}


def sat_tokens(built: Built, cfg, need_setfn=False):
    """how the model gets the utilities: by name when it has a model of the measure, else as a table"""
    name = cfg.get("sat")
    if name is None:
        return ""
    if cfg.get("table") or name not in MODELLED_SATS:
        if need_setfn and name not in ADDITIVE_SATS:
            rows = setfn_table(built, name)
            return "S=" + "|".join(",".join(q2s(x) for x in r) for r in rows)
        rows, _ = utilities_table(built, name)
        return "U=" + "|".join(",".join(q2s(x) for x in r) for r in rows)
    return "sat=" + name


def model_line(built: Built, cfg) -> str:
    case = built.case
    rule = cfg["rule"]
    common = case.enc_common(built.entries(), built.enum())
    init = ".".join(str(i) for i in case.ids(cfg.get("init") or []))
    toks = [rule, common, f"tie={cfg.get('tie', 'lexico')}", f"init={init}", f"res={1 if cfg.get('res', True) else 0}"]
    if rule == "mes":
        toks.append(sat_tokens(built, cfg))
        if cfg.get("inc") is not None:
            toks.append(f"inc={q2s(cfg['inc'])}")
            toks.append(f"fuel={cfg.get('fuel', 400)}")
    elif rule == "greedy":
        additive = cfg.get("additive")
        if additive is None:
            additive = cfg["sat"] in ADDITIVE_CLASS_SATS
        # the additive fast path exists only for resolute runs
        if additive and cfg.get("res", True):
            toks.append("path=additive")
            toks.append(sat_tokens(built, cfg))
        else:
            toks.append("path=general")
            toks.append(sat_tokens(built, cfg, need_setfn=True))
    elif rule == "phragmen":
        if cfg.get("loads") is not None:
            toks.append("loads=" + ",".join(q2s(x) for x in cfg["loads"]))
    elif rule == "maxw":
        toks.append(sat_tokens(built, cfg))
        toks.append("algo=" + {"pd": "pd", "ilp": ("opt" if cfg.get("res", True) else "all")}[cfg.get("algo", "pd")])
    return " ".join(t for t in toks if t)


def sat_kwargs(built: Built, cfg):
    """the satisfaction arguments of one call.  Default: sat_class=cfg["sat"].  With cfg["sp_sat"] the caller builds a
    satisfaction profile itself (measure sp_sat, voters sp_voters of the case — possibly none of them) and passes it as
    sat_profile=, with sat_class=cfg["sat"] alongside unless cfg["sp_only"]"""
    if not cfg.get("sp_sat"):
        return dict(sat_class=core.sat_class(cfg["sat"]))
    case = built.case
    voters = cfg.get("sp_voters")
    prof = built.prof
    if voters is not None:
        prof = core.build_profile(case, built.inst, built.projs, multi=built.multi, ballots=[case.ballots[i] for i in voters])
    if cfg.get("sp_repr") == "other":
        # the satisfaction profile comes from the OTHER representation of the same electorate (a list profile handed over together
        # with a SatisfactionMultiProfile, or the reverse): the voters are those of the satisfaction profile, each with ITS multiplicity
        prof = core.build_profile(case, built.inst, built.projs, multi=not built.multi)
    if cfg.get("sp_repr") == "direct-multi":
        # a satisfaction MULTIprofile built directly from the LIST profile (its measures point at the list profile)
        from pabutools.election import SatisfactionMultiProfile

        lst = core.build_profile(case, built.inst, built.projs, multi=False)
        kw = dict(sat_profile=SatisfactionMultiProfile(instance=built.inst, profile=lst, sat_class=core.sat_class(cfg["sp_sat"])))
    else:
        kw = dict(sat_profile=prof.as_sat_profile(core.sat_class(cfg["sp_sat"])))
    if not cfg.get("sp_only"):
        kw["sat_class"] = core.sat_class(cfg["sat"])
    return kw


def call_rule(built: Built, cfg):
    """run the real library; returns the raw return value (BudgetAllocation or list of them)"""
    import pabutools.rules as R

    case = built.case
    inst, prof, projs = built.inst, built.prof, built.projs
    tie = core.tie_rule(cfg.get("tie", "lexico"), case, projs)
    init = [projs[n] for n in (cfg.get("init") or [])]
    pass_init = bool(init)
    if cfg.get("init_obj") is not None:
        init = cfg["init_obj"]  # a caller-owned BudgetAllocation object, possibly shared between several calls
        # an empty collection is falsy: "init_obj_pass_empty" hands the caller's object over even when it is (still) empty
        pass_init = bool(init) or bool(cfg.get("init_obj_pass_empty"))
    elif pass_init:
        # every argument type a caller may use for a collection of projects, one-shot iterables included (round 7: a test placed
        # before the rule copies its argument consumes a generator); the kind is a function of the case, or given by the stream
        init = core.shape_init(init, cfg.get("init_type") or core.pick_init_type(case.seed, len(init)))
    res = cfg.get("res", True)
    rule = cfg["rule"]
    if rule == "mes":
        kw = dict(sat_kwargs(built, cfg), tie_breaking=tie, resoluteness=res)
        if pass_init:
            kw["initial_budget_allocation"] = init
        if cfg.get("binary") is not None:
            kw["binary_sat"] = cfg["binary"]
        if cfg.get("inc") is not None:
            kw["voter_budget_increment"] = core.to_num(cfg["inc"])
        if cfg.get("analytics"):
            kw["analytics"] = True
        return R.method_of_equal_shares(inst, prof, **kw)
    if rule == "greedy":
        kw = dict(sat_kwargs(built, cfg), tie_breaking=tie, resoluteness=res)
        if pass_init:
            kw["initial_budget_allocation"] = init
        if cfg.get("additive") is not None:
            kw["is_sat_additive"] = cfg["additive"]
        return R.greedy_utilitarian_welfare(inst, prof, **kw)
    if rule == "phragmen":
        kw = dict(tie_breaking=tie, resoluteness=res)
        if pass_init:
            kw["initial_budget_allocation"] = init
        if cfg.get("loads") is not None:
            kw["initial_loads"] = [core.to_num(x) for x in cfg["loads"]]
        return R.sequential_phragmen(inst, prof, **kw)
    if rule == "maxw":
        algo = {"pd": R.MaxAddUtilWelfareAlgo.PRIMAL_DUAL, "ilp": R.MaxAddUtilWelfareAlgo.ILP_SOLVER}[cfg.get("algo", "pd")]
        kw = dict(sat_kwargs(built, cfg), resoluteness=res, inner_algo=algo)
        if pass_init:
            kw["initial_budget_allocation"] = init
        return R.max_additive_utilitarian_welfare(inst, prof, **kw)
    raise ValueError(rule)


def impl_answer(built: Built, cfg):
    """canonical answer of the implementation: ('ok', ids) | ('oks', [ids...]) | ('err', enum); plus raw"""
    try:
        out = call_rule(built, cfg)
    except Exception as e:  # noqa: BLE001 - every exception is an observation
        return ("err", core.err_enum(e)), e
    case = built.case
    if cfg.get("res", True):
        return ("ok", [case.rank[p.name] for p in out]), out
    return ("oks", [[case.rank[p.name] for p in o] for o in out]), out


def canon(ans):
    """canonical protocol string of an implementation answer (sets, sorted)"""
    kind, val = ans
    if kind == "err":
        return "err " + val
    if kind == "ok":
        return core.fmt_outcome(val)
    return core.fmt_outcomes(val)
