"""relabel — project names are labels (round 7 of the seeded changes).

`Project.name` is compared, hashed and sorted as it is.  The library's own examples name projects by strings, but the class takes
any name, and people number their projects: 1, 2, …, 12.  Integers sort numerically, their decimal strings do not ("10" < "9"), so
code that goes through `str(name)` somewhere (a sort key, a binary search, an equality) is right for string names and wrong for
integer names from ten projects on.  This stream runs one election twice — projects named by the integers 1 … m (m >= 10) and by
the zero-padded strings "01" … "m", two namings with the SAME order — and demands corresponding answers: the rules' outcomes under
every shipped tie-breaking rule (resolute and irresolute), on the profile and on its multiprofile, and the per-voter record of
Equal Shares.  Nothing here needs an oracle: the two runs judge each other, and the padded-string run is the one every other
stream judges against the definitions.
"""
from __future__ import annotations

import random
from fractions import Fraction as F

from . import core


def gen(seed):
    r = random.Random(seed)
    m = r.randint(10, 13)
    costs = [F(r.choice([1, 1, 2, 2, 3, 4])) for _ in range(m)]
    if r.random() < 0.4:
        costs = [F(r.choice([1, 2]))] * m  # equal costs: many ties, decided by the names
    tot = sum(costs)
    budget = F(r.randint(2, max(3, int(tot) // 2)))
    n = r.randint(2, 7)
    distinct = [sorted(r.sample(range(m), r.randint(1, min(m, 5)))) for _ in range(r.randint(1, 4))]
    ballots = [r.choice(distinct) for _ in range(n)]
    rule = r.choice(["phragmen", "mes", "greedy"])
    cfg = {"rule": rule, "tie": r.choice(["lexico", "lexico", "app_score", "min_cost", "max_cost"]), "multi": r.random() < 0.5,
           "res": r.random() < 0.75, "sat": r.choice(["Cost_Sat", "Cardinality_Sat"]), "analytics": rule == "mes" and r.random() < 0.5}
    if not cfg["res"]:
        cfg["analytics"] = False
    return {"costs": [core.q2s(c) for c in costs], "budget": core.q2s(budget), "ballots": ballots, "cfg": cfg, "seed": seed}


def run_one(el, naming):
    """the election under one naming; returns a canonical answer in terms of project INDICES"""
    import pabutools.election as e
    import pabutools.rules as R
    from pabutools import tiebreaking as T

    m = len(el["costs"])
    name = (lambda i: i + 1) if naming == "int" else (lambda i: "%02d" % (i + 1))
    back = {name(i): i for i in range(m)}
    projs = [e.Project(name(i), core.to_num(el["costs"][i])) for i in range(m)]
    inst = e.Instance(projs, budget_limit=core.to_num(el["budget"]))
    prof = e.ApprovalProfile([e.ApprovalBallot([projs[i] for i in b]) for b in el["ballots"]], instance=inst)
    cfg = el["cfg"]
    if cfg["multi"]:
        prof = prof.as_multiprofile()
    tie = {"lexico": T.lexico_tie_breaking, "app_score": T.app_score_tie_breaking, "min_cost": T.min_cost_tie_breaking, "max_cost": T.max_cost_tie_breaking}[cfg["tie"]]
    kw = dict(tie_breaking=tie, resoluteness=cfg["res"])
    if cfg["rule"] == "phragmen":
        out = R.sequential_phragmen(inst, prof, **kw)
    elif cfg["rule"] == "mes":
        out = R.method_of_equal_shares(inst, prof, sat_class=core.sat_class(cfg["sat"]), analytics=bool(cfg["analytics"]), **kw)
    else:
        out = R.greedy_utilitarian_welfare(inst, prof, sat_class=core.sat_class(cfg["sat"]), **kw)
    if cfg["res"]:
        ans = {"outcome": [back[p.name] for p in out]}
        if cfg["analytics"]:
            ans["rounds"] = [[None if it.selected_project is None else back[it.selected_project.name], [core.q2s(x) for x in it.voters_budget]]
                             for it in out.details.iterations]
        return ans
    return {"outcomes": sorted(sorted(back[p.name] for p in o) for o in out)}


def check(el):
    """violation dict or None"""
    try:
        a = run_one(el, "str")
    except Exception:  # noqa: BLE001 - the string-named run is judged by the other streams
        return None
    try:
        b = run_one(el, "int")
    except Exception as ex:  # noqa: BLE001
        return {"what": f"{el['cfg']['rule']} raised {type(ex).__name__}: {ex} on an election whose projects are named 1 … {len(el['costs'])}; "
                        f"with the names '01' … it returns {a}", "case": None, "cfg": {"relabel": el}, "sig": {"kind": "relabel", "rule": el["cfg"]["rule"], "err": core.err_enum(ex)}}
    if a != b:
        return {"what": f"{el['cfg']['rule']} ({el['cfg']}) answers {b} when the projects are named 1 … {len(el['costs'])} and {a} when they are named "
                        f"'01' … (the same order of names): costs {el['costs']}, budget {el['budget']}, ballots {el['ballots']} (project indices)",
                "case": None, "cfg": {"relabel": el}, "impl": b, "expected": a, "sig": {"kind": "relabel", "rule": el["cfg"]["rule"], "tie": el["cfg"]["tie"]}}
    return None


def run(ctx, n, rules_=None, cap=3):
    hits = 0
    for _ in range(n):
        el = gen(ctx.rng.getrandbits(48))
        if rules_ is not None and el["cfg"]["rule"] not in rules_:
            el["cfg"]["rule"] = rules_[el["seed"] % len(rules_)]
            if el["cfg"]["rule"] != "mes":
                el["cfg"]["analytics"] = False
        v = check(el)
        ctx.evaluations += 1
        ctx.count("relabel", el["cfg"]["rule"] + (":multi" if el["cfg"]["multi"] else ":list"))
        if v is not None and hits < cap:
            hits += 1
            ctx.violations.append(v)


def replay(payload):
    v = check(payload["cfg"]["relabel"])
    if v is not None:
        return False, "still fails: " + v["what"][:400]
    return True, "integer-named and string-named projects give corresponding answers on the replayed election"
