"""
Deep structural snapshots (C17 attribute comparison, C20 before/after comparison).

`snapshot(obj)` returns a JSON-able canonical structure that captures, recursively: the type, the instance
attributes (`__dict__`), and the contents of containers.  Sets are canonicalised (sorted by the canonical form of
their elements); dicts are captured as sorted (key, value) pairs **and** their key order (a Python dict has an
observable order; for an ordinal ballot the order *is* the content).  Numbers are captured by exact value
(5, mpz(5), mpq(5,1), Fraction(5) are the same number; floats by repr).  Projects are captured by name, cost,
categories, targets.  Classes / functions by qualified name.  Cycles and shared objects by first-visit index.

Not captured (documented exclusions): the memo cache `scores` of satisfaction-measure objects (not caller-visible
state: it only caches values of a pure function), and anything without `__dict__`/container structure is
captured by `repr`.
"""
from __future__ import annotations

import json
from fractions import Fraction

MAX_DEPTH = 40
CACHE_ATTRS = {"scores"}  # memo of AdditiveSatisfaction.get_score


def _mro_names(obj):
    return [c.__name__ for c in type(obj).__mro__]


def _num(x):
    try:
        import gmpy2

        if isinstance(x, (type(gmpy2.mpq(1)), type(gmpy2.mpz(1)))):
            return ["num", str(Fraction(int(x.numerator), int(x.denominator)))]
    except ImportError:  # pragma: no cover
        pass
    if isinstance(x, bool):
        return ["bool", x]
    if isinstance(x, int):
        return ["num", str(x)]
    if isinstance(x, Fraction):
        return ["num", str(x)]
    if isinstance(x, float):
        return ["float", repr(x)]
    return None


def _key(s):
    return json.dumps(s, sort_keys=True, default=str)


def snapshot(obj, _memo=None, _depth=0):
    if _memo is None:
        _memo = {}
    if obj is None:
        return None
    n = _num(obj)
    if n is not None:
        return n
    if isinstance(obj, str):
        return ["str", obj]
    if isinstance(obj, bytes):
        return ["bytes", obj.hex()]
    if isinstance(obj, type):
        return ["ref", obj.__module__, obj.__qualname__]
    if type(obj).__name__ in ("function", "builtin_function_or_method", "method", "method_descriptor", "wrapper_descriptor", "partial"):
        return ["ref", getattr(obj, "__module__", "") or "", getattr(obj, "__qualname__", repr(obj))]
    oid = id(obj)
    mro = _mro_names(obj)
    if _depth > MAX_DEPTH:
        return ["deep", type(obj).__name__]
    if type(obj).__name__ != "Project":
        # plain projects are expanded at every occurrence (keeps difference paths readable); everything else once
        if oid in _memo:
            return ["seen", _memo[oid]]
        _memo[oid] = len(_memo)
    tname = type(obj).__module__ + "." + type(obj).__qualname__
    d = _depth + 1
    out = {"type": tname}
    # contents
    if "Project" in mro and hasattr(obj, "name") and hasattr(obj, "cost"):
        out["project"] = [snapshot(obj.name, _memo, d), snapshot(obj.cost, _memo, d)]
    if isinstance(obj, dict):
        items = [[snapshot(k, _memo, d), snapshot(v, _memo, d)] for k, v in obj.items()]
        out["order"] = [_key(k) for k, _ in items]
        out["items"] = sorted(items, key=lambda kv: _key(kv[0]))
    elif isinstance(obj, (list, tuple)):
        out["seq"] = [snapshot(x, _memo, d) for x in obj]
    elif isinstance(obj, (set, frozenset)):
        # the numbering of shared objects ("seen" entries) must not depend on the iteration order of the set: order the
        # elements by a key computed with a private copy of the memo, then visit them in that order
        elems = list(obj)
        keys = [_key(snapshot(x, dict(_memo), d)) for x in elems]
        out["set"] = [snapshot(elems[i], _memo, d) for i in sorted(range(len(elems)), key=lambda i: keys[i])]
    elif type(obj).__module__ == "numpy":
        out["repr"] = repr(obj)
    # attributes
    attrs = getattr(obj, "__dict__", None)
    if isinstance(attrs, dict):
        a = {}
        is_sat = "SatisfactionMeasure" in mro
        for k in sorted(attrs, key=str):
            if is_sat and k in CACHE_ATTRS:
                continue
            a[str(k)] = snapshot(attrs[k], _memo, d)
        out["attrs"] = a
    elif not any(k in out for k in ("items", "seq", "set", "project", "repr")):
        out["repr"] = repr(obj)
    return out


def attrs_snapshot(obj):
    """election attributes of a container: every instance attribute, each snapshotted on its own"""
    return {str(k): snapshot(v) for k, v in vars(obj).items()}


def diff(a, b, path="$"):
    """first difference between two snapshots as (path, a, b) or None"""
    if type(a) is not type(b):
        return (path, a, b)
    if isinstance(a, dict):
        for k in sorted(set(a) | set(b)):
            if k not in a or k not in b:
                return (f"{path}.{k}", a.get(k, "<absent>"), b.get(k, "<absent>"))
            r = diff(a[k], b[k], f"{path}.{k}")
            if r:
                return r
        return None
    if isinstance(a, list):
        if len(a) != len(b):
            return (path + ".len", len(a), len(b))
        for i, (x, y) in enumerate(zip(a, b)):
            r = diff(x, y, f"{path}[{i}]")
            if r:
                return r
        return None
    return None if a == b else (path, a, b)


def brief(x, n=160):
    s = json.dumps(x, default=str)
    return s if len(s) <= n else s[: n - 3] + "..."
