"""
vcheck — orchestration of one property check.

    python -m harness.vcheck C02 --tier quick [--replay path]

Steps (DESIGN §2.2): (1) regenerate the translated leaf layer, (2) build the Lean obligations of the
property, (3) audit axioms / forbidden constructs, (4) correspondence model <-> implementation,
(5) property predicate on the implementation's own outputs, (6) verdict + evidence.
Exit codes: 0 held, 1 violation (with a VIOLATION line), 2 infrastructure failure.
"""
from __future__ import annotations

import argparse
import importlib
import json
import os
import random
import re
import subprocess
import sys
import time
import traceback

from . import core

ALLOWED_AXIOMS = {"propext", "Classical.choice", "Quot.sound"}
FORBIDDEN = re.compile(r"\b(sorry|admit|native_decide|bv_decide|implemented_by|unsafe)\b|^\s*axiom\s|maxHeartbeats\s+0\b")


class Ctx:
    """what a property runner records"""

    def __init__(self, pid, tier, seed):
        self.pid = pid
        self.tier = tier
        self.seed = seed
        self.rng = random.Random(seed * 1000003 + int(pid[1:]))
        self.evaluations = 0
        self.nontrivial = set()
        self.samples = []
        self.dist = {}
        self.violations = []  # dicts with 'what', 'case' (json), ...
        self.disagreements = []  # model != impl
        self.known_hits = []
        self.rule = ""
        self.extra = {}
        self.solver_faults = 0
        self.t0 = time.time()
        self.budget_s = None

    def count(self, key, sub=None, n=1):
        d = self.dist.setdefault(key, {} if sub is not None else 0)
        if sub is None:
            self.dist[key] = d + n
        else:
            d[sub] = d.get(sub, 0) + n

    def sample(self, s, cap=6):
        if len(self.samples) < cap:
            self.samples.append(s)

    def scale(self, quick, thorough):
        if self.tier == "thorough":
            return thorough
        b = getattr(self, "boost", 1)
        if b > 1 and isinstance(quick, int) and not isinstance(quick, bool) and isinstance(thorough, int) and thorough > quick:
            return min(thorough, quick * b)  # the source differs from the validated tree: look longer (harness/fingerprint.py)
        return quick

    def elapsed(self):
        return time.time() - self.t0


# ----------------------------------------------------------------------------------------------
# Lean side


def lake(*args, timeout=3600):
    p = subprocess.run(["lake", *args], cwd=core.LEAN_DIR, stdout=subprocess.PIPE, stderr=subprocess.STDOUT, timeout=timeout)
    return p.returncode, p.stdout.decode(errors="replace")


def load_obligations():
    with open(os.path.join(core.LEAN_DIR, "obligations.json")) as f:
        return json.load(f)


def lean_check(pid, tier, log):
    """build the property's proof module, audit axioms of its theorems.
    returns (obligations:list[str], discharged:list[str], problems:list[str])"""
    obl = load_obligations().get(pid, {})
    module = obl.get("module")
    bridge = obl.get("bridge")
    theorems = list(obl.get("theorems", [])) + list(obl.get("bridge_theorems", []))
    problems = []
    if not module:
        return theorems, [], ["no Lean module registered for " + pid]
    # (1) regenerate the translated leaf layer from the current /repo source
    try:
        from . import translate

        for pr in translate.regenerate(only=pid):
            problems.append("translator: " + pr)
    except Exception as e:  # noqa: BLE001
        problems.append("translator failed: %r" % (e,))
    # (2) build the property module, the bridge module (if any) and the driver
    modules = [module] + list(obl.get("extra_modules", [])) + (bridge if isinstance(bridge, list) else ([bridge] if bridge else []))
    built = []
    for m in modules:
        rc, out = lake("build", m)
        log.append(out[-3000:])
        if rc != 0:
            problems.append("lake build %s failed: %s" % (m, _first_error(out)))
        else:
            built.append(m)
    rc, out = lake("build", "pabu_driver")
    if rc != 0:
        raise FileNotFoundError("pabu_driver does not build: " + _first_error(out))
    if not built:
        return theorems, [], problems
    # forbidden constructs in the sources (outside comments)
    for root, _, files in os.walk(core.LEAN_DIR):
        if ".lake" in root:
            continue
        for fn in files:
            if fn.endswith(".lean"):
                txt = open(os.path.join(root, fn)).read()
                for ln in _strip_comments(txt).split("\n"):
                    if FORBIDDEN.search(ln):
                        problems.append(f"forbidden construct in {fn}: {ln.strip()[:80]}")
    # axiom audit
    audit = os.path.join(core.LEAN_DIR, ".lake", f"Audit_{pid}.lean")
    with open(audit, "w") as f:
        for m in built:
            f.write(f"import {m}\n")
        for t in theorems:
            f.write(f"#print axioms {t}\n")
    rc, out = lake("env", "lean", audit)
    log.append(out[-4000:])
    discharged = []
    axioms_seen = set()
    for t in theorems:
        m = re.search(r"'" + re.escape(t) + r"' depends on axioms: \[([^\]]*)\]", out.replace("\n", " "))
        if m:
            ax = {a.strip() for a in m.group(1).split(",") if a.strip()}
            axioms_seen |= ax
            if ax <= ALLOWED_AXIOMS:
                discharged.append(t)
            else:
                problems.append(f"{t} depends on disallowed axioms {sorted(ax - ALLOWED_AXIOMS)}")
        elif re.search(r"'" + re.escape(t) + r"' does not depend on any axioms", out):
            discharged.append(t)
        else:
            problems.append(f"theorem {t} not found / not checked")
    if tier == "thorough" and not problems:
        rc, out = lake("env", "leanchecker", *built, timeout=3600)
        log.append(out[-2000:])
        if rc != 0:
            problems.append("leanchecker rejected " + module)
    return theorems, discharged, problems


def _bridge_str(pid):
    o = load_obligations().get(pid, {})
    b = o.get("bridge")
    return " ".join(list(o.get("extra_modules", [])) + (b if isinstance(b, list) else ([b] if b else [])))


def _first_error(out):
    for ln in out.split("\n"):
        if "error" in ln:
            return ln.strip()[:300]
    return out.strip()[-300:]


def _strip_comments(txt):
    txt = re.sub(r"/-.*?-/", "", txt, flags=re.S)
    txt = re.sub(r"--.*", "", txt)
    # string literals are not code either
    txt = re.sub(r'"(\\.|[^"\\])*"', '""', txt)
    return txt


# ----------------------------------------------------------------------------------------------
# known findings


def load_known():
    p = os.path.join(core.VERIF, "known_findings.json")
    if not os.path.exists(p):
        return []
    return json.load(open(p)).get("findings", [])


def match_known(pid, viol, known):
    """a finding matches a violation when every key of its 'match' dict equals the violation's 'sig' entry"""
    sig = viol.get("sig", {})
    for k in known:
        if k.get("kind") != "finding" or k.get("property") != pid:
            continue
        m = k.get("match", {})
        if m and all(sig.get(a) == b for a, b in m.items()):
            return k
    return None


# ----------------------------------------------------------------------------------------------
# main


def _try_shrink(mod, v, log, budget_s=15):
    """greedy shrinking of a stored violation through the property's own replay function"""
    if not hasattr(mod, "replay") or not isinstance(v.get("case"), dict) or "projects" not in v["case"]:
        return
    t0 = time.time()

    def fails(c):
        if time.time() - t0 > budget_s:
            return False
        p2 = dict(v)
        p2["case"] = c.to_json()
        ok, _ = mod.replay(p2)
        return not ok

    try:
        case = core.Case.from_json(v["case"])
        if not fails(case):
            return  # the replay does not reproduce it from the case alone (history, second process, ...)
        small = core.shrink_case(case, fails, max_steps=120)
        if len(small.ballots) < len(case.ballots) or len(small.projects) < len(case.projects):
            v["original_case"] = v["case"]
            v["case"] = small.to_json()
            v["shrunk"] = True
    except Exception:  # noqa: BLE001
        log.append(traceback.format_exc())


def write_replay(pid, seed, payload):
    d = os.path.join(core.VERIF, "replays")
    os.makedirs(d, exist_ok=True)
    k = 0
    while True:
        path = os.path.join(d, f"{pid}-{seed}-{k}.json")
        if not os.path.exists(path):
            break
        k += 1
    payload = dict(payload)
    payload["property"] = pid
    payload["repo_head"] = _git_head()
    payload["pythonhashseed"] = os.environ.get("PYTHONHASHSEED", "")
    with open(path, "w") as f:
        json.dump(payload, f, indent=1, default=str)
    return os.path.relpath(path, core.VERIF)


def _git_head():
    try:
        return subprocess.run(["git", "-C", core.REPO, "rev-parse", "HEAD"], stdout=subprocess.PIPE, stderr=subprocess.DEVNULL).stdout.decode().strip()
    except Exception:  # noqa: BLE001
        return ""


def main(argv=None):
    ap = argparse.ArgumentParser()
    ap.add_argument("pid")
    ap.add_argument("--tier", default=os.environ.get("VERIF_TIER", "quick"))
    ap.add_argument("--replay", default=None)
    ap.add_argument("--no-lean", action="store_true", help="skip the Lean build/audit (development only; evidence says so)")
    args = ap.parse_args(argv)
    pid = args.pid
    tier = args.tier if args.tier in ("quick", "thorough") else "quick"
    seed = int(os.environ.get("VERIF_SEED", "0") or 0)
    t0 = time.time()
    log = []
    try:
        mod = importlib.import_module(f"harness.props.{pid}")
    except Exception:  # noqa: BLE001
        traceback.print_exc()
        print(f"INFRA: no runner for {pid}")
        return 2

    if args.replay:
        # a replay runs under the hash seed the violation was found with (set layout is an input of some failures)
        try:
            want = str(json.load(open(args.replay)).get("pythonhashseed", "") or "")
        except Exception:  # noqa: BLE001
            want = ""
        if want and want != os.environ.get("PYTHONHASHSEED", "") and not os.environ.get("PABU_REPLAY_REEXEC"):
            env = dict(os.environ, PYTHONHASHSEED=want, PABU_REPLAY_REEXEC="1")
            os.execve(sys.executable, [sys.executable, "-m", "harness.vcheck", pid, "--replay", args.replay], env)
        return replay(mod, pid, args.replay)

    # (1)-(3) Lean obligations
    if args.no_lean:
        theorems, discharged, problems = [], [], ["lean skipped (--no-lean)"]
    else:
        try:
            # checks of different properties may run concurrently: the translate/build/audit phase is serialised
            import fcntl

            os.makedirs(os.path.join(core.LEAN_DIR, ".lake"), exist_ok=True)
            with open(os.path.join(core.LEAN_DIR, ".lake", "verif.lock"), "w") as lk:
                fcntl.flock(lk, fcntl.LOCK_EX)
                try:
                    theorems, discharged, problems = lean_check(pid, tier, log)
                finally:
                    fcntl.flock(lk, fcntl.LOCK_UN)
        except subprocess.TimeoutExpired:
            print("INFRA: lake timed out")
            return 2
        except FileNotFoundError as e:
            print("INFRA: %r" % (e,))
            return 2

    # (4)-(5) correspondence + predicate
    ctx = Ctx(pid, tier, seed)
    from . import fingerprint

    changed_src = fingerprint.changed()
    if changed_src:
        ctx.boost = fingerprint.BOOST
        ctx.extra["changed_sources"] = changed_src[:20]
        print(f"note: {len(changed_src)} module(s) differ from the validated tree ({', '.join(changed_src[:3])}{', …' if len(changed_src) > 3 else ''}): "
              f"the quick tier draws {fingerprint.BOOST}x as many cases")
    try:
        mod.run(ctx)
    except core.DriverError as e:
        print("INFRA: %s" % e)
        return 2
    except subprocess.TimeoutExpired:
        print("INFRA: timeout in harness")
        return 2
    except Exception as e:  # noqa: BLE001
        # The harness itself failed.  On the validated tree that is a defect of the machinery: no verdict (exit 2).  On a tree whose
        # source differs from the validated one the likeliest cause is an answer of a shape the unchanged library never gives (a
        # program that is not posed, a missing field, …): the correspondence is broken at that point — recorded as such, the
        # violations found so far are kept, and the search for a failing input goes on below.
        tb = traceback.format_exc()
        if not changed_src:
            sys.stderr.write(tb[-3000:] + "\n")
            print("INFRA: the harness failed on the validated tree: %r" % (e,))
            return 2
        log.append(tb)
        ctx.disagreements.append({"what": "the correspondence harness could not process what the changed library returned: %r" % (e,),
                                  "traceback": tb[-1500:], "changed_sources": changed_src[:10]})

    known = load_known()
    real_viol = []
    for v in ctx.violations:
        k = match_known(pid, v, known)
        if k is not None:
            ctx.known_hits.append((k, v))
        else:
            real_viol.append(v)
    printed = set()
    # every listed finding that carries a witness is replayed on the implementation on every run
    for k in known:
        if k.get("kind") == "finding" and k.get("property") == pid and k.get("witness") and hasattr(mod, "replay"):
            try:
                ok, _msg = mod.replay(k["witness"])
            except Exception:  # noqa: BLE001
                ok = True
                log.append(traceback.format_exc())
            if not ok:
                line = f"KNOWN-FINDING: property={pid} {k.get('what', '')}"
                if line not in printed:
                    print(line)
                    printed.add(line)
    for k, v in ctx.known_hits:
        line = f"KNOWN-FINDING: property={pid} {k.get('what', '')}"
        if line not in printed:
            print(line)
            printed.add(line)

    lean_broken = [p for p in problems if not p.startswith("lean skipped")]
    status = 0
    replay_paths = []
    if real_viol:
        # concrete failing inputs (the first ones are shrunk: fewer voters / projects while the replay still fails)
        for k, v in enumerate(real_viol[:5]):
            if k < 2:
                _try_shrink(mod, v, log)
            path = write_replay(pid, seed, v)
            replay_paths.append(path)
            print(f"VIOLATION property={pid} replay={path}")
        status = 1
    elif lean_broken or ctx.disagreements:
        # proof obligation or correspondence broken: extended search for a failing input
        found = []
        if hasattr(mod, "search"):
            try:
                ctx2 = Ctx(pid, "thorough", seed + 7919)
                ctx2.budget_s = 240
                mod.search(ctx2, ctx.disagreements)
                for v in ctx2.violations:
                    if match_known(pid, v, known) is None:
                        found.append(v)
                ctx.evaluations += ctx2.evaluations
            except Exception:  # noqa: BLE001
                log.append(traceback.format_exc())
        if found:
            for v in found[:5]:
                path = write_replay(pid, seed, v)
                print(f"VIOLATION property={pid} replay={path}")
        else:
            payload = {
                "what": "proof obligation or model/implementation correspondence no longer checks",
                "broken_obligations": lean_broken,
                "disagreements": ctx.disagreements[:5],
            }
            path = write_replay(pid, seed, payload)
            print(f"VIOLATION property={pid} replay={path} no-failing-input-found")
        status = 1

    wall = time.time() - t0
    ev = {
        "property_id": pid,
        "tier": tier,
        "seed": seed,
        "level": "proof",
        "wall_s": round(wall, 2),
        "violations": len(real_viol) + (1 if status == 1 and not real_viol else 0),
        "coverage": {
            "obligations": max(1, len(theorems)) if theorems else 0,
            "discharged": len(discharged),
            "obligation_names": theorems,
            "undischarged": [t for t in theorems if t not in discharged],
            "lean_problems": problems,
            "checker_cmd": f"python -m harness.translate && cd lean && lake build {load_obligations().get(pid, {}).get('module', '')} {_bridge_str(pid)} && lake env lean .lake/Audit_{pid}.lean  # regenerate Gen/ from /repo, build property + bridge modules, '#print axioms' of every listed theorem",
            "trusted_base": [
                "Lean 4.33 kernel",
                "axioms allowed: propext, Classical.choice, Quot.sound (audited by #print axioms on every listed theorem)",
                "correspondence harness (harness/*.py): generators, protocol encoding, canonicalisation",
                "independent Python predicates in harness/props/%s.py (fractions.Fraction)" % pid,
                "gmpy2.mpq arithmetic, CPython sorted()/set/dict",
            ]
            + list(getattr(mod, "TRUSTED", [])),
            "evaluations": ctx.evaluations,
            "distinct_nontrivial": len(ctx.nontrivial),
            "rule": ctx.rule or getattr(mod, "RULE", ""),
            "samples": ctx.samples or ["(none)"],
            "traces_validated_against_impl": ctx.evaluations,
            "distribution": ctx.dist,
            "model_impl_disagreements": len(ctx.disagreements),
            "known_findings_hit": len(ctx.known_hits),
            "solver_faults_discarded": ctx.solver_faults,
            **ctx.extra,
        },
        "assumptions": list(getattr(mod, "ASSUMPTIONS", [])),
    }
    if not theorems:
        # no theorem registered yet: claim only what was done
        ev["level"] = "other"
        ev["coverage"]["explanation"] = "correspondence + predicate only; no Lean obligation registered for this property yet"
    os.makedirs(os.path.join(core.VERIF, "evidence"), exist_ok=True)
    with open(os.path.join(core.VERIF, "evidence", f"{pid}.json"), "w") as f:
        json.dump(ev, f, indent=1, default=str)
    print(
        f"{pid} tier={tier} seed={seed}: obligations {len(discharged)}/{len(theorems)}, cases {ctx.evaluations}, "
        f"nontrivial {len(ctx.nontrivial)}, disagreements {len(ctx.disagreements)}, violations {len(real_viol)}, "
        f"known {len(ctx.known_hits)}, {wall:.1f}s -> exit {status}"
    )
    if status and log:
        sys.stderr.write("\n".join(log)[-3000:] + "\n")
    return status


def replay(mod, pid, path):
    payload = json.load(open(path if os.path.isabs(path) else os.path.join(core.VERIF, path)))
    if not hasattr(mod, "replay"):
        print("no replay function for", pid)
        return 2
    ok, msg = mod.replay(payload)
    print(msg)
    if not ok:
        print(f"VIOLATION property={pid} replay={path}")
        return 1
    return 0


if __name__ == "__main__":
    sys.exit(main())
