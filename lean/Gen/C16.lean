/-
  Gen.C16 — REGENERATED from the current source of /repo by harness/translate.py on every check run.
  Do not edit: the bridge theorems in PabuProofs/Bridge re-prove these definitions equal to the model's formulas.
-/
namespace Gen.C16

def approvalFrozenItems (sortedApproved : List Nat) : List Nat := sortedApproved

def approvalHash (hashOfTheTuple : Nat) : Nat := hashOfTheTuple

def approvalFrozen (frozenFromSelfNameMeta : Nat) : Nat := frozenFromSelfNameMeta

def cardinalHash (hashOfTheItemSet : Nat) : Nat := hashOfTheItemSet

def cardinalFrozen (frozenFromSelf : Nat) : Nat := frozenFromSelf

def ordinalHash (hashOfTheTuple : Nat) : Nat := hashOfTheTuple

def ordinalFrozen (frozenFromSelf : Nat) : Nat := frozenFromSelf

end Gen.C16
