/-
  Gen.C19 — REGENERATED from the current source of /repo by harness/translate.py on every check run.
  Do not edit: the bridge theorems in PabuProofs/Bridge re-prove these definitions equal to the model's formulas.
-/
namespace Gen.C19

def isNew (differsFromAll : Bool) : Bool := differsFromAll

def differs (same : Bool) : Bool := (!same)

def isNewPopularity (differsFromAll : Bool) : Bool := differsFromAll

def differsPopularity (same : Bool) : Bool := (!same)

def welfareImproves (first : Bool) (welfare best : Rat) : Bool := (first || (decide (welfare > best)))

def welfareTies (welfare best : Rat) : Bool := (decide (welfare = best))

def voterImproves (first : Bool) (s best : Rat) : Bool := (first || (decide (s > best)))

def voterTies (s best : Rat) : Bool := (decide (s = best))

def supportUpdate (support m : Rat) : Rat := (support + m)

def maxSupport (maxOfSupports : Rat) : Rat := maxOfSupports

def isMostSupported (s maxSupport : Rat) : Bool := (decide (s = maxSupport))

end Gen.C19
