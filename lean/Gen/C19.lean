/-
  Gen.C19 — REGENERATED from the current source of /repo by harness/translate.py on every check run.
  Do not edit: the bridge theorems in PabuProofs/Bridge re-prove these definitions equal to the model's formulas.
-/
namespace Gen.C19

def isNew (differsFromAll : Bool) : Bool := differsFromAll

def differs (same : Bool) : Bool := (!same)

def isNewPopularity (differsFromAll : Bool) : Bool := differsFromAll

def differsPopularity (same : Bool) : Bool := (!same)

/-- comparisons with an optional number.  `…Opt`: `none` is Python's `None` (the code never compares with it: the test
    `x is None or …` comes first), so every comparison with it is false; `…Inf`: `none` is `float("inf")`. -/
def ltOpt (a : Rat) : Option Rat → Bool
  | none => false
  | some b => decide (a < b)
def gtOpt (a : Rat) : Option Rat → Bool
  | none => false
  | some b => decide (a > b)
def eqOpt (a : Rat) : Option Rat → Bool
  | none => false
  | some b => decide (a = b)
def ltInf (a : Rat) : Option Rat → Bool
  | none => true
  | some b => decide (a < b)
def gtInf (a : Rat) : Option Rat → Bool
  | none => false
  | some b => decide (a > b)
def eqInf (a : Rat) : Option Rat → Bool
  | none => false
  | some b => decide (a = b)
/-- a possibly infinite number (`none` = `float("inf")`) against another one, and against a running extremum that is `None` before the
    first element -/
def ltE : Option Rat → Option Rat → Bool
  | some a, some b => decide (a < b)
  | some _, none => true
  | none, _ => false
def ltOptE (a : Option Rat) : Option (Option Rat) → Bool
  | none => false
  | some b => ltE a b
def eqOptE (a : Option Rat) : Option (Option Rat) → Bool
  | none => false
  | some b => a == b

def welfareLoop : (Option Rat) → (List Nat) → List (Nat × Rat) → ((Option Rat) × (List Nat))
  | best, arg, [] => (best, arg)
  | best, arg, x :: xs => (if ((best).isNone || (gtOpt x.2 best)) then (welfareLoop ((some x.2)) [x.1] xs) else (if (eqOpt x.2 best) then (welfareLoop best ((arg ++ [x.1])) xs) else (welfareLoop best arg xs)))

def voterLoop : (Option Rat) → (List Nat) → List (Nat × Rat) → ((Option Rat) × (List Nat))
  | best, arg, [] => (best, arg)
  | best, arg, x :: xs => (if ((best).isNone || (gtOpt x.2 best)) then (voterLoop ((some x.2)) [x.1] xs) else (if (eqOpt x.2 best) then (voterLoop best ((arg ++ [x.1])) xs) else (voterLoop best arg xs)))

def welfareImproves (first : Bool) (welfare best : Rat) : Bool := (first || (decide (welfare > best)))

def welfareTies (welfare best : Rat) : Bool := (decide (welfare = best))

def voterImproves (first : Bool) (s best : Rat) : Bool := (first || (decide (s > best)))

def voterTies (s best : Rat) : Bool := (decide (s = best))

def supportUpdate (support m : Rat) : Rat := (support + m)

def maxSupport (maxOfSupports : Rat) : Rat := maxOfSupports

def isMostSupported (s maxSupport : Rat) : Bool := (decide (s = maxSupport))

end Gen.C19
