/-
  Gen.C13 — REGENERATED from the current source of /repo by harness/translate.py on every check run.
  Do not edit: the bridge theorems in PabuProofs/Bridge re-prove these definitions equal to the model's formulas.
-/
namespace Gen.C13

def lexicoKey (name : Rat) : Rat := name

def appScoreKey (score : Rat) : Rat := (-score)

def minCostKey (cost : Rat) : Rat := cost

def maxCostKey (cost : Rat) : Rat := (-cost)

def projectLt (a b : Rat) : Bool := (decide (a < b))

def projectLtName (a b : Rat) : Bool := (decide (a < b))

def projectLe (a b : Rat) : Bool := (decide (a ≤ b))

def projectLeName (a b : Rat) : Bool := (decide (a ≤ b))

def projectEq (a b : Rat) : Bool := (decide (a = b))

def projectEqName (a b : Rat) : Bool := (decide (a = b))

def projectEqOther  : Bool := false

def projectHash (h : Rat → Rat) (a : Rat) : Rat := (h a)

end Gen.C13
