/-
  Gen.C13 — REGENERATED from the current source of /repo by harness/translate.py on every check run.
  Do not edit: the bridge theorems in PabuProofs/Bridge re-prove these definitions equal to the model's formulas.
-/
namespace Gen.C13

def lexicoKey (name : Rat) : Rat := name

def appScoreKey (score : Rat) : Rat := (-score)

def minCostKey (cost : Rat) : Rat := cost

def maxCostKey (cost : Rat) : Rat := (-cost)

end Gen.C13
