/-
  Gen.C04 — REGENERATED from the current source of /repo by harness/translate.py on every check run.
  Do not edit: the bridge theorems in PabuProofs/Bridge re-prove these definitions equal to the model's formulas.
-/
namespace Gen.C04

def efficiency (profit weight : Rat) : Rat := (if (decide (weight ≠ (0 : Rat))) then (profit / weight) else (0 : Rat))

def withinCapacity (weightSum capacity : Rat) : Bool := (decide (weightSum ≤ capacity))

def improves (profitSum lower : Rat) : Bool := (decide (profitSum > lower))

def upperBoundRight (capacity weightSum eff : Rat) : Rat := ((capacity - weightSum) * eff)

def upperBoundLeft (capacity weightSum eff : Rat) : Rat := ((capacity - weightSum) * eff)

def prunes (profitSum upper lower : Rat) : Bool := (decide ((profitSum + upper) ≤ lower))

def prunesLeft (profitSum upper lower : Rat) : Bool := (decide ((profitSum + upper) ≤ lower))

def zeroCost (cost : Rat) : Bool := (decide (cost = (0 : Rat)))

def zeroCostTaken (profit : Rat) : Bool := (decide (profit > (0 : Rat)))

def knapsackItem (profit : Rat) : Bool := (decide (profit ≥ (0 : Rat)))

end Gen.C04
