/-
  Gen.C10 — REGENERATED from the current source of /repo by harness/translate.py on every check run.
  Do not edit: the bridge theorems in PabuProofs/Bridge re-prove these definitions equal to the model's formulas.
-/
namespace Gen.C10

def cardinalitySat (inB : Rat) : Rat := inB

def costSat (inB cost : Rat) : Rat := (inB * cost)

def relCardinalitySat (inB norm : Rat) : Rat := (if (decide (norm = (0 : Rat))) then (0 : Rat) else (inB / norm))

def relCostSat (inB cost norm : Rat) : Rat := (if (decide (norm = (0 : Rat))) then (0 : Rat) else ((inB * cost) / norm))

def relCostApproxSat (inB cost norm : Rat) : Rat := (if (decide (norm = (0 : Rat))) then (0 : Rat) else ((inB * cost) / norm))

def relCostApproxNormaliser (ballotCost budget : Rat) : Rat := (min ballotCost budget)

def effortSat (inB cost den : Rat) : Rat := (if (decide (den ≠ 0)) then (inB * (cost / den)) else (0 : Rat))

def addCardinalSat (score : Rat) : Rat := score

def addCardinalRelSat (score norm : Rat) : Rat := (if (decide (norm = (0 : Rat))) then (0 : Rat) else (score / norm))

def bordaSat (inBallot : Bool) (len pos : Rat) : Rat := (if inBallot then ((len - pos) - (1 : Rat)) else (0 : Rat))

end Gen.C10
