/-
  Gen.C05 — REGENERATED from the current source of /repo by harness/translate.py on every check run.
  Do not edit: the bridge theorems in PabuProofs/Bridge re-prove these definitions equal to the model's formulas.
-/
namespace Gen.C05

def totalLoad (m load : Rat) : Rat := (m * load)

def unsupported (score : Rat) : Bool := (decide (score = (0 : Rat)))

def newMaxLoad (loadSum cost score : Rat) : Rat := ((loadSum + cost) / score)

def overshoots (spent cost budget : Rat) : Bool := (decide ((spent + cost) > budget))

def isCandidate (inInit : Bool) (cost budget : Rat) : Bool := ((!inInit) && (decide (cost ≤ budget)))

end Gen.C05
