/-
  Gen.C05 — REGENERATED from the current source of /repo by harness/translate.py on every check run.
  Do not edit: the bridge theorems in PabuProofs/Bridge re-prove these definitions equal to the model's formulas.
-/
namespace Gen.C05

/-- comparisons with an optional number.  `…Opt`: `none` is Python's `None` (the code never compares with it: the test
    `x is None or …` comes first), so every comparison with it is false; `…Inf`: `none` is `float("inf")`. -/
def ltOpt (a : Rat) : Option Rat → Bool
  | none => false
  | some b => decide (a < b)
def gtOpt (a : Rat) : Option Rat → Bool
  | none => false
  | some b => decide (a > b)
def eqOpt (a : Rat) : Option Rat → Bool
  | none => false
  | some b => decide (a = b)
def ltInf (a : Rat) : Option Rat → Bool
  | none => true
  | some b => decide (a < b)
def gtInf (a : Rat) : Option Rat → Bool
  | none => false
  | some b => decide (a > b)
def eqInf (a : Rat) : Option Rat → Bool
  | none => false
  | some b => decide (a = b)
/-- a possibly infinite number (`none` = `float("inf")`) against another one, and against a running extremum that is `None` before the
    first element -/
def ltE : Option Rat → Option Rat → Bool
  | some a, some b => decide (a < b)
  | some _, none => true
  | none, _ => false
def ltOptE (a : Option Rat) : Option (Option Rat) → Bool
  | none => false
  | some b => ltE a b
def eqOptE (a : Option Rat) : Option (Option Rat) → Bool
  | none => false
  | some b => a == b

def argminLoop : (Option (Option Rat)) → (List Nat) → List (Nat × Rat × Rat × Rat) → ((Option (Option Rat)) × (List Nat))
  | best, arg, [] => (best, arg)
  | best, arg, x :: xs => (if (decide (x.2.1 = (0 : Rat))) then (if ((best).isNone || (ltOptE none best)) then (argminLoop ((some none)) [x.1] xs) else (if (eqOptE none best) then (argminLoop best ((arg ++ [x.1])) xs) else (argminLoop best arg xs))) else (if ((best).isNone || (ltOptE (some ((x.2.2.1 + x.2.2.2) / x.2.1)) best)) then (argminLoop ((some (some ((x.2.2.1 + x.2.2.2) / x.2.1)))) [x.1] xs) else (if (eqOptE (some ((x.2.2.1 + x.2.2.2) / x.2.1)) best) then (argminLoop best ((arg ++ [x.1])) xs) else (argminLoop best arg xs))))

def totalLoad (m load : Rat) : Rat := (m * load)

def unsupported (score : Rat) : Bool := (decide (score = (0 : Rat)))

def newMaxLoad (loadSum cost score : Rat) : Rat := ((loadSum + cost) / score)

def overshoots (spent cost budget : Rat) : Bool := (decide ((spent + cost) > budget))

def isCandidate (inInit : Bool) (cost budget : Rat) : Bool := ((!inInit) && (decide (cost ≤ budget)))

end Gen.C05
