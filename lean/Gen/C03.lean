/-
  Gen.C03 — REGENERATED from the current source of /repo by harness/translate.py on every check run.
  Do not edit: the bridge theorems in PabuProofs/Bridge re-prove these definitions equal to the model's formulas.
-/
namespace Gen.C03

def hasPositiveCost (cost : Rat) : Bool := (decide (cost > (0 : Rat)))

def marginal (satNew satOld cost : Rat) : Rat := ((satNew - satOld) / cost)

def stillFits (isSelected : Bool) (newCost cost budget : Rat) : Bool := ((!isSelected) && (decide ((newCost + cost) ≤ budget)))

def initiallyFits (inInit : Bool) (initCost cost budget : Rat) : Bool := ((!inInit) && (decide ((initCost + cost) ≤ budget)))

def densitySupported (totalSat : Rat) : Bool := (decide (totalSat > (0 : Rat)))

def densityValue (totalSat cost : Rat) : Rat := (totalSat / cost)

def stillFitsLoop (selected : Nat) (newCost budget : Rat) : (List Nat) → List (Nat × Rat) → (List Nat)
  | kept, [] => kept
  | kept, x :: xs => (if ((x.1 != selected) && (decide ((newCost + x.2) ≤ budget))) then (stillFitsLoop selected newCost budget ((kept ++ [x.1])) xs) else (stillFitsLoop selected newCost budget kept xs))

def passLoop : (List Nat) → Rat → List (Nat × Rat) → ((List Nat) × Rat)
  | sel, remaining, [] => (sel, remaining)
  | sel, remaining, x :: xs => (if (decide (x.2 ≤ remaining)) then (passLoop ((sel ++ [x.1])) ((remaining - x.2)) xs) else (passLoop sel remaining xs))

def passFits (cost remaining : Rat) : Bool := (decide (cost ≤ remaining))

def passRemaining (remaining cost : Rat) : Rat := (remaining - cost)

def passInitialRemaining (budget initCost : Rat) : Rat := (budget - initCost)

end Gen.C03
