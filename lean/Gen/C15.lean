/-
  Gen.C15 — REGENERATED from the current source of /repo by harness/translate.py on every check run.
  Do not edit: the bridge theorems in PabuProofs/Bridge re-prove these definitions equal to the model's formulas.
-/
namespace Gen.C15

def isFeasible (total budget : Rat) : Bool := (decide (total ≤ budget))

def isTrivial (total budget : Rat) (noneFits : Bool) : Bool := ((decide (total ≤ budget)) || noneFits)

def singleDoesNotFit (budget c : Rat) : Bool := (decide (budget < c))

def fitsOnTop (inW : Bool) (c cost budget : Rat) : Bool := ((!inW) && (decide ((c + cost) ≤ budget)))

def cheapestOvershoots (c acc budget : Rat) : Bool := (decide ((c + acc) > budget))

def cheapestNewTotal (c acc : Rat) : Rat := (c + acc)

end Gen.C15
