/-
  Gen.C15 — REGENERATED from the current source of /repo by harness/translate.py on every check run.
  Do not edit: the bridge theorems in PabuProofs/Bridge re-prove these definitions equal to the model's formulas.
-/
namespace Gen.C15

def isExhaustiveFnLoop (cost budget : Rat) : List (Bool × Rat) → (Option Bool)
  | [] => none
  | x :: xs => (if ((!x.1) && (decide ((x.2 + cost) ≤ budget))) then (some false) else (isExhaustiveFnLoop cost budget xs))

def isExhaustiveFn (cost budget : Rat) (xs : List (Bool × Rat)) : Bool :=
  (fun r => (Option.getD r true)) (isExhaustiveFnLoop cost budget xs)

def maxCardFnLoop (budget : Rat) : Rat → Rat → List (Rat) → (Rat × Rat)
  | acc, selected, [] => (acc, selected)
  | acc, selected, x :: xs => (if (decide ((x + acc) > budget)) then (acc, selected) else (maxCardFnLoop budget ((x + acc)) ((selected + (1 : Rat))) xs))

def maxCardFn (budget : Rat) (xs : List (Rat)) : Rat :=
  (fun r => r.2) (maxCardFnLoop budget ((0 : Rat)) ((0 : Rat)) xs)

def isFeasible (total budget : Rat) : Bool := (decide (total ≤ budget))

def isTrivial (total budget : Rat) (noneFits : Bool) : Bool := ((decide (total ≤ budget)) || noneFits)

def singleDoesNotFit (budget c : Rat) : Bool := (decide (budget < c))

def fitsOnTop (inW : Bool) (c cost budget : Rat) : Bool := ((!inW) && (decide ((c + cost) ≤ budget)))

def cheapestOvershoots (c acc budget : Rat) : Bool := (decide ((c + acc) > budget))

def cheapestNewTotal (c acc : Rat) : Rat := (c + acc)

end Gen.C15
