/-
  Gen.C09 — REGENERATED from the current source of /repo by harness/translate.py on every check run.
  Do not edit: the bridge theorems in PabuProofs/Bridge re-prove these definitions equal to the model's formulas.
-/
namespace Gen.C09

def budgetIncreaseWhile (rule : Rat → List Nat) (feasible exhaustive : List Nat → Bool) (exhaustiveStop : Bool) (step bound : Rat) : Nat → Rat → (List Nat) → (List Nat)
  | 0, cur, prev => prev
  | fuel + 1, cur, prev => if (decide (cur ≤ bound)) then (if (!(feasible (rule cur))) then prev else (if (exhaustiveStop && (exhaustive (rule cur))) then (rule cur) else (budgetIncreaseWhile rule feasible exhaustive exhaustiveStop step bound fuel ((cur + step)) ((rule cur))))) else prev

def budgetIncreaseAllWhile (rule : Rat → List (List Nat)) (feasible exhaustive : List Nat → Bool) (exhaustiveStop : Bool) (step bound : Rat) : Nat → Rat → (List (List Nat)) → (List (List Nat))
  | 0, cur, prev => prev
  | fuel + 1, cur, prev => if (decide (cur ≤ bound)) then (if (((rule cur)).any (fun o => (!(feasible o)))) then prev else (if (exhaustiveStop && (((rule cur)).any (fun o => (exhaustive o)))) then (rule cur) else (budgetIncreaseAllWhile rule feasible exhaustive exhaustiveStop step bound fuel ((cur + step)) ((rule cur))))) else prev

def defaultStep (budget : Rat) : Rat := (budget * ((1 : Rat) / (100 : Rat)))

def defaultBound (budget n : Rat) : Rat := (budget * (n + (1 : Rat)))

def withinBound (cur bound : Rat) : Bool := (decide (cur ≤ bound))

def nextBudget (cur step : Rat) : Rat := (cur + step)

def nextBudgetAll (cur step : Rat) : Rat := (cur + step)

end Gen.C09
