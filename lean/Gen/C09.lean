/-
  Gen.C09 — REGENERATED from the current source of /repo by harness/translate.py on every check run.
  Do not edit: the bridge theorems in PabuProofs/Bridge re-prove these definitions equal to the model's formulas.
-/
namespace Gen.C09

def defaultStep (budget : Rat) : Rat := (budget * ((1 : Rat) / (100 : Rat)))

def defaultBound (budget n : Rat) : Rat := (budget * (n + (1 : Rat)))

def withinBound (cur bound : Rat) : Bool := (decide (cur ≤ bound))

def nextBudget (cur step : Rat) : Rat := (cur + step)

def nextBudgetAll (cur step : Rat) : Rat := (cur + step)

end Gen.C09
