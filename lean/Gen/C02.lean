/-
  Gen.C02 — REGENERATED from the current source of /repo by harness/translate.py on every check run.
  Do not edit: the bridge theorems in PabuProofs/Bridge re-prove these definitions equal to the model's formulas.
-/
namespace Gen.C02

def voterShare (budget n : Rat) : Rat := (budget / n)

def totalBudget (m b : Rat) : Rat := (m * b)

def totalSatProject (m u : Rat) : Rat := (m * u)

def budgetOverSat (b u : Rat) : Rat := (b / u)

def cacheLookupKey (proj budget : Rat) : Rat × Rat := (proj, budget)

def cacheStoreKey (proj budget : Rat) : Rat × Rat := (proj, budget)

def initialAffordability (cost totalSat : Rat) : Rat := (cost / totalSat)

def isSupporter (u : Rat) : Bool := (decide (u > (0 : Rat)))

def isSupported (totalSat : Rat) : Bool := (decide (totalSat > (0 : Rat)))

def hasPositiveCost (cost : Rat) : Bool := (decide (cost > (0 : Rat)))

def unaffordable (available cost : Rat) : Bool := (decide (available < cost))

/-- comparisons with an optional number.  `…Opt`: `none` is Python's `None` (the code never compares with it: the test
    `x is None or …` comes first), so every comparison with it is false; `…Inf`: `none` is `float("inf")`. -/
def ltOpt (a : Rat) : Option Rat → Bool
  | none => false
  | some b => decide (a < b)
def gtOpt (a : Rat) : Option Rat → Bool
  | none => false
  | some b => decide (a > b)
def eqOpt (a : Rat) : Option Rat → Bool
  | none => false
  | some b => decide (a = b)
def ltInf (a : Rat) : Option Rat → Bool
  | none => true
  | some b => decide (a < b)
def gtInf (a : Rat) : Option Rat → Bool
  | none => false
  | some b => decide (a > b)
def eqInf (a : Rat) : Option Rat → Bool
  | none => false
  | some b => decide (a = b)
/-- a possibly infinite number (`none` = `float("inf")`) against another one, and against a running extremum that is `None` before the
    first element -/
def ltE : Option Rat → Option Rat → Bool
  | some a, some b => decide (a < b)
  | some _, none => true
  | none, _ => false
def ltOptE (a : Option Rat) : Option (Option Rat) → Bool
  | none => false
  | some b => ltE a b
def eqOptE (a : Option Rat) : Option (Option Rat) → Bool
  | none => false
  | some b => a == b

def sweepLoop (cost : Rat) (p : Nat) : Rat → Rat → Rat → (Option Rat) → (List Nat) → List (Rat × Rat × Rat) → (Rat × Rat × Rat × (Option Rat) × (List Nat))
  | contribution, denominator, aff, best, tied, [] => (contribution, denominator, aff, best, tied)
  | contribution, denominator, aff, best, tied, x :: xs => (if (decide ((((cost - contribution) / denominator) * x.2.1) ≤ x.1)) then (if (ltInf ((cost - contribution) / denominator) best) then (contribution, denominator, ((cost - contribution) / denominator), (some ((cost - contribution) / denominator)), [p]) else (if (eqInf ((cost - contribution) / denominator) best) then (contribution, denominator, ((cost - contribution) / denominator), best, (tied ++ [p])) else (contribution, denominator, ((cost - contribution) / denominator), best, tied))) else (sweepLoop cost p ((contribution + (x.2.2 * x.1))) ((denominator - (x.2.2 * x.2.1))) aff best tied xs))

def affordFactor (cost contribution denominator : Rat) : Rat := ((cost - contribution) / denominator)

def canPay (factor u b : Rat) : Bool := (decide ((factor * u) ≤ b))

def nextContribution (contribution mb : Rat) : Rat := (contribution + mb)

def nextDenominator (denominator m u : Rat) : Rat := (denominator - (m * u))

def improvesBest (factor best : Rat) : Bool := (decide (factor < best))

def tiesBest (factor best : Rat) : Bool := (decide (factor = best))

def payment (b rho u : Rat) : Rat := (min b (rho * u))

end Gen.C02
