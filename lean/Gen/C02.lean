/-
  Gen.C02 — REGENERATED from the current source of /repo by harness/translate.py on every check run.
  Do not edit: the bridge theorems in PabuProofs/Bridge re-prove these definitions equal to the model's formulas.
-/
namespace Gen.C02

def voterShare (budget n : Rat) : Rat := (budget / n)

def totalBudget (m b : Rat) : Rat := (m * b)

def totalSatProject (m u : Rat) : Rat := (m * u)

def budgetOverSat (b u : Rat) : Rat := (b / u)

def cacheLookupKey (proj budget : Rat) : Rat × Rat := (proj, budget)

def cacheStoreKey (proj budget : Rat) : Rat × Rat := (proj, budget)

def initialAffordability (cost totalSat : Rat) : Rat := (cost / totalSat)

def isSupporter (u : Rat) : Bool := (decide (u > (0 : Rat)))

def isSupported (totalSat : Rat) : Bool := (decide (totalSat > (0 : Rat)))

def hasPositiveCost (cost : Rat) : Bool := (decide (cost > (0 : Rat)))

def unaffordable (available cost : Rat) : Bool := (decide (available < cost))

def affordFactor (cost contribution denominator : Rat) : Rat := ((cost - contribution) / denominator)

def canPay (factor u b : Rat) : Bool := (decide ((factor * u) ≤ b))

def nextContribution (contribution mb : Rat) : Rat := (contribution + mb)

def nextDenominator (denominator m u : Rat) : Rat := (denominator - (m * u))

def improvesBest (factor best : Rat) : Bool := (decide (factor < best))

def tiesBest (factor best : Rat) : Bool := (decide (factor = best))

def payment (b rho u : Rat) : Rat := (min b (rho * u))

end Gen.C02
