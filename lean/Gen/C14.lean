/-
  Gen.C14 — REGENERATED from the current source of /repo by harness/translate.py on every check run.
  Do not edit: the bridge theorems in PabuProofs/Bridge re-prove these definitions equal to the model's formulas.
-/
namespace Gen.C14

def isLargeEnough (groupSize numVoters projectsCost budget : Rat) : Bool := (decide ((projectsCost * numVoters) ≤ (groupSize * budget)))

def missing (inW : Bool) : Bool := (!inW)

def noSurplus  : Rat := (0 : Rat)

def coreSizeTest (large : Bool) : Bool := large

def coreGroupNonEmpty (groupLen : Rat) : Bool := (decide (groupLen > (0 : Rat)))

def coreVoterOk (satW surplus satT : Rat) : Bool := (decide ((satW + surplus) ≥ satT))

def strongEJRApprovalFails (satW satT : Rat) : Bool := (decide (satW < satT))

def ejrApprovalOk (satW surplus satT : Rat) : Bool := (decide ((satW + surplus) ≥ satT))

def cardThresholdSummand (minScore : Rat) : Rat := minScore

def strongEJRCardinalFails (satW threshold : Rat) : Bool := (decide (satW < threshold))

def ejrCardinalOk (satW surplus threshold : Rat) : Bool := (decide ((satW + surplus) ≥ threshold))

def pjrApprovalThreshold (satT : Rat) : Rat := satT

def pjrApprovalGroupSat (satApproved surplus : Rat) : Rat := (satApproved + surplus)

def pjrGroupApproves (someoneApproves : Bool) : Bool := someoneApproves

def pjrApprovalFails (groupSat threshold : Rat) : Bool := (decide (groupSat < threshold))

def pjrCardinalGroupSummand (maxScore : Rat) : Rat := maxScore

def pjrCardinalFails (groupSat surplus threshold : Rat) : Bool := (decide ((groupSat + surplus) < threshold))

def upToAnyEJRApproval (bound : Rat) : Rat := bound

def upToOneEJRApproval (bound : Rat) : Rat := bound

def upToAnyEJRCardinal (bound : Rat) : Rat := bound

def upToOneEJRCardinal (bound : Rat) : Rat := bound

def upToAnyPJRApproval (bound : Rat) : Rat := bound

def upToOnePJRApproval (bound : Rat) : Rat := bound

def upToAnyPJRCardinal (bound : Rat) : Rat := bound

def upToOnePJRCardinal (bound : Rat) : Rat := bound

def isCohesiveApprovalFnLoop (large : Bool) (numBallots numProjects : Rat) : List (List Bool) → (Option Bool)
  | [] => none
  | x :: xs => (if (x).any (fun y => (!y)) then (some false) else (isCohesiveApprovalFnLoop large numBallots numProjects xs))

def isCohesiveApprovalFn (large : Bool) (numBallots numProjects : Rat) (xs : List (List Bool)) : Bool :=
  if (!large) then false else if ((decide (numBallots = (0 : Rat))) || (decide (numProjects = (0 : Rat)))) then false else (fun r => (Option.getD r true)) (isCohesiveApprovalFnLoop large numBallots numProjects xs)

def isCohesiveCardinalFnLoop (large : Bool) (numBallots numProjects : Rat) : List (List (Rat × Rat)) → (Option Bool)
  | [] => none
  | x :: xs => (if (x).any (fun y => (decide (y.1 < y.2))) then (some false) else (isCohesiveCardinalFnLoop large numBallots numProjects xs))

def isCohesiveCardinalFn (large : Bool) (numBallots numProjects : Rat) (xs : List (List (Rat × Rat))) : Bool :=
  if (!large) then false else if ((decide (numBallots = (0 : Rat))) || (decide (numProjects = (0 : Rat)))) then false else (fun r => (Option.getD r true)) (isCohesiveCardinalFnLoop large numBallots numProjects xs)

def cohApprovalTooSmall (large : Bool) : Bool := (!large)

def cohApprovalEmpty (numBallots numProjects : Rat) : Bool := ((decide (numBallots = (0 : Rat))) || (decide (numProjects = (0 : Rat))))

def cohApprovalPairFails (inBallot : Bool) : Bool := (!inBallot)

def cohCardinalTooSmall (large : Bool) : Bool := (!large)

def cohCardinalEmpty (numBallots numProjects : Rat) : Bool := ((decide (numBallots = (0 : Rat))) || (decide (numProjects = (0 : Rat))))

def cohCardinalPairFails (score alpha : Rat) : Bool := (decide (score < alpha))

def cohGroupNonEmpty (groupLen : Rat) : Bool := (decide (groupLen > (0 : Rat)))

def cohSetNonEmpty (setLen : Rat) : Bool := (decide (setLen > (0 : Rat)))

def cohAlphaMin (minScore : Rat) : Rat := minScore

end Gen.C14
