/-
  Gen.C14 — REGENERATED from the current source of /repo by harness/translate.py on every check run.
  Do not edit: the bridge theorems in PabuProofs/Bridge re-prove these definitions equal to the model's formulas.
-/
namespace Gen.C14

def isLargeEnough (groupSize numVoters projectsCost budget : Rat) : Bool := (decide ((projectsCost * numVoters) ≤ (groupSize * budget)))

end Gen.C14
