/-
  Gen.C12 — REGENERATED from the current source of /repo by harness/translate.py on every check run.
  Do not edit: the bridge theorems in PabuProofs/Bridge re-prove these definitions equal to the model's formulas.
-/
namespace Gen.C12

def checkRoundPrecision  : Rat := (2 : Rat)

def roundCmp (round : Rat → Rat → Rat) (a b precision : Rat) : Rat := (round (a - b) precision)

def notSelected (inW : Bool) : Bool := (!inW)

def spent (paySum : Rat) : Rat := paySum

def leftover (b spent : Rat) : Rat := (b - spent)

def maxPayment (maxOrZero : Rat) : Rat := maxOrZero

def c0aFails (total budget : Rat) : Bool := (decide (total > budget))

def checksExhaustive (exhaustive : Bool) : Bool := exhaustive

def c0bFails (total cost budget : Rat) : Bool := (decide ((total + cost) ≤ budget))

def c1Fails (approves : Bool) (pay : Rat) : Bool := ((!approves) && (decide (pay ≠ (0 : Rat))))

def negFails (cmp : Rat) : Bool := (decide (cmp < (0 : Rat)))

def c2Fails (cmp : Rat) : Bool := (decide (cmp > (0 : Rat)))

def paidFor (pay : Rat) : Rat := pay

def c3Fails (cmp : Rat) : Bool := (decide (cmp ≠ (0 : Rat)))

def paidForUnselected (pay : Rat) : Rat := pay

def c4Fails (cmp : Rat) : Bool := (decide (cmp ≠ (0 : Rat)))

def plainBranch (stable : Bool) : Bool := (!stable)

def c5Supporter (approves : Bool) : Bool := approves

def c5Summand (leftover : Rat) : Rat := leftover

def c5Fails (cmp : Rat) : Bool := (decide (cmp > (0 : Rat)))

def s5Supporter (approves : Bool) : Bool := approves

def s5Summand (maxPayment leftover : Rat) : Rat := (max maxPayment leftover)

def s5Cost (noRelaxation : Bool) (cost relaxed : Rat) : Rat := (if noRelaxation then cost else relaxed)

def s5Fails (cmp : Rat) : Bool := (decide (cmp > (0 : Rat)))

def accepts (noErrors : Bool) : Bool := noErrors

end Gen.C12
