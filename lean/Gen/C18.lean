/-
  Gen.C18 — REGENERATED from the current source of /repo by harness/translate.py on every check run.
  Do not edit: the bridge theorems in PabuProofs/Bridge re-prove these definitions equal to the model's formulas.
-/
namespace Gen.C18

def meanUpdate (mean value n : Rat) : Rat := (mean + ((value - mean) / n))

def giniFormula (num cum total : Rat) : Rat := (((num + (1 : Rat)) - (((2 : Rat) * cum) / total)) / num)

def giniCumLoop (num : Rat) : Rat → List (Rat × Rat) → Rat
  | cum, [] => cum
  | cum, x :: xs => (giniCumLoop num ((cum + (x.2 * (num - x.1)))) xs)

def giniTerm (v num i : Rat) : Rat := ((0 : Rat) + (v * (num - i)))

def histTop (s mx : Rat) : Bool := (decide (s ≥ mx))

def histArg (s bins mx : Rat) : Rat := ((s * (bins - (1 : Rat))) / mx)

end Gen.C18
