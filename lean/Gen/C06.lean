/-
  Gen.C06 — REGENERATED from the current source of /repo by harness/translate.py on every check run.
  Do not edit: the bridge theorems in PabuProofs/Bridge re-prove these definitions equal to the model's formulas.
-/
namespace Gen.C06

def listMultiplicity  : Rat := (1 : Rat)

def multiMultiplicity (count : Rat) : Rat := count

def satListMultiplicity  : Rat := (1 : Rat)

def satMultiMultiplicity (count : Rat) : Rat := count

def approvalScoreInit  : Rat := (0 : Rat)

def approves (inBallot : Bool) : Bool := inBallot

def approvalScoreUpdate (score m : Rat) : Rat := (score + m)

def totalSatSummand (s m : Rat) : Rat := (s * m)

def totalSatProjectSummand (s m : Rat) : Rat := (s * m)

end Gen.C06
