/-
  Gen.C06 — REGENERATED from the current source of /repo by harness/translate.py on every check run.
  Do not edit: the bridge theorems in PabuProofs/Bridge re-prove these definitions equal to the model's formulas.
-/
namespace Gen.C06

def listMultiplicity  : Rat := (1 : Rat)

def multiMultiplicity (count : Rat) : Rat := count

def satListMultiplicity  : Rat := (1 : Rat)

def satMultiMultiplicity (count : Rat) : Rat := count

def approvalScoreFnLoop : Rat → List (Bool × Rat) → Rat
  | score, [] => score
  | score, x :: xs => (if x.1 then (approvalScoreFnLoop ((score + x.2)) xs) else (approvalScoreFnLoop score xs))

def approvalScoreFn (xs : List (Bool × Rat)) : Rat :=
  (fun r => r) (approvalScoreFnLoop ((0 : Rat)) xs)

def approvalScoreInit  : Rat := (0 : Rat)

def approves (inBallot : Bool) : Bool := inBallot

def approvalScoreUpdate (score m : Rat) : Rat := (score + m)

def totalSatSummand (s m : Rat) : Rat := (s * m)

def totalSatProjectSummand (s m : Rat) : Rat := (s * m)

end Gen.C06
