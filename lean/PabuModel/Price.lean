/-
  PabuModel.Price — the price-system validator (pabutools/analysis/priceability.py:
  `validate_price_system`, pabutools/utils.py: `round_cmp`).

  `validate` mirrors the code: the conditions C0a, C0b, C1, C2, C3, C4, C5 / S5, the rounded comparisons
  with `round_cmp(·, ·, 2)` (the sign of the difference rounded to 2 decimals);  `exact` is the same list of conditions with exact comparisons (the
  definition of a (stable) price system the validator is meant to decide up to its rounding tolerance).
-/
import PabuModel.Sat
namespace Pabu.Price
open Pabu

/-- round half to even to the nearest integer -/
def roundHalfEven (y : Rat) : Int :=
  if y - (y.floor : Rat) < 1 / 2 then y.floor
  else if 1 / 2 < y - (y.floor : Rat) then y.floor + 1
  else if y.floor % 2 = 0 then y.floor
  else y.floor + 1

/-- Python's `round(x, 2)` on an exact rational (gmpy2 `mpq`, `Fraction`): half-even to 2 decimals -/
def round2 (x : Rat) : Rat := (roundHalfEven (x * 100) : Rat) / 100

/-- `round_cmp(a, b, CHECK_ROUND_PRECISION)`: `round(a - b, 2)` — the DIFFERENCE is rounded (repaired `round_cmp`; it used to
    return `round(a, 2) - round(b, 2)`, which tells apart two numbers a float error apart when they straddle a rounding
    boundary) -/
def roundCmp (a b : Rat) : Rat := round2 (a - b)

/-- a voter as the validator sees them: the ballot (`c in i`) and the payment function `pf[idx]` -/
structure PVoter where
  app : Pid → Bool
  pay : Pid → Rat

/-- everything `validate_price_system` reads -/
structure Input where
  C : List Pid            -- the instance
  cost : Pid → Rat
  budget : Rat            -- `instance.budget_limit`
  W : List Pid            -- `budget_allocation`
  N : List PVoter         -- profile with payment functions, in profile order
  b : Rat                 -- `voter_budget`

def Input.NW (X : Input) : List Pid := X.C.filter (fun c => !(X.W.contains c))

def Input.total (X : Input) : Rat := costOf X.cost X.W

/-- `spent[idx] = sum(pf[idx][c] for c in C)` -/
def spent (X : Input) (v : PVoter) : Rat := sumOver X.C v.pay

/-- `leftover[idx] = b - spent[idx]` -/
def leftover (X : Input) (v : PVoter) : Rat := X.b - spent X v

/-- `max_payment[idx] = max((pf[idx][c] for c in C), default=0)` -/
def maxPayment (X : Input) (v : PVoter) : Rat := (maxRat (X.C.map v.pay)).getD 0

/-- `sum(pf[idx][c] for idx, _ in enumerate(N))` -/
def paidFor (X : Input) (c : Pid) : Rat := sumOver X.N (fun v => v.pay c)

/-- `sum(leftover[idx] for idx, i in enumerate(N) if c in i)` -/
def leftoverOf (X : Input) (c : Pid) : Rat := sumOver (X.N.filter (fun v => v.app c)) (leftover X)

/-- `sum(max(max_payment[idx], leftover[idx]) for idx, i in enumerate(N) if c in i)` -/
def stableOf (X : Input) (c : Pid) : Rat :=
  sumOver (X.N.filter (fun v => v.app c)) (fun v => if leftover X v ≤ maxPayment X v then maxPayment X v else leftover X v)

/-! ### the validator, condition by condition (`true` = no error recorded) -/

def c0a (X : Input) : Bool := !(decide (X.budget < X.total))

def c0b (X : Input) : Bool := X.NW.all (fun c => !(decide (X.total + X.cost c ≤ X.budget)))

def c1 (X : Input) : Bool := X.N.all (fun v => X.C.all (fun c => v.app c || decide (v.pay c = 0)))

/-- payments are non-negative (repaired validator; rounded like the other numeric tests) -/
def cNeg (X : Input) : Bool := X.N.all (fun v => X.C.all (fun c => !(decide (roundCmp (v.pay c) 0 < 0))))

def c2 (X : Input) : Bool := X.N.all (fun v => !(decide (0 < roundCmp (spent X v) X.b)))

def c3 (X : Input) : Bool := X.W.all (fun c => decide (roundCmp (paidFor X c) (X.cost c) = 0))

def c4 (X : Input) : Bool := X.NW.all (fun c => decide (roundCmp (paidFor X c) 0 = 0))

def c5 (X : Input) : Bool := X.NW.all (fun c => !(decide (0 < roundCmp (leftoverOf X c) (X.cost c))))

def s5 (X : Input) : Bool := X.NW.all (fun c => !(decide (0 < roundCmp (stableOf X c) (X.cost c))))

/-- `validate_price_system(instance, profile, W, b, pf, stable, exhaustive)` -/
def validate (X : Input) (stable exhaustive : Bool) : Bool :=
  c0a X && (!exhaustive || c0b X) && c1 X && cNeg X && c2 X && c3 X && c4 X && (if stable then s5 X else c5 X)

/-! ### the same conditions with exact comparisons -/

def e2 (X : Input) : Bool := X.N.all (fun v => decide (spent X v ≤ X.b))

def eNeg (X : Input) : Bool := X.N.all (fun v => X.C.all (fun c => decide (0 ≤ v.pay c)))

def e3 (X : Input) : Bool := X.W.all (fun c => decide (paidFor X c = X.cost c))

def e4 (X : Input) : Bool := X.NW.all (fun c => decide (paidFor X c = 0))

def e5 (X : Input) : Bool := X.NW.all (fun c => decide (leftoverOf X c ≤ X.cost c))

def es5 (X : Input) : Bool := X.NW.all (fun c => decide (stableOf X c ≤ X.cost c))

/-- `(b, pf)` is a (stable) price system for `W` -/
def exact (X : Input) (stable exhaustive : Bool) : Bool :=
  c0a X && (!exhaustive || c0b X) && c1 X && eNeg X && e2 X && e3 X && e4 X && (if stable then es5 X else e5 X)

/-! ### relaxations of the stable condition (pabutools/analysis/priceability_relaxation.py)

`validate_price_system(..., stable=True, relaxation=R)` replaces the cost on the right-hand side of S5 — and only
there — by `R.get_relaxed_cost(c)`:  `cost = c.cost if relaxation is None else relaxation.get_relaxed_cost(c)`.
`rc` is that relaxed-cost function; the five shipped shapes are given below as functions of the β the search saved. -/

/-- S5 with the relaxed cost on the right-hand side -/
def s5R (X : Input) (rc : Pid → Rat) : Bool := X.NW.all (fun c => !(decide (0 < roundCmp (stableOf X c) (rc c))))

/-- `validate_price_system(instance, profile, W, b, pf, stable, exhaustive, relaxation)`; the relaxation is read only when
    `stable` (the plain condition C5 keeps the true cost, as in the code) -/
def validateRelaxed (X : Input) (rc : Pid → Rat) (stable exhaustive : Bool) : Bool :=
  c0a X && (!exhaustive || c0b X) && c1 X && cNeg X && c2 X && c3 X && c4 X && (if stable then s5R X rc else c5 X)

/-- S5 with the relaxed cost, exact comparison -/
def es5R (X : Input) (rc : Pid → Rat) : Bool := X.NW.all (fun c => decide (stableOf X c ≤ rc c))

/-- `(b, pf)` is a price system for `W` that is stable w.r.t. the relaxed costs `rc` -/
def exactRelaxed (X : Input) (rc : Pid → Rat) (stable exhaustive : Bool) : Bool :=
  c0a X && (!exhaustive || c0b X) && c1 X && eNeg X && e2 X && e3 X && e4 X && (if stable then es5R X rc else e5 X)

/-- `MinMul.get_relaxed_cost`: `project.cost * beta` -/
def rcMinMul (cost : Pid → Rat) (β : Rat) : Pid → Rat := fun c => cost c * β

/-- `MinAdd.get_relaxed_cost`: `project.cost + beta` -/
def rcMinAdd (cost : Pid → Rat) (β : Rat) : Pid → Rat := fun c => cost c + β

/-- `MinAddVector.get_relaxed_cost` / `MinAddVectorPositive.get_relaxed_cost`: `project.cost + beta[project]` -/
def rcMinAddVector (cost : Pid → Rat) (βv : Pid → Rat) : Pid → Rat := fun c => cost c + βv c

/-- `MinAddOffset.get_relaxed_cost`: `project.cost + beta_global + beta[project]` -/
def rcMinAddOffset (cost : Pid → Rat) (β : Rat) (βv : Pid → Rat) : Pid → Rat := fun c => cost c + β + βv c

end Pabu.Price
