/-
  PabuModel.Multi — frozen ballots and the Counter-based multiprofile
  (pabutools/election/ballot/*.py: `frozen()`, `__hash__`, `__eq__`;
   pabutools/election/profile/profile.py: `MultiProfile.append / extend`, `Profile.as_multiprofile`).

  A *raw* ballot is the sequence of insertions that built the mutable ballot (the order in which projects were
  added is an input of the model).  `freeze` maps it to the canonical frozen ballot:
    approval  -> ascending list of the distinct approved ids   (repaired `FrozenApprovalBallot`: sorted tuple)
    cardinal  -> score list ascending by id, one pair per key, the LAST assignment of a key wins (dict semantics;
                 `FrozenCardinalBallot.__eq__` is dict equality, the repaired hash is a hash of the item set)
    ordinal   -> the ranking itself (first occurrences; `OrdinalBallot.append` of a present project keeps its place)
  Equality of canonical frozen ballots is what `==`/`hash` of the real frozen ballots implement.
  The multiprofile is an association list (frozen ballot, multiplicity) in first-occurrence order (a Python
  `Counter` is an insertion-ordered dict).
-/
import PabuModel.Election
namespace Pabu.Multi
open Pabu

/-- the construction history of one mutable ballot -/
inductive Raw where
  | app (adds : List Nat)              -- `ballot.add(p)` calls in order (duplicates allowed)
  | card (sets : List (Nat × Rat))     -- `ballot[p] = s` assignments in order (later ones overwrite)
  | ord (appends : List Nat)           -- `ballot.append(p)` calls in order (re-appending keeps the position)
deriving Repr

/-! ### approval -/

/-- insert an id into a strictly ascending list (no effect if present) -/
def insId (x : Nat) : List Nat → List Nat
  | [] => [x]
  | y :: ys => if x < y then x :: y :: ys else if x = y then y :: ys else y :: insId x ys

def freezeApp (l : List Nat) : List Nat := l.foldr insId []

/-! ### cardinal / cumulative -/

/-- insert `(k, v)` into a score list strictly ascending by key, unless the key is present -/
def putNew (k : Nat) (v : Rat) : List (Nat × Rat) → List (Nat × Rat)
  | [] => [(k, v)]
  | e :: r => if k < e.1 then (k, v) :: e :: r else if k = e.1 then e :: r else e :: putNew k v r

/-- later assignments win: the head (earliest assignment) is inserted last and only if its key is still absent -/
def freezeCard (l : List (Nat × Rat)) : List (Nat × Rat) := l.foldr (fun e acc => putNew e.1 e.2 acc) []

/-- the score the dict holds for `k` after the assignments `l` (none = no entry) -/
def lastScore : List (Nat × Rat) → Nat → Option Rat
  | [], _ => none
  | e :: r, k => if (lastScore r k).isSome then lastScore r k else if e.1 = k then some e.2 else none

/-- `dict.get` on a score list -/
def getScore : List (Nat × Rat) → Nat → Option Rat
  | [], _ => none
  | e :: r, k => if e.1 = k then some e.2 else getScore r k

/-! ### ordinal -/

/-- first occurrences, in order -/
def firstOcc : List Nat → List Nat
  | [] => []
  | x :: xs => x :: (firstOcc xs).filter (fun y => !(y == x))

/-! ### freeze -/

def freeze : Raw → Ballot
  | .app l => .app (freezeApp l)
  | .card l => .card (freezeCard l)
  | .ord l => .ord (firstOcc l)

/-- two construction histories describe the same ballot content (what the voter expressed) -/
def SameContent : Raw → Raw → Prop
  | .app l₁, .app l₂ => ∀ x, x ∈ l₁ ↔ x ∈ l₂
  | .card l₁, .card l₂ => ∀ k, lastScore l₁ k = lastScore l₂ k
  | .ord l₁, .ord l₂ => firstOcc l₁ = firstOcc l₂
  | _, _ => False

/-! ### counter -/

abbrev Counter := List (Ballot × Nat)

/-- `self[b] += c` / `self[b] = c` when absent -/
def add (b : Ballot) (c : Nat) : Counter → Counter
  | [] => [(b, c)]
  | e :: r => if e.1 = b then (e.1, e.2 + c) :: r else e :: add b c r

/-- `multiprofile.multiplicity(b)` (a Counter answers 0 for a missing key) -/
def mult : Counter → Ballot → Nat
  | [], _ => 0
  | e :: r, b => if e.1 = b then e.2 else mult r b

/-- `multiprofile.num_ballots()` -/
def total (M : Counter) : Nat := sumNat M (fun e => e.2)

def keys (M : Counter) : List Ballot := M.map Prod.fst

/-- `MultiProfile.append(frozen)` -/
def append (M : Counter) (b : Ballot) : Counter := add b 1 M

/-- `MultiProfile.extend(ballots)`: freeze and append one by one -/
def extend (M : Counter) (bs : List Ballot) : Counter := bs.foldl append M

/-- `Profile.as_multiprofile()` / `MultiProfile(init=[frozen ballots])` -/
def ofList (bs : List Ballot) : Counter := extend [] bs

/-- one step of a history of a multiprofile -/
inductive Op where
  | append (r : Raw)
  | extend (rs : List Raw)
deriving Repr

def Op.voters : Op → List Raw
  | .append r => [r]
  | .extend rs => rs

def step (M : Counter) : Op → Counter
  | .append r => append M (freeze r)
  | .extend rs => extend M (rs.map freeze)

/-- all voters of a history, in order -/
def votersOf (ops : List Op) : List Raw := ops.flatMap Op.voters

/-- conversion of the list profile `init`, then the operations `ops` -/
def run (init : List Raw) (ops : List Op) : Counter := ops.foldl step (ofList (init.map freeze))

end Pabu.Multi
