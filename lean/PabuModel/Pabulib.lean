/-
  PabuModel.Pabulib — executable model of `pabutools/election/pabulib.py` at the level of rows of
  already CSV-split fields (`parse_pabulib_from_string` after `csv.reader`, `election_as_pabulib_string`
  before `csv.writer`).  No Mathlib import.

  Representation choices (all of them forced by what Python's `==` on the returned objects compares):
  * a field is a `List Char` (`Str`); the `String` front end converts once;
  * every Python `dict`/`set` is a *canonical* strictly sorted association list / list (`Map`, `sins`):
    `d[k] = v` is `ains k v d`, `s.add(x)` is `sins x s`.  Python's dict/set equality ignores insertion
    order and so does equality of the canonical form.  `Instance` is a set of projects keyed by name,
    approval ballots are sets, cardinal/cumulative ballots are dicts, ordinal ballots are ordered;
    a `Profile` is a list (order kept);
  * exceptions are `Except PErr`, `PErr` = the exception class.
  The CSV text layer (reader, writer, line splitting) is modelled in PabuModel/Csv.lean (`parseText`, `writeText`).
  Not modelled: `natsort` (the writer's permutation of project and vote rows),
  the order of the columns the writer emits (hash order of Python sets), `mpq` syntax beyond
  `-?digits`, `-?digits.digits`, `-?digits/digits`.
-/
namespace Pabu.Pabulib

abbrev Str := List Char

-- `s!!"abc"` is the list of character literals `['a','b','c']` (so that `decide` and `rfl` see through it)
open Lean in
macro "s!!" s:str : term => do
  let cs := s.getString.toList
  let elems ← cs.toArray.mapM (fun c => `($(Syntax.mkCharLit c)))
  `(([$elems,*] : List Char))

inductive PErr where
  | key | index | value | zeroDiv | notImpl | stop
deriving Repr, DecidableEq

def PErr.toString : PErr → String
  | .key => "key" | .index => "index" | .value => "value" | .zeroDiv => "zeroDiv"
  | .notImpl => "notImpl" | .stop => "stop"

/-! ## characters and fields -/

/-- `str.isspace()` -/
def isSpace (c : Char) : Bool :=
  let n := c.toNat
  (9 ≤ n && n ≤ 13) || (28 ≤ n && n ≤ 32) || n == 133 || n == 160 || n == 5760 ||
  (8192 ≤ n && n ≤ 8202) || n == 8232 || n == 8233 || n == 8239 || n == 8287 || n == 12288

def dropSpaces : Str → Str
  | [] => []
  | c :: cs => if isSpace c then dropSpaces cs else c :: cs

/-- `s.strip()` -/
def strip (s : Str) : Str := (dropSpaces (dropSpaces s).reverse).reverse

/-- `s.lower()` restricted to what the parser compares with (`none`, `meta`, `projects`, `votes`): no
    non-ASCII character lower-cases to one of their letters, so the ASCII map decides the same tests -/
def lower (s : Str) : Str := s.map Char.toLower

def kNone : Str := s!!"none"
def kNoneCell : Str := s!!"None"
def kMETA : Str := s!!"META"
def kPROJECTS : Str := s!!"PROJECTS"
def kVOTES : Str := s!!"VOTES"
def kmeta : Str := s!!"meta"
def kprojects : Str := s!!"projects"
def kvotes : Str := s!!"votes"

/-- `cell.strip().lower() == "none"` -/
def isNone (s : Str) : Bool := lower (strip s) == kNone

/-- section code of a first field: 1 META, 2 PROJECTS, 3 VOTES, 0 not a section line -/
def sectionOf (s : Str) : Nat :=
  if lower (strip s) = kmeta then 1
  else if lower (strip s) = kprojects then 2
  else if lower (strip s) = kvotes then 3
  else 0

def consHead (c : Char) : List Str → List Str
  | [] => [[c]]
  | h :: t => (c :: h) :: t

/-- `s.split(sep)` for a one-character separator (never returns the empty list) -/
def splitOnC (sep : Char) : Str → List Str
  | [] => [[]]
  | c :: cs => if c = sep then [] :: splitOnC sep cs else consHead c (splitOnC sep cs)

/-- `sep.join(l)` -/
def joinC (sep : Char) : List Str → Str
  | [] => []
  | [a] => a
  | a :: b :: r => a ++ sep :: joinC sep (b :: r)

/-- `_split_list(field)`: the empty field is the empty list -/
def splitList (s : Str) : List Str := if s = [] then [] else splitOnC ',' s

/-- `s.replace(",", ".")` -/
def commaToDot (s : Str) : Str := s.map (fun c => if c = ',' then '.' else c)

/-! ## numbers (`str(mpq)`, `mpq(str)`, `int(str)`) -/

def digitChar (d : Nat) : Char := Char.ofNat (48 + d)

/-- decimal digits, most significant first; `fuel ≥ n` is enough (structural recursion, so that closed
    terms reduce in the kernel) -/
def showNatAux : Nat → Nat → Str
  | 0, n => [digitChar (n % 10)]
  | f + 1, n => if n < 10 then [digitChar n] else showNatAux f (n / 10) ++ [digitChar (n % 10)]

def showNat (n : Nat) : Str := showNatAux n n

def showInt (i : Int) : Str :=
  if i < 0 then '-' :: showNat i.natAbs else showNat i.natAbs

/-- `str(mpq)`: `n` or `n/d` in lowest terms -/
def showRat (q : Rat) : Str :=
  if q.den = 1 then showInt q.num else showInt q.num ++ '/' :: showNat q.den

def isDigit (c : Char) : Bool := 48 ≤ c.toNat && c.toNat ≤ 57

def digitsVal (s : Str) : Nat := s.foldl (fun acc c => acc * 10 + (c.toNat - 48)) 0

/-- a non-empty string of ASCII digits -/
def readNat? (s : Str) : Option Nat :=
  if s ≠ [] ∧ s.all isDigit = true then some (digitsVal s) else none

def readSigned? (s : Str) : Option Int :=
  if s.head? = some '-' then Option.map (fun n => - Int.ofNat n) (readNat? s.tail)
  else Option.map Int.ofNat (readNat? s)

/-- `int(s)` on a stripped field: optional sign, digits (no `_`, no non-ASCII digits) -/
def readPyInt (s : Str) : Except PErr Int :=
  if s.head? = some '+' then
    match readNat? s.tail with
    | some n => .ok (Int.ofNat n)
    | none => .error .value
  else
    match readSigned? s with
    | some i => .ok i
    | none => .error .value

def allDigits (s : Str) : Bool := s.all isDigit

/-- decimal `i.f` (one of the two parts may be empty) -/
def readDecimal (neg : Bool) (i f : Str) : Except PErr Rat :=
  if (i = [] ∧ f = []) ∨ allDigits i = false ∨ allDigits f = false then .error .value
  else
    let v : Rat := mkRat ((digitsVal (i ++ f) : Nat) : Int) (10 ^ f.length)
    .ok (if neg then -v else v)

def readUnsignedRat (neg : Bool) (s : Str) : Except PErr Rat :=
  match splitOnC '/' s with
  | [n, d] =>
    if s.contains '.' then .error .value
    else match readNat? n, readNat? d with
      | some a, some b =>
        if b = 0 then .error .zeroDiv
        else .ok (mkRat (if neg then - (a : Int) else (a : Int)) b)
      | _, _ => .error .value
  | [_] =>
    match splitOnC '.' s with
    | [i] => readDecimal neg i []
    | [i, f] => readDecimal neg i f
    | _ => .error .value
  | _ => .error .value

/-- `mpq(s)` for the syntaxes `-?digits`, `-?digits.digits`, `-?digits/digits` -/
def readRat (s : Str) : Except PErr Rat :=
  if s.head? = some '-' then readUnsignedRat true s.tail else readUnsignedRat false s

/-! ## canonical maps and sets keyed by strings -/

/-- lexicographic order by code point (Python's `str.__lt__`) -/
def strLt : Str → Str → Bool
  | [], [] => false
  | [], _ :: _ => true
  | _ :: _, [] => false
  | a :: as, b :: bs =>
    if a.toNat < b.toNat then true else if b.toNat < a.toNat then false else strLt as bs

abbrev Map (β : Type) := List (Str × β)

/-- `d[k] = v` on the canonical (strictly key-sorted) form -/
def ains {β : Type} (k : Str) (v : β) : Map β → Map β
  | [] => [(k, v)]
  | e :: r =>
    if k = e.1 then (k, v) :: r
    else if strLt k e.1 then (k, v) :: e :: r
    else e :: ains k v r

/-- `d.get(k)` -/
def aget {β : Type} (k : Str) : Map β → Option β
  | [] => none
  | e :: r => if k = e.1 then some e.2 else aget k r

/-- `d.pop(k)` (the key is known to be present where the parser calls it) -/
def adel {β : Type} (k : Str) : Map β → Map β
  | [] => []
  | e :: r => if k = e.1 then r else e :: adel k r

def keysOf {β : Type} (m : Map β) : List Str := m.map Prod.fst

/-- strictly sorted by key -/
def sortedKeys : List Str → Bool
  | [] => true
  | [_] => true
  | a :: b :: r => strLt a b && sortedKeys (b :: r)

/-- `s.add(x)` on the canonical (strictly sorted) form of a set of strings -/
def sins (x : Str) : List Str → List Str
  | [] => [x]
  | y :: r => if x = y then y :: r else if strLt x y then x :: y :: r else y :: sins x r

def setOf (l : List Str) : List Str := l.foldl (fun acc x => sins x acc) []

/-- insertion-ordered duplicate-free list (keys of the `dict` behind an ordinal ballot) -/
def appendNew (acc : List Str) (x : Str) : List Str := if x ∈ acc then acc else acc ++ [x]

def orderedOf (l : List Str) : List Str := l.foldl appendNew []

/-! ## the election -/

inductive VoteType where
  | approval | cumulative | scoring | ordinal
deriving Repr, DecidableEq

def VoteType.name : VoteType → Str
  | .approval => s!!"approval" | .cumulative => s!!"cumulative"
  | .scoring => s!!"scoring" | .ordinal => s!!"ordinal"

def VoteType.ofName? (s : Str) : Option VoteType :=
  if s = s!!"approval" then some .approval
  else if s = s!!"cumulative" then some .cumulative
  else if s = s!!"scoring" then some .scoring
  else if s = s!!"ordinal" then some .ordinal
  else none

/-- what is known about a project besides its name (the key of the instance map) -/
structure ProjData where
  cost : Rat
  cats : List Str        -- `Project.categories` (canonical set; `[]` = column absent or `None`)
  targets : List Str     -- `Project.targets`
  md : Map Str         -- `instance.project_meta[p]` without the two set-valued entries
deriving Repr, DecidableEq

inductive Ballot where
  | app (s : List Str)          -- canonical set of project names
  | card (m : Map Rat)          -- canonical dict project name ↦ points (scoring and cumulative)
  | ord (l : List Str)          -- best first, duplicate-free
deriving Repr, DecidableEq

structure Vote where
  ballot : Ballot
  md : Map Str                -- `ballot.md`
deriving Repr, DecidableEq

structure Limits where
  minLen : Option Int := none
  maxLen : Option Int := none
  minCost : Option Rat := none
  maxCost : Option Rat := none
  minScore : Option Rat := none
  maxScore : Option Rat := none
  minTotal : Option Rat := none
  maxTotal : Option Rat := none
deriving Repr, DecidableEq

structure Election where
  vtype : VoteType
  budget : Rat
  md : Map Str                -- `instance.md`
  projects : Map ProjData       -- `instance` (+ `project_meta`)
  votes : List Vote             -- `profile`
  limits : Limits               -- `profile.legal_*`
deriving Repr, DecidableEq

/-! ## keys -/

def kKey : Str := s!!"key"
def kValue : Str := s!!"value"
def kProjectId : Str := s!!"project_id"
def kCost : Str := s!!"cost"
def kName : Str := s!!"name"
def kCategory : Str := s!!"category"
def kCategories : Str := s!!"categories"
def kTarget : Str := s!!"target"
def kTargets : Str := s!!"targets"
def kVoterId : Str := s!!"voter_id"
def kAge : Str := s!!"age"
def kSex : Str := s!!"sex"
def kVotingMethod : Str := s!!"voting_method"
def kVote : Str := s!!"vote"
def kPoints : Str := s!!"points"
def kBudget : Str := s!!"budget"
def kVoteType : Str := s!!"vote_type"
def kNumProjects : Str := s!!"num_projects"
def kNumVotes : Str := s!!"num_votes"
def kMinLength : Str := s!!"min_length"
def kMaxLength : Str := s!!"max_length"
def kMinSumCost : Str := s!!"min_sum_cost"
def kMaxSumCost : Str := s!!"max_sum_cost"
def kMinPoints : Str := s!!"min_points"
def kMaxPoints : Str := s!!"max_points"
def kMinSumPoints : Str := s!!"min_sum_points"
def kMaxSumPoints : Str := s!!"max_sum_points"
def kAutoFilled : Str := s!!"Auto-filled "

/-! ## parser -/

/-- the loop `for i in range(len(row))` of the VOTES block: `header[i]` is only evaluated for cells
    that are not `none` -/
def voteRowMeta : List Str → List Str → Map Str → Except PErr (Map Str)
  | _, [], acc => .ok acc
  | [], v :: vs, acc => if isNone v then voteRowMeta [] vs acc else .error .index
  | h :: hs, v :: vs, acc =>
    if isNone v then voteRowMeta hs vs acc else voteRowMeta hs vs (ains (strip h) (strip v) acc)

/-- what the PROJECTS loop collects: plain metadata, categories, targets -/
structure ProjAcc where
  md : Map Str := []
  cats : List Str := []
  targets : List Str := []

def stripAll (l : List Str) : List Str := l.map strip

/-- the loop of the PROJECTS block: `header[i]` is evaluated for every cell -/
def projRowMeta : List Str → List Str → ProjAcc → Except PErr ProjAcc
  | _, [], acc => .ok acc
  | [], _ :: _, _ => .error .index
  | h :: hs, v :: vs, acc =>
    if isNone v then projRowMeta hs vs acc
    else if strip h = kCategory ∨ strip h = kCategories then
      projRowMeta hs vs { acc with cats := setOf (stripAll (splitOnC ',' v)) }
    else if strip h = kTarget ∨ strip h = kTargets then
      projRowMeta hs vs { acc with targets := setOf (stripAll (splitOnC ',' v)) }
    else projRowMeta hs vs { acc with md := ains (strip h) (strip v) acc.md }

def headD (row : List Str) : Str :=
  match row with
  | [] => []
  | a :: _ => a

/-- one PROJECTS row: name = first cell, cost = the `cost` column.
    `instance.add(p)` keeps an already present project of that name (with its cost and categories) but
    `instance.project_meta[p] = …` replaces its metadata. -/
def parseProjectRow (header row : List Str) (ps : Map ProjData) : Except PErr (Map ProjData) :=
  match projRowMeta header row {} with
  | .error e => .error e
  | .ok acc =>
    match aget kCost acc.md with
    | none => .error .key
    | some c =>
      match readRat (commaToDot c) with
      | .error e => .error e
      | .ok q =>
        match aget (strip (headD row)) ps with
        | some old => .ok (ains (strip (headD row)) { old with md := acc.md } ps)
        | none => .ok (ains (strip (headD row))
            { cost := q, cats := acc.cats, targets := acc.targets, md := acc.md } ps)

/-- approval / ordinal: every token must name a project (`instance.get_project`, exact match) -/
def checkNames (ps : Map ProjData) : List Str → Except PErr (List Str)
  | [] => .ok []
  | n :: ns =>
    match aget n ps with
    | none => .error .key
    | some _ =>
      match checkNames ps ns with
      | .error e => .error e
      | .ok r => .ok (n :: r)

/-- scoring / cumulative: `ballot[get_project(name)] = str_as_frac(points[index].strip())`; the right-hand
    side is evaluated first -/
def decodeCard (ps : Map ProjData) : List Str → List Str → Except PErr (List (Str × Rat))
  | [], _ => .ok []
  | _ :: _, [] => .error .index
  | n :: ns, p :: pts =>
    match readRat (strip p) with
    | .error e => .error e
    | .ok q =>
      match aget n ps with
      | none => .error .key
      | some _ =>
        match decodeCard ps ns pts with
        | .error e => .error e
        | .ok r => .ok ((n, q) :: r)

def mapOfPairs {β : Type} (l : List (Str × β)) : Map β := l.foldl (fun acc e => ains e.1 e.2 acc) []

/-- one VOTES row -/
def parseVoteRow (header row : List Str) (md : Map Str) (ps : Map ProjData) : Except PErr Vote :=
  match voteRowMeta header row [] with
  | .error e => .error e
  | .ok bm =>
    match aget kVoteType md with
    | none => .error .key
    | some vt =>
      if vt = s!!"approval" then
        match aget kVote bm with
        | none => .error .key
        | some v =>
          match checkNames ps (splitList v) with
          | .error e => .error e
          | .ok names => .ok { ballot := .app (setOf names), md := adel kVote bm }
      else if vt = s!!"scoring" ∨ vt = s!!"cumulative" then
        match aget kPoints bm with
        | none => .error .key
        | some pts =>
          match aget kVote bm with
          | none => .error .key
          | some v =>
            match decodeCard ps (splitList v) (splitOnC ',' pts) with
            | .error e => .error e
            | .ok pairs => .ok { ballot := .card (mapOfPairs pairs), md := adel kPoints (adel kVote bm) }
      else if vt = s!!"ordinal" then
        match aget kVote bm with
        | none => .error .key
        | some v =>
          match checkNames ps (splitList v) with
          | .error e => .error e
          | .ok names => .ok { ballot := .ord (orderedOf names), md := adel kVote bm }
      else .error .notImpl

/-- parser state: current section (0 = none yet), its header row, what has been read -/
structure St where
  sec : Nat := 0
  header : List Str := []
  md : Map Str := []
  projects : Map ProjData := []
  votesRev : List Vote := []

def nthD (row : List Str) (i : Nat) : Option Str := row[i]?

/-- a data row in the current section -/
def step (st : St) (row : List Str) : Except PErr St :=
  if st.sec = 1 then
    match row with
    | k :: v :: _ => .ok { st with md := ains (strip k) (strip v) st.md }
    | _ => .error .index
  else if st.sec = 2 then
    match parseProjectRow st.header row st.projects with
    | .error e => .error e
    | .ok ps => .ok { st with projects := ps }
  else if st.sec = 3 then
    match parseVoteRow st.header row st.md st.projects with
    | .error e => .error e
    | .ok v => .ok { st with votesRev := v :: st.votesRev }
  else .ok st

/-- `len(row) == 0 or (len(row) == 1 and len(row[0].strip()) == 0)` -/
def isBlank (row : List Str) : Bool :=
  match row with
  | [] => true
  | [a] => strip a == []
  | _ => false

/-- the `for row in reader` loop; a section line consumes the next row as header (`next(reader)`) -/
def run : St → List (List Str) → Except PErr St
  | st, [] => .ok st
  | st, row :: rest =>
    if isBlank row then run st rest
    else if sectionOf (headD row) ≠ 0 then
      match rest with
      | [] => .error .stop
      | h :: rest' => run { st with sec := sectionOf (headD row), header := h } rest'
    else
      match step st row with
      | .error e => .error e
      | .ok st' => run st' rest

def optInt (m : Map Str) (k : Str) : Except PErr (Option Int) :=
  match aget k m with
  | none => .ok none
  | some v => match readPyInt v with
    | .error e => .error e
    | .ok i => .ok (some i)

def optRat (m : Map Str) (k : Str) : Except PErr (Option Rat) :=
  match aget k m with
  | none => .ok none
  | some v => match readRat v with
    | .error e => .error e
    | .ok q => .ok (some q)

/-- `None` when the test of the normalisation holds -/
def dropIf {α : Type} (p : α → Bool) : Option α → Option α
  | none => none
  | some x => if p x then none else some x

/-- the raw limits read from META in the order of the code -/
def readLimits (m : Map Str) : Except PErr Limits :=
  match optInt m kMinLength with
  | .error e => .error e
  | .ok a =>
  match optInt m kMaxLength with
  | .error e => .error e
  | .ok b =>
  match optRat m kMinSumCost with
  | .error e => .error e
  | .ok c =>
  match optRat m kMaxSumCost with
  | .error e => .error e
  | .ok d =>
  match optRat m kMinSumPoints with
  | .error e => .error e
  | .ok f =>
  match optRat m kMaxSumPoints with
  | .error e => .error e
  | .ok g =>
  match optRat m kMinPoints with
  | .error e => .error e
  | .ok h =>
  match optRat m kMaxPoints with
  | .error e => .error e
  | .ok i =>
    .ok { minLen := a, maxLen := b, minCost := c, maxCost := d, minTotal := f, maxTotal := g,
          minScore := h, maxScore := i }

/-- normalisation against instance size and budget, then the selection the profile constructors make -/
def normLimits (vt : VoteType) (nProjects : Nat) (budget : Rat) (l : Limits) : Limits :=
  let minLen := dropIf (fun x => x == 1) l.minLen
  let maxLen := dropIf (fun x => decide ((nProjects : Int) ≤ x)) l.maxLen
  let minCost := dropIf (fun x => x == 0) l.minCost
  let maxCost := dropIf (fun x => decide (budget ≤ x)) l.maxCost
  let minTotal := dropIf (fun x => x == 0) l.minTotal
  let maxTotal := l.maxTotal
  let minScore := dropIf (fun x => x == 0) l.minScore
  let maxScore := dropIf (fun x => some x == l.maxTotal) l.maxScore
  match vt with
  | .approval => { minLen := minLen, maxLen := maxLen, minCost := minCost, maxCost := maxCost }
  | .scoring => { minLen := minLen, maxLen := maxLen, minScore := minScore, maxScore := maxScore }
  | .cumulative => { minLen := minLen, maxLen := maxLen, minScore := minScore, maxScore := maxScore,
                     minTotal := minTotal, maxTotal := maxTotal }
  | .ordinal => { minLen := minLen, maxLen := maxLen }

/-- what follows the loop: budget, limits, profile construction -/
def finish (st : St) : Except PErr Election :=
  match aget kBudget st.md with
  | none => .error .key
  | some b =>
    match readRat (commaToDot b) with
    | .error e => .error e
    | .ok budget =>
      match readLimits st.md with
      | .error e => .error e
      | .ok raw =>
        match aget kVoteType st.md with
        | none => .error .key
        | some vt =>
          match VoteType.ofName? vt with
          | none => .error .notImpl
          | some t =>
            .ok { vtype := t, budget := budget, md := st.md, projects := st.projects,
                  votes := st.votesRev.reverse,
                  limits := normLimits t st.projects.length budget raw }

/-- `parse_pabulib_from_string` on CSV-split rows -/
def parseRows (rows : List (List Str)) : Except PErr Election :=
  match run {} rows with
  | .error e => .error e
  | .ok st => finish st

def parse (rows : List (List String)) : Except PErr Election :=
  parseRows (rows.map (fun r => r.map String.toList))

/-! ## writer -/

/-- keys the writer always derives, in the order of the code, then the keys it copies when present -/
def metaHead : List Str :=
  [s!!"description", s!!"country", s!!"unit", s!!"subunit", s!!"instance", kNumProjects, kNumVotes,
   kBudget, kVoteType, s!!"rule", s!!"date_begin", s!!"date_end", s!!"date_language", s!!"date_edition",
   s!!"date_district", s!!"date_comment", kMinLength, kMaxLength]

def metaTail : VoteType → List Str
  | .approval => [kMinSumCost, kMaxSumCost]
  | .cumulative => [kMinPoints, kMaxPoints, kMinSumPoints, kMaxSumPoints]
  | .scoring => [kMinPoints, kMaxPoints, s!!"default_score"]
  | .ordinal => [s!!"scoring_fn"]

def mandatoryKeys : List Str :=
  [s!!"description", s!!"country", s!!"unit", s!!"instance", s!!"rule"]

/-- the value the writer gives to a key of `metaHead ++ metaTail`, if it writes it at that place -/
def metaCell (e : Election) (k : Str) : Option Str :=
  if k = kNumProjects then some (showNat e.projects.length)
  else if k = kNumVotes then some (showNat e.votes.length)
  else if k = kBudget then some (showRat e.budget)
  else if k = kVoteType then some e.vtype.name
  else if k = kMinLength then e.limits.minLen.map showInt
  else if k = kMaxLength then e.limits.maxLen.map showInt
  else if k = kMinSumCost then e.limits.minCost.map showRat
  else if k = kMaxSumCost then e.limits.maxCost.map showRat
  else if k = kMinPoints then e.limits.minScore.map showRat
  else if k = kMaxPoints then e.limits.maxScore.map showRat
  else if k = kMinSumPoints then e.limits.minTotal.map showRat
  else if k = kMaxSumPoints then e.limits.maxTotal.map showRat
  else
    match aget k e.md with
    | some v => some v
    | none => if k ∈ mandatoryKeys then some (kAutoFilled ++ k) else none

def pairsOf (keys : List Str) (cell : Str → Option Str) : List (Str × Str) :=
  keys.filterMap (fun k => (cell k).map (fun v => (k, v)))

/-- the `meta` dict of the writer as an ordered list: derived part, then what is left of `instance.md` -/
def metaFixed (e : Election) : List (Str × Str) := pairsOf (metaHead ++ metaTail e.vtype) (metaCell e)

def writeMetaPairs (e : Election) : List (Str × Str) :=
  metaFixed e ++ e.md.filter (fun kv => !((metaFixed e).map Prod.fst).contains kv.1)

def addKeys (acc : List Str) (ks : List Str) : List Str := ks.foldl appendNew acc

def optKey (b : Bool) (k : Str) : List Str := if b then [k] else []

/-- the columns the writer special-cases, in the order it adds them -/
def pkBase (ps : Map ProjData) : List Str :=
  [kProjectId, kCost] ++ optKey (ps.any (fun p => (aget kName p.2.md).isSome)) kName ++
    optKey (ps.any (fun p => !p.2.cats.isEmpty)) kCategory ++
    optKey (ps.any (fun p => !p.2.targets.isEmpty)) kTarget

/-- `project_keys`: fixed columns, then every metadata key in use -/
def projectKeys (ps : Map ProjData) : List Str :=
  ps.foldl (fun acc p => addKeys acc (keysOf p.2.md)) (pkBase ps)

def optJoin (l : List Str) : Option Str := if l = [] then none else some (joinC ',' l)

/-- the entry of `project_meta` (the writer's local dict) under column `k` -/
def projectCell (name : Str) (p : ProjData) (k : Str) : Option Str :=
  if k = kProjectId then some name
  else if k = kCost then some (showRat p.cost)
  else if k = kCategory then
    (if p.cats = [] then aget k p.md else optJoin p.cats)
  else if k = kTarget then
    (if p.targets = [] then aget k p.md else optJoin p.targets)
  else aget k p.md

def cellOr (c : Option Str) : Str :=
  match c with
  | some v => v
  | none => kNoneCell

def ballotNames : Ballot → List Str
  | .app s => s
  | .card m => keysOf m
  | .ord l => l

def ballotIsCard : Ballot → Bool
  | .card _ => true
  | _ => false

def ballotPoints : Ballot → List Rat
  | .card m => m.map Prod.snd
  | _ => []

/-- voter id: the ballot's own, else its position in the profile -/
def voterId (i : Nat) (v : Vote) : Str :=
  match aget kVoterId v.md with
  | some s => s
  | none => showNat i

def voteCell (i : Nat) (v : Vote) (k : Str) : Option Str :=
  if k = kVoterId then some (voterId i v)
  else if k = kVote then some (joinC ',' (ballotNames v.ballot))
  else if k = kPoints then
    (if ballotIsCard v.ballot then some (joinC ',' ((ballotPoints v.ballot).map showRat)) else aget k v.md)
  else aget k v.md

def vkBase (vs : List Vote) : List Str :=
  [kVoterId] ++ optKey (vs.any (fun v => (aget kAge v.md).isSome)) kAge ++
    optKey (vs.any (fun v => (aget kSex v.md).isSome)) kSex ++
    optKey (vs.any (fun v => (aget kVotingMethod v.md).isSome)) kVotingMethod ++
    optKey (!vs.isEmpty) kVote ++
    optKey (vs.any (fun v => ballotIsCard v.ballot)) kPoints

/-- `vote_keys` -/
def voteKeys (vs : List Vote) : List Str :=
  vs.foldl (fun acc v => addKeys acc (keysOf v.md)) (vkBase vs)

def enumFrom {α : Type} : Nat → List α → List (Nat × α)
  | _, [] => []
  | i, x :: xs => (i, x) :: enumFrom (i + 1) xs

def writeMetaRows (e : Election) : List (List Str) :=
  (writeMetaPairs e).map (fun kv => [kv.1, kv.2])

def projectRow (ks : List Str) (p : Str × ProjData) : List Str :=
  ks.map (fun k => cellOr (projectCell p.1 p.2 k))

def voteRow (ks : List Str) (iv : Nat × Vote) : List Str :=
  ks.map (fun k => cellOr (voteCell iv.1 iv.2 k))

def writeProjectRows (ps : Map ProjData) : List (List Str) :=
  ps.map (projectRow (projectKeys ps))

def writeVoteRows (vs : List Vote) : List (List Str) :=
  (enumFrom 0 vs).map (voteRow (voteKeys vs))

/-- `election_as_pabulib_string` before `csv.writer`; project and vote rows in the order of the model
    (the implementation sorts them with `natsort`, a permutation the parser does not depend on for
    projects and that the theorems treat as the order of the profile for votes) -/
def writeRows (e : Election) : List (List Str) :=
  [[kMETA], [kKey, kValue]] ++ writeMetaRows e ++
  [[kPROJECTS], projectKeys e.projects] ++ writeProjectRows e.projects ++
  [[kVOTES], voteKeys e.votes] ++ writeVoteRows e.votes

def write (e : Election) : List (List String) :=
  (writeRows e).map (fun r => r.map String.ofList)


/-! ## round-trip normal form and well-formedness (used by the theorems; executable / decidable) -/

/-- the writer always emits the columns `project_id` and `cost` from the project itself -/
def normProj (np : Str × ProjData) : Str × ProjData :=
  (np.1, { np.2 with md := ains kProjectId np.1 (ains kCost (showRat np.2.cost) np.2.md) })

/-- the writer gives every vote a `voter_id` (its own, else its position) -/
def normVote (iv : Nat × Vote) : Vote :=
  { iv.2 with md := ains kVoterId (voterId iv.1 iv.2) iv.2.md }

/-- what one round trip makes of an election: derived META entries, derived columns, limits in the
    parser's normal form; everything else unchanged -/
def norm (e : Election) : Election :=
  { vtype := e.vtype, budget := e.budget,
    md := mapOfPairs (writeMetaPairs e),
    projects := e.projects.map normProj,
    votes := (enumFrom 0 e.votes).map normVote,
    limits := normLimits e.vtype e.projects.length e.budget e.limits }

def reservedProjKey (k : Str) : Bool := k == kCategory || k == kCategories || k == kTarget || k == kTargets
def reservedVoteKey (k : Str) : Bool := k == kVote || k == kPoints
def noReserved (_ : Str) : Bool := false

/-- a metadata dict the format can carry: canonical, stripped keys that are not reserved column names,
    stripped values other than `none` -/
structure WFMd (m : Map Str) (reserved : Str → Bool) : Prop where
  sorted : sortedKeys (keysOf m) = true
  keys : ∀ kv ∈ m, strip kv.1 = kv.1 ∧ reserved kv.1 = false
  vals : ∀ kv ∈ m, strip kv.2 = kv.2 ∧ isNone kv.2 = false

/-- a project name: stripped, non-empty, not `none`, no comma, not a section word -/
structure GoodName (s : Str) : Prop where
  stripped : strip s = s
  ne : s ≠ []
  notNone : isNone s = false
  noComma : ',' ∉ s
  notSection : sectionOf s = 0

/-- a set of categories / targets the format can carry -/
structure GoodTags (l : List Str) : Prop where
  sorted : sortedKeys l = true
  each : ∀ c ∈ l, strip c = c ∧ ',' ∉ c
  notNone : isNone (joinC ',' l) = false

structure WFProject (np : Str × ProjData) : Prop where
  name : GoodName np.1
  md : WFMd np.2.md reservedProjKey
  cats : GoodTags np.2.cats
  targets : GoodTags np.2.targets

def WFBallot (vt : VoteType) (ps : Map ProjData) : Ballot → Prop
  | .app s => vt = .approval ∧ sortedKeys s = true ∧ ∀ n ∈ s, (aget n ps).isSome = true
  | .card m => (vt = .scoring ∨ vt = .cumulative) ∧ sortedKeys (keysOf m) = true ∧
      ∀ n ∈ keysOf m, (aget n ps).isSome = true
  | .ord l => vt = .ordinal ∧ l.Nodup ∧ ∀ n ∈ l, (aget n ps).isSome = true

structure WFVote (vt : VoteType) (ps : Map ProjData) (iv : Nat × Vote) : Prop where
  md : WFMd iv.2.md reservedVoteKey
  vid : sectionOf (voterId iv.1 iv.2) = 0
  ballot : WFBallot vt ps iv.2.ballot

def limitKeys : List Str :=
  [kMinLength, kMaxLength, kMinSumCost, kMaxSumCost, kMinPoints, kMaxPoints, kMinSumPoints, kMaxSumPoints]

/-- does the writer emit key `k` at its fixed place? -/
def emitted (e : Election) (k : Str) : Bool :=
  (metaHead ++ metaTail e.vtype).contains k && (metaCell e k).isSome

/-- limits that the profile class of the vote type does not have are absent -/
def irrelevantNone (vt : VoteType) (l : Limits) : Bool :=
  match vt with
  | .approval => l.minScore.isNone && l.maxScore.isNone && l.minTotal.isNone && l.maxTotal.isNone
  | .scoring => l.minCost.isNone && l.maxCost.isNone && l.minTotal.isNone && l.maxTotal.isNone
  | .cumulative => l.minCost.isNone && l.maxCost.isNone
  | .ordinal => l.minCost.isNone && l.maxCost.isNone && l.minScore.isNone && l.maxScore.isNone &&
      l.minTotal.isNone && l.maxTotal.isNone

/-- the elections the round-trip theorem is about -/
structure WF (e : Election) : Prop where
  md : WFMd e.md noReserved
  mdNotSection : ∀ kv ∈ e.md, sectionOf kv.1 = 0
  limitKeysFree : ∀ k ∈ limitKeys, emitted e k = false → aget k e.md = none
  limitsRelevant : irrelevantNone e.vtype e.limits = true
  projectsSorted : sortedKeys (keysOf e.projects) = true
  projects : ∀ np ∈ e.projects, WFProject np
  votes : ∀ iv ∈ enumFrom 0 e.votes, WFVote e.vtype e.projects iv

end Pabu.Pabulib
