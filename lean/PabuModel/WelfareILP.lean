/-
  PabuModel.WelfareILP — the integer programs that pabutools hands to the MIP solver, and the loops around them.

  * `max_additive_utilitarian_welfare_ilp_scheme` (pabutools/rules/maxwelfare.py): the 0/1 program over the projects
    outside the initial allocation (`baseProgram`), the resolute answer (`resolute`), and the irresolute enumeration
    loop (`irresoluteRun`): equality `Σ score·x = opt_value`, then per previously found partial allocation the two
    integer cuts exactly as the code writes them (`cut1`, `cut2`), until the solver reports "not optimal".
  * `max_budget_allocation_cost` (pabutools/election/instance.py) and the normaliser of
    `Additive_Cardinal_Relative_Sat` (same program with another objective): `knapILP`.

  The solver is an ORACLE: a function `Program → Option Assignment` (`none` = no optimal solution reported).  The
  loops take a call-indexed oracle `Nat → Program → Option Assignment` (the k-th `optimize()` call may answer
  differently from the others, as a real solver may); a fixed solver is the constant family.
  `SolverSpec` is the only thing the theorems of `PabuProofs/Properties/C04ILP.lean` assume about it.
  No Mathlib import: the driver runs this file (command `welfareilp`).
-/
import PabuModel.MaxWelfare
namespace Pabu
namespace WelfareILP

inductive Sense where
  | le | ge | eq
deriving Repr, DecidableEq

/-- a linear constraint as python-mip stores it: `Σ coeff·x + const  (sense)  rhs` -/
structure Constr where
  terms : List (Pid × Rat)
  const : Rat
  sense : Sense
  rhs : Rat

/-- a 0/1 maximisation program: binary variables `vars`, objective `Σ obj·x`, constraints -/
structure Program where
  vars : List Pid
  obj : List (Pid × Rat)
  constrs : List Constr

/-- a 0/1 assignment: value of the variable of each project -/
abbrev Assignment := Pid → Bool

def xval (a : Assignment) (p : Pid) : Rat := if a p then 1 else 0

/-- value of `Σ coeff·x` under an assignment -/
def evalLin (a : Assignment) (t : List (Pid × Rat)) : Rat := sumOver t (fun e => e.2 * xval a e.1)

def Constr.lhs (c : Constr) (a : Assignment) : Rat := evalLin a c.terms + c.const

def Constr.sat (c : Constr) (a : Assignment) : Bool :=
  match c.sense with
  | .le => decide (c.lhs a ≤ c.rhs)
  | .ge => decide (c.rhs ≤ c.lhs a)
  | .eq => decide (c.lhs a = c.rhs)

def Program.feasible (P : Program) (a : Assignment) : Bool := P.constrs.all (fun c => c.sat a)

def Program.objective (P : Program) (a : Assignment) : Rat := evalLin a P.obj

/-- `[p for p in p_vars if p_vars[p].x >= 0.99]`: the variables set to one, in the order of `p_vars` -/
def partialAlloc (vars : List Pid) (a : Assignment) : List Pid := vars.filter a

/-- the k-th call of `optimize()` answers `ask k` -/
abbrev Oracle := Nat → Program → Option Assignment

/-- What is trusted about the solver: an answer `some a` is a feasible point of the program it was given with the
    largest objective value among all feasible points, and `none` is given only for an infeasible program. -/
def SolverSpec (solve : Program → Option Assignment) : Prop :=
  ∀ P : Program,
    (∀ a, solve P = some a →
      P.feasible a = true ∧ ∀ b : Assignment, P.feasible b = true → P.objective b ≤ P.objective a) ∧
    (solve P = none → ∀ b : Assignment, P.feasible b = false)

def OracleSpec (ask : Oracle) : Prop := ∀ k, SolverSpec (ask k)

/-- The same, demanded only of programs that HAVE variables.  This is all that is needed of the solver since the code
    returns early when `p_vars` is empty — and all python-mip offers: for a model without variables `optimize()` prints
    "Model has no variables. Nothing to optimize." and answers status OTHER with `x = None` although the program is feasible. -/
def SolverSpecNE (solve : Program → Option Assignment) : Prop :=
  ∀ P : Program, P.vars ≠ [] →
    (∀ a, solve P = some a →
      P.feasible a = true ∧ ∀ b : Assignment, P.feasible b = true → P.objective b ≤ P.objective a) ∧
    (solve P = none → ∀ b : Assignment, P.feasible b = false)

def OracleSpecNE (ask : Oracle) : Prop := ∀ k, SolverSpecNE (ask k)

/-! ### the knapsack program shared by all callers -/

/-- variables for `l`, `maximize Σ value·x`, `Σ cost·x <= budget` -/
def knapProgram (cost value : Pid → Rat) (l : List Pid) (budget : Rat) : Program :=
  { vars := l, obj := l.map (fun p => (p, value p)),
    constrs := [{ terms := l.map (fun p => (p, cost p)), const := 0, sense := .le, rhs := budget }] }

/-! ### `max_additive_utilitarian_welfare_ilp_scheme` -/

/-- `p_vars`: the projects of the instance (in its enumeration order) outside the initial allocation -/
def freeVars (I : Inst) (init : List Pid) : List Pid := I.projects.filter (fun p => !init.contains p)

/-- `available_budget = instance.budget_limit - total_cost(initial_budget_allocation)` -/
def availableBudget (I : Inst) (init : List Pid) : Rat := I.budget - costOf I.cost init

def baseProgram (I : Inst) (score : Pid → Rat) (init : List Pid) : Program :=
  knapProgram I.cost score (freeVars I init) (availableBudget I init)

/-- resolute call: `if not p_vars: return BudgetAllocation(list(initial_budget_allocation))` — no project left to decide,
    the solver is not called (python-mip refuses a model without variables: status OTHER, `x = None`); otherwise one
    `optimize()`, the variables at one followed by the initial allocation.
    (`none` from the solver: the code reads `x = None` and raises TypeError.) -/
def resolute (solve : Program → Option Assignment) (I : Inst) (score : Pid → Rat) (init : List Pid) :
    Except Err (List Pid) :=
  if (freeVars I init).isEmpty then .ok init
  else
    match solve (baseProgram I score init) with
    | none => .error .type
    | some a => .ok (partialAlloc (freeVars I init) a ++ init)

/-- `mip_model += xsum(p_vars[p] * score[p] for p in p_vars) == opt_value` -/
def optConstr (vars : List Pid) (score : Pid → Rat) (opt : Rat) : Constr :=
  { terms := vars.map (fun p => (p, score p)), const := 0, sense := .eq, rhs := opt }

/-- the projects of `p_vars` not in `previous_partial_alloc` -/
def others (vars S : List Pid) : List Pid := vars.filter (fun p => !S.contains p)

/-- `xsum(1 - p_vars[p] for p in S) + xsum(p_vars[p] for p in p_vars if p not in S) >= 1` -/
def cut1 (vars S : List Pid) : Constr :=
  { terms := S.map (fun p => (p, -1)) ++ (others vars S).map (fun p => (p, 1)),
    const := (S.length : Rat), sense := .ge, rhs := 1 }

/-- `xsum(p_vars[p] for p in S) - xsum(p_vars[p] for p in p_vars if p not in S) <= len(S) - 1` -/
def cut2 (vars S : List Pid) : Constr :=
  { terms := S.map (fun p => (p, 1)) ++ (others vars S).map (fun p => (p, -1)),
    const := 0, sense := .le, rhs := (S.length : Rat) - 1 }

def Program.addConstrs (P : Program) (cs : List Constr) : Program :=
  { vars := P.vars, obj := P.obj, constrs := P.constrs ++ cs }

def Program.addCuts (P : Program) (S : List Pid) : Program := P.addConstrs [cut1 P.vars S, cut2 P.vars S]

/-- `if previous_partial_alloc not in all_partial_allocs: all_partial_allocs.append(previous_partial_alloc)`
    (list equality: both sides are filters of `p_vars`, hence listed in the same order) -/
def pushNew (all : List (List Pid)) (s : List Pid) : List (List Pid) := if all.contains s then all else all ++ [s]

/-- a run: every program handed to the solver, in order, and what the function returns -/
structure Run where
  programs : List Program
  result : Except Err (List (List Pid))

/-- the `while True:` loop.  State: the model `P` (all constraints added so far), `previous_partial_alloc`,
    `all_partial_allocs`; `k` counts the `optimize()` calls, `progs` records the programs posed.
    One unit of fuel per iteration; `.error .fuel` is never returned when the fuel is at least the number of
    0/1 assignments (theorem `irresolute_all_optima`). -/
def loop (ask : Oracle) : Nat → Nat → Program → List Pid → List (List Pid) → List Program → Run
  | 0, _, _, _, _, progs => { programs := progs, result := .error .fuel }
  | f+1, k, P, prev, all, progs =>
    match ask k (P.addCuts prev) with
    | none => { programs := progs ++ [P.addCuts prev], result := .ok all }
    | some a =>
      loop ask f (k+1) (P.addCuts prev) (partialAlloc P.vars a) (pushNew all (partialAlloc P.vars a))
        (progs ++ [P.addCuts prev])

/-- the irresolute call with explicit fuel; the result lists the PARTIAL allocations in discovery order -/
def irresoluteRunFuel (ask : Oracle) (I : Inst) (score : Pid → Rat) (init : List Pid) (fuel : Nat) : Run :=
  if (freeVars I init).isEmpty then { programs := [], result := .ok [[]] }   -- `if not p_vars: return [outcome]`, no solver call
  else
    match ask 0 (baseProgram I score init) with
    | none => { programs := [baseProgram I score init], result := .error .type }
    | some a =>
      loop ask fuel 1
        ((baseProgram I score init).addConstrs
          [optConstr (freeVars I init) score ((baseProgram I score init).objective a)])
        (partialAlloc (freeVars I init) a) [partialAlloc (freeVars I init) a] [baseProgram I score init]

/-- fuel = number of 0/1 assignments of the variables -/
def irresoluteRun (ask : Oracle) (I : Inst) (score : Pid → Rat) (init : List Pid) : Run :=
  irresoluteRunFuel ask I score init (2 ^ (freeVars I init).length)

/-- `[BudgetAllocation(partial_alloc + list(initial_budget_allocation)) for partial_alloc in all_partial_allocs]` -/
def finish (init : List Pid) (r : Except Err (List (List Pid))) : Except Err (List (List Pid)) :=
  match r with
  | .error e => .error e
  | .ok l => .ok (l.map (fun s => s ++ init))

def irresolute (ask : Oracle) (I : Inst) (score : Pid → Rat) (init : List Pid) : Except Err (List (List Pid)) :=
  finish init (irresoluteRun ask I score init).result

/-! ### the instance helpers -/

/-- `max_budget_allocation_cost`-shaped call: empty list -> 0 without a solver call; otherwise one `optimize()`;
    not optimal -> ValueError; else the exact total value of the variables at one. -/
def knapILP (solve : Program → Option Assignment) (cost value : Pid → Rat) (l : List Pid) (budget : Rat) :
    Except Err Rat :=
  if l = [] then .ok 0
  else
    match solve (knapProgram cost value l budget) with
    | none => .error .value
    | some a => .ok (sumOver (partialAlloc l a) value)

/-- `max_budget_allocation_cost(projects, budget_limit)` -/
def maxCostILP (solve : Program → Option Assignment) (cost : Pid → Rat) (l : List Pid) (budget : Rat) : Except Err Rat :=
  knapILP solve cost cost l budget

/-- the same program with objective "number of projects" (the library computes this number by a cheapest-first
    loop, `maxCardinality`; the theorem `maxCountILP_eq` says the two agree) -/
def maxCountILP (solve : Program → Option Assignment) (cost : Pid → Rat) (l : List Pid) (budget : Rat) : Except Err Rat :=
  knapILP solve cost (fun _ => 1) l budget

/-! ### a concrete solver: brute force over the assignments of the mentioned variables -/

def termVars (t : List (Pid × Rat)) : List Pid := t.map Prod.fst

def constrVars : List Constr → List Pid
  | [] => []
  | c :: cs => termVars c.terms ++ constrVars cs

/-- every variable the program mentions, without repetition -/
def Program.mentioned (P : Program) : List Pid := dedup (P.vars ++ termVars P.obj ++ constrVars P.constrs)

def indicator (s : List Pid) : Assignment := fun p => s.contains p

/-- first feasible candidate of largest objective value -/
def bestOf (P : Program) : List (List Pid) → Option (List Pid)
  | [] => none
  | s :: rest =>
    if P.feasible (indicator s) then
      match bestOf P rest with
      | none => some s
      | some t => if P.objective (indicator s) < P.objective (indicator t) then some t else some s
    else bestOf P rest

def bruteSolve (P : Program) : Option Assignment :=
  match bestOf P (sublists P.mentioned) with
  | none => none
  | some s => some (indicator s)

/-! ### presentation used by the driver: canonical form of a constraint -/

def insertTerm (e : Pid × Rat) : List (Pid × Rat) → List (Pid × Rat)
  | [] => [e]
  | f :: r => if e.1 ≤ f.1 then e :: f :: r else f :: insertTerm e r

def sortTerms (t : List (Pid × Rat)) : List (Pid × Rat) := t.foldr insertTerm []

/-- zero coefficients dropped, terms sorted by variable, the constant moved to the right-hand side -/
def Constr.canon (c : Constr) : Constr :=
  { terms := sortTerms (c.terms.filter (fun e => !decide (e.2 = 0))), const := 0, sense := c.sense,
    rhs := c.rhs - c.const }

end WelfareILP
end Pabu
