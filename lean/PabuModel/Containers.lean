/-
  PabuModel.Containers — table model of the container classes (C17).

  Every election container of pabutools subclasses a builtin (`set`, `list`, `dict`, `Counter`, `tuple`).
  A builtin method that *derives* a new container returns a bare builtin unless the subclass re-wraps it
  (`_wrap_methods`) or overrides it.  The rows (one per class: what is wrapped / defined / validating, how the
  constructor treats attributes) are REGENERATED from the class sources into `Gen/Containers.lean`; the tables of
  the builtin APIs below are hand-written (the harness reports builtin names they do not classify).
  The Python object protocol (copy / pickle) is modelled by the reconstruction rule of each builtin.
-/
namespace Pabu.Containers

inductive Base where
  | set | list | dict | counter | tuple
deriving DecidableEq, Repr

inductive Role where
  | inst | ballot | frozenBallot | listProfile | multiProfile | satProfile | allocation
deriving DecidableEq, Repr

structure ClassRow where
  name : String
  base : Base
  role : Role
  wrapped : List String        -- registered by `<Class>._wrap_methods([...])` on the class itself
  ownMethods : List String     -- defined in the class body
  inherited : List String      -- defined in the body of a library ancestor
  validating : List String     -- own or inherited methods whose body calls `validate_ballot`
  ctorCopies : Bool            -- `__init__` copies the attributes of an `init` object of its family
  ctorKeeps : Bool             -- `__init__` does not reset name/meta after setting them
  metaDefaultOk : Bool         -- no `meta = dict`
  asMultiComplete : Bool       -- `as_multiprofile` passes every legal_* limit
deriving Repr

/-- builtin methods that return a NEW container of the builtin type -/
def Base.deriving : Base → List String
  | .set => ["__and__", "__or__", "__sub__", "__xor__", "__rand__", "__ror__", "__rsub__", "__rxor__", "copy",
             "difference", "intersection", "symmetric_difference", "union"]
  | .list => ["__add__", "__mul__", "__rmul__", "copy", "__getitem__"]
  | .dict => ["__or__", "__ror__", "copy"]
  | .counter => ["__add__", "__sub__", "__and__", "__or__", "__ror__", "__pos__", "__neg__", "copy"]
  | .tuple => ["__add__", "__mul__", "__rmul__", "__getitem__"]

/-- builtin methods that update the object and return it -/
def Base.inplace : Base → List String
  | .set => ["__iand__", "__ior__", "__isub__", "__ixor__"]
  | .list => ["__iadd__", "__imul__"]
  | .dict => ["__ior__"]
  | .counter => ["__iadd__", "__isub__", "__iand__", "__ior__"]
  | .tuple => []

/-- builtin methods that update the object and return something else -/
def Base.mutating : Base → List String
  | .set => ["add", "clear", "discard", "pop", "remove", "update", "difference_update", "intersection_update",
             "symmetric_difference_update"]
  | .list => ["append", "clear", "extend", "insert", "pop", "remove", "reverse", "sort", "__setitem__", "__delitem__"]
  | .dict => ["clear", "pop", "popitem", "setdefault", "update", "__setitem__", "__delitem__"]
  | .counter => ["clear", "pop", "popitem", "setdefault", "update", "subtract", "__setitem__", "__delitem__"]
  | .tuple => []

/-- builtin methods that can store a NEW element without going through another overridable method
    (`list.__iadd__` does not call `extend`; `Counter.update` on an empty counter and `dict.setdefault` do not call
    `__setitem__`; the remaining `Counter` arithmetic assigns through `self[elem] = …`) -/
def Base.inserting : Base → List String
  | .list => ["append", "extend", "insert", "__setitem__", "__iadd__"]
  | .counter => ["__setitem__", "setdefault", "update"]
  | .dict => ["__setitem__", "setdefault", "update", "__ior__"]
  | .set => ["add", "update", "__ior__", "__ixor__", "symmetric_difference_update"]
  | .tuple => []

def ClassRow.defines (r : ClassRow) (m : String) : Bool := r.ownMethods.contains m || r.inherited.contains m

/-- a deriving method is *closed* when the class itself re-wraps it or defines it in its own body -/
def ClassRow.closed (r : ClassRow) (m : String) : Bool := r.wrapped.contains m || r.ownMethods.contains m

/-- constructor keeps the attributes it is given (ballots: name and meta) -/
def ClassRow.ctorOk (r : ClassRow) : Bool := r.ctorKeeps

def ClassRow.customReduce (r : ClassRow) : Bool :=
  r.defines "__reduce__" || r.defines "__reduce_ex__" || r.defines "__deepcopy__" && r.defines "__copy__"

/-- pickle: default reconstruction creates the object, re-adds the items (list: `extend`/`append`; dict: `__setitem__`)
    and only then restores the attributes; `Counter.__reduce__` drops the attributes; `set` and `tuple` rebuild through
    the constructor / `__new__` and then restore the attributes -/
def ClassRow.pickleSafe (r : ClassRow) : Bool :=
  r.customReduce ||
    (match r.base with
     | .set => true
     | .tuple => true
     | .list => !(r.defines "append" || r.defines "extend")
     | .dict => !(r.defines "__setitem__")
     | .counter => false)

/-- copy / deepcopy: as pickle, except that the attributes are restored BEFORE the items are re-added, so a list
    whose `extend` needs its attributes is fine -/
def ClassRow.copySafe (r : ClassRow) : Bool :=
  r.customReduce ||
    (match r.base with
     | .set => true
     | .tuple => true
     | .list => true
     | .dict => !(r.defines "__setitem__")
     | .counter => false)

/-- every deriving method of the builtin base is closed, the constructor keeps attributes, copy and pickle are safe -/
def ClassRow.rowClosed (r : ClassRow) : Bool :=
  r.base.deriving.all r.closed && r.ctorOk && r.ctorCopies && r.pickleSafe && r.copySafe

/-- every inserting primitive of a profile class validates -/
def ClassRow.rowValidated (r : ClassRow) : Bool :=
  match r.role with
  | .listProfile => r.base.inserting.all r.validating.contains && r.asMultiComplete
  | .multiProfile => r.base.inserting.all r.validating.contains
  | _ => true

def ClassRow.ballotOk (r : ClassRow) : Bool :=
  match r.role with
  | .ballot => r.ctorKeeps && r.metaDefaultOk && r.ctorCopies
  | .frozenBallot => r.ctorKeeps && r.metaDefaultOk && r.ctorCopies
  | _ => true

/-! ### abstract objects and operation sequences -/

/-- what the harness observes of an object: its class (none = bare builtin) and whether it still carries the
    election attributes of the source; `valid` = every stored ballot has the profile's ballot type -/
structure Obj where
  cls : Option String
  attrs : Bool
  valid : Bool
deriving DecidableEq, Repr

inductive OpKind where
  | deriving (m : String)                 -- result replaces the object
  | inplace (m : String)
  | mutate (m : String) (wellTyped : Bool) -- may insert elements; `wellTyped` = all of them have the ballot type
  | copy | pickle | construct
deriving Repr

def lost : Obj := { cls := none, attrs := false, valid := true }

/-- one step on an object of class row `r` -/
def step (r : ClassRow) (o : Obj) : OpKind → Obj
  | .deriving m =>
      if o.cls = some r.name then (if r.closed m && r.ctorOk then o else lost) else o
  | .inplace _ => o
  | .mutate m wellTyped =>
      if o.cls = some r.name then
        (if r.base.inserting.contains m then
           (if r.validating.contains m then o   -- a wrong-typed ballot is refused (TypeError), a right one stored
            else { o with valid := o.valid && wellTyped })
         else o)
      else o
  | .copy => if o.cls = some r.name then (if r.copySafe then o else lost) else o
  | .pickle => if o.cls = some r.name then (if r.pickleSafe then o else lost) else o
  | .construct => if o.cls = some r.name then (if r.ctorCopies && r.ctorOk then o else lost) else o

def runOps (r : ClassRow) (o : Obj) (ops : List OpKind) : Obj := ops.foldl (step r) o

/-- prediction for one harness step, by operation name -/
def predict (rows : List ClassRow) (r : ClassRow) (op : String) : Bool :=
  if op = "pickle" then r.pickleSafe &&
      (match r.role with
       | .satProfile => rows.all (fun q => q.role = .satProfile || q.role = .inst || q.role = .allocation || q.pickleSafe)
       | .multiProfile => rows.all (fun q => !(q.role = .frozenBallot) || q.pickleSafe)
       | _ => true)
  else if op = "copy.copy" then r.copySafe
  else if op = "copy.deepcopy" then r.copySafe &&
      (match r.role with
       | .satProfile => rows.all (fun q => q.role = .satProfile || q.role = .inst || q.role = .allocation || q.copySafe)
       | .multiProfile => rows.all (fun q => !(q.role = .frozenBallot) || q.copySafe)
       | _ => true)
  else if op = "construct" then r.ctorCopies && r.ctorOk
  else if op = "frozen" then
    (match rows.find? (fun q => q.name = "Frozen" ++ r.name) with
     | some q => q.ctorKeeps && q.ctorCopies
     | none => false)
  else if op = "as_multiprofile" then r.asMultiComplete
  else if r.base.deriving.contains op then r.closed op && r.ctorOk
  else true

end Pabu.Containers
