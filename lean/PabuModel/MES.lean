/-
  PabuModel.MES — the Method of Equal Shares (pabutools/rules/mes/mes_rule.py), exact arithmetic.
  Voters are entries (index, multiplicity); utilities are a table `u i p`.
-/
import PabuModel.RoundRule
namespace Pabu

/-- voter entries of a run: indices, multiplicities, additive utilities -/
structure VCtx where
  vs : List Nat
  m : Nat → Nat
  u : Nat → Pid → Rat

/-- one supporter entry of a project: money, utility, multiplicity -/
structure Sup where
  b : Rat
  u : Rat
  m : Nat

def paySum (rho : Rat) : List Sup → Rat
  | [] => 0
  | s :: r => (s.m : Rat) * min s.b (rho * s.u) + paySum rho r

def budSum : List Sup → Rat
  | [] => 0
  | s :: r => (s.m : Rat) * s.b + budSum r

def utilSum : List Sup → Rat
  | [] => 0
  | s :: r => (s.m : Rat) * s.u + utilSum r

/-- the supporter sweep of `mes_inner_algo`: supporters in increasing `b/u`; the first one who can
    afford `ρ·u` with `ρ = (cost − money of the poorer ones) / (utility of the others)` fixes ρ -/
def sweep (R : Rat) (denom : Rat) : List Sup → Option Rat
  | [] => none
  | s :: rest =>
    if R / denom * s.u ≤ s.b then some (R / denom)
    else sweep (R - s.m * s.b) (denom - s.m * s.u) rest

def ratioLe (s t : Sup) : Bool := decide (s.b / s.u ≤ t.b / t.u)

namespace MES

def supporters (V : VCtx) (p : Pid) : List Nat := V.vs.filter (fun i => decide (0 < V.u i p))

def totalSat (V : VCtx) (p : Pid) : Rat := sumOver (supporters V p) (fun i => (V.m i : Rat) * V.u i p)

def sups (V : VCtx) (b : Nat → Rat) (p : Pid) : List Sup :=
  (supporters V p).map (fun i => ⟨b i, V.u i p, V.m i⟩)

/-- price per unit of utility of project `p` under budgets `b`; `none` = not affordable -/
def rho (V : VCtx) (cost : Pid → Rat) (b : Nat → Rat) (p : Pid) : Option Rat :=
  if budSum (sups V b p) < cost p then none
  else sweep (cost p) (utilSum (sups V b p)) (sortLe ratioLe (sups V b p))

structure State where
  b : Nat → Rat
  pool : List Pid
  alloc : List Pid

def affordable (V : VCtx) (cost : Pid → Rat) (s : State) : List (Pid × Rat) :=
  s.pool.filterMap (fun p => (rho V cost s.b p).map (fun r => (p, r)))

def best (V : VCtx) (cost : Pid → Rat) (s : State) : Option Rat :=
  minRat ((affordable V cost s).map Prod.snd)

def tied (V : VCtx) (cost : Pid → Rat) (s : State) : List Pid :=
  match best V cost s with
  | none => []
  | some r => ((affordable V cost s).filter (fun e => decide (e.2 = r))).map Prod.fst

def pay (V : VCtx) (b : Nat → Rat) (t : Pid) (r : Rat) (i : Nat) : Rat :=
  if 0 < V.u i t then min (b i) (r * V.u i t) else 0

def buy (V : VCtx) (cost : Pid → Rat) (s : State) (t : Pid) : State :=
  match rho V cost s.b t with
  | none => { s with pool := s.pool.filter (fun q => q != t) }
  | some r =>
    { b := fun i => s.b i - pay V s.b t r i
      pool := s.pool.filter (fun q => q != t)
      alloc := s.alloc ++ [t] }

def rule (V : VCtx) (cost : Pid → Rat) : RoundRule State where
  pool := fun s => s.pool
  tied := tied V cost
  buy := buy V cost
  out := fun s => s.alloc

/-- projects Equal Shares can buy: supported, positive cost, not initially selected -/
def initPool (V : VCtx) (I : Inst) (init : List Pid) : List Pid :=
  (sortIds I.projects).filter (fun p => !init.contains p && decide (0 < totalSat V p) && decide (0 < I.cost p))

/-- supported zero-cost projects are added up front -/
def zeroCost (V : VCtx) (I : Inst) (init : List Pid) : List Pid :=
  (sortIds I.projects).filter (fun p => !init.contains p && decide (0 < totalSat V p) && !decide (0 < I.cost p))

def initState (V : VCtx) (I : Inst) (init : List Pid) (b0 : Rat) : State :=
  { b := fun _ => b0, pool := initPool V I init, alloc := init ++ zeroCost V I init }

/-- Equal Shares only consults the tie-breaking rule when at least two projects are tied -/
def orderIfTie (order : List Pid → Except Err (List Pid)) (l : List Pid) : Except Err (List Pid) :=
  if l.length ≤ 1 then .ok l else order l

def numVoters (V : VCtx) : Nat := sumNat V.vs V.m

/-- resolute outcome with per-voter budget `b0` -/
def runAt (V : VCtx) (I : Inst) (init : List Pid) (order : List Pid → Except Err (List Pid)) (b0 : Rat) :
    Except Err (List Pid) :=
  (rule V I.cost).run (orderIfTie order) (initPool V I init).length (initState V I init b0)

def runAllAt (V : VCtx) (I : Inst) (init : List Pid) (order : List Pid → Except Err (List Pid)) (b0 : Rat) :
    Except Err (List (List Pid)) :=
  ((rule V I.cost).runAll (orderIfTie order) (initPool V I init).length (initState V I init b0)).map canonOutcomes

/-- `method_of_equal_shares` (plain) -/
def run (V : VCtx) (I : Inst) (init : List Pid) (order : List Pid → Except Err (List Pid)) : Except Err (List Pid) :=
  runAt V I init order (I.budget / (numVoters V : Nat))

def runAll (V : VCtx) (I : Inst) (init : List Pid) (order : List Pid → Except Err (List Pid)) :
    Except Err (List (List Pid)) :=
  runAllAt V I init order (I.budget / (numVoters V : Nat))

/-- iterated variant (`voter_budget_increment`), resolute: try b0, b0+inc, … -/
def iterated (V : VCtx) (I : Inst) (init : List Pid) (order : List Pid → Except Err (List Pid)) (inc : Rat) :
    Nat → Rat → List Pid → Except Err (List Pid)
  | 0, _, _ => .error .fuel
  | f + 1, b0, prev =>
    match runAt V I init order b0 with
    | .error e => .error e
    | .ok W =>
      if !I.isFeasible W then .ok prev
      else if I.isExhaustiveOver (initPool V I init) W then .ok W
      else iterated V I init order inc f (b0 + inc) W

def iteratedAll (V : VCtx) (I : Inst) (init : List Pid) (order : List Pid → Except Err (List Pid)) (inc : Rat) :
    Nat → Rat → List (List Pid) → Except Err (List (List Pid))
  | 0, _, _ => .error .fuel
  | f + 1, b0, prev =>
    match runAllAt V I init order b0 with
    | .error e => .error e
    | .ok Ws =>
      if Ws.any (fun W => !I.isFeasible W) then .ok prev
      else if Ws.any (fun W => I.isExhaustiveOver (initPool V I init) W) then .ok Ws
      else iteratedAll V I init order inc f (b0 + inc) Ws

/-! ### Recorded run (analytics) -/

structure Iteration where
  before : List Rat
  selected : Option Pid
  rho : Option Rat
  after : List Rat

def budgets (V : VCtx) (b : Nat → Rat) : List Rat := V.vs.map b

/-- the iterations of a resolute run, ending with the iteration that selects nothing -/
def trace (V : VCtx) (cost : Pid → Rat) (order : List Pid → Except Err (List Pid)) :
    Nat → State → Except Err (List Iteration)
  | 0, s => .ok [⟨budgets V s.b, none, none, []⟩]
  | n + 1, s =>
    if tied V cost s = [] then .ok [⟨budgets V s.b, none, none, []⟩]
    else match orderIfTie order (tied V cost s) with
      | .error e => .error e
      | .ok [] => .ok [⟨budgets V s.b, none, none, []⟩]
      | .ok (t :: _) =>
        match trace V cost order n (buy V cost s t) with
        | .error e => .error e
        | .ok rest => .ok (⟨budgets V s.b, some t, best V cost s, budgets V (buy V cost s t).b⟩ :: rest)

end MES
end Pabu
