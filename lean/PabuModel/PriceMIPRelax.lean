/-
  PabuModel.PriceMIPRelax — the mixed-integer program that `priceable(..., relaxation=R)` (pabutools/analysis/priceability.py
  with pabutools/analysis/priceability_relaxation.py) hands to the solver, for the five shipped relaxation classes
  `MinMul`, `MinAdd`, `MinAddVector`, `MinAddVectorPositive`, `MinAddOffset`.

  What the relaxation changes in the program of PabuModel.PriceMIP (code order):
    … (C0a) … (C4) rows unchanged
    `relaxation.add_beta(mip_model)`                    extra variables `beta` / `beta_<c>` with the bounds each class declares
                                                        (python-mip default: continuous, lb 0, ub +inf; `lb=-self.INF` where written),
                                                        plus — MinAddVector: `beta[c] <= (1-x_c)·budget`, `(x_c-1)·budget <= beta[c]`
                                                               (a big-M with the BUDGET as constant: beta_c = 0 for selected projects,
                                                                |beta_c| <= budget for the others),
                                                             — MinAddOffset: `Σ_c beta[c] <= 0.025·budget`
    m-variables and the rows `m_i >= p_{i,c}`, `m_i >= b - Σ_c p_{i,c}`  unchanged
    `relaxation.add_stability_constraint(mip_model)`    the S5 rows with the relaxed cost on the right-hand side
    `relaxation.add_objective(mip_model)`               `minimize(beta)` / `minimize(Σ_c beta[c])`
  Nothing in these classes is a product of two variables: `c.cost * beta` has a constant factor, and `x_c·INF`,
  `(1-x_c)·budget` are the usual big-M terms.  The program is linear as written; the model mirrors it term by term.

  `MinAddOffset.BUDGET_FRACTION = 0.025` is a Python float (0.025000000000000001387…); the model uses 1/40 (the harness
  recovers the rational the float stands for).
  No Mathlib import: the driver runs this file (commands `pricemiprelax`, `pricemiprelaxsat`).
-/
import PabuModel.PriceMIP
namespace Pabu.PriceMIP
open Pabu

/-- the five relaxation classes -/
inductive Relax where
  | mul | add | vec | vecpos | off
deriving DecidableEq, Repr

/-- the variables of the relaxed program: those of the plain program, `beta` and `beta_<c>` -/
inductive RVar where
  | base : Var → RVar
  | beta : RVar
  | betac : Pid → RVar
deriving DecidableEq, Repr

structure RConstr where
  name : String
  terms : List (Rat × RVar)
  sense : Sense
  rhs : Rat

/-- a declared variable: BINARY (0/1) or continuous with lower bound `lb` and no upper bound -/
structure RVarDecl where
  v : RVar
  binary : Bool
  lb : Rat

/-- an assignment of the variables of the relaxed program -/
structure RPoint where
  base : Point
  beta : Rat
  betac : Pid → Rat

def RPoint.val (rp : RPoint) (v : RVar) : Rat :=
  match v with
  | .base w => rp.base.val w
  | .beta => rp.beta
  | .betac c => rp.betac c

def revalLin (rp : RPoint) (ts : List (Rat × RVar)) : Rat := sumOver ts (fun t => t.1 * rp.val t.2)

def RConstr.holds (rp : RPoint) (k : RConstr) : Bool :=
  match k.sense with
  | .le => decide (revalLin rp k.terms ≤ k.rhs)
  | .ge => decide (k.rhs ≤ revalLin rp k.terms)
  | .eq => decide (revalLin rp k.terms = k.rhs)

def RVarDecl.holds (rp : RPoint) (d : RVarDecl) : Bool :=
  if d.binary then decide (rp.val d.v = 0) || decide (rp.val d.v = 1) else decide (d.lb ≤ rp.val d.v)

/-- a row / a variable of the plain program inside the relaxed one -/
def liftC (k : Constr) : RConstr :=
  { name := k.name, terms := k.terms.map (fun t => (t.1, RVar.base t.2)), sense := k.sense, rhs := k.rhs }

def liftD (d : VarDecl) : RVarDecl := { v := RVar.base d.v, binary := d.binary, lb := 0 }

/-! ### the plain program, cut where the relaxation hooks in -/

/-- variables declared before `add_beta`: `voter_budget`, `p_{idx}_{c}`, `x_{c}` -/
def varsPre (E : Elec) : List VarDecl :=
  [{ v := Var.b, binary := false }]
  ++ (voters E).flatMap (fun ai => E.C.map (fun c => { v := Var.p ai.2 c, binary := false }))
  ++ E.C.map (fun c => { v := Var.x c, binary := true })

/-- variables declared after `add_beta`: `m_{idx}` (stable) / `r_{idx}` (plain) -/
def varsPost (E : Elec) (stable : Bool) : List VarDecl :=
  (voters E).map (fun ai => { v := if stable then Var.m ai.2 else Var.r ai.2, binary := false })

/-- rows added before `add_beta`: hard-coded values, (C0a) … (C4) -/
def preCs (E : Elec) (cfg : Cfg) : List Constr :=
  fixBs cfg ++ fixPs E cfg ++ fixXs E cfg ++ [kC0a E] ++ exhOrNonEmpty E cfg ++ c1s E ++ c2s E ++ c3s E ++ c4s E

/-- `m_vars[idx] >= p_vars[idx][c]`, `m_vars[idx] >= b - xsum(p_vars[idx][c] for c in C)` -/
def stableMs (E : Elec) : List Constr :=
  (voters E).flatMap (fun ai => E.C.map (fun c => kM1 ai.2 c) ++ [kM2 E ai.2])

/-! ### `add_beta` -/

/-- the variables each class declares, in the order of its `add_var` calls -/
def betaVars (E : Elec) (R : Relax) : List RVarDecl :=
  match R with
  | .mul => [{ v := RVar.beta, binary := false, lb := 0 }]
  | .add => [{ v := RVar.beta, binary := false, lb := -(INF E) }]
  | .vec => E.C.map (fun c => { v := RVar.betac c, binary := false, lb := -(INF E) })
  | .vecpos => E.C.map (fun c => { v := RVar.betac c, binary := false, lb := 0 })
  | .off => [{ v := RVar.beta, binary := false, lb := -(INF E) }]
            ++ E.C.map (fun c => { v := RVar.betac c, binary := false, lb := 0 })

/-- MinAddVector: `beta[c] <= (1 - x_vars[c]) * self.instance.budget_limit` -/
def kBetaUp (E : Elec) (c : Pid) : RConstr :=
  { name := "betaUp", terms := [(1, RVar.betac c), (E.budget, RVar.base (Var.x c))], sense := .le, rhs := E.budget }

/-- MinAddVector: `(x_vars[c] - 1) * self.instance.budget_limit <= beta[c]` -/
def kBetaLo (E : Elec) (c : Pid) : RConstr :=
  { name := "betaLo", terms := [(E.budget, RVar.base (Var.x c)), (-1, RVar.betac c)], sense := .le, rhs := E.budget }

/-- `BUDGET_FRACTION = 0.025` -/
def budgetFraction : Rat := 1 / 40

/-- MinAddOffset: `xsum(beta[c] for c in self.C) <= self.BUDGET_FRACTION * self.instance.budget_limit` -/
def kBetaSum (E : Elec) : RConstr :=
  { name := "betaSum", terms := E.C.map (fun c => ((1 : Rat), RVar.betac c)), sense := .le, rhs := budgetFraction * E.budget }

/-- the rows `add_beta` adds -/
def betaRows (E : Elec) (R : Relax) : List RConstr :=
  match R with
  | .vec => E.C.flatMap (fun c => [kBetaUp E c, kBetaLo E c])
  | .off => [kBetaSum E]
  | _ => []

/-! ### `add_stability_constraint` -/

/-- `xsum(m_vars[idx] for idx, i in enumerate(self.N) if c in i)` -/
def suppM (E : Elec) (c : Pid) : List (Rat × RVar) := (supp E c).map (fun ai => ((1 : Rat), RVar.base (Var.m ai.2)))

/-- the part of the right-hand side that carries the relaxation, moved to the left:
    MinMul `c.cost * beta` | MinAdd `beta` | MinAddVector(Positive) `beta[c]` | MinAddOffset `beta_global + beta[c]` -/
def relaxTerms (E : Elec) (R : Relax) (c : Pid) : List (Rat × RVar) :=
  match R with
  | .mul => [(-(E.cost c), RVar.beta)]
  | .add => [(-1, RVar.beta)]
  | .vec => [(-1, RVar.betac c)]
  | .vecpos => [(-1, RVar.betac c)]
  | .off => [(-1, RVar.beta), (-1, RVar.betac c)]

/-- the constant that stays on the right: nothing for MinMul (`c.cost * beta + x·INF`), `c.cost` for the additive classes -/
def relaxRhs (E : Elec) (R : Relax) (c : Pid) : Rat :=
  match R with
  | .mul => 0
  | _ => E.cost c

/-- (S5, relaxed) `xsum(m_vars[idx] …) <= <relaxed cost of c> + x_vars[c] * self.INF` -/
def kS5R (E : Elec) (R : Relax) (c : Pid) : RConstr :=
  { name := "S5R", terms := suppM E c ++ relaxTerms E R c ++ [(-(INF E), RVar.base (Var.x c))], sense := .le,
    rhs := relaxRhs E R c }

/-! ### the program -/

/-- all variables, in the order of the `add_var` calls -/
def rvars (E : Elec) (R : Relax) (stable : Bool) : List RVarDecl :=
  (varsPre E).map liftD ++ betaVars E R ++ (varsPost E stable).map liftD

/-- every row `priceable(instance, profile, budget_allocation, voter_budget, payment_functions, stable, exhaustive,
    relaxation=R)` adds, in the order of the code; without `stable` the relaxation adds its variables, their rows and its
    objective, and the plain rows (r-variables, C5) stay as they are -/
def rconstraints (E : Elec) (R : Relax) (cfg : Cfg) : List RConstr :=
  (preCs E cfg).map liftC ++ betaRows E R
  ++ (if cfg.stable then (stableMs E).map liftC ++ E.C.map (fun c => kS5R E R c) else (plainCs E).map liftC)

/-- `add_objective`: `minimize(beta)` (MinMul, MinAdd, MinAddOffset: the GLOBAL beta) / `minimize(xsum(beta[c] for c in C))` -/
def robjective (E : Elec) (R : Relax) : List (Rat × RVar) :=
  match R with
  | .mul => [(1, RVar.beta)]
  | .add => [(1, RVar.beta)]
  | .off => [(1, RVar.beta)]
  | .vec => E.C.map (fun c => ((1 : Rat), RVar.betac c))
  | .vecpos => E.C.map (fun c => ((1 : Rat), RVar.betac c))

/-- a minimisation program as python-mip receives it -/
structure RProgram where
  vars : List RVarDecl
  cons : List RConstr
  obj : List (Rat × RVar)

def RProgram.sat (P : RProgram) (rp : RPoint) : Bool :=
  P.vars.all (RVarDecl.holds rp) && P.cons.all (RConstr.holds rp)

def RProgram.objective (P : RProgram) (rp : RPoint) : Rat := revalLin rp P.obj

/-- the program of `priceable(..., relaxation=R)` -/
def rprogram (E : Elec) (R : Relax) (cfg : Cfg) : RProgram :=
  { vars := rvars E R cfg.stable, cons := rconstraints E R cfg, obj := robjective E R }

/-- the point satisfies the variable domains and every row -/
def rsat (E : Elec) (R : Relax) (cfg : Cfg) (rp : RPoint) : Bool := (rprogram E R cfg).sat rp

/-- what `mip_model.optimize(max_seconds=…)` reports: `OptimizationStatus.OPTIMAL` with a point, `INFEASIBLE`, or anything else
    (`FEASIBLE` after the time limit, `UNBOUNDED`, `NO_SOLUTION_FOUND`, `ERROR`, …) -/
inductive RAnswer where
  | optimal (a : RPoint) : RAnswer
  | infeasible : RAnswer
  | other : RAnswer

/-- What is trusted about the solver: an answer OPTIMAL comes with a point of the program it was given whose objective value is
    the least among all points of that program; an answer INFEASIBLE is given only for a program without points.  Nothing is
    assumed about the other statuses. -/
def RSolverSpec (solve : RProgram → RAnswer) : Prop :=
  ∀ P : RProgram,
    (∀ a, solve P = RAnswer.optimal a → P.sat a = true ∧ ∀ b : RPoint, P.sat b = true → P.objective a ≤ P.objective b) ∧
    (solve P = RAnswer.infeasible → ∀ b : RPoint, P.sat b = false)

/-! ### reading the relaxation off a point: `get_beta`, `get_relaxed_cost` -/

/-- `get_relaxed_cost` as a function of the saved β (the shapes of PabuModel.Price) -/
def rcK (R : Relax) (cost : Pid → Rat) (β : Rat) (βv : Pid → Rat) : Pid → Rat :=
  match R with
  | .mul => Price.rcMinMul cost β
  | .add => Price.rcMinAdd cost β
  | .vec => Price.rcMinAddVector cost βv
  | .vecpos => Price.rcMinAddVector cost βv
  | .off => Price.rcMinAddOffset cost β βv

/-- `get_beta(mip_model)` followed by `get_relaxed_cost(c)`: the relaxed cost the validator will use for this point
    (`return_beta` is a `defaultdict(int)` holding the non-zero `beta[c].x`: reading it gives `beta[c].x` in every case) -/
def rcOf (E : Elec) (R : Relax) (rp : RPoint) : Pid → Rat := rcK R E.cost rp.beta rp.betac

/-- the number `get_beta` reports as the optimum: `beta.x` (MinMul, MinAdd), `"sum"` (MinAddVector, MinAddVectorPositive),
    `"beta_global"` (MinAddOffset) -/
def betaK (R : Relax) (C : List Pid) (β : Rat) (βv : Pid → Rat) : Rat :=
  match R with
  | .mul => β
  | .add => β
  | .off => β
  | .vec => sumOver C βv
  | .vecpos => sumOver C βv

def getBeta (E : Elec) (R : Relax) (rp : RPoint) : Rat := betaK R E.C rp.beta rp.betac

/-- `"sum"` of MinAddOffset's answer (reported, not optimised) -/
def getBetaSum (E : Elec) (rp : RPoint) : Rat := sumOver E.C rp.betac

/-- the point that encodes the price system of `X` together with the relaxation parameters `(β, βv)` -/
def rpointOf (X : Price.Input) (β : Rat) (βv : Pid → Rat) : RPoint := { base := pointOf X, beta := β, betac := βv }

end Pabu.PriceMIP
