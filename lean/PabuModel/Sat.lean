/-
  PabuModel.Sat — satisfaction measures (pabutools/election/satisfaction/*.py).
-/
import PabuModel.Election
namespace Pabu

inductive Measure where
  | cardinality | relCardinality | cost | relCost | relCostApprox | effort
  | addCardinal | addCardinalRel | borda
  | cc
deriving Repr, DecidableEq

def Measure.ofString? : String → Option Measure
  | "Cardinality_Sat" => some .cardinality
  | "Relative_Cardinality_Sat" => some .relCardinality
  | "Cost_Sat" => some .cost
  | "Relative_Cost_Sat" => some .relCost
  | "Relative_Cost_Approx_Normaliser_Sat" => some .relCostApprox
  | "Effort_Sat" => some .effort
  | "Additive_Cardinal_Sat" => some .addCardinal
  | "Additive_Cardinal_Relative_Sat" => some .addCardinalRel
  | "Additive_Borda_Sat" => some .borda
  | "CC_Sat" => some .cc
  | _ => none

def Measure.isAdditive : Measure → Bool
  | .cc => false
  | _ => true

def memI (b : Ballot) (p : Pid) : Rat := if b.mem p then 1 else 0

/-- number of voters (with multiplicity) whose ballot contains `p` — Effort_Sat's denominator -/
def effortDenominator (P : Profile) (p : Pid) : Nat := P.approvalScore p

def bordaScore (l : List Pid) (p : Pid) : Rat :=
  if l.contains p then ((l.length - indexOf l p - 1 : Nat) : Rat) else 0

/-- per-voter normaliser of the relative measures (0 for the others) -/
def normaliser (μ : Measure) (I : Inst) (b : Ballot) : Rat :=
  match μ with
  | .relCardinality => (maxCardinality I.cost b.projects I.budget : Nat)
  | .relCost => maxCostSpec I.cost b.projects I.budget
  | .relCostApprox => if costOf I.cost b.projects ≤ I.budget then costOf I.cost b.projects else I.budget
  | .addCardinalRel => maxScoreSpec I.cost b.score I.projects I.budget
  | _ => 0

/-- `sat.sat_project(p)` for the additive measures; `sat([p])` for Chamberlin–Courant -/
def satProject (μ : Measure) (I : Inst) (P : Profile) (b : Ballot) (p : Pid) : Rat :=
  match μ with
  | .cardinality => memI b p
  | .relCardinality => if normaliser μ I b = 0 then 0 else memI b p / normaliser μ I b
  | .cost => memI b p * I.cost p
  | .relCost => if normaliser μ I b = 0 then 0 else memI b p * I.cost p / normaliser μ I b
  | .relCostApprox => if normaliser μ I b = 0 then 0 else memI b p * I.cost p / normaliser μ I b
  | .effort => if effortDenominator P p = 0 then 0 else memI b p * (I.cost p / (effortDenominator P p : Nat))
  | .addCardinal => b.score p
  | .addCardinalRel => if normaliser μ I b = 0 then 0 else b.score p / normaliser μ I b
  | .borda => match b with
    | .ord l => bordaScore l p
    | _ => 0
  | .cc => match b with
    | .card _ => if b.mem p ∧ b.score p > 0 then b.score p else 0
    | _ => memI b p

/-- Chamberlin–Courant on cardinal ballots: running maximum, as the loop in `cc_sat_func_card` -/
def ccCard (b : Ballot) : Rat → List Pid → Rat
  | res, [] => res
  | res, p :: ps => if b.mem p ∧ b.score p > res then ccCard b (b.score p) ps else ccCard b res ps

/-- `sat.sat(projects)` -/
def sat (μ : Measure) (I : Inst) (P : Profile) (b : Ballot) (l : List Pid) : Rat :=
  match μ with
  | .cc => match b with
    | .card _ => ccCard b 0 l
    | _ => if l.any b.mem then 1 else 0
  | _ => sumOver l (satProject μ I P b)

end Pabu
