/-
  PabuModel.PriceMIP — the mixed-integer program that `priceable()` (pabutools/analysis/priceability.py)
  hands to the solver, for `relaxation=None`, written out constraint by constraint in the order of the code.

  Variables (python-mip `add_var`: continuous variables have lower bound 0 and no upper bound, BINARY ones are
  0/1):   voter_budget `b`,  `p_{idx}_{c}`,  `x_{c}` (BINARY),  `r_{idx}` (plain) / `m_{idx}` (stable).
  A constraint is  Σ coefficient·variable  (≤ | ≥ | =)  constant;  the harness reads the rows python-mip really
  built (`mip_model.constrs`) and compares them, as a multiset, with `constraints` below.
-/
import PabuModel.Price
namespace Pabu.PriceMIP
open Pabu

/-- the variables of the program; voters are identified by their index in the profile (`enumerate(N)`) -/
inductive Var where
  | b : Var
  | p : Nat → Pid → Var
  | x : Pid → Var
  | r : Nat → Var
  | m : Nat → Var
deriving DecidableEq, Repr

inductive Sense where
  | le | ge | eq
deriving DecidableEq, Repr

/-- `Σ coefficient·variable  sense  rhs` -/
structure Constr where
  name : String
  terms : List (Rat × Var)
  sense : Sense
  rhs : Rat

/-- a declared variable: BINARY (0/1) or continuous with lower bound 0 (python-mip default) and no upper bound -/
structure VarDecl where
  v : Var
  binary : Bool

/-- what `priceable` reads of the election: instance, costs, budget limit, approval ballots in profile order -/
structure Elec where
  C : List Pid
  cost : Pid → Rat
  budget : Rat
  apps : List (Pid → Bool)

/-- the switches of `priceable`: `stable`, `exhaustive`, `budget_allocation` (given or searched),
    optional hard-coded `voter_budget` / `payment_functions` -/
structure Cfg where
  stable : Bool
  exhaustive : Bool
  given : Option (List Pid)
  fixB : Option Rat := none
  fixP : Option (Nat → Pid → Rat) := none

/-- an assignment of the variables -/
structure Point where
  b : Rat
  p : Nat → Pid → Rat
  x : Pid → Rat
  r : Nat → Rat
  m : Nat → Rat

def Point.val (pt : Point) (v : Var) : Rat :=
  match v with
  | .b => pt.b
  | .p i c => pt.p i c
  | .x c => pt.x c
  | .r i => pt.r i
  | .m i => pt.m i

def evalLin (pt : Point) (ts : List (Rat × Var)) : Rat := sumOver ts (fun t => t.1 * pt.val t.2)

def Constr.holds (pt : Point) (k : Constr) : Bool :=
  match k.sense with
  | .le => decide (evalLin pt k.terms ≤ k.rhs)
  | .ge => decide (k.rhs ≤ evalLin pt k.terms)
  | .eq => decide (evalLin pt k.terms = k.rhs)

def VarDecl.holds (pt : Point) (d : VarDecl) : Bool :=
  if d.binary then decide (pt.val d.v = 0) || decide (pt.val d.v = 1) else decide (0 ≤ pt.val d.v)

/-! ### pieces of the program -/

/-- `INF = instance.budget_limit * 10` -/
def INF (E : Elec) : Rat := E.budget * 10

/-- `enumerate(N)`: (ballot, idx) -/
def voters (E : Elec) : List ((Pid → Bool) × Nat) := E.apps.zipIdx

/-- `profile.num_ballots()` -/
def nv (E : Elec) : Nat := E.apps.length

/-- `cost_total = xsum(x_vars[c] * c.cost for c in C)` -/
def costTotal (E : Elec) : List (Rat × Var) := E.C.map (fun c => (E.cost c, Var.x c))

/-- `k * xsum(p_vars[idx][c] for c in C)` -/
def spentTerms (E : Elec) (i : Nat) (k : Rat) : List (Rat × Var) := E.C.map (fun c => (k, Var.p i c))

/-- `k * xsum(p_vars[idx][c] for idx, _ in enumerate(N))` -/
def paidTerms (E : Elec) (c : Pid) (k : Rat) : List (Rat × Var) := (voters E).map (fun ai => (k, Var.p ai.2 c))

/-- `enumerate(N) if c in i` -/
def supp (E : Elec) (c : Pid) : List ((Pid → Bool) × Nat) := (voters E).filter (fun ai => ai.1 c)

/-! ### the variables, in the order of the `add_var` calls -/

def vars (E : Elec) (stable : Bool) : List VarDecl :=
  [{ v := Var.b, binary := false }]
  ++ (voters E).flatMap (fun ai => E.C.map (fun c => { v := Var.p ai.2 c, binary := false }))
  ++ E.C.map (fun c => { v := Var.x c, binary := true })
  ++ (voters E).map (fun ai => { v := if stable then Var.m ai.2 else Var.r ai.2, binary := false })

/-! ### the constraints, family by family, in the order of the code -/

/-- `mip_model += b == voter_budget` -/
def kFixB (vb : Rat) : Constr := { name := "fixb", terms := [(1, Var.b)], sense := .eq, rhs := vb }

/-- `mip_model += p_vars[idx][c] == payment_functions[idx][c]` -/
def kFixP (pf : Nat → Pid → Rat) (i : Nat) (c : Pid) : Constr :=
  { name := "fixp", terms := [(1, Var.p i c)], sense := .eq, rhs := pf i c }

/-- `mip_model += x_vars[c] == 1` / `== 0` -/
def kFixX (W : List Pid) (c : Pid) : Constr :=
  { name := "fixx", terms := [(1, Var.x c)], sense := .eq, rhs := if W.contains c then 1 else 0 }

/-- (C0a) `cost_total <= instance.budget_limit` -/
def kC0a (E : Elec) : Constr := { name := "C0a", terms := costTotal E, sense := .le, rhs := E.budget }

/-- (C0b) `cost_total + c.cost + x_vars[c] * INF >= instance.budget_limit + 1` -/
def kC0b (E : Elec) (c : Pid) : Constr :=
  { name := "C0b", terms := costTotal E ++ [(INF E, Var.x c)], sense := .ge, rhs := E.budget + 1 - E.cost c }

/-- `b * profile.num_ballots() >= instance.budget_limit` -/
def kNonEmpty (E : Elec) : Constr :=
  { name := "nonempty", terms := [((nv E : Rat), Var.b)], sense := .ge, rhs := E.budget }

/-- (C1) `p_vars[idx][c] == 0` (for `c not in i`) -/
def kC1 (i : Nat) (c : Pid) : Constr := { name := "C1", terms := [(1, Var.p i c)], sense := .eq, rhs := 0 }

/-- (C2) `xsum(p_vars[idx][c] for c in C) <= b` -/
def kC2 (E : Elec) (i : Nat) : Constr :=
  { name := "C2", terms := spentTerms E i 1 ++ [(-1, Var.b)], sense := .le, rhs := 0 }

/-- (C3) `payments_total <= c.cost` -/
def kC3a (E : Elec) (c : Pid) : Constr := { name := "C3a", terms := paidTerms E c 1, sense := .le, rhs := E.cost c }

/-- (C3) `c.cost + (x_vars[c] - 1) * INF <= payments_total` -/
def kC3b (E : Elec) (c : Pid) : Constr :=
  { name := "C3b", terms := [(INF E, Var.x c)] ++ paidTerms E c (-1), sense := .le, rhs := INF E - E.cost c }

/-- (C4) `0 <= p_vars[idx][c]` -/
def kC4a (i : Nat) (c : Pid) : Constr := { name := "C4a", terms := [(1, Var.p i c)], sense := .ge, rhs := 0 }

/-- (C4) `p_vars[idx][c] <= x_vars[c] * INF` -/
def kC4b (E : Elec) (i : Nat) (c : Pid) : Constr :=
  { name := "C4b", terms := [(1, Var.p i c), (-(INF E), Var.x c)], sense := .le, rhs := 0 }

/-- `r_vars[idx] == b - xsum(p_vars[idx][c] for c in C)` -/
def kR (E : Elec) (i : Nat) : Constr :=
  { name := "R", terms := [(1, Var.r i), (-1, Var.b)] ++ spentTerms E i 1, sense := .eq, rhs := 0 }

/-- (C5) `xsum(r_vars[idx] for idx, i in enumerate(N) if c in i) <= c.cost + x_vars[c] * INF` -/
def kC5 (E : Elec) (c : Pid) : Constr :=
  { name := "C5", terms := (supp E c).map (fun ai => ((1 : Rat), Var.r ai.2)) ++ [(-(INF E), Var.x c)], sense := .le,
    rhs := E.cost c }

/-- `m_vars[idx] >= p_vars[idx][c]` -/
def kM1 (i : Nat) (c : Pid) : Constr :=
  { name := "M1", terms := [(1, Var.m i), (-1, Var.p i c)], sense := .ge, rhs := 0 }

/-- `m_vars[idx] >= b - xsum(p_vars[idx][c] for c in C)` -/
def kM2 (E : Elec) (i : Nat) : Constr :=
  { name := "M2", terms := [(1, Var.m i), (-1, Var.b)] ++ spentTerms E i 1, sense := .ge, rhs := 0 }

/-- (S5) `xsum(m_vars[idx] for idx, i in enumerate(N) if c in i) <= c.cost + x_vars[c] * INF` -/
def kS5 (E : Elec) (c : Pid) : Constr :=
  { name := "S5", terms := (supp E c).map (fun ai => ((1 : Rat), Var.m ai.2)) ++ [(-(INF E), Var.x c)], sense := .le,
    rhs := E.cost c }

def fixBs (cfg : Cfg) : List Constr :=
  match cfg.fixB with
  | some vb => [kFixB vb]
  | none => []

def fixPs (E : Elec) (cfg : Cfg) : List Constr :=
  match cfg.fixP with
  | some pf => (voters E).flatMap (fun ai => E.C.map (fun c => kFixP pf ai.2 c))
  | none => []

def fixXs (E : Elec) (cfg : Cfg) : List Constr :=
  match cfg.given with
  | some W => E.C.map (fun c => kFixX W c)
  | none => []

/-- `if exhaustive: (C0b) … elif budget_allocation is None: (prevent empty allocation)` -/
def exhOrNonEmpty (E : Elec) (cfg : Cfg) : List Constr :=
  if cfg.exhaustive then E.C.map (fun c => kC0b E c)
  else match cfg.given with
    | none => [kNonEmpty E]
    | some _ => []

def c1s (E : Elec) : List Constr :=
  (voters E).flatMap (fun ai => (E.C.filter (fun c => !(ai.1 c))).map (fun c => kC1 ai.2 c))

def c2s (E : Elec) : List Constr := (voters E).map (fun ai => kC2 E ai.2)

def c3s (E : Elec) : List Constr := E.C.flatMap (fun c => [kC3a E c, kC3b E c])

def c4s (E : Elec) : List Constr := (voters E).flatMap (fun ai => E.C.flatMap (fun c => [kC4a ai.2 c, kC4b E ai.2 c]))

def plainCs (E : Elec) : List Constr := (voters E).map (fun ai => kR E ai.2) ++ E.C.map (fun c => kC5 E c)

def stableCs (E : Elec) : List Constr :=
  (voters E).flatMap (fun ai => E.C.map (fun c => kM1 ai.2 c) ++ [kM2 E ai.2]) ++ E.C.map (fun c => kS5 E c)

/-- every constraint `priceable(instance, profile, budget_allocation, voter_budget, payment_functions, stable,
    exhaustive)` adds to the model, in the order of the code -/
def constraints (E : Elec) (cfg : Cfg) : List Constr :=
  fixBs cfg ++ fixPs E cfg ++ fixXs E cfg ++ [kC0a E] ++ exhOrNonEmpty E cfg ++ c1s E ++ c2s E ++ c3s E ++ c4s E
  ++ (if cfg.stable then stableCs E else plainCs E)

/-- the point satisfies the variable domains and every constraint: what the solver is asked to decide -/
def sat (E : Elec) (cfg : Cfg) (pt : Point) : Bool :=
  (vars E cfg.stable).all (VarDecl.holds pt) && (constraints E cfg).all (Constr.holds pt)

/-! ### reading a point as a price system, and a price system as a point -/

/-- `allocation = [c for c in C if x_vars[c].x >= 0.99]`, voter budget `b.x`, payments `p_vars[idx][c].x` -/
def toInput (E : Elec) (pt : Point) : Price.Input :=
  { C := E.C, cost := E.cost, budget := E.budget,
    W := E.C.filter (fun c => decide (pt.x c = 1)),
    N := (voters E).map (fun ai => { app := ai.1, pay := pt.p ai.2 }),
    b := pt.b }

/-- the election a validator input is about -/
def ofInput (X : Price.Input) : Elec :=
  { C := X.C, cost := X.cost, budget := X.budget, apps := X.N.map (fun v => v.app) }

/-- `max(max_payment[idx], leftover[idx])`, the least admissible value of `m_{idx}` -/
def stableVal (X : Price.Input) (v : Price.PVoter) : Rat :=
  if Price.leftover X v ≤ Price.maxPayment X v then Price.maxPayment X v else Price.leftover X v

/-- the point that encodes the price system `(X.b, payments of X.N)` for `X.W` -/
def pointOf (X : Price.Input) : Point :=
  { b := X.b,
    p := fun i c => match X.N[i]? with
      | some v => v.pay c
      | none => 0,
    x := fun c => if X.W.contains c then 1 else 0,
    r := fun i => match X.N[i]? with
      | some v => Price.leftover X v
      | none => 0,
    m := fun i => match X.N[i]? with
      | some v => stableVal X v
      | none => 0 }

end Pabu.PriceMIP
