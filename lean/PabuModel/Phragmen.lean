/-
  PabuModel.Phragmen — sequential Phragmén (pabutools/rules/phragmen.py).
  Voters are approval entries (index, multiplicity); `app i p` says entry i approves p.
-/
import PabuModel.RoundRule
namespace Pabu
namespace Phragmen

structure Ctx where
  vs : List Nat
  m : Nat → Nat
  app : Nat → Pid → Bool
  cost : Pid → Rat
  budget : Rat

structure State where
  load : Nat → Rat
  pool : List Pid
  alloc : List Pid
  spent : Rat

def supporters (C : Ctx) (p : Pid) : List Nat := C.vs.filter (fun i => C.app i p)

def score (C : Ctx) (p : Pid) : Nat := sumNat (supporters C p) C.m

/-- the maximum load the supporters of `p` would share if `p` were bought now; `none` = +∞ -/
def newMax (C : Ctx) (s : State) (p : Pid) : ERat :=
  if score C p = 0 then none
  else some ((sumOver (supporters C p) (fun i => (C.m i : Rat) * s.load i) + C.cost p) / (score C p : Nat))

def emin : List ERat → ERat
  | [] => none
  | [x] => x
  | x :: xs => if ERat.le x (emin xs) then x else emin xs

def argmin (C : Ctx) (s : State) : List Pid :=
  s.pool.filter (fun p => newMax C s p == emin (s.pool.map (newMax C s)))

/-- the round's candidates; empty (stop) as soon as one of the minimisers would overshoot -/
def tied (C : Ctx) (s : State) : List Pid :=
  if (argmin C s).any (fun p => decide (C.budget < s.spent + C.cost p)) then [] else argmin C s

def buy (C : Ctx) (s : State) (t : Pid) : State :=
  -- the new maximum load is computed ONCE (a `let` outside the closure): recomputing it inside the load function would
  -- re-evaluate all earlier rounds for every supporter
  let x := newMax C s t
  { load := fun i => if C.app i t then (match x with | some x => x | none => s.load i) else s.load i
    pool := s.pool.filter (fun q => q != t)
    alloc := s.alloc ++ [t]
    spent := s.spent + C.cost t }

def rule (C : Ctx) : RoundRule State where
  pool := fun s => s.pool
  tied := tied C
  buy := buy C
  out := fun s => s.alloc

def initState (C : Ctx) (projects : List Pid) (init : List Pid) (loads : Nat → Rat) : State :=
  { load := loads
    pool := (sortIds projects).filter (fun p => !init.contains p && decide (C.cost p ≤ C.budget))
    alloc := init
    spent := costOf C.cost init }

def run (C : Ctx) (projects init : List Pid) (loads : Nat → Rat) (order : List Pid → Except Err (List Pid)) :
    Except Err (List Pid) :=
  (rule C).run order (initState C projects init loads).pool.length (initState C projects init loads)

def runAll (C : Ctx) (projects init : List Pid) (loads : Nat → Rat) (order : List Pid → Except Err (List Pid)) :
    Except Err (List (List Pid)) :=
  ((rule C).runAll order (initState C projects init loads).pool.length (initState C projects init loads)).map canonOutcomes

end Phragmen
end Pabu
