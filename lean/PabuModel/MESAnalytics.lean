/-
  PabuModel.MESAnalytics — the analytics of a recorded Equal Shares run
  (pabutools/analysis/mesanalytics.py and the analytics parts of pabutools/rules/mes/mes_rule.py,
  pabutools/rules/mes/mes_details.py).

  (a) `Details` / `traceL`: the project details of every iteration (`MESIteration` as a list of
      `MESProjectDetails`): the pool of the iteration, which projects were marked `discarded`, which
      were marked `effective_vote_count_reduced`, the selected project and the budgets.
      What the run records is a fact about the LAZY round (`PabuModel/MESLazy.lean`): a project is
      marked as discarded only if the loop reaches it before its early `break` and then finds that
      its supporters hold less than its cost; it is then removed for good, so it does not appear in
      the later iterations.  Which projects are reached depends on the visiting order
      `sorted(projects, key=stored affordability)`, a stable sort of the iteration order of a Python
      `set`; that iteration order is an INPUT of the model (`ord`, observable as the order of the
      project details of the first iteration) — everything else is determined.
  (b) `projectLoss`: the `ProjectLoss` records `calculate_project_loss` builds from the SELECTING
      iterations (the visualisation module removes the trailing iteration first; on the raw details
      the real function raises AttributeError on that iteration, whose `selected_project` is None).
  (c) `effectiveSupport`: what `calculate_effective_support` returns: Equal Shares is run without
      the project; after every purchase at price ρ the supporters of the project could still raise
      `cover = Σ multiplicity × min(money after the purchase, ρ × utility)`, at the stop
      `cover = Σ multiplicity × money`; the result is the largest `int(cover / cost × 100)`, and at
      least 100 if the project was picked by the real run.  A project outside the pool (no supporter,
      cost 0, initially selected) has effective support 0.
      (The multiplicities are the repaired behaviour: the shipped code summed over profile ENTRIES.)
-/
import PabuModel.MES
import PabuModel.MESLazy
namespace Pabu
namespace MESAnalytics
open MES MESLazy

/-! ### (a) project details of an iteration -/

/-- the loop of one round with a log: `seen` = the projects the loop looked at before (and
    including) the one it `break`s on; `priced` = the projects whose price it recomputed
    (`update_project_details_as_effective_vote_count_reduced`) -/
structure Log where
  acc : Acc
  seen : List Pid
  priced : List Pid

def pricedStep (V : VCtx) (cost : Pid → Rat) (bin : Bool) (b : Nat → Rat) (a : Acc) (p : Pid)
    (l : List Pid) : List Pid :=
  if budSum (sups V b p) < cost p then l
  else if exceeds (a.aff p) a.best = true then l
  else if (price V cost bin b p).isSome = true then l ++ [p]
  else l

def stepLog (V : VCtx) (cost : Pid → Rat) (bin : Bool) (b : Nat → Rat) (x : Log) (p : Pid) : Log :=
  if x.acc.stopped = true then x
  else ⟨step V cost bin b x.acc p, x.seen ++ [p], pricedStep V cost bin b x.acc p x.priced⟩

def scanLog (V : VCtx) (cost : Pid → Rat) (bin : Bool) (s : LState) : Log :=
  (visit s).foldl (stepLog V cost bin s.b) ⟨acc0 s, [], []⟩

/-- the projects the loop of the round looked at (a prefix of the visiting order) -/
def reached (V : VCtx) (cost : Pid → Rat) (bin : Bool) (s : LState) : List Pid :=
  (scanLog V cost bin s).seen

/-- one recorded iteration with its project details -/
structure Details where
  pool : List Pid            -- the projects of the iteration, in the iteration order of the set
  discarded : List Pid       -- `discarded == True`
  priced : List Pid          -- `effective_vote_count_reduced == True`
  selected : Option Pid
  rho : Option Rat
  before : List Rat
  after : List Rat

def detailsOf (V : VCtx) (cost : Pid → Rat) (bin : Bool) (s : LState) (sel : Option Pid)
    (after : List Rat) : Details :=
  ⟨s.pool, (scan V cost bin s).dropped, (scanLog V cost bin s).priced, sel,
    (scan V cost bin s).best, budgets V s.b, after⟩

/-- the iterations of a resolute run of the lazy rounds, ending with the one that selects nothing -/
def traceL (V : VCtx) (cost : Pid → Rat) (order : List Pid → Except Err (List Pid)) (bin : Bool) :
    Nat → LState → Except Err (List Details)
  | 0, s => .ok [detailsOf V cost bin s none []]
  | n + 1, s =>
    if tiedLazy V cost bin s = [] then .ok [detailsOf V cost bin s none []]
    else match orderIfTie order (tiedLazy V cost bin s) with
      | .error e => .error e
      | .ok [] => .ok [detailsOf V cost bin s none []]
      | .ok (t :: _) =>
        match traceL V cost order bin n (buyLazy V cost bin s t) with
        | .error e => .error e
        | .ok rest =>
          .ok (detailsOf V cost bin s (some t) (budgets V (buyLazy V cost bin s t).b) :: rest)

/-- the pool in the iteration order `ord` of the implementation's set (projects of the pool that
    `ord` does not mention keep their place at the end) -/
def orderedPool (pool ord : List Pid) : List Pid :=
  ord.filter (fun p => pool.contains p) ++ pool.filter (fun p => !ord.contains p)

/-- initial state of the lazy rounds with the pool in the implementation's iteration order and
    without the skipped project (`skip = none`: the ordinary run) -/
def initStateA (V : VCtx) (I : Inst) (init : List Pid) (b0 : Rat) (ord : List Pid)
    (skip : Option Pid) : LState :=
  { b := fun _ => b0
    pool := (orderedPool (initPool V I init) ord).filter (fun q => some q != skip)
    alloc := init ++ zeroCost V I init
    aff := initAff V I }

def details (V : VCtx) (I : Inst) (init : List Pid) (order : List Pid → Except Err (List Pid))
    (bin : Bool) (b0 : Rat) (ord : List Pid) : Except Err (List Details) :=
  traceL V I.cost order bin (initPool V I init).length (initStateA V I init b0 ord none)

def Details.toIteration (d : Details) : Iteration := ⟨d.before, d.selected, d.rho, d.after⟩

/-! ### (b) project loss -/

/-- Σ f i xᵢ over the voter entries `l` and a list of values recorded for them -/
def zsum (f : Nat → Rat → Rat) : List Nat → List Rat → Rat
  | i :: is, x :: xs => f i x + zsum f is xs
  | _, _ => 0

/-- `sum(current_voters_budget[i] * voter_multiplicity[i] for i in project.supporter_indices)` -/
def supBudget (V : VCtx) (p : Pid) (money : List Rat) : Rat :=
  zsum (fun i x => if 0 < V.u i p then (V.m i : Rat) * x else 0) V.vs money

/-- what every voter entry spent in an iteration -/
def spent (it : Iteration) : List Rat := List.zipWith (fun x y => x - y) it.before it.after

/-- what the supporters of `p` spent (with multiplicity) on `q` in the iteration that bought `q` -/
def lostTo (V : VCtx) (p q : Pid) (it : Iteration) : Rat :=
  zsum (fun i x => if 0 < V.u i p ∧ 0 < V.u i q then (V.m i : Rat) * x else 0) V.vs (spent it)

/-- `p` and `q` have a common supporter -/
def shares (V : VCtx) (p q : Pid) : Bool :=
  V.vs.any (fun i => decide (0 < V.u i p) && decide (0 < V.u i q))

/-- the entry of `budget_lost` an earlier iteration contributes to the record of `p` -/
def lostEntry (V : VCtx) (p : Pid) (it : Iteration) : Option (Pid × Rat) :=
  match it.selected with
  | none => none
  | some q => if shares V p q = true then some (q, lostTo V p q it) else none

/-- a `ProjectLoss` record -/
structure Loss where
  project : Pid
  supportersBudget : Rat
  budgetLost : List (Pid × Rat)      -- in the order of the purchases

/-- `_create_project_loss(project, money, voter_spendings, …)` where `voter_spendings` holds the
    purchases of the iterations `earlier` -/
def mkLoss (V : VCtx) (p : Pid) (money : List Rat) (earlier : List Iteration) : Loss :=
  ⟨p, supBudget V p money, earlier.filterMap (lostEntry V p)⟩

/-- `ProjectLoss.total_budget_lost()` -/
def Loss.total (x : Loss) : Rat := sumOver x.budgetLost Prod.snd

/-- the projects of an iteration that get an extra record: the discarded ones and, in the last
    iteration handed over, every project but the selected one (in the order of the details) -/
def extras (pool disc : List Pid) (t : Pid) (last : Bool) : List Pid :=
  pool.filter (fun q => disc.contains q || (last && q != t))

/-- the records of one iteration (`none` selected: the real function raises; no record) -/
def lossOf (V : VCtx) (done : List Iteration) (it : Iteration) (pool disc : List Pid) (last : Bool) :
    List Loss :=
  match it.selected with
  | none => []
  | some t => mkLoss V t it.before done ::
      (extras pool disc t last).map (fun q => mkLoss V q it.after (done ++ [it]))

def lossGo (V : VCtx) : List Iteration → List (Iteration × List Pid × List Pid) → List Loss
  | _, [] => []
  | done, e :: rest =>
    lossOf V done e.1 e.2.1 e.2.2 rest.isEmpty ++ lossGo V (done ++ [e.1]) rest

/-- `calculate_project_loss` on iterations given as (budgets and selection, pool, discarded) -/
def projectLoss (V : VCtx) (L : List (Iteration × List Pid × List Pid)) : List Loss := lossGo V [] L

/-- the selecting iterations of a record (what the visualisation module keeps) -/
def selecting (L : List Iteration) : List Iteration := L.filter (fun it => it.selected.isSome)

/-- `calculate_project_loss` on the selecting iterations of the recorded details -/
def projectLossOfDetails (V : VCtx) (D : List Details) : List Loss :=
  projectLoss V ((D.filter (fun d => d.selected.isSome)).map
    (fun d => (d.toIteration, d.pool, d.discarded)))

/-! ### (c) effective support -/

/-- what a voter holding `x` with utility `u` can pay at price `r` (`none`: everything) -/
def capAt (r : Option Rat) (x u : Rat) : Rat :=
  match r with
  | some r => min x (r * u)
  | none => x

/-- `cover`: what the supporters of `p` can raise at price `r` from the recorded money -/
def coverOf (V : VCtx) (p : Pid) (r : Option Rat) (money : List Rat) : Rat :=
  zsum (fun i x => if 0 < V.u i p then (V.m i : Rat) * capAt r x (V.u i p) else 0) V.vs money

/-- `int(cover / cost * 100)` (the argument is never negative) -/
def pct (c cost : Rat) : Int := (c / cost * 100).floor

/-- the value one iteration of the run without `p` contributes -/
def effOfIter (V : VCtx) (cost : Pid → Rat) (p : Pid) (it : Iteration) : Int :=
  match it.selected with
  | some _ => pct (coverOf V p it.rho it.after) (cost p)
  | none => pct (coverOf V p none it.before) (cost p)

/-- `skipped_project_eff_support = max(new_eff, skipped_project_eff_support)` along the run -/
def effFold (V : VCtx) (cost : Pid → Rat) (p : Pid) : Int → List Iteration → Int
  | acc, [] => acc
  | acc, it :: rest => effFold V cost p (max acc (effOfIter V cost p it)) rest

def skipState (s : State) (p : Pid) : State := { s with pool := s.pool.filter (fun q => q != p) }

/-- `details.skipped_project_eff_support` of the run that skips `p` -/
def effRaw (V : VCtx) (I : Inst) (init : List Pid) (order : List Pid → Except Err (List Pid))
    (b0 : Rat) (p : Pid) : Except Err Int :=
  if (initPool V I init).contains p = true then
    match trace V I.cost order (initPool V I init).length (skipState (initState V I init b0) p) with
    | .error e => .error e
    | .ok L => .ok (effFold V I.cost p 0 L)
  else .ok 0

def atLeast100 (picked : Bool) (e : Int) : Int := if picked = true then max e 100 else e

/-- `calculate_effective_support(instance, profile, p, was_picked, …)` -/
def effectiveSupport (V : VCtx) (I : Inst) (init : List Pid)
    (order : List Pid → Except Err (List Pid)) (b0 : Rat) (p : Pid) (picked : Bool) : Except Err Int :=
  match effRaw V I init order b0 p with
  | .error e => .error e
  | .ok e => .ok (atLeast100 picked e)

def collect {α : Type} : List (Except Err α) → Except Err (List α)
  | [] => .ok []
  | x :: xs =>
    match x with
    | .error e => .error e
    | .ok a => match collect xs with
      | .error e => .error e
      | .ok l => .ok (a :: l)

/-- `calculate_effective_supports(instance, profile, allocation, …)` with `allocation` = `picked` -/
def effectiveSupports (V : VCtx) (I : Inst) (init : List Pid)
    (order : List Pid → Except Err (List Pid)) (b0 : Rat) (picked : List Pid) :
    Except Err (List (Pid × Int)) :=
  collect ((sortIds I.projects).map (fun p =>
    match effectiveSupport V I init order b0 p (picked.contains p) with
    | .error e => .error e
    | .ok e => .ok (p, e)))

end MESAnalytics
end Pabu
