/-
  PabuModel.Exhaustion — the wrappers of pabutools/rules/exhaustion.py over an abstract base rule.
-/
import PabuModel.Election
namespace Pabu
namespace Exhaustion

/-- `exhaustion_by_budget_increase`, resolute.  `rule b` = outcome of the base rule on the instance with
    budget `b`; `feas`/`exh` are judged against the ORIGINAL instance. -/
def budgetIncrease (rule : Rat → Except Err (List Pid)) (feas exh : List Pid → Bool) (exhStop : Bool)
    (step bound : Rat) : Nat → Rat → List Pid → Except Err (List Pid)
  | 0, _, _ => .error .fuel
  | f + 1, cur, prev =>
    if bound < cur then .ok prev
    else match rule cur with
      | .error e => .error e
      | .ok W =>
        if !feas W then .ok prev
        else if exhStop && exh W then .ok W
        else budgetIncrease rule feas exh exhStop step bound f (cur + step) W

/-- `exhaustion_by_budget_increase`, irresolute -/
def budgetIncreaseAll (rule : Rat → Except Err (List (List Pid))) (feas exh : List Pid → Bool) (exhStop : Bool)
    (step bound : Rat) : Nat → Rat → List (List Pid) → Except Err (List (List Pid))
  | 0, _, _ => .error .fuel
  | f + 1, cur, prev =>
    if bound < cur then .ok prev
    else match rule cur with
      | .error e => .error e
      | .ok Ws =>
        if Ws.any (fun W => !feas W) then .ok prev
        else if exhStop && Ws.any exh then .ok Ws
        else budgetIncreaseAll rule feas exh exhStop step bound f (cur + step) Ws

/-- `completion_by_rule_combination`, resolute: each rule continues from the previous outcome -/
def completion (exh : List Pid → Bool) : List (List Pid → Except Err (List Pid)) → List Pid → Except Err (List Pid)
  | [], cur => .ok cur
  | r :: rs, cur =>
    match r cur with
    | .error e => .error e
    | .ok W => if exh W then .ok W else completion exh rs W

/-- all outcomes of rule `r` started from each of `allocs`, in order -/
def outcomesFrom (r : List Pid → Except Err (List (List Pid))) : List (List Pid) → Except Err (List (List Pid))
  | [] => .ok []
  | a :: as =>
    match r a with
    | .error e => .error e
    | .ok ws => match outcomesFrom r as with
      | .error e => .error e
      | .ok rest => .ok (ws ++ rest)

def addNew (res : List (List Pid)) : List (List Pid) → List (List Pid)
  | [] => res
  | w :: ws => if res.contains w then addNew res ws else addNew (res ++ [w]) ws

/-- `completion_by_rule_combination`, irresolute: every partial outcome is completed separately;
    exhaustive ones are collected, the others go to the next rule -/
def completionAll (exh : List Pid → Bool) :
    List (List Pid → Except Err (List (List Pid))) → List (List Pid) → List (List Pid) → Except Err (List (List Pid))
  | [], res, allocs => .ok (res ++ allocs)
  | r :: rs, res, allocs =>
    match outcomesFrom r allocs with
    | .error e => .error e
    | .ok outs =>
      if (outs.filter (fun w => !exh w)) = [] then .ok (addNew res (outs.filter exh))
      else completionAll exh rs (addNew res (outs.filter exh)) (outs.filter (fun w => !exh w))

end Exhaustion
end Pabu
