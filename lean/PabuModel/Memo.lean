/-
  PabuModel.Memo — a dictionary memo in front of a pure function, as `MESVoter.budget_over_sat_project` keeps one:

      res = self.budget_over_sat_map.get((proj, self.budget), None)
      if res is None:
          res = frac(self.budget, self.sat.sat_project(proj))
          self.budget_over_sat_map[(proj, self.budget)] = res
      return res

  `call keyOf f` looks the arguments up under `keyOf args`; on a miss it computes `f args` and stores it under the same key.
  The voter's budget changes between calls (that is the point of Equal Shares), the table survives.
-/
import PabuModel.Basic
namespace Pabu
namespace Memo

abbrev Table (κ β : Type) := List (κ × β)

variable {α κ β : Type} [DecidableEq κ]

def lookup (t : Table κ β) (k : κ) : Option β :=
  match t.find? (fun e => decide (e.1 = k)) with
  | some e => some e.2
  | none => none

/-- one call: the value returned and the table afterwards -/
def call (keyOf : α → κ) (f : α → β) (t : Table κ β) (a : α) : β × Table κ β :=
  match lookup t (keyOf a) with
  | some v => (v, t)
  | none => (f a, (keyOf a, f a) :: t)

/-- a sequence of calls on one table: the values returned, in order -/
def calls (keyOf : α → κ) (f : α → β) : Table κ β → List α → List β
  | _, [] => []
  | t, a :: as => (call keyOf f t a).1 :: calls keyOf f (call keyOf f t a).2 as

/-- `budget / sat(project)` for the arguments (project, budget) of one voter with utilities `u` -/
def budgetOverSat (u : Pid → Rat) (a : Pid × Rat) : Rat := a.2 / u a.1

end Memo
end Pabu
