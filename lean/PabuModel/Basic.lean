/-
  PabuModel.Basic — shared data and list/arithmetic helpers of the executable model.
  No Mathlib import: everything here is run by the driver.
-/
namespace Pabu

abbrev Pid := Nat

inductive Err where
  | tie | index | zeroDiv | type | key | value | fuel | solver
deriving Repr, DecidableEq

def Err.toString : Err → String
  | .tie => "tie" | .index => "index" | .zeroDiv => "zeroDiv" | .type => "type"
  | .key => "key" | .value => "value" | .fuel => "fuel" | .solver => "solver"

/-- Σ f x over a list (structural, executable, proof-friendly). -/
def sumOver {α : Type} (l : List α) (f : α → Rat) : Rat :=
  match l with
  | [] => 0
  | x :: xs => f x + sumOver xs f

def sumNat {α : Type} (l : List α) (f : α → Nat) : Nat :=
  match l with
  | [] => 0
  | x :: xs => f x + sumNat xs f

/-- total cost of a list of projects under a cost function -/
def costOf (c : Pid → Rat) (l : List Pid) : Rat := sumOver l c

/-- stable insertion: put `x` before the first `y` with `le x y` -/
def insertLe {α : Type} (le : α → α → Bool) (x : α) : List α → List α
  | [] => [x]
  | y :: ys => if le x y then x :: y :: ys else y :: insertLe le x ys

/-- stable insertion sort (what Python's `sorted(l, key=…)` does to the order of `l`) -/
def sortLe {α : Type} (le : α → α → Bool) (l : List α) : List α :=
  l.foldr (insertLe le) []

/-- stable sort by a rational key, ascending -/
def sortKey {α : Type} (key : α → Rat) (l : List α) : List α :=
  sortLe (fun a b => decide (key a ≤ key b)) l

/-- ascending sort of project ids (Python: `sorted(projects)`; ids are name ranks) -/
def sortIds (l : List Pid) : List Pid := sortLe (fun a b => decide (a ≤ b)) l

/-- remove duplicates, keeping first occurrences -/
def dedup {α : Type} [BEq α] : List α → List α
  | [] => []
  | x :: xs => x :: (dedup xs).filter (fun y => !(y == x))

/-- all sub-lists in the order of `itertools.combinations` by size is *not* needed: we only use the
    set of sub-lists; this is the usual "without / with head" enumeration. -/
def sublists {α : Type} : List α → List (List α)
  | [] => [[]]
  | x :: xs => sublists xs ++ (sublists xs).map (fun l => x :: l)

def minRat : List Rat → Option Rat
  | [] => none
  | x :: xs => match minRat xs with
    | none => some x
    | some y => some (if x ≤ y then x else y)

def maxRat : List Rat → Option Rat
  | [] => none
  | x :: xs => match maxRat xs with
    | none => some x
    | some y => some (if y ≤ x then x else y)

/-- position of `x` in `l` (length if absent) -/
def indexOf (l : List Nat) (x : Nat) : Nat :=
  match l with
  | [] => 0
  | y :: ys => if y = x then 0 else indexOf ys x + 1

/-- extended rationals: `none` is +∞ -/
abbrev ERat := Option Rat

def ERat.le : ERat → ERat → Bool
  | _, none => true
  | none, some _ => false
  | some a, some b => decide (a ≤ b)

def ERat.lt (a b : ERat) : Bool := !(ERat.le b a)

end Pabu
