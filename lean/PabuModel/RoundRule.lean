/-
  PabuModel.RoundRule — the shape shared by greedy (general path), Equal Shares and Phragmén:
  a pool of undecided projects, the projects tied for this round's optimum, how to buy one.
  Tie-breaking rules (pabutools/tiebreaking.py).
-/
import PabuModel.Election
namespace Pabu

/-! ### Tie-breaking -/

inductive Tie where
  | lexico | appScore | minCost | maxCost | refuse
  | perm (π : List Pid)          -- a strict order given explicitly (first = preferred)
deriving Repr, DecidableEq

/-- the sort key of a shipped rule (lexico: the name rank itself) -/
def Tie.key (t : Tie) (cost : Pid → Rat) (score : Pid → Nat) (p : Pid) : Rat :=
  match t with
  | .lexico => (p : Nat)
  | .appScore => - ((score p : Nat) : Rat)
  | .minCost => cost p
  | .maxCost => - cost p
  | .refuse => 0
  | .perm π => (indexOf π p : Nat)

/-- `TieBreakingRule.order(instance, profile, projects)`: a stable sort by the rule's key of the
    name-sorted projects; `refuse` raises as soon as its key is evaluated. -/
def Tie.order (t : Tie) (cost : Pid → Rat) (score : Pid → Nat) (l : List Pid) : Except Err (List Pid) :=
  if t = .refuse ∧ l ≠ [] then .error .tie
  else .ok (sortKey (t.key cost score) (sortIds l))

/-! ### Round-based rules -/

structure RoundRule (σ : Type) where
  pool : σ → List Pid
  tied : σ → List Pid
  buy  : σ → Pid → σ
  out  : σ → List Pid

/-- resolute run: in every round buy the first project of `order (tied s)`; fuel bounds the rounds -/
def RoundRule.run {σ : Type} (R : RoundRule σ) (order : List Pid → Except Err (List Pid)) :
    Nat → σ → Except Err (List Pid)
  | 0, s => .ok (R.out s)
  | n + 1, s =>
    if R.tied s = [] then .ok (R.out s)
    else match order (R.tied s) with
      | .error e => .error e
      | .ok [] => .ok (R.out s)
      | .ok (t :: _) => R.run order n (R.buy s t)

/-- irresolute run: branch over every tied project -/
def RoundRule.runAll {σ : Type} (R : RoundRule σ) (order : List Pid → Except Err (List Pid)) :
    Nat → σ → Except Err (List (List Pid))
  | 0, s => .ok [R.out s]
  | n + 1, s =>
    if R.tied s = [] then .ok [R.out s]
    else match order (R.tied s) with
      | .error e => .error e
      | .ok ts => ts.foldlM (fun acc t => do
          let r ← R.runAll order n (R.buy s t)
          pure (acc ++ r)) []

/-- pure resolute run for a total order function (every rule except `refuse`) -/
def RoundRule.runP {σ : Type} (R : RoundRule σ) (ord : List Pid → List Pid) : Nat → σ → List Pid
  | 0, s => R.out s
  | n + 1, s =>
    match ord (R.tied s) with
    | [] => R.out s
    | t :: _ => R.runP ord n (R.buy s t)

/-- pure irresolute run -/
def RoundRule.runAllP {σ : Type} (R : RoundRule σ) : Nat → σ → List (List Pid)
  | 0, s => [R.out s]
  | n + 1, s =>
    if R.tied s = [] then [R.out s]
    else (R.tied s).flatMap (fun t => R.runAllP n (R.buy s t))

/-- what the implementations do with the branches: sort each outcome by name, drop repeats -/
def canonOutcomes (ls : List (List Pid)) : List (List Pid) := dedup (ls.map sortIds)

end Pabu
