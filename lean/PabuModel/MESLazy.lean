/-
  PabuModel.MESLazy — the Method of Equal Shares *as `mes_inner_algo` really computes a round*
  (pabutools/rules/mes/mes_rule.py), with its two internal fast paths:

  * lazy affordability updates: every pool project carries a stored (possibly stale) affordability
    `aff p` (initially `cost p / total_sat p`).  A round walks the pool in increasing order of the
    STORED value, removes for good the projects whose supporters no longer hold the cost, stops at
    the first project whose stored value exceeds the best price found so far (`break`), and
    otherwise recomputes the true price, stores it, and maintains `best`/`tied`
    (`<` replaces, `==` appends);
  * binary-satisfaction shortcut: when all supporters of a project share one satisfaction value
    (`unique_sat_supporter`), that value is used for every supporter in the sweep and in the payment.

  `PabuModel.MES` is the eager form (every pool project priced in every round, no shortcut);
  `PabuProofs/Properties/C02Lazy.lean` proves that both forms return the same results.
-/
import PabuModel.MES
namespace Pabu
namespace MESLazy
open MES

/-! ### The binary-satisfaction shortcut (`MESProject.supporters_sat`) -/

/-- the satisfaction of the first supporter of `p` (0 if there is none) -/
def firstU (V : VCtx) (p : Pid) : Rat :=
  match supporters V p with
  | [] => 0
  | i :: _ => V.u i p

/-- all supporters of `p` share one satisfaction value (`len(supporter_sats) <= 1`) -/
def allSame (V : VCtx) (p : Pid) : Bool :=
  (supporters V p).all (fun i => decide (V.u i p = firstU V p))

/-- `project.supporters_sat(voter i)`: the shared value when the shortcut is on (`bin`) and applies -/
def satOf (V : VCtx) (bin : Bool) (p : Pid) (i : Nat) : Rat :=
  if (bin && allSame V p) = true then firstU V p else V.u i p

/-- the sweep with the shared satisfaction value: supporters are still sorted by their own
    `budget / sat` and the denominator still starts at `total_sat` -/
def rhoBinary (V : VCtx) (cost : Pid → Rat) (b : Nat → Rat) (p : Pid) : Option Rat :=
  if budSum (sups V b p) < cost p then none
  else sweep (cost p) (utilSum (sups V b p))
    ((sortLe ratioLe (sups V b p)).map (fun s => ⟨s.b, firstU V p, s.m⟩))

/-- the price computation of one project as the code performs it -/
def price (V : VCtx) (cost : Pid → Rat) (bin : Bool) (b : Nat → Rat) (p : Pid) : Option Rat :=
  if (bin && allSame V p) = true then rhoBinary V cost b p else rho V cost b p

/-! ### One round of `mes_inner_algo` -/

structure LState where
  b : Nat → Rat
  pool : List Pid
  alloc : List Pid
  /-- `project.affordability`: the stored, possibly stale, price -/
  aff : Pid → Rat

/-- what the `for project in sorted(projects, key=affordability)` loop carries -/
structure Acc where
  aff : Pid → Rat
  best : Option Rat          -- `best_afford`; `none` = +∞
  tied : List Pid            -- `tied_projects`
  dropped : List Pid         -- projects removed from the pool for lack of money
  stopped : Bool             -- the loop has hit `break`

def upd (aff : Pid → Rat) (p : Pid) (r : Rat) : Pid → Rat := fun q => if q = p then r else aff q

/-- `project.affordability > best_afford` -/
def exceeds (x : Rat) : Option Rat → Bool
  | none => false
  | some bb => decide (bb < x)

/-- `afford_factor < best_afford` -/
def improves (r : Rat) : Option Rat → Bool
  | none => true
  | some bb => decide (r < bb)

/-- the bookkeeping once the true price `r` of `p` is known -/
def record (a : Acc) (p : Pid) (r : Rat) : Acc :=
  if improves r a.best = true then { a with aff := upd a.aff p r, best := some r, tied := [p] }
  else if a.best = some r then { a with aff := upd a.aff p r, tied := a.tied ++ [p] }
  else { a with aff := upd a.aff p r }

/-- the loop body -/
def step (V : VCtx) (cost : Pid → Rat) (bin : Bool) (b : Nat → Rat) (a : Acc) (p : Pid) : Acc :=
  if a.stopped = true then a
  else if budSum (sups V b p) < cost p then { a with dropped := a.dropped ++ [p] }
  else if exceeds (a.aff p) a.best = true then { a with stopped := true }
  else match price V cost bin b p with
    | none => a
    | some r => record a p r

def acc0 (s : LState) : Acc := ⟨s.aff, none, [], [], false⟩

/-- the order in which a round visits the pool: stable sort by the stored affordability -/
def visit (s : LState) : List Pid := sortKey s.aff s.pool

/-- one round: the whole loop -/
def scan (V : VCtx) (cost : Pid → Rat) (bin : Bool) (s : LState) : Acc :=
  (visit s).foldl (step V cost bin s.b) (acc0 s)

def tiedLazy (V : VCtx) (cost : Pid → Rat) (bin : Bool) (s : LState) : List Pid :=
  (scan V cost bin s).tied

/-- the pool the round leaves behind -/
def poolAfter (s : LState) (a : Acc) : List Pid := s.pool.filter (fun q => !a.dropped.contains q)

/-- the payment of voter `i` for `t` at price `r` (uses `supporters_sat`) -/
def payL (V : VCtx) (bin : Bool) (b : Nat → Rat) (t : Pid) (r : Rat) (i : Nat) : Rat :=
  if 0 < V.u i t then min (b i) (r * satOf V bin t i) else 0

/-- buying `t` after the round: the round's removals and stored prices are kept, the supporters pay
    at the round's best price `best_afford` -/
def buyLazy (V : VCtx) (cost : Pid → Rat) (bin : Bool) (s : LState) (t : Pid) : LState :=
  match (scan V cost bin s).best with
  | none =>
    { b := s.b
      pool := (poolAfter s (scan V cost bin s)).filter (fun q => q != t)
      alloc := s.alloc
      aff := (scan V cost bin s).aff }
  | some r =>
    { b := fun i => s.b i - payL V bin s.b t r i
      pool := (poolAfter s (scan V cost bin s)).filter (fun q => q != t)
      alloc := s.alloc ++ [t]
      aff := (scan V cost bin s).aff }

def ruleLazy (V : VCtx) (cost : Pid → Rat) (bin : Bool) : RoundRule LState where
  pool := fun s => s.pool
  tied := tiedLazy V cost bin
  buy := buyLazy V cost bin
  out := fun s => s.alloc

/-- `mes_p.initial_affordability = cost / total_sat` -/
def initAff (V : VCtx) (I : Inst) (p : Pid) : Rat := I.cost p / totalSat V p

def initStateL (V : VCtx) (I : Inst) (init : List Pid) (b0 : Rat) : LState :=
  { b := fun _ => b0, pool := initPool V I init, alloc := init ++ zeroCost V I init, aff := initAff V I }

def runAtLazy (V : VCtx) (I : Inst) (init : List Pid) (order : List Pid → Except Err (List Pid))
    (bin : Bool) (b0 : Rat) : Except Err (List Pid) :=
  (ruleLazy V I.cost bin).run (orderIfTie order) (initPool V I init).length (initStateL V I init b0)

def runAllAtLazy (V : VCtx) (I : Inst) (init : List Pid) (order : List Pid → Except Err (List Pid))
    (bin : Bool) (b0 : Rat) : Except Err (List (List Pid)) :=
  ((ruleLazy V I.cost bin).runAll (orderIfTie order) (initPool V I init).length
    (initStateL V I init b0)).map canonOutcomes

/-- `method_of_equal_shares` (plain), through the lazy rounds -/
def runLazy (V : VCtx) (I : Inst) (init : List Pid) (order : List Pid → Except Err (List Pid))
    (bin : Bool) : Except Err (List Pid) :=
  runAtLazy V I init order bin (I.budget / (numVoters V : Nat))

def runAllLazy (V : VCtx) (I : Inst) (init : List Pid) (order : List Pid → Except Err (List Pid))
    (bin : Bool) : Except Err (List (List Pid)) :=
  runAllAtLazy V I init order bin (I.budget / (numVoters V : Nat))

/-- iterated variant; every iteration restarts from the initial stored affordabilities
    (`p.affordability = p.initial_affordability`) -/
def iteratedLazy (V : VCtx) (I : Inst) (init : List Pid) (order : List Pid → Except Err (List Pid))
    (bin : Bool) (inc : Rat) : Nat → Rat → List Pid → Except Err (List Pid)
  | 0, _, _ => .error .fuel
  | f + 1, b0, prev =>
    match runAtLazy V I init order bin b0 with
    | .error e => .error e
    | .ok W =>
      if !I.isFeasible W then .ok prev
      else if I.isExhaustiveOver (initPool V I init) W then .ok W
      else iteratedLazy V I init order bin inc f (b0 + inc) W

def iteratedAllLazy (V : VCtx) (I : Inst) (init : List Pid) (order : List Pid → Except Err (List Pid))
    (bin : Bool) (inc : Rat) : Nat → Rat → List (List Pid) → Except Err (List (List Pid))
  | 0, _, _ => .error .fuel
  | f + 1, b0, prev =>
    match runAllAtLazy V I init order bin b0 with
    | .error e => .error e
    | .ok Ws =>
      if Ws.any (fun W => !I.isFeasible W) then .ok prev
      else if Ws.any (fun W => I.isExhaustiveOver (initPool V I init) W) then .ok Ws
      else iteratedAllLazy V I init order bin inc f (b0 + inc) Ws

end MESLazy
end Pabu
