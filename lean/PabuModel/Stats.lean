/-
  PabuModel.Stats — descriptive statistics of elections and outcomes
  (pabutools/utils.py `mean_generator`, `gini_coefficient`;
   pabutools/analysis/{votersatisfaction,profileproperties,instanceproperties,category}.py).

  Voter-level statistics work on *entries* `(value, multiplicity)`: one entry per ballot of a list
  profile (multiplicity 1) or per distinct ballot of a multiprofile.  Float-valued statistics of the
  library (`np.median`, `np.std`, `np.exp`) are modelled by their exact rational core (order statistics,
  variance, mean square difference); the harness applies `sqrt`/`exp` on the Python side.
-/
import PabuModel.Sat
namespace Pabu.Stats
open Pabu

/-- entries `(value, multiplicity)` -/
abbrev Entries := List (Rat × Nat)

/-- Σ multiplicities (`profile.num_ballots()`) -/
def totalMult (xs : Entries) : Nat := sumNat xs (fun e => e.2)

/-- Σ multiplicity · value -/
def weightedSum (xs : Entries) : Rat := sumOver xs (fun e => (e.2 : Rat) * e.1)

/-- every voter once: the value of an entry repeated `multiplicity` times -/
def expand {α : Type} : List (α × Nat) → List α
  | [] => []
  | e :: es => List.replicate e.2 e.1 ++ expand es

/-! ### `mean_generator`: streaming mean -/

/-- the inner loop `for i in range(multiplicity): n += 1; mean += frac(value - mean, n)` -/
def meanRep (x : Rat) : Nat → Nat → Rat → Nat × Rat
  | 0, n, m => (n, m)
  | k + 1, n, m => meanRep x k (n + 1) (m + (x - m) / ((n + 1 : Nat) : Rat))

/-- the outer loop over the entries -/
def meanLoop : Entries → Nat → Rat → Nat × Rat
  | [], n, m => (n, m)
  | e :: es, n, m => meanLoop es (meanRep e.1 e.2 n m).1 (meanRep e.1 e.2 n m).2

/-- `mean_generator(entries)` -/
def meanGen (xs : Entries) : Rat := (meanLoop xs 0 0).2

/-- `mean_generator(values)` for plain numbers (multiplicity 1 each) -/
def meanPlain (l : List Rat) : Rat := meanGen (l.map (fun v => (v, 1)))

/-! ### `gini_coefficient`: sorted cumulative formula -/

/-- `total_cum_sum += v * (num_values - i)` over `enumerate(sorted_values)` starting at index `i` -/
def cumFrom (n : Nat) : Nat → List Rat → Rat
  | _, [] => 0
  | i, v :: vs => v * ((n - i : Nat) : Rat) + cumFrom n (i + 1) vs

/-- the flag `all_nul`: no value is `> 0` -/
def allNul (xs : List Rat) : Bool := xs.all (fun v => !(decide (0 < v)))

/-- ascending sort, as Python's `sorted(values)` -/
def sortRat (xs : List Rat) : List Rat := sortKey id xs

/-- `gini_coefficient(values)` once no value is negative -/
def giniCum (xs : List Rat) : Rat :=
  if allNul xs then 0
  else (((xs.length : Nat) : Rat) + 1 - 2 * cumFrom xs.length 0 (sortRat xs) / sumOver xs id) /
        ((xs.length : Nat) : Rat)

/-- `gini_coefficient(values)`: `ValueError` on a negative value -/
def gini (xs : List Rat) : Except Err Rat :=
  if xs.any (fun v => decide (v < 0)) then .error .value else .ok (giniCum xs)

/-! ### voter satisfaction statistics (`votersatisfaction.py`) -/

/-- (satisfaction, multiplicity) per profile entry -/
def satEntries (μ : Measure) (I : Inst) (P : Profile) (W : List Pid) : Entries :=
  P.map (fun e => (sat μ I P e.1 W, e.2))

/-- `avg_satisfaction` -/
def avgSat (xs : Entries) : Rat := meanGen xs

/-- number of voters (with multiplicity) with positive satisfaction -/
def posCount (xs : Entries) : Nat := sumNat xs (fun e => if 0 < e.1 then e.2 else 0)

/-- `percent_positive_satisfaction` (repaired form: entries weighted by multiplicity) -/
def percentPositive (xs : Entries) : Rat := ((posCount xs : Nat) : Rat) / ((totalMult xs : Nat) : Rat)

/-- `gini_coefficient_of_satisfaction`: every voter once -/
def giniSat (xs : Entries) : Except Err Rat := gini (expand xs)

/-- the bin of a satisfaction value in `satisfaction_histogram`:
    `>= max_satisfaction` goes to the last bin, otherwise `ceil(sat * (bins-1) / max_satisfaction)` -/
def binOf (bins : Nat) (mx s : Rat) : Nat :=
  if mx ≤ s then bins - 1 else (Rat.ceil (s * ((bins - 1 : Nat) : Rat) / mx)).toNat

/-- number of voters (with multiplicity) in bin `k` -/
def histCount (bins : Nat) (mx : Rat) (xs : Entries) (k : Nat) : Nat :=
  sumNat xs (fun e => if binOf bins mx e.1 = k then e.2 else 0)

/-- `satisfaction_histogram`: share of voters per bin -/
def hist (bins : Nat) (mx : Rat) (xs : Entries) : List Rat :=
  (List.range bins).map (fun k => ((histCount bins mx xs k : Nat) : Rat) / ((totalMult xs : Nat) : Rat))

/-! ### exact medians and order statistics -/

def nth (l : List Rat) (i : Nat) : Rat :=
  match l with
  | [] => 0
  | x :: xs => match i with
    | 0 => x
    | j + 1 => nth xs j

/-- median of a list of rationals: middle value of the sorted list, mean of the two middle values for
    even length, 0 for the empty list -/
def median (xs : List Rat) : Rat :=
  if xs.length = 0 then 0
  else if xs.length % 2 = 1 then nth (sortRat xs) (xs.length / 2)
  else (nth (sortRat xs) (xs.length / 2 - 1) + nth (sortRat xs) (xs.length / 2)) / 2

/-! ### profile statistics (`profileproperties.py`) -/

def ballotLen (b : Ballot) : Rat := ((b.projects.length : Nat) : Rat)

def ballotCost (I : Inst) (b : Ballot) : Rat := costOf I.cost b.projects

def lenEntries (P : Profile) : Entries := P.map (fun e => (ballotLen e.1, e.2))

def costEntries (I : Inst) (P : Profile) : Entries := P.map (fun e => (ballotCost I e.1, e.2))

/-- `avg_ballot_length` -/
def avgBallotLength (P : Profile) : Rat := meanGen (lenEntries P)

/-- `median_ballot_length` (repaired form: the median itself, not its integer part) -/
def medianBallotLength (P : Profile) : Rat := median (expand (lenEntries P))

/-- `avg_ballot_cost` -/
def avgBallotCost (I : Inst) (P : Profile) : Rat := meanGen (costEntries I P)

/-- `median_ballot_cost` -/
def medianBallotCost (I : Inst) (P : Profile) : Rat := median (expand (costEntries I P))

/-- `profile.approval_score(p)` as a rational -/
def approvalScoreQ (P : Profile) (p : Pid) : Rat := ((P.approvalScore p : Nat) : Rat)

/-- `profile.total_score(p)`: Σ over ballots containing `p` of score · multiplicity -/
def totalScore (P : Profile) (p : Pid) : Rat :=
  sumOver P (fun e => if e.1.mem p then e.1.score p * (e.2 : Rat) else 0)

def approvalScores (I : Inst) (P : Profile) : List Rat := I.projects.map (approvalScoreQ P)

def totalScores (I : Inst) (P : Profile) : List Rat := I.projects.map (totalScore P)

/-- `avg_approval_score` -/
def avgApprovalScore (I : Inst) (P : Profile) : Rat := meanPlain (approvalScores I P)

/-- `median_approval_score` -/
def medianApprovalScore (I : Inst) (P : Profile) : Rat := median (approvalScores I P)

/-- `avg_total_score` -/
def avgTotalScore (I : Inst) (P : Profile) : Rat := meanPlain (totalScores I P)

/-- `median_total_score` -/
def medianTotalScore (I : Inst) (P : Profile) : Rat := median (totalScores I P)

/-- `votes_count_by_project` (repaired form): voters, with multiplicity, whose ballot lists the project -/
def votesCount (P : Profile) (p : Pid) : Nat := sumNat P (fun e => if e.1.mem p then e.2 else 0)

/-- keys of `votes_count_by_project`: projects listed by at least one ballot -/
def votedProjects (I : Inst) (P : Profile) : List Pid :=
  I.projects.filter (fun p => P.any (fun e => e.1.mem p))

/-- `voter_flow_matrix[a][b]` (repaired form): for `a ≠ b` the voters whose ballot lists both, for
    `a = b` the voters whose ballot is exactly `[a]`; with multiplicity -/
def voterFlow (P : Profile) (a b : Pid) : Nat :=
  if a = b then sumNat P (fun e => if e.1.projects.length = 1 ∧ e.1.mem a then e.2 else 0)
  else sumNat P (fun e => if e.1.mem a ∧ e.1.mem b then e.2 else 0)

/-- what `votes_count_by_project` really computes: it iterates the ENTRIES of the profile and adds 1 per
    entry, so a multiprofile's multiplicities are ignored (pinned by the repository's own test; listed as a
    known finding).  On a list profile (all multiplicities 1) it coincides with `votesCount`. -/
def votesCountEntries (P : Profile) (p : Pid) : Nat := sumNat P (fun e => if e.1.mem p then 1 else 0)

/-- what `voter_flow_matrix` really computes (1 per entry) -/
def voterFlowEntries (P : Profile) (a b : Pid) : Nat :=
  if a = b then sumNat P (fun e => if e.1.projects.length = 1 ∧ e.1.mem a then 1 else 0)
  else sumNat P (fun e => if e.1.mem a ∧ e.1.mem b then 1 else 0)

/-! ### instance statistics (`instanceproperties.py`) -/

def costs (I : Inst) : List Rat := I.projects.map I.cost

/-- `sum_project_cost` -/
def sumProjectCost (I : Inst) : Rat := I.totalCost I.projects

/-- `funding_scarcity` -/
def fundingScarcity (I : Inst) : Except Err Rat :=
  if 0 < I.budget then .ok (sumProjectCost I / I.budget) else .error .value

/-- `avg_project_cost` -/
def avgProjectCost (I : Inst) : Except Err Rat :=
  if I.projects.length = 0 then .error .zeroDiv
  else .ok (sumProjectCost I / ((I.projects.length : Nat) : Rat))

/-- `median_project_cost` -/
def medianProjectCost (I : Inst) : Rat := median (costs I)

/-- population variance (the square of `std_dev_project_cost`) -/
def variance (l : List Rat) : Rat :=
  sumOver l (fun c => (c - sumOver l id / ((l.length : Nat) : Rat)) * (c - sumOver l id / ((l.length : Nat) : Rat))) /
    ((l.length : Nat) : Rat)

def varProjectCost (I : Inst) : Rat := variance (costs I)

/-! ### category proportionality (`category.py`) -/

inductive CatRes where
  | err (e : Err)
  | zero                -- empty allocation: the function returns the number 0
  | msd (q : Rat)       -- otherwise it returns `exp(-q)`

/-- cost of the projects of `l` that belong to category `c` -/
def catCost (I : Inst) (K : Pid → List Nat) (c : Nat) (l : List Pid) : Rat :=
  sumOver l (fun p => if (K p).contains c then I.cost p else 0)

/-- share of category `c` in the approved cost, averaged over the voters -/
def ballotShare (I : Inst) (K : Pid → List Nat) (P : Profile) (c : Nat) : Rat :=
  sumOver P (fun e => catCost I K c e.1.projects / costOf I.cost e.1.projects * (e.2 : Rat)) /
    ((P.numBallots : Nat) : Rat)

def allocShare (I : Inst) (K : Pid → List Nat) (W : List Pid) (c : Nat) : Rat :=
  catCost I K c W / costOf I.cost W

/-- mean over the categories of the squared difference of the two shares -/
def meanSquareDiff (I : Inst) (K : Pid → List Nat) (cats : List Nat) (P : Profile) (W : List Pid) : Rat :=
  sumOver cats (fun c => (allocShare I K W c - ballotShare I K P c) * (allocShare I K W c - ballotShare I K P c)) /
    ((cats.length : Nat) : Rat)

/-- `category_proportionality` up to the final `exp(-·)` -/
def categoryProportionality (I : Inst) (K : Pid → List Nat) (cats : List Nat) (P : Profile) (W : List Pid) : CatRes :=
  if cats.length = 0 then .err .value
  else if W.length = 0 then .zero
  else if costOf I.cost W = 0 then .err .zeroDiv
  else if P.any (fun e => decide (costOf I.cost e.1.projects = 0)) then .err .value
  else .msd (meanSquareDiff I K cats P W)

end Pabu.Stats
