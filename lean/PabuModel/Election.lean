/-
  PabuModel.Election — instances, ballots, profiles, instance predicates (pabutools/election/instance.py).
-/
import PabuModel.Basic
namespace Pabu

/-- An instance: the projects (ids), their cost and the budget limit.
    Python's `Instance` is a `set`; the list is the enumeration order handed to the model. -/
structure Inst where
  projects : List Pid
  cost : Pid → Rat
  budget : Rat

inductive Ballot where
  | app (l : List Pid)               -- approval ballot (a set; given name-sorted)
  | card (l : List (Pid × Rat))      -- cardinal / cumulative ballot (a dict)
  | ord (l : List Pid)               -- ordinal ballot (most preferred first)
deriving Repr, BEq, DecidableEq

def Ballot.projects : Ballot → List Pid
  | .app l => l
  | .card l => l.map Prod.fst
  | .ord l => l

def Ballot.mem (b : Ballot) (p : Pid) : Bool := b.projects.contains p

def lookupScore : List (Pid × Rat) → Pid → Rat
  | [], _ => 0
  | (q, s) :: r, p => if q = p then s else lookupScore r p

/-- `ballot.get(p, 0)` for cardinal ballots (0 for other types) -/
def Ballot.score (b : Ballot) (p : Pid) : Rat :=
  match b with
  | .card l => lookupScore l p
  | _ => 0

/-- a profile: (ballot, multiplicity) entries; a list profile has all multiplicities 1 -/
abbrev Profile := List (Ballot × Nat)

def Profile.numBallots (P : Profile) : Nat := sumNat P (fun e => e.2)

/-- approval score of a project (number of voters, with multiplicity, whose ballot contains it) -/
def Profile.approvalScore (P : Profile) (p : Pid) : Nat :=
  sumNat P (fun e => if e.1.mem p then e.2 else 0)

/-! ### Instance predicates -/

def Inst.totalCost (I : Inst) (l : List Pid) : Rat := costOf I.cost l

def Inst.isFeasible (I : Inst) (l : List Pid) : Bool := decide (I.totalCost l ≤ I.budget)

/-- `Instance.is_exhaustive(projects, available_projects)` -/
def Inst.isExhaustiveOver (I : Inst) (avail : List Pid) (l : List Pid) : Bool :=
  avail.all (fun p => l.contains p || !(decide (I.cost p + I.totalCost l ≤ I.budget)))

def Inst.isExhaustive (I : Inst) (l : List Pid) : Bool := I.isExhaustiveOver I.projects l

/-- `Instance.budget_allocations()` as a list of sub-lists -/
def Inst.budgetAllocations (I : Inst) : List (List Pid) :=
  (sublists I.projects).filter I.isFeasible

/-- `Instance.is_trivial()` (repaired form: strict comparison with the cheapest project) -/
def Inst.isTrivial (I : Inst) : Bool :=
  decide (I.totalCost I.projects ≤ I.budget) ||
    (match minRat (I.projects.map I.cost) with
     | none => true
     | some c => decide (I.budget < c))

/-- `max_budget_allocation_cardinality(projects, budget)`: cheapest-first count -/
def cheapestCount (budget : Rat) : Rat → List Rat → Nat
  | _, [] => 0
  | acc, c :: cs => if acc + c > budget then 0 else cheapestCount budget (acc + c) cs + 1

def maxCardinality (cost : Pid → Rat) (l : List Pid) (budget : Rat) : Nat :=
  cheapestCount budget 0 (sortKey id (l.map cost))

/-- brute-force specification of `max_budget_allocation_cost` -/
def maxCostSpec (cost : Pid → Rat) (l : List Pid) (budget : Rat) : Rat :=
  match maxRat (((sublists l).map (costOf cost)).filter (fun c => decide (c ≤ budget))) with
  | none => 0
  | some c => c

/-- brute-force maximum of Σ score over feasible sub-lists -/
def maxScoreSpec (cost : Pid → Rat) (score : Pid → Rat) (l : List Pid) (budget : Rat) : Rat :=
  match maxRat (((sublists l).filter (fun s => decide (costOf cost s ≤ budget))).map (fun s => sumOver s score)) with
  | none => 0
  | some c => c

end Pabu
