/-
  PabuModel.Composition — rule comparison (pabutools/rules/composition.py): given the outcomes of
  several rules, keep the distinct ones and return those that are best.
-/
import PabuModel.Election
namespace Pabu
namespace Composition

/-- distinct outcomes, first occurrences kept.  Outcomes are allocations, i.e. sets of projects: they reach the model as
    sorted id lists, so list equality here is the library's `set(res) != set(other)` test -/
def distinct (rs : List (List Pid)) : List (List Pid) := dedup rs

/-- `social_welfare_comparison`: the distinct outcomes of maximal total satisfaction -/
def welfareCmp (tsat : List Pid → Rat) (rs : List (List Pid)) : List (List Pid) :=
  match maxRat ((distinct rs).map tsat) with
  | none => []
  | some mx => (distinct rs).filter (fun r => decide (tsat r = mx))

/-- the outcomes a voter with satisfaction function `s` likes best (all of them when indifferent) -/
def favourites (s : List Pid → Rat) (rs : List (List Pid)) : List (List Pid) :=
  match maxRat (rs.map s) with
  | none => []
  | some mx => rs.filter (fun r => decide (s r = mx))

/-- number of voters (with multiplicity) for whom `r` is a favourite -/
def support (voters : List ((List Pid → Rat) × Nat)) (rs : List (List Pid)) (r : List Pid) : Nat :=
  sumNat voters (fun v => if (favourites v.1 rs).contains r then v.2 else 0)

def maxNat : List Nat → Nat
  | [] => 0
  | x :: xs => max x (maxNat xs)

/-- `popularity_comparison`: the distinct outcomes supported by the largest number of voters -/
def popularityCmp (voters : List ((List Pid → Rat) × Nat)) (rs : List (List Pid)) : List (List Pid) :=
  (distinct rs).filter (fun r => support voters (distinct rs) r == maxNat ((distinct rs).map (support voters (distinct rs))))

end Composition
end Pabu
