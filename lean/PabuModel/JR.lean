/-
  PabuModel.JR — proportionality checkers (pabutools/analysis/justifiedrepresentation.py,
  pabutools/analysis/cohesiveness.py).

  Two executable readings of every notion:
  * `checker`    — as the code enumerates: groups are sub-lists of the profile's ENTRIES
                   (ballot, multiplicity), the size of a group is the sum of its multiplicities
                   (`sum(profile.multiplicity(b) for b in group)`);
  * `definition` — the textbook quantifier: groups are sub-lists of the EXPANDED voter list, the size
                   of a group is its length.
  A list profile is the special case of all multiplicities 1, where the two coincide literally.
-/
import PabuModel.Sat
namespace Pabu.JR
open Pabu

/-- what a checker reads from one ballot under a fixed satisfaction measure:
    `p in ballot` and `sat.sat_project(p)` (approval) / `ballot[p]` (cardinal) -/
structure Voter where
  app : Pid → Bool
  u : Pid → Rat

/-- the election data a checker reads besides the ballots -/
structure Setting where
  n : Nat                 -- `profile.num_ballots()`
  budget : Rat
  cost : Pid → Rat
  projects : List Pid
  full : Pid → Rat        -- `sat_project` of `ApprovalBallot(instance)` (PJR for approval ballots)

/-- the `up_to_func` argument: `None`, `min(·, default=0)`, `max(·, default=0)` -/
inductive UpTo where
  | none | any | one
deriving Repr, DecidableEq

inductive Kind where
  | core | strong | ejr | pjr
deriving Repr, DecidableEq

def surplus (up : UpTo) (l : List Rat) : Rat :=
  match up with
  | .none => 0
  | .any => (minRat l).getD 0
  | .one => (maxRat l).getD 0

/-- `is_large_enough(group_size, num_voters, projects_cost, budget_limit)` -/
def largeEnough (E : Setting) (size : Nat) (T : List Pid) : Bool :=
  decide (costOf E.cost T * (E.n : Rat) ≤ (size : Rat) * E.budget)

/-- `sat.sat(projects)` for an additive measure -/
def satV (v : Voter) (l : List Pid) : Rat := sumOver l v.u

/-- `[p for p in project_set if p not in budget_allocation]` -/
def missing (W T : List Pid) : List Pid := T.filter (fun p => !(W.contains p))

/-- `min(b[p] for b in group)` -/
def minOver (S : List Voter) (p : Pid) : Rat := (minRat (S.map (fun v => v.u p))).getD 0

/-- `max(b[p] for b in group)` -/
def maxOver (S : List Voter) (p : Pid) : Rat := (maxRat (S.map (fun v => v.u p))).getD 0

/-- every member of the group approves every project of the set -/
def unanimous (S : List Voter) (T : List Pid) : Bool := S.all (fun v => T.all (fun p => v.app p))

/-- which (group, project set) pairs a notion looks at.
    approval: `is_cohesive_approval`; cardinal: `is_cohesive_cardinal` with `alpha = min over the group`
    (its score test can then never fail); core: only the size test and a non-empty group. -/
def adm (E : Setting) (card : Bool) (k : Kind) (size : Nat) (S : List Voter) (T : List Pid) : Bool :=
  match k with
  | .core => largeEnough E size T && !S.isEmpty
  | _ => largeEnough E size T && !S.isEmpty && !T.isEmpty && (card || unanimous S T)

/-- the satisfaction a member of the group is entitled to -/
def threshold (card : Bool) (k : Kind) (S : List Voter) (T : List Pid) (v : Voter) : Rat :=
  match k with
  | .core => satV v T
  | _ => if card then sumOver T (minOver S) else satV v T

/-- `sat(W) + surplus >= threshold` for one voter -/
def voterOk (card : Bool) (k : Kind) (up : UpTo) (W : List Pid) (S : List Voter) (T : List Pid) (v : Voter) : Bool :=
  decide (threshold card k S T v ≤ satV v W + surplus up ((missing W T).map v.u))

/-- `{p for p in budget_allocation if any(p in b for b in group)}` -/
def groupApproved (W : List Pid) (S : List Voter) : List Pid := W.filter (fun p => S.any (fun v => v.app p))

/-- what a notion requires of an admissible pair -/
def good (E : Setting) (card : Bool) (k : Kind) (up : UpTo) (W : List Pid) (S : List Voter) (T : List Pid) : Bool :=
  match k with
  | .core => S.any (voterOk card .core up W S T)
  | .ejr => S.any (voterOk card .ejr up W S T)
  | .strong => S.all (voterOk card .strong .none W S T)
  | .pjr =>
    if card then
      decide (sumOver T (minOver S) ≤ sumOver W (maxOver S) + surplus up ((missing W T).map (maxOver S)))
    else
      decide (sumOver T E.full ≤ sumOver (groupApproved W S) E.full + surplus up ((missing W T).map E.full))

def groupSize (D : List (Voter × Nat)) : Nat := sumNat D (fun e => e.2)

def members (D : List (Voter × Nat)) : List Voter := D.map (fun e => e.1)

/-- the code's double loop `for group in powerset(profile): for project_set in powerset(instance)` over entries -/
def forGroups (M : List (Voter × Nat)) (projects : List Pid)
    (a : Nat → List Voter → List Pid → Bool) (g : List Voter → List Pid → Bool) : Bool :=
  (sublists M).all (fun D => (sublists projects).all (fun T => !(a (groupSize D) (members D) T) || g (members D) T))

/-- the quantifier of the definitions: all groups of individual voters, all project sets -/
def forVoters (V : List Voter) (projects : List Pid)
    (a : Nat → List Voter → List Pid → Bool) (g : List Voter → List Pid → Bool) : Bool :=
  (sublists V).all (fun S => (sublists projects).all (fun T => !(a S.length S T) || g S T))

/-- the voter list a multiprofile stands for -/
def expand : List (Voter × Nat) → List Voter
  | [] => []
  | e :: r => List.replicate e.2 e.1 ++ expand r

/-- the library's checker (`card = false`: `*_approval` with a measure; `card = true`: `*_cardinal`) -/
def checker (E : Setting) (M : List (Voter × Nat)) (card : Bool) (k : Kind) (up : UpTo) (W : List Pid) : Bool :=
  forGroups M E.projects (adm E card k) (good E card k up W)

/-- the definition it is meant to decide -/
def definition (E : Setting) (M : List (Voter × Nat)) (card : Bool) (k : Kind) (up : UpTo) (W : List Pid) : Bool :=
  forVoters (expand M) E.projects (adm E card k) (good E card k up W)

/-- the ten notions in the order core, core-any, core-one, strong-EJR, EJR, EJR-any, EJR-one, PJR, PJR-any, PJR-one -/
def notions : List (Kind × UpTo) :=
  [(.core, .none), (.core, .any), (.core, .one), (.strong, .none),
   (.ejr, .none), (.ejr, .any), (.ejr, .one), (.pjr, .none), (.pjr, .any), (.pjr, .one)]

/-! ### the enumeration of cohesive groups (pabutools/analysis/cohesiveness.py: `cohesive_groups`) -/

/-- `cohesive_groups(instance, profile)`: the double loop `for group in powerset(profile): for project_set in
    powerset(instance)` keeping the pairs that pass `is_cohesive_approval` (approval) / `is_cohesive_cardinal` with
    `alpha = min over the group` (cardinal) — the admissibility test of the EJR-type checkers.  Groups are sub-lists of the
    profile's entries (ballot, multiplicity); their size is the sum of the multiplicities. -/
def cohesiveGroups (E : Setting) (M : List (Voter × Nat)) (card : Bool) : List (List (Voter × Nat) × List Pid) :=
  (sublists M).flatMap (fun D =>
    ((sublists E.projects).filter (fun T => adm E card .ejr (groupSize D) (members D) T)).map (fun T => (D, T)))

/-- the same enumeration over entries that carry a tag (their position in the profile, say): `vo` reads the entry -/
def cohesiveGroupsBy {α : Type} (E : Setting) (card : Bool) (vo : α → Voter × Nat) (M : List α) : List (List α × List Pid) :=
  (sublists M).flatMap (fun D =>
    ((sublists E.projects).filter (fun T => adm E card .ejr (groupSize (D.map vo)) (members (D.map vo)) T)).map (fun T => (D, T)))

end Pabu.JR
