/-
  PabuModel.MaxWelfare — additive utilitarian welfare maximiser (pabutools/rules/maxwelfare.py):
  the primal/dual branch-and-bound in functional form, and the brute-force specification that
  the ILP path is compared with.
-/
import PabuModel.Election
namespace Pabu
namespace Knap

structure Item where
  w : Rat
  p : Rat
deriving Repr

def pw (items : Array Item) (i : Nat) : Rat := (items.getD i ⟨1, 0⟩).w
def pp (items : Array Item) (i : Nat) : Rat := (items.getD i ⟨1, 0⟩).p
/-- efficiency profit/weight (exact) -/
def pe (items : Array Item) (i : Nat) : Rat := pp items i / pw items i

/-- incumbent: best value so far and the item set that attains it -/
abbrev Inc := Rat × Option (List Nat)

def upd (P : Rat) (sol : List Nat) (inc : Inc) : Inc := if P > inc.1 then (P, some sol) else inc

/-- functional form of `primal_dual_branch_impl`: node = (lo, b, mid) with lo = a + 1:
    items below `lo` are in, items from `b` on are out, `mid` lists the chosen items in [lo, b). -/
def pd (items : Array Item) (cap : Rat) : Nat → Nat → Nat → Rat → Rat → List Nat → Inc → Inc
  | 0, _, _, _, _, _, inc => inc
  | f+1, lo, b, P, W, mid, inc =>
    if W ≤ cap then
      if b < items.size then
        if P + (cap - W) * pe items b ≤ (upd P (List.range lo ++ mid) inc).1 then upd P (List.range lo ++ mid) inc
        else pd items cap f lo (b+1) P W mid
              (pd items cap f lo (b+1) (P + pp items b) (W + pw items b) (mid ++ [b]) (upd P (List.range lo ++ mid) inc))
      else upd P (List.range lo ++ mid) inc
    else
      if lo = 0 then inc
      else if P + (cap - W) * pe items (lo - 1) ≤ inc.1 then inc
      else pd items cap f (lo - 1) b P W ((lo - 1) :: mid)
            (pd items cap f (lo - 1) b (P - pp items (lo - 1)) (W - pw items (lo - 1)) mid inc)

/-- split index: length of the longest prefix that fits -/
def splitIdx (items : Array Item) (cap : Rat) : Nat → Rat → Nat
  | i, W => if i < items.size then (if W + pw items i ≤ cap then splitIdx items cap (i+1) (W + pw items i) else i) else i
termination_by i _ => items.size - i

def prefW (items : Array Item) (k : Nat) : Rat := sumOver (List.range k) (pw items)
def prefP (items : Array Item) (k : Nat) : Rat := sumOver (List.range k) (pp items)

/-- `primal_dual_branch(items, capacity)` on items already sorted by efficiency: value and chosen indices -/
def solve (items : Array Item) (cap : Rat) : Inc :=
  pd items cap (2 * items.size + 2) (splitIdx items cap 0 0) (splitIdx items cap 0 0)
    (prefP items (splitIdx items cap 0 0)) (prefW items (splitIdx items cap 0 0)) [] (0, none)

end Knap

namespace MaxWelfare

/-- brute-force optimum of Σ profit over feasible sub-lists of `cands` on top of `init` -/
def optValue (I : Inst) (profit : Pid → Rat) (init : List Pid) : Rat :=
  match maxRat ((((sublists (I.projects.filter (fun p => !init.contains p))).map (fun s => init ++ s)).filter
      I.isFeasible).map (fun s => sumOver s profit)) with
  | none => 0
  | some v => v

/-- all welfare-maximal feasible allocations extending `init` -/
def allOptima (I : Inst) (profit : Pid → Rat) (init : List Pid) : List (List Pid) :=
  (((sublists (I.projects.filter (fun p => !init.contains p))).map (fun s => init ++ s)).filter I.isFeasible).filter
    (fun s => decide (sumOver s profit = optValue I profit init))

/-- `max_additive_utilitarian_welfare_primal_dual_scheme`: `enum` is the order in which the
    implementation meets the projects of the instance (a permutation of them).  Only projects with a positive
    cost and a non-negative total satisfaction become knapsack items (a project of negative total satisfaction
    is never needed in an optimum; the branch-and-bound is only complete for non-negative profits). -/
def primalDual (I : Inst) (profit : Pid → Rat) (init : List Pid) (enum : List Pid) : List Pid :=
  let free := enum.filter (fun p => !init.contains p)
  let zero := free.filter (fun p => decide (I.cost p = 0) && decide (0 < profit p))
  let cands := free.filter (fun p => !decide (I.cost p = 0) && decide (0 ≤ profit p))
  let sorted := sortLe (fun a b => decide (profit b / I.cost b ≤ profit a / I.cost a)) cands
  let items : Array Knap.Item := (sorted.map (fun p => ⟨I.cost p, profit p⟩)).toArray
  let cap := I.budget - costOf I.cost (init ++ zero)
  match (Knap.solve items cap).2 with
  | none => init ++ zero
  | some idx => init ++ zero ++ idx.map (fun i => sorted.getD i 0)

end MaxWelfare
end Pabu
