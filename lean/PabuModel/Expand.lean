/-
  PabuModel.Expand — multiprofile → list profile ("expansion"): every entry with multiplicity `m`
  becomes `m` identical voters of multiplicity 1 (pabutools: `MultiProfile` vs `Profile`,
  `as_multiprofile()` is the inverse direction).  Used by property C06.
  * `Profile.expand`            on profiles;
  * `expandSups`                on the supporter lists swept by Equal Shares;
  * `expandV`, `expandBudget`   on the voter context / budgets of Equal Shares (copies get fresh,
                                consecutive indices; `entryIn` maps a copy back to its entry);
  * `Phragmen.expandC`, `Phragmen.expandLoad`  the same for sequential Phragmén;
  * `VCtx.ofProfile`, `Phragmen.Ctx.ofProfile` the contexts the driver builds from a profile
                                (entry i = position i of the profile), `Profile.entryOf` the map
                                from a voter of `P.expand` back to the entry of `P`;
  * `totalSatOf`, `profitOf`    total satisfaction of a set / of a project (greedy, welfare).
-/
import PabuModel.Sat
import PabuModel.MES
import PabuModel.Phragmen
import PabuModel.Greedy
namespace Pabu

/-- the list profile of a multiprofile: `m` copies `(b, 1)` for every entry `(b, m)` -/
def Profile.expand (P : Profile) : Profile := P.flatMap (fun e => List.replicate e.2 (e.1, 1))

/-- supporter entries → single supporters -/
def expandSups (l : List Sup) : List Sup := l.flatMap (fun s => List.replicate s.m { s with m := 1 })

/-- the entry of every copy, in order: entry `i` is listed `m i` times -/
def expandIdx (m : Nat → Nat) (vs : List Nat) : List Nat := vs.flatMap (fun i => List.replicate (m i) i)

/-- copies are numbered consecutively (first the `m i₀` copies of the first entry, …);
    `entryIn m vs c` is the entry that copy number `c` belongs to -/
def entryIn (m : Nat → Nat) : List Nat → Nat → Nat
  | [], _ => 0
  | i :: r, c => if c < m i then i else entryIn m r (c - m i)

/-- the voter context in which every copy is a voter of its own (multiplicity 1, fresh index) -/
def expandV (V : VCtx) : VCtx :=
  { vs := List.range (sumNat V.vs V.m)
    m := fun _ => 1
    u := fun c p => V.u (entryIn V.m V.vs c) p }

/-- budgets of the copies: every copy holds what its entry holds (per copy) -/
def expandBudget (V : VCtx) (b : Nat → Rat) : Nat → Rat := fun c => b (entryIn V.m V.vs c)

def MES.expandState (V : VCtx) (s : MES.State) : MES.State :=
  { b := expandBudget V s.b, pool := s.pool, alloc := s.alloc }

namespace Phragmen

def expandC (C : Ctx) : Ctx :=
  { vs := List.range (sumNat C.vs C.m)
    m := fun _ => 1
    app := fun c p => C.app (entryIn C.m C.vs c) p
    cost := C.cost
    budget := C.budget }

def expandLoad (C : Ctx) (load : Nat → Rat) : Nat → Rat := fun c => load (entryIn C.m C.vs c)

def expandState (C : Ctx) (s : State) : State :=
  { load := expandLoad C s.load, pool := s.pool, alloc := s.alloc, spent := s.spent }

end Phragmen

/-! ### Contexts built from a profile (what the driver does) -/

/-- position in `P` of the entry that voter number `c` of `P.expand` is a copy of -/
def Profile.entryOf : Profile → Nat → Nat
  | [], _ => 0
  | e :: r, c => if c < e.2 then 0 else Profile.entryOf r (c - e.2) + 1

/-- Equal Shares voters of a profile under measure `μ`: entry `i` is position `i` of the profile -/
def VCtx.ofProfile (μ : Measure) (I : Inst) (P : Profile) : VCtx :=
  { vs := List.range P.length
    m := fun i => (P[i]?.map Prod.snd).getD 0
    u := fun i p => match P[i]? with
      | some e => satProject μ I P e.1 p
      | none => 0 }

def Phragmen.Ctx.ofProfile (I : Inst) (P : Profile) : Phragmen.Ctx :=
  { vs := List.range P.length
    m := fun i => (P[i]?.map Prod.snd).getD 0
    app := fun i p => (P[i]?.map (fun e => e.1.mem p)).getD false
    cost := I.cost
    budget := I.budget }

/-- `total_satisfaction` of a project set: Σ multiplicity × sat -/
def totalSatOf (μ : Measure) (I : Inst) (P : Profile) : List Pid → Rat :=
  fun l => sumOver P (fun e => ((e.2 : Nat) : Rat) * sat μ I P e.1 l)

/-- total satisfaction of a single project (score of the additive greedy path, profit of the
    welfare maximiser) -/
def profitOf (μ : Measure) (I : Inst) (P : Profile) : Pid → Rat :=
  fun p => sumOver P (fun e => ((e.2 : Nat) : Rat) * satProject μ I P e.1 p)

/-- the same, written over a voter context (as the driver computes it) -/
def VCtx.score (V : VCtx) : Pid → Rat :=
  fun p => sumOver V.vs (fun i => (V.m i : Rat) * V.u i p)

end Pabu
