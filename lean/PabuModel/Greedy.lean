/-
  PabuModel.Greedy — greedy utilitarian welfare (pabutools/rules/greedywelfare/greedywelfare_rule.py).
-/
import PabuModel.RoundRule
namespace Pabu
namespace Greedy

/-- the general path: state = still-fitting projects (name order) and the allocation so far -/
structure State where
  feasible : List Pid
  alloc : List Pid

/-- marginal total satisfaction per unit of cost of adding `p`; `none` = +∞ (zero cost) -/
def marginal (tsat : List Pid → Rat) (cost : Pid → Rat) (alloc : List Pid) (p : Pid) : ERat :=
  if 0 < cost p then some ((tsat (alloc ++ [p]) - tsat alloc) / cost p) else none

/-- maximum of a non-empty list of extended rationals (`none` = +∞) -/
def emax : List ERat → ERat
  | [] => some 0
  | [x] => x
  | x :: xs => if ERat.le (emax xs) x then x else emax xs

def tied (tsat : List Pid → Rat) (cost : Pid → Rat) (s : State) : List Pid :=
  s.feasible.filter (fun p => marginal tsat cost s.alloc p == emax (s.feasible.map (marginal tsat cost s.alloc)))

def buy (I : Inst) (s : State) (t : Pid) : State :=
  { feasible := s.feasible.filter (fun p => p != t && decide (costOf I.cost (s.alloc ++ [t]) + I.cost p ≤ I.budget))
    alloc := s.alloc ++ [t] }

def rule (tsat : List Pid → Rat) (I : Inst) : RoundRule State where
  pool := fun s => s.feasible
  tied := tied tsat I.cost
  buy := buy I
  out := fun s => s.alloc

def initState (I : Inst) (init : List Pid) : State :=
  { feasible := (sortIds I.projects).filter
      (fun p => !init.contains p && decide (costOf I.cost init + I.cost p ≤ I.budget))
    alloc := init }

/-- `greedy_utilitarian_scheme`, resolute -/
def general (tsat : List Pid → Rat) (I : Inst) (init : List Pid) (order : List Pid → Except Err (List Pid)) :
    Except Err (List Pid) :=
  (rule tsat I).run order (initState I init).feasible.length (initState I init)

/-- `greedy_utilitarian_scheme`, irresolute -/
def generalAll (tsat : List Pid → Rat) (I : Inst) (init : List Pid) (order : List Pid → Except Err (List Pid)) :
    Except Err (List (List Pid)) :=
  ((rule tsat I).runAll order (initState I init).feasible.length (initState I init)).map canonOutcomes

/-! ### The additive fast path -/

/-- density of the fast path: sat/cost, +∞ for supported zero-cost projects, 0 for unsupported ones -/
def density (score : Pid → Rat) (cost : Pid → Rat) (p : Pid) : ERat :=
  if 0 < score p then (if 0 < cost p then some (score p / cost p) else none) else some 0

/-- single pass over the ordered projects with the remaining budget -/
def pass (cost : Pid → Rat) : Rat → List Pid → List Pid
  | _, [] => []
  | rem, p :: ps => if cost p ≤ rem then p :: pass cost (rem - cost p) ps else pass cost rem ps

/-- `greedy_utilitarian_scheme_additive`, resolute: tie order, then stable sort by decreasing density -/
def additive (score : Pid → Rat) (I : Inst) (init : List Pid) (order : List Pid → Except Err (List Pid)) :
    Except Err (List Pid) :=
  match order ((sortIds I.projects).filter (fun p => !init.contains p)) with
  | .error e => .error e
  | .ok ps =>
    .ok (init ++ pass I.cost (I.budget - costOf I.cost init)
      (sortLe (fun a b => ERat.le (density score I.cost b) (density score I.cost a)) ps))

/-! ### `analytics=True` on the fast path: `GreedyWelfareAllocationDetails` -/

/-- the same pass, recording for every project it meets whether it was taken and, if so, the budget left afterwards
    (`mark_as_selected(project, remaining_budget)`; a project that is not taken keeps `discarded = True`, `remaining_budget = None`) -/
def passTrace (cost : Pid → Rat) : Rat → List Pid → List (Pid × Option Rat)
  | _, [] => []
  | rem, p :: ps =>
    if cost p ≤ rem then (p, some (rem - cost p)) :: passTrace cost (rem - cost p) ps
    else (p, none) :: passTrace cost rem ps

def lookupTrace (t : List (Pid × Option Rat)) (p : Pid) : Option Rat :=
  match t.find? (fun e => e.1 == p) with
  | some e => e.2
  | none => none

/-- one entry of `details.projects`: the project, its `score` (the density), and `remaining_budget` (`none` = discarded) -/
structure ProjectDetails where
  project : Pid
  score : ERat
  remaining : Option Rat

/-- `selection.details.projects` of the resolute fast path: one entry per project outside the initial allocation, in the
    order of the TIE-BREAKING rule (not in the order of the pass) -/
def additiveDetails (score : Pid → Rat) (I : Inst) (init : List Pid) (order : List Pid → Except Err (List Pid)) :
    Except Err (List ProjectDetails) :=
  match order ((sortIds I.projects).filter (fun p => !init.contains p)) with
  | .error e => .error e
  | .ok ps =>
    .ok (ps.map (fun p => ⟨p, density score I.cost p,
      lookupTrace (passTrace I.cost (I.budget - costOf I.cost init)
        (sortLe (fun a b => ERat.le (density score I.cost b) (density score I.cost a)) ps)) p⟩))

end Greedy
end Pabu
