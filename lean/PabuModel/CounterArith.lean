/-
  PabuModel.CounterArith — the arithmetic of `collections.Counter` that every multiprofile inherits, and the wrapper
  (`_wrap_methods`) that rebuilds — and thereby re-validates — its result.

  A counter is a dict in insertion order: a list of (key, count) with distinct keys; counts are arbitrary integers
  (`update`, `subtract` and `__setitem__` may store zero and negative counts; `c[x]` of a missing key is 0 and does not
  insert).  The four binary operators and the two unary ones are CPython's (Lib/collections/__init__.py):

      __add__   for elem, count in self.items():  newcount = count + other[elem];  kept if newcount > 0
                for elem, count in other.items(): if elem not in self and count > 0: kept
      __sub__   …  newcount = count - other[elem];  kept if > 0
                for elem, count in other.items(): if elem not in self and count < 0: result[elem] = 0 - count
      __or__    …  newcount = other_count if count < other_count else count;  kept if > 0;  second loop as in __add__
      __and__   for elem, count in self.items(): newcount = count if count < other_count else other_count;  kept if > 0
      __pos__   the entries with a positive count;   __neg__   the entries with a negative count, negated

  `wrapped valid op` is what a multiprofile method installed by `_wrap_methods` does: the operator of the base class, then
  `cls(result, …, ballot_validation=…)`, whose constructor refuses (TypeError) a key that is not of the ballot type.
-/
import PabuModel.Basic
namespace Pabu
namespace CounterArith

abbrev Counter (α : Type) := List (α × Int)

variable {α : Type} [DecidableEq α]

def keys (c : Counter α) : List α := c.map Prod.fst

/-- `elem in c` -/
def has (c : Counter α) (x : α) : Bool := c.any (fun e => decide (e.1 = x))

/-- `c[elem]` (0 for a missing key) -/
def get (c : Counter α) (x : α) : Int :=
  match c.find? (fun e => decide (e.1 = x)) with
  | some e => e.2
  | none => 0

def keepPos (x : α) (m : Int) : Option (α × Int) := if 0 < m then some (x, m) else none

def add (a b : Counter α) : Counter α :=
  a.filterMap (fun e => keepPos e.1 (e.2 + get b e.1)) ++
  b.filterMap (fun e => if !has a e.1 && decide (0 < e.2) then some (e.1, e.2) else none)

def sub (a b : Counter α) : Counter α :=
  a.filterMap (fun e => keepPos e.1 (e.2 - get b e.1)) ++
  b.filterMap (fun e => if !has a e.1 && decide (e.2 < 0) then some (e.1, 0 - e.2) else none)

def union (a b : Counter α) : Counter α :=
  a.filterMap (fun e => keepPos e.1 (if e.2 < get b e.1 then get b e.1 else e.2)) ++
  b.filterMap (fun e => if !has a e.1 && decide (0 < e.2) then some (e.1, e.2) else none)

def inter (a b : Counter α) : Counter α :=
  a.filterMap (fun e => keepPos e.1 (if e.2 < get b e.1 then e.2 else get b e.1))

def pos (a : Counter α) : Counter α := a.filterMap (fun e => keepPos e.1 e.2)

def neg (a : Counter α) : Counter α := a.filterMap (fun e => if e.2 < 0 then some (e.1, 0 - e.2) else none)

/-- the constructor with validation on: every key must be of the ballot type -/
def validate (valid : α → Bool) (c : Counter α) : Except Err (Counter α) :=
  if (keys c).all valid then .ok c else .error .type

/-- a binary method installed by `_wrap_methods` -/
def wrapped (valid : α → Bool) (op : Counter α → Counter α → Counter α) (a b : Counter α) : Except Err (Counter α) :=
  validate valid (op a b)

/-- the SAME method without the re-validation (seeded change C17-r6A: "the result only holds ballots of self") -/
def unwrapped (op : Counter α → Counter α → Counter α) (a b : Counter α) : Except Err (Counter α) := .ok (op a b)

end CounterArith
end Pabu
