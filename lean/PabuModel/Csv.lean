/-
  PabuModel.Csv — executable model of the TEXT layer of `pabutools/election/pabulib.py`: the `csv` reader
  and writer exactly as that file configures them (CPython 3.12 `Modules/_csv.c`).  No Mathlib import.

  reading   `csv.reader(io.StringIO(file_content, newline=""), delimiter=";")`
            dialect: delimiter `;`, quotechar `"`, doublequote, no escapechar, skipinitialspace False,
            strict False, quoting QUOTE_MINIMAL; `csv.field_size_limit()` = 131072.
            The reader is fed the *lines* of the text with their line endings; `io.StringIO(…, newline="")`
            ends a line after `\n`, after `\r\n`, after a `\r` that is not followed by `\n`, and at the end
            of the text.  After the characters of a line the reader processes the pseudo character EOL.
            `run` below walks over the characters of the whole text and inserts EOL at those places
            (`eolAfter`), so the state machine is the one of `parse_process_char` (states START_RECORD,
            START_FIELD, IN_FIELD, IN_QUOTED_FIELD, QUOTE_IN_QUOTED_FIELD, EAT_CRNL; the three ESCAPE
            states are unreachable without an escapechar) and the record logic is `Reader_iternext`
            (a record is yielded whenever EOL leaves the machine in START_RECORD; at the end of the input
            a record that is still inside a quoted field is yielded as it is).
  writing   `csv.writer(io.StringIO(), delimiter=";", lineterminator="\n")` (QUOTE_MINIMAL, doublequote):
            a field is quoted iff it contains `;`, `"` or a character of the line terminator (`\n`);
            3.12 does *not* quote a field because of `\r`.  Quotes are doubled.  A row whose only field is
            empty is written `""`; the empty row is the empty line.

  Errors of the reader (`_csv.Error`): a field longer than the field size limit; a character other than
  `\r`, `\n` after the end of an unquoted line inside the same line (unreachable when the lines come from
  `io.StringIO(…, newline="")`, kept so that the machine is the one of the C code).

  `splitlinesPy` / `csvReadSplitlines` model the reading the library used before (`csv.reader(
  file_content.splitlines(), delimiter=";")`): lines without their endings, ten line-break characters.
  It is kept to state precisely (Properties/C11Csv) what that reading lost.
-/
import PabuModel.Pabulib
namespace Pabu.Csv
open Pabu.Pabulib

inductive Mode where
  | startRecord | startField | inField | inQuoted | quoteInQuoted | eatCrnl
deriving Repr, DecidableEq

inductive CsvErr where
  | fieldLimit      -- "field larger than field limit (131072)"
  | newline         -- "new-line character seen in unquoted field …"
deriving Repr, DecidableEq

/-- reader state: `fields` and `cur` are reversed; `len` = `field_len`; `rows` = the records yielded so far
    (reversed) -/
structure RSt where
  mode : Mode := .startRecord
  fields : List Str := []
  cur : Str := []
  len : Nat := 0
  rows : List (List Str) := []
deriving Repr, DecidableEq

/-- `csv.field_size_limit()` -/
def fieldLimit : Nat := 131072

abbrev delim : Char := ';'
abbrev quote : Char := '"'
def isNl (c : Char) : Bool := c == '\n' || c == '\r'

/-- `parse_add_char` -/
def addChar (lim : Nat) (s : RSt) (m : Mode) (c : Char) : Except CsvErr RSt :=
  if lim ≤ s.len then .error .fieldLimit
  else .ok { s with mode := m, cur := c :: s.cur, len := s.len + 1 }

/-- `parse_save_field` followed by a state change -/
def saveField (s : RSt) (m : Mode) : RSt :=
  { s with mode := m, fields := s.cur.reverse :: s.fields, cur := [], len := 0 }

/-- START_FIELD on a real character -/
def stepStartField (lim : Nat) (s : RSt) (c : Char) : Except CsvErr RSt :=
  if isNl c then .ok (saveField s .eatCrnl)
  else if c = quote then .ok { s with mode := .inQuoted }
  else if c = delim then .ok (saveField s .startField)
  else addChar lim s .inField c

/-- `parse_process_char` on a real character -/
def stepChar (lim : Nat) (s : RSt) (c : Char) : Except CsvErr RSt :=
  match s.mode with
  | .startRecord => if isNl c then .ok { s with mode := .eatCrnl } else stepStartField lim s c
  | .startField => stepStartField lim s c
  | .inField =>
    if isNl c then .ok (saveField s .eatCrnl)
    else if c = delim then .ok (saveField s .startField)
    else addChar lim s .inField c
  | .inQuoted =>
    if c = quote then .ok { s with mode := .quoteInQuoted }
    else addChar lim s .inQuoted c
  | .quoteInQuoted =>
    if c = quote then addChar lim s .inQuoted c
    else if c = delim then .ok (saveField s .startField)
    else if isNl c then .ok (saveField s .eatCrnl)
    else addChar lim s .inField c
  | .eatCrnl => if isNl c then .ok s else .error .newline

/-- the record is complete: `Reader_iternext` returns `fields`, the next call starts with `parse_reset` -/
def yieldRow (s : RSt) : RSt :=
  { mode := .startRecord, fields := [], cur := [], len := 0, rows := s.fields.reverse :: s.rows }

/-- `parse_process_char` on EOL, and the loop test `while (self->state != START_RECORD)` -/
def stepEol (s : RSt) : RSt :=
  match s.mode with
  | .startRecord => yieldRow s
  | .startField => yieldRow (saveField s .startRecord)
  | .inField => yieldRow (saveField s .startRecord)
  | .inQuoted => s
  | .quoteInQuoted => yieldRow (saveField s .startRecord)
  | .eatCrnl => yieldRow s

/-- does a line of `io.StringIO(text, newline="")` end after `c` (the rest of the text being `rest`)? -/
def eolAfter (c : Char) (rest : List Char) : Bool :=
  c == '\n' || (c == '\r' && rest.head? != some '\n') || rest.isEmpty

def afterChar (s : RSt) (c : Char) (rest : List Char) : RSt :=
  if eolAfter c rest then stepEol s else s

/-- the reader over the characters of the text; stops at the first error, keeping what was yielded before -/
def run (lim : Nat) : RSt → List Char → RSt × Option CsvErr
  | s, [] => (s, none)
  | s, c :: rest =>
    match stepChar lim s c with
    | .error e => (s, some e)
    | .ok s' => run lim (afterChar s' c rest) rest

/-- end of the input: a record that is still open (inside a quoted field) is yielded -/
def finishRows (s : RSt) : List (List Str) :=
  if s.mode = .inQuoted ∨ s.len ≠ 0 then ((s.cur.reverse :: s.fields).reverse :: s.rows).reverse
  else s.rows.reverse

/-- rows the `for row in reader` loop receives, and the error that ends it (if any) -/
def csvReadL (lim : Nat) (text : List Char) : List (List Str) × Option CsvErr :=
  match run lim {} text with
  | (s, some e) => (s.rows.reverse, some e)
  | (s, none) => (finishRows s, none)

def csvReadE (text : List Char) : List (List Str) × Option CsvErr := csvReadL fieldLimit text

def csvRead (text : List Char) : List (List Str) := (csvReadE text).1

/-! ## the writer -/

/-- QUOTE_MINIMAL with `delimiter=";"`, `lineterminator="\n"` -/
def needsQuote (f : Str) : Bool := f.any (fun c => c == delim || c == quote || c == '\n')

def doubleQuotes : Str → Str
  | [] => []
  | c :: r => if c = quote then quote :: quote :: doubleQuotes r else c :: doubleQuotes r

def writeField (f : Str) : Str :=
  if needsQuote f then quote :: (doubleQuotes f ++ [quote]) else f

/-- the fields separated by the delimiter (`join_append` for every field) -/
def writeFields : List Str → Str
  | [] => []
  | [f] => writeField f
  | f :: g :: r => writeField f ++ delim :: writeFields (g :: r)

/-- `writerow`: a record that would be empty although it has a field is written as `""` -/
def writeRow (row : List Str) : Str :=
  if row = [[]] then [quote, quote] else writeFields row

def csvWrite : List (List Str) → List Char
  | [] => []
  | r :: rs => writeRow r ++ '\n' :: csvWrite rs

/-! ## what round-trips -/

/-- a field the writer/reader pair carries: not longer than the field size limit, and a `\r` only together
    with a character that makes the writer quote the field -/
def FieldOK (lim : Nat) (f : Str) : Bool := decide (f.length ≤ lim) && (!f.contains '\r' || needsQuote f)

def RowsOKL (lim : Nat) (rows : List (List Str)) : Bool := rows.all (fun r => r.all (FieldOK lim))

def RowsOK (rows : List (List Str)) : Bool := RowsOKL fieldLimit rows

/-! ## the text level of the Pabulib functions -/

inductive TErr where
  | csv (e : CsvErr)      -- `_csv.Error` raised by the reader inside the `for row in reader` loop / `next(reader)`
  | parse (e : PErr)      -- the exception classes of the row level
deriving Repr, DecidableEq

/-- `election_as_pabulib_string` -/
def writeText (e : Election) : List Char := csvWrite (writeRows e)

/-- what the parser does when the reader raises after having delivered `rows`: an exception of an earlier row
    comes first; a section line waiting for its header (`next(reader)`) gets the reader's exception -/
def parseBroken (rows : List (List Str)) (e : CsvErr) : TErr :=
  match Pabulib.run {} rows with
  | .error .stop => .csv e
  | .error pe => .parse pe
  | .ok _ => .csv e

/-- `parse_pabulib_from_string` -/
def parseText (text : List Char) : Except TErr Election :=
  match csvReadE text with
  | (rows, some e) => .error (parseBroken rows e)
  | (rows, none) =>
    match parseRows rows with
    | .error pe => .error (.parse pe)
    | .ok el => .ok el

/-! ## the former reading: `csv.reader(file_content.splitlines(), delimiter=";")` -/

/-- the line boundaries of `str.splitlines` -/
def isLineBreak (c : Char) : Bool :=
  c == '\n' || c == '\r' || c.toNat == 0x0b || c.toNat == 0x0c || c.toNat == 0x1c || c.toNat == 0x1d ||
  c.toNat == 0x1e || c.toNat == 0x85 || c.toNat == 0x2028 || c.toNat == 0x2029

/-- `str.splitlines()` (no line endings kept; `\r\n` is one boundary; no empty last line);
    `afterCr`: the previous character was a `\r` boundary -/
def splitlinesAux : Bool → Str → List Char → List Str
  | _, cur, [] => if cur = [] then [] else [cur.reverse]
  | afterCr, cur, c :: rest =>
    if afterCr && c == '\n' then splitlinesAux false cur rest
    else if isLineBreak c then cur.reverse :: splitlinesAux (c == '\r') [] rest
    else splitlinesAux false (c :: cur) rest

def splitlinesPy (text : List Char) : List Str := splitlinesAux false [] text

/-- the reader over lines that do not carry their line ending: the characters of the line, then EOL -/
def runLine (lim : Nat) : RSt → List Char → RSt × Option CsvErr
  | s, [] => (stepEol s, none)
  | s, c :: rest =>
    match stepChar lim s c with
    | .error e => (s, some e)
    | .ok s' => runLine lim s' rest

def runLines (lim : Nat) : RSt → List Str → RSt × Option CsvErr
  | s, [] => (s, none)
  | s, l :: ls =>
    match runLine lim s l with
    | (s', some e) => (s', some e)
    | (s', none) => runLines lim s' ls

def csvReadSplitlines (text : List Char) : List (List Str) × Option CsvErr :=
  match runLines fieldLimit {} (splitlinesPy text) with
  | (s, some e) => (s.rows.reverse, some e)
  | (s, none) => (finishRows s, none)

end Pabu.Csv
