/-
  PabuModel.Effects — caller-visible write summaries of the public entry points (C20).

  `Gen/Effects.lean` (regenerated from the sources by harness/translate_effects.py) lists, per public rule /
  analysis / measure function, every statement that may write to an object reachable from one of the caller's
  arguments.  The effect model: the caller's environment maps each parameter to the *version* of the object passed
  for it; executing a write site bumps the version of its parameter; a call executes all of its write sites
  (an over-approximation: every site is assumed to be reached).
-/
namespace Pabu.Effects

structure WriteSite where
  param : String
  kind : String      -- subscript-store | attr-store:<attr> | augassign | aug-… | delete | method:<name> | call
  line : Nat
  via : String       -- for kind = call: callee.parameter
deriving Repr, DecidableEq

structure EntryEffects where
  name : String
  module : String
  params : List String
  writes : List WriteSite
deriving Repr

/-- the one write the property excludes: `calculate_effective_supports(..., final_budget=…)` is specified to replace
    the budget limit of the instance it is given -/
def allowed : List (String × String × String) :=
  [("calculate_effective_supports", "instance", "attr-store:budget_limit")]

def EntryEffects.visible (e : EntryEffects) : List WriteSite :=
  e.writes.filter (fun w => !(allowed.contains (e.name, w.param, w.kind)))

def EntryEffects.clean (e : EntryEffects) : Bool := e.visible.isEmpty

/-- caller environment: parameter name ↦ version of the object bound to it -/
abbrev Env := String → Nat

def bump (env : Env) (p : String) : Env := fun q => if q = p then env q + 1 else env q

def applyWrites (ws : List WriteSite) (env : Env) : Env := ws.foldl (fun e w => bump e w.param) env

/-- the effect of one call on the caller's environment -/
def call (e : EntryEffects) (env : Env) : Env := applyWrites e.writes env

/-- several calls sharing the same objects -/
def callSeq (es : List EntryEffects) (env : Env) : Env := es.foldl (fun v e => call e v) env

end Pabu.Effects
