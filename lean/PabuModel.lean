import PabuModel.Basic
import PabuModel.Election
import PabuModel.Sat
import PabuModel.RoundRule
import PabuModel.MES
import PabuModel.Greedy
import PabuModel.Phragmen
import PabuModel.MaxWelfare
