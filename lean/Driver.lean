import Driver.Proto
import Driver.Rules
