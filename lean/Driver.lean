import Driver.Proto
import Driver.Rules
import Driver.Exhaust
import Driver.Compose
import Driver.Stats
