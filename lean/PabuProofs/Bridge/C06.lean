/-
  Bridge C06 — the regenerated leaf formulas about multiplicities (Gen/C06.lean, produced on every run from the
  current source of pabutools/election/profile/profile.py, profile/approvalprofile.py,
  satisfaction/satisfactionprofile.py and satisfaction/satisfactionmeasure.py) are the formulas of the model
  (PabuModel/Election.lean, PabuModel/Expand.lean): a list profile counts every ballot once, a multiprofile
  returns the stored count, the approval score adds the multiplicity of every ballot containing the project,
  and total satisfaction weights every voter's satisfaction with its multiplicity.
-/
import Gen.C06
import PabuModel.Expand
import PabuProofs.Properties.C06
import Mathlib.Tactic.Ring
import Mathlib.Tactic.NormNum
import Mathlib.Algebra.Order.Field.Rat
namespace Pabu.Bridge.C06
open Pabu

/-- `Profile.multiplicity` / `SatisfactionProfile.multiplicity` return 1: every entry of the list profile a
    multiprofile stands for has that multiplicity -/
theorem listMultiplicity (P : Profile) (e : Ballot × Nat) (he : e ∈ P.expand) :
    ((e.2 : Nat) : Rat) = Gen.C06.listMultiplicity ∧ ((e.2 : Nat) : Rat) = Gen.C06.satListMultiplicity := by
  have h := (Pabu.C06.expand_is_list P).1 e he
  unfold Gen.C06.listMultiplicity Gen.C06.satListMultiplicity
  rw [h]
  norm_num

/-- `MultiProfile.multiplicity` / `SatisfactionMultiProfile.multiplicity` return the stored count: the second
    component of the model's entry -/
theorem multiMultiplicity (e : Ballot × Nat) :
    Gen.C06.multiMultiplicity ((e.2 : Nat) : Rat) = ((e.2 : Nat) : Rat) ∧
    Gen.C06.satMultiMultiplicity ((e.2 : Nat) : Rat) = ((e.2 : Nat) : Rat) := ⟨rfl, rfl⟩

/-- `approval_score = 0` before the loop -/
theorem approvalScoreInit (p : Pid) :
    ((Profile.approvalScore [] p : Nat) : Rat) = Gen.C06.approvalScoreInit := by
  unfold Gen.C06.approvalScoreInit Profile.approvalScore sumNat
  norm_num

/-- one ballot of the loop of `approval_score`: `if project in ballot: approval_score += self.multiplicity(ballot)` -/
theorem approvalScoreUpdate (e : Ballot × Nat) (P : Profile) (p : Pid) :
    ((Profile.approvalScore (e :: P) p : Nat) : Rat) =
      if Gen.C06.approves (e.1.mem p) = true then
        Gen.C06.approvalScoreUpdate ((Profile.approvalScore P p : Nat) : Rat) (Gen.C06.multiMultiplicity ((e.2 : Nat) : Rat))
      else ((Profile.approvalScore P p : Nat) : Rat) := by
  unfold Profile.approvalScore Gen.C06.approves Gen.C06.approvalScoreUpdate Gen.C06.multiMultiplicity
  rw [sumNat]
  by_cases h : e.1.mem p = true
  · rw [if_pos h, if_pos h]
    push_cast
    ring
  · rw [if_neg h, if_neg h]
    simp

/-- `approval_score` as a WHOLE (statement-level leaf `Gen.C06.approvalScoreFn`: `approval_score = 0`, the loop over the ballots, the
    `return`): on the entries of a (multi)profile — does the ballot hold the project, the multiplicity of the ballot — it is the
    model's approval score -/
theorem approvalScoreFn (P : Profile) (p : Pid) :
    ((Profile.approvalScore P p : Nat) : Rat) = Gen.C06.approvalScoreFn (P.map (fun e => (e.1.mem p, ((e.2 : Nat) : Rat)))) := by
  unfold Gen.C06.approvalScoreFn
  have key : ∀ (Q : Profile) (acc : Rat),
      Gen.C06.approvalScoreFnLoop acc (Q.map (fun e => (e.1.mem p, ((e.2 : Nat) : Rat)))) = acc + ((Profile.approvalScore Q p : Nat) : Rat) := by
    intro Q
    induction Q with
    | nil => intro acc; simp [Gen.C06.approvalScoreFnLoop, Profile.approvalScore, sumNat]
    | cons e Q ih =>
      intro acc
      rw [List.map_cons, Gen.C06.approvalScoreFnLoop]
      unfold Profile.approvalScore at ih ⊢
      rw [sumNat]
      by_cases h : e.1.mem p = true
      · simp only [h, if_true]
        rw [ih]
        push_cast
        ring
      · simp only [h, if_false, Bool.false_eq_true]
        rw [ih]
        simp
  have := key P 0
  simp only [zero_add] at this
  exact this.symm

/-- `total_satisfaction`: `sum(sat.sat(projects) * self.multiplicity(sat) for sat in self)` -/
theorem totalSatSummand (μ : Measure) (I : Inst) (P : Profile) (l : List Pid) :
    totalSatOf μ I P l =
      sumOver P (fun e => Gen.C06.totalSatSummand (sat μ I P e.1 l) (Gen.C06.satMultiMultiplicity ((e.2 : Nat) : Rat))) := by
  unfold totalSatOf Gen.C06.totalSatSummand Gen.C06.satMultiMultiplicity
  congr 1
  funext e
  ring

/-- `total_satisfaction_project`: `sum(sat.sat_project(project) * self.multiplicity(sat) for sat in self)` -/
theorem totalSatProjectSummand (μ : Measure) (I : Inst) (P : Profile) (p : Pid) :
    profitOf μ I P p =
      sumOver P (fun e => Gen.C06.totalSatProjectSummand (satProject μ I P e.1 p) (Gen.C06.satMultiMultiplicity ((e.2 : Nat) : Rat))) := by
  unfold profitOf Gen.C06.totalSatProjectSummand Gen.C06.satMultiMultiplicity
  congr 1
  funext e
  ring

/-- the multiplicity the Equal Shares / Phragmén contexts of a profile give voter `i` is the stored count -/
theorem ofProfile_multiplicity (μ : Measure) (I : Inst) (P : Profile) (i : Nat) (h : i < P.length) :
    (((VCtx.ofProfile μ I P).m i : Nat) : Rat) = Gen.C06.multiMultiplicity (((P[i]).2 : Nat) : Rat) ∧
    (((Phragmen.Ctx.ofProfile I P).m i : Nat) : Rat) = Gen.C06.multiMultiplicity (((P[i]).2 : Nat) : Rat) := by
  unfold VCtx.ofProfile Phragmen.Ctx.ofProfile Gen.C06.multiMultiplicity
  simp [h]

example : Gen.C06.approvalScoreUpdate 2 3 = 5 ∧ Gen.C06.totalSatSummand 2 3 = 6 := by
  norm_num [Gen.C06.approvalScoreUpdate, Gen.C06.totalSatSummand]

end Pabu.Bridge.C06
