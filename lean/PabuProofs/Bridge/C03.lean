/-
  Bridge C03 — the regenerated leaf formulas of the greedy utilitarian rule (Gen/C03.lean, produced from the
  current source of pabutools/rules/greedywelfare/greedywelfare_rule.py on every run) are the formulas of the
  model (PabuModel/Greedy.lean): marginal score per cost, the two fit tests of the general path, the density
  and the single pass of the additive fast path.
-/
import Gen.C03
import PabuModel.Greedy
import Mathlib.Tactic.Ring
import Mathlib.Algebra.Order.Field.Rat
namespace Pabu.Bridge.C03
open Pabu

/-! ### general path -/

/-- `total_marginal_score`: `frac(sat(new_alloc) − sat(alloc), cost)` if `project.cost > 0`, else `inf` -/
theorem marginal (tsat : List Pid → Rat) (cost : Pid → Rat) (alloc : List Pid) (p : Pid) :
    Greedy.marginal tsat cost alloc p =
      if Gen.C03.hasPositiveCost (cost p) = true then
        some (Gen.C03.marginal (tsat (alloc ++ [p])) (tsat alloc) (cost p))
      else none := by
  unfold Greedy.marginal Gen.C03.hasPositiveCost Gen.C03.marginal
  simp only [gt_iff_lt, decide_eq_true_eq]

/-- `project != selected_project and new_cost + project.cost <= instance.budget_limit` -/
theorem stillFits (I : Inst) (s : Greedy.State) (t : Pid) :
    Greedy.buy I s t =
      { feasible := s.feasible.filter (fun p =>
          Gen.C03.stillFits (p == t) (costOf I.cost (s.alloc ++ [t])) (I.cost p) I.budget)
        alloc := s.alloc ++ [t] } := rfl

/-- `p not in initial_budget_allocation and initial_cost + p.cost <= instance.budget_limit` -/
theorem initiallyFits (I : Inst) (init : List Pid) :
    Greedy.initState I init =
      { feasible := (sortIds I.projects).filter (fun p =>
          Gen.C03.initiallyFits (init.contains p) (costOf I.cost init) (I.cost p) I.budget)
        alloc := init } := rfl

/-- the WHOLE loop that rebuilds the list of still-fitting projects after a purchase (statement-level leaf `Gen.C03.stillFitsLoop`,
    regenerated from `for project in feasible: if …: new_feasible.append(project)`): it is the filter by the regenerated fit test,
    appended in order to what was kept before — which is how the model's `buy` is written (`stillFits` above) -/
theorem stillFitsLoop (cost : Pid → Rat) (sel : Pid) (newCost budget : Rat) : ∀ (feas kept : List Pid),
    Gen.C03.stillFitsLoop sel newCost budget kept (feas.map (fun p => (p, cost p))) =
      kept ++ feas.filter (fun p => Gen.C03.stillFits (p == sel) newCost (cost p) budget)
  | [], kept => by simp [Gen.C03.stillFitsLoop]
  | p :: ps, kept => by
    rw [List.map_cons, Gen.C03.stillFitsLoop, List.filter_cons]
    have hb : ((p != sel) && decide (newCost + cost p ≤ budget)) = Gen.C03.stillFits (p == sel) newCost (cost p) budget := by
      unfold Gen.C03.stillFits
      cases h : (p == sel) <;> simp [bne, h]
    simp only [hb]
    by_cases h : Gen.C03.stillFits (p == sel) newCost (cost p) budget = true
    · simp only [h, if_true]
      rw [stillFitsLoop cost sel newCost budget ps (kept ++ [p])]
      simp
    · simp only [h, if_false, Bool.false_eq_true]
      exact stillFitsLoop cost sel newCost budget ps kept

/-! ### additive fast path -/

/-- `satisfaction_density`: `frac(total_sat, cost)` for supported projects (`inf` at cost 0), 0 otherwise -/
theorem density (score : Pid → Rat) (cost : Pid → Rat) (p : Pid) :
    Greedy.density score cost p =
      if Gen.C03.densitySupported (score p) = true then
        (if 0 < cost p then some (Gen.C03.densityValue (score p) (cost p)) else none)
      else some 0 := by
  unfold Greedy.density Gen.C03.densitySupported Gen.C03.densityValue
  simp only [gt_iff_lt, decide_eq_true_eq]

/-- one iteration of the selection loop: `if project.cost <= remaining_budget: … remaining_budget -= cost` -/
theorem pass_step (cost : Pid → Rat) (rem : Rat) (p : Pid) (ps : List Pid) :
    Greedy.pass cost rem (p :: ps) =
      if Gen.C03.passFits (cost p) rem = true then
        p :: Greedy.pass cost (Gen.C03.passRemaining rem (cost p)) ps
      else Greedy.pass cost rem ps := by
  unfold Gen.C03.passFits Gen.C03.passRemaining
  rw [Greedy.pass]
  simp only [decide_eq_true_eq]

/-- the WHOLE selection loop of the fast path (statement-level leaf `Gen.C03.passLoop`, regenerated from the `for project in
    ordered_projects` loop): run on the ordered projects with their costs it appends exactly the projects the model's `pass`
    takes, in the same order, to whatever was selected before -/
theorem passLoop (cost : Pid → Rat) : ∀ (ps : List Pid) (sel : List Nat) (rem : Rat),
    (Gen.C03.passLoop sel rem (ps.map (fun p => (p, cost p)))).1 = sel ++ Greedy.pass cost rem ps
  | [], sel, rem => by simp [Gen.C03.passLoop, Greedy.pass]
  | p :: ps, sel, rem => by
    rw [List.map_cons, Gen.C03.passLoop, Greedy.pass]
    by_cases h : cost p ≤ rem
    · simp only [h, decide_true, if_true]
      rw [passLoop cost ps (sel ++ [p]) (rem - cost p)]
      simp
    · simp only [h, decide_false, if_false, Bool.false_eq_true]
      exact passLoop cost ps sel rem

/-- … and the budget it ends with is what the selected projects leave of the budget it started with -/
theorem passLoop_remaining (cost : Pid → Rat) : ∀ (ps : List Pid) (sel : List Nat) (rem : Rat),
    (Gen.C03.passLoop sel rem (ps.map (fun p => (p, cost p)))).2 = rem - costOf cost (Greedy.pass cost rem ps)
  | [], sel, rem => by simp [Gen.C03.passLoop, Greedy.pass, costOf, sumOver]
  | p :: ps, sel, rem => by
    rw [List.map_cons, Gen.C03.passLoop, Greedy.pass]
    by_cases h : cost p ≤ rem
    · simp only [h, decide_true, if_true]
      rw [passLoop_remaining cost ps (sel ++ [p]) (rem - cost p)]
      simp only [costOf, sumOver]
      ring
    · simp only [h, decide_false, if_false, Bool.false_eq_true]
      exact passLoop_remaining cost ps sel rem

/-- the pass starts with `instance.budget_limit - total_cost(budget_allocation)` -/
theorem passInitialRemaining (score : Pid → Rat) (I : Inst) (init : List Pid)
    (order : List Pid → Except Err (List Pid)) :
    Greedy.additive score I init order =
      match order ((sortIds I.projects).filter (fun p => !init.contains p)) with
      | .error e => .error e
      | .ok ps =>
        .ok (init ++ Greedy.pass I.cost (Gen.C03.passInitialRemaining I.budget (costOf I.cost init))
          (sortLe (fun a b => ERat.le (Greedy.density score I.cost b) (Greedy.density score I.cost a)) ps)) := rfl

end Pabu.Bridge.C03
