/-
  Bridge C12 — the regenerated leaf formulas of the price-system validator (Gen/C12.lean, produced from
  `validate_price_system` in the current source of pabutools/analysis/priceability.py and `round_cmp` in
  pabutools/utils.py on every run) are the formulas of the model (PabuModel/Price.lean): the rounding
  precision, `round_cmp` (the rounding function applied to the difference), the derived per-voter quantities (spent, leftover, maximal payment), every recorded
  error test (C0a, C0b, C1, negative payment, C2, C3, C4, C5, S5), the summands of the sums they compare, the
  two switches (`exhaustive`, `stable`) and the final `not errors`.  `validate` restates the whole model
  validator through the regenerated definitions only.
-/
import Gen.C12
import PabuModel.Price
import Mathlib.Tactic.Ring
import Mathlib.Tactic.NormNum
import Mathlib.Algebra.Order.Field.Rat
namespace Pabu.Bridge.C12
open Pabu Pabu.Price

/-! ### rounding -/

/-- `CHECK_ROUND_PRECISION`: the model's `round2` is half-even rounding to as many decimals as the constant says -/
theorem checkRoundPrecision (x : Rat) (k : Nat) (hk : (k : Rat) = Gen.C12.checkRoundPrecision) :
    round2 x = (roundHalfEven (x * 10 ^ k) : Rat) / 10 ^ k := by
  unfold Gen.C12.checkRoundPrecision at hk
  have h2 : k = 2 := by exact_mod_cast hk
  subst h2
  unfold round2
  norm_num

/-- Python's `round(x, k)` on an exact rational: half-even rounding to `k` decimals -/
def roundTo (x k : Rat) : Rat := (roundHalfEven (x * 10 ^ k.num.toNat) : Rat) / 10 ^ k.num.toNat

/-- … which at the validator's precision `CHECK_ROUND_PRECISION` is the model's `round2` -/
theorem roundTo_precision (x : Rat) : roundTo x Gen.C12.checkRoundPrecision = round2 x := by
  unfold roundTo Gen.C12.checkRoundPrecision round2
  have h : ((2 : Rat)).num.toNat = 2 := by norm_num; rfl
  rw [h]
  norm_num

/-- `round_cmp`: `round(a - b, precision)` — the regenerated leaf applies the rounding function (its parameter) to the
    DIFFERENCE of the two numbers; with Python's `round` at the validator's precision it is the model's `roundCmp` -/
theorem roundCmp (a b : Rat) : Price.roundCmp a b = Gen.C12.roundCmp roundTo a b Gen.C12.checkRoundPrecision := by
  unfold Gen.C12.roundCmp
  rw [roundTo_precision]
  rfl

/-- the leaf for an arbitrary rounding function: it is that function applied once, to `a - b` -/
theorem roundCmp_leaf (round : Rat → Rat → Rat) (a b p : Rat) : Gen.C12.roundCmp round a b p = round (a - b) p := rfl

/-! ### derived quantities -/

/-- `NW = [c for c in C if c not in W]` -/
theorem notSelected (X : Input) : X.NW = X.C.filter (fun c => Gen.C12.notSelected (X.W.contains c)) := rfl

/-- `spent[idx] = sum(pf[idx][c] for c in C)` -/
theorem spent (X : Input) (v : PVoter) : Price.spent X v = Gen.C12.spent (sumOver X.C v.pay) := rfl

/-- `leftover[idx] = b - spent[idx]` -/
theorem leftover (X : Input) (v : PVoter) : Price.leftover X v = Gen.C12.leftover X.b (Price.spent X v) := rfl

/-- `max_payment[idx] = max((pf[idx][c] for c in C), default=0)` -/
theorem maxPayment (X : Input) (v : PVoter) :
    Price.maxPayment X v = Gen.C12.maxPayment ((maxRat (X.C.map v.pay)).getD 0) := rfl

/-- summand of the sums compared by C3 and C4: `pf[idx][c]` over all voters -/
theorem paidFor (X : Input) (c : Pid) :
    Price.paidFor X c = sumOver X.N (fun v => Gen.C12.paidFor (v.pay c)) ∧
    Price.paidFor X c = sumOver X.N (fun v => Gen.C12.paidForUnselected (v.pay c)) := ⟨rfl, rfl⟩

/-- the sum compared by C5: `leftover[idx]` over the voters with `c in i` -/
theorem c5Summand (X : Input) (c : Pid) :
    Price.leftoverOf X c =
      sumOver (X.N.filter (fun v => Gen.C12.c5Supporter (v.app c))) (fun v => Gen.C12.c5Summand (Price.leftover X v)) := rfl

/-- the sum compared by S5: `max(max_payment[idx], leftover[idx])` over the voters with `c in i` -/
theorem s5Summand (X : Input) (c : Pid) :
    Price.stableOf X c =
      sumOver (X.N.filter (fun v => Gen.C12.s5Supporter (v.app c)))
        (fun v => Gen.C12.s5Summand (Price.maxPayment X v) (Price.leftover X v)) := by
  unfold Price.stableOf Gen.C12.s5Summand Gen.C12.s5Supporter
  congr 1
  funext v
  by_cases h : Price.leftover X v ≤ Price.maxPayment X v
  · rw [if_pos h, max_eq_left h]
  · rw [if_neg h, max_eq_right (le_of_lt (not_le.mp h))]

/-- S5 compares with `c.cost` when no relaxation is given (the model has none) -/
theorem s5Cost (cost relaxed : Rat) : Gen.C12.s5Cost true cost relaxed = cost := rfl

/-! ### the error tests (`true` in the model = the test never fired) -/

/-- C0a: `total > instance.budget_limit` -/
theorem c0a (X : Input) : Price.c0a X = !Gen.C12.c0aFails X.total X.budget := rfl

/-- C0b: `total + c.cost <= instance.budget_limit` for some `c` in `NW` -/
theorem c0b (X : Input) : Price.c0b X = X.NW.all (fun c => !Gen.C12.c0bFails X.total (X.cost c) X.budget) := rfl

/-- C1: `c not in i and pf[idx][c] != 0` -/
theorem c1 (X : Input) :
    Price.c1 X = X.N.all (fun v => X.C.all (fun c => !Gen.C12.c1Fails (v.app c) (v.pay c))) := by
  unfold Price.c1 Gen.C12.c1Fails
  congr 1
  funext v
  congr 1
  funext c
  cases v.app c <;> simp

/-- negative payment: `round_cmp(pf[idx][c], 0, CHECK_ROUND_PRECISION) < 0` -/
theorem cNeg (X : Input) :
    Price.cNeg X = X.N.all (fun v => X.C.all (fun c => !Gen.C12.negFails (Price.roundCmp (v.pay c) 0))) := rfl

/-- C2: `round_cmp(spent[idx], b, CHECK_ROUND_PRECISION) > 0` -/
theorem c2 (X : Input) :
    Price.c2 X = X.N.all (fun v => !Gen.C12.c2Fails (Price.roundCmp (Price.spent X v) X.b)) := rfl

/-- C3: `round_cmp(s, c.cost, CHECK_ROUND_PRECISION) != 0` for a selected project -/
theorem c3 (X : Input) :
    Price.c3 X = X.W.all (fun c => !Gen.C12.c3Fails (Price.roundCmp (Price.paidFor X c) (X.cost c))) := by
  unfold Price.c3 Gen.C12.c3Fails
  congr 1
  funext c
  simp

/-- C4: `round_cmp(s, 0, CHECK_ROUND_PRECISION) != 0` for a project that is not selected -/
theorem c4 (X : Input) :
    Price.c4 X = X.NW.all (fun c => !Gen.C12.c4Fails (Price.roundCmp (Price.paidFor X c) 0)) := by
  unfold Price.c4 Gen.C12.c4Fails
  congr 1
  funext c
  simp

/-- C5: `round_cmp(s, c.cost, CHECK_ROUND_PRECISION) > 0`, `s` the supporters' leftover -/
theorem c5 (X : Input) :
    Price.c5 X = X.NW.all (fun c => !Gen.C12.c5Fails (Price.roundCmp (Price.leftoverOf X c) (X.cost c))) := rfl

/-- S5: `round_cmp(s, cost, CHECK_ROUND_PRECISION) > 0`, `s` the supporters' max(leftover, largest payment) -/
theorem s5 (X : Input) :
    Price.s5 X =
      X.NW.all (fun c => !Gen.C12.s5Fails (Price.roundCmp (Price.stableOf X c) (Gen.C12.s5Cost true (X.cost c) 0))) := rfl

/-! ### the rounded comparisons, spelled out on the rounded difference -/

theorem c2_rounded (x y : Rat) : Gen.C12.c2Fails (Price.roundCmp x y) = decide (round2 (x - y) > 0) := rfl

theorem c3_rounded (x y : Rat) : Gen.C12.c3Fails (Price.roundCmp x y) = !decide (round2 (x - y) = 0) := by
  unfold Gen.C12.c3Fails Price.roundCmp
  simp

theorem c5_rounded (x y : Rat) : Gen.C12.c5Fails (Price.roundCmp x y) = decide (0 < round2 (x - y)) := by
  unfold Gen.C12.c5Fails Price.roundCmp
  simp

theorem neg_rounded (x : Rat) : Gen.C12.negFails (Price.roundCmp x 0) = decide (round2 x < 0) := by
  unfold Gen.C12.negFails Price.roundCmp
  simp

/-! ### the whole validator through the regenerated definitions -/

/-- `validate_price_system`: no error test fires (`return not errors`); C0b only when `exhaustive`; C5 when
    `not stable`, S5 otherwise -/
theorem validate (X : Input) (stable exhaustive : Bool) :
    Price.validate X stable exhaustive =
      Gen.C12.accepts
        ((!Gen.C12.c0aFails X.total X.budget) &&
         (!Gen.C12.checksExhaustive exhaustive ||
            X.NW.all (fun c => !Gen.C12.c0bFails X.total (X.cost c) X.budget)) &&
         X.N.all (fun v => X.C.all (fun c => !Gen.C12.c1Fails (v.app c) (v.pay c))) &&
         X.N.all (fun v => X.C.all (fun c => !Gen.C12.negFails (Price.roundCmp (v.pay c) 0))) &&
         X.N.all (fun v => !Gen.C12.c2Fails (Price.roundCmp (Price.spent X v) X.b)) &&
         X.W.all (fun c => !Gen.C12.c3Fails (Price.roundCmp (Price.paidFor X c) (X.cost c))) &&
         X.NW.all (fun c => !Gen.C12.c4Fails (Price.roundCmp (Price.paidFor X c) 0)) &&
         (if Gen.C12.plainBranch stable = true then
            X.NW.all (fun c => !Gen.C12.c5Fails (Price.roundCmp (Price.leftoverOf X c) (X.cost c)))
          else
            X.NW.all (fun c => !Gen.C12.s5Fails (Price.roundCmp (Price.stableOf X c) (Gen.C12.s5Cost true (X.cost c) 0))))) := by
  unfold Price.validate Gen.C12.accepts Gen.C12.checksExhaustive Gen.C12.plainBranch
  rw [← c0a, ← c0b, ← c1, ← cNeg, ← c2, ← c3, ← c4, ← c5, ← s5]
  cases stable <;> rfl

/-! ### the leaves on concrete numbers -/

example : Gen.C12.c5Fails (Gen.C12.roundCmp (fun x _ => x) 3 3 2) = false ∧
    Gen.C12.c3Fails (Gen.C12.roundCmp (fun x _ => x) 3 (5 / 2) 2) = true ∧
    Gen.C12.s5Summand 1 (3 / 2) = 3 / 2 ∧ Gen.C12.leftover 5 2 = 3 ∧ Gen.C12.c1Fails false 1 = true := by
  refine ⟨?_, ?_, ?_, ?_, ?_⟩ <;> norm_num [Gen.C12.c5Fails, Gen.C12.c3Fails, Gen.C12.roundCmp, Gen.C12.s5Summand,
    Gen.C12.leftover, Gen.C12.c1Fails]

/-- the leaf with Python's rounding on the pair that exposed the defect of the former formula (2.375 against
    2.375 − 10⁻¹⁵): equal -/
example : Gen.C12.roundCmp roundTo (19 / 8) (19 / 8 - 1 / 10 ^ 15) Gen.C12.checkRoundPrecision = 0 := by
  rw [← roundCmp]; decide +kernel

end Pabu.Bridge.C12
