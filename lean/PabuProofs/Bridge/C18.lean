/-
  Bridge C18 — the regenerated leaf formulas of the descriptive statistics (Gen/C18.lean, produced from the
  current source of pabutools/utils.py and pabutools/analysis/votersatisfaction.py on every run) are the
  formulas of the model (PabuModel/Stats.lean): the streaming-mean update, the Gini formula and its cumulative
  term, and the bin of a satisfaction value in the histogram.
-/
import Gen.C18
import PabuModel.Stats
import Mathlib.Tactic.Ring
import Mathlib.Tactic.NormNum
import Mathlib.Algebra.Order.Field.Rat
namespace Pabu.Bridge.C18
open Pabu Pabu.Stats

/-- `n += 1; mean += frac(value - mean, n)` -/
theorem meanUpdate (x : Rat) (k n : Nat) (m : Rat) :
    meanRep x (k + 1) n m = meanRep x k (n + 1) (Gen.C18.meanUpdate m x ((n + 1 : Nat) : Rat)) := rfl

/-- `frac(num_values + 1 - frac(2 * total_cum_sum, sum(values)), num_values)` -/
theorem giniFormula (xs : List Rat) :
    giniCum xs =
      if allNul xs = true then 0
      else Gen.C18.giniFormula ((xs.length : Nat) : Rat) (cumFrom xs.length 0 (sortRat xs)) (sumOver xs id) := rfl

/-- `total_cum_sum += v * (num_values - i)`, one step (`i ≤ num_values`: the indices of `enumerate`) -/
theorem giniTerm (n i : Nat) (v : Rat) (vs : List Rat) (h : i ≤ n) :
    cumFrom n i (v :: vs) = Gen.C18.giniTerm v ((n : Nat) : Rat) ((i : Nat) : Rat) + cumFrom n (i + 1) vs := by
  unfold Gen.C18.giniTerm
  rw [cumFrom, Nat.cast_sub h, zero_add]

/-- the whole loop over `enumerate(sorted_values)` started at index `i` -/
theorem giniTerm_sum (n : Nat) : ∀ (vs : List Rat) (i : Nat), i + vs.length ≤ n →
    cumFrom n i vs = sumOver (vs.zipIdx i) (fun e => Gen.C18.giniTerm e.1 ((n : Nat) : Rat) ((e.2 : Nat) : Rat))
  | [], _, _ => rfl
  | v :: vs, i, h => by
    have hi : i ≤ n := by simp only [List.length_cons] at h; omega
    have hr : (i + 1) + vs.length ≤ n := by simp only [List.length_cons] at h; omega
    rw [giniTerm n i v vs hi, giniTerm_sum n vs (i + 1) hr, List.zipIdx_cons]
    rfl

/-- the WHOLE cumulative loop of `gini_coefficient` (statement-level leaf `Gen.C18.giniCumLoop`, regenerated from
    `for i, v in enumerate(sorted_values): total_cum_sum += v * (num_values - i)`): on the sorted values paired with their ranks it
    adds the model's `cumFrom` to the running total -/
theorem giniCumLoop (n : Nat) : ∀ (vs : List Rat) (i : Nat) (acc : Rat), i + vs.length ≤ n →
    Gen.C18.giniCumLoop ((n : Nat) : Rat) acc ((vs.zipIdx i).map (fun e => (((e.2 : Nat) : Rat), e.1))) = acc + cumFrom n i vs
  | [], _, acc, _ => by simp [Gen.C18.giniCumLoop, cumFrom]
  | v :: vs, i, acc, h => by
    have hi : i ≤ n := by simp only [List.length_cons] at h; omega
    have hr : (i + 1) + vs.length ≤ n := by simp only [List.length_cons] at h; omega
    rw [List.zipIdx_cons, List.map_cons, Gen.C18.giniCumLoop, giniCumLoop n vs (i + 1) _ hr, cumFrom, Nat.cast_sub hi]
    ring

/-- the bin of a satisfaction value: last bin if `satisfaction >= max_satisfaction`, otherwise
    `ceil(satisfaction * (num_bins - 1) / max_satisfaction)` (`num_bins ≥ 1`: with no bin the library
    raises `IndexError`) -/
theorem histBin (bins : Nat) (mx s : Rat) (h : 1 ≤ bins) :
    binOf bins mx s =
      if Gen.C18.histTop s mx = true then bins - 1
      else (Rat.ceil (Gen.C18.histArg s ((bins : Nat) : Rat) mx)).toNat := by
  unfold binOf Gen.C18.histTop Gen.C18.histArg
  rw [Nat.cast_sub h]
  simp only [ge_iff_le, decide_eq_true_eq, Nat.cast_one]

example : Gen.C18.meanUpdate 2 5 3 = 3 ∧ Gen.C18.histTop 4 4 = true ∧ Gen.C18.histArg 1 5 4 = 1 := by
  norm_num [Gen.C18.meanUpdate, Gen.C18.histTop, Gen.C18.histArg]

end Pabu.Bridge.C18
