/-
  Bridge C15 — the regenerated leaf formulas of the instance predicates (Gen/C15.lean, produced from the
  current source of pabutools/election/instance.py on every run) are the formulas of the model
  (PabuModel/Election.lean): feasibility, triviality (all projects fit, or no single project fits),
  the per-project test of exhaustiveness and one step of the cheapest-first count.
-/
import Gen.C15
import PabuModel.Election
import PabuProofs.Lemmas.Election
import Mathlib.Tactic.Ring
import Mathlib.Tactic.NormNum
import Mathlib.Algebra.Order.Field.Rat
namespace Pabu.Bridge.C15
open Pabu

/-- `is_feasible`: `total_cost(projects) <= self.budget_limit` -/
theorem isFeasible (I : Inst) (l : List Pid) :
    I.isFeasible l = Gen.C15.isFeasible (I.totalCost l) I.budget := rfl

/-- "the budget is below the cheapest cost" is "the budget is below every cost" -/
theorem all_of_minRat_some {l : List Rat} {c : Rat} (h : minRat l = some c) (b : Rat) :
    l.all (fun x => decide (b < x)) = decide (b < c) := by
  rw [Bool.eq_iff_iff]
  simp only [decide_eq_true_eq, List.all_eq_true]
  constructor
  · intro hall
    exact hall c (Election.minRat_mem h)
  · intro hlt x hx
    exact lt_of_lt_of_le hlt (Election.minRat_le h x hx)

/-- the second disjunct of the model's `isTrivial` (budget below the minimum cost; vacuous without projects)
    is `all(self.budget_limit < p.cost for p in self)` -/
theorem singleDoesNotFit (I : Inst) :
    I.isTrivial =
      (decide (I.totalCost I.projects ≤ I.budget) ||
        I.projects.all (fun p => Gen.C15.singleDoesNotFit I.budget (I.cost p))) := by
  unfold Inst.isTrivial Gen.C15.singleDoesNotFit
  congr 1
  have hmap : I.projects.all (fun p => decide (I.budget < I.cost p)) =
      (I.projects.map I.cost).all (fun x => decide (I.budget < x)) := by
    rw [List.all_map]; rfl
  rw [hmap]
  cases h : minRat (I.projects.map I.cost) with
  | none =>
    have hnil : I.projects.map I.cost = [] := Election.minRat_eq_none.1 h
    simp [hnil]
  | some c =>
    simp only []
    rw [all_of_minRat_some h]

/-- `is_trivial`: `total_cost(self) <= budget_limit or all(budget_limit < p.cost for p in self)` -/
theorem isTrivial (I : Inst) :
    I.isTrivial =
      Gen.C15.isTrivial (I.totalCost I.projects) I.budget
        (I.projects.all (fun p => Gen.C15.singleDoesNotFit I.budget (I.cost p))) := by
  rw [singleDoesNotFit]
  rfl

/-- `is_exhaustive`: no available project passes `p not in projects and p.cost + cost <= budget_limit` -/
theorem fitsOnTop (I : Inst) (avail l : List Pid) :
    I.isExhaustiveOver avail l =
      avail.all (fun p => !Gen.C15.fitsOnTop (l.contains p) (I.cost p) (I.totalCost l) I.budget) := by
  unfold Inst.isExhaustiveOver Gen.C15.fitsOnTop
  congr 1
  funext p
  cases l.contains p <;> simp

/-- one iteration of the loop of `max_budget_allocation_cardinality` -/
theorem cheapest_step (budget acc c : Rat) (cs : List Rat) :
    cheapestCount budget acc (c :: cs) =
      if Gen.C15.cheapestOvershoots c acc budget = true then 0
      else cheapestCount budget (Gen.C15.cheapestNewTotal c acc) cs + 1 := by
  unfold Gen.C15.cheapestOvershoots Gen.C15.cheapestNewTotal
  rw [cheapestCount]
  simp only [decide_eq_true_eq]
  rw [add_comm acc c]


/-! ### whole functions (statement-level leaves): initialisation, loop, return -/

/-- the whole of `Instance.is_exhaustive`: `cost = total_cost(projects)`, the loop over the available projects with its early
    `return False`, the final `return True` — nothing else happens in the function -/
theorem isExhaustiveFn (I : Inst) (avail l : List Pid) :
    I.isExhaustiveOver avail l =
      Gen.C15.isExhaustiveFn (I.totalCost l) I.budget (avail.map (fun p => (l.contains p, I.cost p))) := by
  unfold Gen.C15.isExhaustiveFn Inst.isExhaustiveOver
  induction avail with
  | nil => simp [Gen.C15.isExhaustiveFnLoop]
  | cons p ps ih =>
    simp only [List.map_cons, List.all_cons, Gen.C15.isExhaustiveFnLoop]
    by_cases hc : l.contains p = true
    · simp only [hc, Bool.not_true, Bool.false_and, Bool.true_or, Bool.true_and]
      exact ih
    · have hc' : l.contains p = false := by simpa using hc
      have hm : p ∉ l := by simpa using hc'
      by_cases hf : I.cost p + I.totalCost l ≤ I.budget
      · simp [hm, hf]
      · simp only [hc', hf, Bool.not_false, Bool.true_and, decide_false, Bool.false_or, Bool.not_false]
        exact ih

private theorem maxCardLoop_snd (budget : Rat) : ∀ (cs : List Rat) (acc sel : Rat),
    (Gen.C15.maxCardFnLoop budget acc sel cs).2 = sel + (cheapestCount budget acc cs : Rat)
  | [], acc, sel => by simp [Gen.C15.maxCardFnLoop, cheapestCount]
  | c :: cs, acc, sel => by
    rw [Gen.C15.maxCardFnLoop, cheapestCount]
    by_cases h : acc + c > budget
    · have h' : c + acc > budget := by rwa [add_comm]
      simp [h, h']
    · have h' : ¬ c + acc > budget := by rwa [add_comm]
      simp only [h, h', decide_false, if_false, Bool.false_eq_true]
      rw [maxCardLoop_snd budget cs (c + acc) (sel + 1), add_comm c acc]
      push_cast
      ring

/-- the whole of `max_budget_allocation_cardinality` after the sort: both counters start at 0, the loop stops at the first
    project that does not fit, the number of projects passed is returned -/
theorem maxCardFn (cost : Pid → Rat) (l : List Pid) (budget : Rat) :
    (maxCardinality cost l budget : Rat) = Gen.C15.maxCardFn budget (sortKey id (l.map cost)) := by
  unfold maxCardinality Gen.C15.maxCardFn
  beta_reduce
  rw [maxCardLoop_snd]
  simp

/-- the statement-level leaves on a concrete instance: budget 4, costs 1, 2, 3 — {1, 2} is exhaustive, {1} is not, two projects fit -/
example : Gen.C15.isExhaustiveFn 3 4 [(true, 1), (true, 2), (false, 3)] = true ∧
    Gen.C15.isExhaustiveFn 1 4 [(true, 1), (false, 2), (false, 3)] = false ∧ Gen.C15.maxCardFn 4 [1, 2, 3] = 2 := by
  refine ⟨?_, ?_, ?_⟩ <;> norm_num [Gen.C15.isExhaustiveFn, Gen.C15.isExhaustiveFnLoop, Gen.C15.maxCardFn, Gen.C15.maxCardFnLoop]

/-- a concrete non-trivial instance: budget 2, costs 1 and 3 -/
example :
    Gen.C15.isTrivial (1 + 3) 2 ([1, 3].all (fun c => Gen.C15.singleDoesNotFit 2 c)) = false := by
  norm_num [Gen.C15.isTrivial, Gen.C15.singleDoesNotFit]

end Pabu.Bridge.C15
