/-
  Bridge C16 — what a frozen ballot is made of and what it hashes, re-read from the current source
  (Gen/C16.lean: `FrozenApprovalBallot.__new__` / `__hash__`, `FrozenCardinalBallot.__hash__`, `FrozenOrdinalBallot.__hash__`, the three
  `frozen()` methods — each ONE `return` of exactly the recorded form), tied to the model's canonical `freeze` (PabuModel/Multi.lean):
  the tuple of a frozen approval ballot is `sorted(approved)`, which for a set of approved projects IS `freezeApp`; the hashes are
  functions of the canonical content only (tuple hash of the sorted tuple; hash of the SET of items), so equal frozen ballots hash alike.
  The order `sorted` uses is `Project.__lt__`, regenerated and proved a strict total order in Bridge/C13 (this property's obligations
  include those theorems).
-/
import Gen.C16
import PabuModel.Multi
import PabuProofs.Lemmas.Multi
import PabuProofs.Bridge.C13
namespace Pabu.Bridge.C16
open Pabu Pabu.Multi

private abbrev leNat : Nat → Nat → Bool := fun a b => decide (a ≤ b)

theorem mem_insertLe (x y : Nat) : ∀ l : List Nat, y ∈ insertLe leNat x l ↔ y = x ∨ y ∈ l
  | [] => by simp [insertLe]
  | z :: zs => by
    rw [insertLe]
    by_cases h : leNat x z = true
    · simp [h]
    · simp only [h, if_false, List.mem_cons, Bool.false_eq_true]
      rw [mem_insertLe x y zs]
      constructor
      · rintro (h | h | h)
        · exact Or.inr (Or.inl h)
        · exact Or.inl h
        · exact Or.inr (Or.inr h)
      · rintro (h | h | h)
        · exact Or.inr (Or.inl h)
        · exact Or.inl h
        · exact Or.inr (Or.inr h)

/-- inserting an element that is not there into a strictly ascending list keeps it strictly ascending -/
theorem insertLe_sorted (x : Nat) : ∀ l : List Nat, l.Pairwise (· < ·) → x ∉ l → (insertLe leNat x l).Pairwise (· < ·)
  | [], _, _ => by simp [insertLe]
  | z :: zs, hs, hx => by
    rw [insertLe]
    obtain ⟨hz, hzs⟩ := List.pairwise_cons.mp hs
    have hxz : x ≠ z := fun e => hx (by simp [e])
    have hxzs : x ∉ zs := fun e => hx (List.mem_cons_of_mem _ e)
    by_cases h : leNat x z = true
    · have hle : x ≤ z := of_decide_eq_true h
      have hlt : x < z := lt_of_le_of_ne hle hxz
      simp only [h, if_true]
      refine List.pairwise_cons.mpr ⟨?_, hs⟩
      intro y hy
      rcases List.mem_cons.mp hy with e | e
      · rw [e]; exact hlt
      · exact lt_trans hlt (hz y e)
    · have hlt : z < x := by
        have : ¬ x ≤ z := fun hle => h (decide_eq_true hle)
        exact not_le.mp this
      simp only [h, if_false, Bool.false_eq_true]
      refine List.pairwise_cons.mpr ⟨?_, insertLe_sorted x zs hzs hxzs⟩
      intro y hy
      rcases (mem_insertLe x y zs).mp hy with e | e
      · rw [e]; exact hlt
      · exact hz y e

theorem mem_sortIds' (y : Nat) : ∀ l : List Nat, y ∈ sortIds l ↔ y ∈ l
  | [] => by simp [sortIds, sortLe]
  | x :: xs => by
    have : sortIds (x :: xs) = insertLe leNat x (sortIds xs) := rfl
    rw [this, mem_insertLe, mem_sortIds' y xs]
    simp

/-- `sorted(s)` of distinct projects is strictly ascending -/
theorem sortIds_sorted : ∀ {s : List Nat}, s.Nodup → (sortIds s).Pairwise (· < ·)
  | [], _ => by simp [sortIds, sortLe]
  | x :: xs, h => by
    obtain ⟨hx, hxs⟩ := List.nodup_cons.mp h
    have : sortIds (x :: xs) = insertLe leNat x (sortIds xs) := rfl
    rw [this]
    exact insertLe_sorted x _ (sortIds_sorted hxs) (fun e => hx ((mem_sortIds' x xs).mp e))

/-- `FrozenApprovalBallot.__new__` makes the tuple `sorted(approved)`.  For an approval ballot (a SET: distinct projects `s`, in whatever
    order the set hands them over) built by the insertions `l`, that tuple is the model's canonical frozen ballot -/
theorem approvalFrozenItems (l s : List Nat) (hs : s.Nodup) (hm : ∀ x, x ∈ s ↔ x ∈ l) :
    freezeApp l = Gen.C16.approvalFrozenItems (sortIds s) := by
  unfold Gen.C16.approvalFrozenItems
  apply sorted_ext (sorted_freezeApp l) (sortIds_sorted hs)
  intro x
  rw [mem_freezeApp, mem_sortIds', hm]

/-- hence two set layouts of the same approval set freeze to the same tuple -/
theorem approvalFrozenItems_layout (s₁ s₂ : List Nat) (h₁ : s₁.Nodup) (h₂ : s₂.Nodup) (hm : ∀ x, x ∈ s₁ ↔ x ∈ s₂) :
    Gen.C16.approvalFrozenItems (sortIds s₁) = Gen.C16.approvalFrozenItems (sortIds s₂) := by
  rw [← approvalFrozenItems s₁ s₁ h₁ (fun _ => Iff.rfl), ← approvalFrozenItems s₁ s₂ h₂ (fun x => (hm x).symm)]

/-- `FrozenApprovalBallot.__hash__` / `FrozenOrdinalBallot.__hash__` are the tuple's own hash: whatever function `h` of the stored
    tuple that is, ballots with the same content hash alike -/
theorem approvalHash (h : List Nat → Nat) (l₁ l₂ : List Nat) (he : ∀ x, x ∈ l₁ ↔ x ∈ l₂) :
    Gen.C16.approvalHash (h (freezeApp l₁)) = Gen.C16.approvalHash (h (freezeApp l₂)) := by
  rw [freezeApp_ext he]

theorem ordinalHash (h : List Nat → Nat) (l₁ l₂ : List Nat) (he : firstOcc l₁ = firstOcc l₂) :
    Gen.C16.ordinalHash (h (firstOcc l₁)) = Gen.C16.ordinalHash (h (firstOcc l₂)) := by
  rw [he]

/-! `FrozenCardinalBallot.__hash__` hashes the SET of the items: a function of the items that does not see their order -/

theorem putNew_perm (k : Nat) (v : Rat) : ∀ l : List (Nat × Rat), k ∉ l.map Prod.fst → (putNew k v l).Perm ((k, v) :: l)
  | [], _ => by simp [putNew]
  | e :: r, hk => by
    rw [putNew]
    have hne : k ≠ e.1 := fun h => hk (by simp [h])
    have hr : k ∉ r.map Prod.fst := fun h => hk (by simp only [List.map_cons, List.mem_cons]; exact Or.inr h)
    by_cases h : k < e.1
    · simp [h]
    · simp only [h, if_false, hne]
      exact ((putNew_perm k v r hr).cons e).trans (List.Perm.swap _ _ _)

theorem keys_freezeCard (k : Nat) : ∀ l : List (Nat × Rat), k ∈ (freezeCard l).map Prod.fst → k ∈ l.map Prod.fst
  | [], h => by simp [freezeCard] at h
  | e :: r, h => by
    have hf : freezeCard (e :: r) = putNew e.1 e.2 (freezeCard r) := rfl
    rw [hf] at h
    obtain ⟨x, hx, hxk⟩ := List.mem_map.mp h
    rcases mem_putNew hx with e' | e'
    · simp only [List.map_cons, List.mem_cons]
      left; rw [← hxk, e']
    · simp only [List.map_cons, List.mem_cons]
      right; exact keys_freezeCard k r (List.mem_map.mpr ⟨x, e', hxk⟩)

/-- the items of a dict (distinct keys, insertion order) are a permutation of the canonical frozen ballot -/
theorem freezeCard_perm : ∀ l : List (Nat × Rat), (l.map Prod.fst).Nodup → (freezeCard l).Perm l
  | [], _ => by simp [freezeCard]
  | e :: r, h => by
    have hf : freezeCard (e :: r) = putNew e.1 e.2 (freezeCard r) := rfl
    simp only [List.map_cons, List.nodup_cons] at h
    rw [hf]
    exact (putNew_perm e.1 e.2 _ (fun hk => h.1 (keys_freezeCard _ r hk))).trans ((freezeCard_perm r h.2).cons _)

/-- `hash(frozenset(self.items()))`: for every hash `h` of the item SET (a function of the item list invariant under permutation)
    two cardinal ballots with the same content — built in whatever key order — hash alike -/
theorem cardinalHash (h : List (Nat × Rat) → Nat) (hperm : ∀ a b, a.Perm b → h a = h b)
    (i₁ i₂ : List (Nat × Rat)) (n₁ : (i₁.map Prod.fst).Nodup) (n₂ : (i₂.map Prod.fst).Nodup)
    (he : freezeCard i₁ = freezeCard i₂) :
    Gen.C16.cardinalHash (h i₁) = Gen.C16.cardinalHash (h i₂) := by
  unfold Gen.C16.cardinalHash
  exact hperm _ _ (((freezeCard_perm i₁ n₁).symm.trans (he ▸ List.Perm.refl _)).trans (freezeCard_perm i₂ n₂))

/-- a hash that looks at the key ORDER (the original defect D19: `hash(tuple(self.keys()))`) separates equal ballots: kernel-checked -/
example : freezeCard [(2, 1), (0, 5)] = freezeCard [(0, 5), (2, 1)] ∧
    ([(2, (1 : Rat)), (0, 5)].map Prod.fst ≠ [((0 : Nat), (5 : Rat)), (2, 1)].map Prod.fst) := by
  refine ⟨by decide, by decide⟩

/-- the three `frozen()` methods hand the ballot itself (with its name and meta) to the frozen class: nothing is computed in between -/
theorem frozen_shapes (a c o : Nat) :
    Gen.C16.approvalFrozen a = a ∧ Gen.C16.cardinalFrozen c = c ∧ Gen.C16.ordinalFrozen o = o := ⟨rfl, rfl, rfl⟩

example : Gen.C16.approvalFrozenItems (sortIds [3, 1, 2]) = [1, 2, 3] := by decide

end Pabu.Bridge.C16
