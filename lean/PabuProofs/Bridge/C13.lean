/-
  Bridge C13 — the regenerated sort keys of the shipped tie-breaking rules (Gen/C13.lean, produced from the
  lambdas of the current source of pabutools/tiebreaking.py on every run) are the keys of the model
  (`Tie.key` in PabuModel/RoundRule.lean).
-/
import Gen.C13
import PabuModel.RoundRule
import Mathlib.Tactic.NormNum
import Mathlib.Algebra.Order.Field.Rat
namespace Pabu.Bridge.C13
open Pabu

/-- `lexico_tie_breaking`: `proj.name` (the model's project ids are name ranks) -/
theorem lexico (cost : Pid → Rat) (score : Pid → Nat) (p : Pid) :
    Tie.key .lexico cost score p = Gen.C13.lexicoKey ((p : Nat) : Rat) := rfl

/-- `app_score_tie_breaking`: `-prof.approval_score(proj)` -/
theorem appScore (cost : Pid → Rat) (score : Pid → Nat) (p : Pid) :
    Tie.key .appScore cost score p = Gen.C13.appScoreKey ((score p : Nat) : Rat) := rfl

/-- `min_cost_tie_breaking`: `proj.cost` -/
theorem minCost (cost : Pid → Rat) (score : Pid → Nat) (p : Pid) :
    Tie.key .minCost cost score p = Gen.C13.minCostKey (cost p) := rfl

/-- `max_cost_tie_breaking`: `-proj.cost` -/
theorem maxCost (cost : Pid → Rat) (score : Pid → Nat) (p : Pid) :
    Tie.key .maxCost cost score p = Gen.C13.maxCostKey (cost p) := rfl

/-- the order of a shipped rule is the stable sort by the regenerated key -/
theorem order_minCost (cost : Pid → Rat) (score : Pid → Nat) (l : List Pid) :
    Tie.order .minCost cost score l = .ok (sortKey (fun p => Gen.C13.minCostKey (cost p)) (sortIds l)) := by
  unfold Tie.order
  rw [if_neg (by simp)]
  rfl

example : Gen.C13.maxCostKey 3 < Gen.C13.maxCostKey 2 := by
  norm_num [Gen.C13.maxCostKey]

end Pabu.Bridge.C13
