/-
  Bridge C13 — the regenerated sort keys of the shipped tie-breaking rules (Gen/C13.lean, produced from the
  lambdas of the current source of pabutools/tiebreaking.py on every run) are the keys of the model
  (`Tie.key` in PabuModel/RoundRule.lean).
-/
import Gen.C13
import PabuModel.RoundRule
import Mathlib.Tactic.NormNum
import Mathlib.Algebra.Order.Field.Rat
namespace Pabu.Bridge.C13
open Pabu

/-- `lexico_tie_breaking`: `proj.name` (the model's project ids are name ranks) -/
theorem lexico (cost : Pid → Rat) (score : Pid → Nat) (p : Pid) :
    Tie.key .lexico cost score p = Gen.C13.lexicoKey ((p : Nat) : Rat) := rfl

/-- `app_score_tie_breaking`: `-prof.approval_score(proj)` -/
theorem appScore (cost : Pid → Rat) (score : Pid → Nat) (p : Pid) :
    Tie.key .appScore cost score p = Gen.C13.appScoreKey ((score p : Nat) : Rat) := rfl

/-- `min_cost_tie_breaking`: `proj.cost` -/
theorem minCost (cost : Pid → Rat) (score : Pid → Nat) (p : Pid) :
    Tie.key .minCost cost score p = Gen.C13.minCostKey (cost p) := rfl

/-- `max_cost_tie_breaking`: `-proj.cost` -/
theorem maxCost (cost : Pid → Rat) (score : Pid → Nat) (p : Pid) :
    Tie.key .maxCost cost score p = Gen.C13.maxCostKey (cost p) := rfl

/-- the order of a shipped rule is the stable sort by the regenerated key -/
theorem order_minCost (cost : Pid → Rat) (score : Pid → Nat) (l : List Pid) :
    Tie.order .minCost cost score l = .ok (sortKey (fun p => Gen.C13.minCostKey (cost p)) (sortIds l)) := by
  unfold Tie.order
  rw [if_neg (by simp)]
  rfl

/-! ### the order and the identity of projects

  `sorted(projects)` — the pre-sort of every tie-breaking rule, of the greedy fast path, of `sorted(instance)` — and membership
  in sets and dicts rest on `Project.__lt__`, `__le__`, `__eq__`, `__hash__`.  The regenerated definitions (names as their
  ranks in the string order) compare the NAMES, whether the other side is a project or a bare name; so the order is a strict
  total order that agrees with `__le__` and `__eq__`, and equal projects have equal hashes.  A "natural" order that treats some
  pairs of names as numbers (not transitive: "2" < "10" < "1a" < "2") does not translate to these definitions. -/

theorem projectLt (a b : Rat) :
    Gen.C13.projectLt a b = decide (a < b) ∧ Gen.C13.projectLtName a b = decide (a < b) := ⟨rfl, rfl⟩

theorem projectLe (a b : Rat) :
    Gen.C13.projectLe a b = decide (a ≤ b) ∧ Gen.C13.projectLeName a b = decide (a ≤ b) := ⟨rfl, rfl⟩

theorem projectEq (a b : Rat) :
    Gen.C13.projectEq a b = decide (a = b) ∧ Gen.C13.projectEqName a b = decide (a = b) ∧ Gen.C13.projectEqOther = false :=
  ⟨rfl, rfl, rfl⟩

/-- equal projects have equal hashes, whatever the hash function of strings is -/
theorem projectHash (h : Rat → Rat) (a b : Rat) (heq : Gen.C13.projectEq a b = true) :
    Gen.C13.projectHash h a = Gen.C13.projectHash h b := by
  unfold Gen.C13.projectEq at heq
  rw [of_decide_eq_true heq]

/-- the library's order on projects is a strict total order, consistent with its `<=` and `==` -/
theorem project_order_strict_total :
    (∀ a, Gen.C13.projectLt a a = false) ∧
    (∀ a b c, Gen.C13.projectLt a b = true → Gen.C13.projectLt b c = true → Gen.C13.projectLt a c = true) ∧
    (∀ a b, Gen.C13.projectLt a b = true ∨ Gen.C13.projectEq a b = true ∨ Gen.C13.projectLt b a = true) ∧
    (∀ a b, Gen.C13.projectLe a b = (Gen.C13.projectLt a b || Gen.C13.projectEq a b)) ∧
    (∀ a b, Gen.C13.projectLt a b = true → Gen.C13.projectLt b a = false) := by
  refine ⟨?_, ?_, ?_, ?_, ?_⟩
  · intro a
    unfold Gen.C13.projectLt
    exact decide_eq_false (lt_irrefl a)
  · intro a b c h1 h2
    unfold Gen.C13.projectLt at *
    exact decide_eq_true (lt_trans (of_decide_eq_true h1) (of_decide_eq_true h2))
  · intro a b
    unfold Gen.C13.projectLt Gen.C13.projectEq
    rcases lt_trichotomy a b with h | h | h
    · exact Or.inl (decide_eq_true h)
    · exact Or.inr (Or.inl (decide_eq_true h))
    · exact Or.inr (Or.inr (decide_eq_true h))
  · intro a b
    unfold Gen.C13.projectLe Gen.C13.projectLt Gen.C13.projectEq
    rw [Bool.eq_iff_iff]
    simp only [decide_eq_true_eq, Bool.or_eq_true]
    exact le_iff_lt_or_eq
  · intro a b h
    unfold Gen.C13.projectLt at *
    exact decide_eq_false (lt_asymm (of_decide_eq_true h))

/-- the model sorts tied projects by their ids (`sortIds`), i.e. by `projectLt` on the name ranks -/
theorem sortIds_is_project_order (p q : Pid) :
    Gen.C13.projectLt ((p : Nat) : Rat) ((q : Nat) : Rat) = decide (p < q) := by
  unfold Gen.C13.projectLt
  rw [Bool.eq_iff_iff]
  simp only [decide_eq_true_eq]
  exact Nat.cast_lt

example : Gen.C13.maxCostKey 3 < Gen.C13.maxCostKey 2 := by
  norm_num [Gen.C13.maxCostKey]

end Pabu.Bridge.C13
