/-
  Bridge C10 — the regenerated per-project satisfaction formulas (Gen/C10.lean, produced from the current
  source of pabutools/election/satisfaction/*.py on every run) are the formulas of the model (PabuModel/Sat.lean).
-/
import Gen.C10
import PabuModel.Sat
import Mathlib.Tactic.Ring
import Mathlib.Tactic.FieldSimp
import Mathlib.Algebra.Order.Field.Rat
namespace Pabu.Bridge.C10
open Pabu

theorem cardinality (I : Inst) (P : Profile) (b : Ballot) (p : Pid) :
    satProject .cardinality I P b p = Gen.C10.cardinalitySat (memI b p) := rfl

theorem cost (I : Inst) (P : Profile) (b : Ballot) (p : Pid) :
    satProject .cost I P b p = Gen.C10.costSat (memI b p) (I.cost p) := rfl

theorem relCardinality (I : Inst) (P : Profile) (b : Ballot) (p : Pid) :
    satProject .relCardinality I P b p = Gen.C10.relCardinalitySat (memI b p) (normaliser .relCardinality I b) := by
  unfold satProject Gen.C10.relCardinalitySat
  by_cases h : normaliser .relCardinality I b = 0 <;> simp [h]

theorem relCost (I : Inst) (P : Profile) (b : Ballot) (p : Pid) :
    satProject .relCost I P b p = Gen.C10.relCostSat (memI b p) (I.cost p) (normaliser .relCost I b) := by
  unfold satProject Gen.C10.relCostSat
  by_cases h : normaliser .relCost I b = 0 <;> simp [h]

theorem relCostApprox (I : Inst) (P : Profile) (b : Ballot) (p : Pid) :
    satProject .relCostApprox I P b p = Gen.C10.relCostApproxSat (memI b p) (I.cost p) (normaliser .relCostApprox I b) := by
  unfold satProject Gen.C10.relCostApproxSat
  by_cases h : normaliser .relCostApprox I b = 0 <;> simp [h]

theorem relCostApproxNormaliser (I : Inst) (b : Ballot) :
    normaliser .relCostApprox I b = Gen.C10.relCostApproxNormaliser (costOf I.cost b.projects) I.budget := by
  unfold normaliser Gen.C10.relCostApproxNormaliser
  by_cases h : costOf I.cost b.projects ≤ I.budget
  · simp [h, min_eq_left h]
  · simp [h, min_eq_right (le_of_lt (not_le.mp h))]

theorem effort (I : Inst) (P : Profile) (b : Ballot) (p : Pid) :
    satProject .effort I P b p = Gen.C10.effortSat (memI b p) (I.cost p) ((effortDenominator P p : Nat) : Rat) := by
  unfold satProject Gen.C10.effortSat
  by_cases h : effortDenominator P p = 0
  · simp [h]
  · have : ((effortDenominator P p : Nat) : Rat) ≠ 0 := by exact_mod_cast h
    simp [h, this]

theorem addCardinal (I : Inst) (P : Profile) (b : Ballot) (p : Pid) :
    satProject .addCardinal I P b p = Gen.C10.addCardinalSat (b.score p) := rfl

theorem addCardinalRel (I : Inst) (P : Profile) (b : Ballot) (p : Pid) :
    satProject .addCardinalRel I P b p = Gen.C10.addCardinalRelSat (b.score p) (normaliser .addCardinalRel I b) := by
  unfold satProject Gen.C10.addCardinalRelSat
  by_cases h : normaliser .addCardinalRel I b = 0 <;> simp [h]

theorem borda (l : List Pid) (p : Pid) (h : l.contains p = true) (hpos : indexOf l p < l.length) :
    bordaScore l p = Gen.C10.bordaSat true (l.length : Nat) (indexOf l p : Nat) := by
  unfold bordaScore Gen.C10.bordaSat
  simp only [h, if_true]
  have : (l.length - indexOf l p - 1 : Nat) = l.length - (indexOf l p + 1) := by omega
  rw [this, Nat.cast_sub (by omega)]
  push_cast
  ring

theorem borda_absent (l : List Pid) (p : Pid) (h : l.contains p = false) (x y : Rat) :
    bordaScore l p = Gen.C10.bordaSat false x y := by
  unfold bordaScore Gen.C10.bordaSat
  have hn : ¬ (l.contains p = true) := by rw [h]; simp
  rw [if_neg hn]
  simp

end Pabu.Bridge.C10
