/-
  Bridge C02 — the regenerated leaf formulas of the Method of Equal Shares (Gen/C02.lean, produced from the
  current source of pabutools/rules/mes/mes_rule.py on every run) are the formulas of the model
  (PabuModel/MES.lean): per-voter share, multiplicity-weighted budget / satisfaction, the sort key of the
  supporter sweep, one step of the sweep, the affordability guard, the minimum / argmin of the round and the
  payment of a supporter.
-/
import Gen.C02
import PabuModel.MES
import Mathlib.Tactic.Ring
import Mathlib.Tactic.Linarith
import Mathlib.Algebra.Order.Field.Rat
namespace Pabu.Bridge.C02
open Pabu

/-! ### the per-voter share -/

/-- `method_of_equal_shares` starts every voter with `frac(budget_limit, num_ballots)` -/
theorem voterShare (V : VCtx) (I : Inst) (init : List Pid) (order : List Pid → Except Err (List Pid)) :
    MES.run V I init order =
      MES.runAt V I init order (Gen.C02.voterShare I.budget ((MES.numVoters V : Nat) : Rat)) := rfl

theorem voterShare_all (V : VCtx) (I : Inst) (init : List Pid) (order : List Pid → Except Err (List Pid)) :
    MES.runAll V I init order =
      MES.runAllAt V I init order (Gen.C02.voterShare I.budget ((MES.numVoters V : Nat) : Rat)) := rfl

/-! ### multiplicity-weighted budget and satisfaction -/

/-- summand of `available_budget = Σ voters[i].total_budget()` -/
theorem totalBudget (s : Sup) (r : List Sup) :
    budSum (s :: r) = Gen.C02.totalBudget ((s.m : Nat) : Rat) s.b + budSum r := rfl

/-- summand of `total_sat += v.total_sat_project(p)` (as used for the sweep's denominator) -/
theorem totalSatProject (s : Sup) (r : List Sup) :
    utilSum (s :: r) = Gen.C02.totalSatProject ((s.m : Nat) : Rat) s.u + utilSum r := rfl

/-- `total_sat` of a project: Σ over the supporters of `total_sat_project` -/
theorem totalSat (V : VCtx) (p : Pid) :
    MES.totalSat V p =
      sumOver (MES.supporters V p) (fun i => Gen.C02.totalSatProject ((V.m i : Nat) : Rat) (V.u i p)) := rfl

/-- the sweep's initial denominator `project.total_sat` is the model's `utilSum` of the supporter entries -/
theorem utilSum_sups (V : VCtx) (b : Nat → Rat) (p : Pid) :
    utilSum (MES.sups V b p) = MES.totalSat V p := by
  unfold MES.sups MES.totalSat
  induction MES.supporters V p with
  | nil => rfl
  | cons i r ih =>
    simp only [List.map_cons, utilSum, sumOver]
    rw [ih]

/-! ### the sort key of the supporters -/

theorem budgetOverSat (s t : Sup) :
    ratioLe s t = decide (Gen.C02.budgetOverSat s.b s.u ≤ Gen.C02.budgetOverSat t.b t.u) := rfl

/-! ### who supports, which projects enter the pool -/

theorem isSupporter (V : VCtx) (p : Pid) :
    MES.supporters V p = V.vs.filter (fun i => Gen.C02.isSupporter (V.u i p)) := rfl

theorem initPool (V : VCtx) (I : Inst) (init : List Pid) :
    MES.initPool V I init =
      (sortIds I.projects).filter (fun p =>
        !init.contains p && Gen.C02.isSupported (MES.totalSat V p) && Gen.C02.hasPositiveCost (I.cost p)) := rfl

theorem zeroCost (V : VCtx) (I : Inst) (init : List Pid) :
    MES.zeroCost V I init =
      (sortIds I.projects).filter (fun p =>
        !init.contains p && Gen.C02.isSupported (MES.totalSat V p) && !Gen.C02.hasPositiveCost (I.cost p)) := rfl

/-! ### the price of a project -/

/-- the guard `available_budget < project.cost` -/
theorem unaffordable (V : VCtx) (cost : Pid → Rat) (b : Nat → Rat) (p : Pid) :
    MES.rho V cost b p =
      if Gen.C02.unaffordable (budSum (MES.sups V b p)) (cost p) = true then none
      else sweep (cost p) (utilSum (MES.sups V b p)) (sortLe ratioLe (MES.sups V b p)) := by
  unfold MES.rho Gen.C02.unaffordable
  simp only [decide_eq_true_eq]

/-- one iteration of the supporter loop of `mes_inner_algo`, `R = cost − current_contribution` -/
theorem sweep_step (cost contribution D : Rat) (s : Sup) (rest : List Sup) :
    sweep (cost - contribution) D (s :: rest) =
      if Gen.C02.canPay (Gen.C02.affordFactor cost contribution D) s.u s.b = true then
        some (Gen.C02.affordFactor cost contribution D)
      else
        sweep (cost - Gen.C02.nextContribution contribution (Gen.C02.totalBudget ((s.m : Nat) : Rat) s.b))
          (Gen.C02.nextDenominator D ((s.m : Nat) : Rat) s.u) rest := by
  unfold Gen.C02.canPay Gen.C02.affordFactor Gen.C02.nextContribution Gen.C02.nextDenominator Gen.C02.totalBudget
  rw [sweep]
  simp only [decide_eq_true_eq]
  have h : cost - contribution - (s.m : Rat) * s.b = cost - (contribution + (s.m : Rat) * s.b) := by ring
  rw [h]

/-! ### the supporter sweep as a whole (statement-level leaf) -/

/-- what the sweep of project `p` leaves behind: its price (`project.affordability`), the best price of the round so far and the
    projects tied at it — `r` is the price the model's `sweep` finds (`none`: no supporter can pay, nothing changes) -/
def sweepOutcome (p : Nat) (aff : Rat) (best : Option Rat) (tied : List Nat) : Option Rat → Rat × Option Rat × List Nat
  | none => (aff, best, tied)
  | some r =>
    if Gen.C02.ltInf r best = true then (r, some r, [p])
    else if Gen.C02.eqInf r best = true then (r, best, tied ++ [p])
    else (r, best, tied)

/-- the WHOLE inner loop of `mes_inner_algo` (`for i in project.supporter_indices`, regenerated as `Gen.C02.sweepLoop`): run on the
    sorted supporters (money, utility, multiplicity) from `current_contribution = c`, `denominator = d` it computes exactly the
    price of the model's `sweep`, stores it as the project's affordability, and updates the round's best price / tied list as
    `sweepOutcome` says — the test precedes the update of the running totals, the first supporter who can pay ends the loop -/
theorem sweepLoop (cost : Rat) (p : Nat) : ∀ (sups : List Sup) (c d aff : Rat) (best : Option Rat) (tied : List Nat),
    (fun r => (r.2.2.1, r.2.2.2.1, r.2.2.2.2))
        (Gen.C02.sweepLoop cost p c d aff best tied (sups.map (fun s => (s.b, s.u, ((s.m : Nat) : Rat))))) =
      sweepOutcome p aff best tied (sweep (cost - c) d sups)
  | [], c, d, aff, best, tied => by simp [Gen.C02.sweepLoop, sweep, sweepOutcome]
  | s :: rest, c, d, aff, best, tied => by
    rw [List.map_cons, Gen.C02.sweepLoop, sweep]
    by_cases h : (cost - c) / d * s.u ≤ s.b
    · simp only [h, decide_true, if_true, sweepOutcome]
      by_cases h1 : Gen.C02.ltInf ((cost - c) / d) best = true
      · simp [h1]
      · by_cases h2 : Gen.C02.eqInf ((cost - c) / d) best = true
        · simp [h1, h2]
        · simp [h1, h2]
    · simp only [h, decide_false, if_false, Bool.false_eq_true]
      have ih := sweepLoop cost p rest (c + (s.m : Rat) * s.b) (d - (s.m : Rat) * s.u) aff best tied
      have hc : cost - (c + (s.m : Rat) * s.b) = cost - c - (s.m : Rat) * s.b := by ring
      rw [hc] at ih
      exact ih

/-- the first factor tried is the project's initial affordability `frac(p.cost, total_sat)`
    (`current_contribution = 0`, `denominator = total_sat`) -/
theorem initialAffordability (cost D : Rat) (s : Sup) (rest : List Sup) :
    sweep cost D (s :: rest) =
      if Gen.C02.canPay (Gen.C02.initialAffordability cost D) s.u s.b = true then
        some (Gen.C02.initialAffordability cost D)
      else
        sweep (cost - Gen.C02.nextContribution 0 (Gen.C02.totalBudget ((s.m : Nat) : Rat) s.b))
          (Gen.C02.nextDenominator D ((s.m : Nat) : Rat) s.u) rest := by
  have h := sweep_step cost 0 D s rest
  have e : Gen.C02.affordFactor cost 0 D = Gen.C02.initialAffordability cost D := by
    unfold Gen.C02.affordFactor Gen.C02.initialAffordability
    rw [sub_zero]
  rw [sub_zero, e] at h
  exact h

/-! ### minimum and argmin of the round -/

/-- `best_afford` is replaced exactly when `afford_factor < best_afford`: the model's running minimum -/
theorem improvesBest (x : Rat) (xs : List Rat) (y : Rat) (h : minRat xs = some y) :
    minRat (x :: xs) = some (if Gen.C02.improvesBest x y = true then x else y) := by
  unfold Gen.C02.improvesBest
  rw [minRat, h]
  simp only [decide_eq_true_eq]
  by_cases hlt : x < y
  · rw [if_pos (le_of_lt hlt), if_pos hlt]
  · by_cases hle : x ≤ y
    · have : x = y := le_antisymm hle (not_lt.mp hlt)
      rw [if_pos hle, if_neg hlt, this]
    · rw [if_neg hle, if_neg hlt]

theorem improvesBest_pair (x y : Rat) :
    minRat [x, y] = some (if Gen.C02.improvesBest x y = true then x else y) :=
  improvesBest x [y] y rfl

private theorem minRat_le : ∀ {l : List Rat} {m : Rat}, minRat l = some m → ∀ x ∈ l, m ≤ x
  | [], _, h => by simp [minRat] at h
  | x :: xs, m, h => by
    intro z hz
    rw [minRat] at h
    cases hm : minRat xs with
    | none =>
      rw [hm] at h
      have hx : x = m := by simpa using h
      cases xs with
      | nil =>
        have : z = x := by simpa using hz
        rw [this, hx]
      | cons a as =>
        rw [minRat] at hm
        cases h2 : minRat as <;> rw [h2] at hm <;> simp at hm
    | some y =>
      rw [hm] at h
      have ih := minRat_le hm
      have hm' : (if x ≤ y then x else y) = m := by simpa using h
      rcases List.mem_cons.mp hz with rfl | hz'
      · by_cases hxy : z ≤ y
        · rw [if_pos hxy] at hm'; rw [← hm']
        · rw [if_neg hxy] at hm'; rw [← hm']; exact le_of_lt (not_le.mp hxy)
      · by_cases hxy : x ≤ y
        · rw [if_pos hxy] at hm'; rw [← hm']; exact le_trans hxy (ih z hz')
        · rw [if_neg hxy] at hm'; rw [← hm']; exact ih z hz'

/-- no affordable project improves on the model's `best` -/
theorem best_not_improved (V : VCtx) (cost : Pid → Rat) (s : MES.State) (r : Rat)
    (h : MES.best V cost s = some r) (e : Pid × Rat) (he : e ∈ MES.affordable V cost s) :
    Gen.C02.improvesBest e.2 r = false := by
  unfold Gen.C02.improvesBest
  have := minRat_le h e.2 (List.mem_map.mpr ⟨e, he, rfl⟩)
  simpa using this

/-- the tied projects are those with `afford_factor == best_afford` -/
theorem tiesBest (V : VCtx) (cost : Pid → Rat) (s : MES.State) :
    MES.tied V cost s =
      match MES.best V cost s with
      | none => []
      | some r => ((MES.affordable V cost s).filter (fun e => Gen.C02.tiesBest e.2 r)).map Prod.fst := rfl

/-! ### the payment -/

theorem payment (V : VCtx) (b : Nat → Rat) (t : Pid) (r : Rat) (i : Nat) :
    MES.pay V b t r i =
      if Gen.C02.isSupporter (V.u i t) = true then Gen.C02.payment (b i) r (V.u i t) else 0 := by
  unfold MES.pay Gen.C02.isSupporter Gen.C02.payment
  simp only [gt_iff_lt, decide_eq_true_eq]

/-- summand of the model's `paySum` -/
theorem payment_sum (rho : Rat) (s : Sup) (r : List Sup) :
    paySum rho (s :: r) = (s.m : Rat) * Gen.C02.payment s.b rho s.u + paySum rho r := rfl

/-! ### the hypotheses are satisfiable -/

example : minRat [3, 2] = some (2 : Rat) := by
  rw [improvesBest_pair]; simp [Gen.C02.improvesBest]; norm_num

end Pabu.Bridge.C02
