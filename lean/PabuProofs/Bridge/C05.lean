/-
  Bridge C05 — the regenerated leaf formulas of sequential Phragmén (Gen/C05.lean, produced from the current
  source of pabutools/rules/phragmen.py on every run) are the formulas of the model (PabuModel/Phragmen.lean):
  multiplicity-weighted load, the new maximum load of a project, the overshoot (stop) test and the initial
  candidate filter.
-/
import Gen.C05
import PabuModel.Phragmen
import Mathlib.Tactic.Ring
import Mathlib.Tactic.NormNum
import Mathlib.Algebra.Order.Field.Rat
namespace Pabu.Bridge.C05
open Pabu

/-- `new_maxload`: `inf` when `approval_scores[project] == 0`, otherwise
    `frac(Σ voters[i].total_load() + project.cost, approval_scores[project])`, the summand of the load sum
    being `PhragmenVoter.total_load` = `multiplicity * load` -/
theorem newMaxLoad (C : Phragmen.Ctx) (s : Phragmen.State) (p : Pid) :
    Phragmen.newMax C s p =
      if Gen.C05.unsupported ((Phragmen.score C p : Nat) : Rat) = true then none
      else some (Gen.C05.newMaxLoad
        (sumOver (Phragmen.supporters C p) (fun i => Gen.C05.totalLoad ((C.m i : Nat) : Rat) (s.load i)))
        (C.cost p) ((Phragmen.score C p : Nat) : Rat)) := by
  unfold Phragmen.newMax Gen.C05.unsupported Gen.C05.newMaxLoad Gen.C05.totalLoad
  by_cases h : Phragmen.score C p = 0
  · simp [h]
  · have hq : ((Phragmen.score C p : Nat) : Rat) ≠ 0 := by exact_mod_cast h
    simp [h, hq]

/-- `unsupported` alone: the model's guard `score C p = 0` -/
theorem unsupported (C : Phragmen.Ctx) (p : Pid) :
    Gen.C05.unsupported ((Phragmen.score C p : Nat) : Rat) = decide (Phragmen.score C p = 0) := by
  unfold Gen.C05.unsupported
  rw [decide_eq_decide]
  exact Nat.cast_eq_zero

/-- summand of the load sum -/
theorem totalLoad (C : Phragmen.Ctx) (s : Phragmen.State) (i : Nat) (r : List Nat) :
    sumOver (i :: r) (fun i => (C.m i : Rat) * s.load i) =
      Gen.C05.totalLoad ((C.m i : Nat) : Rat) (s.load i) + sumOver r (fun i => (C.m i : Rat) * s.load i) := rfl

/-- the round stops as soon as a minimiser has `cost + project.cost > inst.budget_limit` -/
theorem overshoots (C : Phragmen.Ctx) (s : Phragmen.State) :
    Phragmen.tied C s =
      if (Phragmen.argmin C s).any (fun p => Gen.C05.overshoots s.spent (C.cost p) C.budget) = true then []
      else Phragmen.argmin C s := rfl

/-- the initial pool: `p not in initial_budget_allocation and p.cost <= instance.budget_limit` -/
theorem isCandidate (C : Phragmen.Ctx) (projects init : List Pid) (loads : Nat → Rat) :
    Phragmen.initState C projects init loads =
      { load := loads
        pool := (sortIds projects).filter (fun p => Gen.C05.isCandidate (init.contains p) (C.cost p) C.budget)
        alloc := init
        spent := costOf C.cost init } := rfl

example : Gen.C05.overshoots 3 2 4 = true ∧ Gen.C05.overshoots 2 2 4 = false := by
  norm_num [Gen.C05.overshoots]

end Pabu.Bridge.C05
