/-
  Bridge C05 — the regenerated leaf formulas of sequential Phragmén (Gen/C05.lean, produced from the current
  source of pabutools/rules/phragmen.py on every run) are the formulas of the model (PabuModel/Phragmen.lean):
  multiplicity-weighted load, the new maximum load of a project, the overshoot (stop) test and the initial
  candidate filter.
-/
import Gen.C05
import PabuModel.Phragmen
import PabuProofs.Lemmas.Phragmen
import PabuProofs.Lemmas.Greedy
import Mathlib.Tactic.Ring
import Mathlib.Tactic.NormNum
import Mathlib.Algebra.Order.Field.Rat
namespace Pabu.Bridge.C05
open Pabu

/-- `new_maxload`: `inf` when `approval_scores[project] == 0`, otherwise
    `frac(Σ voters[i].total_load() + project.cost, approval_scores[project])`, the summand of the load sum
    being `PhragmenVoter.total_load` = `multiplicity * load` -/
theorem newMaxLoad (C : Phragmen.Ctx) (s : Phragmen.State) (p : Pid) :
    Phragmen.newMax C s p =
      if Gen.C05.unsupported ((Phragmen.score C p : Nat) : Rat) = true then none
      else some (Gen.C05.newMaxLoad
        (sumOver (Phragmen.supporters C p) (fun i => Gen.C05.totalLoad ((C.m i : Nat) : Rat) (s.load i)))
        (C.cost p) ((Phragmen.score C p : Nat) : Rat)) := by
  unfold Phragmen.newMax Gen.C05.unsupported Gen.C05.newMaxLoad Gen.C05.totalLoad
  by_cases h : Phragmen.score C p = 0
  · simp [h]
  · have hq : ((Phragmen.score C p : Nat) : Rat) ≠ 0 := by exact_mod_cast h
    simp [h, hq]


/-! ### the arg-min loop of a round as a whole (statement-level leaf) -/

/-- the new maximum load of one element of the loop: `x` = (project, approval score, summed loads of its supporters, cost) -/
def keyOf (x : Nat × Rat × Rat × Rat) : ERat := if x.2.1 = 0 then none else some ((x.2.2.1 + x.2.2.2) / x.2.1)

theorem ltE_eq (a b : ERat) : Gen.C05.ltE a b = !(ERat.le b a) := by
  cases a with
  | none => cases b <;> simp [Gen.C05.ltE, ERat.le]
  | some a =>
    cases b with
    | none => simp [Gen.C05.ltE, ERat.le]
    | some b =>
      simp only [Gen.C05.ltE, ERat.le]
      by_cases h : a < b
      · simp [h, not_le.mpr h]
      · simp [h, not_lt.mp h]

/-- one iteration, in terms of the element's new maximum load -/
theorem argminLoop_cons (best : Option ERat) (arg : List Nat) (x : Nat × Rat × Rat × Rat) (xs : List (Nat × Rat × Rat × Rat)) :
    Gen.C05.argminLoop best arg (x :: xs) =
      if (best.isNone || Gen.C05.ltOptE (keyOf x) best) = true then Gen.C05.argminLoop (some (keyOf x)) [x.1] xs
      else if Gen.C05.eqOptE (keyOf x) best = true then Gen.C05.argminLoop best (arg ++ [x.1]) xs
      else Gen.C05.argminLoop best arg xs := by
  rw [Gen.C05.argminLoop]
  unfold keyOf
  by_cases h : x.2.1 = 0
  · simp only [h, decide_true, if_true]
  · simp only [h, decide_false, if_false, Bool.false_eq_true]

theorem emin_unique {l : List ERat} {m : ERat} (hm : m ∈ l) (hle : ∀ a ∈ l, ERat.le m a = true) : Phragmen.emin l = m := by
  have hne : l ≠ [] := by intro h; rw [h] at hm; cases hm
  exact Greedy.ERat_le_antisymm (Phragmen.emin_le l m hm) (hle _ (Phragmen.emin_mem l hne))

/-- what the loop is to compute on the elements `xs`: nothing, or the least new maximum load and the projects attaining it, in order -/
def argminSpec (xs : List (Nat × Rat × Rat × Rat)) : Option ERat × List Nat :=
  (if xs = [] then none else some (Phragmen.emin (xs.map keyOf)), (xs.filter (fun x => keyOf x == Phragmen.emin (xs.map keyOf))).map (·.1))

private theorem inv_step (pre : List (Nat × Rat × Rat × Rat)) (hpre : pre ≠ []) (x : Nat × Rat × Rat × Rat) :
    let m := Phragmen.emin (pre.map keyOf)
    let m' := Phragmen.emin ((pre ++ [x]).map keyOf)
    (Gen.C05.ltE (keyOf x) m = true → m' = keyOf x ∧ ((pre ++ [x]).filter (fun y => keyOf y == m')).map (·.1) = [x.1]) ∧
    (Gen.C05.ltE (keyOf x) m = false → keyOf x = m → m' = m ∧
        ((pre ++ [x]).filter (fun y => keyOf y == m')).map (·.1) = (pre.filter (fun y => keyOf y == m)).map (·.1) ++ [x.1]) ∧
    (Gen.C05.ltE (keyOf x) m = false → keyOf x ≠ m → m' = m ∧
        ((pre ++ [x]).filter (fun y => keyOf y == m')).map (·.1) = (pre.filter (fun y => keyOf y == m)).map (·.1)) := by
  intro m m'
  have hne : pre.map keyOf ≠ [] := by simpa using hpre
  have hmem : m ∈ pre.map keyOf := Phragmen.emin_mem _ hne
  have hle : ∀ a ∈ pre.map keyOf, ERat.le m a = true := Phragmen.emin_le _
  have hmap : (pre ++ [x]).map keyOf = pre.map keyOf ++ [keyOf x] := by simp
  refine ⟨?_, ?_, ?_⟩
  · intro hlt
    rw [ltE_eq] at hlt
    have hxm : ERat.le m (keyOf x) = false := by simpa using hlt
    have hxle : ERat.le (keyOf x) m = true := by
      rcases Greedy.ERat_le_total (keyOf x) m with h | h
      · exact h
      · rw [h] at hxm; cases hxm
    have hm' : m' = keyOf x := by
      apply emin_unique
      · rw [hmap]; simp
      · intro a ha
        rw [hmap] at ha
        rcases List.mem_append.mp ha with ha | ha
        · exact Greedy.ERat_le_trans hxle (hle a ha)
        · rw [List.mem_singleton.mp ha]; exact Greedy.ERat_le_refl _
    refine ⟨hm', ?_⟩
    rw [hm', List.filter_append]
    have hnone : pre.filter (fun y => keyOf y == keyOf x) = [] := by
      rw [List.filter_eq_nil_iff]
      intro y hy hy'
      have heq : keyOf y = keyOf x := by simpa using hy'
      have := hle (keyOf y) (List.mem_map_of_mem hy)
      rw [heq, hxm] at this
      cases this
    rw [hnone]
    simp
  · intro hlt heq
    have hm' : m' = m := by
      apply emin_unique
      · rw [hmap]; exact List.mem_append_left _ hmem
      · intro a ha
        rw [hmap] at ha
        rcases List.mem_append.mp ha with ha | ha
        · exact hle a ha
        · rw [List.mem_singleton.mp ha, heq]; exact Greedy.ERat_le_refl _
    refine ⟨hm', ?_⟩
    rw [hm', List.filter_append]
    simp [heq]
  · intro hlt hne'
    rw [ltE_eq] at hlt
    have hmx : ERat.le m (keyOf x) = true := by simpa using hlt
    have hm' : m' = m := by
      apply emin_unique
      · rw [hmap]; exact List.mem_append_left _ hmem
      · intro a ha
        rw [hmap] at ha
        rcases List.mem_append.mp ha with ha | ha
        · exact hle a ha
        · rw [List.mem_singleton.mp ha]; exact hmx
    refine ⟨hm', ?_⟩
    rw [hm', List.filter_append]
    simp [hne']

private theorem inv : ∀ (ys pre : List (Nat × Rat × Rat × Rat)), pre ≠ [] →
    Gen.C05.argminLoop (some (Phragmen.emin (pre.map keyOf))) ((pre.filter (fun y => keyOf y == Phragmen.emin (pre.map keyOf))).map (·.1)) ys =
      argminSpec (pre ++ ys)
  | [], pre, hpre => by simp [Gen.C05.argminLoop, argminSpec, hpre]
  | x :: ys, pre, hpre => by
    have hs := inv_step pre hpre x
    simp only at hs
    obtain ⟨h1, h2, h3⟩ := hs
    have hne : pre ++ [x] ≠ [] := by simp
    have ih := inv ys (pre ++ [x]) hne
    rw [List.append_assoc] at ih
    simp only [List.singleton_append] at ih
    rw [argminLoop_cons]
    simp only [Option.isNone_some, Bool.false_or, Gen.C05.ltOptE, Gen.C05.eqOptE]
    by_cases hlt : Gen.C05.ltE (keyOf x) (Phragmen.emin (pre.map keyOf)) = true
    · obtain ⟨hm, hf⟩ := h1 hlt
      simp only [hlt, if_true]
      rw [← ih, hf, hm]
    · have hlt' : Gen.C05.ltE (keyOf x) (Phragmen.emin (pre.map keyOf)) = false := by simpa using hlt
      simp only [hlt', if_false, Bool.false_eq_true]
      by_cases heq : keyOf x = Phragmen.emin (pre.map keyOf)
      · obtain ⟨hm, hf⟩ := h2 hlt' heq
        have hb : (keyOf x == Phragmen.emin (pre.map keyOf)) = true := by simp [heq]
        simp only [hb, if_true]
        rw [← ih, hf, hm]
      · obtain ⟨hm, hf⟩ := h3 hlt' heq
        have hb : (keyOf x == Phragmen.emin (pre.map keyOf)) = false := by simpa using heq
        simp only [hb, if_false, Bool.false_eq_true]
        rw [← ih, hf, hm]

/-- the WHOLE arg-min loop of a Phragmen round (statement-level leaf `Gen.C05.argminLoop`, regenerated from `for project in projects: …`),
    started as the code starts it (`None`, `None`): the least new maximum load over the elements and the projects attaining it, in order -/
theorem argminLoop_spec (xs : List (Nat × Rat × Rat × Rat)) : Gen.C05.argminLoop none [] xs = argminSpec xs := by
  cases xs with
  | nil => simp [Gen.C05.argminLoop, argminSpec]
  | cons x ys =>
    rw [argminLoop_cons]
    simp only [Option.isNone_none, Bool.true_or, if_true]
    have h := inv ys [x] (by simp)
    have hk : Phragmen.emin ([x].map keyOf) = keyOf x := by simp [Phragmen.emin]
    rw [hk] at h
    simpa using h

/-- … and on the pool of a round with the model's quantities (approval score, multiplicity-weighted loads of the supporters, cost) that
    is the model's `argmin`: the projects whose new maximum load is the least one -/
theorem argminLoop_model (C : Phragmen.Ctx) (s : Phragmen.State) :
    (Gen.C05.argminLoop none [] (s.pool.map (fun p => (p, ((Phragmen.score C p : Nat) : Rat),
        sumOver (Phragmen.supporters C p) (fun i => (C.m i : Rat) * s.load i), C.cost p)))).2 = Phragmen.argmin C s := by
  rw [argminLoop_spec]
  unfold argminSpec Phragmen.argmin
  have hk : ∀ p, keyOf (p, ((Phragmen.score C p : Nat) : Rat), sumOver (Phragmen.supporters C p) (fun i => (C.m i : Rat) * s.load i), C.cost p)
      = Phragmen.newMax C s p := by
    intro p
    unfold keyOf Phragmen.newMax
    by_cases h : Phragmen.score C p = 0
    · simp [h]
    · have hq : ((Phragmen.score C p : Nat) : Rat) ≠ 0 := by exact_mod_cast h
      simp [h, hq]
  simp only [List.map_map, Function.comp_def, hk, List.filter_map]
  simp [List.map_map, Function.comp_def, hk]

/-- `unsupported` alone: the model's guard `score C p = 0` -/
theorem unsupported (C : Phragmen.Ctx) (p : Pid) :
    Gen.C05.unsupported ((Phragmen.score C p : Nat) : Rat) = decide (Phragmen.score C p = 0) := by
  unfold Gen.C05.unsupported
  rw [decide_eq_decide]
  exact Nat.cast_eq_zero

/-- summand of the load sum -/
theorem totalLoad (C : Phragmen.Ctx) (s : Phragmen.State) (i : Nat) (r : List Nat) :
    sumOver (i :: r) (fun i => (C.m i : Rat) * s.load i) =
      Gen.C05.totalLoad ((C.m i : Nat) : Rat) (s.load i) + sumOver r (fun i => (C.m i : Rat) * s.load i) := rfl

/-- the round stops as soon as a minimiser has `cost + project.cost > inst.budget_limit` -/
theorem overshoots (C : Phragmen.Ctx) (s : Phragmen.State) :
    Phragmen.tied C s =
      if (Phragmen.argmin C s).any (fun p => Gen.C05.overshoots s.spent (C.cost p) C.budget) = true then []
      else Phragmen.argmin C s := rfl

/-- the initial pool: `p not in initial_budget_allocation and p.cost <= instance.budget_limit` -/
theorem isCandidate (C : Phragmen.Ctx) (projects init : List Pid) (loads : Nat → Rat) :
    Phragmen.initState C projects init loads =
      { load := loads
        pool := (sortIds projects).filter (fun p => Gen.C05.isCandidate (init.contains p) (C.cost p) C.budget)
        alloc := init
        spent := costOf C.cost init } := rfl

example : Gen.C05.overshoots 3 2 4 = true ∧ Gen.C05.overshoots 2 2 4 = false := by
  norm_num [Gen.C05.overshoots]

end Pabu.Bridge.C05
