/-
  Bridge C19 — the regenerated leaf formulas of rule comparison (Gen/C19.lean, produced from the current source
  of pabutools/rules/composition.py on every run) are the formulas of the model (PabuModel/Composition.lean).

  The code computes its arg-max with a running maximum:  `if max is None or x > max: max = x; argmax = [r]`
  `elif x == max: argmax.append(r)`.  `argmaxLoop improves ties` is that loop over an arbitrary pair of tests;
  `argmaxLoop_spec` proves that, for tests that are "first or strictly greater" and "equal", the loop returns
  the maximum and exactly the elements attaining it, in order (`filter (· = max)`).  The two instances
  (`welfareCmp`, `favourites`) plug in the regenerated tests, so replacing `>` by `>=` or `==` by anything
  else in the source breaks them.
-/
import Gen.C19
import PabuModel.Composition
import PabuProofs.Lemmas.Election
import Mathlib.Tactic.Linarith
import Mathlib.Tactic.NormNum
import Mathlib.Algebra.Order.Field.Rat
namespace Pabu.Bridge.C19
open Pabu Pabu.Composition

/-! ### the running-maximum loop of the code -/

/-- one iteration: state = (`max`, `argmax`) -/
def step {α : Type} (improves : Bool → Rat → Rat → Bool) (ties : Rat → Rat → Bool) (f : α → Rat)
    (st : Option Rat × List α) (x : α) : Option Rat × List α :=
  match st.1 with
  | none => if improves true (f x) 0 = true then (some (f x), [x]) else st
  | some m =>
    if improves false (f x) m = true then (some (f x), [x])
    else if ties (f x) m = true then (some m, st.2 ++ [x])
    else st

/-- `max = None; argmax = None; for x in xs: …` -/
def argmaxLoop {α : Type} (improves : Bool → Rat → Rat → Bool) (ties : Rat → Rat → Bool) (f : α → Rat)
    (xs : List α) : Option Rat × List α :=
  xs.foldl (step improves ties f) (none, [])

/-- what the loop is meant to compute -/
def argmaxSpec {α : Type} (f : α → Rat) (xs : List α) : Option Rat × List α :=
  (maxRat (xs.map f),
    match maxRat (xs.map f) with
    | none => []
    | some mx => xs.filter (fun r => decide (f r = mx)))

theorem maxRat_eq_some {l : List Rat} {v : Rat} (hv : v ∈ l) (hle : ∀ x ∈ l, x ≤ v) : maxRat l = some v := by
  cases h : maxRat l with
  | none => rw [Election.maxRat_eq_none.1 h] at hv; cases hv
  | some m => rw [le_antisymm (hle m (Election.maxRat_mem h)) (Election.maxRat_ge h v hv)]

/-- the maximum after one more element -/
theorem maxRat_snoc (l : List Rat) (x : Rat) :
    maxRat (l ++ [x]) = some (match maxRat l with
      | none => x
      | some m => if m < x then x else m) := by
  cases h : maxRat l with
  | none =>
    rw [Election.maxRat_eq_none.1 h]
    rfl
  | some m =>
    have hmem := Election.maxRat_mem h
    have hge := Election.maxRat_ge h
    by_cases hx : m < x
    · simp only [if_pos hx]
      apply maxRat_eq_some (by simp)
      intro y hy
      rcases List.mem_append.mp hy with hy | hy
      · exact le_of_lt (lt_of_le_of_lt (hge y hy) hx)
      · rw [List.mem_singleton.mp hy]
    · simp only [if_neg hx]
      apply maxRat_eq_some (List.mem_append_left _ hmem)
      intro y hy
      rcases List.mem_append.mp hy with hy | hy
      · exact hge y hy
      · rw [List.mem_singleton.mp hy]; exact not_lt.mp hx

/-- one iteration of the loop preserves "state = specification of the prefix" -/
theorem step_spec {α : Type} (improves : Bool → Rat → Rat → Bool) (ties : Rat → Rat → Bool)
    (hfirst : ∀ x b, improves true x b = true)
    (himp : ∀ x b, improves false x b = decide (x > b))
    (hties : ∀ x b, ties x b = decide (x = b))
    (f : α → Rat) (pre : List α) (x : α) :
    step improves ties f (argmaxSpec f pre) x = argmaxSpec f (pre ++ [x]) := by
  unfold argmaxSpec step
  rw [List.map_append, List.map_singleton, maxRat_snoc]
  cases h : maxRat (pre.map f) with
  | none =>
    have hnil : pre = [] := by
      have := Election.maxRat_eq_none.1 h
      simpa using this
    subst hnil
    simp [hfirst]
  | some m =>
    have hge : ∀ y ∈ pre, f y ≤ m := fun y hy => Election.maxRat_ge h (f y) (List.mem_map_of_mem hy)
    simp only [himp, hties, gt_iff_lt, decide_eq_true_eq]
    by_cases hlt : m < f x
    · simp only [if_pos hlt]
      congr 1
      rw [List.filter_append]
      have : pre.filter (fun r => decide (f r = f x)) = [] := by
        rw [List.filter_eq_nil_iff]
        intro y hy
        have := hge y hy
        simp only [decide_eq_true_eq]
        intro he
        rw [he] at this
        exact absurd hlt (not_lt.mpr this)
      rw [this]
      simp
    · simp only [if_neg hlt]
      by_cases heq : f x = m
      · rw [if_pos heq, List.filter_append]
        simp [heq]
      · rw [if_neg heq, List.filter_append]
        simp [heq]

/-- a loop that replaces when `improves` (first element, or strictly greater than the running maximum) and
    appends when `ties` (equal to it) computes the maximum and exactly `filter (· = max)` -/
theorem argmaxLoop_spec {α : Type} (improves : Bool → Rat → Rat → Bool) (ties : Rat → Rat → Bool)
    (hfirst : ∀ x b, improves true x b = true)
    (himp : ∀ x b, improves false x b = decide (x > b))
    (hties : ∀ x b, ties x b = decide (x = b))
    (f : α → Rat) (xs : List α) :
    argmaxLoop improves ties f xs = argmaxSpec f xs := by
  unfold argmaxLoop
  have key : ∀ (ys pre : List α),
      ys.foldl (step improves ties f) (argmaxSpec f pre) = argmaxSpec f (pre ++ ys) := by
    intro ys
    induction ys with
    | nil => intro pre; simp
    | cons y ys ih =>
      intro pre
      rw [List.foldl_cons, step_spec improves ties hfirst himp hties, ih]
      simp
  have := key xs []
  simpa [argmaxSpec, maxRat] using this

/-! ### the regenerated tests are of that shape -/

/-- `max_social_welfare is None or social_welfare > max_social_welfare` -/
theorem welfareImproves (x best : Rat) :
    Gen.C19.welfareImproves true x best = true ∧ Gen.C19.welfareImproves false x best = decide (x > best) := by
  unfold Gen.C19.welfareImproves
  simp

/-- `social_welfare == max_social_welfare` -/
theorem welfareTies (x best : Rat) : Gen.C19.welfareTies x best = decide (x = best) := rfl

/-- `max_sat is None or s > max_sat` -/
theorem voterImproves (x best : Rat) :
    Gen.C19.voterImproves true x best = true ∧ Gen.C19.voterImproves false x best = decide (x > best) := by
  unfold Gen.C19.voterImproves
  simp

/-- `s == max_sat` -/
theorem voterTies (x best : Rat) : Gen.C19.voterTies x best = decide (x = best) := rfl

/-! ### the model's formulas are the code's loops -/

/-- the loop `for …: if all(set(res) != set(other) for other in results): results.append(res)` over an arbitrary
    pair of tests (`isNew` of the value of `all(…)`, `differs` of "same outcome") -/
def collectLoop (isNew : Bool → Bool) (differs : Bool → Bool) (rs : List (List Pid)) : List (List Pid) :=
  rs.foldl (fun acc r => if isNew (acc.all (fun o => differs (r == o))) = true then acc ++ [r] else acc) []

theorem collect_spec (acc rs : List (List Pid)) :
    rs.foldl (fun acc r => if acc.all (fun o => !(r == o)) = true then acc ++ [r] else acc) acc =
      acc ++ (dedup rs).filter (fun y => acc.all (fun o => !(y == o))) := by
  induction rs generalizing acc with
  | nil => simp [dedup]
  | cons x xs ih =>
    rw [List.foldl_cons, dedup, List.filter_cons]
    by_cases hx : acc.all (fun o => !(x == o)) = true
    · rw [if_pos hx, if_pos hx, ih, List.append_assoc, List.singleton_append, List.filter_filter]
      congr 2
      apply List.filter_congr
      intro y _
      rw [List.all_append]
      simp [Bool.and_comm]
    · rw [if_neg hx, if_neg hx, ih, List.filter_filter]
      congr 1
      apply List.filter_congr
      intro y _
      by_cases hy : acc.all (fun o => !(y == o)) = true
      · rw [hy, Bool.true_and]
        by_cases hyx : y = x
        · rw [hyx] at hy; exact absurd hy hx
        · simp [hyx]
      · simp at hy
        simp [hy]

/-- the distinct outcomes of the model are what the code's loop collects (outcomes reach the model as sorted id
    lists, so `set(res) != set(other)` is list inequality there) -/
theorem isNew (rs : List (List Pid)) :
    distinct rs = collectLoop Gen.C19.isNew Gen.C19.differs rs ∧
    distinct rs = collectLoop Gen.C19.isNewPopularity Gen.C19.differsPopularity rs := by
  have h := collect_spec [] rs
  simp only [List.all_nil, List.nil_append, List.filter_true] at h
  exact ⟨h.symm, h.symm⟩

/-- `social_welfare_comparison`: the model's result is the `argmax` list of the code's loop over the distinct
    outcomes -/
theorem welfareCmp (tsat : List Pid → Rat) (rs : List (List Pid)) :
    Composition.welfareCmp tsat rs =
      (argmaxLoop Gen.C19.welfareImproves Gen.C19.welfareTies tsat (distinct rs)).2 := by
  rw [argmaxLoop_spec _ _ (fun x b => (welfareImproves x b).1) (fun x b => (welfareImproves x b).2) welfareTies]
  rfl

/-- the WHOLE arg-max loop of `social_welfare_comparison` (statement-level leaf `Gen.C19.welfareLoop`, regenerated from
    `for result in results: …`): on the outcomes paired with their total satisfaction it is the running-maximum loop `step` the
    theorems above are about — same maximum, same list of maximisers in the same order -/
theorem welfareLoop_eq_foldl : ∀ (xs : List (Nat × Rat)) (best : Option Rat) (argP : List (Nat × Rat)),
    Gen.C19.welfareLoop best (argP.map Prod.fst) xs =
      (fun st => (st.1, st.2.map Prod.fst))
        (xs.foldl (step Gen.C19.welfareImproves Gen.C19.welfareTies Prod.snd) (best, argP))
  | [], best, argP => by simp [Gen.C19.welfareLoop]
  | x :: xs, best, argP => by
    rw [Gen.C19.welfareLoop, List.foldl_cons]
    cases best with
    | none =>
      have h := welfareLoop_eq_foldl xs (some x.2) [x]
      simp only [List.map_cons, List.map_nil] at h
      simp only [Option.isNone_none, Bool.true_or, if_true, step, Gen.C19.welfareImproves]
      exact h
    | some m =>
      simp only [Option.isNone_some, Bool.false_or, Gen.C19.gtOpt, Gen.C19.eqOpt, step, Gen.C19.welfareImproves,
        Gen.C19.welfareTies]
      by_cases h1 : x.2 > m
      · have h := welfareLoop_eq_foldl xs (some x.2) [x]
        simp only [List.map_cons, List.map_nil] at h
        simp only [h1, decide_true, if_true]
        exact h
      · by_cases h2 : x.2 = m
        · have h := welfareLoop_eq_foldl xs (some m) (argP ++ [x])
          simp only [List.map_append, List.map_cons, List.map_nil] at h
          simp only [h1, h2, decide_false, decide_true, if_true, if_false, Bool.false_eq_true]
          simpa [h2] using h
        · have h := welfareLoop_eq_foldl xs (some m) argP
          simp only [h1, h2, decide_false, if_false, Bool.false_eq_true]
          exact h

/-- hence the regenerated loop, started as the code starts it (`None`, no arg-max yet) on the distinct outcomes numbered in order,
    returns the positions of exactly the outcomes the model's `welfareCmp` returns -/
theorem welfareLoop_spec (f : Nat → Rat) (idx : List Nat) :
    Gen.C19.welfareLoop none [] (idx.map (fun i => (i, f i))) =
      (maxRat (idx.map f), match maxRat (idx.map f) with
        | none => []
        | some mx => idx.filter (fun i => decide (f i = mx))) := by
  have h := welfareLoop_eq_foldl (idx.map (fun i => (i, f i))) none []
  simp only [List.map_nil] at h
  rw [h]
  have hs := argmaxLoop_spec Gen.C19.welfareImproves Gen.C19.welfareTies (fun x b => (welfareImproves x b).1)
    (fun x b => (welfareImproves x b).2) welfareTies (Prod.snd : Nat × Rat → Rat) (idx.map (fun i => (i, f i)))
  unfold argmaxLoop at hs
  rw [hs]
  unfold argmaxSpec
  have hm : (idx.map (fun i => (i, f i))).map Prod.snd = idx.map f := by simp [List.map_map, Function.comp_def]
  rw [hm]
  cases maxRat (idx.map f) with
  | none => rfl
  | some mx =>
    simp only [List.filter_map, List.map_map, Function.comp_def]
    congr 1
    induction idx with
    | nil => rfl
    | cons i is ih => simp [List.filter_cons, ih]

/-- the per-voter arg-max loop of `popularity_comparison` (statement-level leaf `Gen.C19.voterLoop`, regenerated from
    `for i, s in enumerate(sats): …`) is the SAME loop as the one of the welfare comparison … -/
theorem voterLoop_eq_welfareLoop : ∀ (xs : List (Nat × Rat)) (best : Option Rat) (arg : List Nat),
    Gen.C19.voterLoop best arg xs = Gen.C19.welfareLoop best arg xs
  | [], best, arg => by simp [Gen.C19.voterLoop, Gen.C19.welfareLoop]
  | x :: xs, best, arg => by
    rw [Gen.C19.voterLoop, Gen.C19.welfareLoop, voterLoop_eq_welfareLoop xs, voterLoop_eq_welfareLoop xs, voterLoop_eq_welfareLoop xs]

/-- … hence, on a voter's satisfactions with the outcomes numbered in order, it returns the positions of exactly the voter's
    favourite outcomes (all of them when she is indifferent) -/
theorem voterLoop_spec (f : Nat → Rat) (idx : List Nat) :
    Gen.C19.voterLoop none [] (idx.map (fun i => (i, f i))) =
      (maxRat (idx.map f), match maxRat (idx.map f) with
        | none => []
        | some mx => idx.filter (fun i => decide (f i = mx))) := by
  rw [voterLoop_eq_welfareLoop, welfareLoop_spec]

/-- the per-voter loop of `popularity_comparison`: the model's favourites of a voter are the `arg_max_sat`
    list of the code's loop -/
theorem favourites (s : List Pid → Rat) (rs : List (List Pid)) :
    Composition.favourites s rs = (argmaxLoop Gen.C19.voterImproves Gen.C19.voterTies s rs).2 := by
  rw [argmaxLoop_spec _ _ (fun x b => (voterImproves x b).1) (fun x b => (voterImproves x b).2) voterTies]
  rfl

/-- `result_support[i] += sat_profile.multiplicity(sat)` for the outcomes in a voter's `arg_max_sat` -/
theorem supportUpdate (v : (List Pid → Rat) × Nat) (voters : List ((List Pid → Rat) × Nat))
    (rs : List (List Pid)) (r : List Pid) :
    ((support (v :: voters) rs r : Nat) : Rat) =
      if ((argmaxLoop Gen.C19.voterImproves Gen.C19.voterTies v.1 rs).2).contains r = true then
        Gen.C19.supportUpdate ((support voters rs r : Nat) : Rat) ((v.2 : Nat) : Rat)
      else ((support voters rs r : Nat) : Rat) := by
  rw [← favourites]
  unfold support Gen.C19.supportUpdate
  rw [sumNat]
  by_cases h : (Composition.favourites v.1 rs).contains r = true
  · rw [if_pos h, if_pos h]
    push_cast
    ring
  · rw [if_neg h, if_neg h]
    simp

/-- the final filter `s == max_support`, `max_support = max(result_support)` -/
theorem isMostSupported (voters : List ((List Pid → Rat) × Nat)) (rs : List (List Pid)) :
    Composition.popularityCmp voters rs =
      (distinct rs).filter (fun r =>
        Gen.C19.isMostSupported ((support voters (distinct rs) r : Nat) : Rat)
          (Gen.C19.maxSupport ((maxNat ((distinct rs).map (support voters (distinct rs))) : Nat) : Rat))) := by
  unfold Composition.popularityCmp Gen.C19.isMostSupported Gen.C19.maxSupport
  congr 1
  funext r
  rw [Bool.eq_iff_iff]
  simp

/-! ### concrete instances -/

example : (argmaxLoop Gen.C19.welfareImproves Gen.C19.welfareTies (fun n : Nat => ((n % 3 : Nat) : Rat)) [1, 2, 4, 5, 3]).2 = [2, 5] := by
  rw [argmaxLoop_spec _ _ (fun x b => (welfareImproves x b).1) (fun x b => (welfareImproves x b).2) welfareTies]
  simp [argmaxSpec, maxRat]

end Pabu.Bridge.C19
