/-
  Bridge C04 — the regenerated leaf formulas of the primal/dual knapsack solver (Gen/C04.lean, produced from
  the current source of pabutools/rules/maxwelfare.py on every run) are the formulas of the model
  (PabuModel/MaxWelfare.lean): item efficiency, the capacity test, the incumbent update, the two pruning
  tests of `primal_dual_branch_impl`, the treatment of zero-cost projects and the candidate filter
  (positive cost and non-negative total satisfaction).
-/
import Gen.C04
import PabuModel.MaxWelfare
import Mathlib.Tactic.Ring
import Mathlib.Tactic.NormNum
import Mathlib.Algebra.Order.Field.Rat
namespace Pabu.Bridge.C04
open Pabu

/-- `KnapsackItem.efficiency` = `frac(profit, weight) if weight != 0 else 0`.  In Lean `x / 0 = 0`, so the
    model's plain quotient is this formula for every weight (in particular for the non-zero weights that
    reach the solver). -/
theorem efficiency (items : Array Knap.Item) (i : Nat) :
    Knap.pe items i = Gen.C04.efficiency (Knap.pp items i) (Knap.pw items i) := by
  unfold Knap.pe Gen.C04.efficiency
  by_cases h : Knap.pw items i = 0 <;> simp [h]

/-- the incumbent is replaced exactly when `profit_sum > lower_bound[0]` -/
theorem improves (P : Rat) (sol : List Nat) (inc : Knap.Inc) :
    Knap.upd P sol inc = if Gen.C04.improves P inc.1 = true then (P, some sol) else inc := by
  unfold Knap.upd Gen.C04.improves
  simp only [decide_eq_true_eq]

/-- one call of `primal_dual_branch_impl`, all tests expressed with the regenerated leaves -/
theorem pd_step (items : Array Knap.Item) (cap : Rat) (f lo b : Nat) (P W : Rat) (mid : List Nat)
    (inc : Knap.Inc) :
    Knap.pd items cap (f + 1) lo b P W mid inc =
      if Gen.C04.withinCapacity W cap = true then
        if b < items.size then
          if Gen.C04.prunes P
              (Gen.C04.upperBoundRight cap W (Gen.C04.efficiency (Knap.pp items b) (Knap.pw items b)))
              (Knap.upd P (List.range lo ++ mid) inc).1 = true then
            Knap.upd P (List.range lo ++ mid) inc
          else
            Knap.pd items cap f lo (b + 1) P W mid
              (Knap.pd items cap f lo (b + 1) (P + Knap.pp items b) (W + Knap.pw items b) (mid ++ [b])
                (Knap.upd P (List.range lo ++ mid) inc))
        else Knap.upd P (List.range lo ++ mid) inc
      else
        if lo = 0 then inc
        else if Gen.C04.prunesLeft P
            (Gen.C04.upperBoundLeft cap W
              (Gen.C04.efficiency (Knap.pp items (lo - 1)) (Knap.pw items (lo - 1)))) inc.1 = true then inc
        else
          Knap.pd items cap f (lo - 1) b P W ((lo - 1) :: mid)
            (Knap.pd items cap f (lo - 1) b (P - Knap.pp items (lo - 1)) (W - Knap.pw items (lo - 1)) mid inc) := by
  rw [← efficiency items b, ← efficiency items (lo - 1)]
  unfold Gen.C04.withinCapacity Gen.C04.prunes Gen.C04.prunesLeft Gen.C04.upperBoundRight Gen.C04.upperBoundLeft
  rw [Knap.pd]
  simp only [decide_eq_true_eq]

/-- the branch that adds items on the right (`weight_sum <= capacity`) -/
theorem pd_right (items : Array Knap.Item) (cap : Rat) (f lo b : Nat) (P W : Rat) (mid : List Nat)
    (inc : Knap.Inc) (hW : Gen.C04.withinCapacity W cap = true) (hb : b < items.size) :
    Knap.pd items cap (f + 1) lo b P W mid inc =
      if Gen.C04.prunes P
          (Gen.C04.upperBoundRight cap W (Gen.C04.efficiency (Knap.pp items b) (Knap.pw items b)))
          (Knap.upd P (List.range lo ++ mid) inc).1 = true then
        Knap.upd P (List.range lo ++ mid) inc
      else
        Knap.pd items cap f lo (b + 1) P W mid
          (Knap.pd items cap f lo (b + 1) (P + Knap.pp items b) (W + Knap.pw items b) (mid ++ [b])
            (Knap.upd P (List.range lo ++ mid) inc)) := by
  rw [pd_step, if_pos hW, if_pos hb]

/-- the branch that removes items on the left (`weight_sum > capacity`) -/
theorem pd_left (items : Array Knap.Item) (cap : Rat) (f lo b : Nat) (P W : Rat) (mid : List Nat)
    (inc : Knap.Inc) (hW : Gen.C04.withinCapacity W cap = false) (hlo : lo ≠ 0) :
    Knap.pd items cap (f + 1) lo b P W mid inc =
      if Gen.C04.prunesLeft P
          (Gen.C04.upperBoundLeft cap W
            (Gen.C04.efficiency (Knap.pp items (lo - 1)) (Knap.pw items (lo - 1)))) inc.1 = true then inc
      else
        Knap.pd items cap f (lo - 1) b P W ((lo - 1) :: mid)
          (Knap.pd items cap f (lo - 1) b (P - Knap.pp items (lo - 1)) (W - Knap.pw items (lo - 1)) mid inc) := by
  rw [pd_step, if_neg (by rw [hW]; simp), if_neg hlo]

/-- zero-cost projects: taken iff `profit > 0`; of the other free projects exactly those with `profit >= 0`
    become knapsack items (the `elif profit >= 0` of the source) -/
theorem zeroCost (I : Inst) (profit : Pid → Rat) (init enum : List Pid) :
    MaxWelfare.primalDual I profit init enum =
      (let free := enum.filter (fun p => !init.contains p)
       let zero := free.filter (fun p => Gen.C04.zeroCost (I.cost p) && Gen.C04.zeroCostTaken (profit p))
       let cands := free.filter (fun p => !Gen.C04.zeroCost (I.cost p) && Gen.C04.knapsackItem (profit p))
       let sorted := sortLe (fun a b => decide (profit b / I.cost b ≤ profit a / I.cost a)) cands
       let items : Array Knap.Item := (sorted.map (fun p => ⟨I.cost p, profit p⟩)).toArray
       let cap := I.budget - costOf I.cost (init ++ zero)
       match (Knap.solve items cap).2 with
       | none => init ++ zero
       | some idx => init ++ zero ++ idx.map (fun i => sorted.getD i 0)) := rfl

/-- the sort key of the items is their efficiency -/
theorem sortKey_efficiency (profit cost : Pid → Rat) (a b : Pid) :
    decide (profit b / cost b ≤ profit a / cost a) =
      decide (Gen.C04.efficiency (profit b) (cost b) ≤ Gen.C04.efficiency (profit a) (cost a)) := by
  have e : ∀ x y : Rat, Gen.C04.efficiency x y = x / y := by
    intro x y
    unfold Gen.C04.efficiency
    by_cases h : y = 0 <;> simp [h]
  rw [e, e]

example : Gen.C04.withinCapacity 1 2 = true ∧ Gen.C04.withinCapacity 3 2 = false := by
  norm_num [Gen.C04.withinCapacity]

end Pabu.Bridge.C04
