/-
  Bridge C14 — the regenerated size test of the cohesiveness / justified-representation checkers
  (Gen/C14.lean, produced from `is_large_enough` in the current source of pabutools/analysis/cohesiveness.py on
  every run) is the test of the model (`JR.largeEnough` in PabuModel/JR.lean).
-/
import Gen.C14
import PabuModel.JR
import Mathlib.Tactic.NormNum
import Mathlib.Algebra.Order.Field.Rat
namespace Pabu.Bridge.C14
open Pabu

/-- `is_large_enough`: `projects_cost * num_voters <= group_size * budget_limit` (no division) -/
theorem isLargeEnough_formula (size n cost budget : Rat) :
    Gen.C14.isLargeEnough size n cost budget = decide (cost * n ≤ size * budget) := rfl

/-- the model's size test is the regenerated one on the model's quantities -/
theorem isLargeEnough (E : JR.Setting) (size : Nat) (T : List Pid) :
    JR.largeEnough E size T =
      Gen.C14.isLargeEnough ((size : Nat) : Rat) ((E.n : Nat) : Rat) (costOf E.cost T) E.budget := rfl

example : Gen.C14.isLargeEnough 2 4 5 10 = true ∧ Gen.C14.isLargeEnough 1 4 5 10 = false := by
  norm_num [Gen.C14.isLargeEnough]

end Pabu.Bridge.C14
