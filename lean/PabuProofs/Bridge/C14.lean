/-
  Bridge C14 — the regenerated leaf formulas of the cohesiveness / justified-representation checkers
  (Gen/C14.lean, produced on every run from the current source of pabutools/analysis/cohesiveness.py and
  pabutools/analysis/justifiedrepresentation.py) are the formulas of the model (PabuModel/JR.lean): the size
  test `is_large_enough`, the remaining tests of `is_cohesive_approval` / `is_cohesive_cardinal` and the guards
  of `cohesive_groups` (the model's `adm`), the surplus of the "up to" relaxations (`surplus`, `missing`), and
  the decisive comparison of every checker family — core, strong EJR, EJR, PJR, for approval and cardinal
  ballots (the model's `voterOk` / `good`).
-/
import Gen.C14
import PabuModel.JR
import PabuProofs.Lemmas.Election
import Mathlib.Tactic.NormNum
import Mathlib.Tactic.Linarith
import Mathlib.Algebra.Order.Field.Rat
namespace Pabu.Bridge.C14
open Pabu

/-- `is_large_enough`: `projects_cost * num_voters <= group_size * budget_limit` (no division) -/
theorem isLargeEnough_formula (size n cost budget : Rat) :
    Gen.C14.isLargeEnough size n cost budget = decide (cost * n ≤ size * budget) := rfl

/-- the model's size test is the regenerated one on the model's quantities -/
theorem isLargeEnough (E : JR.Setting) (size : Nat) (T : List Pid) :
    JR.largeEnough E size T =
      Gen.C14.isLargeEnough ((size : Nat) : Rat) ((E.n : Nat) : Rat) (costOf E.cost T) E.budget := rfl

/-! ### list lengths as the code tests them -/

theorem length_pos_eq {α : Type} (l : List α) : decide (((l.length : Nat) : Rat) > 0) = !l.isEmpty := by
  cases l with
  | nil => simp
  | cons a r =>
    have : (0 : Rat) < (r.length : Rat) + 1 := by
      have : (0 : Rat) ≤ (r.length : Rat) := Nat.cast_nonneg _
      linarith
    simp [this]

theorem length_zero_eq {α : Type} (l : List α) : decide (((l.length : Nat) : Rat) = 0) = l.isEmpty := by
  cases l with
  | nil => simp
  | cons a r =>
    have : (r.length : Rat) + 1 ≠ 0 := by
      have : (0 : Rat) ≤ (r.length : Rat) := Nat.cast_nonneg _
      linarith
    simp [this]

theorem le_eq_not_lt (a b : Rat) : decide (a ≤ b) = !decide (b < a) := by
  by_cases h : a ≤ b
  · simp [h, not_lt.mpr h]
  · simp [h, not_le.mp h]

/-! ### the surplus of the "up to one / any project" relaxations -/

/-- `… for p in project_set if p not in budget_allocation` -/
theorem missing (W T : List Pid) : JR.missing W T = T.filter (fun p => Gen.C14.missing (W.contains p)) := rfl

/-- `surplus = 0` when no `up_to_func` is given -/
theorem noSurplus (l : List Rat) : JR.surplus .none l = Gen.C14.noSurplus := rfl

/-- the `*_any_*` checkers pass `lambda x: min(x, default=0)` -/
theorem upToAny (l : List Rat) :
    JR.surplus .any l = Gen.C14.upToAnyEJRApproval ((minRat l).getD 0) ∧
    JR.surplus .any l = Gen.C14.upToAnyEJRCardinal ((minRat l).getD 0) ∧
    JR.surplus .any l = Gen.C14.upToAnyPJRApproval ((minRat l).getD 0) ∧
    JR.surplus .any l = Gen.C14.upToAnyPJRCardinal ((minRat l).getD 0) := ⟨rfl, rfl, rfl, rfl⟩

/-- the `*_one_*` checkers pass `lambda x: max(x, default=0)` -/
theorem upToOne (l : List Rat) :
    JR.surplus .one l = Gen.C14.upToOneEJRApproval ((maxRat l).getD 0) ∧
    JR.surplus .one l = Gen.C14.upToOneEJRCardinal ((maxRat l).getD 0) ∧
    JR.surplus .one l = Gen.C14.upToOnePJRApproval ((maxRat l).getD 0) ∧
    JR.surplus .one l = Gen.C14.upToOnePJRCardinal ((maxRat l).getD 0) := ⟨rfl, rfl, rfl, rfl⟩

/-! ### the core -/

/-- `is_in_core` looks at a pair when `len(group) > 0` and `is_large_enough(…)` -/
theorem coreAdm (E : JR.Setting) (card : Bool) (size : Nat) (S : List JR.Voter) (T : List Pid) :
    JR.adm E card .core size S T =
      (Gen.C14.coreGroupNonEmpty ((S.length : Nat) : Rat) && Gen.C14.coreSizeTest (JR.largeEnough E size T)) := by
  unfold JR.adm Gen.C14.coreGroupNonEmpty Gen.C14.coreSizeTest
  rw [length_pos_eq, Bool.and_comm]

/-- `sat.sat(budget_allocation) + surplus >= sat.sat(project_set)`: the group does not block as soon as one
    member passes -/
theorem coreVoterOk (E : JR.Setting) (card : Bool) (up : JR.UpTo) (W : List Pid) (S : List JR.Voter) (T : List Pid) :
    JR.good E card .core up W S T =
      S.any (fun v => Gen.C14.coreVoterOk (JR.satV v W) (JR.surplus up ((JR.missing W T).map v.u)) (JR.satV v T)) := rfl

/-! ### strong EJR -/

/-- approval ballots: some member with `sat.sat(budget_allocation) < sat.sat(project_set)` refutes -/
theorem strongEJRApproval (E : JR.Setting) (up : JR.UpTo) (W : List Pid) (S : List JR.Voter) (T : List Pid) :
    JR.good E false .strong up W S T =
      S.all (fun v => !Gen.C14.strongEJRApprovalFails (JR.satV v W) (JR.satV v T)) := by
  show S.all (JR.voterOk false .strong .none W S T) = _
  congr 1
  funext v
  show decide (JR.satV v T ≤ JR.satV v W + 0) = _
  rw [add_zero, le_eq_not_lt]
  rfl

/-- cardinal ballots: the threshold is `sum(min(b[p] for b in group) for p in project_set)` -/
theorem strongEJRCardinal (E : JR.Setting) (up : JR.UpTo) (W : List Pid) (S : List JR.Voter) (T : List Pid) :
    JR.good E true .strong up W S T =
      S.all (fun v => !Gen.C14.strongEJRCardinalFails (JR.satV v W)
        (sumOver T (fun p => Gen.C14.cardThresholdSummand (JR.minOver S p)))) := by
  show S.all (JR.voterOk true .strong .none W S T) = _
  congr 1
  funext v
  show decide (sumOver T (JR.minOver S) ≤ JR.satV v W + 0) = _
  rw [add_zero, le_eq_not_lt]
  rfl

/-! ### EJR -/

/-- approval ballots: `sat.sat(budget_allocation) + surplus >= sat.sat(project_set)` for one member -/
theorem ejrApproval (E : JR.Setting) (up : JR.UpTo) (W : List Pid) (S : List JR.Voter) (T : List Pid) :
    JR.good E false .ejr up W S T =
      S.any (fun v => Gen.C14.ejrApprovalOk (JR.satV v W) (JR.surplus up ((JR.missing W T).map v.u)) (JR.satV v T)) := rfl

/-- cardinal ballots: `sat.sat(budget_allocation) + surplus >= threshold` for one member -/
theorem ejrCardinal (E : JR.Setting) (up : JR.UpTo) (W : List Pid) (S : List JR.Voter) (T : List Pid) :
    JR.good E true .ejr up W S T =
      S.any (fun v => Gen.C14.ejrCardinalOk (JR.satV v W) (JR.surplus up ((JR.missing W T).map v.u))
        (sumOver T (fun p => Gen.C14.cardThresholdSummand (JR.minOver S p)))) := rfl

/-! ### PJR -/

/-- approval ballots: `group_sat < threshold` refutes, `group_sat = sat.sat(group_approved) + surplus`,
    `group_approved = {p for p in budget_allocation if any(p in b for b in group)}`, `sat` the measure of the
    ballot approving everything -/
theorem pjrApproval (E : JR.Setting) (up : JR.UpTo) (W : List Pid) (S : List JR.Voter) (T : List Pid) :
    JR.good E false .pjr up W S T =
      !Gen.C14.pjrApprovalFails
        (Gen.C14.pjrApprovalGroupSat
          (sumOver (W.filter (fun p => Gen.C14.pjrGroupApproves (S.any (fun v => v.app p)))) E.full)
          (JR.surplus up ((JR.missing W T).map E.full)))
        (Gen.C14.pjrApprovalThreshold (sumOver T E.full)) := by
  show decide (sumOver T E.full ≤ sumOver (JR.groupApproved W S) E.full + JR.surplus up ((JR.missing W T).map E.full)) = _
  rw [le_eq_not_lt]
  rfl

/-- cardinal ballots: `group_sat + surplus < threshold` refutes,
    `group_sat = sum(max(b[p] for b in group) for p in budget_allocation)` -/
theorem pjrCardinal (E : JR.Setting) (up : JR.UpTo) (W : List Pid) (S : List JR.Voter) (T : List Pid) :
    JR.good E true .pjr up W S T =
      !Gen.C14.pjrCardinalFails
        (sumOver W (fun p => Gen.C14.pjrCardinalGroupSummand (JR.maxOver S p)))
        (JR.surplus up ((JR.missing W T).map (JR.maxOver S)))
        (sumOver T (fun p => Gen.C14.cardThresholdSummand (JR.minOver S p))) := by
  show decide (sumOver T (JR.minOver S) ≤ sumOver W (JR.maxOver S) + JR.surplus up ((JR.missing W T).map (JR.maxOver S))) = _
  rw [le_eq_not_lt]
  rfl

/-! ### cohesive groups -/

/-- the guards `len(group) > 0`, `len(project_set) > 0` of `cohesive_groups` -/
theorem cohGuards (S : List JR.Voter) (T : List Pid) :
    Gen.C14.cohGroupNonEmpty ((S.length : Nat) : Rat) = !S.isEmpty ∧
    Gen.C14.cohSetNonEmpty ((T.length : Nat) : Rat) = !T.isEmpty :=
  ⟨length_pos_eq S, length_pos_eq T⟩

/-- `is_cohesive_approval`: large enough, neither collection empty, and no (ballot, project) pair with
    `p not in ballot` -/
theorem cohesiveApproval (E : JR.Setting) (k : JR.Kind) (hk : k ≠ .core) (size : Nat) (S : List JR.Voter) (T : List Pid) :
    JR.adm E false k size S T =
      (!Gen.C14.cohApprovalTooSmall (JR.largeEnough E size T) &&
       !Gen.C14.cohApprovalEmpty ((S.length : Nat) : Rat) ((T.length : Nat) : Rat) &&
       S.all (fun v => T.all (fun p => !Gen.C14.cohApprovalPairFails (v.app p)))) := by
  unfold Gen.C14.cohApprovalTooSmall Gen.C14.cohApprovalEmpty Gen.C14.cohApprovalPairFails
  rw [length_zero_eq, length_zero_eq]
  cases k <;> first | exact absurd rfl hk | simp [JR.adm, JR.unanimous, Bool.and_assoc]

/-- every member's score of `p` is at least the group's minimum -/
theorem minOver_le (S : List JR.Voter) (p : Pid) (v : JR.Voter) (hv : v ∈ S) : JR.minOver S p ≤ v.u p := by
  unfold JR.minOver
  have hmem : v.u p ∈ S.map (fun v => v.u p) := List.mem_map_of_mem (f := fun v => v.u p) hv
  cases h : minRat (S.map (fun v => v.u p)) with
  | none => rw [Election.minRat_eq_none.1 h] at hmem; cases hmem
  | some m => exact Election.minRat_le h _ hmem

/-- `is_cohesive_cardinal` as `cohesive_groups` calls it (`alpha[p] = min(b[p] for b in group)`): large enough,
    neither collection empty, and no pair with `ballot[p] < alpha[p]` — which, for that `alpha`, never happens;
    this is why the model's `adm` has no score test for cardinal ballots -/
theorem cohesiveCardinal (E : JR.Setting) (k : JR.Kind) (hk : k ≠ .core) (size : Nat) (S : List JR.Voter) (T : List Pid) :
    JR.adm E true k size S T =
      (!Gen.C14.cohCardinalTooSmall (JR.largeEnough E size T) &&
       !Gen.C14.cohCardinalEmpty ((S.length : Nat) : Rat) ((T.length : Nat) : Rat) &&
       S.all (fun v => T.all (fun p => !Gen.C14.cohCardinalPairFails (v.u p) (Gen.C14.cohAlphaMin (JR.minOver S p))))) := by
  have hall : S.all (fun v => T.all (fun p =>
      !Gen.C14.cohCardinalPairFails (v.u p) (Gen.C14.cohAlphaMin (JR.minOver S p)))) = true := by
    unfold Gen.C14.cohCardinalPairFails Gen.C14.cohAlphaMin
    rw [List.all_eq_true]
    intro v hv
    rw [List.all_eq_true]
    intro p _
    have := minOver_le S p v hv
    simp [not_lt.mpr this]
  rw [hall]
  unfold Gen.C14.cohCardinalTooSmall Gen.C14.cohCardinalEmpty
  rw [length_zero_eq, length_zero_eq]
  cases k <;> first | exact absurd rfl hk | simp [JR.adm, Bool.and_assoc]

/-! ### `is_cohesive_approval` / `is_cohesive_cardinal` as whole functions (statement-level leaves) -/

private theorem approvalLoop (a : Bool) (b c : Rat) : ∀ (rows : List (List Bool)),
    (Gen.C14.isCohesiveApprovalFnLoop a b c rows).getD true = rows.all (fun r => r.all (fun y => y))
  | [] => by simp [Gen.C14.isCohesiveApprovalFnLoop]
  | r :: rows => by
    rw [Gen.C14.isCohesiveApprovalFnLoop, List.all_cons]
    by_cases h : r.any (fun y => !y) = true
    · have hr : r.all (fun y => y) = false := by
        rw [List.any_eq_true] at h
        obtain ⟨y, hy, hy'⟩ := h
        rw [List.all_eq_false]
        exact ⟨y, hy, by simpa using hy'⟩
      simp [h, hr]
    · have hr : r.all (fun y => y) = true := by
        rw [List.all_eq_true]
        intro y hy
        by_contra hc
        exact h (List.any_eq_true.mpr ⟨y, hy, by simpa using hc⟩)
      simp only [h, if_false, hr, Bool.true_and, Bool.false_eq_true]
      exact approvalLoop a b c rows

/-- the WHOLE of `is_cohesive_approval` — size guard, emptiness guard, the double loop with its early `return False`, `return True` —
    regenerated as `Gen.C14.isCohesiveApprovalFn`, is the model's admissibility test of a (group, project set) pair -/
theorem isCohesiveApprovalFn (E : JR.Setting) (k : JR.Kind) (hk : k ≠ .core) (size : Nat) (S : List JR.Voter) (T : List Pid) :
    JR.adm E false k size S T =
      Gen.C14.isCohesiveApprovalFn (JR.largeEnough E size T) ((S.length : Nat) : Rat) ((T.length : Nat) : Rat)
        (S.map (fun v => T.map (fun p => v.app p))) := by
  rw [cohesiveApproval E k hk size S T]
  unfold Gen.C14.isCohesiveApprovalFn Gen.C14.cohApprovalTooSmall Gen.C14.cohApprovalEmpty Gen.C14.cohApprovalPairFails
  beta_reduce
  rw [approvalLoop]
  have hall : (S.map (fun v => T.map (fun p => v.app p))).all (fun r => r.all (fun y => y)) =
      S.all (fun v => T.all (fun p => !(!v.app p))) := by
    simp [List.all_map, Function.comp_def]
  rw [hall]
  cases JR.largeEnough E size T <;>
    cases decide (((S.length : Nat) : Rat) = 0) || decide (((T.length : Nat) : Rat) = 0) <;> simp

private theorem cardinalLoop (a : Bool) (b c : Rat) : ∀ (rows : List (List (Rat × Rat))),
    (Gen.C14.isCohesiveCardinalFnLoop a b c rows).getD true =
      rows.all (fun r => r.all (fun y => !decide (y.1 < y.2)))
  | [] => by simp [Gen.C14.isCohesiveCardinalFnLoop]
  | r :: rows => by
    rw [Gen.C14.isCohesiveCardinalFnLoop, List.all_cons]
    by_cases h : r.any (fun y => decide (y.1 < y.2)) = true
    · have hr : r.all (fun y => !decide (y.1 < y.2)) = false := by
        rw [List.any_eq_true] at h
        obtain ⟨y, hy, hy'⟩ := h
        rw [List.all_eq_false]
        exact ⟨y, hy, by simpa using hy'⟩
      simp [h, hr]
    · have hr : r.all (fun y => !decide (y.1 < y.2)) = true := by
        rw [List.all_eq_true]
        intro y hy
        by_contra hc
        exact h (List.any_eq_true.mpr ⟨y, hy, by simpa using hc⟩)
      simp only [h, if_false, hr, Bool.true_and, Bool.false_eq_true]
      exact cardinalLoop a b c rows

/-- the WHOLE of `is_cohesive_cardinal`, called as `cohesive_groups` calls it (`alpha[p]` = the group's minimum score of `p`) -/
theorem isCohesiveCardinalFn (E : JR.Setting) (k : JR.Kind) (hk : k ≠ .core) (size : Nat) (S : List JR.Voter) (T : List Pid) :
    JR.adm E true k size S T =
      Gen.C14.isCohesiveCardinalFn (JR.largeEnough E size T) ((S.length : Nat) : Rat) ((T.length : Nat) : Rat)
        (S.map (fun v => T.map (fun p => (v.u p, Gen.C14.cohAlphaMin (JR.minOver S p))))) := by
  rw [cohesiveCardinal E k hk size S T]
  unfold Gen.C14.isCohesiveCardinalFn Gen.C14.cohCardinalTooSmall Gen.C14.cohCardinalEmpty Gen.C14.cohCardinalPairFails
  beta_reduce
  rw [cardinalLoop]
  have hall : (S.map (fun v => T.map (fun p => (v.u p, Gen.C14.cohAlphaMin (JR.minOver S p))))).all
        (fun r => r.all (fun y => !decide (y.1 < y.2))) =
      S.all (fun v => T.all (fun p => !decide (v.u p < Gen.C14.cohAlphaMin (JR.minOver S p)))) := by
    simp [List.all_map, Function.comp_def]
  rw [hall]
  cases JR.largeEnough E size T <;>
    cases decide (((S.length : Nat) : Rat) = 0) || decide (((T.length : Nat) : Rat) = 0) <;> simp

example : Gen.C14.isLargeEnough 2 4 5 10 = true ∧ Gen.C14.isLargeEnough 1 4 5 10 = false := by
  norm_num [Gen.C14.isLargeEnough]

example : Gen.C14.coreVoterOk 1 1 2 = true ∧ Gen.C14.coreVoterOk 1 0 2 = false ∧
    Gen.C14.pjrCardinalFails 1 0 2 = true ∧ Gen.C14.cohCardinalPairFails 1 1 = false := by
  norm_num [Gen.C14.coreVoterOk, Gen.C14.pjrCardinalFails, Gen.C14.cohCardinalPairFails]

end Pabu.Bridge.C14
