/-
  Bridge C09 — the regenerated leaf formulas of `exhaustion_by_budget_increase` (Gen/C09.lean, produced from
  the current source of pabutools/rules/exhaustion.py on every run) are the formulas of the model
  (PabuModel/Exhaustion.lean): the loop guard `current budget <= bound`, the next budget `current + step`, and
  the documented default parameters (step = 1% of the budget, bound = budget · (number of voters + 1)).
-/
import Gen.C09
import PabuModel.Exhaustion
import Mathlib.Tactic.Ring
import Mathlib.Tactic.NormNum
import Mathlib.Algebra.Order.Field.Rat
namespace Pabu.Bridge.C09
open Pabu

/-- the model's stop guard `bound < cur` is the negation of `while current_budget <= budget_bound` -/
theorem withinBound (cur bound : Rat) :
    decide (bound < cur) = !Gen.C09.withinBound cur bound := by
  unfold Gen.C09.withinBound
  by_cases h : bound < cur
  · simp [h, not_le.mpr h]
  · simp [h, not_lt.mp h]

/-- one iteration of the `while` loop (resolute) -/
theorem budgetIncrease_step (rule : Rat → Except Err (List Pid)) (feas exh : List Pid → Bool) (exhStop : Bool)
    (step bound : Rat) (f : Nat) (cur : Rat) (prev : List Pid) :
    Exhaustion.budgetIncrease rule feas exh exhStop step bound (f + 1) cur prev =
      if Gen.C09.withinBound cur bound = true then
        match rule cur with
        | .error e => .error e
        | .ok W =>
          if !feas W then .ok prev
          else if exhStop && exh W then .ok W
          else Exhaustion.budgetIncrease rule feas exh exhStop step bound f (Gen.C09.nextBudget cur step) W
      else .ok prev := by
  unfold Gen.C09.withinBound Gen.C09.nextBudget
  rw [Exhaustion.budgetIncrease]
  by_cases h : bound < cur
  · rw [if_pos h, if_neg (by simp [not_le.mpr h])]
  · rw [if_neg h, if_pos (by simp [not_lt.mp h])]
    cases rule cur <;> rfl

/-- one iteration of the `while` loop (irresolute) -/
theorem budgetIncreaseAll_step (rule : Rat → Except Err (List (List Pid))) (feas exh : List Pid → Bool)
    (exhStop : Bool) (step bound : Rat) (f : Nat) (cur : Rat) (prev : List (List Pid)) :
    Exhaustion.budgetIncreaseAll rule feas exh exhStop step bound (f + 1) cur prev =
      if Gen.C09.withinBound cur bound = true then
        match rule cur with
        | .error e => .error e
        | .ok Ws =>
          if Ws.any (fun W => !feas W) then .ok prev
          else if exhStop && Ws.any exh then .ok Ws
          else Exhaustion.budgetIncreaseAll rule feas exh exhStop step bound f (Gen.C09.nextBudgetAll cur step) Ws
      else .ok prev := by
  unfold Gen.C09.withinBound Gen.C09.nextBudgetAll
  rw [Exhaustion.budgetIncreaseAll]
  by_cases h : bound < cur
  · rw [if_pos h, if_neg (by simp [not_le.mpr h])]
  · rw [if_neg h, if_pos (by simp [not_lt.mp h])]
    cases rule cur <;> rfl

/-- the budget handed to the next round -/
theorem nextBudget (rule : Rat → Except Err (List Pid)) (feas exh : List Pid → Bool) (exhStop : Bool)
    (step bound : Rat) (f : Nat) (cur : Rat) (prev W : List Pid)
    (hb : Gen.C09.withinBound cur bound = true) (hr : rule cur = .ok W) (hf : feas W = true)
    (hs : (exhStop && exh W) = false) :
    Exhaustion.budgetIncrease rule feas exh exhStop step bound (f + 1) cur prev =
      Exhaustion.budgetIncrease rule feas exh exhStop step bound f (Gen.C09.nextBudget cur step) W := by
  rw [budgetIncrease_step, if_pos hb, hr]
  simp [hf, hs]

/-- the loop ends with the previous outcome once the bound is exceeded -/
theorem beyondBound (rule : Rat → Except Err (List Pid)) (feas exh : List Pid → Bool) (exhStop : Bool)
    (step bound : Rat) (f : Nat) (cur : Rat) (prev : List Pid)
    (hb : Gen.C09.withinBound cur bound = false) :
    Exhaustion.budgetIncrease rule feas exh exhStop step bound (f + 1) cur prev = .ok prev := by
  rw [budgetIncrease_step, if_neg (by rw [hb]; simp)]

/-- documented default: the step is 1% of the budget limit -/
theorem defaultStep (B : Rat) : Gen.C09.defaultStep B = B / 100 := by
  unfold Gen.C09.defaultStep
  ring

/-- documented default: the bound is the budget limit times (number of voters + 1) -/
theorem defaultBound (B n : Rat) : Gen.C09.defaultBound B n = B * (n + 1) := rfl

/-! ### the `while` loop as a whole (statement-level leaves, one per branch of `if resoluteness:`) -/

/-- the WHOLE loop of `exhaustion_by_budget_increase`, resolute branch (regenerated as `Gen.C09.budgetIncreaseWhile`: loop test, the call
    of the rule, the feasibility test BEFORE the exhaustiveness test, the budget increased and the outcome remembered, the `return` after
    the loop): whenever the model returns an allocation (the fuel sufficed, the base rule did not raise), the regenerated loop returns
    the same one -/
theorem budgetIncreaseWhile (r : Rat → List Pid) (feas exh : List Pid → Bool) (stop : Bool) (step bound : Rat) :
    ∀ (f : Nat) (cur : Rat) (prev W : List Pid),
      Exhaustion.budgetIncrease (fun b => .ok (r b)) feas exh stop step bound f cur prev = .ok W →
      Gen.C09.budgetIncreaseWhile r feas exh stop step bound f cur prev = W
  | 0, cur, prev, W, h => by simp [Exhaustion.budgetIncrease] at h
  | f + 1, cur, prev, W, h => by
    rw [Exhaustion.budgetIncrease] at h
    rw [Gen.C09.budgetIncreaseWhile]
    by_cases hb : bound < cur
    · have hn : ¬ cur ≤ bound := not_le.mpr hb
      simp only [hb, if_true] at h
      simp only [hn, decide_false, if_false, Bool.false_eq_true]
      exact (Except.ok.inj h)
    · have hle : cur ≤ bound := not_lt.mp hb
      simp only [hb, if_false] at h
      simp only [hle, decide_true, if_true]
      by_cases hf : feas (r cur) = true
      · simp only [hf, Bool.not_true, Bool.false_eq_true, if_false] at h ⊢
        by_cases he : (stop && exh (r cur)) = true
        · simp only [he, if_true] at h ⊢
          exact (Except.ok.inj h)
        · simp only [he, if_false, Bool.false_eq_true] at h ⊢
          exact budgetIncreaseWhile r feas exh stop step bound f (cur + step) (r cur) W h
      · have hf' : feas (r cur) = false := by simpa using hf
        simp only [hf', Bool.not_false, if_true] at h ⊢
        exact (Except.ok.inj h)

/-- … and the irresolute branch (`any(not is_feasible(o) …)`, `any(is_exhaustive(o) …)`) -/
theorem budgetIncreaseAllWhile (r : Rat → List (List Pid)) (feas exh : List Pid → Bool) (stop : Bool) (step bound : Rat) :
    ∀ (f : Nat) (cur : Rat) (prev W : List (List Pid)),
      Exhaustion.budgetIncreaseAll (fun b => .ok (r b)) feas exh stop step bound f cur prev = .ok W →
      Gen.C09.budgetIncreaseAllWhile r feas exh stop step bound f cur prev = W
  | 0, cur, prev, W, h => by simp [Exhaustion.budgetIncreaseAll] at h
  | f + 1, cur, prev, W, h => by
    rw [Exhaustion.budgetIncreaseAll] at h
    rw [Gen.C09.budgetIncreaseAllWhile]
    by_cases hb : bound < cur
    · have hn : ¬ cur ≤ bound := not_le.mpr hb
      simp only [hb, if_true] at h
      simp only [hn, decide_false, if_false, Bool.false_eq_true]
      exact (Except.ok.inj h)
    · have hle : cur ≤ bound := not_lt.mp hb
      simp only [hb, if_false] at h
      simp only [hle, decide_true, if_true]
      by_cases hf : (r cur).any (fun W => !feas W) = true
      · simp only [hf, if_true] at h ⊢
        exact (Except.ok.inj h)
      · simp only [hf, if_false, Bool.false_eq_true] at h ⊢
        by_cases he : (stop && (r cur).any exh) = true
        · simp only [he, if_true] at h ⊢
          exact (Except.ok.inj h)
        · simp only [he, if_false, Bool.false_eq_true] at h ⊢
          exact budgetIncreaseAllWhile r feas exh stop step bound f (cur + step) (r cur) W h

/-- the regenerated loop on a concrete run: budgets 2, 3, 4 with a rule that buys `[1]` from budget 3 on; `[1]` is exhaustive -/
example : Gen.C09.budgetIncreaseWhile (fun b => if b < 3 then [] else [1]) (fun _ => true) (fun W => W == [1]) true 1 10 5 2 [] = [1] := by
  norm_num [Gen.C09.budgetIncreaseWhile]

example : Gen.C09.withinBound 5 5 = true ∧ Gen.C09.withinBound 6 5 = false ∧ Gen.C09.defaultStep 200 = 2 := by
  norm_num [Gen.C09.withinBound, Gen.C09.defaultStep]

end Pabu.Bridge.C09
