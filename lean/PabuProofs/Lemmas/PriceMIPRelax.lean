/-
  Lemmas about the program `priceable(..., relaxation=R)` builds (PabuModel.PriceMIPRelax):
   * rows / variables of the plain program evaluate inside the relaxed program as they do in the plain one (`holds_liftC`);
   * the executable test `rsat` holds exactly when the point satisfies the rows read as mathematics: the unchanged part
     (`CoreF`), the S5 rows with the relaxed cost `rcOf` on the right-hand side (`FeasibleR`) and the domain the class
     declares for its β-variables (`Domain`)  —  `rsat_iff`;
   * `FeasibleR` ⇒ the point read as a price system is `Price.ExactRelaxed` for that relaxed cost (`feasibleR_exactRelaxed`);
   * `Price.ExactRelaxed` + the bounds the big-M constants need ⇒ `FeasibleR` at the point that encodes the price system
     (`exactRelaxed_feasibleR`); the bounds can be met by capping the voter budget (`capB_exactRelaxed`, `capB_boundedR`);
   * the objective of the program at a point is what `get_beta` reports (`objective_eq_getBeta`).
-/
import PabuModel.PriceMIPRelax
import PabuProofs.Lemmas.PriceMIP
import PabuProofs.Lemmas.PriceRelax
namespace Pabu.PriceMIP
open Pabu Pabu.Price

/-! ### evaluating lifted rows -/

theorem rev_nil (rp : RPoint) : revalLin rp [] = 0 := rfl

theorem rev_cons (rp : RPoint) (t : Rat × RVar) (ts : List (Rat × RVar)) :
    revalLin rp (t :: ts) = t.1 * rp.val t.2 + revalLin rp ts := rfl

theorem rev_append (rp : RPoint) (a b : List (Rat × RVar)) : revalLin rp (a ++ b) = revalLin rp a + revalLin rp b :=
  so_append a b _

theorem rev_lift (rp : RPoint) (ts : List (Rat × Var)) :
    revalLin rp (ts.map (fun t => (t.1, RVar.base t.2))) = evalLin rp.base ts := by
  unfold revalLin evalLin
  rw [so_map]
  rfl

/-- a row of the plain program holds in the relaxed program iff it holds at the underlying plain point -/
theorem holds_liftC (rp : RPoint) (k : Constr) : (liftC k).holds rp = k.holds rp.base := by
  unfold RConstr.holds Constr.holds liftC
  cases k.sense <;> simp only [rev_lift]

theorem all_liftC (rp : RPoint) (l : List Constr) :
    (l.map liftC).all (RConstr.holds rp) = l.all (Constr.holds rp.base) := by
  rw [List.all_map]
  congr 1
  funext k
  exact holds_liftC rp k

theorem holds_liftD (rp : RPoint) (d : VarDecl) : (liftD d).holds rp = d.holds rp.base := rfl

theorem all_liftD (rp : RPoint) (l : List VarDecl) :
    (l.map liftD).all (RVarDecl.holds rp) = l.all (VarDecl.holds rp.base) := by
  rw [List.all_map]
  congr 1

theorem rholds_le (rp : RPoint) (n : String) (ts : List (Rat × RVar)) (r : Rat) :
    RConstr.holds rp { name := n, terms := ts, sense := .le, rhs := r } = true ↔ revalLin rp ts ≤ r := by
  unfold RConstr.holds; simp

/-! ### the plain program, cut where the relaxation hooks in -/

theorem vars_split (E : Elec) (s : Bool) : vars E s = varsPre E ++ varsPost E s := rfl

theorem constraints_split (E : Elec) (cfg : Cfg) :
    constraints E cfg = preCs E cfg ++ (if cfg.stable then stableCs E else plainCs E) := rfl

theorem stableCs_split (E : Elec) : stableCs E = stableMs E ++ E.C.map (fun c => kS5 E c) := rfl

theorem all_stableMs (E : Elec) (pt : Point) :
    (stableMs E).all (Constr.holds pt) = true ↔
      (∀ ai ∈ voters E, ∀ c ∈ E.C, pt.p ai.2 c ≤ pt.m ai.2) ∧ (∀ ai ∈ voters E, pt.b - spentP E pt ai.2 ≤ pt.m ai.2) := by
  unfold stableMs
  simp only [List.all_append, List.all_flatMap, List.all_map, List.all_cons, List.all_nil, Bool.and_true, List.all_eq_true,
    Bool.and_eq_true, Function.comp_apply, holds_kM1, holds_kM2]
  constructor
  · intro H; exact ⟨fun a ha => (H a ha).1, fun a ha => (H a ha).2⟩
  · intro H a ha; exact ⟨H.1 a ha, H.2 a ha⟩

/-- the part of the program the relaxation leaves alone, as formulas (all fields of `Feasible` but `s5`) -/
structure CoreF (E : Elec) (cfg : Cfg) (pt : Point) : Prop where
  bnd_b : 0 ≤ pt.b
  bnd_p : ∀ ai ∈ voters E, ∀ c ∈ E.C, 0 ≤ pt.p ai.2 c
  bnd_x : ∀ c ∈ E.C, pt.x c = 0 ∨ pt.x c = 1
  bnd_r : cfg.stable = false → ∀ ai ∈ voters E, 0 ≤ pt.r ai.2
  bnd_m : cfg.stable = true → ∀ ai ∈ voters E, 0 ≤ pt.m ai.2
  fixb : ∀ vb, cfg.fixB = some vb → pt.b = vb
  fixp : ∀ pf, cfg.fixP = some pf → ∀ ai ∈ voters E, ∀ c ∈ E.C, pt.p ai.2 c = pf ai.2 c
  fixx : ∀ W, cfg.given = some W → ∀ c ∈ E.C, pt.x c = if W.contains c then 1 else 0
  c0a : tot E pt ≤ E.budget
  c0b : cfg.exhaustive = true → ∀ c ∈ E.C, E.budget + 1 ≤ tot E pt + E.cost c + INF E * pt.x c
  nonEmpty : cfg.exhaustive = false → cfg.given = none → E.budget ≤ (nv E : Rat) * pt.b
  c1 : ∀ ai ∈ voters E, ∀ c ∈ E.C, ai.1 c = false → pt.p ai.2 c = 0
  c2 : ∀ ai ∈ voters E, spentP E pt ai.2 ≤ pt.b
  c3a : ∀ c ∈ E.C, paidP E pt c ≤ E.cost c
  c3b : ∀ c ∈ E.C, E.cost c + (pt.x c - 1) * INF E ≤ paidP E pt c
  c4 : ∀ ai ∈ voters E, ∀ c ∈ E.C, pt.p ai.2 c ≤ pt.x c * INF E
  rdef : cfg.stable = false → ∀ ai ∈ voters E, pt.r ai.2 = pt.b - spentP E pt ai.2
  c5 : cfg.stable = false → ∀ c ∈ E.C, sumOver (supp E c) (fun ai => pt.r ai.2) ≤ E.cost c + pt.x c * INF E
  m1 : cfg.stable = true → ∀ ai ∈ voters E, ∀ c ∈ E.C, pt.p ai.2 c ≤ pt.m ai.2
  m2 : cfg.stable = true → ∀ ai ∈ voters E, pt.b - spentP E pt ai.2 ≤ pt.m ai.2

/-- the point satisfies the unchanged part and the S5 rows with `rc` in place of the cost -/
structure FeasibleR (E : Elec) (cfg : Cfg) (pt : Point) (rc : Pid → Rat) : Prop where
  core : CoreF E cfg pt
  s5 : cfg.stable = true → ∀ c ∈ E.C, sumOver (supp E c) (fun ai => pt.m ai.2) ≤ rc c + pt.x c * INF E

/-- with the true costs this is `Feasible` -/
theorem feasibleR_cost_iff (E : Elec) (cfg : Cfg) (pt : Point) : FeasibleR E cfg pt E.cost ↔ Feasible E cfg pt := by
  constructor
  · intro F
    exact { bnd_b := F.core.bnd_b, bnd_p := F.core.bnd_p, bnd_x := F.core.bnd_x, bnd_r := F.core.bnd_r, bnd_m := F.core.bnd_m,
            fixb := F.core.fixb, fixp := F.core.fixp, fixx := F.core.fixx, c0a := F.core.c0a, c0b := F.core.c0b,
            nonEmpty := F.core.nonEmpty, c1 := F.core.c1, c2 := F.core.c2, c3a := F.core.c3a, c3b := F.core.c3b, c4 := F.core.c4,
            rdef := F.core.rdef, c5 := F.core.c5, m1 := F.core.m1, m2 := F.core.m2, s5 := F.s5 }
  · intro F
    exact { core := { bnd_b := F.bnd_b, bnd_p := F.bnd_p, bnd_x := F.bnd_x, bnd_r := F.bnd_r, bnd_m := F.bnd_m, fixb := F.fixb,
                      fixp := F.fixp, fixx := F.fixx, c0a := F.c0a, c0b := F.c0b, nonEmpty := F.nonEmpty, c1 := F.c1, c2 := F.c2,
                      c3a := F.c3a, c3b := F.c3b, c4 := F.c4, rdef := F.rdef, c5 := F.c5, m1 := F.m1, m2 := F.m2 },
            s5 := F.s5 }

/-- the executable test of the unchanged part -/
def coreB (E : Elec) (cfg : Cfg) (pt : Point) : Bool :=
  (vars E cfg.stable).all (VarDecl.holds pt) && (preCs E cfg).all (Constr.holds pt)
  && (if cfg.stable then (stableMs E).all (Constr.holds pt) else (plainCs E).all (Constr.holds pt))

theorem coreB_iff (E : Elec) (cfg : Cfg) (pt : Point) : coreB E cfg pt = true ↔ CoreF E cfg pt := by
  unfold coreB preCs
  simp only [List.all_append, Bool.and_eq_true, List.all_cons, List.all_nil, Bool.and_true]
  rw [all_vars, all_fixBs, all_fixPs, all_fixXs, holds_kC0a, all_exhOrNonEmpty, all_c1s, all_c2s, all_c3s, all_c4s]
  constructor
  · rintro ⟨⟨⟨⟨⟨hb, hp⟩, hx⟩, hrm⟩, ⟨⟨⟨⟨⟨⟨⟨⟨fb, fp⟩, fx⟩, h0a⟩, h0b, hne⟩, h1⟩, h2⟩, h3a, h3b⟩, _, h4⟩⟩, hlast⟩
    cases hs : cfg.stable with
    | false =>
      rw [hs] at hlast hrm
      rw [if_neg (by simp), all_plainCs] at hlast
      exact { bnd_b := hb, bnd_p := hp, bnd_x := hx, bnd_r := fun _ => hrm, bnd_m := fun h => (by rw [hs] at h; cases h),
              fixb := fb, fixp := fp, fixx := fx, c0a := h0a, c0b := h0b, nonEmpty := hne, c1 := h1, c2 := h2, c3a := h3a,
              c3b := h3b, c4 := h4, rdef := fun _ => hlast.1, c5 := fun _ => hlast.2, m1 := fun h => (by rw [hs] at h; cases h),
              m2 := fun h => (by rw [hs] at h; cases h) }
    | true =>
      rw [hs] at hlast hrm
      rw [if_pos rfl, all_stableMs] at hlast
      exact { bnd_b := hb, bnd_p := hp, bnd_x := hx, bnd_r := fun h => (by rw [hs] at h; cases h), bnd_m := fun _ => hrm,
              fixb := fb, fixp := fp, fixx := fx, c0a := h0a, c0b := h0b, nonEmpty := hne, c1 := h1, c2 := h2, c3a := h3a,
              c3b := h3b, c4 := h4, rdef := fun h => (by rw [hs] at h; cases h), c5 := fun h => (by rw [hs] at h; cases h),
              m1 := fun _ => hlast.1, m2 := fun _ => hlast.2 }
  · intro F
    refine ⟨⟨⟨⟨⟨F.bnd_b, F.bnd_p⟩, F.bnd_x⟩, ?_⟩, ⟨⟨⟨⟨⟨⟨⟨⟨F.fixb, F.fixp⟩, F.fixx⟩, F.c0a⟩, F.c0b, F.nonEmpty⟩, F.c1⟩, F.c2⟩,
      F.c3a, F.c3b⟩, F.bnd_p, F.c4⟩⟩, ?_⟩
    · cases hs : cfg.stable with
      | false => exact F.bnd_r hs
      | true => exact F.bnd_m hs
    · cases hs : cfg.stable with
      | false => rw [if_neg (by simp), all_plainCs]; exact ⟨F.rdef hs, F.c5 hs⟩
      | true => rw [if_pos rfl, all_stableMs]; exact ⟨F.m1 hs, F.m2 hs⟩

/-! ### the rows and variables the relaxation adds -/

theorem rev_suppM (E : Elec) (rp : RPoint) (c : Pid) :
    revalLin rp (suppM E c) = sumOver (supp E c) (fun ai => rp.base.m ai.2) := by
  unfold revalLin suppM
  rw [so_map]
  apply so_congr
  intro a _
  show 1 * rp.base.m a.2 = rp.base.m a.2
  ring

/-- the relaxation's terms, moved to the left of the row, carry `constant − relaxed cost` -/
theorem rev_relaxTerms (E : Elec) (R : Relax) (rp : RPoint) (c : Pid) :
    revalLin rp (relaxTerms E R c) = relaxRhs E R c - rcOf E R rp c := by
  cases R
  · show -(E.cost c) * rp.beta + 0 = 0 - E.cost c * rp.beta
    ring
  · show -1 * rp.beta + 0 = E.cost c - (E.cost c + rp.beta)
    ring
  · show -1 * rp.betac c + 0 = E.cost c - (E.cost c + rp.betac c)
    ring
  · show -1 * rp.betac c + 0 = E.cost c - (E.cost c + rp.betac c)
    ring
  · show -1 * rp.beta + (-1 * rp.betac c + 0) = E.cost c - (E.cost c + rp.beta + rp.betac c)
    ring

/-- (S5, relaxed) as a formula: the supporters' stability amounts sum to at most the RELAXED cost `get_relaxed_cost` will
    report for this point, plus the big-M term -/
theorem holds_kS5R (E : Elec) (R : Relax) (rp : RPoint) (c : Pid) :
    (kS5R E R c).holds rp = true ↔
      sumOver (supp E c) (fun ai => rp.base.m ai.2) ≤ rcOf E R rp c + rp.base.x c * INF E := by
  unfold kS5R
  rw [rholds_le, rev_append, rev_append, rev_suppM, rev_relaxTerms, rev_cons, rev_nil]
  show sumOver (supp E c) (fun ai => rp.base.m ai.2) + (relaxRhs E R c - rcOf E R rp c) + (-(INF E) * rp.base.x c + 0)
    ≤ relaxRhs E R c ↔ _
  constructor <;> intro h <;> linarith

theorem all_kS5R (E : Elec) (R : Relax) (rp : RPoint) :
    (E.C.map (fun c => kS5R E R c)).all (RConstr.holds rp) = true ↔
      ∀ c ∈ E.C, sumOver (supp E c) (fun ai => rp.base.m ai.2) ≤ rcOf E R rp c + rp.base.x c * INF E := by
  simp only [List.all_map, List.all_eq_true, Function.comp_apply, holds_kS5R]

theorem holds_kBetaUp (E : Elec) (rp : RPoint) (c : Pid) :
    (kBetaUp E c).holds rp = true ↔ rp.betac c ≤ (1 - rp.base.x c) * E.budget := by
  unfold kBetaUp
  rw [rholds_le, rev_cons, rev_cons, rev_nil]
  show 1 * rp.betac c + (E.budget * rp.base.x c + 0) ≤ E.budget ↔ _
  constructor <;> intro h <;> linarith

theorem holds_kBetaLo (E : Elec) (rp : RPoint) (c : Pid) :
    (kBetaLo E c).holds rp = true ↔ (rp.base.x c - 1) * E.budget ≤ rp.betac c := by
  unfold kBetaLo
  rw [rholds_le, rev_cons, rev_cons, rev_nil]
  show E.budget * rp.base.x c + (-1 * rp.betac c + 0) ≤ E.budget ↔ _
  constructor <;> intro h <;> linarith

theorem rev_betaSum (E : Elec) (rp : RPoint) :
    revalLin rp (E.C.map (fun c => ((1 : Rat), RVar.betac c))) = sumOver E.C rp.betac := by
  unfold revalLin
  rw [so_map]
  apply so_congr
  intro c _
  show 1 * rp.betac c = rp.betac c
  ring

theorem holds_kBetaSum (E : Elec) (rp : RPoint) :
    (kBetaSum E).holds rp = true ↔ sumOver E.C rp.betac ≤ budgetFraction * E.budget := by
  unfold kBetaSum
  rw [rholds_le, rev_betaSum]

/-- the domain a relaxation class declares for its β-variables in `add_beta` (bounds of the variables and the rows that tie
    them to `x` / to the budget), as a formula in the selection `x` and the parameters `(β, βv)` -/
def Domain (E : Elec) (R : Relax) (x : Pid → Rat) (β : Rat) (βv : Pid → Rat) : Prop :=
  match R with
  | .mul => 0 ≤ β
  | .add => -(INF E) ≤ β
  | .vec => ∀ c ∈ E.C, -(INF E) ≤ βv c ∧ βv c ≤ (1 - x c) * E.budget ∧ (x c - 1) * E.budget ≤ βv c
  | .vecpos => ∀ c ∈ E.C, 0 ≤ βv c
  | .off => -(INF E) ≤ β ∧ (∀ c ∈ E.C, 0 ≤ βv c) ∧ sumOver E.C βv ≤ budgetFraction * E.budget

theorem rdecl_holds (rp : RPoint) (v : RVar) (lb : Rat) :
    RVarDecl.holds rp { v := v, binary := false, lb := lb } = true ↔ lb ≤ rp.val v := by
  unfold RVarDecl.holds; simp

theorem domain_iff (E : Elec) (R : Relax) (rp : RPoint) :
    ((betaVars E R).all (RVarDecl.holds rp) = true ∧ (betaRows E R).all (RConstr.holds rp) = true) ↔
      Domain E R rp.base.x rp.beta rp.betac := by
  cases R
  · show (([({ v := RVar.beta, binary := false, lb := 0 } : RVarDecl)]).all (RVarDecl.holds rp) = true ∧
        ([] : List RConstr).all (RConstr.holds rp) = true) ↔ 0 ≤ rp.beta
    simp only [List.all_cons, List.all_nil, Bool.and_true, rdecl_holds, and_true]
    rfl
  · show (([({ v := RVar.beta, binary := false, lb := -(INF E) } : RVarDecl)]).all (RVarDecl.holds rp) = true ∧
        ([] : List RConstr).all (RConstr.holds rp) = true) ↔ -(INF E) ≤ rp.beta
    simp only [List.all_cons, List.all_nil, Bool.and_true, rdecl_holds, and_true]
    rfl
  · show ((E.C.map (fun c => ({ v := RVar.betac c, binary := false, lb := -(INF E) } : RVarDecl))).all (RVarDecl.holds rp) = true ∧
        (E.C.flatMap (fun c => [kBetaUp E c, kBetaLo E c])).all (RConstr.holds rp) = true) ↔
        ∀ c ∈ E.C, -(INF E) ≤ rp.betac c ∧ rp.betac c ≤ (1 - rp.base.x c) * E.budget ∧ (rp.base.x c - 1) * E.budget ≤ rp.betac c
    simp only [List.all_map, List.all_flatMap, List.all_cons, List.all_nil, Bool.and_true, List.all_eq_true, Function.comp_apply,
      rdecl_holds, Bool.and_eq_true, holds_kBetaUp, holds_kBetaLo]
    constructor
    · intro H c hc; exact ⟨H.1 c hc, (H.2 c hc).1, (H.2 c hc).2⟩
    · intro H; exact ⟨fun c hc => (H c hc).1, fun c hc => ⟨(H c hc).2.1, (H c hc).2.2⟩⟩
  · show ((E.C.map (fun c => ({ v := RVar.betac c, binary := false, lb := 0 } : RVarDecl))).all (RVarDecl.holds rp) = true ∧
        ([] : List RConstr).all (RConstr.holds rp) = true) ↔ ∀ c ∈ E.C, 0 ≤ rp.betac c
    simp only [List.all_map, List.all_nil, List.all_eq_true, Function.comp_apply, rdecl_holds, and_true]
    rfl
  · show ((([({ v := RVar.beta, binary := false, lb := -(INF E) } : RVarDecl)]
          ++ E.C.map (fun c => ({ v := RVar.betac c, binary := false, lb := 0 } : RVarDecl))).all (RVarDecl.holds rp) = true) ∧
        ([kBetaSum E]).all (RConstr.holds rp) = true) ↔
        -(INF E) ≤ rp.beta ∧ (∀ c ∈ E.C, 0 ≤ rp.betac c) ∧ sumOver E.C rp.betac ≤ budgetFraction * E.budget
    simp only [List.all_append, List.all_map, List.all_cons, List.all_nil, Bool.and_true, List.all_eq_true, Function.comp_apply,
      rdecl_holds, Bool.and_eq_true, holds_kBetaSum]
    constructor
    · intro H; exact ⟨H.1.1, H.1.2, H.2⟩
    · intro H; exact ⟨⟨H.1, H.2.1⟩, H.2.2⟩

/-- the executable test decides the rows read as formulas -/
theorem rsat_iff (E : Elec) (R : Relax) (cfg : Cfg) (rp : RPoint) :
    rsat E R cfg rp = true ↔ FeasibleR E cfg rp.base (rcOf E R rp) ∧ Domain E R rp.base.x rp.beta rp.betac := by
  rw [← domain_iff]
  have hcore := coreB_iff E cfg rp.base
  unfold coreB at hcore
  unfold rsat rprogram RProgram.sat rvars rconstraints
  simp only [List.all_append, Bool.and_eq_true, all_liftD, all_liftC]
  rw [vars_split] at hcore
  simp only [List.all_append, Bool.and_eq_true] at hcore
  cases hs : cfg.stable with
  | false =>
    rw [hs] at hcore
    simp only [Bool.false_eq_true, if_false] at hcore ⊢
    rw [all_liftC]
    constructor
    · rintro ⟨⟨⟨v1, vb⟩, v2⟩, ⟨c1, cb⟩, c2⟩
      have C := hcore.mp ⟨⟨⟨v1, v2⟩, c1⟩, c2⟩
      exact ⟨⟨C, fun h => by rw [hs] at h; cases h⟩, vb, cb⟩
    · rintro ⟨F, vb, cb⟩
      obtain ⟨⟨⟨v1, v2⟩, c1⟩, c2⟩ := hcore.mpr F.core
      exact ⟨⟨⟨v1, vb⟩, v2⟩, ⟨c1, cb⟩, c2⟩
  | true =>
    rw [hs] at hcore
    simp only [if_true] at hcore ⊢
    rw [List.all_append, Bool.and_eq_true, all_liftC, all_kS5R]
    constructor
    · rintro ⟨⟨⟨v1, vb⟩, v2⟩, ⟨c1, cb⟩, c2, c3⟩
      have C := hcore.mp ⟨⟨⟨v1, v2⟩, c1⟩, c2⟩
      exact ⟨⟨C, fun _ => c3⟩, vb, cb⟩
    · rintro ⟨F, vb, cb⟩
      obtain ⟨⟨⟨v1, v2⟩, c1⟩, c2⟩ := hcore.mpr F.core
      exact ⟨⟨⟨v1, vb⟩, v2⟩, ⟨c1, cb⟩, c2, F.s5 hs⟩

/-! ### the objective is what `get_beta` reports -/

theorem objective_eq_getBeta (E : Elec) (R : Relax) (cfg : Cfg) (rp : RPoint) :
    (rprogram E R cfg).objective rp = getBeta E R rp := by
  unfold RProgram.objective rprogram
  cases R
  · show 1 * rp.beta + 0 = rp.beta
    ring
  · show 1 * rp.beta + 0 = rp.beta
    ring
  · exact rev_betaSum E rp
  · exact rev_betaSum E rp
  · show 1 * rp.beta + 0 = rp.beta
    ring

/-! ### a point read as a relaxed price system -/

/-- SOUNDNESS of the relaxed encoding: a point that satisfies the unchanged rows and the S5 rows with `rc` is a price system
    for `W = {c | x_c = 1}` that is stable with respect to the relaxed costs `rc` -/
theorem feasibleR_exactRelaxed (E : Elec) (cfg : Cfg) (pt : Point) (rc : Pid → Rat) (F : FeasibleR E cfg pt rc) :
    ExactRelaxed (toInput E pt) rc cfg.stable cfg.exhaustive := by
  have hx := F.core.bnd_x
  have hsuppmem : ∀ c, ∀ ai ∈ supp E c, ai ∈ voters E := fun c ai h => (List.mem_filter.mp h).1
  refine { feasible := ?_, exhaust := ?_, approved := ?_, nonneg := ?_, within := ?_, selected := ?_, unselected := ?_,
           noMoney := ?_, stab := ?_ }
  · rw [toInput_total E pt hx]; exact F.core.c0a
  · intro he c hc
    obtain ⟨hcC, hx0⟩ := toInput_mem_NW E pt hx c hc
    have h := F.core.c0b he c hcC
    rw [hx0] at h
    rw [toInput_total E pt hx]
    show ¬ (tot E pt + E.cost c ≤ E.budget)
    intro hle
    linarith
  · intro v hv c hc ha
    rw [toInput_N] at hv
    obtain ⟨ai, hai, rfl⟩ := List.mem_map.mp hv
    exact F.core.c1 ai hai c hc ha
  · intro v hv c hc
    rw [toInput_N] at hv
    obtain ⟨ai, hai, rfl⟩ := List.mem_map.mp hv
    exact F.core.bnd_p ai hai c hc
  · intro v hv
    rw [toInput_N] at hv
    obtain ⟨ai, hai, rfl⟩ := List.mem_map.mp hv
    exact F.core.c2 ai hai
  · intro c hc
    obtain ⟨hcC, hx1⟩ := (toInput_mem_W E pt c).mp hc
    rw [toInput_paidFor]
    have h1 := F.core.c3a c hcC
    have h2 := F.core.c3b c hcC
    rw [hx1] at h2
    show paidP E pt c = E.cost c
    linarith
  · intro c hc
    obtain ⟨hcC, hx0⟩ := toInput_mem_NW E pt hx c hc
    rw [toInput_paidFor]
    unfold paidP
    apply so_zero_of
    intro ai hai
    have h1 := F.core.bnd_p ai hai c hcC
    have h2 := F.core.c4 ai hai c hcC
    rw [hx0] at h2
    linarith
  · intro hs c hc
    obtain ⟨hcC, hx0⟩ := toInput_mem_NW E pt hx c hc
    rw [toInput_leftoverOf]
    have h5 := F.core.c5 hs c hcC
    rw [hx0] at h5
    have : sumOver (supp E c) (fun ai => pt.b - spentP E pt ai.2) = sumOver (supp E c) (fun ai => pt.r ai.2) := by
      apply so_congr
      intro ai hai
      exact (F.core.rdef hs ai (hsuppmem c ai hai)).symm
    rw [this]
    show _ ≤ E.cost c
    linarith
  · intro hs c hc
    obtain ⟨hcC, hx0⟩ := toInput_mem_NW E pt hx c hc
    rw [toInput_stableOf]
    have h5 := F.s5 hs c hcC
    rw [hx0] at h5
    have : sumOver (supp E c) (fun ai => stableVal (toInput E pt) (mkV pt ai)) ≤ sumOver (supp E c) (fun ai => pt.m ai.2) := by
      apply Price.sumOver_le_sumOver
      intro ai hai
      have hv := hsuppmem c ai hai
      have hm2 : leftover (toInput E pt) (mkV pt ai) ≤ pt.m ai.2 := F.core.m2 hs ai hv
      have hmp : maxPayment (toInput E pt) (mkV pt ai) ≤ pt.m ai.2 :=
        maxPayment_le _ _ _ (F.core.bnd_m hs ai hv) (fun c' hc' => F.core.m1 hs ai hv c' hc')
      unfold stableVal
      by_cases hc : leftover (toInput E pt) (mkV pt ai) ≤ maxPayment (toInput E pt) (mkV pt ai)
      · rw [if_pos hc]; exact hmp
      · rw [if_neg hc]; exact hm2
    linarith

/-! ### a relaxed price system written as a point -/

/-- the bounds the big-M constants need from a relaxed price system that is to be found: for every SELECTED project the
    supporters' leftovers (plain) / stability amounts (stable) sum to at most `cost + INF` / `relaxed cost + INF` — the program
    imposes C5 / the relaxed S5 on selected projects too, relaxed only by `INF = 10·budget` -/
structure BoundedR (X : Input) (stable : Bool) (rc : Pid → Rat) : Prop where
  plain : stable = false → ∀ c ∈ X.W, leftoverOf X c ≤ X.cost c + 10 * X.budget
  stab : stable = true → ∀ c ∈ X.W, stableOf X c ≤ rc c + 10 * X.budget

/-- COMPLETENESS of the unchanged part and the relaxed S5 rows, with the bounds explicit -/
theorem exactRelaxed_feasibleR (X : Input) (cfg : Cfg) (rc : Pid → Rat) (Ex : ExactRelaxed X rc cfg.stable cfg.exhaustive)
    (hW : WithinInstance X)
    (hcost : ∀ c ∈ X.C, 0 ≤ X.cost c)
    (hb0 : 0 ≤ X.b)
    (hInt : cfg.exhaustive = true → (∃ k : Int, X.budget = k) ∧ ∀ c ∈ X.C, ∃ k : Int, X.cost c = k)
    (hB1 : cfg.exhaustive = true → 1 ≤ X.budget)
    (hbig : ∀ c ∈ X.NW, X.cost c ≤ 10 * X.budget)
    (hne : cfg.exhaustive = false → cfg.given = none → X.budget ≤ (X.N.length : Rat) * X.b)
    (hbd : BoundedR X cfg.stable rc)
    (hg : ∀ W', cfg.given = some W' → W' = X.W)
    (hfb : ∀ vb, cfg.fixB = some vb → vb = X.b)
    (hfp : ∀ pf, cfg.fixP = some pf → ∀ ai ∈ voters (ofInput X), ∀ c ∈ X.C, pf ai.2 c = (pointOf X).p ai.2 c) :
    FeasibleR (ofInput X) cfg (pointOf X) rc := by
  have htot := pointOf_tot X hW
  have hWC := mem_W_C X hW
  have hcontains : ∀ c, X.W.contains c = true → c ∈ X.W := fun c h => by simpa using h
  have htot0 : 0 ≤ X.total := so_nonneg _ _ (fun c hc => hcost c (hWC c hc))
  have hbud0 : 0 ≤ X.budget := le_trans htot0 Ex.feasible
  have hcost_le : ∀ c ∈ X.W, X.cost c ≤ X.total := fun c hc => so_mem_le X.W X.cost (fun c hc => hcost c (hWC c hc)) c hc
  have hINF : INF (ofInput X) = X.budget * 10 := rfl
  have hx : ∀ c, (pointOf X).x c = if X.W.contains c then 1 else 0 := fun _ => rfl
  refine { core := { bnd_b := hb0, bnd_p := ?_, bnd_x := ?_, bnd_r := ?_, bnd_m := ?_, fixb := ?_, fixp := ?_, fixx := ?_, c0a := ?_,
                     c0b := ?_, nonEmpty := ?_, c1 := ?_, c2 := ?_, c3a := ?_, c3b := ?_, c4 := ?_, rdef := ?_, c5 := ?_,
                     m1 := ?_, m2 := ?_ },
           s5 := ?_ }
  · intro ai hai c hc
    obtain ⟨v, hv, hget, _⟩ := mem_voters_ofInput X ai hai
    rw [pointOf_p X ai.2 v hget]
    exact Ex.nonneg v hv c hc
  · intro c _
    rw [hx]
    by_cases h : X.W.contains c = true
    · right; rw [if_pos h]
    · left; rw [if_neg h]
  · intro _ ai hai
    obtain ⟨v, hv, hget, _⟩ := mem_voters_ofInput X ai hai
    rw [pointOf_r X ai.2 v hget]
    have := Ex.within v hv
    unfold leftover
    linarith
  · intro _ ai hai
    obtain ⟨v, hv, hget, _⟩ := mem_voters_ofInput X ai hai
    rw [pointOf_m X ai.2 v hget]
    have h1 := Ex.within v hv
    have h2 := leftover_le_stableVal X v
    unfold leftover at h2
    linarith
  · intro vb h; exact (hfb vb h).symm
  · intro pf h ai hai c hc; exact (hfp pf h ai hai c hc).symm
  · intro W' h c _
    rw [hg W' h]
    rfl
  · rw [htot]; exact Ex.feasible
  · intro he c hc
    rw [htot, hx, hINF]
    have hc' : c ∈ X.C := hc
    show X.budget + 1 ≤ X.total + X.cost c + X.budget * 10 * (if X.W.contains c then 1 else 0)
    by_cases h : X.W.contains c = true
    · rw [if_pos h]
      have h1 := hB1 he
      have h2 := hcost c hc'
      linarith
    · rw [if_neg h]
      have hnw := mem_NW_of X c hc' h
      have hnot := Ex.exhaust he c hnw
      obtain ⟨⟨kb, hkb⟩, hci⟩ := hInt he
      obtain ⟨kc, hkc⟩ := hci c hc'
      obtain ⟨kt, hkt⟩ := so_int X.W X.cost (fun a ha => hci a (hWC a ha))
      have hkt' : X.total = kt := hkt
      rw [hkt', hkc, hkb] at hnot ⊢
      have hlt : kb < kt + kc := by
        by_contra hcon
        apply hnot
        have : kt + kc ≤ kb := not_lt.mp hcon
        exact_mod_cast this
      have : kb + 1 ≤ kt + kc := hlt
      have h' : ((kb + 1 : Int) : Rat) ≤ ((kt + kc : Int) : Rat) := by exact_mod_cast this
      push_cast at h'
      linarith
  · intro he hgn
    have := hne he hgn
    show X.budget ≤ ((X.N.map (fun v => v.app)).length : Rat) * X.b
    rw [List.length_map]
    exact this
  · intro ai hai c hc ha
    obtain ⟨v, hv, hget, happ⟩ := mem_voters_ofInput X ai hai
    rw [pointOf_p X ai.2 v hget]
    rw [happ] at ha
    exact Ex.approved v hv c hc ha
  · intro ai hai
    obtain ⟨v, hv, hget, _⟩ := mem_voters_ofInput X ai hai
    rw [pointOf_spent X ai.2 v hget]
    exact Ex.within v hv
  · intro c hc
    have hc' : c ∈ X.C := hc
    rw [pointOf_paid]
    show paidFor X c ≤ X.cost c
    by_cases h : X.W.contains c = true
    · exact le_of_eq (Ex.selected c (hcontains c h))
    · rw [Ex.unselected c (mem_NW_of X c hc' h)]; exact hcost c hc'
  · intro c hc
    have hc' : c ∈ X.C := hc
    rw [pointOf_paid, hx, hINF]
    show X.cost c + ((if X.W.contains c then 1 else 0) - 1) * (X.budget * 10) ≤ paidFor X c
    by_cases h : X.W.contains c = true
    · rw [if_pos h, Ex.selected c (hcontains c h)]; linarith
    · rw [if_neg h, Ex.unselected c (mem_NW_of X c hc' h)]
      have := hbig c (mem_NW_of X c hc' h)
      linarith
  · intro ai hai c hc
    have hc' : c ∈ X.C := hc
    obtain ⟨v, hv, hget, _⟩ := mem_voters_ofInput X ai hai
    rw [pointOf_p X ai.2 v hget, hx, hINF]
    have hle : v.pay c ≤ paidFor X c := so_mem_le X.N (fun v => v.pay c) (fun w hw => Ex.nonneg w hw c hc') v hv
    by_cases h : X.W.contains c = true
    · rw [if_pos h]
      have h1 := Ex.selected c (hcontains c h)
      have h2 := hcost_le c (hcontains c h)
      have h3 := Ex.feasible
      linarith
    · rw [if_neg h]
      have h1 := Ex.unselected c (mem_NW_of X c hc' h)
      linarith
  · intro _ ai hai
    obtain ⟨v, _, hget, _⟩ := mem_voters_ofInput X ai hai
    rw [pointOf_r X ai.2 v hget, pointOf_spent X ai.2 v hget]
    rfl
  · intro hs c hc
    have hc' : c ∈ X.C := hc
    rw [pointOf_suppR, hx, hINF]
    show leftoverOf X c ≤ X.cost c + (if X.W.contains c then 1 else 0) * (X.budget * 10)
    by_cases h : X.W.contains c = true
    · rw [if_pos h]
      have := hbd.plain hs c (hcontains c h)
      linarith
    · rw [if_neg h]
      have := Ex.noMoney hs c (mem_NW_of X c hc' h)
      linarith
  · intro _ ai hai c hc
    obtain ⟨v, _, hget, _⟩ := mem_voters_ofInput X ai hai
    rw [pointOf_p X ai.2 v hget, pointOf_m X ai.2 v hget]
    exact le_trans (pay_le_maxPayment X v c hc) (maxPayment_le_stableVal X v)
  · intro _ ai hai
    obtain ⟨v, _, hget, _⟩ := mem_voters_ofInput X ai hai
    rw [pointOf_m X ai.2 v hget, pointOf_spent X ai.2 v hget]
    exact leftover_le_stableVal X v
  · intro hs c hc
    have hc' : c ∈ X.C := hc
    rw [pointOf_suppM, hx, hINF]
    show stableOf X c ≤ rc c + (if X.W.contains c then 1 else 0) * (X.budget * 10)
    by_cases h : X.W.contains c = true
    · rw [if_pos h]
      have := hbd.stab hs c (hcontains c h)
      linarith
    · rw [if_neg h]
      have := Ex.stab hs c (mem_NW_of X c hc' h)
      linarith

/-! ### normalisation: the voter budget never needs to exceed the budget limit -/

/-- in a relaxed price system nobody pays more than the whole allocation costs -/
theorem spent_le_totalR (X : Input) (rc : Pid → Rat) (s e : Bool) (Ex : ExactRelaxed X rc s e) (hW : WithinInstance X)
    (v : PVoter) (hv : v ∈ X.N) : spent X v ≤ X.total := by
  have h1 : X.total = sumOver X.C (fun c => if X.W.contains c = true then X.cost c else 0) := by
    unfold Input.total costOf
    rw [hW, so_filter_ite]
    apply so_congr
    intro c _
    unfold WithinInstance at hW
    rw [← hW]
  rw [h1]
  unfold spent
  apply Price.sumOver_le_sumOver
  intro c hc
  have hle : v.pay c ≤ paidFor X c := so_mem_le X.N (fun v => v.pay c) (fun w hw => Ex.nonneg w hw c hc) v hv
  by_cases h : X.W.contains c = true
  · rw [if_pos h]
    have := Ex.selected c (by simpa using h)
    linarith
  · rw [if_neg h]
    have := Ex.unselected c (mem_NW_of X c hc h)
    linarith

/-- capping the voter budget at the budget limit keeps a relaxed price system a relaxed price system (same `rc`) -/
theorem capB_exactRelaxed (X : Input) (rc : Pid → Rat) (s e : Bool) (Ex : ExactRelaxed X rc s e) (hW : WithinInstance X) :
    ExactRelaxed (capB X) rc s e := by
  refine { feasible := Ex.feasible, exhaust := Ex.exhaust, approved := Ex.approved, nonneg := Ex.nonneg, within := ?_,
           selected := Ex.selected, unselected := Ex.unselected, noMoney := ?_, stab := ?_ }
  · intro v hv
    show spent X v ≤ (if X.b ≤ X.budget then X.b else X.budget)
    by_cases h : X.b ≤ X.budget
    · rw [if_pos h]; exact Ex.within v hv
    · rw [if_neg h]; exact le_trans (spent_le_totalR X rc s e Ex hW v hv) Ex.feasible
  · intro hs c hc
    refine le_trans ?_ (Ex.noMoney hs c hc)
    unfold leftoverOf
    exact Price.sumOver_le_sumOver _ _ _ (fun v _ => leftover_capB_le X v)
  · intro hs c hc
    refine le_trans ?_ (Ex.stab hs c hc)
    show sumOver _ (stableVal (capB X)) ≤ sumOver _ (stableVal X)
    exact Price.sumOver_le_sumOver _ _ _ (fun v _ => stableVal_capB_le X v)

/-- with the voter budget capped, the big-M bounds hold as soon as, for every selected project, (number of supporters)·budget
    fits under `relaxed cost + 10·budget` (plain rows: under `cost + 10·budget`) -/
theorem capB_boundedR (X : Input) (rc : Pid → Rat) (s e : Bool) (Ex : ExactRelaxed X rc s e) (hW : WithinInstance X)
    (hcost : ∀ c ∈ X.C, 0 ≤ X.cost c) (hb0 : 0 ≤ X.b)
    (hplain : s = false → ∀ c ∈ X.W, ((X.N.filter (fun v => v.app c)).length : Rat) ≤ 10)
    (hstab : s = true → ∀ c ∈ X.W, ((X.N.filter (fun v => v.app c)).length : Rat) * X.budget ≤ rc c + 10 * X.budget) :
    BoundedR (capB X) s rc := by
  have Ex' := capB_exactRelaxed X rc s e Ex hW
  have hWC := mem_W_C X hW
  have htot0 : 0 ≤ X.total := so_nonneg _ _ (fun c hc => hcost c (hWC c hc))
  have hbud0 : 0 ≤ X.budget := le_trans htot0 Ex.feasible
  have hb' := capB_b_nonneg X hb0 hbud0
  have hbB := capB_b_le_budget X
  have key : ∀ (f : PVoter → Rat), (∀ v ∈ X.N, f v ≤ (capB X).b) → ∀ c,
      sumOver (X.N.filter (fun v => v.app c)) f ≤ ((X.N.filter (fun v => v.app c)).length : Rat) * X.budget := by
    intro f hf c
    have h1 : sumOver (X.N.filter (fun v => v.app c)) f ≤ sumOver (X.N.filter (fun v => v.app c)) (fun _ => (capB X).b) :=
      Price.sumOver_le_sumOver _ _ _ (fun v hv => hf v (List.mem_filter.mp hv).1)
    rw [Price.sumOver_const] at h1
    have hlen : (0 : Rat) ≤ ((X.N.filter (fun v => v.app c)).length : Rat) := by positivity
    have h4 : ((X.N.filter (fun v => v.app c)).length : Rat) * (capB X).b
        ≤ ((X.N.filter (fun v => v.app c)).length : Rat) * X.budget := mul_le_mul_of_nonneg_left hbB hlen
    linarith
  have hspent0 : ∀ v ∈ X.N, 0 ≤ spent X v := fun v hv => so_nonneg _ _ (fun c hc => Ex.nonneg v hv c hc)
  constructor
  · intro hs c hc
    have h1 := key (leftover (capB X)) (by
      intro v hv
      have := hspent0 v hv
      show (capB X).b - spent X v ≤ (capB X).b
      linarith) c
    have h2 := hplain hs c hc
    have h3 := hcost c (hWC c hc)
    have h4 : ((X.N.filter (fun v => v.app c)).length : Rat) * X.budget ≤ 10 * X.budget :=
      mul_le_mul_of_nonneg_right h2 hbud0
    show leftoverOf (capB X) c ≤ X.cost c + 10 * X.budget
    unfold leftoverOf
    show sumOver (X.N.filter (fun v => v.app c)) (leftover (capB X)) ≤ _
    linarith
  · intro hs c hc
    have h1 := key (stableVal (capB X)) (by
      intro v hv
      have hw : spent X v ≤ (capB X).b := Ex'.within v hv
      have hmp : maxPayment (capB X) v ≤ (capB X).b := by
        apply maxPayment_le _ _ _ hb'
        intro c' hc'
        have : v.pay c' ≤ spent X v := so_mem_le X.C v.pay (fun c'' hc'' => Ex.nonneg v hv c'' hc'') c' hc'
        linarith
      have hl : leftover (capB X) v ≤ (capB X).b := by
        have := hspent0 v hv
        show (capB X).b - spent X v ≤ (capB X).b
        linarith
      unfold stableVal
      by_cases h : leftover (capB X) v ≤ maxPayment (capB X) v
      · rw [if_pos h]; exact hmp
      · rw [if_neg h]; exact hl) c
    have h2 := hstab hs c hc
    show sumOver (X.N.filter (fun v => v.app c)) (stableVal (capB X)) ≤ rc c + 10 * X.budget
    linarith

end Pabu.PriceMIP
