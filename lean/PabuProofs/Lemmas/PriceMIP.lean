/-
  Lemmas about the program `priceable()` builds (PabuModel.PriceMIP):
   * the executable test `sat` (variable domains + the list of linear constraints, evaluated at a point) holds exactly
     when the point satisfies the constraints read as mathematics (`Feasible`, `sat_iff`);
   * `Feasible` ⇒ the point read as a price system is `Price.Exact` (`feasible_exact`);
   * `Price.Exact` + the bounds the big-M constants need ⇒ `Feasible` at the point that encodes the price system
     (`exact_feasible`); the bounds can always be met when no selected project has more than 10 supporters
     (`capB`: lower the voter budget to the budget limit).
-/
import PabuModel.PriceMIP
import PabuProofs.Lemmas.Price
namespace Pabu.PriceMIP
open Pabu Pabu.Price

/-! ### sums -/

theorem so_nil {α : Type} (f : α → Rat) : sumOver ([] : List α) f = 0 := rfl

theorem so_cons {α : Type} (a : α) (l : List α) (f : α → Rat) : sumOver (a :: l) f = f a + sumOver l f := rfl

theorem so_append {α : Type} (l₁ l₂ : List α) (f : α → Rat) : sumOver (l₁ ++ l₂) f = sumOver l₁ f + sumOver l₂ f := by
  induction l₁ with
  | nil => rw [List.nil_append, so_nil]; ring
  | cons a l ih => rw [List.cons_append, so_cons, so_cons, ih]; ring

theorem so_map {α β : Type} (g : α → β) (l : List α) (f : β → Rat) : sumOver (l.map g) f = sumOver l (fun a => f (g a)) := by
  induction l with
  | nil => rfl
  | cons a l ih => rw [List.map_cons, so_cons, so_cons, ih]

theorem so_congr {α : Type} (l : List α) (f g : α → Rat) (h : ∀ a ∈ l, f a = g a) : sumOver l f = sumOver l g := by
  induction l with
  | nil => rfl
  | cons a l ih =>
    rw [so_cons, so_cons, h a (by simp), ih (fun x hx => h x (by simp [hx]))]

theorem so_mul_left {α : Type} (k : Rat) (l : List α) (f : α → Rat) : sumOver l (fun a => k * f a) = k * sumOver l f := by
  induction l with
  | nil => rw [so_nil, so_nil]; ring
  | cons a l ih => rw [so_cons, so_cons, ih]; ring

theorem so_filter_ite {α : Type} (q : α → Bool) (l : List α) (f : α → Rat) :
    sumOver (l.filter q) f = sumOver l (fun a => if q a = true then f a else 0) := by
  induction l with
  | nil => rfl
  | cons a l ih =>
    by_cases h : q a = true
    · rw [List.filter_cons_of_pos h, so_cons, so_cons, ih, if_pos h]
    · rw [List.filter_cons_of_neg h, so_cons, ih, if_neg h]; ring

theorem so_zero_of {α : Type} (l : List α) (f : α → Rat) (h : ∀ a ∈ l, f a = 0) : sumOver l f = 0 := by
  rw [so_congr l f (fun _ => 0) h, Price.sumOver_zero]

theorem so_nonneg {α : Type} (l : List α) (f : α → Rat) (h : ∀ a ∈ l, 0 ≤ f a) : 0 ≤ sumOver l f := by
  induction l with
  | nil => exact le_refl _
  | cons a l ih =>
    rw [so_cons]
    have h1 := h a (by simp)
    have h2 := ih (fun x hx => h x (by simp [hx]))
    linarith

theorem so_mem_le {α : Type} (l : List α) (f : α → Rat) (h : ∀ a ∈ l, 0 ≤ f a) (a : α) (ha : a ∈ l) : f a ≤ sumOver l f := by
  induction l with
  | nil => cases ha
  | cons b l ih =>
    rw [so_cons]
    have hb := h b (by simp)
    have hl := so_nonneg l f (fun x hx => h x (by simp [hx]))
    rcases List.mem_cons.mp ha with rfl | ha'
    · linarith
    · have := ih (fun x hx => h x (by simp [hx])) ha'
      linarith

theorem so_all_zero {α : Type} (l : List α) (f : α → Rat) (h : ∀ a ∈ l, 0 ≤ f a) (hs : sumOver l f = 0) : ∀ a ∈ l, f a = 0 := by
  intro a ha
  have h1 := so_mem_le l f h a ha
  have h2 := h a ha
  linarith

/-! ### evaluating the term lists -/

/-- `Σ_{c ∈ C} cost(c)·x_c` -/
def tot (E : Elec) (pt : Point) : Rat := sumOver E.C (fun c => E.cost c * pt.x c)

/-- `Σ_{c ∈ C} p_{i,c}` -/
def spentP (E : Elec) (pt : Point) (i : Nat) : Rat := sumOver E.C (pt.p i)

/-- `Σ_{idx} p_{idx,c}` -/
def paidP (E : Elec) (pt : Point) (c : Pid) : Rat := sumOver (voters E) (fun ai => pt.p ai.2 c)

theorem ev_nil (pt : Point) : evalLin pt [] = 0 := rfl

theorem ev_cons (pt : Point) (t : Rat × Var) (ts : List (Rat × Var)) : evalLin pt (t :: ts) = t.1 * pt.val t.2 + evalLin pt ts := rfl

theorem ev_append (pt : Point) (a b : List (Rat × Var)) : evalLin pt (a ++ b) = evalLin pt a + evalLin pt b := so_append a b _

theorem ev_costTotal (E : Elec) (pt : Point) : evalLin pt (costTotal E) = tot E pt := by
  unfold evalLin costTotal tot
  rw [so_map]
  rfl

theorem ev_spent (E : Elec) (pt : Point) (i : Nat) (k : Rat) : evalLin pt (spentTerms E i k) = k * spentP E pt i := by
  unfold evalLin spentTerms spentP
  rw [so_map]
  exact so_mul_left k E.C (pt.p i)

theorem ev_paid (E : Elec) (pt : Point) (c : Pid) (k : Rat) : evalLin pt (paidTerms E c k) = k * paidP E pt c := by
  unfold evalLin paidTerms paidP
  rw [so_map]
  exact so_mul_left k (voters E) (fun ai => pt.p ai.2 c)

theorem ev_suppR (E : Elec) (pt : Point) (c : Pid) :
    evalLin pt ((supp E c).map (fun ai => ((1 : Rat), Var.r ai.2))) = sumOver (supp E c) (fun ai => pt.r ai.2) := by
  unfold evalLin
  rw [so_map]
  apply so_congr
  intro a _
  show 1 * pt.r a.2 = pt.r a.2
  ring

theorem ev_suppM (E : Elec) (pt : Point) (c : Pid) :
    evalLin pt ((supp E c).map (fun ai => ((1 : Rat), Var.m ai.2))) = sumOver (supp E c) (fun ai => pt.m ai.2) := by
  unfold evalLin
  rw [so_map]
  apply so_congr
  intro a _
  show 1 * pt.m a.2 = pt.m a.2
  ring

/-! ### the constraints as mathematics -/

/-- the point satisfies the variable domains and all constraints of the program, written as formulas -/
structure Feasible (E : Elec) (cfg : Cfg) (pt : Point) : Prop where
  bnd_b : 0 ≤ pt.b
  bnd_p : ∀ ai ∈ voters E, ∀ c ∈ E.C, 0 ≤ pt.p ai.2 c
  bnd_x : ∀ c ∈ E.C, pt.x c = 0 ∨ pt.x c = 1
  bnd_r : cfg.stable = false → ∀ ai ∈ voters E, 0 ≤ pt.r ai.2
  bnd_m : cfg.stable = true → ∀ ai ∈ voters E, 0 ≤ pt.m ai.2
  fixb : ∀ vb, cfg.fixB = some vb → pt.b = vb
  fixp : ∀ pf, cfg.fixP = some pf → ∀ ai ∈ voters E, ∀ c ∈ E.C, pt.p ai.2 c = pf ai.2 c
  fixx : ∀ W, cfg.given = some W → ∀ c ∈ E.C, pt.x c = if W.contains c then 1 else 0
  c0a : tot E pt ≤ E.budget
  c0b : cfg.exhaustive = true → ∀ c ∈ E.C, E.budget + 1 ≤ tot E pt + E.cost c + INF E * pt.x c
  nonEmpty : cfg.exhaustive = false → cfg.given = none → E.budget ≤ (nv E : Rat) * pt.b
  c1 : ∀ ai ∈ voters E, ∀ c ∈ E.C, ai.1 c = false → pt.p ai.2 c = 0
  c2 : ∀ ai ∈ voters E, spentP E pt ai.2 ≤ pt.b
  c3a : ∀ c ∈ E.C, paidP E pt c ≤ E.cost c
  c3b : ∀ c ∈ E.C, E.cost c + (pt.x c - 1) * INF E ≤ paidP E pt c
  c4 : ∀ ai ∈ voters E, ∀ c ∈ E.C, pt.p ai.2 c ≤ pt.x c * INF E
  rdef : cfg.stable = false → ∀ ai ∈ voters E, pt.r ai.2 = pt.b - spentP E pt ai.2
  c5 : cfg.stable = false → ∀ c ∈ E.C, sumOver (supp E c) (fun ai => pt.r ai.2) ≤ E.cost c + pt.x c * INF E
  m1 : cfg.stable = true → ∀ ai ∈ voters E, ∀ c ∈ E.C, pt.p ai.2 c ≤ pt.m ai.2
  m2 : cfg.stable = true → ∀ ai ∈ voters E, pt.b - spentP E pt ai.2 ≤ pt.m ai.2
  s5 : cfg.stable = true → ∀ c ∈ E.C, sumOver (supp E c) (fun ai => pt.m ai.2) ≤ E.cost c + pt.x c * INF E

/-! #### one constraint at a time -/

theorem holds_le (pt : Point) (n : String) (ts : List (Rat × Var)) (r : Rat) :
    Constr.holds pt { name := n, terms := ts, sense := .le, rhs := r } = true ↔ evalLin pt ts ≤ r := by
  unfold Constr.holds; simp

theorem holds_ge (pt : Point) (n : String) (ts : List (Rat × Var)) (r : Rat) :
    Constr.holds pt { name := n, terms := ts, sense := .ge, rhs := r } = true ↔ r ≤ evalLin pt ts := by
  unfold Constr.holds; simp

theorem holds_eq (pt : Point) (n : String) (ts : List (Rat × Var)) (r : Rat) :
    Constr.holds pt { name := n, terms := ts, sense := .eq, rhs := r } = true ↔ evalLin pt ts = r := by
  unfold Constr.holds; simp

theorem holds_kFixB (pt : Point) (vb : Rat) : (kFixB vb).holds pt = true ↔ pt.b = vb := by
  unfold kFixB; rw [holds_eq, ev_cons, ev_nil]
  show 1 * pt.b + 0 = vb ↔ _
  constructor <;> intro h <;> linarith

theorem holds_kFixP (pt : Point) (pf : Nat → Pid → Rat) (i : Nat) (c : Pid) : (kFixP pf i c).holds pt = true ↔ pt.p i c = pf i c := by
  unfold kFixP; rw [holds_eq, ev_cons, ev_nil]
  show 1 * pt.p i c + 0 = pf i c ↔ _
  constructor <;> intro h <;> linarith

theorem holds_kFixX (pt : Point) (W : List Pid) (c : Pid) :
    (kFixX W c).holds pt = true ↔ pt.x c = if W.contains c then 1 else 0 := by
  unfold kFixX; rw [holds_eq, ev_cons, ev_nil]
  show 1 * pt.x c + 0 = _ ↔ _
  constructor <;> intro h <;> linarith

theorem holds_kC0a (E : Elec) (pt : Point) : (kC0a E).holds pt = true ↔ tot E pt ≤ E.budget := by
  unfold kC0a; rw [holds_le, ev_costTotal]

theorem holds_kC0b (E : Elec) (pt : Point) (c : Pid) :
    (kC0b E c).holds pt = true ↔ E.budget + 1 ≤ tot E pt + E.cost c + INF E * pt.x c := by
  unfold kC0b; rw [holds_ge, ev_append, ev_costTotal, ev_cons, ev_nil]
  show E.budget + 1 - E.cost c ≤ tot E pt + (INF E * pt.x c + 0) ↔ _
  constructor <;> intro h <;> linarith

theorem holds_kNonEmpty (E : Elec) (pt : Point) : (kNonEmpty E).holds pt = true ↔ E.budget ≤ (nv E : Rat) * pt.b := by
  unfold kNonEmpty; rw [holds_ge, ev_cons, ev_nil]
  show E.budget ≤ (nv E : Rat) * pt.b + 0 ↔ _
  constructor <;> intro h <;> linarith

theorem holds_kC1 (pt : Point) (i : Nat) (c : Pid) : (kC1 i c).holds pt = true ↔ pt.p i c = 0 := by
  unfold kC1; rw [holds_eq, ev_cons, ev_nil]
  show 1 * pt.p i c + 0 = 0 ↔ _
  constructor <;> intro h <;> linarith

theorem holds_kC2 (E : Elec) (pt : Point) (i : Nat) : (kC2 E i).holds pt = true ↔ spentP E pt i ≤ pt.b := by
  unfold kC2; rw [holds_le, ev_append, ev_spent, ev_cons, ev_nil]
  show 1 * spentP E pt i + (-1 * pt.b + 0) ≤ 0 ↔ _
  constructor <;> intro h <;> linarith

theorem holds_kC3a (E : Elec) (pt : Point) (c : Pid) : (kC3a E c).holds pt = true ↔ paidP E pt c ≤ E.cost c := by
  unfold kC3a; rw [holds_le, ev_paid]
  constructor <;> intro h <;> linarith

theorem holds_kC3b (E : Elec) (pt : Point) (c : Pid) :
    (kC3b E c).holds pt = true ↔ E.cost c + (pt.x c - 1) * INF E ≤ paidP E pt c := by
  unfold kC3b; rw [holds_le, ev_append, ev_paid, ev_cons, ev_nil]
  show INF E * pt.x c + 0 + -1 * paidP E pt c ≤ INF E - E.cost c ↔ _
  constructor <;> intro h <;> linarith

theorem holds_kC4a (pt : Point) (i : Nat) (c : Pid) : (kC4a i c).holds pt = true ↔ 0 ≤ pt.p i c := by
  unfold kC4a; rw [holds_ge, ev_cons, ev_nil]
  show 0 ≤ 1 * pt.p i c + 0 ↔ _
  constructor <;> intro h <;> linarith

theorem holds_kC4b (E : Elec) (pt : Point) (i : Nat) (c : Pid) : (kC4b E i c).holds pt = true ↔ pt.p i c ≤ pt.x c * INF E := by
  unfold kC4b; rw [holds_le, ev_cons, ev_cons, ev_nil]
  show 1 * pt.p i c + (-(INF E) * pt.x c + 0) ≤ 0 ↔ _
  constructor <;> intro h <;> linarith

theorem holds_kR (E : Elec) (pt : Point) (i : Nat) : (kR E i).holds pt = true ↔ pt.r i = pt.b - spentP E pt i := by
  unfold kR; rw [holds_eq, ev_append, ev_spent, ev_cons, ev_cons, ev_nil]
  show 1 * pt.r i + (-1 * pt.b + 0) + 1 * spentP E pt i = 0 ↔ _
  constructor <;> intro h <;> linarith

theorem holds_kC5 (E : Elec) (pt : Point) (c : Pid) :
    (kC5 E c).holds pt = true ↔ sumOver (supp E c) (fun ai => pt.r ai.2) ≤ E.cost c + pt.x c * INF E := by
  unfold kC5; rw [holds_le, ev_append, ev_suppR, ev_cons, ev_nil]
  show sumOver (supp E c) (fun ai => pt.r ai.2) + (-(INF E) * pt.x c + 0) ≤ E.cost c ↔ _
  constructor <;> intro h <;> linarith

theorem holds_kM1 (pt : Point) (i : Nat) (c : Pid) : (kM1 i c).holds pt = true ↔ pt.p i c ≤ pt.m i := by
  unfold kM1; rw [holds_ge, ev_cons, ev_cons, ev_nil]
  show 0 ≤ 1 * pt.m i + (-1 * pt.p i c + 0) ↔ _
  constructor <;> intro h <;> linarith

theorem holds_kM2 (E : Elec) (pt : Point) (i : Nat) : (kM2 E i).holds pt = true ↔ pt.b - spentP E pt i ≤ pt.m i := by
  unfold kM2; rw [holds_ge, ev_append, ev_spent, ev_cons, ev_cons, ev_nil]
  show 0 ≤ 1 * pt.m i + (-1 * pt.b + 0) + 1 * spentP E pt i ↔ _
  constructor <;> intro h <;> linarith

theorem holds_kS5 (E : Elec) (pt : Point) (c : Pid) :
    (kS5 E c).holds pt = true ↔ sumOver (supp E c) (fun ai => pt.m ai.2) ≤ E.cost c + pt.x c * INF E := by
  unfold kS5; rw [holds_le, ev_append, ev_suppM, ev_cons, ev_nil]
  show sumOver (supp E c) (fun ai => pt.m ai.2) + (-(INF E) * pt.x c + 0) ≤ E.cost c ↔ _
  constructor <;> intro h <;> linarith

/-! #### family by family -/

theorem all_fixBs (cfg : Cfg) (pt : Point) :
    (fixBs cfg).all (Constr.holds pt) = true ↔ ∀ vb, cfg.fixB = some vb → pt.b = vb := by
  unfold fixBs
  cases h : cfg.fixB with
  | none => simp
  | some vb => simp [holds_kFixB]

theorem all_fixPs (E : Elec) (cfg : Cfg) (pt : Point) :
    (fixPs E cfg).all (Constr.holds pt) = true ↔
      ∀ pf, cfg.fixP = some pf → ∀ ai ∈ voters E, ∀ c ∈ E.C, pt.p ai.2 c = pf ai.2 c := by
  unfold fixPs
  cases h : cfg.fixP with
  | none => simp
  | some pf =>
    simp only [List.all_flatMap, List.all_map, List.all_eq_true, Function.comp_apply, holds_kFixP, Option.some.injEq]
    constructor
    · intro H pf' hpf; subst hpf; exact H
    · intro H; exact H pf rfl

theorem all_fixXs (E : Elec) (cfg : Cfg) (pt : Point) :
    (fixXs E cfg).all (Constr.holds pt) = true ↔
      ∀ W, cfg.given = some W → ∀ c ∈ E.C, pt.x c = if W.contains c then 1 else 0 := by
  unfold fixXs
  cases h : cfg.given with
  | none => simp
  | some W =>
    simp only [List.all_map, List.all_eq_true, Function.comp_apply, holds_kFixX, Option.some.injEq]
    constructor
    · intro H W' hW; subst hW; exact H
    · intro H; exact H W rfl

theorem all_exhOrNonEmpty (E : Elec) (cfg : Cfg) (pt : Point) :
    (exhOrNonEmpty E cfg).all (Constr.holds pt) = true ↔
      (cfg.exhaustive = true → ∀ c ∈ E.C, E.budget + 1 ≤ tot E pt + E.cost c + INF E * pt.x c) ∧
      (cfg.exhaustive = false → cfg.given = none → E.budget ≤ (nv E : Rat) * pt.b) := by
  unfold exhOrNonEmpty
  cases he : cfg.exhaustive with
  | true =>
    simp only [if_true, List.all_map, List.all_eq_true, Function.comp_apply, holds_kC0b]
    constructor
    · intro H; exact ⟨fun _ => H, fun h => (by cases h)⟩
    · intro H; exact H.1 trivial
  | false =>
    cases hg : cfg.given with
    | none =>
      simp only [Bool.false_eq_true, if_false, List.all_cons, List.all_nil, Bool.and_true, holds_kNonEmpty]
      constructor
      · intro H; exact ⟨fun h => (by cases h), fun _ _ => H⟩
      · intro H; exact H.2 trivial trivial
    | some W =>
      simp only [Bool.false_eq_true, if_false, List.all_nil]
      constructor
      · intro _; exact ⟨fun h => (by cases h), fun _ h => (by cases h)⟩
      · intro _; trivial

theorem all_c1s (E : Elec) (pt : Point) :
    (c1s E).all (Constr.holds pt) = true ↔ ∀ ai ∈ voters E, ∀ c ∈ E.C, ai.1 c = false → pt.p ai.2 c = 0 := by
  unfold c1s
  simp only [List.all_flatMap, List.all_map, List.all_eq_true, Function.comp_apply, holds_kC1, List.mem_filter,
    Bool.not_eq_true', and_imp]

theorem all_c2s (E : Elec) (pt : Point) :
    (c2s E).all (Constr.holds pt) = true ↔ ∀ ai ∈ voters E, spentP E pt ai.2 ≤ pt.b := by
  unfold c2s
  simp only [List.all_map, List.all_eq_true, Function.comp_apply, holds_kC2]

theorem all_c3s (E : Elec) (pt : Point) :
    (c3s E).all (Constr.holds pt) = true ↔
      (∀ c ∈ E.C, paidP E pt c ≤ E.cost c) ∧ (∀ c ∈ E.C, E.cost c + (pt.x c - 1) * INF E ≤ paidP E pt c) := by
  unfold c3s
  simp only [List.all_flatMap, List.all_cons, List.all_nil, Bool.and_true, List.all_eq_true, Bool.and_eq_true, holds_kC3a,
    holds_kC3b]
  constructor
  · intro H; exact ⟨fun c hc => (H c hc).1, fun c hc => (H c hc).2⟩
  · intro H c hc; exact ⟨H.1 c hc, H.2 c hc⟩

theorem all_c4s (E : Elec) (pt : Point) :
    (c4s E).all (Constr.holds pt) = true ↔
      (∀ ai ∈ voters E, ∀ c ∈ E.C, 0 ≤ pt.p ai.2 c) ∧ (∀ ai ∈ voters E, ∀ c ∈ E.C, pt.p ai.2 c ≤ pt.x c * INF E) := by
  unfold c4s
  simp only [List.all_flatMap, List.all_cons, List.all_nil, Bool.and_true, List.all_eq_true, Bool.and_eq_true, holds_kC4a,
    holds_kC4b]
  constructor
  · intro H; exact ⟨fun a ha c hc => (H a ha c hc).1, fun a ha c hc => (H a ha c hc).2⟩
  · intro H a ha c hc; exact ⟨H.1 a ha c hc, H.2 a ha c hc⟩

theorem all_plainCs (E : Elec) (pt : Point) :
    (plainCs E).all (Constr.holds pt) = true ↔
      (∀ ai ∈ voters E, pt.r ai.2 = pt.b - spentP E pt ai.2) ∧
      (∀ c ∈ E.C, sumOver (supp E c) (fun ai => pt.r ai.2) ≤ E.cost c + pt.x c * INF E) := by
  unfold plainCs
  simp only [List.all_append, List.all_map, List.all_eq_true, Bool.and_eq_true, Function.comp_apply, holds_kR, holds_kC5]

theorem all_stableCs (E : Elec) (pt : Point) :
    (stableCs E).all (Constr.holds pt) = true ↔
      ((∀ ai ∈ voters E, ∀ c ∈ E.C, pt.p ai.2 c ≤ pt.m ai.2) ∧ (∀ ai ∈ voters E, pt.b - spentP E pt ai.2 ≤ pt.m ai.2)) ∧
      (∀ c ∈ E.C, sumOver (supp E c) (fun ai => pt.m ai.2) ≤ E.cost c + pt.x c * INF E) := by
  unfold stableCs
  simp only [List.all_append, List.all_flatMap, List.all_map, List.all_cons, List.all_nil, Bool.and_true, List.all_eq_true,
    Bool.and_eq_true, Function.comp_apply, holds_kM1, holds_kM2, holds_kS5]
  constructor
  · intro H; exact ⟨⟨fun a ha => (H.1 a ha).1, fun a ha => (H.1 a ha).2⟩, H.2⟩
  · intro H; exact ⟨fun a ha => ⟨H.1.1 a ha, H.1.2 a ha⟩, H.2⟩

theorem all_vars (E : Elec) (stable : Bool) (pt : Point) :
    (vars E stable).all (VarDecl.holds pt) = true ↔
      ((0 ≤ pt.b ∧ (∀ ai ∈ voters E, ∀ c ∈ E.C, 0 ≤ pt.p ai.2 c)) ∧ (∀ c ∈ E.C, pt.x c = 0 ∨ pt.x c = 1)) ∧
      (∀ ai ∈ voters E, 0 ≤ pt.val (if stable then Var.m ai.2 else Var.r ai.2)) := by
  unfold vars
  simp only [List.all_append, List.all_flatMap, List.all_map, List.all_cons, List.all_nil, Bool.and_true, List.all_eq_true,
    Bool.and_eq_true, Function.comp_apply, VarDecl.holds, Bool.false_eq_true, if_false, if_true, decide_eq_true_eq,
    Bool.or_eq_true]
  rfl

/-- the executable test decides the constraints read as formulas -/
theorem sat_iff (E : Elec) (cfg : Cfg) (pt : Point) : sat E cfg pt = true ↔ Feasible E cfg pt := by
  unfold sat constraints
  simp only [List.all_append, Bool.and_eq_true, List.all_cons, List.all_nil, Bool.and_true]
  rw [all_vars, all_fixBs, all_fixPs, all_fixXs, holds_kC0a, all_exhOrNonEmpty, all_c1s, all_c2s, all_c3s, all_c4s]
  constructor
  · rintro ⟨⟨⟨⟨hb, hp⟩, hx⟩, hrm⟩, ⟨⟨⟨⟨⟨⟨⟨⟨⟨fb, fp⟩, fx⟩, h0a⟩, h0b, hne⟩, h1⟩, h2⟩, h3a, h3b⟩, _, h4⟩, hlast⟩⟩
    cases hs : cfg.stable with
    | false =>
      rw [hs] at hlast hrm
      rw [if_neg (by simp), all_plainCs] at hlast
      exact { bnd_b := hb, bnd_p := hp, bnd_x := hx, bnd_r := fun _ => hrm, bnd_m := fun h => (by rw [hs] at h; cases h),
              fixb := fb, fixp := fp, fixx := fx, c0a := h0a, c0b := h0b, nonEmpty := hne, c1 := h1, c2 := h2, c3a := h3a,
              c3b := h3b, c4 := h4, rdef := fun _ => hlast.1, c5 := fun _ => hlast.2, m1 := fun h => (by rw [hs] at h; cases h),
              m2 := fun h => (by rw [hs] at h; cases h), s5 := fun h => (by rw [hs] at h; cases h) }
    | true =>
      rw [hs] at hlast hrm
      rw [if_pos rfl, all_stableCs] at hlast
      exact { bnd_b := hb, bnd_p := hp, bnd_x := hx, bnd_r := fun h => (by rw [hs] at h; cases h), bnd_m := fun _ => hrm,
              fixb := fb, fixp := fp, fixx := fx, c0a := h0a, c0b := h0b, nonEmpty := hne, c1 := h1, c2 := h2, c3a := h3a,
              c3b := h3b, c4 := h4, rdef := fun h => (by rw [hs] at h; cases h), c5 := fun h => (by rw [hs] at h; cases h), m1 := fun _ => hlast.1.1,
              m2 := fun _ => hlast.1.2, s5 := fun _ => hlast.2 }
  · intro F
    refine ⟨⟨⟨⟨F.bnd_b, F.bnd_p⟩, F.bnd_x⟩, ?_⟩, ⟨⟨⟨⟨⟨⟨⟨⟨⟨F.fixb, F.fixp⟩, F.fixx⟩, F.c0a⟩, F.c0b, F.nonEmpty⟩, F.c1⟩, F.c2⟩,
      F.c3a, F.c3b⟩, F.bnd_p, F.c4⟩, ?_⟩⟩
    · cases hs : cfg.stable with
      | false => exact F.bnd_r hs
      | true => exact F.bnd_m hs
    · cases hs : cfg.stable with
      | false => rw [if_neg (by simp), all_plainCs]; exact ⟨F.rdef hs, F.c5 hs⟩
      | true => rw [if_pos rfl, all_stableCs]; exact ⟨⟨F.m1 hs, F.m2 hs⟩, F.s5 hs⟩

/-! ### maximum of a list, default 0 -/

theorem maxRat_none {l : List Rat} (h : maxRat l = none) : l = [] := by
  cases l with
  | nil => rfl
  | cons x xs =>
    unfold maxRat at h
    cases hx : maxRat xs with
    | none => rw [hx] at h; cases h
    | some y => rw [hx] at h; cases h

theorem maxD_le (l : List Rat) (m : Rat) (h0 : 0 ≤ m) (h : ∀ x ∈ l, x ≤ m) : (maxRat l).getD 0 ≤ m := by
  induction l with
  | nil => exact h0
  | cons a xs ih =>
    have iha := ih (fun x hx => h x (by simp [hx]))
    have ha := h a (by simp)
    unfold maxRat
    cases hx : maxRat xs with
    | none => exact ha
    | some y =>
      rw [hx] at iha
      show (if y ≤ a then a else y) ≤ m
      by_cases hc : y ≤ a
      · rw [if_pos hc]; exact ha
      · rw [if_neg hc]; exact iha

theorem maxD_ge (l : List Rat) : ∀ x ∈ l, x ≤ (maxRat l).getD 0 := by
  induction l with
  | nil => intro x hx; cases hx
  | cons a xs ih =>
    intro x hx
    unfold maxRat
    cases hm : maxRat xs with
    | none =>
      have : xs = [] := maxRat_none hm
      subst this
      rcases List.mem_cons.mp hx with rfl | h'
      · exact le_refl _
      · cases h'
    | some y =>
      rw [hm] at ih
      show x ≤ (if y ≤ a then a else y)
      rcases List.mem_cons.mp hx with rfl | h'
      · by_cases hc : y ≤ x
        · rw [if_pos hc]
        · rw [if_neg hc]; exact le_of_lt (not_le.mp hc)
      · have := ih x h'
        by_cases hc : y ≤ a
        · rw [if_pos hc]; exact le_trans this hc
        · rw [if_neg hc]; exact this

theorem maxPayment_le (X : Input) (v : PVoter) (m : Rat) (h0 : 0 ≤ m) (h : ∀ c ∈ X.C, v.pay c ≤ m) : maxPayment X v ≤ m := by
  unfold maxPayment
  apply maxD_le _ _ h0
  intro x hx
  obtain ⟨c, hc, rfl⟩ := List.mem_map.mp hx
  exact h c hc

theorem pay_le_maxPayment (X : Input) (v : PVoter) (c : Pid) (hc : c ∈ X.C) : v.pay c ≤ maxPayment X v := by
  unfold maxPayment
  exact maxD_ge _ _ (List.mem_map.mpr ⟨c, hc, rfl⟩)

/-! ### a point read as a price system -/

/-- the voter a point describes at index `ai.2` -/
def mkV (pt : Point) (ai : (Pid → Bool) × Nat) : PVoter := { app := ai.1, pay := pt.p ai.2 }

theorem toInput_N (E : Elec) (pt : Point) : (toInput E pt).N = (voters E).map (mkV pt) := rfl

theorem toInput_contains (E : Elec) (pt : Point) (c : Pid) :
    (toInput E pt).W.contains c = true ↔ c ∈ E.C ∧ pt.x c = 1 := by
  simp [toInput]

theorem toInput_mem_W (E : Elec) (pt : Point) (c : Pid) : c ∈ (toInput E pt).W ↔ c ∈ E.C ∧ pt.x c = 1 := by
  simp [toInput]

theorem toInput_mem_NW (E : Elec) (pt : Point) (hx : ∀ c ∈ E.C, pt.x c = 0 ∨ pt.x c = 1) (c : Pid)
    (hc : c ∈ (toInput E pt).NW) : c ∈ E.C ∧ pt.x c = 0 := by
  unfold Input.NW at hc
  rw [List.mem_filter] at hc
  obtain ⟨hcC, hn⟩ := hc
  have hcC' : c ∈ E.C := hcC
  refine ⟨hcC', ?_⟩
  rcases hx c hcC' with h | h
  · exact h
  · exfalso
    have : (toInput E pt).W.contains c = true := (toInput_contains E pt c).mpr ⟨hcC', h⟩
    rw [this] at hn
    cases hn

theorem toInput_total (E : Elec) (pt : Point) (hx : ∀ c ∈ E.C, pt.x c = 0 ∨ pt.x c = 1) : (toInput E pt).total = tot E pt := by
  show costOf E.cost (E.C.filter (fun c => decide (pt.x c = 1))) = tot E pt
  unfold costOf tot
  rw [so_filter_ite]
  apply so_congr
  intro c hc
  rcases hx c hc with h | h
  · rw [h]; simp
  · rw [h]; simp

theorem toInput_paidFor (E : Elec) (pt : Point) (c : Pid) : paidFor (toInput E pt) c = paidP E pt c := by
  unfold paidFor paidP
  rw [toInput_N, so_map]
  rfl

theorem toInput_supporters (E : Elec) (pt : Point) (c : Pid) :
    (toInput E pt).N.filter (fun v => v.app c) = (supp E c).map (mkV pt) := by
  rw [toInput_N, List.filter_map]
  rfl

theorem toInput_leftoverOf (E : Elec) (pt : Point) (c : Pid) :
    leftoverOf (toInput E pt) c = sumOver (supp E c) (fun ai => pt.b - spentP E pt ai.2) := by
  unfold leftoverOf
  rw [toInput_supporters, so_map]
  rfl

theorem toInput_stableOf (E : Elec) (pt : Point) (c : Pid) :
    stableOf (toInput E pt) c = sumOver (supp E c) (fun ai => stableVal (toInput E pt) (mkV pt ai)) := by
  unfold stableOf
  rw [toInput_supporters, so_map]
  rfl

/-- SOUNDNESS of the encoding: a point that satisfies the program is an exact (stable) price system for
    `W = {c | x_c = 1}`; in particular `W` is feasible, and exhaustive when asked -/
theorem feasible_exact (E : Elec) (cfg : Cfg) (pt : Point) (F : Feasible E cfg pt) :
    Exact (toInput E pt) cfg.stable cfg.exhaustive := by
  have hx := F.bnd_x
  have hsuppmem : ∀ c, ∀ ai ∈ supp E c, ai ∈ voters E := fun c ai h => (List.mem_filter.mp h).1
  refine { feasible := ?_, exhaust := ?_, approved := ?_, nonneg := ?_, within := ?_, selected := ?_, unselected := ?_,
           noMoney := ?_, stab := ?_ }
  · rw [toInput_total E pt hx]; exact F.c0a
  · intro he c hc
    obtain ⟨hcC, hx0⟩ := toInput_mem_NW E pt hx c hc
    have h := F.c0b he c hcC
    rw [hx0] at h
    rw [toInput_total E pt hx]
    show ¬ (tot E pt + E.cost c ≤ E.budget)
    intro hle
    linarith
  · intro v hv c hc ha
    rw [toInput_N] at hv
    obtain ⟨ai, hai, rfl⟩ := List.mem_map.mp hv
    exact F.c1 ai hai c hc ha
  · intro v hv c hc
    rw [toInput_N] at hv
    obtain ⟨ai, hai, rfl⟩ := List.mem_map.mp hv
    exact F.bnd_p ai hai c hc
  · intro v hv
    rw [toInput_N] at hv
    obtain ⟨ai, hai, rfl⟩ := List.mem_map.mp hv
    exact F.c2 ai hai
  · intro c hc
    obtain ⟨hcC, hx1⟩ := (toInput_mem_W E pt c).mp hc
    rw [toInput_paidFor]
    have h1 := F.c3a c hcC
    have h2 := F.c3b c hcC
    rw [hx1] at h2
    show paidP E pt c = E.cost c
    linarith
  · intro c hc
    obtain ⟨hcC, hx0⟩ := toInput_mem_NW E pt hx c hc
    rw [toInput_paidFor]
    unfold paidP
    apply so_zero_of
    intro ai hai
    have h1 := F.bnd_p ai hai c hcC
    have h2 := F.c4 ai hai c hcC
    rw [hx0] at h2
    linarith
  · intro hs c hc
    obtain ⟨hcC, hx0⟩ := toInput_mem_NW E pt hx c hc
    rw [toInput_leftoverOf]
    have h5 := F.c5 hs c hcC
    rw [hx0] at h5
    have : sumOver (supp E c) (fun ai => pt.b - spentP E pt ai.2) = sumOver (supp E c) (fun ai => pt.r ai.2) := by
      apply so_congr
      intro ai hai
      exact (F.rdef hs ai (hsuppmem c ai hai)).symm
    rw [this]
    show _ ≤ E.cost c
    linarith
  · intro hs c hc
    obtain ⟨hcC, hx0⟩ := toInput_mem_NW E pt hx c hc
    rw [toInput_stableOf]
    have h5 := F.s5 hs c hcC
    rw [hx0] at h5
    have : sumOver (supp E c) (fun ai => stableVal (toInput E pt) (mkV pt ai)) ≤ sumOver (supp E c) (fun ai => pt.m ai.2) := by
      apply Price.sumOver_le_sumOver
      intro ai hai
      have hv := hsuppmem c ai hai
      have hm2 : leftover (toInput E pt) (mkV pt ai) ≤ pt.m ai.2 := F.m2 hs ai hv
      have hmp : maxPayment (toInput E pt) (mkV pt ai) ≤ pt.m ai.2 :=
        maxPayment_le _ _ _ (F.bnd_m hs ai hv) (fun c' hc' => F.m1 hs ai hv c' hc')
      unfold stableVal
      by_cases hc : leftover (toInput E pt) (mkV pt ai) ≤ maxPayment (toInput E pt) (mkV pt ai)
      · rw [if_pos hc]; exact hmp
      · rw [if_neg hc]; exact hm2
    show _ ≤ E.cost c
    linarith

/-! ### a price system written as a point -/

theorem so_zipIdx_map {α β : Type} (h : α → β) (l : List α) (k : Nat) (f : β × Nat → Rat) (g : α → Rat)
    (H : ∀ j v, l[j]? = some v → f (h v, k + j) = g v) : sumOver ((l.map h).zipIdx k) f = sumOver l g := by
  induction l generalizing k with
  | nil => rfl
  | cons a l ih =>
    rw [List.map_cons, List.zipIdx_cons, so_cons, so_cons]
    have h0 : f (h a, k) = g a := by
      have := H 0 a (by simp)
      simpa using this
    rw [h0, ih (k + 1)]
    intro j v hv
    have := H (j + 1) v (by simpa using hv)
    have e : k + 1 + j = k + (j + 1) := by omega
    rw [e]; exact this

theorem mem_voters_ofInput (X : Input) (ai : (Pid → Bool) × Nat) (h : ai ∈ voters (ofInput X)) :
    ∃ v, v ∈ X.N ∧ X.N[ai.2]? = some v ∧ ai.1 = v.app := by
  unfold voters ofInput at h
  rw [List.mem_zipIdx_iff_getElem?, List.getElem?_map] at h
  cases hv : X.N[ai.2]? with
  | none => rw [hv] at h; cases h
  | some v =>
    rw [hv] at h
    simp only [Option.map_some, Option.some.injEq] at h
    exact ⟨v, List.mem_of_getElem? hv, rfl, h.symm⟩

theorem pointOf_p (X : Input) (i : Nat) (v : PVoter) (h : X.N[i]? = some v) : (pointOf X).p i = v.pay := by
  funext c
  show (match X.N[i]? with | some v => v.pay c | none => 0) = v.pay c
  rw [h]

theorem pointOf_r (X : Input) (i : Nat) (v : PVoter) (h : X.N[i]? = some v) : (pointOf X).r i = leftover X v := by
  show (match X.N[i]? with | some v => leftover X v | none => 0) = leftover X v
  rw [h]

theorem pointOf_m (X : Input) (i : Nat) (v : PVoter) (h : X.N[i]? = some v) : (pointOf X).m i = stableVal X v := by
  show (match X.N[i]? with | some v => stableVal X v | none => 0) = stableVal X v
  rw [h]

theorem pointOf_spent (X : Input) (i : Nat) (v : PVoter) (h : X.N[i]? = some v) :
    spentP (ofInput X) (pointOf X) i = spent X v := by
  unfold spentP spent
  rw [pointOf_p X i v h]
  rfl

/-- a sum over the enumerated voters of the program is the sum over the voters of the validator input -/
theorem so_voters (X : Input) (f : (Pid → Bool) × Nat → Rat) (g : PVoter → Rat)
    (H : ∀ i v, X.N[i]? = some v → f (v.app, i) = g v) : sumOver (voters (ofInput X)) f = sumOver X.N g := by
  unfold voters ofInput
  apply so_zipIdx_map
  intro j v hv
  rw [Nat.zero_add]
  exact H j v hv

theorem so_supp (X : Input) (c : Pid) (f : (Pid → Bool) × Nat → Rat) (g : PVoter → Rat)
    (H : ∀ i v, X.N[i]? = some v → f (v.app, i) = g v) :
    sumOver (supp (ofInput X) c) f = sumOver (X.N.filter (fun v => v.app c)) g := by
  unfold supp
  rw [so_filter_ite, so_filter_ite]
  apply so_voters
  intro i v hv
  show (if v.app c = true then f (v.app, i) else 0) = _
  rw [H i v hv]

theorem pointOf_paid (X : Input) (c : Pid) : paidP (ofInput X) (pointOf X) c = paidFor X c := by
  unfold paidP paidFor
  apply so_voters
  intro i v hv
  show (pointOf X).p i c = v.pay c
  rw [pointOf_p X i v hv]

theorem pointOf_suppR (X : Input) (c : Pid) :
    sumOver (supp (ofInput X) c) (fun ai => (pointOf X).r ai.2) = leftoverOf X c := by
  unfold leftoverOf
  apply so_supp
  intro i v hv
  exact pointOf_r X i v hv

theorem pointOf_suppM (X : Input) (c : Pid) :
    sumOver (supp (ofInput X) c) (fun ai => (pointOf X).m ai.2) = stableOf X c := by
  unfold stableOf
  apply so_supp
  intro i v hv
  exact pointOf_m X i v hv

theorem leftover_le_stableVal (X : Input) (v : PVoter) : leftover X v ≤ stableVal X v := by
  unfold stableVal
  by_cases h : leftover X v ≤ maxPayment X v
  · rw [if_pos h]; exact h
  · rw [if_neg h]

theorem maxPayment_le_stableVal (X : Input) (v : PVoter) : maxPayment X v ≤ stableVal X v := by
  unfold stableVal
  by_cases h : leftover X v ≤ maxPayment X v
  · rw [if_pos h]
  · rw [if_neg h]; exact le_of_lt (not_le.mp h)

theorem so_int {α : Type} (l : List α) (f : α → Rat) (h : ∀ a ∈ l, ∃ k : Int, f a = k) : ∃ k : Int, sumOver l f = k := by
  induction l with
  | nil => exact ⟨0, by rw [so_nil]; norm_num⟩
  | cons a l ih =>
    obtain ⟨k1, h1⟩ := h a (by simp)
    obtain ⟨k2, h2⟩ := ih (fun x hx => h x (by simp [hx]))
    exact ⟨k1 + k2, by rw [so_cons, h1, h2]; push_cast; ring⟩

/-- `W` is listed within the instance, in the instance's order: then `total_cost(W)` of the validator and
    `Σ_{c ∈ C} cost(c)·x_c` of the program are the same number -/
def WithinInstance (X : Input) : Prop := X.W = X.C.filter (fun c => X.W.contains c)

theorem pointOf_tot (X : Input) (hW : WithinInstance X) : tot (ofInput X) (pointOf X) = X.total := by
  unfold Input.total costOf
  rw [hW, so_filter_ite]
  unfold tot
  apply so_congr
  intro c _
  show X.cost c * (if X.W.contains c then 1 else 0) = _
  by_cases h : X.W.contains c = true
  · rw [if_pos h, if_pos h]; ring
  · rw [if_neg h, if_neg h]; ring

theorem mem_W_C (X : Input) (hW : WithinInstance X) (c : Pid) (hc : c ∈ X.W) : c ∈ X.C := by
  unfold WithinInstance at hW
  rw [hW] at hc
  exact (List.mem_filter.mp hc).1

theorem mem_NW_of (X : Input) (c : Pid) (hc : c ∈ X.C) (h : ¬ X.W.contains c = true) : c ∈ X.NW := by
  unfold Input.NW
  rw [List.mem_filter]
  refine ⟨hc, ?_⟩
  simpa using h

/-- the bounds the big-M constants of `priceable()` need from a price system that is to be found:
    for every SELECTED project the supporters' leftovers (plain) / stability amounts (stable) sum to at most
    `cost + INF`  (the program imposes C5 / S5 on selected projects too, relaxed only by `INF = 10·budget`) -/
structure Bounded (X : Input) (stable : Bool) : Prop where
  plain : stable = false → ∀ c ∈ X.W, leftoverOf X c ≤ X.cost c + 10 * X.budget
  stab : stable = true → ∀ c ∈ X.W, stableOf X c ≤ X.cost c + 10 * X.budget

/-- COMPLETENESS of the encoding, with the bounds explicit: an exact price system whose numbers fit under the big-M
    constants is a point of the program -/
theorem exact_feasible (X : Input) (cfg : Cfg) (Ex : Exact X cfg.stable cfg.exhaustive)
    (hW : WithinInstance X)
    (hcost : ∀ c ∈ X.C, 0 ≤ X.cost c)
    (hb0 : 0 ≤ X.b)
    (hInt : cfg.exhaustive = true → (∃ k : Int, X.budget = k) ∧ ∀ c ∈ X.C, ∃ k : Int, X.cost c = k)
    (hB1 : cfg.exhaustive = true → 1 ≤ X.budget)
    (hbig : ∀ c ∈ X.NW, X.cost c ≤ 10 * X.budget)
    (hne : cfg.exhaustive = false → cfg.given = none → X.budget ≤ (X.N.length : Rat) * X.b)
    (hbd : Bounded X cfg.stable)
    (hg : ∀ W', cfg.given = some W' → W' = X.W)
    (hfb : ∀ vb, cfg.fixB = some vb → vb = X.b)
    (hfp : ∀ pf, cfg.fixP = some pf → ∀ ai ∈ voters (ofInput X), ∀ c ∈ X.C, pf ai.2 c = (pointOf X).p ai.2 c) :
    Feasible (ofInput X) cfg (pointOf X) := by
  have htot := pointOf_tot X hW
  have hWC := mem_W_C X hW
  have hcontains : ∀ c, X.W.contains c = true → c ∈ X.W := fun c h => by simpa using h
  have htot0 : 0 ≤ X.total := so_nonneg _ _ (fun c hc => hcost c (hWC c hc))
  have hbud0 : 0 ≤ X.budget := le_trans htot0 Ex.feasible
  have hcost_le : ∀ c ∈ X.W, X.cost c ≤ X.total := fun c hc => so_mem_le X.W X.cost (fun c hc => hcost c (hWC c hc)) c hc
  have hINF : INF (ofInput X) = X.budget * 10 := rfl
  have hx : ∀ c, (pointOf X).x c = if X.W.contains c then 1 else 0 := fun _ => rfl
  refine { bnd_b := hb0, bnd_p := ?_, bnd_x := ?_, bnd_r := ?_, bnd_m := ?_, fixb := ?_, fixp := ?_, fixx := ?_, c0a := ?_,
           c0b := ?_, nonEmpty := ?_, c1 := ?_, c2 := ?_, c3a := ?_, c3b := ?_, c4 := ?_, rdef := ?_, c5 := ?_, m1 := ?_,
           m2 := ?_, s5 := ?_ }
  · intro ai hai c hc
    obtain ⟨v, hv, hget, _⟩ := mem_voters_ofInput X ai hai
    rw [pointOf_p X ai.2 v hget]
    exact Ex.nonneg v hv c hc
  · intro c _
    rw [hx]
    by_cases h : X.W.contains c = true
    · right; rw [if_pos h]
    · left; rw [if_neg h]
  · intro _ ai hai
    obtain ⟨v, hv, hget, _⟩ := mem_voters_ofInput X ai hai
    rw [pointOf_r X ai.2 v hget]
    have := Ex.within v hv
    unfold leftover
    linarith
  · intro _ ai hai
    obtain ⟨v, hv, hget, _⟩ := mem_voters_ofInput X ai hai
    rw [pointOf_m X ai.2 v hget]
    have h1 := Ex.within v hv
    have h2 := leftover_le_stableVal X v
    unfold leftover at h2
    linarith
  · intro vb h; exact (hfb vb h).symm
  · intro pf h ai hai c hc; exact (hfp pf h ai hai c hc).symm
  · intro W' h c _
    rw [hg W' h]
    rfl
  · rw [htot]; exact Ex.feasible
  · intro he c hc
    rw [htot, hx, hINF]
    have hc' : c ∈ X.C := hc
    show X.budget + 1 ≤ X.total + X.cost c + X.budget * 10 * (if X.W.contains c then 1 else 0)
    by_cases h : X.W.contains c = true
    · rw [if_pos h]
      have h1 := hB1 he
      have h2 := hcost c hc'
      linarith
    · rw [if_neg h]
      have hnw := mem_NW_of X c hc' h
      have hnot := Ex.exhaust he c hnw
      obtain ⟨⟨kb, hkb⟩, hci⟩ := hInt he
      obtain ⟨kc, hkc⟩ := hci c hc'
      obtain ⟨kt, hkt⟩ := so_int X.W X.cost (fun a ha => hci a (hWC a ha))
      have hkt' : X.total = kt := hkt
      rw [hkt', hkc, hkb] at hnot ⊢
      have hlt : kb < kt + kc := by
        by_contra hcon
        apply hnot
        have : kt + kc ≤ kb := not_lt.mp hcon
        exact_mod_cast this
      have : kb + 1 ≤ kt + kc := hlt
      have h' : ((kb + 1 : Int) : Rat) ≤ ((kt + kc : Int) : Rat) := by exact_mod_cast this
      push_cast at h'
      linarith
  · intro he hgn
    have := hne he hgn
    show X.budget ≤ ((X.N.map (fun v => v.app)).length : Rat) * X.b
    rw [List.length_map]
    exact this
  · intro ai hai c hc ha
    obtain ⟨v, hv, hget, happ⟩ := mem_voters_ofInput X ai hai
    rw [pointOf_p X ai.2 v hget]
    rw [happ] at ha
    exact Ex.approved v hv c hc ha
  · intro ai hai
    obtain ⟨v, hv, hget, _⟩ := mem_voters_ofInput X ai hai
    rw [pointOf_spent X ai.2 v hget]
    exact Ex.within v hv
  · intro c hc
    have hc' : c ∈ X.C := hc
    rw [pointOf_paid]
    show paidFor X c ≤ X.cost c
    by_cases h : X.W.contains c = true
    · exact le_of_eq (Ex.selected c (hcontains c h))
    · rw [Ex.unselected c (mem_NW_of X c hc' h)]; exact hcost c hc'
  · intro c hc
    have hc' : c ∈ X.C := hc
    rw [pointOf_paid, hx, hINF]
    show X.cost c + ((if X.W.contains c then 1 else 0) - 1) * (X.budget * 10) ≤ paidFor X c
    by_cases h : X.W.contains c = true
    · rw [if_pos h, Ex.selected c (hcontains c h)]; linarith
    · rw [if_neg h, Ex.unselected c (mem_NW_of X c hc' h)]
      have := hbig c (mem_NW_of X c hc' h)
      linarith
  · intro ai hai c hc
    have hc' : c ∈ X.C := hc
    obtain ⟨v, hv, hget, _⟩ := mem_voters_ofInput X ai hai
    rw [pointOf_p X ai.2 v hget, hx, hINF]
    have hle : v.pay c ≤ paidFor X c := so_mem_le X.N (fun v => v.pay c) (fun w hw => Ex.nonneg w hw c hc') v hv
    by_cases h : X.W.contains c = true
    · rw [if_pos h]
      have h1 := Ex.selected c (hcontains c h)
      have h2 := hcost_le c (hcontains c h)
      have h3 := Ex.feasible
      linarith
    · rw [if_neg h]
      have h1 := Ex.unselected c (mem_NW_of X c hc' h)
      linarith
  · intro _ ai hai
    obtain ⟨v, _, hget, _⟩ := mem_voters_ofInput X ai hai
    rw [pointOf_r X ai.2 v hget, pointOf_spent X ai.2 v hget]
    rfl
  · intro hs c hc
    have hc' : c ∈ X.C := hc
    rw [pointOf_suppR, hx, hINF]
    show leftoverOf X c ≤ X.cost c + (if X.W.contains c then 1 else 0) * (X.budget * 10)
    by_cases h : X.W.contains c = true
    · rw [if_pos h]
      have := hbd.plain hs c (hcontains c h)
      linarith
    · rw [if_neg h]
      have := Ex.noMoney hs c (mem_NW_of X c hc' h)
      linarith
  · intro _ ai hai c hc
    obtain ⟨v, _, hget, _⟩ := mem_voters_ofInput X ai hai
    rw [pointOf_p X ai.2 v hget, pointOf_m X ai.2 v hget]
    exact le_trans (pay_le_maxPayment X v c hc) (maxPayment_le_stableVal X v)
  · intro _ ai hai
    obtain ⟨v, _, hget, _⟩ := mem_voters_ofInput X ai hai
    rw [pointOf_m X ai.2 v hget, pointOf_spent X ai.2 v hget]
    exact leftover_le_stableVal X v
  · intro hs c hc
    have hc' : c ∈ X.C := hc
    rw [pointOf_suppM, hx, hINF]
    show stableOf X c ≤ X.cost c + (if X.W.contains c then 1 else 0) * (X.budget * 10)
    by_cases h : X.W.contains c = true
    · rw [if_pos h]
      have := hbd.stab hs c (hcontains c h)
      linarith
    · rw [if_neg h]
      have := Ex.stab hs c (mem_NW_of X c hc' h)
      linarith

/-! ### normalisation: the voter budget never needs to exceed the budget limit -/

/-- the same payments with the voter budget capped at the budget limit -/
def capB (X : Input) : Input := { X with b := if X.b ≤ X.budget then X.b else X.budget }

theorem capB_b_le (X : Input) : (capB X).b ≤ X.b := by
  show (if X.b ≤ X.budget then X.b else X.budget) ≤ X.b
  by_cases h : X.b ≤ X.budget
  · rw [if_pos h]
  · rw [if_neg h]; exact le_of_lt (not_le.mp h)

theorem capB_b_le_budget (X : Input) : (capB X).b ≤ X.budget := by
  show (if X.b ≤ X.budget then X.b else X.budget) ≤ X.budget
  by_cases h : X.b ≤ X.budget
  · rw [if_pos h]; exact h
  · rw [if_neg h]

theorem capB_b_nonneg (X : Input) (hb : 0 ≤ X.b) (hB : 0 ≤ X.budget) : 0 ≤ (capB X).b := by
  show 0 ≤ (if X.b ≤ X.budget then X.b else X.budget)
  by_cases h : X.b ≤ X.budget
  · rw [if_pos h]; exact hb
  · rw [if_neg h]; exact hB

/-- in a price system nobody pays more than the whole allocation costs -/
theorem spent_le_total (X : Input) (s e : Bool) (Ex : Exact X s e) (hW : WithinInstance X) (v : PVoter) (hv : v ∈ X.N) :
    spent X v ≤ X.total := by
  have h1 : X.total = sumOver X.C (fun c => if X.W.contains c = true then X.cost c else 0) := by
    unfold Input.total costOf
    rw [hW, so_filter_ite]
    apply so_congr
    intro c _
    unfold WithinInstance at hW
    rw [← hW]
  rw [h1]
  unfold spent
  apply Price.sumOver_le_sumOver
  intro c hc
  have hle : v.pay c ≤ paidFor X c := so_mem_le X.N (fun v => v.pay c) (fun w hw => Ex.nonneg w hw c hc) v hv
  by_cases h : X.W.contains c = true
  · rw [if_pos h]
    have := Ex.selected c (by simpa using h)
    linarith
  · rw [if_neg h]
    have := Ex.unselected c (mem_NW_of X c hc h)
    linarith

theorem leftover_capB_le (X : Input) (v : PVoter) : leftover (capB X) v ≤ leftover X v := by
  have := capB_b_le X
  show (capB X).b - spent X v ≤ X.b - spent X v
  linarith

theorem stableVal_capB_le (X : Input) (v : PVoter) : stableVal (capB X) v ≤ stableVal X v := by
  have h1 := leftover_capB_le X v
  have h2 := leftover_le_stableVal X v
  have h3 := maxPayment_le_stableVal X v
  have hm : maxPayment (capB X) v = maxPayment X v := rfl
  unfold stableVal at *
  rw [hm]
  by_cases h : leftover (capB X) v ≤ maxPayment X v
  · rw [if_pos h]; exact h3
  · rw [if_neg h]; linarith

/-- capping the voter budget at the budget limit keeps a price system a price system -/
theorem capB_exact (X : Input) (s e : Bool) (Ex : Exact X s e) (hW : WithinInstance X) : Exact (capB X) s e := by
  refine { feasible := Ex.feasible, exhaust := Ex.exhaust, approved := Ex.approved, nonneg := Ex.nonneg, within := ?_,
           selected := Ex.selected, unselected := Ex.unselected, noMoney := ?_, stab := ?_ }
  · intro v hv
    show spent X v ≤ (if X.b ≤ X.budget then X.b else X.budget)
    by_cases h : X.b ≤ X.budget
    · rw [if_pos h]; exact Ex.within v hv
    · rw [if_neg h]; exact le_trans (spent_le_total X s e Ex hW v hv) Ex.feasible
  · intro hs c hc
    refine le_trans ?_ (Ex.noMoney hs c hc)
    unfold leftoverOf
    exact Price.sumOver_le_sumOver _ _ _ (fun v _ => leftover_capB_le X v)
  · intro hs c hc
    refine le_trans ?_ (Ex.stab hs c hc)
    show sumOver _ (stableVal (capB X)) ≤ sumOver _ (stableVal X)
    exact Price.sumOver_le_sumOver _ _ _ (fun v _ => stableVal_capB_le X v)

/-- with the voter budget capped, the big-M bounds hold as soon as no selected project has more than 10 supporters -/
theorem capB_bounded (X : Input) (s e : Bool) (Ex : Exact X s e) (hW : WithinInstance X) (hcost : ∀ c ∈ X.C, 0 ≤ X.cost c)
    (hb0 : 0 ≤ X.b) (hsmall : ∀ c ∈ X.W, ((X.N.filter (fun v => v.app c)).length : Rat) ≤ 10) : Bounded (capB X) s := by
  have Ex' := capB_exact X s e Ex hW
  have hWC := mem_W_C X hW
  have htot0 : 0 ≤ X.total := so_nonneg _ _ (fun c hc => hcost c (hWC c hc))
  have hbud0 : 0 ≤ X.budget := le_trans htot0 Ex.feasible
  have hb' := capB_b_nonneg X hb0 hbud0
  have hbB := capB_b_le_budget X
  have key : ∀ (f : PVoter → Rat), (∀ v ∈ X.N, f v ≤ (capB X).b) → ∀ c ∈ X.W,
      sumOver (X.N.filter (fun v => v.app c)) f ≤ X.cost c + 10 * X.budget := by
    intro f hf c hc
    have h1 : sumOver (X.N.filter (fun v => v.app c)) f ≤ sumOver (X.N.filter (fun v => v.app c)) (fun _ => (capB X).b) :=
      Price.sumOver_le_sumOver _ _ _ (fun v hv => hf v (List.mem_filter.mp hv).1)
    rw [Price.sumOver_const] at h1
    have h2 := hsmall c hc
    have h3 := hcost c (hWC c hc)
    have h4 : ((X.N.filter (fun v => v.app c)).length : Rat) * (capB X).b ≤ 10 * X.budget :=
      mul_le_mul h2 hbB hb' (by norm_num)
    linarith
  have hspent0 : ∀ v ∈ X.N, 0 ≤ spent X v := fun v hv => so_nonneg _ _ (fun c hc => Ex.nonneg v hv c hc)
  constructor
  · intro _ c hc
    apply key (leftover (capB X)) _ c hc
    intro v hv
    have := hspent0 v hv
    show (capB X).b - spent X v ≤ (capB X).b
    linarith
  · intro _ c hc
    show sumOver _ (stableVal (capB X)) ≤ _
    apply key (stableVal (capB X)) _ c hc
    intro v hv
    have hw : spent X v ≤ (capB X).b := Ex'.within v hv
    have hmp : maxPayment (capB X) v ≤ (capB X).b := by
      apply maxPayment_le _ _ _ hb'
      intro c' hc'
      have : v.pay c' ≤ spent X v := so_mem_le X.C v.pay (fun c'' hc'' => Ex.nonneg v hv c'' hc'') c' hc'
      linarith
    have hl : leftover (capB X) v ≤ (capB X).b := by
      have := hspent0 v hv
      show (capB X).b - spent X v ≤ (capB X).b
      linarith
    unfold stableVal
    by_cases h : leftover (capB X) v ≤ maxPayment (capB X) v
    · rw [if_pos h]; exact hmp
    · rw [if_neg h]; exact hl

/-- the "prevent empty allocation" requirement survives the cap -/
theorem capB_nonEmpty (X : Input) (hbud0 : 0 ≤ X.budget) (h : X.budget ≤ (X.N.length : Rat) * X.b) :
    X.budget ≤ (X.N.length : Rat) * (capB X).b := by
  show X.budget ≤ (X.N.length : Rat) * (if X.b ≤ X.budget then X.b else X.budget)
  by_cases hb : X.b ≤ X.budget
  · rw [if_pos hb]; exact h
  · rw [if_neg hb]
    by_cases hn : X.N.length = 0
    · rw [hn] at h ⊢
      have : X.budget = 0 := by
        have : X.budget ≤ 0 := by simpa using h
        linarith
      rw [this]; simp
    · have h1 : (1 : Rat) ≤ (X.N.length : Rat) := by exact_mod_cast Nat.one_le_iff_ne_zero.mpr hn
      nlinarith

/-- a price system for a non-empty profile has a non-negative voter budget -/
theorem exact_b_nonneg (X : Input) (s e : Bool) (Ex : Exact X s e) (hN : X.N ≠ []) : 0 ≤ X.b := by
  cases hn : X.N with
  | nil => exact absurd hn hN
  | cons v l =>
    have hv : v ∈ X.N := by rw [hn]; simp
    have h1 := Ex.within v hv
    have h2 : 0 ≤ spent X v := so_nonneg _ _ (fun c hc => Ex.nonneg v hv c hc)
    linarith

/-! ### what the big-M constants exclude -/

/-- an unselected project must cost at most `INF` (second inequality of C3 with `x_c = 0`) -/
theorem feasible_unselected_cost (E : Elec) (cfg : Cfg) (pt : Point) (F : Feasible E cfg pt) (c : Pid) (hc : c ∈ E.C)
    (hx : pt.x c = 0) : E.cost c ≤ INF E := by
  have h1 := F.c3b c hc
  rw [hx] at h1
  have h2 : paidP E pt c ≤ 0 := by
    have : paidP E pt c ≤ sumOver (voters E) (fun _ => (0 : Rat)) := by
      unfold paidP
      apply Price.sumOver_le_sumOver
      intro ai hai
      have := F.c4 ai hai c hc
      rw [hx] at this
      linarith
    rw [Price.sumOver_zero] at this
    exact this
  linarith

theorem so_zipIdx_single {α : Type} (l : List α) (k i0 : Nat) (f : α × Nat → Rat) (M : Rat) (hM : 0 ≤ M)
    (H : ∀ ai ∈ l.zipIdx k, ai.2 ≠ i0 → f ai = 0) (hf : ∀ ai ∈ l.zipIdx k, f ai ≤ M) : sumOver (l.zipIdx k) f ≤ M := by
  induction l generalizing k with
  | nil => exact hM
  | cons a l ih =>
    rw [List.zipIdx_cons] at H hf ⊢
    rw [so_cons]
    by_cases hk : k = i0
    · have hrest : sumOver (l.zipIdx (k + 1)) f = 0 := by
        apply so_zero_of
        intro ai hai
        apply H ai (List.mem_cons_of_mem _ hai)
        have := List.mem_zipIdx (x := ai.1) (i := ai.2) hai
        omega
      rw [hrest]
      have := hf (a, k) (by simp)
      linarith
    · have h0 : f (a, k) = 0 := H (a, k) (by simp) hk
      rw [h0]
      have := ih (k + 1) (fun ai hai => H ai (List.mem_cons_of_mem _ hai)) (fun ai hai => hf ai (List.mem_cons_of_mem _ hai))
      linarith

theorem so_single {α : Type} [DecidableEq α] (l : List α) (hnd : l.Nodup) (f : α → Rat) (c : α) (hc : c ∈ l)
    (H : ∀ c' ∈ l, c' ≠ c → f c' = 0) : sumOver l f = f c := by
  induction l with
  | nil => cases hc
  | cons a l ih =>
    rw [so_cons]
    have hnd' := List.nodup_cons.mp hnd
    rcases List.mem_cons.mp hc with rfl | hcl
    · have : sumOver l f = 0 := by
        apply so_zero_of
        intro x hx
        apply H x (List.mem_cons_of_mem _ hx)
        intro hxc
        rw [hxc] at hx
        exact hnd'.1 hx
      rw [this]; ring
    · have hac : a ≠ c := by
        intro h; rw [h] at hnd'; exact hnd'.1 hcl
      rw [H a (by simp) hac, ih hnd'.2 hcl (fun c' hc' => H c' (List.mem_cons_of_mem _ hc'))]
      ring

/-- THE LIMIT OF `INF = 10·budget`: the program imposes C5 / S5 on SELECTED projects too, relaxed only by `INF`.
    If a selected project `d` has a single supporter (voter `i0`, who must therefore own `cost(d)`, and so must everybody),
    and a selected project `c` has supporters who approve nothing else, then every point of the program satisfies
    `(number of supporters of c) · cost(d) ≤ 2·cost(c) + INF`, whatever price systems exist. -/
theorem bigM_selected_bound (E : Elec) (cfg : Cfg) (pt : Point) (F : Feasible E cfg pt) (hnd : E.C.Nodup)
    (c d : Pid) (hc : c ∈ E.C) (hd : d ∈ E.C) (hxc : pt.x c = 1) (hxd : pt.x d = 1) (i0 : Nat)
    (hsole : ∀ ai ∈ voters E, ai.2 ≠ i0 → ai.1 d = false)
    (hsingle : ∀ ai ∈ supp E c, ∀ c' ∈ E.C, c' ≠ c → ai.1 c' = false) :
    ((supp E c).length : Rat) * E.cost d ≤ 2 * E.cost c + INF E := by
  have hsuppmem : ∀ ai ∈ supp E c, ai ∈ voters E := fun ai h => (List.mem_filter.mp h).1
  -- everybody owns at least cost(d)
  have hb : E.cost d ≤ pt.b := by
    have h1 := F.c3b d hd
    rw [hxd] at h1
    have h2 : paidP E pt d ≤ pt.b := by
      unfold paidP voters
      apply so_zipIdx_single E.apps 0 i0 _ pt.b F.bnd_b
      · intro ai hai hne
        exact F.c1 ai hai d hd (hsole ai hai hne)
      · intro ai hai
        have h3 : pt.p ai.2 d ≤ spentP E pt ai.2 := so_mem_le E.C (pt.p ai.2) (fun c' hc' => F.bnd_p ai hai c' hc') d hd
        have h4 := F.c2 ai hai
        linarith
    linarith
  -- the supporters of c spend on c only, together at most cost(c)
  have hsp : sumOver (supp E c) (fun ai => spentP E pt ai.2) ≤ E.cost c := by
    have h1 : sumOver (supp E c) (fun ai => spentP E pt ai.2) = sumOver (supp E c) (fun ai => pt.p ai.2 c) := by
      apply so_congr
      intro ai hai
      unfold spentP
      apply so_single E.C hnd (pt.p ai.2) c hc
      intro c' hc' hne
      exact F.c1 ai (hsuppmem ai hai) c' hc' (hsingle ai hai c' hc' hne)
    have h2 : sumOver (supp E c) (fun ai => pt.p ai.2 c) ≤ paidP E pt c := by
      unfold supp paidP
      rw [so_filter_ite]
      apply Price.sumOver_le_sumOver
      intro ai hai
      by_cases h : ai.1 c = true
      · rw [if_pos h]
      · rw [if_neg h]; exact F.bnd_p ai hai c hc
    have h3 := F.c3a c hc
    linarith
  -- what C5 / S5 say about the selected project c
  have hsum : sumOver (supp E c) (fun ai => pt.b - spentP E pt ai.2) ≤ E.cost c + INF E := by
    cases hs : cfg.stable with
    | false =>
      have h5 := F.c5 hs c hc
      rw [hxc] at h5
      have : sumOver (supp E c) (fun ai => pt.b - spentP E pt ai.2) = sumOver (supp E c) (fun ai => pt.r ai.2) := by
        apply so_congr
        intro ai hai
        exact (F.rdef hs ai (hsuppmem ai hai)).symm
      rw [this]; linarith
    | true =>
      have h5 := F.s5 hs c hc
      rw [hxc] at h5
      have : sumOver (supp E c) (fun ai => pt.b - spentP E pt ai.2) ≤ sumOver (supp E c) (fun ai => pt.m ai.2) :=
        Price.sumOver_le_sumOver _ _ _ (fun ai hai => F.m2 hs ai (hsuppmem ai hai))
      linarith
  have hsplit : sumOver (supp E c) (fun ai => pt.b - spentP E pt ai.2)
      = ((supp E c).length : Rat) * pt.b - sumOver (supp E c) (fun ai => spentP E pt ai.2) := by
    have := Price.sumOver_add (supp E c) (fun ai => pt.b - spentP E pt ai.2) (fun ai => spentP E pt ai.2)
    have h2 : (fun ai : (Pid → Bool) × Nat => pt.b - spentP E pt ai.2 + spentP E pt ai.2) = fun _ => pt.b := by
      funext ai; ring
    rw [h2, Price.sumOver_const] at this
    linarith
  have hlen : (0 : Rat) ≤ ((supp E c).length : Rat) := by positivity
  have hmul : ((supp E c).length : Rat) * E.cost d ≤ ((supp E c).length : Rat) * pt.b := mul_le_mul_of_nonneg_left hb hlen
  linarith

end Pabu.PriceMIP
