/-
  Lemmas for C06 (profiles and multiprofiles are interchangeable) on the model:
  an entry with multiplicity `m` behaves exactly like `m` identical voters of multiplicity 1.
  E1 sums / measures, E2 supporter lists and the Equal Shares price, E3 Equal Shares runs,
  E4 sequential Phragmén, E5 greedy / welfare.
-/
import PabuModel.Expand
import PabuProofs.Lemmas.MES
namespace Pabu

/-! ### Generic list sums -/

namespace Expand

theorem sumNat_append {α : Type} (f : α → Nat) : ∀ l l' : List α,
    sumNat (l ++ l') f = sumNat l f + sumNat l' f
  | [], l' => by simp [sumNat]
  | x :: xs, l' => by simp only [List.cons_append, sumNat, sumNat_append f xs l']; omega

theorem sumNat_replicate {α : Type} (f : α → Nat) (x : α) : ∀ n : Nat,
    sumNat (List.replicate n x) f = n * f x
  | 0 => by simp [sumNat]
  | n + 1 => by
    simp only [List.replicate_succ, sumNat, sumNat_replicate f x n]
    rw [Nat.add_mul]; omega

theorem sumOver_replicate {α : Type} (f : α → Rat) (x : α) : ∀ n : Nat,
    sumOver (List.replicate n x) f = (n : Rat) * f x
  | 0 => by simp [sumOver]
  | n + 1 => by
    simp only [List.replicate_succ, sumOver, sumOver_replicate f x n]; push_cast; ring

theorem sumNat_flatMap_replicate {α β : Type} (k : α → Nat) (g : α → β) (f : β → Nat) :
    ∀ l : List α, sumNat (l.flatMap (fun x => List.replicate (k x) (g x))) f =
      sumNat l (fun x => k x * f (g x))
  | [] => rfl
  | x :: xs => by
    rw [List.flatMap_cons, sumNat_append, sumNat_replicate, sumNat_flatMap_replicate k g f xs]
    rfl

theorem sumOver_flatMap_replicate {α β : Type} (k : α → Nat) (g : α → β) (f : β → Rat) :
    ∀ l : List α, sumOver (l.flatMap (fun x => List.replicate (k x) (g x))) f =
      sumOver l (fun x => (k x : Rat) * f (g x))
  | [] => rfl
  | x :: xs => by
    rw [List.flatMap_cons, MES.sumOver_append, sumOver_replicate,
      sumOver_flatMap_replicate k g f xs]
    rfl

theorem sumNat_map {α β : Type} (g : α → β) (f : β → Nat) : ∀ l : List α,
    sumNat (l.map g) f = sumNat l (fun x => f (g x))
  | [] => rfl
  | x :: xs => by simp only [List.map_cons, sumNat, sumNat_map g f xs]

theorem sumOver_map {α β : Type} (g : α → β) (f : β → Rat) : ∀ l : List α,
    sumOver (l.map g) f = sumOver l (fun x => f (g x))
  | [] => rfl
  | x :: xs => by simp only [List.map_cons, sumOver, sumOver_map g f xs]

theorem sumNat_perm {α : Type} (f : α → Nat) {l l' : List α} (h : l.Perm l') :
    sumNat l f = sumNat l' f := by
  induction h with
  | nil => rfl
  | cons x _ ih => simp only [sumNat, ih]
  | swap x y l => simp only [sumNat]; omega
  | trans _ _ ih1 ih2 => exact ih1.trans ih2

theorem sumNat_congr {α : Type} {f g : α → Nat} : ∀ {l : List α}, (∀ x ∈ l, f x = g x) →
    sumNat l f = sumNat l g
  | [], _ => rfl
  | x :: xs, h => by
    simp only [sumNat, h x (by simp), sumNat_congr (l := xs) (fun y hy => h y (by simp [hy]))]

theorem sumOver_congr {α : Type} {f g : α → Rat} : ∀ {l : List α}, (∀ x ∈ l, f x = g x) →
    sumOver l f = sumOver l g
  | [], _ => rfl
  | x :: xs, h => by
    simp only [sumOver, h x (by simp), sumOver_congr (l := xs) (fun y hy => h y (by simp [hy]))]

end Expand
open Expand

/-! ### E1 — profiles: counts, scores, measures -/

theorem expand_cons (e : Ballot × Nat) (P : Profile) :
    Profile.expand (e :: P) = List.replicate e.2 (e.1, 1) ++ Profile.expand P := by
  unfold Profile.expand; rw [List.flatMap_cons]

/-- every entry of an expanded profile has multiplicity 1: it is a list profile -/
theorem expand_mult_one (P : Profile) : ∀ e ∈ P.expand, e.2 = 1 := by
  intro e he
  unfold Profile.expand at he
  obtain ⟨a, _, ha⟩ := List.mem_flatMap.mp he
  rw [(List.mem_replicate.mp ha).2]

/-- the ballots of the expansion are the ballots of the entries with positive multiplicity -/
theorem mem_expand {P : Profile} {b : Ballot} {k : Nat} :
    (b, k) ∈ P.expand ↔ k = 1 ∧ ∃ m, (b, m) ∈ P ∧ 0 < m := by
  unfold Profile.expand
  rw [List.mem_flatMap]
  constructor
  · rintro ⟨a, ha, h⟩
    obtain ⟨h1, h2⟩ := List.mem_replicate.mp h
    cases h2
    exact ⟨rfl, a.2, ha, Nat.pos_of_ne_zero h1⟩
  · rintro ⟨rfl, m, hm, hpos⟩
    exact ⟨(b, m), hm, List.mem_replicate.mpr ⟨Nat.pos_iff_ne_zero.mp hpos, rfl⟩⟩

theorem numBallots_expand (P : Profile) : P.expand.numBallots = P.numBallots := by
  unfold Profile.numBallots Profile.expand
  rw [sumNat_flatMap_replicate (fun e : Ballot × Nat => e.2) (fun e => (e.1, 1)) (fun e => e.2)]
  exact sumNat_congr (fun x _ => Nat.mul_one _)

theorem length_expand (P : Profile) : P.expand.length = P.numBallots := by
  induction P with
  | nil => rfl
  | cons e P ih =>
    rw [expand_cons, List.length_append, List.length_replicate, ih]; rfl

theorem approvalScore_expand (P : Profile) (p : Pid) :
    P.expand.approvalScore p = P.approvalScore p := by
  unfold Profile.approvalScore Profile.expand
  rw [sumNat_flatMap_replicate (fun e : Ballot × Nat => e.2) (fun e => (e.1, 1))
    (fun e => if e.1.mem p then e.2 else 0)]
  apply sumNat_congr
  intro x _
  by_cases h : x.1.mem p = true
  · simp [h]
  · simp [h]

theorem effortDenominator_expand (P : Profile) (p : Pid) :
    effortDenominator P.expand p = effortDenominator P p := approvalScore_expand P p

/-- `sat_project` is the same on the multiprofile and on its list profile, for EVERY measure
    (the only one that looks at the profile is `effort`, through the number of approvers) -/
theorem satProject_expand (μ : Measure) (I : Inst) (P : Profile) (b : Ballot) (p : Pid) :
    satProject μ I P.expand b p = satProject μ I P b p := by
  cases μ <;> first | rfl | (simp only [satProject, effortDenominator_expand])

theorem satProject_expand_fun (μ : Measure) (I : Inst) (P : Profile) :
    satProject μ I P.expand = satProject μ I P := by
  funext b p; exact satProject_expand μ I P b p

/-- `sat` of a project set is the same on the multiprofile and on its list profile -/
theorem sat_expand (μ : Measure) (I : Inst) (P : Profile) (b : Ballot) (l : List Pid) :
    sat μ I P.expand b l = sat μ I P b l := by
  cases μ <;> first | rfl | (simp only [sat, satProject_expand_fun])

/-- total satisfaction with multiplicities = total satisfaction of the expanded list -/
theorem totalSatOf_expand (μ : Measure) (I : Inst) (P : Profile) :
    totalSatOf μ I P.expand = totalSatOf μ I P := by
  funext l
  unfold totalSatOf
  have h1 : (fun e : Ballot × Nat => ((e.2 : Nat) : Rat) * sat μ I P.expand e.1 l) =
      fun e => ((e.2 : Nat) : Rat) * sat μ I P e.1 l := by
    funext e; rw [sat_expand]
  rw [h1]
  unfold Profile.expand
  rw [sumOver_flatMap_replicate (fun e : Ballot × Nat => e.2) (fun e => (e.1, 1))
    (fun e => ((e.2 : Nat) : Rat) * sat μ I P e.1 l)]
  apply sumOver_congr
  intro x _
  simp

theorem profitOf_expand (μ : Measure) (I : Inst) (P : Profile) :
    profitOf μ I P.expand = profitOf μ I P := by
  funext p
  unfold profitOf
  rw [satProject_expand_fun]
  unfold Profile.expand
  rw [sumOver_flatMap_replicate (fun e : Ballot × Nat => e.2) (fun e => (e.1, 1))
    (fun e => ((e.2 : Nat) : Rat) * satProject μ I P e.1 p)]
  apply sumOver_congr
  intro x _
  simp

/-- for a measure that does not look at the profile the sum may be taken with any profile
    argument: Σ m·sat over `P` = Σ 1·sat over the copies -/
theorem totalSat_expand_indep (f : Ballot → Rat) (P : Profile) :
    sumOver P.expand (fun e => ((e.2 : Nat) : Rat) * f e.1) =
      sumOver P (fun e => ((e.2 : Nat) : Rat) * f e.1) := by
  unfold Profile.expand
  rw [sumOver_flatMap_replicate (fun e : Ballot × Nat => e.2) (fun e => (e.1, 1))
    (fun e => ((e.2 : Nat) : Rat) * f e.1)]
  apply sumOver_congr
  intro x _
  simp

/-! ### E2 — supporter lists: sums, well-formedness, sortedness, the price -/

theorem expandSups_cons (s : Sup) (l : List Sup) :
    expandSups (s :: l) = List.replicate s.m { s with m := 1 } ++ expandSups l := by
  unfold expandSups; rw [List.flatMap_cons]

namespace Expand

theorem paySum_append (r : Rat) : ∀ l l' : List Sup, paySum r (l ++ l') = paySum r l + paySum r l'
  | [], l' => by simp [paySum]
  | x :: xs, l' => by simp only [List.cons_append, paySum, paySum_append r xs l']; ring

theorem budSum_append : ∀ l l' : List Sup, budSum (l ++ l') = budSum l + budSum l'
  | [], l' => by simp [budSum]
  | x :: xs, l' => by simp only [List.cons_append, budSum, budSum_append xs l']; ring

theorem utilSum_append : ∀ l l' : List Sup, utilSum (l ++ l') = utilSum l + utilSum l'
  | [], l' => by simp [utilSum]
  | x :: xs, l' => by simp only [List.cons_append, utilSum, utilSum_append xs l']; ring

theorem paySum_replicate (r : Rat) (s : Sup) : ∀ n : Nat,
    paySum r (List.replicate n s) = (n : Rat) * ((s.m : Rat) * min s.b (r * s.u))
  | 0 => by simp [paySum]
  | n + 1 => by
    simp only [List.replicate_succ, paySum, paySum_replicate r s n]; push_cast; ring

theorem budSum_replicate (s : Sup) : ∀ n : Nat,
    budSum (List.replicate n s) = (n : Rat) * ((s.m : Rat) * s.b)
  | 0 => by simp [budSum]
  | n + 1 => by
    simp only [List.replicate_succ, budSum, budSum_replicate s n]; push_cast; ring

theorem utilSum_replicate (s : Sup) : ∀ n : Nat,
    utilSum (List.replicate n s) = (n : Rat) * ((s.m : Rat) * s.u)
  | 0 => by simp [utilSum]
  | n + 1 => by
    simp only [List.replicate_succ, utilSum, utilSum_replicate s n]; push_cast; ring

end Expand
open Expand

/-- at every price the copies pay together what the entries pay -/
theorem paySum_expandSups (r : Rat) : ∀ l : List Sup, paySum r (expandSups l) = paySum r l
  | [] => rfl
  | s :: l => by
    rw [expandSups_cons, paySum_append, paySum_replicate, paySum_expandSups r l]
    simp only [paySum]; push_cast; ring

theorem budSum_expandSups : ∀ l : List Sup, budSum (expandSups l) = budSum l
  | [] => rfl
  | s :: l => by
    rw [expandSups_cons, budSum_append, budSum_replicate, budSum_expandSups l]
    simp only [budSum]; push_cast; ring

theorem utilSum_expandSups : ∀ l : List Sup, utilSum (expandSups l) = utilSum l
  | [] => rfl
  | s :: l => by
    rw [expandSups_cons, utilSum_append, utilSum_replicate, utilSum_expandSups l]
    simp only [utilSum]; push_cast; ring

theorem mem_expandSups {l : List Sup} {t : Sup} :
    t ∈ expandSups l ↔ ∃ s ∈ l, s.m ≠ 0 ∧ t = { s with m := 1 } := by
  unfold expandSups
  rw [List.mem_flatMap]
  constructor
  · rintro ⟨s, hs, h⟩
    exact ⟨s, hs, List.mem_replicate.mp h⟩
  · rintro ⟨s, hs, h⟩
    exact ⟨s, hs, List.mem_replicate.mpr h⟩

theorem expandSups_wf {l : List Sup} (hw : ∀ s ∈ l, s.WF) : ∀ t ∈ expandSups l, t.WF := by
  intro t ht
  obtain ⟨s, hs, _, rfl⟩ := mem_expandSups.mp ht
  have := hw s hs
  exact ⟨this.1, this.2.1, le_refl _⟩

theorem expandSups_mult_one {l : List Sup} : ∀ t ∈ expandSups l, t.m = 1 := by
  intro t ht
  obtain ⟨s, _, _, rfl⟩ := mem_expandSups.mp ht
  rfl

/-- a ratio-sorted list of entries stays ratio-sorted when the entries are replaced by copies -/
theorem expandSups_sorted {l : List Sup} (h : SortedRatio l) : SortedRatio (expandSups l) := by
  unfold SortedRatio expandSups at *
  rw [List.pairwise_flatMap]
  refine ⟨?_, ?_⟩
  · intro s _
    rw [List.pairwise_replicate]
    right
    exact le_refl _
  · refine List.Pairwise.imp ?_ h
    intro s t hst x hx y hy
    rw [(List.mem_replicate.mp hx).2, (List.mem_replicate.mp hy).2]
    exact hst

/-- the stable sort by `b/u` commutes with expansion up to the order of equal-ratio copies; what
    matters is that both sorted lists are ratio-sorted permutations -/
theorem sorted_expandSups_perm (l : List Sup) :
    (sortLe ratioLe (expandSups l)).Perm (expandSups (sortLe ratioLe l)) := by
  refine (sortLe_ratioLe_perm _).trans ?_
  unfold expandSups
  exact (sortLe_ratioLe_perm l).symm.flatMap_right _

/-- two well-formed supporter lists that hold the same money and pay the same at every price get
    the same price from the sweep (uniqueness of the least covering price) -/
theorem sweep_sorted_congr (l l' : List Sup) (C : Rat) (hw : ∀ s ∈ l, s.WF) (hw' : ∀ s ∈ l', s.WF)
    (hC : 0 < C) (haff : C ≤ budSum l) (hb : budSum l' = budSum l)
    (hp : ∀ r, paySum r l' = paySum r l) :
    sweep C (utilSum l') (sortLe ratioLe l') = sweep C (utilSum l) (sortLe ratioLe l) := by
  have hperm := sortLe_ratioLe_perm l
  have hperm' := sortLe_ratioLe_perm l'
  obtain ⟨r, h1, h2, _, h4⟩ := sweep_least (sortLe ratioLe l) C (utilSum l)
    (fun s hs => hw s (hperm.mem_iff.mp hs)) (sortLe_ratioLe_sorted _ hw) hC
    (by rw [budSum_perm hperm]; exact haff) (utilSum_perm hperm).symm
  obtain ⟨r', h1', h2', _, h4'⟩ := sweep_least (sortLe ratioLe l') C (utilSum l')
    (fun s hs => hw' s (hperm'.mem_iff.mp hs)) (sortLe_ratioLe_sorted _ hw') hC
    (by rw [budSum_perm hperm', hb]; exact haff) (utilSum_perm hperm').symm
  rw [h1, h1']
  have e1 : paySum r (sortLe ratioLe l') = C := by
    rw [paySum_perm _ hperm', hp, ← paySum_perm _ hperm]; exact h2
  have e2 : paySum r' (sortLe ratioLe l) = C := by
    rw [paySum_perm _ hperm, ← hp, ← paySum_perm _ hperm']; exact h2'
  have := h4' r (le_of_eq e1.symm)
  have := h4 r' (le_of_eq e2.symm)
  congr 1
  exact le_antisymm ‹r' ≤ r› ‹r ≤ r'›

/-- `price_expand`: the price of a project computed on the entries (with multiplicities) is the
    price computed on the single copies -/
theorem price_expand (l : List Sup) (C : Rat) (hw : ∀ s ∈ l, s.WF) (hC : 0 < C)
    (haff : C ≤ budSum l) :
    sweep C (utilSum (expandSups l)) (sortLe ratioLe (expandSups l)) =
      sweep C (utilSum l) (sortLe ratioLe l) :=
  sweep_sorted_congr l (expandSups l) C hw (expandSups_wf hw) hC haff (budSum_expandSups l)
    (fun r => paySum_expandSups r l)

/-- … and the price on the copies is the least price at which the ENTRIES cover the cost -/
theorem price_expand_least (l : List Sup) (C : Rat) (hw : ∀ s ∈ l, s.WF) (hC : 0 < C)
    (haff : C ≤ budSum l) :
    ∃ r, sweep C (utilSum (expandSups l)) (sortLe ratioLe (expandSups l)) = some r ∧
      paySum r l = C ∧ 0 < r ∧ ∀ r', C ≤ paySum r' l → r ≤ r' := by
  rw [price_expand l C hw hC haff]
  have hperm := sortLe_ratioLe_perm l
  obtain ⟨r, h1, h2, h3, h4⟩ := sweep_least (sortLe ratioLe l) C (utilSum l)
    (fun s hs => hw s (hperm.mem_iff.mp hs)) (sortLe_ratioLe_sorted _ hw) hC
    (by rw [budSum_perm hperm]; exact haff) (utilSum_perm hperm).symm
  exact ⟨r, h1, by rw [← paySum_perm _ hperm]; exact h2, h3,
    fun r' hr' => h4 r' (by rw [paySum_perm _ hperm]; exact hr')⟩

/-! ### Copies of indexed voters -/

theorem expandIdx_cons (m : Nat → Nat) (i : Nat) (vs : List Nat) :
    expandIdx m (i :: vs) = List.replicate (m i) i ++ expandIdx m vs := by
  unfold expandIdx; rw [List.flatMap_cons]

theorem mem_expandIdx {m : Nat → Nat} {vs : List Nat} {i : Nat} :
    i ∈ expandIdx m vs ↔ i ∈ vs ∧ m i ≠ 0 := by
  unfold expandIdx
  rw [List.mem_flatMap]
  constructor
  · rintro ⟨j, hj, h⟩
    obtain ⟨h1, rfl⟩ := List.mem_replicate.mp h
    exact ⟨hj, h1⟩
  · rintro ⟨hi, h⟩
    exact ⟨i, hi, List.mem_replicate.mpr ⟨h, rfl⟩⟩

namespace Expand

theorem filter_replicate {α : Type} (q : α → Bool) (x : α) (n : Nat) :
    (List.replicate n x).filter q = if q x then List.replicate n x else [] := by
  by_cases h : q x = true
  · rw [if_pos h, List.filter_eq_self]
    intro a ha; rw [(List.mem_replicate.mp ha).2]; exact h
  · rw [if_neg h, List.filter_eq_nil_iff]
    intro a ha; rw [(List.mem_replicate.mp ha).2]; exact h

end Expand
open Expand

/-- filtering and relabelling the copies = copies of the filtered entries -/
theorem expandIdx_filter_map {β : Type} (m : Nat → Nat) (q : Nat → Bool) (g : Nat → β) :
    ∀ vs : List Nat, ((expandIdx m vs).filter q).map g =
      (vs.filter q).flatMap (fun i => List.replicate (m i) (g i))
  | [] => rfl
  | i :: vs => by
    rw [expandIdx_cons, List.filter_append, List.map_append, expandIdx_filter_map m q g vs,
      filter_replicate]
    by_cases h : q i = true
    · rw [if_pos h, List.filter_cons_of_pos h, List.flatMap_cons, List.map_replicate]
    · rw [if_neg h, List.filter_cons_of_neg h]; rfl

/-- the voters `vs'` are copies of the entries `vs` (entry of a copy: `e`): after relabelling,
    the filtered copies are a permutation of the copies of the filtered entries -/
theorem copies_filter_map {β : Type} {m : Nat → Nat} {vs vs' : List Nat} {e : Nat → Nat}
    (hperm : (vs'.map e).Perm (expandIdx m vs)) (q q' : Nat → Bool) (g g' : Nat → β)
    (hq : ∀ c ∈ vs', q' c = q (e c)) (hg : ∀ c ∈ vs', g' c = g (e c)) :
    ((vs'.filter q').map g').Perm ((vs.filter q).flatMap (fun i => List.replicate (m i) (g i))) := by
  have h1 : vs'.filter q' = vs'.filter (fun c => q (e c)) := List.filter_congr hq
  have h2 : (vs'.filter (fun c => q (e c))).map g' = (vs'.filter (fun c => q (e c))).map (fun c => g (e c)) :=
    List.map_congr_left (fun c hc => hg c (List.mem_filter.mp hc).1)
  have h3 : (vs'.filter (fun c => q (e c))).map (fun c => g (e c)) = ((vs'.map e).filter q).map g := by
    rw [List.filter_map, List.map_map]; rfl
  rw [h1, h2, h3, ← expandIdx_filter_map]
  exact (hperm.filter q).map g

theorem copies_mem {m : Nat → Nat} {vs vs' : List Nat} {e : Nat → Nat}
    (hperm : (vs'.map e).Perm (expandIdx m vs)) {c : Nat} (hc : c ∈ vs') : e c ∈ vs :=
  (mem_expandIdx.mp (hperm.mem_iff.mp (List.mem_map.mpr ⟨c, hc, rfl⟩))).1

/-- weighted sums over entries = plain sums over copies -/
theorem copies_sumOver {m : Nat → Nat} {vs vs' : List Nat} {e : Nat → Nat}
    (hperm : (vs'.map e).Perm (expandIdx m vs)) (q q' : Nat → Bool) (g g' : Nat → Rat)
    (hq : ∀ c ∈ vs', q' c = q (e c)) (hg : ∀ c ∈ vs', g' c = g (e c)) :
    sumOver (vs'.filter q') g' = sumOver (vs.filter q) (fun i => (m i : Rat) * g i) := by
  have h := MES.sumOver_perm (fun x : Rat => x) (copies_filter_map hperm q q' g g' hq hg)
  rw [sumOver_map, sumOver_flatMap_replicate] at h
  exact h

theorem copies_sumNat {m : Nat → Nat} {vs vs' : List Nat} {e : Nat → Nat}
    (hperm : (vs'.map e).Perm (expandIdx m vs)) (q q' : Nat → Bool) (g g' : Nat → Nat)
    (hq : ∀ c ∈ vs', q' c = q (e c)) (hg : ∀ c ∈ vs', g' c = g (e c)) :
    sumNat (vs'.filter q') g' = sumNat (vs.filter q) (fun i => m i * g i) := by
  have h := sumNat_perm (fun x : Nat => x) (copies_filter_map hperm q q' g g' hq hg)
  rw [sumNat_map, sumNat_flatMap_replicate] at h
  exact h

namespace Expand

theorem filter_true {α : Type} (l : List α) : l.filter (fun _ => true) = l := by
  rw [List.filter_eq_self]; intros; rfl

end Expand
open Expand

/-- consecutive numbering of the copies: copy `c` belongs to entry `entryIn m vs c` -/
theorem map_entryIn (m : Nat → Nat) : ∀ vs : List Nat,
    (List.range (sumNat vs m)).map (entryIn m vs) = expandIdx m vs
  | [] => rfl
  | i :: vs => by
    have ih := map_entryIn m vs
    rw [expandIdx_cons, ← ih]
    simp only [sumNat]
    rw [List.range_add, List.map_append, List.map_map]
    congr 1
    · rw [List.eq_replicate_iff]
      refine ⟨by simp, ?_⟩
      intro b hb
      obtain ⟨c, hc, rfl⟩ := List.mem_map.mp hb
      have : c < m i := List.mem_range.mp hc
      simp [entryIn, this]
    · apply List.map_congr_left
      intro c _
      simp [entryIn]

/-! ### Two round-based rules that stay in step (generic) -/

namespace Expand

section Bisim
variable {σ σ' : Type}

/-- what it takes for the rule `R'` (on the copies) to stay in step with `R` (on the entries):
    related states tie the same projects and output the same allocation, and buying a project
    admitted by `A` (given the tied set) keeps the states related -/
structure InStep (R : RoundRule σ) (R' : RoundRule σ') (Rel : σ → σ' → Prop)
    (A : List Pid → Pid → Prop) : Prop where
  tied : ∀ s s', Rel s s' → R'.tied s' = R.tied s
  out : ∀ s s', Rel s s' → R'.out s' = R.out s
  buy : ∀ s s' t, Rel s s' → A (R.tied s) t → Rel (R.buy s t) (R'.buy s' t)

theorem foldlM_accStep_congr {α β : Type} (f g : α → Except Err (List β)) :
    ∀ (ts : List α) (acc : List β), (∀ t ∈ ts, f t = g t) →
      ts.foldlM (accStep f) acc = ts.foldlM (accStep g) acc
  | [], _, _ => rfl
  | t :: ts, acc, h => by
    have ht : accStep f acc t = accStep g acc t := by unfold accStep; rw [h t (by simp)]
    rw [List.foldlM_cons, List.foldlM_cons, ht]
    cases hg : accStep g acc t with
    | error e => rfl
    | ok acc' => exact foldlM_accStep_congr f g ts acc' (fun x hx => h x (by simp [hx]))

theorem InStep.run {R : RoundRule σ} {R' : RoundRule σ'} {Rel : σ → σ' → Prop}
    {A : List Pid → Pid → Prop} (h : InStep R R' Rel A)
    (order : List Pid → Except Err (List Pid)) (hord : ∀ T l, order T = .ok l → ∀ x ∈ l, A T x) :
    ∀ n s s', Rel s s' → R'.run order n s' = R.run order n s := by
  intro n
  induction n with
  | zero => intro s s' hr; unfold RoundRule.run; rw [h.out s s' hr]
  | succ n ih =>
    intro s s' hr
    unfold RoundRule.run
    rw [h.tied s s' hr, h.out s s' hr]
    by_cases hT : R.tied s = []
    · rw [if_pos hT, if_pos hT]
    · rw [if_neg hT, if_neg hT]
      cases ho : order (R.tied s) with
      | error e => rfl
      | ok l =>
        cases l with
        | nil => rfl
        | cons t tl =>
          dsimp only
          exact ih _ _ (h.buy s s' t hr (hord _ _ ho t (by simp)))

theorem InStep.runAll {R : RoundRule σ} {R' : RoundRule σ'} {Rel : σ → σ' → Prop}
    {A : List Pid → Pid → Prop} (h : InStep R R' Rel A)
    (order : List Pid → Except Err (List Pid)) (hord : ∀ T l, order T = .ok l → ∀ x ∈ l, A T x) :
    ∀ n s s', Rel s s' → R'.runAll order n s' = R.runAll order n s := by
  intro n
  induction n with
  | zero => intro s s' hr; unfold RoundRule.runAll; rw [h.out s s' hr]
  | succ n ih =>
    intro s s' hr
    rw [runAll_succ, runAll_succ, h.tied s s' hr, h.out s s' hr]
    by_cases hT : R.tied s = []
    · rw [if_pos hT, if_pos hT]
    · rw [if_neg hT, if_neg hT]
      cases ho : order (R.tied s) with
      | error e => rfl
      | ok l =>
        dsimp only
        apply foldlM_accStep_congr
        intro t ht
        exact ih _ _ (h.buy s s' t hr (hord _ _ ho t ht))

theorem InStep.runP {R : RoundRule σ} {R' : RoundRule σ'} {Rel : σ → σ' → Prop}
    {A : List Pid → Pid → Prop} (h : InStep R R' Rel A)
    (ord : List Pid → List Pid) (hord : ∀ T, ∀ x ∈ ord T, A T x) :
    ∀ n s s', Rel s s' → R'.runP ord n s' = R.runP ord n s := by
  intro n
  induction n with
  | zero => intro s s' hr; unfold RoundRule.runP; rw [h.out s s' hr]
  | succ n ih =>
    intro s s' hr
    unfold RoundRule.runP
    rw [h.tied s s' hr, h.out s s' hr]
    cases ho : ord (R.tied s) with
    | nil => rfl
    | cons t tl =>
      dsimp only
      exact ih _ _ (h.buy s s' t hr (hord _ t (by rw [ho]; simp)))

theorem InStep.runAllP {R : RoundRule σ} {R' : RoundRule σ'} {Rel : σ → σ' → Prop}
    {A : List Pid → Pid → Prop} (h : InStep R R' Rel A)
    (hA : ∀ T, ∀ x ∈ T, A T x) :
    ∀ n s s', Rel s s' → R'.runAllP n s' = R.runAllP n s := by
  intro n
  induction n with
  | zero => intro s s' hr; unfold RoundRule.runAllP; rw [h.out s s' hr]
  | succ n ih =>
    intro s s' hr
    unfold RoundRule.runAllP
    rw [h.tied s s' hr, h.out s s' hr]
    by_cases hT : R.tied s = []
    · rw [if_pos hT, if_pos hT]
    · rw [if_neg hT, if_neg hT]
      apply List.flatMap_congr
      intro t ht
      exact ih _ _ (h.buy s s' t hr (hA _ t ht))

end Bisim

end Expand
open Expand

/-! ### E2/E3 — Equal Shares on entries and on copies -/

namespace MES

/-- `V'` is a voter context made of single copies of the entries of `V`; `e` maps a copy to its
    entry.  Entry `i` has exactly `V.m i` copies, every copy has multiplicity 1 and the utilities
    of its entry. -/
structure Copies (V V' : VCtx) (e : Nat → Nat) : Prop where
  idx : (V'.vs.map e).Perm (expandIdx V.m V.vs)
  m_one : ∀ c ∈ V'.vs, V'.m c = 1
  u_eq : ∀ c ∈ V'.vs, ∀ p, V'.u c p = V.u (e c) p

/-- the copies hold what their entries hold -/
def BudgetCopies (V' : VCtx) (e : Nat → Nat) (b b' : Nat → Rat) : Prop := ∀ c ∈ V'.vs, b' c = b (e c)

/-- the concrete expansion `expandV V` is made of copies of `V` -/
theorem copies_expandV (V : VCtx) : Copies V (expandV V) (entryIn V.m V.vs) where
  idx := by
    show ((List.range (sumNat V.vs V.m)).map (entryIn V.m V.vs)).Perm _
    rw [map_entryIn]
  m_one := fun _ _ => rfl
  u_eq := fun _ _ _ => rfl

theorem budgetCopies_expand (V : VCtx) (b : Nat → Rat) :
    BudgetCopies (expandV V) (entryIn V.m V.vs) b (expandBudget V b) := fun _ _ => rfl

/-- the supporters of a project among the copies are the copies of the supporter entries -/
theorem sups_copies {V V' : VCtx} {e : Nat → Nat} (h : Copies V V' e) {b b' : Nat → Rat}
    (hb : BudgetCopies V' e b b') (p : Pid) :
    (sups V' b' p).Perm (expandSups (sups V b p)) := by
  have h1 := copies_filter_map h.idx (fun i => decide (0 < V.u i p)) (fun c => decide (0 < V'.u c p))
    (fun i => (⟨b i, V.u i p, 1⟩ : Sup)) (fun c => (⟨b' c, V'.u c p, V'.m c⟩ : Sup))
    (fun c hc => by rw [h.u_eq c hc p])
    (fun c hc => by rw [h.u_eq c hc p, h.m_one c hc, hb c hc])
  have h2 : expandSups (sups V b p) =
      ((V.vs.filter (fun i => decide (0 < V.u i p))).flatMap
        (fun i => List.replicate (V.m i) (⟨b i, V.u i p, 1⟩ : Sup))) := by
    unfold expandSups sups supporters
    rw [List.flatMap_map]
  rw [h2]
  exact h1

theorem paySum_copies {V V' : VCtx} {e : Nat → Nat} (h : Copies V V' e) {b b' : Nat → Rat}
    (hb : BudgetCopies V' e b b') (p : Pid) (r : Rat) :
    paySum r (sups V' b' p) = paySum r (sups V b p) :=
  (paySum_perm r (sups_copies h hb p)).trans (paySum_expandSups r _)

theorem budSum_copies {V V' : VCtx} {e : Nat → Nat} (h : Copies V V' e) {b b' : Nat → Rat}
    (hb : BudgetCopies V' e b b') (p : Pid) :
    budSum (sups V' b' p) = budSum (sups V b p) :=
  (budSum_perm (sups_copies h hb p)).trans (budSum_expandSups _)

theorem utilSum_copies {V V' : VCtx} {e : Nat → Nat} (h : Copies V V' e) {b b' : Nat → Rat}
    (hb : BudgetCopies V' e b b') (p : Pid) :
    utilSum (sups V' b' p) = utilSum (sups V b p) :=
  (utilSum_perm (sups_copies h hb p)).trans (utilSum_expandSups _)

theorem sups_copies_wf {V V' : VCtx} {e : Nat → Nat} (h : Copies V V' e) {b b' : Nat → Rat}
    (hb : BudgetCopies V' e b b') (hok : VOK V b) (p : Pid) : ∀ s ∈ sups V' b' p, s.WF :=
  fun s hs => expandSups_wf (sups_wf hok p) s ((sups_copies h hb p).mem_iff.mp hs)

/-- the price of a project is the same on the entries and on the copies
    (and so is "not affordable") -/
theorem rho_copies {V V' : VCtx} {e : Nat → Nat} (h : Copies V V' e) {b b' : Nat → Rat}
    (hb : BudgetCopies V' e b b') (hok : VOK V b) {cost : Pid → Rat} {p : Pid} (hc : 0 < cost p) :
    rho V' cost b' p = rho V cost b p := by
  unfold rho
  rw [budSum_copies h hb p]
  by_cases haff : budSum (sups V b p) < cost p
  · rw [if_pos haff, if_pos haff]
  · rw [if_neg haff, if_neg haff]
    exact sweep_sorted_congr (sups V b p) (sups V' b' p) (cost p) (sups_wf hok p)
      (sups_copies_wf h hb hok p) hc (not_lt.mp haff) (budSum_copies h hb p)
      (fun r => paySum_copies h hb p r)

theorem totalSat_eq_utilSum (V : VCtx) (b : Nat → Rat) (p : Pid) :
    totalSat V p = utilSum (sups V b p) := by
  unfold totalSat sups
  induction supporters V p with
  | nil => rfl
  | cons i l ih => simp only [sumOver, List.map_cons, utilSum, ih]

theorem totalSat_copies {V V' : VCtx} {e : Nat → Nat} (h : Copies V V' e) (p : Pid) :
    totalSat V' p = totalSat V p := by
  rw [totalSat_eq_utilSum V' (fun _ => 0), totalSat_eq_utilSum V (fun _ => 0)]
  exact utilSum_copies h (b := fun _ => 0) (b' := fun _ => 0) (fun _ _ => rfl) p

theorem numVoters_copies {V V' : VCtx} {e : Nat → Nat} (h : Copies V V' e) :
    numVoters V' = numVoters V := by
  unfold numVoters
  have := copies_sumNat h.idx (fun _ => true) (fun _ => true) (fun _ => 1) V'.m
    (fun _ _ => rfl) (fun c hc => h.m_one c hc)
  rw [filter_true, filter_true] at this
  rw [this]
  exact sumNat_congr (fun _ _ => Nat.mul_one _)

theorem initPool_copies {V V' : VCtx} {e : Nat → Nat} (h : Copies V V' e) (I : Inst)
    (init : List Pid) : initPool V' I init = initPool V I init := by
  unfold initPool
  apply List.filter_congr
  intro p _
  rw [totalSat_copies h p]

theorem zeroCost_copies {V V' : VCtx} {e : Nat → Nat} (h : Copies V V' e) (I : Inst)
    (init : List Pid) : zeroCost V' I init = zeroCost V I init := by
  unfold zeroCost
  apply List.filter_congr
  intro p _
  rw [totalSat_copies h p]

/-! #### one round -/

/-- what is needed of a state for the price analysis: nobody overdrawn, pool costs positive -/
structure StateOK (V : VCtx) (cost : Pid → Rat) (s : State) : Prop where
  nonneg : ∀ i ∈ V.vs, 0 ≤ s.b i
  pool_pos : ∀ p ∈ s.pool, 0 < cost p

theorem buy_stateOK {V : VCtx} {cost : Pid → Rat} {s : State} (t : Pid) (h : StateOK V cost s) :
    StateOK V cost (buy V cost s t) := by
  refine ⟨?_, ?_⟩
  · intro i hi
    cases hr : rho V cost s.b t with
    | none => unfold buy; rw [hr]; exact h.nonneg i hi
    | some r =>
      rw [buy_some hr]
      have := pay_le V s.b t r i (h.nonneg i hi)
      simp only; linarith
  · intro p hp
    rw [buy_pool] at hp
    exact h.pool_pos p (List.mem_filter.mp hp).1

/-- the state of the run on the copies is the copy of the state of the run on the entries -/
structure StateCopies (V V' : VCtx) (e : Nat → Nat) (cost : Pid → Rat) (s s' : State) : Prop where
  ok : StateOK V cost s
  b : BudgetCopies V' e s.b s'.b
  pool : s'.pool = s.pool
  alloc : s'.alloc = s.alloc

theorem affordable_copies {V V' : VCtx} {e : Nat → Nat} (h : Copies V V' e)
    (hm : ∀ i ∈ V.vs, 1 ≤ V.m i) {cost : Pid → Rat} {s s' : State}
    (hs : StateCopies V V' e cost s s') : affordable V' cost s' = affordable V cost s := by
  unfold affordable
  rw [hs.pool]
  apply List.filterMap_congr
  intro p hp
  rw [rho_copies h hs.b ⟨hs.ok.nonneg, hm⟩ (hs.ok.pool_pos p hp)]

/-- same pool, same prices ⇒ same tied projects -/
theorem tied_copies {V V' : VCtx} {e : Nat → Nat} (h : Copies V V' e)
    (hm : ∀ i ∈ V.vs, 1 ≤ V.m i) {cost : Pid → Rat} {s s' : State}
    (hs : StateCopies V V' e cost s s') : tied V' cost s' = tied V cost s := by
  unfold tied best
  rw [affordable_copies h hm hs]

theorem best_copies {V V' : VCtx} {e : Nat → Nat} (h : Copies V V' e)
    (hm : ∀ i ∈ V.vs, 1 ≤ V.m i) {cost : Pid → Rat} {s s' : State}
    (hs : StateCopies V V' e cost s s') : best V' cost s' = best V cost s := by
  unfold best
  rw [affordable_copies h hm hs]

/-- every copy pays what its entry pays (per copy) -/
theorem pay_copies {V V' : VCtx} {e : Nat → Nat} (h : Copies V V' e) {b b' : Nat → Rat}
    (hb : BudgetCopies V' e b b') (t : Pid) (r : Rat) {c : Nat} (hc : c ∈ V'.vs) :
    pay V' b' t r c = pay V b t r (e c) := by
  unfold pay
  rw [h.u_eq c hc t, hb c hc]

/-- buying a pool project keeps the budgets of the copies equal to those of their entries -/
theorem buy_copies {V V' : VCtx} {e : Nat → Nat} (h : Copies V V' e)
    (hm : ∀ i ∈ V.vs, 1 ≤ V.m i) {cost : Pid → Rat} {s s' : State}
    (hs : StateCopies V V' e cost s s') {t : Pid} (ht : t ∈ s.pool) :
    StateCopies V V' e cost (buy V cost s t) (buy V' cost s' t) := by
  have hrho := rho_copies h hs.b ⟨hs.ok.nonneg, hm⟩ (hs.ok.pool_pos t ht)
  refine ⟨buy_stateOK t hs.ok, ?_, ?_, ?_⟩
  · intro c hc
    cases hr : rho V cost s.b t with
    | none =>
      have hr' := hrho.trans hr
      unfold buy; rw [hr, hr']
      exact hs.b c hc
    | some r =>
      have hr' := hrho.trans hr
      rw [buy_some hr, buy_some hr']
      simp only
      rw [pay_copies h hs.b t r hc, hs.b c hc]
  · rw [buy_pool, buy_pool, hs.pool]
  · cases hr : rho V cost s.b t with
    | none =>
      have hr' := hrho.trans hr
      unfold buy; rw [hr, hr']
      exact hs.alloc
    | some r =>
      have hr' := hrho.trans hr
      rw [buy_some hr, buy_some hr']
      simp only
      rw [hs.alloc]

/-- the Equal Shares rule on the copies stays in step with the rule on the entries -/
theorem inStep {V V' : VCtx} {e : Nat → Nat} (h : Copies V V' e) (hm : ∀ i ∈ V.vs, 1 ≤ V.m i)
    (cost : Pid → Rat) :
    InStep (rule V cost) (rule V' cost) (StateCopies V V' e cost) (fun T x => x ∈ T) where
  tied := fun _ _ hs => tied_copies h hm hs
  out := fun _ _ hs => hs.alloc
  buy := fun _ _ _ hs ht => buy_copies h hm hs (tied_sub_pool ht)

theorem initState_copies {V V' : VCtx} {e : Nat → Nat} (h : Copies V V' e) (I : Inst)
    (init : List Pid) {b0 : Rat} (hb0 : 0 ≤ b0) :
    StateCopies V V' e I.cost (initState V I init b0) (initState V' I init b0) := by
  refine ⟨⟨fun _ _ => hb0, fun p hp => (mem_initPool.mp hp).2.2.2⟩, fun _ _ => rfl, ?_, ?_⟩
  · exact initPool_copies h I init
  · show init ++ zeroCost V' I init = init ++ zeroCost V I init
    rw [zeroCost_copies h I init]

end MES

/-! #### E3 — whole runs of Equal Shares -/

namespace MES

theorem runP_copies {V V' : VCtx} {e : Nat → Nat} (h : Copies V V' e) (hm : ∀ i ∈ V.vs, 1 ≤ V.m i)
    (cost : Pid → Rat) (ord : List Pid → List Pid) (hord : ∀ T, ∀ x ∈ ord T, x ∈ T) (n : Nat)
    {s s' : State} (hs : StateCopies V V' e cost s s') :
    (rule V' cost).runP ord n s' = (rule V cost).runP ord n s :=
  (inStep h hm cost).runP ord hord n s s' hs

theorem runAllP_copies {V V' : VCtx} {e : Nat → Nat} (h : Copies V V' e)
    (hm : ∀ i ∈ V.vs, 1 ≤ V.m i) (cost : Pid → Rat) (n : Nat)
    {s s' : State} (hs : StateCopies V V' e cost s s') :
    (rule V' cost).runAllP n s' = (rule V cost).runAllP n s :=
  (inStep h hm cost).runAllP (fun _ _ hx => hx) n s s' hs

theorem runE_copies {V V' : VCtx} {e : Nat → Nat} (h : Copies V V' e) (hm : ∀ i ∈ V.vs, 1 ≤ V.m i)
    (cost : Pid → Rat) {order : List Pid → Except Err (List Pid)}
    (hord : ∀ T l, order T = .ok l → ∀ x ∈ l, x ∈ T) (n : Nat)
    {s s' : State} (hs : StateCopies V V' e cost s s') :
    (rule V' cost).run order n s' = (rule V cost).run order n s :=
  (inStep h hm cost).run order hord n s s' hs

theorem runAllE_copies {V V' : VCtx} {e : Nat → Nat} (h : Copies V V' e)
    (hm : ∀ i ∈ V.vs, 1 ≤ V.m i) (cost : Pid → Rat) {order : List Pid → Except Err (List Pid)}
    (hord : ∀ T l, order T = .ok l → ∀ x ∈ l, x ∈ T) (n : Nat)
    {s s' : State} (hs : StateCopies V V' e cost s s') :
    (rule V' cost).runAll order n s' = (rule V cost).runAll order n s :=
  (inStep h hm cost).runAll order hord n s s' hs

theorem runAt_copies {V V' : VCtx} {e : Nat → Nat} (h : Copies V V' e) (hm : ∀ i ∈ V.vs, 1 ≤ V.m i)
    (I : Inst) (init : List Pid) {order : List Pid → Except Err (List Pid)}
    (hord : ∀ T l, order T = .ok l → ∀ x ∈ l, x ∈ T) {b0 : Rat} (hb0 : 0 ≤ b0) :
    runAt V' I init order b0 = runAt V I init order b0 := by
  unfold runAt
  rw [initPool_copies h]
  exact runE_copies h hm I.cost (orderIfTie_mem hord) _ (initState_copies h I init hb0)

theorem runAllAt_copies {V V' : VCtx} {e : Nat → Nat} (h : Copies V V' e)
    (hm : ∀ i ∈ V.vs, 1 ≤ V.m i) (I : Inst) (init : List Pid)
    {order : List Pid → Except Err (List Pid)}
    (hord : ∀ T l, order T = .ok l → ∀ x ∈ l, x ∈ T) {b0 : Rat} (hb0 : 0 ≤ b0) :
    runAllAt V' I init order b0 = runAllAt V I init order b0 := by
  unfold runAllAt
  rw [initPool_copies h,
    runAllE_copies h hm I.cost (orderIfTie_mem hord) _ (initState_copies h I init hb0)]

/-- `method_of_equal_shares`, resolute, on the copies = on the entries -/
theorem run_copies {V V' : VCtx} {e : Nat → Nat} (h : Copies V V' e) (hm : ∀ i ∈ V.vs, 1 ≤ V.m i)
    (I : Inst) (hB : 0 ≤ I.budget) (init : List Pid) {order : List Pid → Except Err (List Pid)}
    (hord : ∀ T l, order T = .ok l → ∀ x ∈ l, x ∈ T) :
    run V' I init order = run V I init order := by
  unfold run
  rw [numVoters_copies h]
  exact runAt_copies h hm I init hord (share_nonneg V I hB)

/-- `method_of_equal_shares`, irresolute, on the copies = on the entries -/
theorem runAll_copies {V V' : VCtx} {e : Nat → Nat} (h : Copies V V' e)
    (hm : ∀ i ∈ V.vs, 1 ≤ V.m i) (I : Inst) (hB : 0 ≤ I.budget) (init : List Pid)
    {order : List Pid → Except Err (List Pid)}
    (hord : ∀ T l, order T = .ok l → ∀ x ∈ l, x ∈ T) :
    runAll V' I init order = runAll V I init order := by
  unfold runAll
  rw [numVoters_copies h]
  exact runAllAt_copies h hm I init hord (share_nonneg V I hB)

/-- the iterated variant (`voter_budget_increment`) on the copies = on the entries -/
theorem iterated_copies {V V' : VCtx} {e : Nat → Nat} (h : Copies V V' e)
    (hm : ∀ i ∈ V.vs, 1 ≤ V.m i) (I : Inst) (init : List Pid)
    {order : List Pid → Except Err (List Pid)}
    (hord : ∀ T l, order T = .ok l → ∀ x ∈ l, x ∈ T) {inc : Rat} (hinc : 0 ≤ inc) :
    ∀ (f : Nat) (b0 : Rat) (prev : List Pid), 0 ≤ b0 →
      iterated V' I init order inc f b0 prev = iterated V I init order inc f b0 prev := by
  intro f
  induction f with
  | zero => intro b0 prev _; rfl
  | succ f ih =>
    intro b0 prev hb0
    simp only [iterated, runAt_copies h hm I init hord hb0, initPool_copies h,
      ih _ _ (add_nonneg hb0 hinc)]

theorem iteratedAll_copies {V V' : VCtx} {e : Nat → Nat} (h : Copies V V' e)
    (hm : ∀ i ∈ V.vs, 1 ≤ V.m i) (I : Inst) (init : List Pid)
    {order : List Pid → Except Err (List Pid)}
    (hord : ∀ T l, order T = .ok l → ∀ x ∈ l, x ∈ T) {inc : Rat} (hinc : 0 ≤ inc) :
    ∀ (f : Nat) (b0 : Rat) (prev : List (List Pid)), 0 ≤ b0 →
      iteratedAll V' I init order inc f b0 prev = iteratedAll V I init order inc f b0 prev := by
  intro f
  induction f with
  | zero => intro b0 prev _; rfl
  | succ f ih =>
    intro b0 prev hb0
    simp only [iteratedAll, runAllAt_copies h hm I init hord hb0, initPool_copies h,
      ih _ _ (add_nonneg hb0 hinc)]

/-- the additive score of a project (greedy fast path, welfare maximiser) -/
theorem score_copies {V V' : VCtx} {e : Nat → Nat} (h : Copies V V' e) :
    VCtx.score V' = VCtx.score V := by
  funext p
  unfold VCtx.score
  have := copies_sumOver h.idx (fun _ => true) (fun _ => true) (fun i => V.u i p)
    (fun c => (V'.m c : Rat) * V'.u c p) (fun _ _ => rfl)
    (fun c hc => by rw [h.m_one c hc, h.u_eq c hc p]; simp)
  rw [filter_true, filter_true] at this
  exact this

end MES

/-! ### E4 — sequential Phragmén on entries and on copies -/

namespace Phragmen

structure Copies (C C' : Ctx) (e : Nat → Nat) : Prop where
  idx : (C'.vs.map e).Perm (expandIdx C.m C.vs)
  m_one : ∀ c ∈ C'.vs, C'.m c = 1
  app_eq : ∀ c ∈ C'.vs, ∀ p, C'.app c p = C.app (e c) p
  cost_eq : C'.cost = C.cost
  budget_eq : C'.budget = C.budget

/-- the copies carry the load of their entries -/
def LoadCopies (C' : Ctx) (e : Nat → Nat) (load load' : Nat → Rat) : Prop :=
  ∀ c ∈ C'.vs, load' c = load (e c)

theorem copies_expandC (C : Ctx) : Copies C (expandC C) (entryIn C.m C.vs) where
  idx := by
    show ((List.range (sumNat C.vs C.m)).map (entryIn C.m C.vs)).Perm _
    rw [map_entryIn]
  m_one := fun _ _ => rfl
  app_eq := fun _ _ _ => rfl
  cost_eq := rfl
  budget_eq := rfl

theorem loadCopies_expand (C : Ctx) (load : Nat → Rat) :
    LoadCopies (expandC C) (entryIn C.m C.vs) load (expandLoad C load) := fun _ _ => rfl

/-- approval score: number of copies approving = sum of multiplicities of approving entries -/
theorem score_copies {C C' : Ctx} {e : Nat → Nat} (h : Copies C C' e) (p : Pid) :
    score C' p = score C p := by
  unfold score supporters
  rw [copies_sumNat h.idx (fun i => C.app i p) (fun c => C'.app c p) (fun _ => 1) C'.m
    (fun c hc => h.app_eq c hc p) (fun c hc => h.m_one c hc)]
  exact sumNat_congr (fun _ _ => Nat.mul_one _)

/-- the weighted load sum of the supporters -/
theorem loadSum_copies {C C' : Ctx} {e : Nat → Nat} (h : Copies C C' e) {load load' : Nat → Rat}
    (hl : LoadCopies C' e load load') (p : Pid) :
    sumOver (supporters C' p) (fun c => (C'.m c : Rat) * load' c) =
      sumOver (supporters C p) (fun i => (C.m i : Rat) * load i) := by
  unfold supporters
  exact copies_sumOver h.idx (fun i => C.app i p) (fun c => C'.app c p) load
    (fun c => (C'.m c : Rat) * load' c) (fun c hc => h.app_eq c hc p)
    (fun c hc => by rw [h.m_one c hc, hl c hc]; simp)

structure StateCopies (C' : Ctx) (e : Nat → Nat) (s s' : State) : Prop where
  load : LoadCopies C' e s.load s'.load
  pool : s'.pool = s.pool
  alloc : s'.alloc = s.alloc
  spent : s'.spent = s.spent

theorem newMax_copies {C C' : Ctx} {e : Nat → Nat} (h : Copies C C' e) {s s' : State}
    (hs : StateCopies C' e s s') (p : Pid) : newMax C' s' p = newMax C s p := by
  unfold newMax
  rw [score_copies h p, loadSum_copies h hs.load p, h.cost_eq]

theorem argmin_copies {C C' : Ctx} {e : Nat → Nat} (h : Copies C C' e) {s s' : State}
    (hs : StateCopies C' e s s') : argmin C' s' = argmin C s := by
  have hf : newMax C' s' = newMax C s := funext (newMax_copies h hs)
  unfold argmin
  rw [hf, hs.pool]

theorem tied_copies {C C' : Ctx} {e : Nat → Nat} (h : Copies C C' e) {s s' : State}
    (hs : StateCopies C' e s s') : tied C' s' = tied C s := by
  unfold tied
  rw [argmin_copies h hs, h.budget_eq, hs.spent, h.cost_eq]

/-- buying keeps the loads of the copies equal to the loads of their entries -/
theorem buy_copies {C C' : Ctx} {e : Nat → Nat} (h : Copies C C' e) {s s' : State}
    (hs : StateCopies C' e s s') (t : Pid) : StateCopies C' e (buy C s t) (buy C' s' t) := by
  refine ⟨?_, ?_, ?_, ?_⟩
  · intro c hc
    unfold buy
    simp only
    rw [h.app_eq c hc t, newMax_copies h hs t, hs.load c hc]
  · unfold buy; simp only; rw [hs.pool]
  · unfold buy; simp only; rw [hs.alloc]
  · unfold buy; simp only; rw [hs.spent, h.cost_eq]

theorem inStep {C C' : Ctx} {e : Nat → Nat} (h : Copies C C' e) :
    InStep (rule C) (rule C') (StateCopies C' e) (fun _ _ => True) where
  tied := fun _ _ hs => tied_copies h hs
  out := fun _ _ hs => hs.alloc
  buy := fun _ _ t hs _ => buy_copies h hs t

theorem initState_copies {C C' : Ctx} {e : Nat → Nat} (h : Copies C C' e) (projects init : List Pid)
    {loads loads' : Nat → Rat} (hl : LoadCopies C' e loads loads') :
    StateCopies C' e (initState C projects init loads) (initState C' projects init loads') := by
  refine ⟨hl, ?_, rfl, ?_⟩
  · unfold initState; simp only; rw [h.cost_eq, h.budget_eq]
  · unfold initState; simp only; rw [h.cost_eq]

theorem runP_copies {C C' : Ctx} {e : Nat → Nat} (h : Copies C C' e) (ord : List Pid → List Pid)
    (n : Nat) {s s' : State} (hs : StateCopies C' e s s') :
    (rule C').runP ord n s' = (rule C).runP ord n s :=
  (inStep h).runP ord (fun _ _ _ => trivial) n s s' hs

theorem runAllP_copies {C C' : Ctx} {e : Nat → Nat} (h : Copies C C' e)
    (n : Nat) {s s' : State} (hs : StateCopies C' e s s') :
    (rule C').runAllP n s' = (rule C).runAllP n s :=
  (inStep h).runAllP (fun _ _ _ => trivial) n s s' hs

/-- `sequential_phragmen`, resolute: same outcome (or same error) on copies and on entries,
    for ANY tie-breaking function -/
theorem run_copies {C C' : Ctx} {e : Nat → Nat} (h : Copies C C' e) (projects init : List Pid)
    {loads loads' : Nat → Rat} (hl : LoadCopies C' e loads loads')
    (order : List Pid → Except Err (List Pid)) :
    run C' projects init loads' order = run C projects init loads order := by
  unfold run
  have hs := initState_copies h projects init hl
  rw [hs.pool]
  exact (inStep h).run order (fun _ _ _ _ _ => trivial) _ _ _ hs

theorem runAll_copies {C C' : Ctx} {e : Nat → Nat} (h : Copies C C' e) (projects init : List Pid)
    {loads loads' : Nat → Rat} (hl : LoadCopies C' e loads loads')
    (order : List Pid → Except Err (List Pid)) :
    runAll C' projects init loads' order = runAll C projects init loads order := by
  unfold runAll
  have hs := initState_copies h projects init hl
  rw [hs.pool, (inStep h).runAll order (fun _ _ _ _ _ => trivial) _ _ _ hs]

end Phragmen

/-! ### The contexts built from a profile: voters of `P.expand` are copies of the entries of `P` -/

theorem expandIdx_map (m : Nat → Nat) (f : Nat → Nat) : ∀ l : List Nat,
    expandIdx m (l.map f) = (expandIdx (fun i => m (f i)) l).map f
  | [] => rfl
  | i :: l => by
    rw [List.map_cons, expandIdx_cons, expandIdx_cons, List.map_append, List.map_replicate,
      expandIdx_map m f l]

theorem expandIdx_congr {m m' : Nat → Nat} : ∀ {l : List Nat}, (∀ i ∈ l, m i = m' i) →
    expandIdx m l = expandIdx m' l
  | [], _ => rfl
  | i :: l, h => by
    rw [expandIdx_cons, expandIdx_cons, h i (by simp),
      expandIdx_congr (l := l) (fun j hj => h j (by simp [hj]))]

/-- multiplicity of position `i` of a profile (0 outside) -/
def Profile.multAt (P : Profile) (i : Nat) : Nat := (P[i]?.map Prod.snd).getD 0

namespace Expand

theorem numBallots_cons (e : Ballot × Nat) (P : Profile) :
    Profile.numBallots (e :: P) = e.2 + Profile.numBallots P := rfl

end Expand
open Expand

/-- voter `c` of `P.expand` is a copy of position `P.entryOf c` of `P` -/
theorem map_entryOf : ∀ P : Profile,
    (List.range P.numBallots).map P.entryOf = expandIdx P.multAt (List.range P.length)
  | [] => rfl
  | e :: P => by
    have ih := map_entryOf P
    rw [numBallots_cons, List.length_cons, List.range_succ_eq_map, expandIdx_cons, expandIdx_map,
      List.range_add, List.map_append, List.map_map]
    have hm : ∀ i, Profile.multAt (e :: P) (i + 1) = Profile.multAt P i := by
      intro i; unfold Profile.multAt; simp
    have h0 : Profile.multAt (e :: P) 0 = e.2 := by unfold Profile.multAt; simp
    rw [h0, expandIdx_congr (m := fun i => Profile.multAt (e :: P) (Nat.succ i))
      (m' := Profile.multAt P) (fun i _ => hm i), ← ih, List.map_map]
    congr 1
    · rw [List.eq_replicate_iff]
      refine ⟨by simp, ?_⟩
      intro b hb
      obtain ⟨c, hc, rfl⟩ := List.mem_map.mp hb
      have : c < e.2 := List.mem_range.mp hc
      simp [Profile.entryOf, this]
    · apply List.map_congr_left
      intro c _
      simp [Profile.entryOf]

theorem getElem?_expand : ∀ (P : Profile) (c : Nat), c < P.numBallots →
    P.expand[c]? = (P[P.entryOf c]?).map (fun e => (e.1, 1))
  | [], c, h => by simp [Profile.numBallots, sumNat] at h
  | e :: P, c, h => by
    rw [expand_cons]
    by_cases hc : c < e.2
    · rw [List.getElem?_append_left (by simpa using hc)]
      simp [Profile.entryOf, hc]
    · rw [List.getElem?_append_right (by simpa using hc)]
      rw [numBallots_cons] at h
      have ih := getElem?_expand P (c - e.2) (by omega)
      simp only [List.length_replicate]
      rw [ih]
      simp [Profile.entryOf, hc]

theorem multAt_expand {P : Profile} {c : Nat} (hc : c < P.expand.length) :
    P.expand.multAt c = 1 := by
  unfold Profile.multAt
  rw [List.getElem?_eq_getElem hc]
  exact expand_mult_one P _ (List.getElem_mem hc)

/-- the Equal Shares voters of the list profile are copies of the voters of the multiprofile -/
theorem MES.copies_ofProfile (μ : Measure) (I : Inst) (P : Profile) :
    MES.Copies (VCtx.ofProfile μ I P) (VCtx.ofProfile μ I P.expand) P.entryOf where
  idx := by
    show ((List.range P.expand.length).map P.entryOf).Perm
      (expandIdx P.multAt (List.range P.length))
    rw [length_expand, map_entryOf]
  m_one := by
    intro c hc
    exact multAt_expand (List.mem_range.mp hc)
  u_eq := by
    intro c hc p
    have hc' : c < P.numBallots := by rw [← length_expand]; exact List.mem_range.mp hc
    show (match P.expand[c]? with
        | some e => satProject μ I P.expand e.1 p
        | none => 0) =
      (match P[P.entryOf c]? with
        | some e => satProject μ I P e.1 p
        | none => 0)
    rw [getElem?_expand P c hc']
    cases P[P.entryOf c]? with
    | none => rfl
    | some e => exact satProject_expand μ I P e.1 p

theorem Phragmen.copies_ofProfile (I : Inst) (P : Profile) :
    Phragmen.Copies (Phragmen.Ctx.ofProfile I P) (Phragmen.Ctx.ofProfile I P.expand) P.entryOf where
  idx := by
    show ((List.range P.expand.length).map P.entryOf).Perm
      (expandIdx P.multAt (List.range P.length))
    rw [length_expand, map_entryOf]
  m_one := by
    intro c hc
    exact multAt_expand (List.mem_range.mp hc)
  app_eq := by
    intro c hc p
    have hc' : c < P.numBallots := by rw [← length_expand]; exact List.mem_range.mp hc
    show (P.expand[c]?.map (fun e => e.1.mem p)).getD false =
      (P[P.entryOf c]?.map (fun e => e.1.mem p)).getD false
    rw [getElem?_expand P c hc']
    cases P[P.entryOf c]? with
    | none => rfl
    | some e => rfl
  cost_eq := rfl
  budget_eq := rfl

theorem ofProfile_mult {μ : Measure} {I : Inst} {P : Profile} (hm : ∀ e ∈ P, 1 ≤ e.2) :
    ∀ i ∈ (VCtx.ofProfile μ I P).vs, 1 ≤ (VCtx.ofProfile μ I P).m i := by
  intro i hi
  have hi' : i < P.length := List.mem_range.mp hi
  show 1 ≤ (P[i]?.map Prod.snd).getD 0
  rw [List.getElem?_eq_getElem hi']
  exact hm _ (List.getElem_mem hi')

/-! ### Tie-breaking sees the same approval scores -/

theorem approvalScore_expand_fun (P : Profile) : P.expand.approvalScore = P.approvalScore :=
  funext (approvalScore_expand P)

namespace Expand

/-- every shipped tie-breaking rule returns a rearrangement of the tied projects -/
theorem tieOrder_mem (t : Tie) (cost : Pid → Rat) (score : Pid → Nat) :
    ∀ T l, t.order cost score T = .ok l → ∀ x ∈ l, x ∈ T := by
  intro T l h x hx
  unfold Tie.order at h
  by_cases hc : t = .refuse ∧ T ≠ []
  · rw [if_pos hc] at h; cases h
  · rw [if_neg hc] at h
    cases h
    unfold sortKey at hx
    exact MES.mem_sortIds.mp ((MES.sortLe_perm _ _).mem_iff.mp hx)

end Expand
open Expand

end Pabu
