/-
  Tie-breaking (pabutools/tiebreaking.py) on the model:
  * T1  the stable insertion sort returns a sorted permutation, and the sorted permutation is
        unique when the order is antisymmetric on the elements;
  * T2  `Tie.order` never fails for a rule other than `refuse`, returns a permutation of the tied
        projects, and does not depend on the order in which the tied projects were enumerated;
  * T3  a permutation rule `.perm π` puts first the tied project that comes first in `π`;
  * T4  `RoundRule.WF` for Equal Shares, greedy and Phragmén;
  * T5  the generic form of "irresolute = all strict tie-breaking orders" and its link to the
        `Except`-valued runs the driver executes.
-/
import PabuModel.RoundRule
import PabuModel.MES
import PabuModel.Greedy
import PabuModel.Phragmen
import PabuProofs.Lemmas.RoundRule
import PabuProofs.Lemmas.RoundRuleExcept
import PabuProofs.Lemmas.MES
import Mathlib.Data.List.Basic
import Mathlib.Data.List.Perm.Basic
import Mathlib.Algebra.Order.Field.Rat
namespace Pabu

/-! ### T1. The stable insertion sort -/

namespace Sorting
variable {α : Type}

/-- `sortLe` returns a permutation of its argument (any comparison) -/
theorem sortLe_perm (le : α → α → Bool) (l : List α) : (sortLe le l).Perm l := MES.sortLe_perm le l

/-- `sortLe` returns a sorted list when the comparison is total and transitive -/
theorem sortLe_sorted {le : α → α → Bool}
    (tot : ∀ a b, le a b = true ∨ le b a = true)
    (trans : ∀ a b c, le a b = true → le b c = true → le a c = true) (l : List α) :
    (sortLe le l).Pairwise (fun a b => le a b = true) := MES.sortLe_pairwise tot trans l

/-- uniqueness: when the comparison is moreover antisymmetric on the elements of the list, two
    enumerations of the same elements sort to the same list -/
theorem sortLe_unique {le : α → α → Bool}
    (tot : ∀ a b, le a b = true ∨ le b a = true)
    (trans : ∀ a b c, le a b = true → le b c = true → le a c = true)
    {l₁ l₂ : List α}
    (anti : ∀ a ∈ l₁, ∀ b ∈ l₁, le a b = true → le b a = true → a = b)
    (h : l₁.Perm l₂) : sortLe le l₁ = sortLe le l₂ := by
  refine List.Perm.eq_of_pairwise (le := fun a b => le a b = true) ?_
    (sortLe_sorted tot trans l₁) (sortLe_sorted tot trans l₂)
    ((sortLe_perm le l₁).trans (h.trans (sortLe_perm le l₂).symm))
  intro a b ha hb
  exact anti a ((sortLe_perm le l₁).mem_iff.mp ha) b
    (h.mem_iff.mpr ((sortLe_perm le l₂).mem_iff.mp hb))

/-- a list that is already sorted is left unchanged (stability is not even needed here) -/
theorem insertLe_of_le_all {le : α → α → Bool} (x : α) :
    ∀ l : List α, (∀ y ∈ l, le x y = true) → insertLe le x l = x :: l
  | [], _ => rfl
  | y :: ys, h => by unfold insertLe; rw [if_pos (h y (by simp))]

theorem sortLe_of_sorted {le : α → α → Bool} :
    ∀ l : List α, l.Pairwise (fun a b => le a b = true) → sortLe le l = l
  | [], _ => rfl
  | a :: l, h => by
    have h' := List.pairwise_cons.mp h
    rw [MES.sortLe_cons, sortLe_of_sorted l h'.2]
    exact insertLe_of_le_all a l h'.1

/-! #### `sortKey` -/

theorem keyLe_total (key : α → Rat) (a b : α) :
    decide (key a ≤ key b) = true ∨ decide (key b ≤ key a) = true := by
  rcases le_total (key a) (key b) with h | h
  · exact Or.inl (decide_eq_true h)
  · exact Or.inr (decide_eq_true h)

theorem keyLe_trans (key : α → Rat) (a b c : α) (h1 : decide (key a ≤ key b) = true)
    (h2 : decide (key b ≤ key c) = true) : decide (key a ≤ key c) = true :=
  decide_eq_true (le_trans (of_decide_eq_true h1) (of_decide_eq_true h2))

theorem sortKey_perm (key : α → Rat) (l : List α) : (sortKey key l).Perm l := sortLe_perm _ l

theorem sortKey_sorted (key : α → Rat) (l : List α) :
    (sortKey key l).Pairwise (fun a b => key a ≤ key b) := by
  have h := sortLe_sorted (keyLe_total key) (keyLe_trans key) l
  exact h.imp (fun h => of_decide_eq_true h)

/-- two enumerations of the same elements sort by key to the same list when the key is injective
    on the elements -/
theorem sortKey_unique (key : α → Rat) {l₁ l₂ : List α}
    (inj : ∀ a ∈ l₁, ∀ b ∈ l₁, key a = key b → a = b) (h : l₁.Perm l₂) :
    sortKey key l₁ = sortKey key l₂ := by
  refine sortLe_unique (keyLe_total key) (keyLe_trans key) ?_ h
  intro a ha b hb h1 h2
  exact inj a ha b hb (le_antisymm (of_decide_eq_true h1) (of_decide_eq_true h2))

/-- stability: the key sort only depends on the list it is given; if that list is the same, so is
    the result (used with `sortIds` below) -/
theorem sortKey_of_sorted (key : α → Rat) (l : List α)
    (h : l.Pairwise (fun a b => key a ≤ key b)) : sortKey key l = l :=
  sortLe_of_sorted l (h.imp (fun h => decide_eq_true h))

/-! #### `sortIds` -/

theorem idLe_total (a b : Pid) : decide (a ≤ b) = true ∨ decide (b ≤ a) = true := by
  rcases Nat.le_total a b with h | h
  · exact Or.inl (decide_eq_true h)
  · exact Or.inr (decide_eq_true h)

theorem idLe_trans (a b c : Pid) (h1 : decide (a ≤ b) = true) (h2 : decide (b ≤ c) = true) :
    decide (a ≤ c) = true :=
  decide_eq_true (Nat.le_trans (of_decide_eq_true h1) (of_decide_eq_true h2))

theorem sortIds_perm (l : List Pid) : (sortIds l).Perm l := sortLe_perm _ l

theorem sortIds_sorted (l : List Pid) : (sortIds l).Pairwise (fun a b => a ≤ b) := by
  have h := sortLe_sorted idLe_total idLe_trans l
  exact h.imp (fun h => of_decide_eq_true h)

theorem mem_sortIds {l : List Pid} {p : Pid} : p ∈ sortIds l ↔ p ∈ l := (sortIds_perm l).mem_iff

theorem sortIds_nodup {l : List Pid} (h : l.Nodup) : (sortIds l).Nodup :=
  (sortIds_perm l).nodup_iff.mpr h

/-- the name sort of a set of projects does not depend on how the set was enumerated -/
theorem sortIds_unique {l₁ l₂ : List Pid} (h : l₁.Perm l₂) : sortIds l₁ = sortIds l₂ := by
  refine sortLe_unique idLe_total idLe_trans ?_ h
  intro a _ b _ h1 h2
  exact Nat.le_antisymm (of_decide_eq_true h1) (of_decide_eq_true h2)

theorem sortIds_idem (l : List Pid) : sortIds (sortIds l) = sortIds l :=
  sortIds_unique (sortIds_perm l)

theorem sortIds_nil : sortIds [] = [] := rfl

theorem sortIds_eq_nil {l : List Pid} : sortIds l = [] ↔ l = [] := by
  constructor
  · intro h; have := sortIds_perm l; rw [h] at this; exact this.symm.eq_nil
  · intro h; rw [h]; rfl

end Sorting

/-! ### T2. `Tie.order` -/

/-- what `Tie.order` returns when it does not raise -/
def Tie.ord (t : Tie) (cost : Pid → Rat) (score : Pid → Nat) (l : List Pid) : List Pid :=
  sortKey (t.key cost score) (sortIds l)

theorem Tie.order_ok {t : Tie} (ht : t ≠ .refuse) (cost : Pid → Rat) (score : Pid → Nat)
    (l : List Pid) : t.order cost score l = .ok (t.ord cost score l) := by
  unfold Tie.order Tie.ord
  rw [if_neg (fun h => ht h.1)]

theorem Tie.order_ok_fun {t : Tie} (ht : t ≠ .refuse) (cost : Pid → Rat) (score : Pid → Nat) :
    t.order cost score = fun l => .ok (t.ord cost score l) := by
  funext l; exact Tie.order_ok ht cost score l

/-- `refuse` raises on every non-empty tied set and returns the empty list on the empty one -/
theorem Tie.order_refuse (cost : Pid → Rat) (score : Pid → Nat) (l : List Pid) :
    Tie.order .refuse cost score l = if l = [] then .ok [] else .error .tie := by
  unfold Tie.order
  by_cases h : l = []
  · subst h; simp; rfl
  · rw [if_pos ⟨rfl, h⟩, if_neg h]

theorem Tie.ord_perm (t : Tie) (cost : Pid → Rat) (score : Pid → Nat) (l : List Pid) :
    (t.ord cost score l).Perm l :=
  (Sorting.sortKey_perm _ _).trans (Sorting.sortIds_perm l)

theorem Tie.mem_ord {t : Tie} {cost : Pid → Rat} {score : Pid → Nat} {l : List Pid} {x : Pid} :
    x ∈ t.ord cost score l ↔ x ∈ l := (Tie.ord_perm t cost score l).mem_iff

theorem Tie.ord_nil (t : Tie) (cost : Pid → Rat) (score : Pid → Nat) : t.ord cost score [] = [] := rfl

theorem Tie.ord_ne_nil (t : Tie) (cost : Pid → Rat) (score : Pid → Nat) {l : List Pid}
    (h : l ≠ []) : t.ord cost score l ≠ [] := by
  intro h'
  have := Tie.ord_perm t cost score l
  rw [h'] at this
  exact h this.symm.eq_nil

theorem Tie.ord_nodup (t : Tie) (cost : Pid → Rat) (score : Pid → Nat) {l : List Pid}
    (h : l.Nodup) : (t.ord cost score l).Nodup := (Tie.ord_perm t cost score l).nodup_iff.mpr h

/-- the result is sorted by the rule's key -/
theorem Tie.ord_sorted (t : Tie) (cost : Pid → Rat) (score : Pid → Nat) (l : List Pid) :
    (t.ord cost score l).Pairwise (fun a b => t.key cost score a ≤ t.key cost score b) :=
  Sorting.sortKey_sorted _ _

/-- everything a successful `Tie.order` returns is one of the tied projects (any rule) -/
theorem Tie.order_mem (t : Tie) (cost : Pid → Rat) (score : Pid → Nat) :
    ∀ T l, t.order cost score T = .ok l → ∀ x ∈ l, x ∈ T := by
  intro T l h x hx
  unfold Tie.order at h
  by_cases hc : t = .refuse ∧ T ≠ []
  · rw [if_pos hc] at h; cases h
  · rw [if_neg hc] at h; cases h
    exact (Tie.mem_ord (t := t)).mp hx

/-- a successful `Tie.order` on a non-empty tied set returns a non-empty list (any rule) -/
theorem Tie.order_ne_nil (t : Tie) (cost : Pid → Rat) (score : Pid → Nat) :
    ∀ T, T ≠ [] → t.order cost score T ≠ .ok [] := by
  intro T hT h
  unfold Tie.order at h
  by_cases hc : t = .refuse ∧ T ≠ []
  · rw [if_pos hc] at h; cases h
  · rw [if_neg hc] at h
    have h' : Tie.ord t cost score T = [] := by
      have : (Except.ok (Tie.ord t cost score T) : Except Err (List Pid)) = .ok [] := h
      exact Except.ok.inj this
    exact Tie.ord_ne_nil t cost score hT h'

/-- **enumeration-order independence**: the tie-breaking order of a set of tied projects does
    not depend on the order in which that set was enumerated (every rule, `refuse` included) -/
theorem Tie.ord_perm_eq (t : Tie) (cost : Pid → Rat) (score : Pid → Nat) {l₁ l₂ : List Pid}
    (h : l₁.Perm l₂) : t.ord cost score l₁ = t.ord cost score l₂ := by
  unfold Tie.ord; rw [Sorting.sortIds_unique h]

theorem Tie.order_perm_eq (t : Tie) (cost : Pid → Rat) (score : Pid → Nat) {l₁ l₂ : List Pid}
    (h : l₁.Perm l₂) : t.order cost score l₁ = t.order cost score l₂ := by
  unfold Tie.order
  rw [Sorting.sortIds_unique h]
  have hne : l₁ ≠ [] ↔ l₂ ≠ [] := by
    constructor
    · intro h1 h2; rw [h2] at h; exact h1 h.eq_nil
    · intro h1 h2; rw [h2] at h; exact h1 h.symm.eq_nil
  by_cases hc : t = .refuse ∧ l₁ ≠ []
  · rw [if_pos hc, if_pos ⟨hc.1, hne.mp hc.2⟩]
  · rw [if_neg hc, if_neg (fun h' => hc ⟨h'.1, hne.mpr h'.2⟩)]

/-! ### T3. Permutation rules -/

namespace TieL

theorem indexOf_cons_self (y : Nat) (ys : List Nat) : indexOf (y :: ys) y = 0 := by
  unfold indexOf; rw [if_pos rfl]

theorem indexOf_cons_ne {y x : Nat} (ys : List Nat) (h : y ≠ x) :
    indexOf (y :: ys) x = indexOf ys x + 1 := by
  rw [indexOf, if_neg h]

/-- positions in `π` identify the members of `π` -/
theorem indexOf_inj : ∀ (π : List Nat) {a b : Nat}, a ∈ π → indexOf π a = indexOf π b → a = b
  | [], _, _, ha, _ => by simp at ha
  | y :: ys, a, b, ha, h => by
    by_cases hya : y = a
    · by_cases hyb : y = b
      · rw [← hya, ← hyb]
      · rw [← hya, indexOf_cons_self, indexOf_cons_ne ys hyb] at h; omega
    · by_cases hyb : y = b
      · rw [← hyb, indexOf_cons_self, indexOf_cons_ne ys hya] at h; omega
      · rw [indexOf_cons_ne ys hya, indexOf_cons_ne ys hyb] at h
        have ha' : a ∈ ys := by
          rcases List.mem_cons.mp ha with h1 | h1
          · exact absurd h1.symm hya
          · exact h1
        exact indexOf_inj ys ha' (by omega)

/-- a duplicate-free `π` lists its members in increasing position -/
theorem indexOf_sorted : ∀ (π : List Nat), π.Nodup →
    π.Pairwise (fun a b => indexOf π a ≤ indexOf π b)
  | [], _ => List.Pairwise.nil
  | y :: ys, h => by
    have h' := List.nodup_cons.mp h
    refine List.pairwise_cons.mpr ⟨?_, ?_⟩
    · intro z _; rw [indexOf_cons_self]; exact Nat.zero_le _
    · refine (indexOf_sorted ys h'.2).imp_of_mem ?_
      intro a b ha hb hab
      have hya : y ≠ a := fun e => h'.1 (e ▸ ha)
      have hyb : y ≠ b := fun e => h'.1 (e ▸ hb)
      rw [indexOf_cons_ne ys hya, indexOf_cons_ne ys hyb]; omega

/-- `pick π T` has the least position in `π` among the members of `T` -/
theorem pick_min : ∀ (π T : List Pid) {t : Pid}, pick π T = some t →
    ∀ z ∈ T, indexOf π t ≤ indexOf π z
  | [], _, _, h, _, _ => by simp [pick] at h
  | y :: ys, T, t, h, z, hz => by
    by_cases hy : T.contains y = true
    · have : pick (y :: ys) T = some y := by
        unfold pick; exact List.find?_cons_of_pos (l := ys) (p := fun x => T.contains x) hy
      rw [this] at h; cases h
      rw [indexOf_cons_self]; exact Nat.zero_le _
    · have hp : pick (y :: ys) T = pick ys T := by
        unfold pick; exact List.find?_cons_of_neg (l := ys) (p := fun x => T.contains x) hy
      rw [hp] at h
      have hyT : y ∉ T := by simpa using hy
      have hyt : y ≠ t := fun e => hyT (e ▸ (pick_mem h).1)
      have hyz : y ≠ z := fun e => hyT (e ▸ hz)
      rw [indexOf_cons_ne ys hyt, indexOf_cons_ne ys hyz]
      have := pick_min ys T h z hz
      omega

theorem key_perm (π : List Pid) (cost : Pid → Rat) (score : Pid → Nat) (p : Pid) :
    (Tie.perm π).key cost score p = ((indexOf π p : Nat) : Rat) := rfl

end TieL
open TieL

/-- the first project of the order of a permutation rule is the tied project that comes first
    in `π` -/
theorem Tie.ord_perm_head (π : List Pid) (cost : Pid → Rat) (score : Pid → Nat) {l : List Pid}
    (hl : ∀ x ∈ l, x ∈ π) : ((Tie.perm π).ord cost score l).head? = pick π l := by
  have hperm := Tie.ord_perm (.perm π) cost score l
  have hsorted := Tie.ord_sorted (.perm π) cost score l
  cases hr : (Tie.perm π).ord cost score l with
  | nil =>
    rw [hr] at hperm
    rw [hperm.symm.eq_nil, pick_nil]; rfl
  | cons a r =>
    rw [hr] at hperm hsorted
    have hal : a ∈ l := hperm.mem_iff.mp (by simp)
    have hmin : ∀ z ∈ l, indexOf π a ≤ indexOf π z := by
      intro z hz
      rcases List.mem_cons.mp (hperm.mem_iff.mpr hz) with rfl | hz'
      · exact Nat.le_refl _
      · have := (List.pairwise_cons.mp hsorted).1 z hz'
        rw [key_perm, key_perm] at this
        exact_mod_cast this
    cases hp : pick π l with
    | none =>
      have := pick_none hp hl
      rw [this] at hal; simp at hal
    | some t =>
      have ht := pick_mem hp
      have h1 := pick_min π l hp a hal
      have h2 := hmin t ht.1
      have : a = t := indexOf_inj π (hl a hal) (Nat.le_antisymm h2 h1)
      rw [this]; rfl

theorem Tie.order_perm_head (π : List Pid) (cost : Pid → Rat) (score : Pid → Nat) {l : List Pid}
    (hl : ∀ x ∈ l, x ∈ π) :
    ∃ r, (Tie.perm π).order cost score l = .ok r ∧ r.head? = pick π l :=
  ⟨_, Tie.order_ok (by intro h; cases h) cost score l, Tie.ord_perm_head π cost score hl⟩

/-- … and the whole order is `π` restricted to the tied projects -/
theorem Tie.ord_perm_eq_filter (π : List Pid) (cost : Pid → Rat) (score : Pid → Nat)
    {l : List Pid} (hπ : π.Nodup) (hnd : l.Nodup) (hl : ∀ x ∈ l, x ∈ π) :
    (Tie.perm π).ord cost score l = permOrd π l := by
  have hperm := Tie.ord_perm (.perm π) cost score l
  have hsorted := Tie.ord_sorted (.perm π) cost score l
  unfold permOrd
  refine List.Perm.eq_of_pairwise
    (le := fun a b => (Tie.perm π).key cost score a ≤ (Tie.perm π).key cost score b) ?_ hsorted ?_ ?_
  · intro a b ha _ h1 h2
    have h := le_antisymm h1 h2
    rw [key_perm, key_perm] at h
    exact indexOf_inj π (hl a (hperm.mem_iff.mp ha)) (by exact_mod_cast h)
  · refine List.Pairwise.filter _ ((indexOf_sorted π hπ).imp ?_)
    intro a b h
    rw [key_perm, key_perm]; exact_mod_cast h
  · refine hperm.trans ((List.perm_ext_iff_of_nodup hnd (List.Pairwise.filter _ hπ)).mpr ?_)
    intro a
    simp only [List.mem_filter, List.contains_iff_mem]
    exact ⟨fun h => ⟨hl a h, h⟩, fun h => h.2⟩

theorem Tie.order_perm_eq_filter (π : List Pid) (cost : Pid → Rat) (score : Pid → Nat)
    {l : List Pid} (hπ : π.Nodup) (hnd : l.Nodup) (hl : ∀ x ∈ l, x ∈ π) :
    (Tie.perm π).order cost score l = .ok (π.filter (fun x => l.contains x)) := by
  rw [Tie.order_ok (by intro h; cases h), Tie.ord_perm_eq_filter π cost score hπ hnd hl]; rfl

/-! ### T4. The three rules are well-formed round rules -/

theorem TieL.mes_rule_wf (V : VCtx) (cost : Pid → Rat) : (MES.rule V cost).WF := by
  refine ⟨?_, ?_⟩
  · intro s x hx; exact MES.tied_sub_pool hx
  · intro s t _ x hx
    have hx' : x ∈ s.pool.filter (fun q => q != t) := by
      rw [← MES.buy_pool V cost s t]; exact hx
    have := List.mem_filter.mp hx'
    exact ⟨this.1, by simpa using this.2⟩

theorem TieL.greedy_rule_wf (tsat : List Pid → Rat) (I : Inst) : (Greedy.rule tsat I).WF := by
  refine ⟨?_, ?_⟩
  · intro s x hx
    have hx' : x ∈ s.feasible.filter _ := hx
    exact (List.mem_filter.mp hx').1
  · intro s t _ x hx
    have hx' : x ∈ s.feasible.filter _ := hx
    have := List.mem_filter.mp hx'
    refine ⟨this.1, ?_⟩
    have h2 := this.2
    simp only [Bool.and_eq_true, bne_iff_ne, ne_eq] at h2
    exact h2.1

theorem TieL.phragmen_tied_sub_argmin (C : Phragmen.Ctx) (s : Phragmen.State) :
    ∀ x ∈ Phragmen.tied C s, x ∈ Phragmen.argmin C s := by
  intro x hx
  unfold Phragmen.tied at hx
  by_cases h : (Phragmen.argmin C s).any (fun p => decide (C.budget < s.spent + C.cost p)) = true
  · rw [if_pos h] at hx; simp at hx
  · rw [if_neg h] at hx; exact hx

theorem TieL.phragmen_rule_wf (C : Phragmen.Ctx) : (Phragmen.rule C).WF := by
  refine ⟨?_, ?_⟩
  · intro s x hx
    have := TieL.phragmen_tied_sub_argmin C s x hx
    unfold Phragmen.argmin at this
    exact (List.mem_filter.mp this).1
  · intro s t _ x hx
    have hx' : x ∈ s.pool.filter (fun q => q != t) := hx
    have := List.mem_filter.mp hx'
    exact ⟨this.1, by simpa using this.2⟩

/-! ### T5. Irresolute = all strict orders, generically -/

variable {σ : Type}

/-- pools only shrink along tied purchases -/
theorem RoundRule.WF.pool_sub {R : RoundRule σ} (hR : R.WF) {π : List Pid} {s : σ} {t : Pid}
    (ht : t ∈ R.tied s) (h : ∀ x ∈ R.pool s, x ∈ π) : ∀ x ∈ R.pool (R.buy s t), x ∈ π :=
  fun x hx => h x (hR.pool_buy s t ht x hx).1

/-- soundness: the resolute outcome under a strict order containing the pool is one of the
    irresolute outcomes -/
theorem RoundRule.runPi_mem_runAllP (R : RoundRule σ) (hR : R.WF) (π : List Pid) :
    ∀ n s, (∀ x ∈ R.pool s, x ∈ π) → R.runPi π n s ∈ R.runAllP n s := by
  intro n
  induction n with
  | zero => intro s _; simp [RoundRule.runPi, RoundRule.runAllP]
  | succ n ih =>
    intro s hπ
    simp only [RoundRule.runPi, RoundRule.runAllP]
    cases hp : pick π (R.tied s) with
    | none =>
      have := pick_none hp (fun x hx => hπ x (hR.tied_sub s x hx))
      simp [this]
    | some t =>
      have ⟨htT, _⟩ := pick_mem hp
      have hne : R.tied s ≠ [] := by intro h; rw [h] at htT; simp at htT
      simp only [hne, if_false, List.mem_flatMap]
      exact ⟨t, htT, ih (R.buy s t) (hR.pool_sub htT hπ)⟩

/-- completeness: every irresolute outcome is the resolute outcome under a duplicate-free order
    over the pool, followed by anything -/
theorem RoundRule.runAllP_realised (R : RoundRule σ) (hR : R.WF) (n : Nat) (s : σ) (W : List Pid)
    (hW : W ∈ R.runAllP n s) :
    ∃ l : List Pid, l.Nodup ∧ (∀ x ∈ l, x ∈ R.pool s) ∧ ∀ rest, R.runPi (l ++ rest) n s = W := by
  obtain ⟨l, hnd, hsub, hrun⟩ := runAll_realised R hR n s W hW
  refine ⟨l, hnd, hsub, fun rest => ?_⟩
  have := hrun [] rest (by simp)
  simpa using this

/-- completeness with a strict order over all projects: for every duplicate-free list `P` of
    projects that contains the pool, the order can be taken to be an arrangement of `P` -/
theorem RoundRule.runAllP_realised_perm (R : RoundRule σ) (hR : R.WF) (n : Nat) (s : σ)
    (W : List Pid) (hW : W ∈ R.runAllP n s) (P : List Pid) (hP : P.Nodup)
    (hpool : ∀ x ∈ R.pool s, x ∈ P) :
    ∃ π : List Pid, π.Perm P ∧ R.runPi π n s = W := by
  obtain ⟨l, hnd, hsub, hrun⟩ := R.runAllP_realised hR n s W hW
  refine ⟨l ++ P.filter (fun x => !l.contains x), ?_, hrun _⟩
  have hnd' : (l ++ P.filter (fun x => !l.contains x)).Nodup := by
    refine List.nodup_append.mpr ⟨hnd, List.Pairwise.filter _ hP, ?_⟩
    intro a ha b hb hab
    subst hab
    have := (List.mem_filter.mp hb).2
    simp [ha] at this
  refine (List.perm_ext_iff_of_nodup hnd' hP).mpr ?_
  intro a
  simp only [List.mem_append, List.mem_filter, Bool.not_eq_true', List.contains_eq_mem,
    decide_eq_false_iff_not]
  constructor
  · rintro (h | h)
    · exact hpool a (hsub a h)
    · exact h.1
  · intro h
    by_cases ha : a ∈ l
    · exact Or.inl ha
    · exact Or.inr ⟨h, ha⟩

/-- the `Except`-valued resolute run under an order function whose first element is always
    `pick π` is the run `runPi π` -/
theorem RoundRule.run_eq_runPi (R : RoundRule σ) (hR : R.WF) (π : List Pid)
    (order : List Pid → Except Err (List Pid))
    (hhead : ∀ T, (∀ x ∈ T, x ∈ π) → ∃ r, order T = .ok r ∧ r.head? = pick π T) :
    ∀ n s, (∀ x ∈ R.pool s, x ∈ π) → R.run order n s = .ok (R.runPi π n s) := by
  intro n
  induction n with
  | zero => intro s _; rfl
  | succ n ih =>
    intro s hπ
    unfold RoundRule.run RoundRule.runPi
    by_cases hT : R.tied s = []
    · rw [if_pos hT, hT, pick_nil]
    · rw [if_neg hT]
      obtain ⟨r, hr, hhd⟩ := hhead (R.tied s) (fun x hx => hπ x (hR.tied_sub s x hx))
      rw [hr]
      cases r with
      | nil =>
        have : pick π (R.tied s) = none := by rw [← hhd]; rfl
        rw [this]
      | cons t r' =>
        have hp : pick π (R.tied s) = some t := by rw [← hhd]; rfl
        rw [hp]
        exact ih _ (hR.pool_sub (pick_mem hp).1 hπ)

/-- a successful resolute run under any order function that returns tied projects, and at least
    one when there is one, ends in one of the irresolute outcomes -/
theorem RoundRule.run_mem_runAllP (R : RoundRule σ) (order : List Pid → Except Err (List Pid))
    (hord : ∀ T l, order T = .ok l → ∀ x ∈ l, x ∈ T)
    (hne : ∀ T, T ≠ [] → order T ≠ .ok []) :
    ∀ n s W, R.run order n s = .ok W → W ∈ R.runAllP n s := by
  intro n
  induction n with
  | zero =>
    intro s W h
    unfold RoundRule.run at h
    have := Except.ok.inj h
    simp [RoundRule.runAllP, this]
  | succ n ih =>
    intro s W h
    unfold RoundRule.run at h
    unfold RoundRule.runAllP
    by_cases hT : R.tied s = []
    · rw [if_pos hT] at h
      have := Except.ok.inj h
      rw [if_pos hT]; simp [this]
    · rw [if_neg hT] at h
      rw [if_neg hT]
      cases ho : order (R.tied s) with
      | error e => rw [ho] at h; cases h
      | ok l =>
        rw [ho] at h
        cases l with
        | nil => exact absurd ho (hne _ hT)
        | cons t r =>
          have ht : t ∈ R.tied s := hord _ _ ho t (by simp)
          exact List.mem_flatMap.mpr ⟨t, ht, ih _ W h⟩

/-! #### `orderIfTie` (Equal Shares only consults the rule on a real tie) -/

theorem TieL.pick_singleton {π : List Pid} {a : Pid} (ha : a ∈ π) : pick π [a] = some a := by
  cases hp : pick π [a] with
  | none =>
    have := pick_none hp (by intro x hx; have : x = a := by simpa using hx
                             rw [this]; exact ha)
    cases this
  | some t =>
    have := (pick_mem hp).1
    have : t = a := by simpa using this
    rw [this]

theorem TieL.orderIfTie_head (π : List Pid) (order : List Pid → Except Err (List Pid))
    (hhead : ∀ T, (∀ x ∈ T, x ∈ π) → ∃ r, order T = .ok r ∧ r.head? = pick π T) :
    ∀ T, (∀ x ∈ T, x ∈ π) → ∃ r, MES.orderIfTie order T = .ok r ∧ r.head? = pick π T := by
  intro T hT
  unfold MES.orderIfTie
  by_cases hl : T.length ≤ 1
  · rw [if_pos hl]
    refine ⟨T, rfl, ?_⟩
    match T, hl, hT with
    | [], _, _ => rw [pick_nil]; rfl
    | [a], _, hT => rw [pick_singleton (hT a (by simp))]; rfl
    | _ :: _ :: _, hl, _ => simp at hl
  · rw [if_neg hl]; exact hhead T hT

theorem TieL.orderIfTie_ne_nil {order : List Pid → Except Err (List Pid)}
    (hne : ∀ T, T ≠ [] → order T ≠ .ok []) : ∀ T, T ≠ [] → MES.orderIfTie order T ≠ .ok [] := by
  intro T hT
  unfold MES.orderIfTie
  by_cases hl : T.length ≤ 1
  · rw [if_pos hl]; intro h; exact hT (Except.ok.inj h)
  · rw [if_neg hl]; exact hne T hT

theorem TieL.ordIfTie_perm {ord : List Pid → List Pid} (hord : ∀ T, (ord T).Perm T) :
    ∀ T, (MES.ordIfTie ord T).Perm T := by
  intro T
  unfold MES.ordIfTie
  by_cases hl : T.length ≤ 1
  · rw [if_pos hl]
  · rw [if_neg hl]; exact hord T

/-! #### De-duplication of the branches -/

theorem TieL.mem_dedup_iff {α : Type} [BEq α] [LawfulBEq α] :
    ∀ {l : List α} {x : α}, x ∈ dedup l ↔ x ∈ l
  | [], _ => by simp [dedup]
  | y :: ys, x => by
    unfold dedup
    simp only [List.mem_cons, List.mem_filter, Bool.not_eq_true', beq_eq_false_iff_ne, ne_eq]
    rw [mem_dedup_iff (l := ys)]
    constructor
    · rintro (h | h)
      · exact Or.inl h
      · exact Or.inr h.1
    · rintro (h | h)
      · exact Or.inl h
      · by_cases hxy : x = y
        · exact Or.inl hxy
        · exact Or.inr ⟨h, hxy⟩

theorem TieL.dedup_nodup {α : Type} [BEq α] [LawfulBEq α] : ∀ (l : List α), (dedup l).Nodup
  | [] => by simp [dedup]
  | y :: ys => by
    unfold dedup
    refine List.nodup_cons.mpr ⟨?_, List.Pairwise.filter _ (dedup_nodup ys)⟩
    intro h
    have := (List.mem_filter.mp h).2
    simp at this

/-- a list without repeats is left unchanged -/
theorem TieL.dedup_of_nodup {α : Type} [BEq α] [LawfulBEq α] : ∀ (l : List α), l.Nodup → dedup l = l
  | [], _ => rfl
  | y :: ys, h => by
    have h' := List.nodup_cons.mp h
    unfold dedup
    rw [dedup_of_nodup ys h'.2]
    congr 1
    refine List.filter_eq_self.mpr ?_
    intro a ha
    have : a ≠ y := fun e => h'.1 (e ▸ ha)
    simpa using this

theorem TieL.canonOutcomes_nodup (Ls : List (List Pid)) : (canonOutcomes Ls).Nodup := dedup_nodup _

theorem TieL.mem_canonOutcomes_iff {Ls : List (List Pid)} {W : List Pid} :
    W ∈ canonOutcomes Ls ↔ ∃ W0 ∈ Ls, W = sortIds W0 := by
  unfold canonOutcomes
  rw [mem_dedup_iff, List.mem_map]
  constructor
  · rintro ⟨W0, h, rfl⟩; exact ⟨W0, h, rfl⟩
  · rintro ⟨W0, h, rfl⟩; exact ⟨W0, h, rfl⟩

/-- the irresolute `Except` run with an order function that never fails and permutes the tied
    set, followed by the canonicalisation, returns without repeats exactly the name-sorted pure
    irresolute outcomes -/
theorem RoundRule.runAll_canon (R : RoundRule σ) (ord : List Pid → List Pid)
    (hord : ∀ T, (ord T).Perm T) (n : Nat) (s : σ) :
    ∃ L, (R.runAll (fun l => .ok (ord l)) n s).map canonOutcomes = .ok L ∧ L.Nodup ∧
      ∀ W, W ∈ L ↔ ∃ W0 ∈ R.runAllP n s, W = sortIds W0 := by
  obtain ⟨L0, hL0, hmem⟩ := R.runAll_mem_iff ord hord n s
  refine ⟨canonOutcomes L0, by rw [hL0]; rfl, canonOutcomes_nodup _, ?_⟩
  intro W
  rw [mem_canonOutcomes_iff]
  constructor
  · rintro ⟨W0, h, rfl⟩; exact ⟨W0, (hmem W0).mp h, rfl⟩
  · rintro ⟨W0, h, rfl⟩; exact ⟨W0, (hmem W0).mpr h, rfl⟩

/-! ### T6. Presentation independence (C13) -/

/-! #### Two round rules that agree on an invariant produce the same runs -/

theorem TieL.foldlM_accStep_congr {α β : Type} (f g : α → Except Err (List β)) :
    ∀ (ts : List α) (acc : List β), (∀ t ∈ ts, f t = g t) →
      ts.foldlM (accStep f) acc = ts.foldlM (accStep g) acc
  | [], _, _ => rfl
  | t :: ts, acc, h => by
    rw [List.foldlM_cons, List.foldlM_cons]
    have h1 : accStep f acc t = accStep g acc t := by unfold accStep; rw [h t (by simp)]
    rw [h1]
    congr 1
    funext acc'
    exact TieL.foldlM_accStep_congr f g ts acc' (fun x hx => h x (by simp [hx]))

/-- resolute runs: `R'` may enumerate the tied set in another order and may differ from `R`
    outside the invariant -/
theorem RoundRule.run_congr (R R' : RoundRule σ) (Inv : σ → Prop)
    (order : List Pid → Except Err (List Pid))
    (hperm : ∀ l₁ l₂ : List Pid, l₁.Perm l₂ → order l₁ = order l₂)
    (hmem : ∀ T l, order T = .ok l → ∀ x ∈ l, x ∈ T)
    (hout : ∀ s, Inv s → R'.out s = R.out s)
    (htied : ∀ s, Inv s → (R'.tied s).Perm (R.tied s))
    (hbuy : ∀ s t, Inv s → t ∈ R.tied s → R'.buy s t = R.buy s t ∧ Inv (R.buy s t)) :
    ∀ n s, Inv s → R'.run order n s = R.run order n s := by
  intro n
  induction n with
  | zero => intro s hs; unfold RoundRule.run; rw [hout s hs]
  | succ n ih =>
    intro s hs
    have hp := htied s hs
    rw [RoundRule.run, RoundRule.run, hout s hs, hperm _ _ hp]
    by_cases hT : R.tied s = []
    · have hT' : R'.tied s = [] := by rw [hT] at hp; exact hp.eq_nil
      rw [if_pos hT, if_pos hT']
    · have hT' : R'.tied s ≠ [] := fun h => hT (by rw [h] at hp; exact hp.symm.eq_nil)
      rw [if_neg hT, if_neg hT']
      cases ho : order (R.tied s) with
      | error e => rfl
      | ok l =>
        cases l with
        | nil => rfl
        | cons t r =>
          obtain ⟨hb, hi⟩ := hbuy s t hs (hmem _ _ ho t (by simp))
          show R'.run order n (R'.buy s t) = R.run order n (R.buy s t)
          rw [hb]; exact ih _ hi

/-- irresolute runs -/
theorem RoundRule.runAll_congr (R R' : RoundRule σ) (Inv : σ → Prop)
    (order : List Pid → Except Err (List Pid))
    (hperm : ∀ l₁ l₂ : List Pid, l₁.Perm l₂ → order l₁ = order l₂)
    (hmem : ∀ T l, order T = .ok l → ∀ x ∈ l, x ∈ T)
    (hout : ∀ s, Inv s → R'.out s = R.out s)
    (htied : ∀ s, Inv s → (R'.tied s).Perm (R.tied s))
    (hbuy : ∀ s t, Inv s → t ∈ R.tied s → R'.buy s t = R.buy s t ∧ Inv (R.buy s t)) :
    ∀ n s, Inv s → R'.runAll order n s = R.runAll order n s := by
  intro n
  induction n with
  | zero => intro s hs; unfold RoundRule.runAll; rw [hout s hs]
  | succ n ih =>
    intro s hs
    have hp := htied s hs
    rw [runAll_succ, runAll_succ, hout s hs, hperm _ _ hp]
    by_cases hT : R.tied s = []
    · have hT' : R'.tied s = [] := by rw [hT] at hp; exact hp.eq_nil
      rw [if_pos hT, if_pos hT']
    · have hT' : R'.tied s ≠ [] := fun h => hT (by rw [h] at hp; exact hp.symm.eq_nil)
      rw [if_neg hT, if_neg hT']
      cases ho : order (R.tied s) with
      | error e => rfl
      | ok ts =>
        show ts.foldlM (accStep (fun t => R'.runAll order n (R'.buy s t))) [] =
          ts.foldlM (accStep (fun t => R.runAll order n (R.buy s t))) []
        refine TieL.foldlM_accStep_congr _ _ ts [] ?_
        intro t ht
        obtain ⟨hb, hi⟩ := hbuy s t hs (hmem _ _ ho t ht)
        show R'.runAll order n (R'.buy s t) = R.runAll order n (R.buy s t)
        rw [hb]; exact ih _ hi

/-- the same rule with its tied sets enumerated by `enum` -/
def RoundRule.withTied (R : RoundRule σ) (enum : σ → List Pid) : RoundRule σ :=
  { R with tied := enum }

theorem RoundRule.run_withTied (R : RoundRule σ) (enum : σ → List Pid)
    (henum : ∀ s, (enum s).Perm (R.tied s)) (order : List Pid → Except Err (List Pid))
    (hperm : ∀ l₁ l₂ : List Pid, l₁.Perm l₂ → order l₁ = order l₂)
    (hmem : ∀ T l, order T = .ok l → ∀ x ∈ l, x ∈ T) (n : Nat) (s : σ) :
    (R.withTied enum).run order n s = R.run order n s :=
  RoundRule.run_congr R (R.withTied enum) (fun _ => True) order hperm hmem (fun _ _ => rfl)
    (fun s _ => henum s) (fun _ _ _ _ => ⟨rfl, trivial⟩) n s trivial

theorem RoundRule.runAll_withTied (R : RoundRule σ) (enum : σ → List Pid)
    (henum : ∀ s, (enum s).Perm (R.tied s)) (order : List Pid → Except Err (List Pid))
    (hperm : ∀ l₁ l₂ : List Pid, l₁.Perm l₂ → order l₁ = order l₂)
    (hmem : ∀ T l, order T = .ok l → ∀ x ∈ l, x ∈ T) (n : Nat) (s : σ) :
    (R.withTied enum).runAll order n s = R.runAll order n s :=
  RoundRule.runAll_congr R (R.withTied enum) (fun _ => True) order hperm hmem (fun _ _ => rfl)
    (fun s _ => henum s) (fun _ _ _ _ => ⟨rfl, trivial⟩) n s trivial

theorem TieL.perm_length_le_one {l₁ l₂ : List Pid} (h : l₁.Perm l₂) (hl : l₁.length ≤ 1) :
    l₁ = l₂ := by
  match l₁, hl, h with
  | [], _, h => exact h.symm.eq_nil.symm
  | [a], _, h => exact (List.singleton_perm.mp h)
  | _ :: _ :: _, hl, _ => simp at hl

/-- `orderIfTie` keeps enumeration independence -/
theorem TieL.orderIfTie_perm_eq {order : List Pid → Except Err (List Pid)}
    (hperm : ∀ l₁ l₂ : List Pid, l₁.Perm l₂ → order l₁ = order l₂) :
    ∀ l₁ l₂ : List Pid, l₁.Perm l₂ → MES.orderIfTie order l₁ = MES.orderIfTie order l₂ := by
  intro l₁ l₂ h
  unfold MES.orderIfTie
  by_cases hl : l₁.length ≤ 1
  · rw [if_pos hl, if_pos (h.length_eq ▸ hl), TieL.perm_length_le_one h hl]
  · rw [if_neg hl, if_neg (h.length_eq ▸ hl)]; exact hperm _ _ h

/-! #### Sums over a permuted list -/

theorem TieL.sumNat_perm {α : Type} (f : α → Nat) {l l' : List α} (h : l.Perm l') :
    sumNat l f = sumNat l' f := by
  induction h with
  | nil => rfl
  | cons x _ ih => simp only [sumNat, ih]
  | swap x y l => simp only [sumNat]; omega
  | trans _ _ ih1 ih2 => exact ih1.trans ih2

theorem TieL.sumOver_perm {α : Type} (f : α → Rat) {l l' : List α} (h : l.Perm l') :
    sumOver l f = sumOver l' f := MES.sumOver_perm f h

/-! #### Equal Shares: the voter list may be permuted -/

namespace TieL
open MES

theorem mes_supporters_perm {vs vs' : List Nat} (h : vs.Perm vs') (m : Nat → Nat)
    (u : Nat → Pid → Rat) (p : Pid) :
    (supporters ⟨vs, m, u⟩ p).Perm (supporters ⟨vs', m, u⟩ p) := h.filter _

theorem mes_totalSat_perm {vs vs' : List Nat} (h : vs.Perm vs') (m : Nat → Nat)
    (u : Nat → Pid → Rat) (p : Pid) : totalSat ⟨vs, m, u⟩ p = totalSat ⟨vs', m, u⟩ p :=
  MES.sumOver_perm _ (mes_supporters_perm h m u p)

theorem mes_numVoters_perm {vs vs' : List Nat} (h : vs.Perm vs') (m : Nat → Nat)
    (u : Nat → Pid → Rat) : numVoters ⟨vs, m, u⟩ = numVoters ⟨vs', m, u⟩ := sumNat_perm _ h

theorem mes_sups_perm {vs vs' : List Nat} (h : vs.Perm vs') (m : Nat → Nat)
    (u : Nat → Pid → Rat) (b : Nat → Rat) (p : Pid) :
    (sups ⟨vs, m, u⟩ b p).Perm (sups ⟨vs', m, u⟩ b p) := (mes_supporters_perm h m u p).map _

theorem mes_vok_perm {vs vs' : List Nat} (h : vs.Perm vs') {m : Nat → Nat}
    {u : Nat → Pid → Rat} {b : Nat → Rat} (hv : VOK ⟨vs, m, u⟩ b) : VOK ⟨vs', m, u⟩ b :=
  ⟨fun i hi => hv.nonneg i (h.mem_iff.mpr hi), fun i hi => hv.mult i (h.mem_iff.mpr hi)⟩

/-- the price of a project does not depend on the order of the voters -/
theorem mes_rho_perm {vs vs' : List Nat} (h : vs.Perm vs') {m : Nat → Nat}
    {u : Nat → Pid → Rat} {cost : Pid → Rat} {b : Nat → Rat} {p : Pid}
    (hv : VOK ⟨vs, m, u⟩ b) (hc : 0 < cost p) :
    rho ⟨vs', m, u⟩ cost b p = rho ⟨vs, m, u⟩ cost b p := by
  have hv' := mes_vok_perm h hv
  have hs := mes_sups_perm h m u b p
  cases h1 : rho ⟨vs, m, u⟩ cost b p with
  | none =>
    have := (rho_none_iff hv hc).mp h1
    rw [budSum_perm hs] at this
    exact (rho_none_iff hv' hc).mpr this
  | some r =>
    cases h2 : rho ⟨vs', m, u⟩ cost b p with
    | none =>
      have := (rho_none_iff hv' hc).mp h2
      rw [← budSum_perm hs] at this
      rw [(rho_none_iff hv hc).mpr this] at h1; cases h1
    | some r' =>
      obtain ⟨e1, _, l1⟩ := rho_spec hv hc h1
      obtain ⟨e2, _, l2⟩ := rho_spec hv' hc h2
      have a1 : r ≤ r' := l1 r' (by rw [paySum_perm r' hs, e2])
      have a2 : r' ≤ r := l2 r (by rw [← paySum_perm r hs, e1])
      rw [le_antisymm a2 a1]

theorem mes_tied_perm {vs vs' : List Nat} {m : Nat → Nat} {u : Nat → Pid → Rat}
    {cost : Pid → Rat} {s : State}
    (hrho : ∀ p ∈ s.pool, rho ⟨vs', m, u⟩ cost s.b p = rho ⟨vs, m, u⟩ cost s.b p) :
    tied ⟨vs', m, u⟩ cost s = tied ⟨vs, m, u⟩ cost s := by
  have haff : affordable ⟨vs', m, u⟩ cost s = affordable ⟨vs, m, u⟩ cost s := by
    unfold affordable
    refine List.filterMap_congr ?_
    intro p hp; rw [hrho p hp]
  unfold tied best
  rw [haff]

theorem mes_buy_perm {vs vs' : List Nat} {m : Nat → Nat} {u : Nat → Pid → Rat}
    {cost : Pid → Rat} {s : State} {t : Pid}
    (hrho : rho ⟨vs', m, u⟩ cost s.b t = rho ⟨vs, m, u⟩ cost s.b t) :
    buy ⟨vs', m, u⟩ cost s t = buy ⟨vs, m, u⟩ cost s t := by
  unfold buy
  rw [hrho]
  rfl

theorem mes_initState_perm {vs vs' : List Nat} (h : vs.Perm vs') (m : Nat → Nat)
    (u : Nat → Pid → Rat) (I : Inst) (init : List Pid) (b0 : Rat) :
    initPool ⟨vs', m, u⟩ I init = initPool ⟨vs, m, u⟩ I init ∧
      zeroCost ⟨vs', m, u⟩ I init = zeroCost ⟨vs, m, u⟩ I init ∧
      initState ⟨vs', m, u⟩ I init b0 = initState ⟨vs, m, u⟩ I init b0 := by
  have hts : totalSat ⟨vs', m, u⟩ = totalSat ⟨vs, m, u⟩ := by
    funext p; exact (mes_totalSat_perm h m u p).symm
  have h1 : initPool ⟨vs', m, u⟩ I init = initPool ⟨vs, m, u⟩ I init := by
    unfold initPool; rw [hts]
  have h2 : zeroCost ⟨vs', m, u⟩ I init = zeroCost ⟨vs, m, u⟩ I init := by
    unfold zeroCost; rw [hts]
  refine ⟨h1, h2, ?_⟩
  unfold initState; rw [h1, h2]

/-- whole runs of Equal Shares with per-voter money `b0 ≥ 0`: permuting the voter entries changes
    nothing (resolute and irresolute, any tie-breaking function that is enumeration independent) -/
theorem mes_runAt_perm_voters {vs vs' : List Nat} (h : vs.Perm vs') (m : Nat → Nat)
    (u : Nat → Pid → Rat) (I : Inst) (init : List Pid) (b0 : Rat)
    (hm : ∀ i ∈ vs, 1 ≤ m i) (hcost : ∀ p ∈ I.projects, 0 ≤ I.cost p) (hb0 : 0 ≤ b0)
    (order : List Pid → Except Err (List Pid))
    (hperm : ∀ l₁ l₂ : List Pid, l₁.Perm l₂ → order l₁ = order l₂)
    (hmem : ∀ T l, order T = .ok l → ∀ x ∈ l, x ∈ T) :
    runAt ⟨vs', m, u⟩ I init order b0 = runAt ⟨vs, m, u⟩ I init order b0 ∧
      runAllAt ⟨vs', m, u⟩ I init order b0 = runAllAt ⟨vs, m, u⟩ I init order b0 := by
  obtain ⟨hp, _, hs⟩ := mes_initState_perm h m u I init b0
  have hinv := initState_inv ⟨vs, m, u⟩ I init b0 hb0 hcost
  have hrho : ∀ s, Inv ⟨vs, m, u⟩ I.cost (total ⟨vs, m, u⟩ I init b0) s → ∀ p ∈ s.pool,
      rho ⟨vs', m, u⟩ I.cost s.b p = rho ⟨vs, m, u⟩ I.cost s.b p :=
    fun s hs p hp => mes_rho_perm h ⟨hs.nonneg, hm⟩ (hs.pool_pos p hp)
  have hbuy : ∀ s t, Inv ⟨vs, m, u⟩ I.cost (total ⟨vs, m, u⟩ I init b0) s →
      t ∈ (rule ⟨vs, m, u⟩ I.cost).tied s →
      (rule ⟨vs', m, u⟩ I.cost).buy s t = (rule ⟨vs, m, u⟩ I.cost).buy s t ∧
        Inv ⟨vs, m, u⟩ I.cost (total ⟨vs, m, u⟩ I init b0) ((rule ⟨vs, m, u⟩ I.cost).buy s t) :=
    fun s t hs ht => ⟨mes_buy_perm (hrho s hs t (tied_sub_pool ht)), buy_inv hm ht hs⟩
  have htied : ∀ s, Inv ⟨vs, m, u⟩ I.cost (total ⟨vs, m, u⟩ I init b0) s →
      ((rule ⟨vs', m, u⟩ I.cost).tied s).Perm ((rule ⟨vs, m, u⟩ I.cost).tied s) := by
    intro s hs
    have : (rule ⟨vs', m, u⟩ I.cost).tied s = (rule ⟨vs, m, u⟩ I.cost).tied s :=
      mes_tied_perm (hrho s hs)
    rw [this]
  constructor
  · unfold runAt
    rw [hp, hs]
    exact RoundRule.run_congr (rule ⟨vs, m, u⟩ I.cost) (rule ⟨vs', m, u⟩ I.cost) _ _
      (orderIfTie_perm_eq hperm) (orderIfTie_mem hmem)
      (fun _ _ => rfl) htied hbuy _ _ hinv
  · unfold runAllAt
    rw [hp, hs]
    rw [RoundRule.runAll_congr (rule ⟨vs, m, u⟩ I.cost) (rule ⟨vs', m, u⟩ I.cost) _ _
      (orderIfTie_perm_eq hperm) (orderIfTie_mem hmem)
      (fun _ _ => rfl) htied hbuy _ _ hinv]

/-- the iterated variant (`voter_budget_increment`), resolute and irresolute -/
theorem mes_iterated_perm_voters {vs vs' : List Nat} (h : vs.Perm vs') (m : Nat → Nat)
    (u : Nat → Pid → Rat) (I : Inst) (init : List Pid)
    (hm : ∀ i ∈ vs, 1 ≤ m i) (hcost : ∀ p ∈ I.projects, 0 ≤ I.cost p)
    (order : List Pid → Except Err (List Pid))
    (hperm : ∀ l₁ l₂ : List Pid, l₁.Perm l₂ → order l₁ = order l₂)
    (hmem : ∀ T l, order T = .ok l → ∀ x ∈ l, x ∈ T) (inc : Rat) (hinc : 0 ≤ inc) :
    ∀ (fuel : Nat) (b0 : Rat), 0 ≤ b0 →
      (∀ prev, iterated ⟨vs', m, u⟩ I init order inc fuel b0 prev =
        iterated ⟨vs, m, u⟩ I init order inc fuel b0 prev) ∧
      (∀ prev, iteratedAll ⟨vs', m, u⟩ I init order inc fuel b0 prev =
        iteratedAll ⟨vs, m, u⟩ I init order inc fuel b0 prev) := by
  intro fuel
  induction fuel with
  | zero => intro b0 _; exact ⟨fun _ => rfl, fun _ => rfl⟩
  | succ f ih =>
    intro b0 hb0
    obtain ⟨h1, h2⟩ := mes_runAt_perm_voters h m u I init b0 hm hcost hb0 order hperm hmem
    have hp := (mes_initState_perm h m u I init b0).1
    have hnext := ih (b0 + inc) (add_nonneg hb0 hinc)
    constructor
    · intro prev
      rw [iterated, iterated, h1, hp]
      cases runAt ⟨vs, m, u⟩ I init order b0 with
      | error e => rfl
      | ok W => simp only [hnext.1 W]
    · intro prev
      rw [iteratedAll, iteratedAll, h2, hp]
      cases runAllAt ⟨vs, m, u⟩ I init order b0 with
      | error e => rfl
      | ok Ws => simp only [hnext.2 Ws]

end TieL

/-! #### Phragmén: the voter list may be permuted -/

namespace TieL
open Phragmen

theorem phragmen_supporters_perm {vs vs' : List Nat} (h : vs.Perm vs') (m : Nat → Nat)
    (app : Nat → Pid → Bool) (cost : Pid → Rat) (B : Rat) (p : Pid) :
    (supporters ⟨vs, m, app, cost, B⟩ p).Perm (supporters ⟨vs', m, app, cost, B⟩ p) := h.filter _

theorem phragmen_score_perm {vs vs' : List Nat} (h : vs.Perm vs') (m : Nat → Nat)
    (app : Nat → Pid → Bool) (cost : Pid → Rat) (B : Rat) (p : Pid) :
    score ⟨vs, m, app, cost, B⟩ p = score ⟨vs', m, app, cost, B⟩ p :=
  sumNat_perm _ (phragmen_supporters_perm h m app cost B p)

theorem phragmen_newMax_perm {vs vs' : List Nat} (h : vs.Perm vs') (m : Nat → Nat)
    (app : Nat → Pid → Bool) (cost : Pid → Rat) (B : Rat) (s : State) (p : Pid) :
    newMax ⟨vs, m, app, cost, B⟩ s p = newMax ⟨vs', m, app, cost, B⟩ s p := by
  unfold newMax
  rw [phragmen_score_perm h m app cost B p,
    MES.sumOver_perm _ (phragmen_supporters_perm h m app cost B p)]

/-- the whole round rule of Phragmén does not depend on the order of the voter entries -/
theorem phragmen_rule_perm {vs vs' : List Nat} (h : vs.Perm vs') (m : Nat → Nat)
    (app : Nat → Pid → Bool) (cost : Pid → Rat) (B : Rat) :
    rule ⟨vs, m, app, cost, B⟩ = rule ⟨vs', m, app, cost, B⟩ := by
  have hnm : newMax ⟨vs, m, app, cost, B⟩ = newMax ⟨vs', m, app, cost, B⟩ := by
    funext s p; exact phragmen_newMax_perm h m app cost B s p
  have harg : argmin ⟨vs, m, app, cost, B⟩ = argmin ⟨vs', m, app, cost, B⟩ := by
    funext s; unfold argmin; rw [hnm]
  have htied : tied ⟨vs, m, app, cost, B⟩ = tied ⟨vs', m, app, cost, B⟩ := by
    funext s; unfold tied; rw [harg]
  have hbuy : buy ⟨vs, m, app, cost, B⟩ = buy ⟨vs', m, app, cost, B⟩ := by
    funext s t; unfold buy; rw [hnm]
  unfold rule
  rw [htied, hbuy]

end TieL

end Pabu
