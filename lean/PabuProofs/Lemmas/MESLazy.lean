/-
  Lemmas about the lazy form of the Method of Equal Shares (PabuModel/MESLazy.lean):
  * prices only go up when money is spent (`rho_mono`), unaffordable stays unaffordable;
  * the binary-satisfaction shortcut computes the same price and the same payments;
  * the invariant of the lazy round (`ScanInv`): after visiting a prefix of the pool in increasing
    order of stored affordability, `best`/`tied` are the minimum / arg-min of the true prices over
    that prefix; the early `break` only skips projects whose true price exceeds `best`;
  * the bisimulation `Rel` between lazy and eager states and the generic bisimulation theorems for
    round rules over two different state types.
-/
import PabuModel.MESLazy
import PabuProofs.Lemmas.MES
import PabuProofs.Lemmas.Tie
namespace Pabu
namespace MESLazy
open MES

/-! ### Prices as a function of the budgets -/

theorem sups_eq (V : VCtx) (b : Nat → Rat) (p : Pid) :
    sups V b p = (supporters V p).map (fun i => (⟨b i, V.u i p, V.m i⟩ : Sup)) := rfl

theorem paySum_map_mono (V : VCtx) (p : Pid) (r : Rat) {b b' : Nat → Rat} :
    ∀ l : List Nat, (∀ i ∈ l, b' i ≤ b i) →
      paySum r (l.map (fun i => (⟨b' i, V.u i p, V.m i⟩ : Sup))) ≤
        paySum r (l.map (fun i => (⟨b i, V.u i p, V.m i⟩ : Sup)))
  | [], _ => le_refl _
  | i :: l, h => by
    have ih := paySum_map_mono V p r l (fun j hj => h j (by simp [hj]))
    have h1 : min (b' i) (r * V.u i p) ≤ min (b i) (r * V.u i p) :=
      min_le_min (h i (by simp)) (le_refl _)
    have hm : (0:Rat) ≤ (V.m i : Rat) := by positivity
    have h2 := mul_le_mul_of_nonneg_left h1 hm
    simp only [List.map_cons, paySum]; linarith

theorem budSum_map_mono (V : VCtx) (p : Pid) {b b' : Nat → Rat} :
    ∀ l : List Nat, (∀ i ∈ l, b' i ≤ b i) →
      budSum (l.map (fun i => (⟨b' i, V.u i p, V.m i⟩ : Sup))) ≤
        budSum (l.map (fun i => (⟨b i, V.u i p, V.m i⟩ : Sup)))
  | [], _ => le_refl _
  | i :: l, h => by
    have ih := budSum_map_mono V p l (fun j hj => h j (by simp [hj]))
    have hm : (0:Rat) ≤ (V.m i : Rat) := by positivity
    have h2 := mul_le_mul_of_nonneg_left (h i (by simp)) hm
    simp only [List.map_cons, budSum]; linarith

/-- with less money the supporters cover less at every price -/
theorem paySum_sups_mono {V : VCtx} {b b' : Nat → Rat} (hle : ∀ i ∈ V.vs, b' i ≤ b i) (p : Pid)
    (r : Rat) : paySum r (sups V b' p) ≤ paySum r (sups V b p) := by
  rw [sups_eq, sups_eq]
  exact paySum_map_mono V p r _ (fun i hi => hle i (mem_supporters.mp hi).1)

theorem budSum_sups_mono {V : VCtx} {b b' : Nat → Rat} (hle : ∀ i ∈ V.vs, b' i ≤ b i) (p : Pid) :
    budSum (sups V b' p) ≤ budSum (sups V b p) := by
  rw [sups_eq, sups_eq]
  exact budSum_map_mono V p _ (fun i hi => hle i (mem_supporters.mp hi).1)

/-- **prices never go down as money is spent**: if every voter holds at most what she held before,
    a project that still has a price had one before, and the old price is not larger -/
theorem rho_mono {V : VCtx} {cost : Pid → Rat} {b b' : Nat → Rat} {p : Pid} {r' : Rat}
    (h : VOK V b) (h' : VOK V b') (hle : ∀ i ∈ V.vs, b' i ≤ b i) (hc : 0 < cost p)
    (hr : rho V cost b' p = some r') : ∃ r, rho V cost b p = some r ∧ r ≤ r' := by
  have hbud := budSum_sups_mono hle p
  have hpay := paySum_sups_mono hle p r'
  cases hrb : rho V cost b p with
  | none =>
    exfalso
    have h1 := (rho_none_iff h hc).mp hrb
    have h2 : ¬ budSum (sups V b' p) < cost p := by
      intro hh; rw [(rho_none_iff h' hc).mpr hh] at hr; cases hr
    exact h2 (lt_of_le_of_lt hbud h1)
  | some r =>
    refine ⟨r, rfl, rho_least h hc hrb r' ?_⟩
    rw [← rho_exact h' hc hr]; exact hpay

/-- … and a project without a price stays without one -/
theorem rho_none_mono {V : VCtx} {cost : Pid → Rat} {b b' : Nat → Rat} {p : Pid}
    (h : VOK V b) (h' : VOK V b') (hle : ∀ i ∈ V.vs, b' i ≤ b i) (hc : 0 < cost p)
    (hr : rho V cost b p = none) : rho V cost b' p = none := by
  have h1 := (rho_none_iff h hc).mp hr
  exact (rho_none_iff h' hc).mpr (lt_of_le_of_lt (budSum_sups_mono hle p) h1)

/-- the price only depends on the money of the voters of the profile -/
theorem rho_congr {V : VCtx} {cost : Pid → Rat} {b b' : Nat → Rat} (heq : ∀ i ∈ V.vs, b i = b' i)
    (p : Pid) : rho V cost b p = rho V cost b' p := by
  have : sups V b p = sups V b' p := by
    rw [sups_eq, sups_eq]
    refine List.map_congr_left ?_
    intro i hi
    rw [heq i (mem_supporters.mp hi).1]
  unfold rho; rw [this]

/-! ### The initial stored affordability is a lower bound of the price -/

theorem paySum_le_mul (r : Rat) : ∀ l : List Sup, paySum r l ≤ r * utilSum l
  | [] => by simp [paySum, utilSum]
  | s :: l => by
    have ih := paySum_le_mul r l
    have hm : (0:Rat) ≤ (s.m : Rat) := by positivity
    have h1 : min s.b (r * s.u) ≤ r * s.u := min_le_right _ _
    have h2 := mul_le_mul_of_nonneg_left h1 hm
    simp only [paySum, utilSum]
    have : r * ((s.m:Rat) * s.u + utilSum l) = (s.m:Rat) * (r * s.u) + r * utilSum l := by ring
    rw [this]; linarith

theorem utilSum_map (V : VCtx) (b : Nat → Rat) (p : Pid) : ∀ l : List Nat,
    utilSum (l.map (fun i => (⟨b i, V.u i p, V.m i⟩ : Sup))) =
      sumOver l (fun i => (V.m i : Rat) * V.u i p)
  | [] => rfl
  | i :: l => by simp only [List.map_cons, utilSum, sumOver, utilSum_map V b p l]

theorem utilSum_sups (V : VCtx) (b : Nat → Rat) (p : Pid) : utilSum (sups V b p) = totalSat V p := by
  rw [sups_eq]; unfold totalSat; exact utilSum_map V b p _

/-- `cost / total_sat ≤ ρ`: everybody pays at most `ρ·u`, so `cost ≤ ρ · total_sat` -/
theorem initAff_le {V : VCtx} {cost : Pid → Rat} {b : Nat → Rat} {p : Pid} {r : Rat}
    (h : VOK V b) (hc : 0 < cost p) (hts : 0 < totalSat V p) (hr : rho V cost b p = some r) :
    cost p / totalSat V p ≤ r := by
  have h1 := rho_exact h hc hr
  have h2 := paySum_le_mul r (sups V b p)
  rw [utilSum_sups] at h2
  rw [div_le_iff₀ hts]; linarith

/-! ### The binary-satisfaction shortcut -/

theorem allSame_spec {V : VCtx} {p : Pid} (h : allSame V p = true) :
    ∀ i ∈ supporters V p, V.u i p = firstU V p := by
  intro i hi
  unfold allSame at h
  have := List.all_eq_true.mp h i hi
  exact of_decide_eq_true this

/-- when all supporters share one satisfaction value the shortcut sweep is the ordinary sweep -/
theorem rhoBinary_eq_rho {V : VCtx} (cost : Pid → Rat) (b : Nat → Rat) {p : Pid}
    (h : allSame V p = true) : rhoBinary V cost b p = rho V cost b p := by
  have hall := allSame_spec h
  have hmap : (sortLe ratioLe (sups V b p)).map (fun s => (⟨s.b, firstU V p, s.m⟩ : Sup)) =
      sortLe ratioLe (sups V b p) := by
    conv_rhs => rw [← List.map_id (sortLe ratioLe (sups V b p))]
    refine List.map_congr_left ?_
    intro s hs
    have hs' := (sortLe_ratioLe_perm (sups V b p)).mem_iff.mp hs
    rw [sups_eq] at hs'
    obtain ⟨i, hi, rfl⟩ := List.mem_map.mp hs'
    simp only [id, hall i hi]
  unfold rhoBinary rho
  rw [hmap]

/-- the price computation of the code is `MES.rho`, shortcut on or off -/
theorem price_eq_rho (V : VCtx) (cost : Pid → Rat) (bin : Bool) (b : Nat → Rat) (p : Pid) :
    price V cost bin b p = rho V cost b p := by
  unfold price
  by_cases h : (bin && allSame V p) = true
  · rw [if_pos h]
    exact rhoBinary_eq_rho cost b (by simp only [Bool.and_eq_true] at h; exact h.2)
  · rw [if_neg h]

theorem satOf_supporter {V : VCtx} (bin : Bool) {p : Pid} {i : Nat} (hi : i ∈ supporters V p) :
    satOf V bin p i = V.u i p := by
  unfold satOf
  by_cases h : (bin && allSame V p) = true
  · rw [if_pos h]
    exact (allSame_spec (by simp only [Bool.and_eq_true] at h; exact h.2) i hi).symm
  · rw [if_neg h]

/-- the payments of the voters of the profile are those of the eager model -/
theorem payL_eq_pay {V : VCtx} (bin : Bool) (b : Nat → Rat) (t : Pid) (r : Rat) {i : Nat}
    (hi : i ∈ V.vs) : payL V bin b t r i = pay V b t r i := by
  unfold payL pay
  by_cases h : 0 < V.u i t
  · rw [if_pos h, if_pos h, satOf_supporter bin (mem_supporters.mpr ⟨hi, h⟩)]
  · rw [if_neg h, if_neg h]

/-! ### The invariant of the lazy round -/

theorem improves_true {r : Rat} {o : Option Rat} :
    improves r o = true ↔ ∀ bb, o = some bb → r < bb := by
  cases o with
  | none => simp [improves]
  | some x => simp [improves]

theorem exceeds_true {x : Rat} {o : Option Rat} :
    exceeds x o = true ↔ ∃ bb, o = some bb ∧ bb < x := by
  cases o with
  | none => simp [exceeds]
  | some y => simp [exceeds]

/-- state of the loop after the projects `pre` have been visited: `best` is the least true price
    over `pre`, `tied` its arg-min, only unaffordable projects were dropped, every stored value is
    the old one or the true price -/
structure ScanInv (V : VCtx) (cost : Pid → Rat) (b : Nat → Rat) (aff0 : Pid → Rat)
    (pre : List Pid) (a : Acc) : Prop where
  low : ∀ q ∈ pre, ∀ r, rho V cost b q = some r → ∃ y, a.best = some y ∧ y ≤ r
  wit : ∀ y, a.best = some y → ∃ q ∈ pre, rho V cost b q = some y
  tied : ∀ q, q ∈ a.tied ↔ q ∈ pre ∧ ∃ y, a.best = some y ∧ rho V cost b q = some y
  sub : a.tied.Sublist pre
  drop : ∀ q ∈ a.dropped, q ∈ pre ∧ rho V cost b q = none
  aff : ∀ q, a.aff q = aff0 q ∨ (q ∈ pre ∧ rho V cost b q = some (a.aff q))

variable {V : VCtx} {cost : Pid → Rat} {b : Nat → Rat} {aff0 : Pid → Rat}

/-- visiting further projects whose true price (if any) exceeds `best` changes nothing -/
theorem ScanInv.extend {pre : List Pid} {a : Acc} (h : ScanInv V cost b aff0 pre a) (a' : Acc)
    (extra : List Pid) (hb : a'.best = a.best) (ht : a'.tied = a.tied)
    (ha : ∀ q, a'.aff q = a.aff q ∨ (q ∈ extra ∧ rho V cost b q = some (a'.aff q)))
    (hd : ∀ q ∈ a'.dropped, q ∈ a.dropped ∨ (q ∈ extra ∧ rho V cost b q = none))
    (hex : ∀ q ∈ extra, ∀ r, rho V cost b q = some r → ∃ y, a.best = some y ∧ y < r) :
    ScanInv V cost b aff0 (pre ++ extra) a' := by
  refine ⟨?_, ?_, ?_, ?_, ?_, ?_⟩
  · intro q hq r hr
    rw [hb]
    rcases List.mem_append.mp hq with hq | hq
    · exact h.low q hq r hr
    · obtain ⟨y, hy, hlt⟩ := hex q hq r hr
      exact ⟨y, hy, le_of_lt hlt⟩
  · intro y hy
    rw [hb] at hy
    obtain ⟨q, hq, hr⟩ := h.wit y hy
    exact ⟨q, List.mem_append_left _ hq, hr⟩
  · intro q
    rw [ht, hb, h.tied q]
    constructor
    · rintro ⟨hq, y, hy, hr⟩; exact ⟨List.mem_append_left _ hq, y, hy, hr⟩
    · rintro ⟨hq, y, hy, hr⟩
      rcases List.mem_append.mp hq with hq | hq
      · exact ⟨hq, y, hy, hr⟩
      · obtain ⟨y', hy', hlt⟩ := hex q hq y hr
        rw [hy] at hy'; cases hy'; exact absurd hlt (lt_irrefl _)
  · rw [ht]; exact h.sub.trans (List.sublist_append_left _ _)
  · intro q hq
    rcases hd q hq with h1 | ⟨h1, h2⟩
    · obtain ⟨h3, h4⟩ := h.drop q h1; exact ⟨List.mem_append_left _ h3, h4⟩
    · exact ⟨List.mem_append_right _ h1, h2⟩
  · intro q
    rcases ha q with h0 | ⟨h1, h2⟩
    · rw [h0]
      rcases h.aff q with h1 | ⟨h1, h2⟩
      · exact Or.inl h1
      · exact Or.inr ⟨List.mem_append_left _ h1, h2⟩
    · exact Or.inr ⟨List.mem_append_right _ h1, h2⟩

theorem upd_self (aff : Pid → Rat) (p : Pid) (r : Rat) : upd aff p r p = r := by
  unfold upd; rw [if_pos rfl]

theorem upd_ne (aff : Pid → Rat) {p q : Pid} (r : Rat) (h : q ≠ p) : upd aff p r q = aff q := by
  unfold upd; rw [if_neg h]

theorem record_stopped (a : Acc) (p : Pid) (r : Rat) : (record a p r).stopped = a.stopped := by
  unfold record
  by_cases h1 : improves r a.best = true
  · rw [if_pos h1]
  · rw [if_neg h1]
    by_cases h2 : a.best = some r
    · rw [if_pos h2]
    · rw [if_neg h2]

theorem record_dropped (a : Acc) (p : Pid) (r : Rat) : (record a p r).dropped = a.dropped := by
  unfold record
  by_cases h1 : improves r a.best = true
  · rw [if_pos h1]
  · rw [if_neg h1]
    by_cases h2 : a.best = some r
    · rw [if_pos h2]
    · rw [if_neg h2]

theorem record_aff (a : Acc) (p : Pid) (r : Rat) : (record a p r).aff = upd a.aff p r := by
  unfold record
  by_cases h1 : improves r a.best = true
  · rw [if_pos h1]
  · rw [if_neg h1]
    by_cases h2 : a.best = some r
    · rw [if_pos h2]
    · rw [if_neg h2]

/-- recording the true price of one more project keeps the invariant -/
theorem ScanInv.record {pre : List Pid} {a : Acc} (h : ScanInv V cost b aff0 pre a) {p : Pid}
    {r : Rat} (hr : rho V cost b p = some r) :
    ScanInv V cost b aff0 (pre ++ [p]) (record a p r) := by
  have haff : ∀ q, (MESLazy.record a p r).aff q = aff0 q ∨
      (q ∈ pre ++ [p] ∧ rho V cost b q = some ((MESLazy.record a p r).aff q)) := by
    intro q
    rw [record_aff]
    by_cases hq : q = p
    · subst hq; rw [upd_self]; exact Or.inr ⟨by simp, hr⟩
    · rw [upd_ne _ _ hq]
      rcases h.aff q with h1 | ⟨h1, h2⟩
      · exact Or.inl h1
      · exact Or.inr ⟨List.mem_append_left _ h1, h2⟩
  have hdrop : ∀ q ∈ (MESLazy.record a p r).dropped, q ∈ pre ++ [p] ∧ rho V cost b q = none := by
    intro q hq
    rw [record_dropped] at hq
    obtain ⟨h3, h4⟩ := h.drop q hq
    exact ⟨List.mem_append_left _ h3, h4⟩
  by_cases h1 : improves r a.best = true
  · have himp := improves_true.mp h1
    have hrec : MESLazy.record a p r =
        { a with aff := upd a.aff p r, best := some r, tied := [p] } := by
      unfold MESLazy.record; rw [if_pos h1]
    have hbest : (MESLazy.record a p r).best = some r := by rw [hrec]
    have htied : (MESLazy.record a p r).tied = [p] := by rw [hrec]
    refine ⟨?_, ?_, ?_, ?_, hdrop, haff⟩
    · intro q hq r' hr'
      refine ⟨r, hbest, ?_⟩
      rcases List.mem_append.mp hq with hq | hq
      · obtain ⟨y, hy, hle⟩ := h.low q hq r' hr'
        exact le_trans (le_of_lt (himp y hy)) hle
      · have : q = p := by simpa using hq
        subst this; rw [hr] at hr'; cases hr'; exact le_refl _
    · intro y hy
      rw [hbest] at hy; cases hy
      exact ⟨p, by simp, hr⟩
    · intro q
      rw [htied, hbest]
      constructor
      · intro hq
        have : q = p := by simpa using hq
        subst this
        exact ⟨by simp, r, rfl, hr⟩
      · rintro ⟨hq, y, hy, hry⟩
        cases hy
        rcases List.mem_append.mp hq with hq | hq
        · obtain ⟨y', hy', hle⟩ := h.low q hq _ hry
          exact absurd (himp y' hy') (not_lt.mpr hle)
        · exact hq
    · rw [htied]; exact List.sublist_append_right _ _
  · have hrec1 : MESLazy.record a p r =
        (if a.best = some r then { a with aff := upd a.aff p r, tied := a.tied ++ [p] }
         else { a with aff := upd a.aff p r }) := by
      unfold MESLazy.record; rw [if_neg h1]
    by_cases h2 : a.best = some r
    · have hrec : MESLazy.record a p r = { a with aff := upd a.aff p r, tied := a.tied ++ [p] } := by
        rw [hrec1, if_pos h2]
      have hbest : (MESLazy.record a p r).best = some r := by rw [hrec]; exact h2
      have htied : (MESLazy.record a p r).tied = a.tied ++ [p] := by rw [hrec]
      refine ⟨?_, ?_, ?_, ?_, hdrop, haff⟩
      · intro q hq r' hr'
        rcases List.mem_append.mp hq with hq | hq
        · obtain ⟨y, hy, hle⟩ := h.low q hq r' hr'
          rw [h2] at hy; cases hy
          exact ⟨r, hbest, hle⟩
        · have : q = p := by simpa using hq
          subst this; rw [hr] at hr'; cases hr'; exact ⟨r, hbest, le_refl _⟩
      · intro y hy
        rw [hbest] at hy; cases hy
        exact ⟨p, by simp, hr⟩
      · intro q
        rw [htied, hbest, List.mem_append, h.tied q, h2]
        constructor
        · rintro (⟨hq, y, hy, hry⟩ | hq)
          · exact ⟨List.mem_append_left _ hq, y, hy, hry⟩
          · have : q = p := by simpa using hq
            subst this
            exact ⟨by simp, r, rfl, hr⟩
        · rintro ⟨hq, y, hy, hry⟩
          rcases List.mem_append.mp hq with hq | hq
          · exact Or.inl ⟨hq, y, hy, hry⟩
          · exact Or.inr hq
      · rw [htied]; exact List.Sublist.append h.sub (List.Sublist.refl _)
    · have hrec : MESLazy.record a p r = { a with aff := upd a.aff p r } := by
        rw [hrec1, if_neg h2]
      -- `best` is some `bb < r`
      have hbb : ∃ bb, a.best = some bb ∧ bb < r := by
        cases hb : a.best with
        | none => exact absurd (improves_true.mpr (by intro bb h'; rw [hb] at h'; cases h')) h1
        | some bb =>
          refine ⟨bb, rfl, ?_⟩
          have h3 : ¬ r < bb := fun hlt =>
            h1 (improves_true.mpr (by intro bb' h'; rw [hb] at h'; cases h'; exact hlt))
          have h4 : bb ≠ r := fun e => h2 (by rw [hb, e])
          exact lt_of_le_of_ne (not_lt.mp h3) h4
      refine h.extend _ [p] (by rw [hrec]) (by rw [hrec]) ?_ ?_ ?_
      · intro q
        rw [record_aff]
        by_cases hq : q = p
        · subst hq; rw [upd_self]; exact Or.inr ⟨by simp, hr⟩
        · rw [upd_ne _ _ hq]; exact Or.inl rfl
      · intro q hq; rw [record_dropped] at hq; exact Or.inl hq
      · intro q hq r' hr'
        have : q = p := by simpa using hq
        subst this; rw [hr] at hr'; cases hr'
        exact hbb

theorem step_stopped (bin : Bool) (a : Acc) (p : Pid) (h : a.stopped = true) :
    step V cost bin b a p = a := by
  unfold step; rw [if_pos h]

theorem foldl_stopped (bin : Bool) : ∀ (l : List Pid) (a : Acc), a.stopped = true →
    l.foldl (step V cost bin b) a = a
  | [], _, _ => rfl
  | p :: l, a, h => by
    rw [List.foldl_cons, step_stopped bin a p h]
    exact foldl_stopped bin l a h

/-- one loop iteration: either the invariant extends to the visited project, or the loop breaks
    because the stored value of the project exceeds `best` -/
theorem step_inv (bin : Bool) {pre : List Pid} {a : Acc} (h : ScanInv V cost b aff0 pre a)
    (hs : a.stopped = false) (p : Pid) :
    (ScanInv V cost b aff0 (pre ++ [p]) (step V cost bin b a p) ∧
        (step V cost bin b a p).stopped = false ∧
        ∀ q, q ≠ p → (step V cost bin b a p).aff q = a.aff q) ∨
      (step V cost bin b a p = { a with stopped := true } ∧ ∃ bb, a.best = some bb ∧ bb < a.aff p) := by
  have hs' : ¬ a.stopped = true := by rw [hs]; simp
  by_cases hun : budSum (sups V b p) < cost p
  · left
    have hst : step V cost bin b a p = { a with dropped := a.dropped ++ [p] } := by
      unfold step; rw [if_neg hs', if_pos hun]
    have hnone : rho V cost b p = none := by unfold rho; rw [if_pos hun]
    rw [hst]
    refine ⟨h.extend _ [p] rfl rfl (fun q => Or.inl rfl) ?_ ?_, hs, fun _ _ => rfl⟩
    · intro q hq
      rcases List.mem_append.mp hq with hq | hq
      · exact Or.inl hq
      · have : q = p := by simpa using hq
        subst this; exact Or.inr ⟨by simp, hnone⟩
    · intro q hq r hr
      have : q = p := by simpa using hq
      subst this; rw [hnone] at hr; cases hr
  · by_cases hex : exceeds (a.aff p) a.best = true
    · right
      refine ⟨?_, exceeds_true.mp hex⟩
      unfold step; rw [if_neg hs', if_neg hun, if_pos hex]
    · left
      cases hr : rho V cost b p with
      | none =>
        have hst : step V cost bin b a p = a := by
          unfold step; rw [if_neg hs', if_neg hun, if_neg hex, price_eq_rho, hr]
        rw [hst]
        refine ⟨h.extend _ [p] rfl rfl (fun q => Or.inl rfl) (fun q hq => Or.inl hq) ?_, hs,
          fun _ _ => rfl⟩
        intro q hq r' hr'
        have : q = p := by simpa using hq
        subst this; rw [hr] at hr'; cases hr'
      | some r =>
        have hst : step V cost bin b a p = MESLazy.record a p r := by
          unfold step; rw [if_neg hs', if_neg hun, if_neg hex, price_eq_rho, hr]
        rw [hst]
        refine ⟨h.record hr, by rw [record_stopped]; exact hs, ?_⟩
        intro q hq
        rw [record_aff, upd_ne _ _ hq]

/-- the whole loop over a list sorted by the stored affordabilities, all of them lower bounds of
    the true prices: the invariant holds for the whole list, although the loop may have stopped
    early -/
theorem fold_inv (bin : Bool) : ∀ (l pre : List Pid) (a : Acc), ScanInv V cost b aff0 pre a →
    a.stopped = false → l.Nodup → l.Pairwise (fun x y => aff0 x ≤ aff0 y) →
    (∀ q ∈ l, a.aff q = aff0 q) → (∀ q ∈ l, ∀ r, rho V cost b q = some r → aff0 q ≤ r) →
    ScanInv V cost b aff0 (pre ++ l) (l.foldl (step V cost bin b) a)
  | [], pre, a, h, _, _, _, _, _ => by simpa using h
  | p :: rest, pre, a, h, hs, hnd, hsorted, hfresh, hstale => by
    rw [List.foldl_cons]
    have hnd' := List.nodup_cons.mp hnd
    have hsorted' := List.pairwise_cons.mp hsorted
    rcases step_inv bin h hs p with ⟨h1, h2, h3⟩ | ⟨h1, bb, hbb, hlt⟩
    · have := fold_inv bin rest (pre ++ [p]) _ h1 h2 hnd'.2 hsorted'.2
        (fun q hq => by
          have hqp : q ≠ p := fun e => hnd'.1 (e ▸ hq)
          rw [h3 q hqp]; exact hfresh q (List.mem_cons_of_mem _ hq))
        (fun q hq => hstale q (List.mem_cons_of_mem _ hq))
      simpa [List.append_assoc] using this
    · rw [h1, foldl_stopped bin rest _ rfl]
      refine h.extend _ (p :: rest) rfl rfl (fun q => Or.inl rfl) (fun q hq => Or.inl hq) ?_
      intro q hq r hr
      refine ⟨bb, hbb, ?_⟩
      have hp0 : a.aff p = aff0 p := hfresh p (by simp)
      have h4 : aff0 p ≤ aff0 q := by
        rcases List.mem_cons.mp hq with rfl | hq'
        · exact le_refl _
        · exact hsorted'.1 q hq'
      have h5 := hstale q hq r hr
      rw [hp0] at hlt
      exact lt_of_lt_of_le hlt (le_trans h4 h5)

theorem scanInv_nil (a : Acc) (hb : a.best = none) (ht : a.tied = []) (hd : a.dropped = [])
    (ha : a.aff = aff0) : ScanInv V cost b aff0 [] a := by
  refine ⟨by simp, ?_, ?_, by rw [ht], by rw [hd]; simp, fun q => Or.inl (by rw [ha])⟩
  · intro y hy; rw [hb] at hy; cases hy
  · intro q; rw [ht]; simp

/-- **the lazy round**: if the pool has no repeats and every stored affordability is a lower bound
    of the true price, the invariant holds for the whole pool after the round -/
theorem scan_inv (bin : Bool) (s : LState) (hnd : s.pool.Nodup)
    (hstale : ∀ q ∈ s.pool, ∀ r, rho V cost s.b q = some r → s.aff q ≤ r) :
    ScanInv V cost s.b s.aff (visit s) (scan V cost bin s) := by
  have hperm : (visit s).Perm s.pool := Sorting.sortKey_perm _ _
  have := fold_inv (V := V) (cost := cost) (b := s.b) (aff0 := s.aff) bin (visit s) [] (acc0 s)
    (scanInv_nil _ rfl rfl rfl rfl) rfl (hperm.nodup_iff.mpr hnd) (Sorting.sortKey_sorted _ _)
    (fun _ _ => rfl) (fun q hq => hstale q (hperm.mem_iff.mp hq))
  simpa [scan] using this

theorem mem_visit {s : LState} {q : Pid} : q ∈ visit s ↔ q ∈ s.pool :=
  (Sorting.sortKey_perm _ _).mem_iff

/-! ### The eager `best` and `tied`, characterised -/

/-- `MES.best` is the value `o` as soon as `o` is a lower bound of all prices over the pool that
    is attained (or `none` when nothing has a price) -/
theorem best_char {s : State} {o : Option Rat}
    (hlow : ∀ q ∈ s.pool, ∀ r, rho V cost s.b q = some r → ∃ y, o = some y ∧ y ≤ r)
    (hwit : ∀ y, o = some y → ∃ q ∈ s.pool, rho V cost s.b q = some y) :
    MES.best V cost s = o := by
  cases o with
  | none =>
    cases hb : MES.best V cost s with
    | none => rfl
    | some r0 =>
      exfalso
      have hb' := hb
      unfold MES.best at hb'
      obtain ⟨⟨q, r1⟩, hq, hq1⟩ := List.mem_map.mp (minRat_some hb').1
      simp only at hq1; subst hq1
      have hm := mem_affordable.mp hq
      obtain ⟨y, hy, _⟩ := hlow q hm.1 r1 hm.2
      cases hy
  | some y =>
    obtain ⟨q, hq, hr⟩ := hwit y rfl
    obtain ⟨q0, r0, hq0, hr0, hb⟩ := best_of_affordable hq hr
    have h1 : r0 ≤ y := by
      have hb' := hb
      unfold MES.best at hb'
      exact (minRat_some hb').2 y (List.mem_map.mpr ⟨(q, y), mem_affordable.mpr ⟨hq, hr⟩, rfl⟩)
    obtain ⟨y', hy', h2⟩ := hlow q0 hq0 r0 hr0
    cases hy'
    rw [hb, le_antisymm h1 h2]

theorem affordable_fst_sublist (g : Pid → Option Rat) (f : Pid × Rat → Bool) : ∀ P : List Pid,
    (((P.filterMap (fun p => (g p).map (fun r => (p, r)))).filter f).map Prod.fst).Sublist P
  | [] => List.Sublist.slnil
  | p :: P => by
    have ih := affordable_fst_sublist g f P
    cases hg : g p with
    | none =>
      rw [List.filterMap_cons_none (by rw [hg]; rfl)]
      exact ih.cons p
    | some r =>
      rw [List.filterMap_cons_some (b := (p, r)) (by rw [hg]; rfl)]
      by_cases hf : f (p, r) = true
      · rw [List.filter_cons_of_pos hf, List.map_cons]
        exact ih.cons_cons p
      · rw [List.filter_cons_of_neg hf]
        exact ih.cons p

theorem tied_sublist_pool (V : VCtx) (cost : Pid → Rat) (s : State) :
    (MES.tied V cost s).Sublist s.pool := by
  unfold MES.tied
  cases MES.best V cost s with
  | none => exact List.nil_sublist _
  | some r => exact affordable_fst_sublist _ _ _

theorem tied_nodup {s : State} (h : s.pool.Nodup) : (MES.tied V cost s).Nodup :=
  (tied_sublist_pool V cost s).nodup h

/-! ### The bisimulation -/

/-- `Rel ls s`: the lazy state `ls` and the eager state `s` hold the same money and the same
    allocation; the lazy pool is the eager pool minus projects that have no price (and, money only
    decreasing, never will); every stored affordability is a lower bound of the true price; the
    eager state satisfies the money invariant -/
structure Rel (V : VCtx) (cost : Pid → Rat) (B : Rat) (ls : LState) (s : State) : Prop where
  bud : ∀ i ∈ V.vs, ls.b i = s.b i
  alloc : ls.alloc = s.alloc
  sub : ∀ q ∈ ls.pool, q ∈ s.pool
  gone : ∀ q ∈ s.pool, q ∉ ls.pool → rho V cost s.b q = none
  lnodup : ls.pool.Nodup
  nodup : s.pool.Nodup
  inv : Inv V cost B s
  stale : ∀ p ∈ ls.pool, ∀ r, rho V cost ls.b p = some r → ls.aff p ≤ r

/-- the comparison of one lazy round with the eager round of a state `s` that holds the same money
    and whose pool is the lazy pool plus projects without a price -/
theorem scan_best_eq (bin : Bool) {ls : LState} {s : State} (hbud : ∀ i ∈ V.vs, ls.b i = s.b i)
    (hsub : ∀ q ∈ ls.pool, q ∈ s.pool)
    (hgone : ∀ q ∈ s.pool, q ∉ ls.pool → rho V cost s.b q = none) (hnd : ls.pool.Nodup)
    (hstale : ∀ p ∈ ls.pool, ∀ r, rho V cost ls.b p = some r → ls.aff p ≤ r) :
    MES.best V cost s = (scan V cost bin ls).best := by
  have hI := scan_inv (V := V) (cost := cost) bin ls hnd hstale
  have hrho : ∀ p, rho V cost ls.b p = rho V cost s.b p := rho_congr hbud
  refine best_char ?_ ?_
  · intro q hq r hr
    by_cases hql : q ∈ ls.pool
    · exact hI.low q (mem_visit.mpr hql) r (by rw [hrho]; exact hr)
    · rw [hgone q hq hql] at hr; cases hr
  · intro y hy
    obtain ⟨q, hq, hr⟩ := hI.wit y hy
    exact ⟨q, hsub q (mem_visit.mp hq), by rw [← hrho]; exact hr⟩

theorem scan_mem_tied (bin : Bool) {ls : LState} {s : State} (hbud : ∀ i ∈ V.vs, ls.b i = s.b i)
    (hsub : ∀ q ∈ ls.pool, q ∈ s.pool)
    (hgone : ∀ q ∈ s.pool, q ∉ ls.pool → rho V cost s.b q = none) (hnd : ls.pool.Nodup)
    (hstale : ∀ p ∈ ls.pool, ∀ r, rho V cost ls.b p = some r → ls.aff p ≤ r) (q : Pid) :
    q ∈ tiedLazy V cost bin ls ↔ q ∈ MES.tied V cost s := by
  have hI := scan_inv (V := V) (cost := cost) bin ls hnd hstale
  have hrho : ∀ p, rho V cost ls.b p = rho V cost s.b p := rho_congr hbud
  have hbest := scan_best_eq bin hbud hsub hgone hnd hstale
  unfold tiedLazy
  rw [hI.tied q]
  constructor
  · rintro ⟨hq, y, hy, hr⟩
    refine MES.mem_tied.mpr ⟨hsub q (mem_visit.mp hq), y, by rw [← hrho]; exact hr,
      by rw [hbest]; exact hy, ?_⟩
    intro q' hq' r' hr'
    by_cases hql : q' ∈ ls.pool
    · obtain ⟨y', hy', hle⟩ := hI.low q' (mem_visit.mpr hql) r' (by rw [hrho]; exact hr')
      rw [hy] at hy'; cases hy'; exact hle
    · rw [hgone q' hq' hql] at hr'; cases hr'
  · intro hq
    obtain ⟨hp, r, hr, hb, _⟩ := MES.mem_tied.mp hq
    have hql : q ∈ ls.pool := by
      by_contra hql
      rw [hgone q hp hql] at hr; cases hr
    exact ⟨mem_visit.mpr hql, r, by rw [← hbest]; exact hb, by rw [hrho]; exact hr⟩

theorem tiedLazy_nodup (bin : Bool) {ls : LState} (hnd : ls.pool.Nodup)
    (hstale : ∀ p ∈ ls.pool, ∀ r, rho V cost ls.b p = some r → ls.aff p ≤ r) :
    (tiedLazy V cost bin ls).Nodup := by
  have hI := scan_inv (V := V) (cost := cost) bin ls hnd hstale
  have hvis : (visit ls).Nodup := (Sorting.sortKey_perm _ _).nodup_iff.mpr hnd
  exact hI.sub.nodup hvis

theorem Rel.rho_eq {B : Rat} {ls : LState} {s : State} (h : Rel V cost B ls s) (p : Pid) :
    rho V cost ls.b p = rho V cost s.b p := rho_congr h.bud p

theorem Rel.scanInv {B : Rat} {ls : LState} {s : State} (h : Rel V cost B ls s) (bin : Bool) :
    ScanInv V cost ls.b ls.aff (visit ls) (scan V cost bin ls) :=
  scan_inv bin ls h.lnodup h.stale

/-- the best price of the lazy round is the eager best price -/
theorem Rel.best_eq {B : Rat} {ls : LState} {s : State} (h : Rel V cost B ls s) (bin : Bool) :
    MES.best V cost s = (scan V cost bin ls).best :=
  scan_best_eq bin h.bud h.sub h.gone h.lnodup h.stale

/-- the projects tied by the lazy round are exactly the eagerly tied projects -/
theorem Rel.mem_tied {B : Rat} {ls : LState} {s : State} (h : Rel V cost B ls s) (bin : Bool)
    (q : Pid) : q ∈ tiedLazy V cost bin ls ↔ q ∈ MES.tied V cost s :=
  scan_mem_tied bin h.bud h.sub h.gone h.lnodup h.stale q

theorem Rel.tied_perm {B : Rat} {ls : LState} {s : State} (h : Rel V cost B ls s) (bin : Bool) :
    (tiedLazy V cost bin ls).Perm (MES.tied V cost s) := by
  have h1 : (tiedLazy V cost bin ls).Nodup := tiedLazy_nodup bin h.lnodup h.stale
  exact (List.perm_ext_iff_of_nodup h1 (tied_nodup h.nodup)).mpr (h.mem_tied bin)

theorem mem_poolAfter {s : LState} {a : Acc} {q : Pid} :
    q ∈ poolAfter s a ↔ q ∈ s.pool ∧ q ∉ a.dropped := by
  unfold poolAfter; simp

/-- buying an eagerly tied project in both models keeps the states related -/
theorem Rel.buy {B : Rat} (hm : ∀ i ∈ V.vs, 1 ≤ V.m i) {ls : LState} {s : State}
    (h : Rel V cost B ls s) (bin : Bool) {t : Pid} (ht : t ∈ MES.tied V cost s) :
    Rel V cost B (buyLazy V cost bin ls t) (MES.buy V cost s t) := by
  have hI := h.scanInv bin
  obtain ⟨r, hr, hbest⟩ := tied_rho ht
  have hlb : (scan V cost bin ls).best = some r := by rw [← h.best_eq bin]; exact hbest
  have hinv' := buy_inv hm ht h.inv
  have hc : 0 < cost t := h.inv.pool_pos t (tied_sub_pool ht)
  have hok : VOK V s.b := ⟨h.inv.nonneg, hm⟩
  have hrpos : 0 < r := rho_pos hok hc hr
  have hlok : VOK V ls.b := ⟨fun i hi => by rw [h.bud i hi]; exact h.inv.nonneg i hi, hm⟩
  have hbl : buyLazy V cost bin ls t =
      { b := fun i => ls.b i - payL V bin ls.b t r i
        pool := (poolAfter ls (scan V cost bin ls)).filter (fun q => q != t)
        alloc := ls.alloc ++ [t]
        aff := (scan V cost bin ls).aff } := by
    unfold buyLazy; rw [hlb]
  have hbud : ∀ i ∈ V.vs, (buyLazy V cost bin ls t).b i = (MES.buy V cost s t).b i := by
    intro i hi
    rw [hbl, buy_some hr]
    simp only
    rw [payL_eq_pay bin ls.b t r hi]
    unfold pay
    rw [h.bud i hi]
  have hle : ∀ i ∈ V.vs, (MES.buy V cost s t).b i ≤ s.b i := by
    intro i hi
    rw [buy_some hr]
    have := pay_nonneg V s.b t r i (h.inv.nonneg i hi) (le_of_lt hrpos)
    simp only; linarith
  have hok' : VOK V (MES.buy V cost s t).b := ⟨hinv'.nonneg, hm⟩
  have hlok' : VOK V (buyLazy V cost bin ls t).b :=
    ⟨fun i hi => by rw [hbud i hi]; exact hinv'.nonneg i hi, hm⟩
  have hlle : ∀ i ∈ V.vs, (buyLazy V cost bin ls t).b i ≤ ls.b i := by
    intro i hi; rw [hbud i hi, h.bud i hi]; exact hle i hi
  have hpool : (buyLazy V cost bin ls t).pool =
      (poolAfter ls (scan V cost bin ls)).filter (fun q => q != t) := by rw [hbl]
  have haff : (buyLazy V cost bin ls t).aff = (scan V cost bin ls).aff := by rw [hbl]
  refine ⟨hbud, ?_, ?_, ?_, ?_, ?_, hinv', ?_⟩
  · rw [hbl, buy_some hr, h.alloc]
  · intro q hq
    rw [hpool] at hq
    rw [buy_pool]
    have hq' := List.mem_filter.mp hq
    exact List.mem_filter.mpr ⟨h.sub q (mem_poolAfter.mp hq'.1).1, hq'.2⟩
  · intro q hq hnl
    rw [buy_pool] at hq
    have hq' := List.mem_filter.mp hq
    have hcq : 0 < cost q := h.inv.pool_pos q hq'.1
    have hnone : rho V cost s.b q = none := by
      by_cases hql : q ∈ ls.pool
      · by_cases hd : q ∈ (scan V cost bin ls).dropped
        · rw [← h.rho_eq]; exact (hI.drop q hd).2
        · exfalso
          apply hnl
          rw [hpool]
          exact List.mem_filter.mpr ⟨mem_poolAfter.mpr ⟨hql, hd⟩, hq'.2⟩
      · exact h.gone q hq'.1 hql
    exact rho_none_mono hok hok' hle hcq hnone
  · rw [hpool]; unfold poolAfter; exact (h.lnodup.filter _).filter _
  · rw [buy_pool]; exact h.nodup.filter _
  · intro p hp r' hr'
    rw [hpool] at hp
    have hpl : p ∈ ls.pool := (mem_poolAfter.mp (List.mem_filter.mp hp).1).1
    have hcp : 0 < cost p := h.inv.pool_pos p (h.sub p hpl)
    obtain ⟨r0, hr0, hle0⟩ := rho_mono hlok hlok' hlle hcp hr'
    rw [haff]
    rcases hI.aff p with h1 | ⟨_, h2⟩
    · rw [h1]; exact le_trans (h.stale p hpl r0 hr0) hle0
    · rw [hr0] at h2; cases h2; exact hle0

/-- the initial states are related -/
theorem rel_init (V : VCtx) (I : Inst) (init : List Pid) (b0 : Rat) (hb0 : 0 ≤ b0)
    (hm : ∀ i ∈ V.vs, 1 ≤ V.m i) (hproj : I.projects.Nodup)
    (hcost : ∀ p ∈ I.projects, 0 ≤ I.cost p) :
    Rel V I.cost (total V I init b0) (initStateL V I init b0) (initState V I init b0) := by
  have hnd : (initPool V I init).Nodup := by
    unfold initPool; exact (nodup_sortIds hproj).filter _
  refine ⟨fun _ _ => rfl, rfl, fun _ h => h, fun q hq hn => absurd hq hn, hnd, hnd,
    initState_inv V I init b0 hb0 hcost, ?_⟩
  intro p hp r hr
  have hp' := mem_initPool.mp hp
  exact initAff_le (V := V) (cost := I.cost) (b := fun _ => b0) ⟨fun _ _ => hb0, hm⟩
    hp'.2.2.2 hp'.2.2.1 hr

/-! ### Generic bisimulation of two round rules -/

section Bisim
variable {σ τ : Type}

theorem run_bisim (R : RoundRule σ) (R' : RoundRule τ) (Rl : τ → σ → Prop)
    (order : List Pid → Except Err (List Pid))
    (hperm : ∀ l₁ l₂ : List Pid, l₁.Perm l₂ → order l₁ = order l₂)
    (hmem : ∀ T l, order T = .ok l → ∀ x ∈ l, x ∈ T)
    (hout : ∀ s' s, Rl s' s → R'.out s' = R.out s)
    (htied : ∀ s' s, Rl s' s → (R'.tied s').Perm (R.tied s))
    (hbuy : ∀ s' s t, Rl s' s → t ∈ R.tied s → Rl (R'.buy s' t) (R.buy s t)) :
    ∀ n s' s, Rl s' s → R'.run order n s' = R.run order n s := by
  intro n
  induction n with
  | zero => intro s' s hs; unfold RoundRule.run; rw [hout s' s hs]
  | succ n ih =>
    intro s' s hs
    have hp := htied s' s hs
    rw [RoundRule.run, RoundRule.run, hout s' s hs, hperm _ _ hp]
    by_cases hT : R.tied s = []
    · have hT' : R'.tied s' = [] := by rw [hT] at hp; exact hp.eq_nil
      rw [if_pos hT, if_pos hT']
    · have hT' : R'.tied s' ≠ [] := fun h => hT (by rw [h] at hp; exact hp.symm.eq_nil)
      rw [if_neg hT, if_neg hT']
      cases ho : order (R.tied s) with
      | error e => rfl
      | ok l =>
        cases l with
        | nil => rfl
        | cons t r =>
          show R'.run order n (R'.buy s' t) = R.run order n (R.buy s t)
          exact ih _ _ (hbuy s' s t hs (hmem _ _ ho t (by simp)))

theorem runAll_bisim (R : RoundRule σ) (R' : RoundRule τ) (Rl : τ → σ → Prop)
    (order : List Pid → Except Err (List Pid))
    (hperm : ∀ l₁ l₂ : List Pid, l₁.Perm l₂ → order l₁ = order l₂)
    (hmem : ∀ T l, order T = .ok l → ∀ x ∈ l, x ∈ T)
    (hout : ∀ s' s, Rl s' s → R'.out s' = R.out s)
    (htied : ∀ s' s, Rl s' s → (R'.tied s').Perm (R.tied s))
    (hbuy : ∀ s' s t, Rl s' s → t ∈ R.tied s → Rl (R'.buy s' t) (R.buy s t)) :
    ∀ n s' s, Rl s' s → R'.runAll order n s' = R.runAll order n s := by
  intro n
  induction n with
  | zero => intro s' s hs; unfold RoundRule.runAll; rw [hout s' s hs]
  | succ n ih =>
    intro s' s hs
    have hp := htied s' s hs
    rw [runAll_succ, runAll_succ, hout s' s hs, hperm _ _ hp]
    by_cases hT : R.tied s = []
    · have hT' : R'.tied s' = [] := by rw [hT] at hp; exact hp.eq_nil
      rw [if_pos hT, if_pos hT']
    · have hT' : R'.tied s' ≠ [] := fun h => hT (by rw [h] at hp; exact hp.symm.eq_nil)
      rw [if_neg hT, if_neg hT']
      cases ho : order (R.tied s) with
      | error e => rfl
      | ok ts =>
        show ts.foldlM (accStep (fun t => R'.runAll order n (R'.buy s' t))) [] =
          ts.foldlM (accStep (fun t => R.runAll order n (R.buy s t))) []
        refine TieL.foldlM_accStep_congr _ _ ts [] ?_
        intro t ht
        exact ih _ _ (hbuy s' s t hs (hmem _ _ ho t ht))

end Bisim

/-! ### Whole runs -/

/-- runs with per-voter money `b0 ≥ 0`: the lazy rounds (shortcut on or off) return what the
    eager rounds return, resolute and irresolute -/
theorem runAtLazy_eq_runAt (V : VCtx) (I : Inst) (init : List Pid) (bin : Bool) (b0 : Rat)
    (hb0 : 0 ≤ b0) (hm : ∀ i ∈ V.vs, 1 ≤ V.m i) (hproj : I.projects.Nodup)
    (hcost : ∀ p ∈ I.projects, 0 ≤ I.cost p) (order : List Pid → Except Err (List Pid))
    (hperm : ∀ l₁ l₂ : List Pid, l₁.Perm l₂ → order l₁ = order l₂)
    (hmem : ∀ T l, order T = .ok l → ∀ x ∈ l, x ∈ T) :
    runAtLazy V I init order bin b0 = runAt V I init order b0 ∧
      runAllAtLazy V I init order bin b0 = runAllAt V I init order b0 := by
  have hrel := rel_init V I init b0 hb0 hm hproj hcost
  have hout : ∀ (s' : LState) (s : State), Rel V I.cost (total V I init b0) s' s →
      (ruleLazy V I.cost bin).out s' = (rule V I.cost).out s := fun s' s h => h.alloc
  have htied : ∀ (s' : LState) (s : State), Rel V I.cost (total V I init b0) s' s →
      ((ruleLazy V I.cost bin).tied s').Perm ((rule V I.cost).tied s) :=
    fun s' s h => h.tied_perm bin
  have hbuy : ∀ (s' : LState) (s : State) (t : Pid), Rel V I.cost (total V I init b0) s' s →
      t ∈ (rule V I.cost).tied s →
      Rel V I.cost (total V I init b0) ((ruleLazy V I.cost bin).buy s' t) ((rule V I.cost).buy s t) :=
    fun s' s t h ht => h.buy hm bin ht
  constructor
  · unfold runAtLazy runAt
    exact run_bisim (rule V I.cost) (ruleLazy V I.cost bin) _ _
      (TieL.orderIfTie_perm_eq hperm) (orderIfTie_mem hmem) hout htied hbuy _ _ _ hrel
  · unfold runAllAtLazy runAllAt
    rw [runAll_bisim (rule V I.cost) (ruleLazy V I.cost bin) _ _
      (TieL.orderIfTie_perm_eq hperm) (orderIfTie_mem hmem) hout htied hbuy _ _ _ hrel]

/-- the iterated variant (`voter_budget_increment`) -/
theorem iteratedLazy_eq_iterated (V : VCtx) (I : Inst) (init : List Pid) (bin : Bool)
    (hm : ∀ i ∈ V.vs, 1 ≤ V.m i) (hproj : I.projects.Nodup)
    (hcost : ∀ p ∈ I.projects, 0 ≤ I.cost p) (order : List Pid → Except Err (List Pid))
    (hperm : ∀ l₁ l₂ : List Pid, l₁.Perm l₂ → order l₁ = order l₂)
    (hmem : ∀ T l, order T = .ok l → ∀ x ∈ l, x ∈ T) (inc : Rat) (hinc : 0 ≤ inc) :
    ∀ (fuel : Nat) (b0 : Rat), 0 ≤ b0 →
      (∀ prev, iteratedLazy V I init order bin inc fuel b0 prev =
        iterated V I init order inc fuel b0 prev) ∧
      (∀ prev, iteratedAllLazy V I init order bin inc fuel b0 prev =
        iteratedAll V I init order inc fuel b0 prev) := by
  intro fuel
  induction fuel with
  | zero => intro b0 _; exact ⟨fun _ => rfl, fun _ => rfl⟩
  | succ f ih =>
    intro b0 hb0
    obtain ⟨h1, h2⟩ := runAtLazy_eq_runAt V I init bin b0 hb0 hm hproj hcost order hperm hmem
    have hnext := ih (b0 + inc) (add_nonneg hb0 hinc)
    constructor
    · intro prev
      rw [iteratedLazy, iterated, h1]
      cases runAt V I init order b0 with
      | error e => rfl
      | ok W => simp only [hnext.1 W]
    · intro prev
      rw [iteratedAllLazy, iteratedAll, h2]
      cases runAllAt V I init order b0 with
      | error e => rfl
      | ok Ws => simp only [hnext.2 Ws]

end MESLazy
end Pabu
