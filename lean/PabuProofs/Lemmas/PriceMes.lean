/-
  The payments recorded by an Equal-Shares run, read as payment functions of a price system
  (C12 ← C07).  Voters are a list profile: entry `i` of `List.range n`, multiplicity 1.

  * `paid L i p`      what voter `i` paid for `p` according to the record `L`
                      (money before − money after in the rounds that selected `p`; 0 if none);
  * per-condition lemmas, each by induction on `MES.Recorded`:
      `paid_nonsupporter` (C1), `paid_nonneg`, `paid_spent` (C2: start money − Σ_p paid = final
      money), `paid_total` (C3/C4: Σ_i paid i p = cost p × number of rounds that selected p),
      `leftover_small` (C5, from the stop condition);
  * `recorded_exact`  the assembled `Price.Exact` (plain, not exhaustive).
-/
import PabuProofs.Lemmas.MES
import PabuProofs.Lemmas.Price
import Mathlib.Data.List.Count
namespace Pabu
namespace PriceMes
open Pabu.MES Pabu.Price

/-- a list profile of `n` voters with utilities `u` -/
def listV (n : Nat) (u : Nat → Pid → Rat) : VCtx := ⟨List.range n, fun _ => 1, u⟩

/-- entry `i` of a recorded budget list (0 outside) -/
def at0 (l : List Rat) (i : Nat) : Rat := (l[i]?).getD 0

/-- what voter `i` paid for `p` according to the record: the money they lost in the rounds that
    selected `p` -/
def paid : List Iteration → Nat → Pid → Rat
  | [], _, _ => 0
  | it :: rest, i, p =>
    (if it.selected = some p then at0 it.before i - at0 it.after i else 0) + paid rest i p

/-- the projects selected by the recorded rounds, in order -/
def selections (L : List Iteration) : List Pid := L.filterMap (fun it => it.selected)

theorem at0_budgets (n : Nat) (u : Nat → Pid → Rat) (b : Nat → Rat) {i : Nat} (hi : i < n) :
    at0 (budgets (listV n u) b) i = b i := by
  unfold at0 budgets listV
  simp [hi]

theorem paid_stop (bs : List Rat) (i : Nat) (p : Pid) : paid [⟨bs, none, none, []⟩] i p = 0 := by
  show (if (none : Option Pid) = some p then _ else (0 : Rat)) + 0 = 0
  rw [if_neg (by simp), add_zero]

/-- one recorded round: the voter paid `pay` if the round selected `p` -/
theorem paid_step {n : Nat} {u : Nat → Pid → Rat} {cost : Pid → Rat} {s : State} {t : Pid} {r : Rat}
    (hr : rho (listV n u) cost s.b t = some r) (rest : List Iteration) {i : Nat} (hi : i < n)
    (p : Pid) :
    paid (⟨budgets (listV n u) s.b, some t, some r, budgets (listV n u) (buy (listV n u) cost s t).b⟩
      :: rest) i p = (if t = p then pay (listV n u) s.b t r i else 0) + paid rest i p := by
  show (if some t = some p then at0 (budgets (listV n u) s.b) i -
    at0 (budgets (listV n u) (buy (listV n u) cost s t).b) i else 0) + paid rest i p = _
  rw [at0_budgets n u _ hi, at0_budgets n u _ hi, buy_some hr]
  by_cases h : t = p
  · rw [if_pos h, if_pos (by rw [h])]; ring
  · rw [if_neg h, if_neg (fun h' => h (Option.some.inj h'))]

/-! ### sums -/

theorem sumOver_congr {α : Type} {f g : α → Rat} : ∀ {l : List α}, (∀ x ∈ l, f x = g x) →
    sumOver l f = sumOver l g
  | [], _ => rfl
  | x :: xs, h => by
    simp only [sumOver]
    rw [h x (by simp), sumOver_congr (fun y hy => h y (by simp [hy]))]

theorem sumOver_map {α β : Type} (f : α → β) (g : β → Rat) : ∀ l : List α,
    sumOver (l.map f) g = sumOver l (fun x => g (f x))
  | [] => rfl
  | x :: xs => by simp only [List.map_cons, sumOver, sumOver_map f g xs]

theorem sumOver_indicator (t : Pid) (x : Rat) : ∀ C : List Pid, C.Nodup → t ∈ C →
    sumOver C (fun p => if t = p then x else 0) = x
  | [], _, h => by simp at h
  | c :: cs, hnd, h => by
    have hnd' := List.nodup_cons.mp hnd
    simp only [sumOver]
    by_cases hc : t = c
    · rw [if_pos hc]
      have : sumOver cs (fun p => if t = p then x else 0) = 0 := by
        apply MES.sumOver_zero
        intro y hy
        rw [if_neg]
        intro hty; subst hty; subst hc; exact hnd'.1 hy
      rw [this, add_zero]
    · rw [if_neg hc, zero_add]
      rcases List.mem_cons.mp h with h | h
      · exact absurd h hc
      · exact sumOver_indicator t x cs hnd'.2 h

theorem sumOver_pos {α : Type} (f : α → Rat) : ∀ l : List α, l ≠ [] → (∀ x ∈ l, 0 < f x) →
    0 < sumOver l f
  | [], h, _ => absurd rfl h
  | x :: xs, _, h => by
    have h1 := h x (by simp)
    have h2 : 0 ≤ sumOver xs f := MES.sumOver_nonneg f xs (fun y hy => le_of_lt (h y (by simp [hy])))
    simp only [sumOver]; linarith

theorem sumOver_filter_congr {α : Type} (f : α → Rat) (p q : α → Bool) : ∀ l : List α,
    (∀ x ∈ l, p x = q x) → sumOver (l.filter p) f = sumOver (l.filter q) f := by
  intro l h
  rw [List.filter_congr h]

/-- payments of a list profile, summed without the multiplicity factor -/
theorem pay_total_list {n : Nat} {u : Nat → Pid → Rat} {cost : Pid → Rat} {b : Nat → Rat} {t : Pid}
    {r : Rat} (hb : ∀ i ∈ List.range n, 0 ≤ b i) (hc : 0 < cost t)
    (hr : rho (listV n u) cost b t = some r) :
    sumOver (List.range n) (fun i => pay (listV n u) b t r i) = cost t := by
  have h := pay_total (V := listV n u) ⟨hb, fun _ _ => le_refl 1⟩ hc hr
  have : (fun i => (((listV n u).m i : Nat) : Rat) * pay (listV n u) b t r i) =
      fun i => pay (listV n u) b t r i := by
    funext i
    show ((1 : Nat) : Rat) * _ = _
    rw [Nat.cast_one, one_mul]
  rw [this] at h
  exact h

/-! ### the per-condition lemmas -/

/-- C1: a voter with no positive utility for `p` never pays for `p` -/
theorem paid_nonsupporter {n : Nat} {u : Nat → Pid → Rat} {cost : Pid → Rat} {s s' : State}
    {L : List Iteration} (h : Recorded (listV n u) cost s L s') {i : Nat} (hi : i < n) {p : Pid}
    (hu : ¬ 0 < u i p) : paid L i p = 0 := by
  induction h with
  | stop s => exact paid_stop _ i p
  | step s t r rest s' ht hr hb hrec ih =>
    rw [paid_step hr rest hi p, ih, add_zero]
    by_cases htp : t = p
    · rw [if_pos htp]; subst htp
      exact pay_nonsupporter (listV n u) s.b t r i hu
    · rw [if_neg htp]

/-- C4: nobody pays for a project that no recorded round selected -/
theorem paid_unselected {n : Nat} {u : Nat → Pid → Rat} {cost : Pid → Rat} {s s' : State}
    {L : List Iteration} (h : Recorded (listV n u) cost s L s') {i : Nat} (hi : i < n) {p : Pid}
    (hp : p ∉ selections L) : paid L i p = 0 := by
  induction h with
  | stop s => exact paid_stop _ i p
  | step s t r rest s' ht hr hb hrec ih =>
    have hsel : selections (⟨budgets (listV n u) s.b, some t, some r,
        budgets (listV n u) (buy (listV n u) cost s t).b⟩ :: rest) = t :: selections rest := by
      unfold selections; simp
    rw [hsel, List.mem_cons, not_or] at hp
    rw [paid_step hr rest hi p, ih hp.2, add_zero, if_neg (fun h => hp.1 h.symm)]

/-- payments are non-negative -/
theorem paid_nonneg {n : Nat} {u : Nat → Pid → Rat} {cost : Pid → Rat} {B : Rat} {s s' : State}
    {L : List Iteration} (h : Recorded (listV n u) cost s L s') (hs : Inv (listV n u) cost B s)
    {i : Nat} (hi : i < n) (p : Pid) : 0 ≤ paid L i p := by
  induction h with
  | stop s => rw [paid_stop]
  | step s t r rest s' ht hr hb hrec ih =>
    have hm : ∀ j ∈ (listV n u).vs, 1 ≤ (listV n u).m j := fun _ _ => le_refl 1
    have hrest := ih (buy_inv hm ht hs)
    rw [paid_step hr rest hi p]
    have hmem : i ∈ (listV n u).vs := List.mem_range.mpr hi
    have hrpos : 0 < r := rho_pos ⟨hs.nonneg, hm⟩ (hs.pool_pos t (tied_sub_pool ht)) hr
    have hpay := pay_nonneg (listV n u) s.b t r i (hs.nonneg i hmem) (le_of_lt hrpos)
    by_cases htp : t = p
    · rw [if_pos htp]; linarith
    · rw [if_neg htp]; linarith

/-- C3 / C4: the voters together pay the cost of `p` once per round that selected `p` -/
theorem paid_total {n : Nat} {u : Nat → Pid → Rat} {cost : Pid → Rat} {B : Rat} {s s' : State}
    {L : List Iteration} (h : Recorded (listV n u) cost s L s') (hs : Inv (listV n u) cost B s)
    (p : Pid) :
    sumOver (List.range n) (fun i => paid L i p) = cost p * ((selections L).count p : Nat) := by
  induction h with
  | stop s =>
    have : selections [(⟨budgets (listV n u) s.b, none, none, []⟩ : Iteration)] = [] := rfl
    rw [this]
    rw [MES.sumOver_zero _ _ (fun i _ => paid_stop _ i p)]
    simp
  | step s t r rest s' ht hr hb hrec ih =>
    have hm : ∀ j ∈ (listV n u).vs, 1 ≤ (listV n u).m j := fun _ _ => le_refl 1
    have hrest := ih (buy_inv hm ht hs)
    have hsel : selections (⟨budgets (listV n u) s.b, some t, some r,
        budgets (listV n u) (buy (listV n u) cost s t).b⟩ :: rest) = t :: selections rest := by
      unfold selections; simp
    rw [hsel]
    rw [sumOver_congr (fun i hi => paid_step hr rest (List.mem_range.mp hi) p), Price.sumOver_add, hrest]
    have hc : 0 < cost t := hs.pool_pos t (tied_sub_pool ht)
    by_cases htp : t = p
    · subst htp
      have : (fun i => if t = t then pay (listV n u) s.b t r i else 0) =
          fun i => pay (listV n u) s.b t r i := by funext i; rw [if_pos rfl]
      rw [this, pay_total_list hs.nonneg hc hr, List.count_cons_self]
      push_cast; ring
    · have : (fun i => if t = p then pay (listV n u) s.b t r i else 0) = fun _ => (0 : Rat) := by
        funext i; rw [if_neg htp]
      rw [this, Price.sumOver_zero, List.count_cons_of_ne htp]
      ring

/-- C2: the money a voter starts with minus everything they paid (summed over the projects of the
    instance) is the money they hold at the stop -/
theorem paid_spent {n : Nat} {u : Nat → Pid → Rat} {cost : Pid → Rat} {s s' : State}
    {L : List Iteration} (h : Recorded (listV n u) cost s L s') (C : List Pid) (hC : C.Nodup)
    (hpool : ∀ p ∈ s.pool, p ∈ C) {i : Nat} (hi : i < n) :
    s.b i - sumOver C (paid L i) = s'.b i := by
  induction h with
  | stop s =>
    rw [MES.sumOver_zero _ _ (fun p _ => paid_stop _ i p), sub_zero]
  | step s t r rest s' ht hr hb hrec ih =>
    have hpool' : ∀ p ∈ (buy (listV n u) cost s t).pool, p ∈ C := by
      intro p hp; rw [buy_pool] at hp; exact hpool p (List.mem_filter.mp hp).1
    have hrest := ih hpool'
    rw [buy_some hr] at hrest
    have htC : t ∈ C := hpool t (tied_sub_pool ht)
    have : sumOver C (paid (⟨budgets (listV n u) s.b, some t, some r,
        budgets (listV n u) (buy (listV n u) cost s t).b⟩ :: rest) i) =
        pay (listV n u) s.b t r i + sumOver C (paid rest i) := by
      rw [sumOver_congr (fun p _ => paid_step hr rest hi p), Price.sumOver_add,
        sumOver_indicator t _ C hC htC]
    rw [this]
    simp only at hrest
    linarith

/-! ### the price-system input read off a record -/

/-- what `validate_price_system` is given: the instance, the outcome, the voters with their
    approval ballots `app i` and recorded payments `paid L i`, the per-voter budget `b0` -/
def inputOf (I : Inst) (n : Nat) (app : Nat → Pid → Bool) (L : List Iteration) (W : List Pid)
    (b0 : Rat) : Input :=
  { C := I.projects, cost := I.cost, budget := I.budget, W := W,
    N := (List.range n).map (fun i => ⟨app i, paid L i⟩), b := b0 }

theorem mem_N {I : Inst} {n : Nat} {app : Nat → Pid → Bool} {L : List Iteration} {W : List Pid}
    {b0 : Rat} {v : PVoter} (hv : v ∈ (inputOf I n app L W b0).N) :
    ∃ i, i < n ∧ v = ⟨app i, paid L i⟩ := by
  unfold inputOf at hv
  obtain ⟨i, hi, rfl⟩ := List.mem_map.mp hv
  exact ⟨i, List.mem_range.mp hi, rfl⟩

theorem paidFor_inputOf (I : Inst) (n : Nat) (app : Nat → Pid → Bool) (L : List Iteration)
    (W : List Pid) (b0 : Rat) (c : Pid) :
    paidFor (inputOf I n app L W b0) c = sumOver (List.range n) (fun i => paid L i c) := by
  unfold paidFor inputOf
  exact sumOver_map _ _ _

theorem numVoters_listV (n : Nat) (u : Nat → Pid → Rat) : numVoters (listV n u) = n := by
  unfold numVoters listV
  show sumNat (List.range n) (fun _ => 1) = n
  have : ∀ l : List Nat, sumNat l (fun _ => 1) = l.length := by
    intro l; induction l with
    | nil => rfl
    | cons x xs ih => simp only [sumNat, ih, List.length_cons]; omega
  rw [this, List.length_range]

theorem supporters_eq_approvers {n : Nat} {u : Nat → Pid → Rat} {app : Nat → Pid → Bool} {c : Pid}
    (h : ∀ i, i < n → (0 < u i c ↔ app i c = true)) :
    supporters (listV n u) c = (List.range n).filter (fun i => app i c) := by
  unfold supporters listV
  refine List.filter_congr ?_
  intro i hi
  have := h i (List.mem_range.mp hi)
  by_cases ha : app i c = true
  · rw [ha]; exact decide_eq_true (this.mpr ha)
  · rw [Bool.not_eq_true] at ha
    rw [ha]; exact decide_eq_false (fun hu => by rw [this.mp hu] at ha; cases ha)

/-- the supporters' leftover money, as the validator adds it up, is the `budSum` of the stop state -/
theorem leftoverOf_eq_budSum {I : Inst} {n : Nat} {u : Nat → Pid → Rat} {app : Nat → Pid → Bool}
    {L : List Iteration} {W : List Pid} {b0 : Rat} {b' : Nat → Rat} {c : Pid}
    (happ : ∀ i, i < n → (0 < u i c ↔ app i c = true))
    (hleft : ∀ i, i < n → b0 - sumOver I.projects (paid L i) = b' i) :
    leftoverOf (inputOf I n app L W b0) c = budSum (sups (listV n u) b' c) := by
  unfold leftoverOf sups
  rw [supporters_eq_approvers happ]
  show sumOver (((List.range n).map (fun i => (⟨app i, paid L i⟩ : PVoter))).filter
    (fun v => v.app c)) (leftover (inputOf I n app L W b0)) = _
  rw [List.filter_map, sumOver_map]
  have hmem : ∀ l : List Nat, (∀ i ∈ l, i < n) →
      sumOver l (fun i => leftover (inputOf I n app L W b0) ⟨app i, paid L i⟩) =
        budSum (l.map (fun i => (⟨b' i, (listV n u).u i c, (listV n u).m i⟩ : Sup))) := by
    intro l
    induction l with
    | nil => intro _; rfl
    | cons x xs ih =>
      intro hl
      have hx := hleft x (hl x (by simp))
      simp only [sumOver, List.map_cons, budSum, ih (fun i hi => hl i (by simp [hi]))]
      show (b0 - sumOver I.projects (paid L x)) + _ = ((1 : Nat) : Rat) * b' x + _
      rw [hx, Nat.cast_one, one_mul]
  exact hmem _ (fun i hi => List.mem_range.mp (List.mem_filter.mp hi).1)

/-- **the recorded payments of an Equal-Shares run form a price system** for the state it stops
    in.  `s'` is the stop state of a record from the initial state (list profile, no initial
    projects) in which no pool project has a price.  Hypotheses forced by the proof: costs ≥ 0,
    budget ≥ 0, and a voter has positive utility exactly for the projects they approve. -/
theorem recorded_exact {I : Inst} {n : Nat} {u : Nat → Pid → Rat} {app : Nat → Pid → Bool}
    (hproj : I.projects.Nodup) (hcost : ∀ p ∈ I.projects, 0 ≤ I.cost p) {b0 : Rat} (hb0 : 0 ≤ b0)
    (hfeas : (n : Rat) * b0 ≤ I.budget)
    (hpos : ∀ i, i < n → ∀ p ∈ I.projects, (0 < u i p ↔ app i p = true))
    {L : List Iteration} {s' : State}
    (hrec : Recorded (listV n u) I.cost (initState (listV n u) I [] b0) L s')
    (hstop : ∀ p ∈ s'.pool, rho (listV n u) I.cost s'.b p = none) :
    Exact (inputOf I n app L s'.alloc b0) false false := by
  have hok : InputOK (listV n u) I [] :=
    ⟨fun _ _ => le_refl 1, hproj, fun p hp => by simp at hp, List.nodup_nil, hcost⟩
  have hgood0 := good_init (listV n u) I [] b0 hb0 hproj hok.init_sub List.nodup_nil hcost
  have hgood := hrec.good hok.mult hgood0
  have halloc : s'.alloc = zeroCost (listV n u) I [] ++ selections L := by
    rw [hrec.alloc]; rfl
  have hnd : (zeroCost (listV n u) I [] ++ selections L).Nodup := by
    rw [← halloc]; exact hgood.2.alloc_nodup
  have hdisj : ∀ c ∈ zeroCost (listV n u) I [], c ∉ selections L := by
    intro c hc hs
    exact (List.nodup_append.mp hnd).2.2 c hc c hs rfl
  have hpoolC : ∀ p ∈ (initState (listV n u) I [] b0).pool, p ∈ I.projects :=
    fun p hp => (mem_initPool.mp hp).1
  have hleft : ∀ i, i < n → b0 - sumOver I.projects (paid L i) = s'.b i :=
    fun i hi => paid_spent hrec I.projects hproj hpoolC hi
  have htot : ∀ c, paidFor (inputOf I n app L s'.alloc b0) c =
      I.cost c * ((selections L).count c : Nat) := by
    intro c; rw [paidFor_inputOf]; exact paid_total hrec hgood0.1 c
  refine ⟨?_, (fun h => by cases h), ?_, ?_, ?_, ?_, ?_, ?_, (fun h => by cases h)⟩
  · -- C0a
    have h := (alloc_bounds hgood.1 hgood.2).1
    rw [numVoters_listV] at h
    show costOf I.cost s'.alloc ≤ I.budget
    have h0 : costOf I.cost ([] : List Pid) = 0 := rfl
    linarith
  · -- C1
    intro v hv c hc ha
    obtain ⟨i, hi, rfl⟩ := mem_N hv
    have hu : ¬ 0 < u i c := fun hu => by
      have h1 : app i c = true := (hpos i hi c hc).mp hu
      have h2 : app i c = false := ha
      rw [h1] at h2; cases h2
    exact paid_nonsupporter hrec hi hu
  · -- payments ≥ 0
    intro v hv c _
    obtain ⟨i, hi, rfl⟩ := mem_N hv
    exact paid_nonneg hrec hgood0.1 hi c
  · -- C2
    intro v hv
    obtain ⟨i, hi, rfl⟩ := mem_N hv
    show sumOver I.projects (paid L i) ≤ b0
    have := hleft i hi
    have hnn := hgood.1.nonneg i (List.mem_range.mpr hi)
    linarith
  · -- C3
    intro c hc
    have hc' : c ∈ zeroCost (listV n u) I [] ++ selections L := by rw [← halloc]; exact hc
    rw [htot]
    rcases List.mem_append.mp hc' with hz | hs
    · rw [List.count_eq_zero_of_not_mem (hdisj c hz)]
      have hz' := mem_zeroCost.mp hz
      have : I.cost c = 0 := le_antisymm (not_lt.mp hz'.2.2.2) (hcost c hz'.1)
      show I.cost c * ((0 : Nat) : Rat) = I.cost c
      rw [this]; simp
    · rw [List.count_eq_one_of_mem (List.nodup_append.mp hnd).2.1 hs]
      show I.cost c * ((1 : Nat) : Rat) = I.cost c
      simp
  · -- C4
    intro c hc
    have hc' := List.mem_filter.mp hc
    have hcW : c ∉ s'.alloc := by
      have h2 : c ∉ (inputOf I n app L s'.alloc b0).W := by simpa using hc'.2
      exact h2
    rw [htot]
    have : c ∉ selections L := fun h => hcW (by rw [halloc]; exact List.mem_append_right _ h)
    rw [List.count_eq_zero_of_not_mem this]
    simp
  · -- C5
    intro _ c hc
    have hc' := List.mem_filter.mp hc
    have hcC : c ∈ I.projects := hc'.1
    have hcW : c ∉ s'.alloc := by
      have h2 : c ∉ (inputOf I n app L s'.alloc b0).W := by simpa using hc'.2
      exact h2
    rw [leftoverOf_eq_budSum (u := u) (b' := s'.b) (fun i hi => hpos i hi c hcC) hleft]
    show budSum (sups (listV n u) s'.b c) ≤ I.cost c
    by_cases hpool : c ∈ initPool (listV n u) I []
    · rcases hrec.pool c hpool with h1 | h1
      · have hvok : VOK (listV n u) s'.b := ⟨hgood.1.nonneg, hok.mult⟩
        exact le_of_lt ((rho_none_iff hvok (hgood.1.pool_pos c h1)).mp (hstop c h1))
      · exfalso
        apply hcW
        rw [hrec.alloc]
        apply List.mem_append_right
        obtain ⟨it, hit, hsel⟩ := List.mem_map.mp h1
        exact List.mem_filterMap.mpr ⟨it, hit, hsel⟩
    · -- not purchasable and not bought up front: nobody supports it
      have hz : c ∉ zeroCost (listV n u) I [] := fun h =>
        hcW (by rw [halloc]; exact List.mem_append_left _ h)
      have hts : ¬ 0 < totalSat (listV n u) c := by
        intro hts
        by_cases hcp : 0 < I.cost c
        · exact hpool (mem_initPool.mpr ⟨hcC, by simp, hts, hcp⟩)
        · exact hz (mem_zeroCost.mpr ⟨hcC, by simp, hts, hcp⟩)
      have hsup : supporters (listV n u) c = [] := by
        by_contra hne
        apply hts
        unfold totalSat
        apply sumOver_pos _ _ hne
        intro i hi
        have := (mem_supporters.mp hi).2
        show 0 < ((1 : Nat) : Rat) * u i c
        rw [Nat.cast_one, one_mul]; exact this
      unfold sups
      rw [hsup]
      exact hcost c hcC

end PriceMes
end Pabu
