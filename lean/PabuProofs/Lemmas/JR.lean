/-
  Lemmas about the proportionality checkers:
  * `mem_sublists`, `forGroups_iff`, `forVoters_iff` — the enumerations are quantifiers;
  * `groups_quotient` — enumerating groups of distinct entries with their full multiplicity decides the
    same statement as quantifying over all groups of individual voters, for every condition that depends
    on the group only through the set of its ballots and is monotone in the group size;
  * `minRat` / `maxRat` as least / greatest elements.
-/
import PabuModel.JR
import Mathlib.Tactic.Linarith
import Mathlib.Tactic.Ring
import Mathlib.Algebra.Order.Field.Rat
import Mathlib.Data.List.Basic
namespace Pabu
open List

theorem mem_sublists {α : Type} (xs l : List α) : l ∈ sublists xs ↔ l <+ xs := by
  induction xs generalizing l with
  | nil =>
    unfold sublists
    simp
  | cons x xs ih =>
    unfold sublists
    rw [List.mem_append, List.mem_map, List.sublist_cons_iff]
    constructor
    · rintro (h | ⟨r, hr, rfl⟩)
      · left; exact (ih l).mp h
      · right; exact ⟨r, rfl, (ih r).mp hr⟩
    · rintro (h | ⟨r, rfl, hr⟩)
      · left; exact (ih l).mpr h
      · right; exact ⟨r, (ih r).mpr hr, rfl⟩

/-! ### least and greatest element -/

theorem minRat_eq_none (l : List Rat) : minRat l = none ↔ l = [] := by
  cases l with
  | nil => simp [minRat]
  | cons x xs =>
    unfold minRat
    cases minRat xs <;> simp

theorem maxRat_eq_none (l : List Rat) : maxRat l = none ↔ l = [] := by
  cases l with
  | nil => simp [maxRat]
  | cons x xs =>
    unfold maxRat
    cases maxRat xs <;> simp

theorem minRat_spec (l : List Rat) (hl : l ≠ []) : ∃ m, minRat l = some m ∧ m ∈ l ∧ ∀ x ∈ l, m ≤ x := by
  induction l with
  | nil => exact absurd rfl hl
  | cons x xs ih =>
    unfold minRat
    cases hxs : minRat xs with
    | none =>
      have : xs = [] := (minRat_eq_none xs).mp hxs
      subst this
      exact ⟨x, rfl, by simp, by simp⟩
    | some y =>
      have hne : xs ≠ [] := by intro h; rw [h] at hxs; simp [minRat] at hxs
      obtain ⟨m, hm, hmem, hle⟩ := ih hne
      rw [hxs] at hm
      cases hm
      by_cases hxy : x ≤ y
      · refine ⟨x, by simp [hxy], by simp, ?_⟩
        intro z hz
        rcases List.mem_cons.mp hz with rfl | hz
        · exact le_refl _
        · exact le_trans hxy (hle z hz)
      · refine ⟨y, by simp [hxy], by simp [hmem], ?_⟩
        intro z hz
        rcases List.mem_cons.mp hz with rfl | hz
        · exact le_of_lt (not_le.mp hxy)
        · exact hle z hz

theorem maxRat_spec (l : List Rat) (hl : l ≠ []) : ∃ m, maxRat l = some m ∧ m ∈ l ∧ ∀ x ∈ l, x ≤ m := by
  induction l with
  | nil => exact absurd rfl hl
  | cons x xs ih =>
    unfold maxRat
    cases hxs : maxRat xs with
    | none =>
      have : xs = [] := (maxRat_eq_none xs).mp hxs
      subst this
      exact ⟨x, rfl, by simp, by simp⟩
    | some y =>
      have hne : xs ≠ [] := by intro h; rw [h] at hxs; simp [maxRat] at hxs
      obtain ⟨m, hm, hmem, hle⟩ := ih hne
      rw [hxs] at hm
      cases hm
      by_cases hxy : y ≤ x
      · refine ⟨x, by simp [hxy], by simp, ?_⟩
        intro z hz
        rcases List.mem_cons.mp hz with rfl | hz
        · exact le_refl _
        · exact le_trans (hle z hz) hxy
      · refine ⟨y, by simp [hxy], by simp [hmem], ?_⟩
        intro z hz
        rcases List.mem_cons.mp hz with rfl | hz
        · exact le_of_lt (not_le.mp hxy)
        · exact hle z hz

/-- the minimum (0 for the empty list) depends only on the set of elements -/
theorem minRat_congr (l l' : List Rat) (h : ∀ x, x ∈ l ↔ x ∈ l') : (minRat l).getD 0 = (minRat l').getD 0 := by
  by_cases hl : l = []
  · have hl' : l' = [] := by
      cases l' with
      | nil => rfl
      | cons a r => exact absurd ((h a).mpr (by simp)) (by rw [hl]; simp)
    rw [hl, hl']
  · have hl' : l' ≠ [] := by
      intro h'
      cases l with
      | nil => exact hl rfl
      | cons a r => exact absurd ((h a).mp (by simp)) (by rw [h']; simp)
    obtain ⟨m, hm, hmem, hle⟩ := minRat_spec l hl
    obtain ⟨m', hm', hmem', hle'⟩ := minRat_spec l' hl'
    rw [hm, hm']
    exact le_antisymm (hle m' ((h m').mpr hmem')) (hle' m ((h m).mp hmem))

theorem maxRat_congr (l l' : List Rat) (h : ∀ x, x ∈ l ↔ x ∈ l') : (maxRat l).getD 0 = (maxRat l').getD 0 := by
  by_cases hl : l = []
  · have hl' : l' = [] := by
      cases l' with
      | nil => rfl
      | cons a r => exact absurd ((h a).mpr (by simp)) (by rw [hl]; simp)
    rw [hl, hl']
  · have hl' : l' ≠ [] := by
      intro h'
      cases l with
      | nil => exact hl rfl
      | cons a r => exact absurd ((h a).mp (by simp)) (by rw [h']; simp)
    obtain ⟨m, hm, hmem, hle⟩ := maxRat_spec l hl
    obtain ⟨m', hm', hmem', hle'⟩ := maxRat_spec l' hl'
    rw [hm, hm']
    exact le_antisymm (hle' m ((h m).mp hmem)) (hle m' ((h m').mpr hmem'))

theorem sumOver_le {α : Type} (l : List α) (f g : α → Rat) (h : ∀ x ∈ l, f x ≤ g x) :
    sumOver l f ≤ sumOver l g := by
  induction l with
  | nil => exact le_refl _
  | cons a l ih =>
    unfold sumOver
    have h1 := h a (by simp)
    have h2 := ih (fun x hx => h x (by simp [hx]))
    linarith

theorem sumOver_congr {α : Type} (l : List α) (f g : α → Rat) (h : ∀ x ∈ l, f x = g x) :
    sumOver l f = sumOver l g :=
  le_antisymm (sumOver_le l f g (fun x hx => le_of_eq (h x hx))) (sumOver_le l g f (fun x hx => le_of_eq (h x hx).symm))

theorem sumOver_nonneg {α : Type} (l : List α) (f : α → Rat) (h : ∀ x ∈ l, 0 ≤ f x) : 0 ≤ sumOver l f := by
  induction l with
  | nil => exact le_refl _
  | cons a l ih =>
    unfold sumOver
    have h1 := h a (by simp)
    have h2 := ih (fun x hx => h x (by simp [hx]))
    linarith

end Pabu

namespace Pabu.JR
open Pabu List

/-! ### the enumerations are quantifiers -/

theorem forGroups_iff (M : List (Voter × Nat)) (projects : List Pid)
    (a : Nat → List Voter → List Pid → Bool) (g : List Voter → List Pid → Bool) :
    forGroups M projects a g = true ↔
      ∀ D, D <+ M → ∀ T, T <+ projects → a (groupSize D) (members D) T = true → g (members D) T = true := by
  unfold forGroups
  simp only [List.all_eq_true, mem_sublists, Bool.or_eq_true, Bool.not_eq_true']
  constructor
  · intro h D hD T hT ha
    rcases h D hD T hT with h1 | h1
    · rw [ha] at h1; cases h1
    · exact h1
  · intro h D hD T hT
    by_cases ha : a (groupSize D) (members D) T = true
    · right; exact h D hD T hT ha
    · left; simpa using ha

theorem forVoters_iff (V : List Voter) (projects : List Pid)
    (a : Nat → List Voter → List Pid → Bool) (g : List Voter → List Pid → Bool) :
    forVoters V projects a g = true ↔
      ∀ S, S <+ V → ∀ T, T <+ projects → a S.length S T = true → g S T = true := by
  unfold forVoters
  simp only [List.all_eq_true, mem_sublists, Bool.or_eq_true, Bool.not_eq_true']
  constructor
  · intro h S hS T hT ha
    rcases h S hS T hT with h1 | h1
    · rw [ha] at h1; cases h1
    · exact h1
  · intro h S hS T hT
    by_cases ha : a S.length S T = true
    · right; exact h S hS T hT ha
    · left; simpa using ha

/-! ### a multiprofile and the voter list it stands for -/

theorem expand_cons (e : Voter × Nat) (r : List (Voter × Nat)) :
    expand (e :: r) = List.replicate e.2 e.1 ++ expand r := rfl

theorem expand_sublist {D M : List (Voter × Nat)} (h : D <+ M) : expand D <+ expand M := by
  induction h with
  | slnil => exact List.Sublist.refl _
  | cons a _ ih =>
    rw [expand_cons]
    exact List.Sublist.trans ih (List.sublist_append_right _ _)
  | cons_cons a _ ih =>
    rw [expand_cons, expand_cons]
    exact List.Sublist.append (List.Sublist.refl _) ih

theorem length_expand (D : List (Voter × Nat)) : (expand D).length = groupSize D := by
  induction D with
  | nil => rfl
  | cons e r ih =>
    unfold expand groupSize sumNat
    rw [List.length_append, List.length_replicate, ih]
    rfl

theorem mem_expand (D : List (Voter × Nat)) (hpos : ∀ e ∈ D, 1 ≤ e.2) (x : Voter) :
    x ∈ expand D ↔ x ∈ members D := by
  induction D with
  | nil => simp [expand, members]
  | cons e r ih =>
    unfold expand members
    rw [List.mem_append, List.map_cons, List.mem_cons, List.mem_replicate]
    have h1 : e.2 ≠ 0 := by have := hpos e (by simp); omega
    have ih' := ih (fun e' he' => hpos e' (by simp [he']))
    unfold members at ih'
    constructor
    · rintro (⟨_, hx⟩ | hx)
      · left; exact hx
      · right; exact ih'.mp hx
    · rintro (hx | hx)
      · left; exact ⟨h1, hx⟩
      · right; exact ih'.mpr hx

/-- every group of individual voters is covered by the group of the entries it touches, which is at
    least as large and has the same set of ballots -/
theorem entries_of_group (M : List (Voter × Nat)) (S : List Voter) (hS : S <+ expand M) :
    ∃ D, D <+ M ∧ (∀ x, x ∈ members D ↔ x ∈ S) ∧ S.length ≤ groupSize D := by
  induction M generalizing S with
  | nil =>
    unfold expand at hS
    have : S = [] := List.sublist_nil.mp hS
    subst this
    exact ⟨[], List.Sublist.refl _, by simp [members], by simp⟩
  | cons e r ih =>
    unfold expand at hS
    obtain ⟨s1, s2, rfl, h1, h2⟩ := List.sublist_append_iff.mp hS
    obtain ⟨D', hD', hmem, hlen⟩ := ih s2 h2
    obtain ⟨k, hk, rfl⟩ := List.sublist_replicate_iff.mp h1
    by_cases hk0 : k = 0
    · subst hk0
      refine ⟨D', List.Sublist.cons e hD', ?_, ?_⟩
      · intro x; simpa using hmem x
      · simpa using hlen
    · refine ⟨e :: D', List.Sublist.cons_cons e hD', ?_, ?_⟩
      · intro x
        unfold members
        rw [List.map_cons, List.mem_cons, List.mem_append, List.mem_replicate]
        have := hmem x
        unfold members at this
        constructor
        · rintro (hx | hx)
          · left; exact ⟨hk0, hx⟩
          · right; exact this.mp hx
        · rintro (⟨_, hx⟩ | hx)
          · left; exact hx
          · right; exact this.mpr hx
      · unfold groupSize sumNat
        rw [List.length_append, List.length_replicate]
        unfold groupSize at hlen
        omega

/-- **groups_quotient.**  For an admissibility test that is monotone in the group size and, like the
    requirement, depends on the group only through the set of its ballots, the loop over groups of
    distinct entries (sizes = summed multiplicities) decides the quantifier over all groups of voters. -/
theorem groups_quotient (M : List (Voter × Nat)) (projects : List Pid)
    (a : Nat → List Voter → List Pid → Bool) (g : List Voter → List Pid → Bool)
    (hpos : ∀ e ∈ M, 1 ≤ e.2)
    (ha_mono : ∀ k k' S T, k ≤ k' → a k S T = true → a k' S T = true)
    (ha_congr : ∀ k S S' T, (∀ x, x ∈ S ↔ x ∈ S') → a k S T = a k S' T)
    (hg_congr : ∀ S S' T, (∀ x, x ∈ S ↔ x ∈ S') → g S T = g S' T) :
    forGroups M projects a g = forVoters (expand M) projects a g := by
  rw [Bool.eq_iff_iff, forGroups_iff, forVoters_iff]
  constructor
  · intro h S hS T hT ha
    obtain ⟨D, hD, hmem, hlen⟩ := entries_of_group M S hS
    have h1 : a (groupSize D) (members D) T = true := by
      rw [ha_congr (groupSize D) (members D) S T hmem]
      exact ha_mono _ _ S T hlen ha
    have h2 := h D hD T hT h1
    rw [hg_congr (members D) S T hmem] at h2
    exact h2
  · intro h D hD T hT ha
    have hposD : ∀ e ∈ D, 1 ≤ e.2 := fun e he => hpos e (hD.subset he)
    have hmem : ∀ x, x ∈ expand D ↔ x ∈ members D := mem_expand D hposD
    have h1 : a (expand D).length (expand D) T = true := by
      rw [length_expand, ha_congr (groupSize D) (expand D) (members D) T hmem]
      exact ha
    have h2 := h (expand D) (expand_sublist hD) T hT h1
    rw [hg_congr (expand D) (members D) T hmem] at h2
    exact h2

end Pabu.JR

namespace Pabu.JR
open Pabu List

/-! ### the checkers' tests depend on a group only through the set of its ballots -/

theorem all_congr_mem {α : Type} (l l' : List α) (f : α → Bool) (h : ∀ x, x ∈ l ↔ x ∈ l') : l.all f = l'.all f := by
  rw [Bool.eq_iff_iff, List.all_eq_true, List.all_eq_true]
  constructor
  · intro H x hx; exact H x ((h x).mpr hx)
  · intro H x hx; exact H x ((h x).mp hx)

theorem any_congr_mem {α : Type} (l l' : List α) (f : α → Bool) (h : ∀ x, x ∈ l ↔ x ∈ l') : l.any f = l'.any f := by
  rw [Bool.eq_iff_iff, List.any_eq_true, List.any_eq_true]
  constructor
  · rintro ⟨x, hx, hf⟩; exact ⟨x, (h x).mp hx, hf⟩
  · rintro ⟨x, hx, hf⟩; exact ⟨x, (h x).mpr hx, hf⟩

theorem isEmpty_congr_mem {α : Type} (l l' : List α) (h : ∀ x, x ∈ l ↔ x ∈ l') : l.isEmpty = l'.isEmpty := by
  cases l with
  | nil =>
    cases l' with
    | nil => rfl
    | cons a r => exact absurd ((h a).mpr (by simp)) (by simp)
  | cons a r =>
    cases l' with
    | nil => exact absurd ((h a).mp (by simp)) (by simp)
    | cons a' r' => rfl

theorem minOver_congr (S S' : List Voter) (h : ∀ x, x ∈ S ↔ x ∈ S') : minOver S = minOver S' := by
  funext p
  unfold minOver
  apply minRat_congr
  intro x
  simp only [List.mem_map]
  constructor
  · rintro ⟨v, hv, rfl⟩; exact ⟨v, (h v).mp hv, rfl⟩
  · rintro ⟨v, hv, rfl⟩; exact ⟨v, (h v).mpr hv, rfl⟩

theorem maxOver_congr (S S' : List Voter) (h : ∀ x, x ∈ S ↔ x ∈ S') : maxOver S = maxOver S' := by
  funext p
  unfold maxOver
  apply maxRat_congr
  intro x
  simp only [List.mem_map]
  constructor
  · rintro ⟨v, hv, rfl⟩; exact ⟨v, (h v).mp hv, rfl⟩
  · rintro ⟨v, hv, rfl⟩; exact ⟨v, (h v).mpr hv, rfl⟩

theorem voterOk_congr (card : Bool) (k : Kind) (up : UpTo) (W : List Pid) (S S' : List Voter) (T : List Pid)
    (h : ∀ x, x ∈ S ↔ x ∈ S') : voterOk card k up W S T = voterOk card k up W S' T := by
  funext v
  unfold voterOk threshold
  rw [minOver_congr S S' h]

theorem groupApproved_congr (W : List Pid) (S S' : List Voter) (h : ∀ x, x ∈ S ↔ x ∈ S') :
    groupApproved W S = groupApproved W S' := by
  unfold groupApproved
  congr 1
  funext p
  exact any_congr_mem S S' _ h

theorem good_congr (E : Setting) (card : Bool) (k : Kind) (up : UpTo) (W : List Pid) (S S' : List Voter) (T : List Pid)
    (h : ∀ x, x ∈ S ↔ x ∈ S') : good E card k up W S T = good E card k up W S' T := by
  cases k with
  | core =>
    show S.any (voterOk card .core up W S T) = S'.any (voterOk card .core up W S' T)
    rw [voterOk_congr card .core up W S S' T h]
    exact any_congr_mem S S' _ h
  | ejr =>
    show S.any (voterOk card .ejr up W S T) = S'.any (voterOk card .ejr up W S' T)
    rw [voterOk_congr card .ejr up W S S' T h]
    exact any_congr_mem S S' _ h
  | strong =>
    show S.all (voterOk card .strong .none W S T) = S'.all (voterOk card .strong .none W S' T)
    rw [voterOk_congr card .strong .none W S S' T h]
    exact all_congr_mem S S' _ h
  | pjr =>
    unfold good
    simp only
    rw [minOver_congr S S' h, maxOver_congr S S' h, groupApproved_congr W S S' h]

theorem adm_congr (E : Setting) (card : Bool) (k : Kind) (n : Nat) (S S' : List Voter) (T : List Pid)
    (h : ∀ x, x ∈ S ↔ x ∈ S') : adm E card k n S T = adm E card k n S' T := by
  have h1 := isEmpty_congr_mem S S' h
  have h2 : unanimous S T = unanimous S' T := all_congr_mem S S' _ h
  cases k <;> simp only [adm, h1, h2]

theorem largeEnough_mono (E : Setting) (hB : 0 ≤ E.budget) (k k' : Nat) (T : List Pid) (hk : k ≤ k')
    (h : largeEnough E k T = true) : largeEnough E k' T = true := by
  unfold largeEnough at h ⊢
  rw [decide_eq_true_eq] at h ⊢
  have : (k : Rat) ≤ (k' : Rat) := by exact_mod_cast hk
  have := mul_le_mul_of_nonneg_right this hB
  linarith

theorem adm_mono (E : Setting) (hB : 0 ≤ E.budget) (card : Bool) (k : Kind) (n n' : Nat) (S : List Voter) (T : List Pid)
    (hn : n ≤ n') (h : adm E card k n S T = true) : adm E card k n' S T = true := by
  cases k <;> simp only [adm, Bool.and_eq_true] at h ⊢
  · exact ⟨largeEnough_mono E hB n n' T hn h.1, h.2⟩
  · exact ⟨⟨⟨largeEnough_mono E hB n n' T hn h.1.1.1, h.1.1.2⟩, h.1.2⟩, h.2⟩
  · exact ⟨⟨⟨largeEnough_mono E hB n n' T hn h.1.1.1, h.1.1.2⟩, h.1.2⟩, h.2⟩
  · exact ⟨⟨⟨largeEnough_mono E hB n n' T hn h.1.1.1, h.1.1.2⟩, h.1.2⟩, h.2⟩

/-- **checker = definition**, all ten notions, approval and cardinal: the library's loop over groups of
    distinct ballots (with their multiplicities) answers exactly as the quantifier over all groups of
    individual voters of the expanded profile. -/
theorem checker_eq_definition (E : Setting) (M : List (Voter × Nat)) (card : Bool) (k : Kind) (up : UpTo) (W : List Pid)
    (hB : 0 ≤ E.budget) (hpos : ∀ e ∈ M, 1 ≤ e.2) :
    checker E M card k up W = definition E M card k up W := by
  unfold checker definition
  exact groups_quotient M E.projects (adm E card k) (good E card k up W) hpos
    (fun n n' S T hn h => adm_mono E hB card k n n' S T hn h)
    (fun n S S' T h => adm_congr E card k n S S' T h)
    (fun S S' T h => good_congr E card k up W S S' T h)

end Pabu.JR

namespace Pabu.JR
open Pabu List

/-! ### the definitions as propositions -/

/-- the group is large enough to claim `T`: `cost(T) · n ≤ |S| · budget` -/
def Large (E : Setting) (S : List Voter) (T : List Pid) : Prop :=
  costOf E.cost T * (E.n : Rat) ≤ (S.length : Rat) * E.budget

/-- the (group, project set) pairs a notion speaks about: for the core every non-empty large-enough group,
    otherwise the `T`-cohesive groups (approval: every member approves all of `T`; cardinal: the scores
    claimed are the pointwise minima of the group, so every large-enough group qualifies) -/
def AdmP (E : Setting) (card : Bool) (k : Kind) (S : List Voter) (T : List Pid) : Prop :=
  match k with
  | .core => Large E S T ∧ S ≠ []
  | _ => Large E S T ∧ S ≠ [] ∧ T ≠ [] ∧ (card = true ∨ ∀ v ∈ S, ∀ p ∈ T, v.app p = true)

/-- voter `v` gets what the group is entitled to (up to the surplus term) -/
def VoterOkP (card : Bool) (k : Kind) (up : UpTo) (W : List Pid) (S : List Voter) (T : List Pid) (v : Voter) : Prop :=
  threshold card k S T v ≤ satV v W + surplus up ((missing W T).map v.u)

def GoodP (E : Setting) (card : Bool) (k : Kind) (up : UpTo) (W : List Pid) (S : List Voter) (T : List Pid) : Prop :=
  match k with
  | .core => ∃ v ∈ S, VoterOkP card .core up W S T v
  | .ejr => ∃ v ∈ S, VoterOkP card .ejr up W S T v
  | .strong => ∀ v ∈ S, VoterOkP card .strong .none W S T v
  | .pjr =>
    if card = true then
      sumOver T (minOver S) ≤ sumOver W (maxOver S) + surplus up ((missing W T).map (maxOver S))
    else
      sumOver T E.full ≤ sumOver (groupApproved W S) E.full + surplus up ((missing W T).map E.full)

/-- allocation `W` satisfies notion `(k, up)` for the voters `V`: the textbook statement -/
def Satisfies (E : Setting) (V : List Voter) (card : Bool) (k : Kind) (up : UpTo) (W : List Pid) : Prop :=
  ∀ S, S <+ V → ∀ T, T <+ E.projects → AdmP E card k S T → GoodP E card k up W S T

theorem largeEnough_iff (E : Setting) (S : List Voter) (T : List Pid) : largeEnough E S.length T = true ↔ Large E S T := by
  unfold largeEnough Large
  rw [decide_eq_true_eq]

theorem isEmpty_false_iff {α : Type} (l : List α) : (!l.isEmpty) = true ↔ l ≠ [] := by
  cases l <;> simp

theorem unanimous_iff (S : List Voter) (T : List Pid) : unanimous S T = true ↔ ∀ v ∈ S, ∀ p ∈ T, v.app p = true := by
  unfold unanimous
  simp only [List.all_eq_true]

theorem adm_iff (E : Setting) (card : Bool) (k : Kind) (S : List Voter) (T : List Pid) :
    adm E card k S.length S T = true ↔ AdmP E card k S T := by
  cases k <;>
    simp only [adm, AdmP, Bool.and_eq_true, Bool.or_eq_true, largeEnough_iff, isEmpty_false_iff, unanimous_iff, and_assoc]

theorem voterOk_iff (card : Bool) (k : Kind) (up : UpTo) (W : List Pid) (S : List Voter) (T : List Pid) (v : Voter) :
    voterOk card k up W S T v = true ↔ VoterOkP card k up W S T v := by
  unfold voterOk VoterOkP
  rw [decide_eq_true_eq]

theorem good_iff (E : Setting) (card : Bool) (k : Kind) (up : UpTo) (W : List Pid) (S : List Voter) (T : List Pid) :
    good E card k up W S T = true ↔ GoodP E card k up W S T := by
  cases k with
  | core =>
    show S.any (voterOk card .core up W S T) = true ↔ ∃ v ∈ S, VoterOkP card .core up W S T v
    simp only [List.any_eq_true, voterOk_iff]
  | ejr =>
    show S.any (voterOk card .ejr up W S T) = true ↔ ∃ v ∈ S, VoterOkP card .ejr up W S T v
    simp only [List.any_eq_true, voterOk_iff]
  | strong =>
    show S.all (voterOk card .strong .none W S T) = true ↔ ∀ v ∈ S, VoterOkP card .strong .none W S T v
    simp only [List.all_eq_true, voterOk_iff]
  | pjr =>
    unfold good GoodP
    cases card <;> simp

/-- the executable `definition` decides `Satisfies` on the expanded voter list -/
theorem definition_iff (E : Setting) (M : List (Voter × Nat)) (card : Bool) (k : Kind) (up : UpTo) (W : List Pid) :
    definition E M card k up W = true ↔ Satisfies E (expand M) card k up W := by
  unfold definition Satisfies
  rw [forVoters_iff]
  constructor
  · intro h S hS T hT ha
    exact (good_iff E card k up W S T).mp (h S hS T hT ((adm_iff E card k S T).mpr ha))
  · intro h S hS T hT ha
    exact (good_iff E card k up W S T).mpr (h S hS T hT ((adm_iff E card k S T).mp ha))

/-- the library's checker decides the definition -/
theorem checker_iff_satisfies (E : Setting) (M : List (Voter × Nat)) (card : Bool) (k : Kind) (up : UpTo) (W : List Pid)
    (hB : 0 ≤ E.budget) (hpos : ∀ e ∈ M, 1 ≤ e.2) :
    checker E M card k up W = true ↔ Satisfies E (expand M) card k up W := by
  rw [checker_eq_definition E M card k up W hB hpos]
  exact definition_iff E M card k up W

end Pabu.JR

namespace Pabu.JR
open Pabu List

/-! ### the surplus term -/

theorem surplus_any_le_one (l : List Rat) : surplus .any l ≤ surplus .one l := by
  unfold surplus
  by_cases hl : l = []
  · subst hl; simp [minRat, maxRat]
  · obtain ⟨m, hm, hmem, hle⟩ := minRat_spec l hl
    obtain ⟨m', hm', hmem', hle'⟩ := maxRat_spec l hl
    simp only [hm, hm', Option.getD_some]
    exact hle' m hmem

theorem surplus_none_le_any (l : List Rat) (hnn : ∀ x ∈ l, 0 ≤ x) : surplus .none l ≤ surplus .any l := by
  unfold surplus
  by_cases hl : l = []
  · subst hl; simp [minRat]
  · obtain ⟨m, hm, hmem, hle⟩ := minRat_spec l hl
    simp only [hm, Option.getD_some]
    exact hnn m hmem

theorem surplus_map_mono (up : UpTo) (l : List Pid) (f g : Pid → Rat) (h : ∀ p ∈ l, f p ≤ g p) :
    surplus up (l.map f) ≤ surplus up (l.map g) := by
  by_cases hl : l = []
  · subst hl; exact le_refl _
  · have hf : l.map f ≠ [] := by simpa using hl
    have hg : l.map g ≠ [] := by simpa using hl
    cases up with
    | none => exact le_refl _
    | any =>
      unfold surplus
      obtain ⟨m, hm, hmem, hle⟩ := minRat_spec _ hf
      obtain ⟨m', hm', hmem', hle'⟩ := minRat_spec _ hg
      simp only [hm, hm', Option.getD_some]
      obtain ⟨p, hp, rfl⟩ := List.mem_map.mp hmem'
      exact le_trans (hle (f p) (List.mem_map.mpr ⟨p, hp, rfl⟩)) (h p hp)
    | one =>
      unfold surplus
      obtain ⟨m, hm, hmem, hle⟩ := maxRat_spec _ hf
      obtain ⟨m', hm', hmem', hle'⟩ := maxRat_spec _ hg
      simp only [hm, hm', Option.getD_some]
      obtain ⟨p, hp, rfl⟩ := List.mem_map.mp hmem
      exact le_trans (h p hp) (hle' (g p) (List.mem_map.mpr ⟨p, hp, rfl⟩))

theorem minOver_le (S : List Voter) (v : Voter) (hv : v ∈ S) (p : Pid) : minOver S p ≤ v.u p := by
  unfold minOver
  have hne : S.map (fun v => v.u p) ≠ [] := by
    intro h; rw [List.map_eq_nil_iff] at h; rw [h] at hv; simp at hv
  obtain ⟨m, hm, _, hle⟩ := minRat_spec _ hne
  rw [hm]
  exact hle _ (List.mem_map.mpr ⟨v, hv, rfl⟩)

theorem le_maxOver (S : List Voter) (v : Voter) (hv : v ∈ S) (p : Pid) : v.u p ≤ maxOver S p := by
  unfold maxOver
  have hne : S.map (fun v => v.u p) ≠ [] := by
    intro h; rw [List.map_eq_nil_iff] at h; rw [h] at hv; simp at hv
  obtain ⟨m, hm, _, hle⟩ := maxRat_spec _ hne
  rw [hm]
  exact hle _ (List.mem_map.mpr ⟨v, hv, rfl⟩)

theorem maxOver_nonneg (S : List Voter) (p : Pid) (h : ∀ v ∈ S, 0 ≤ v.u p) : 0 ≤ maxOver S p := by
  cases S with
  | nil => simp [maxOver, maxRat]
  | cons v r => exact le_trans (h v (by simp)) (le_maxOver (v :: r) v (by simp) p)

/-- a notion only gets weaker when the surplus term grows -/
theorem goodP_mono (E : Setting) (card : Bool) (k : Kind) (up up' : UpTo) (W : List Pid) (S : List Voter) (T : List Pid)
    (h1 : ∀ v ∈ S, surplus up ((missing W T).map v.u) ≤ surplus up' ((missing W T).map v.u))
    (h2 : surplus up ((missing W T).map (maxOver S)) ≤ surplus up' ((missing W T).map (maxOver S)))
    (h3 : surplus up ((missing W T).map E.full) ≤ surplus up' ((missing W T).map E.full))
    (hg : GoodP E card k up W S T) : GoodP E card k up' W S T := by
  cases k with
  | core =>
    obtain ⟨v, hv, h⟩ := hg
    refine ⟨v, hv, ?_⟩
    unfold VoterOkP at h ⊢
    have := h1 v hv
    linarith
  | ejr =>
    obtain ⟨v, hv, h⟩ := hg
    refine ⟨v, hv, ?_⟩
    unfold VoterOkP at h ⊢
    have := h1 v hv
    linarith
  | strong => exact hg
  | pjr =>
    unfold GoodP at hg ⊢
    simp only at hg ⊢
    by_cases hc : card = true
    · rw [if_pos hc] at hg ⊢; linarith
    · rw [if_neg hc] at hg ⊢; linarith

end Pabu.JR

namespace Pabu.JR
open Pabu List

theorem sumOver_cons {α : Type} (a : α) (l : List α) (f : α → Rat) : sumOver (a :: l) f = f a + sumOver l f := rfl

theorem goodP_pjr_app (E : Setting) (up : UpTo) (W : List Pid) (S : List Voter) (T : List Pid) :
    GoodP E false .pjr up W S T ↔
      sumOver T E.full ≤ sumOver (groupApproved W S) E.full + surplus up ((missing W T).map E.full) := by
  unfold GoodP; simp

theorem goodP_pjr_card (E : Setting) (up : UpTo) (W : List Pid) (S : List Voter) (T : List Pid) :
    GoodP E true .pjr up W S T ↔
      sumOver T (minOver S) ≤ sumOver W (maxOver S) + surplus up ((missing W T).map (maxOver S)) := by
  unfold GoodP; simp

/-- what one member gets from `W` is at most the value of the part of `W` the group approves -/
theorem satV_le_groupApproved (full : Pid → Rat) (hfull : ∀ p, 0 ≤ full p) (S : List Voter) (v : Voter) (hv : v ∈ S)
    (hu : ∀ p, v.u p = if v.app p = true then full p else 0) (W : List Pid) :
    satV v W ≤ sumOver (groupApproved W S) full := by
  unfold satV groupApproved
  induction W with
  | nil => exact le_refl _
  | cons p W ih =>
    rw [sumOver_cons]
    by_cases hp : v.app p = true
    · have hany : S.any (fun w => w.app p) = true := List.any_eq_true.mpr ⟨v, hv, hp⟩
      rw [List.filter_cons_of_pos (by simpa using hany), sumOver_cons, hu p, if_pos hp]
      linarith
    · have h0 : v.u p = 0 := by rw [hu p, if_neg hp]
      by_cases hany : S.any (fun w => w.app p) = true
      · rw [List.filter_cons_of_pos (by simpa using hany), sumOver_cons, h0]
        have := hfull p
        linarith
      · rw [List.filter_cons_of_neg (by simpa using hany), h0]
        linarith

end Pabu.JR

namespace Pabu.JR
open Pabu List

theorem le_minOver (S : List Voter) (hS : S ≠ []) (p : Pid) (a : Rat) (h : ∀ v ∈ S, a ≤ v.u p) : a ≤ minOver S p := by
  unfold minOver
  have hne : S.map (fun v => v.u p) ≠ [] := by simpa using hS
  obtain ⟨m, hm, hmem, _⟩ := minRat_spec _ hne
  rw [hm]
  obtain ⟨v, hv, rfl⟩ := List.mem_map.mp hmem
  exact h v hv

end Pabu.JR
