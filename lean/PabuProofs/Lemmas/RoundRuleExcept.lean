/-
  The `Except`-valued runs of a round-based rule (`RoundRule.run`, `RoundRule.runAll`, what the
  driver executes) versus the pure ones (`runP`, `runAllP`, what most theorems are about):
  * invariants lift to the outcomes of the `Except`-valued runs directly (any order function,
    including one that fails);
  * when the order function never fails, the runs coincide.
-/
import PabuModel.RoundRule
import PabuProofs.Lemmas.RoundRule
import Mathlib.Data.List.Basic
namespace Pabu
variable {σ : Type}

/-! ### The accumulating fold of `runAll` -/

/-- the loop body of `RoundRule.runAll` -/
def accStep {α β : Type} (f : α → Except Err (List β)) (acc : List β) (t : α) : Except Err (List β) := do
  let r ← f t
  pure (acc ++ r)

theorem accStep_ok {α β : Type} (f : α → Except Err (List β)) (acc : List β) (t : α) (r : List β)
    (h : f t = .ok r) : accStep f acc t = .ok (acc ++ r) := by
  unfold accStep; rw [h]; rfl

theorem accStep_error {α β : Type} (f : α → Except Err (List β)) (acc : List β) (t : α) (e : Err)
    (h : f t = .error e) : accStep f acc t = .error e := by
  unfold accStep; rw [h]; rfl

theorem foldlM_cons_ok {α β : Type} (g : List β → α → Except Err (List β)) (t : α) (ts : List α)
    (acc acc' : List β) (h : g acc t = .ok acc') :
    (t :: ts).foldlM g acc = ts.foldlM g acc' := by
  rw [List.foldlM_cons, h]; rfl

theorem foldlM_cons_error {α β : Type} (g : List β → α → Except Err (List β)) (t : α) (ts : List α)
    (acc : List β) (e : Err) (h : g acc t = .error e) :
    (t :: ts).foldlM g acc = .error e := by
  rw [List.foldlM_cons, h]; rfl

/-- if every branch succeeds, the fold returns the concatenation of the branches -/
theorem foldlM_acc_ok {α β : Type} (f : α → Except Err (List β)) (g : α → List β) :
    ∀ (ts : List α) (acc : List β), (∀ t ∈ ts, f t = .ok (g t)) →
      ts.foldlM (accStep f) acc = .ok (acc ++ ts.flatMap g)
  | [], acc, _ => by simp [List.foldlM_nil]; rfl
  | t :: ts, acc, h => by
    rw [foldlM_cons_ok _ t ts acc _ (accStep_ok f acc t _ (h t (by simp)))]
    rw [foldlM_acc_ok f g ts _ (fun x hx => h x (by simp [hx]))]
    simp

/-- if the fold succeeds, every element of the result comes from the accumulator or a branch -/
theorem foldlM_acc_mem {α β : Type} (f : α → Except Err (List β)) :
    ∀ (ts : List α) (acc L : List β), ts.foldlM (accStep f) acc = .ok L →
      ∀ W ∈ L, W ∈ acc ∨ ∃ t ∈ ts, ∃ r, f t = .ok r ∧ W ∈ r
  | [], acc, L, h, W, hW => by
    have : acc = L := by
      have h' : (Except.ok acc : Except Err (List β)) = .ok L := h
      cases h'; rfl
    subst this; exact Or.inl hW
  | t :: ts, acc, L, h, W, hW => by
    cases hf : f t with
    | error e =>
      rw [foldlM_cons_error _ t ts acc e (accStep_error f acc t e hf)] at h
      cases h
    | ok r =>
      rw [foldlM_cons_ok _ t ts acc _ (accStep_ok f acc t r hf)] at h
      rcases foldlM_acc_mem f ts _ L h W hW with h1 | ⟨t', ht', r', hr', hW'⟩
      · rcases List.mem_append.mp h1 with h2 | h2
        · exact Or.inl h2
        · exact Or.inr ⟨t, by simp, r, hf, h2⟩
      · exact Or.inr ⟨t', by simp [ht'], r', hr', hW'⟩

theorem runAll_succ (R : RoundRule σ) (order : List Pid → Except Err (List Pid)) (n : Nat) (s : σ) :
    R.runAll order (n + 1) s =
      if R.tied s = [] then .ok [R.out s]
      else match order (R.tied s) with
        | .error e => .error e
        | .ok ts => ts.foldlM (accStep (fun t => R.runAll order n (R.buy s t))) [] := by
  rw [RoundRule.runAll]; rfl

/-! ### Invariants lift to the outcomes of the `Except`-valued runs -/

theorem RoundRule.run_inv (R : RoundRule σ) (order : List Pid → Except Err (List Pid))
    (Inv : σ → Prop)
    (hord : ∀ T l, order T = .ok l → ∀ x ∈ l, x ∈ T)
    (hbuy : ∀ s t, Inv s → t ∈ R.tied s → Inv (R.buy s t)) :
    ∀ n s W, Inv s → R.run order n s = .ok W → ∃ s', Inv s' ∧ W = R.out s' := by
  intro n
  induction n with
  | zero =>
    intro s W hs h
    unfold RoundRule.run at h
    cases h; exact ⟨s, hs, rfl⟩
  | succ n ih =>
    intro s W hs h
    unfold RoundRule.run at h
    by_cases hT : R.tied s = []
    · rw [if_pos hT] at h; cases h; exact ⟨s, hs, rfl⟩
    · rw [if_neg hT] at h
      cases ho : order (R.tied s) with
      | error e => rw [ho] at h; cases h
      | ok l =>
        rw [ho] at h
        cases l with
        | nil => cases h; exact ⟨s, hs, rfl⟩
        | cons t r =>
          have ht : t ∈ R.tied s := hord _ _ ho t (by simp)
          exact ih _ W (hbuy s t hs ht) h

theorem RoundRule.runAll_inv (R : RoundRule σ) (order : List Pid → Except Err (List Pid))
    (Inv : σ → Prop)
    (hord : ∀ T l, order T = .ok l → ∀ x ∈ l, x ∈ T)
    (hbuy : ∀ s t, Inv s → t ∈ R.tied s → Inv (R.buy s t)) :
    ∀ n s L, Inv s → R.runAll order n s = .ok L → ∀ W ∈ L, ∃ s', Inv s' ∧ W = R.out s' := by
  intro n
  induction n with
  | zero =>
    intro s L hs h W hW
    unfold RoundRule.runAll at h
    cases h
    have : W = R.out s := by simpa using hW
    exact ⟨s, hs, this⟩
  | succ n ih =>
    intro s L hs h W hW
    rw [runAll_succ] at h
    by_cases hT : R.tied s = []
    · rw [if_pos hT] at h; cases h
      have : W = R.out s := by simpa using hW
      exact ⟨s, hs, this⟩
    · rw [if_neg hT] at h
      cases ho : order (R.tied s) with
      | error e => rw [ho] at h; cases h
      | ok ts =>
        rw [ho] at h
        rcases foldlM_acc_mem _ ts [] L h W hW with h1 | ⟨t, ht, r, hr, hWr⟩
        · simp at h1
        · exact ih _ r (hbuy s t hs (hord _ _ ho t ht)) hr W hWr

/-! ### Order functions that never fail -/

/-- (7a) with a total order function the resolute `Except` run is the pure run.
    `ord [] = []` is needed because `run` stops on an empty tied set before consulting the order. -/
theorem RoundRule.run_eq_runP (R : RoundRule σ) (ord : List Pid → List Pid) (h0 : ord [] = []) :
    ∀ n s, R.run (fun l => .ok (ord l)) n s = .ok (R.runP ord n s) := by
  intro n
  induction n with
  | zero => intro s; rfl
  | succ n ih =>
    intro s
    unfold RoundRule.run RoundRule.runP
    by_cases hT : R.tied s = []
    · rw [if_pos hT, hT, h0]
    · rw [if_neg hT]
      cases ho : ord (R.tied s) with
      | nil => rfl
      | cons t r => exact ih _

/-- pure irresolute run branching over `ord (tied s)` (order and repeats of `ord` are kept) -/
def RoundRule.runAllO (R : RoundRule σ) (ord : List Pid → List Pid) : Nat → σ → List (List Pid)
  | 0, s => [R.out s]
  | n + 1, s =>
    if R.tied s = [] then [R.out s]
    else (ord (R.tied s)).flatMap (fun t => R.runAllO ord n (R.buy s t))

/-- (7b) with a total order function the irresolute `Except` run never fails and is the pure
    run that branches over the ordered tied set -/
theorem RoundRule.runAll_eq_runAllO (R : RoundRule σ) (ord : List Pid → List Pid) :
    ∀ n s, R.runAll (fun l => .ok (ord l)) n s = .ok (R.runAllO ord n s) := by
  intro n
  induction n with
  | zero => intro s; rfl
  | succ n ih =>
    intro s
    rw [runAll_succ]
    unfold RoundRule.runAllO
    by_cases hT : R.tied s = []
    · rw [if_pos hT, if_pos hT]
    · rw [if_neg hT, if_neg hT]
      simp only
      rw [foldlM_acc_ok _ (fun t => R.runAllO ord n (R.buy s t)) _ _ (fun t _ => ih _)]
      simp

/-- (7c) … and it has the same outcomes as `runAllP` when `ord T` has the same elements as `T` -/
theorem RoundRule.mem_runAllO_iff (R : RoundRule σ) (ord : List Pid → List Pid)
    (hord : ∀ T x, x ∈ ord T ↔ x ∈ T) :
    ∀ n s W, W ∈ R.runAllO ord n s ↔ W ∈ R.runAllP n s := by
  intro n
  induction n with
  | zero => intro s W; rfl
  | succ n ih =>
    intro s W
    unfold RoundRule.runAllO RoundRule.runAllP
    by_cases hT : R.tied s = []
    · rw [if_pos hT, if_pos hT]
    · rw [if_neg hT, if_neg hT]
      simp only [List.mem_flatMap]
      constructor
      · rintro ⟨t, ht, hW⟩; exact ⟨t, (hord _ t).mp ht, (ih _ W).mp hW⟩
      · rintro ⟨t, ht, hW⟩; exact ⟨t, (hord _ t).mpr ht, (ih _ W).mpr hW⟩

theorem RoundRule.runAll_mem_iff (R : RoundRule σ) (ord : List Pid → List Pid)
    (hord : ∀ T, (ord T).Perm T) (n : Nat) (s : σ) :
    ∃ L, R.runAll (fun l => .ok (ord l)) n s = .ok L ∧ ∀ W, W ∈ L ↔ W ∈ R.runAllP n s :=
  ⟨_, R.runAll_eq_runAllO ord n s, R.mem_runAllO_iff ord (fun T _ => (hord T).mem_iff) n s⟩

end Pabu
