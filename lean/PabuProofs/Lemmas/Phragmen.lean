/-
  Lemmas about the sequential-Phragmén model (PabuModel.Phragmen):
  well-formedness of the round rule, the state invariant, validity of every outcome,
  the purchase instant (`newMax`) as the moment the supporters' balances add up to the cost,
  the argmin and the stop rule.
-/
import PabuModel.Phragmen
import PabuProofs.Lemmas.Greedy
import Mathlib.Tactic.FieldSimp
namespace Pabu
namespace Phragmen
open GreedyAux

/-! ### P1: well-formed round rule -/

theorem argmin_sub_pool (C : Ctx) (s : State) : ∀ x ∈ argmin C s, x ∈ s.pool := by
  intro x hx
  unfold argmin at hx
  exact (List.mem_filter.mp hx).1

/-- a tied project is a minimiser, and no minimiser overshoots the budget -/
theorem tied_sub_argmin (C : Ctx) (s : State) (t : Pid) (ht : t ∈ tied C s) :
    t ∈ argmin C s ∧ ∀ q ∈ argmin C s, s.spent + C.cost q ≤ C.budget := by
  unfold tied at ht
  by_cases h : (argmin C s).any (fun p => decide (C.budget < s.spent + C.cost p)) = true
  · rw [if_pos h] at ht; simp at ht
  · rw [if_neg h] at ht
    refine ⟨ht, ?_⟩
    intro q hq
    by_contra hc
    apply h
    rw [List.any_eq_true]
    exact ⟨q, hq, by simpa using lt_of_not_ge hc⟩

theorem tied_sub_pool (C : Ctx) (s : State) : ∀ x ∈ tied C s, x ∈ s.pool :=
  fun x hx => argmin_sub_pool C s x (tied_sub_argmin C s x hx).1

theorem rule_WF (C : Ctx) : (rule C).WF where
  tied_sub := fun s x hx => tied_sub_pool C s x hx
  pool_buy := by
    intro s t _ x hx
    change x ∈ (buy C s t).pool at hx
    unfold buy at hx
    have h := List.mem_filter.mp hx
    exact ⟨h.1, by simpa using h.2⟩

theorem buy_pool_lt (C : Ctx) (s : State) (t : Pid) (ht : t ∈ tied C s) :
    (buy C s t).pool.length < s.pool.length := by
  unfold buy
  apply List.length_filter_lt_length_iff_exists.mpr
  exact ⟨t, tied_sub_pool C s t ht, by simp⟩

/-! ### P2: the state invariant (no sign condition on costs is needed: the stop rule looks at the budget) -/

structure Inv (C : Ctx) (projects init : List Pid) (s : State) : Prop where
  spent_eq : s.spent = costOf C.cost s.alloc
  nodup : s.alloc.Nodup
  sub : ∀ p ∈ s.alloc, p ∈ projects
  init_sub : ∀ p ∈ init, p ∈ s.alloc
  spent_le : s.spent ≤ C.budget
  pool_sound : ∀ p ∈ s.pool, p ∈ projects ∧ p ∉ s.alloc

theorem inv_init (C : Ctx) (projects init : List Pid) (loads : Nat → Rat) (hinit : init.Nodup)
    (hsub : ∀ p ∈ init, p ∈ projects) (hcost : costOf C.cost init ≤ C.budget) :
    Inv C projects init (initState C projects init loads) where
  spent_eq := rfl
  nodup := hinit
  sub := hsub
  init_sub := fun _ h => h
  spent_le := hcost
  pool_sound := by
    intro p hp
    unfold initState at hp
    have h := List.mem_filter.mp hp
    have h2 := h.2
    simp only [Bool.and_eq_true, Bool.not_eq_true', decide_eq_true_eq] at h2
    refine ⟨(mem_sortIds _ _).mp h.1, ?_⟩
    intro hmem
    have : init.contains p = true := List.contains_iff_mem.mpr hmem
    rw [this] at h2
    exact Bool.noConfusion h2.1

theorem inv_buy (C : Ctx) (projects init : List Pid) (s : State) (t : Pid)
    (hs : Inv C projects init s) (ht : t ∈ tied C s) : Inv C projects init (buy C s t) := by
  obtain ⟨hta, hfit⟩ := tied_sub_argmin C s t ht
  have htfit := hfit t hta
  obtain ⟨htP, htA⟩ := hs.pool_sound t (argmin_sub_pool C s t hta)
  constructor
  · change s.spent + C.cost t = costOf C.cost (s.alloc ++ [t])
    rw [costOf_snoc, hs.spent_eq]
  · change (s.alloc ++ [t]).Nodup
    rw [List.nodup_append]
    refine ⟨hs.nodup, by simp, ?_⟩
    intro a ha b hb
    have : b = t := by simpa using hb
    rw [this]
    intro hat
    exact htA (hat ▸ ha)
  · intro p hp
    change p ∈ s.alloc ++ [t] at hp
    rcases List.mem_append.mp hp with h | h
    · exact hs.sub p h
    · have : p = t := by simpa using h
      rw [this]; exact htP
  · intro p hp
    change p ∈ s.alloc ++ [t]
    exact List.mem_append.mpr (Or.inl (hs.init_sub p hp))
  · exact htfit
  · intro p hp
    change p ∈ s.pool.filter _ at hp
    have h := List.mem_filter.mp hp
    have hpt : p ≠ t := by simpa using h.2
    obtain ⟨hpP, hpA⟩ := hs.pool_sound p h.1
    refine ⟨hpP, ?_⟩
    change p ∉ s.alloc ++ [t]
    intro hm
    rcases List.mem_append.mp hm with h' | h'
    · exact hpA h'
    · exact hpt (by simpa using h')

/-! ### P3: every outcome is valid -/

/-- the instance a Phragmén context and project list stand for -/
def instOf (C : Ctx) (projects : List Pid) : Inst := ⟨projects, C.cost, C.budget⟩

theorem inv_valid {C : Ctx} {projects init : List Pid} {s : State} (h : Inv C projects init s) :
    ValidOutcome (instOf C projects) init s.alloc :=
  ⟨h.nodup, h.sub, h.init_sub, by
    change costOf C.cost s.alloc ≤ C.budget
    rw [← h.spent_eq]; exact h.spent_le⟩

theorem terminal_valid {C : Ctx} {projects init W : List Pid}
    (h : ∃ s', Inv C projects init s' ∧ (rule C).tied s' = [] ∧ W = (rule C).out s') :
    ValidOutcome (instOf C projects) init W := by
  obtain ⟨s', hs', _, hW⟩ := h
  rw [hW]; exact inv_valid hs'

/-- pure resolute run, any fuel -/
theorem runP_valid (C : Ctx) (projects init : List Pid) (loads : Nat → Rat) (hinit : init.Nodup)
    (hsub : ∀ p ∈ init, p ∈ projects) (hcost : costOf C.cost init ≤ C.budget)
    (ord : List Pid → List Pid) (hord : ∀ T, ∀ x ∈ ord T, x ∈ T) (n : Nat) :
    ValidOutcome (instOf C projects) init ((rule C).runP ord n (initState C projects init loads)) := by
  obtain ⟨s', hs', hW⟩ := RoundRule.runP_inv (rule C) ord (Inv C projects init) hord
    (fun s t hs ht => inv_buy C projects init s t hs ht) n _ (inv_init C projects init loads hinit hsub hcost)
  rw [hW]; exact inv_valid hs'

/-- pure irresolute run, any fuel -/
theorem runAllP_valid (C : Ctx) (projects init : List Pid) (loads : Nat → Rat) (hinit : init.Nodup)
    (hsub : ∀ p ∈ init, p ∈ projects) (hcost : costOf C.cost init ≤ C.budget) (n : Nat) :
    ∀ W ∈ (rule C).runAllP n (initState C projects init loads), ValidOutcome (instOf C projects) init W := by
  intro W hW
  obtain ⟨s', hs', hW'⟩ := RoundRule.runAllP_inv (rule C) (Inv C projects init)
    (fun s t hs ht => inv_buy C projects init s t hs ht) n _ (inv_init C projects init loads hinit hsub hcost) W hW
  rw [hW']; exact inv_valid hs'

/-- the executable resolute run -/
theorem run_valid (C : Ctx) (projects init : List Pid) (loads : Nat → Rat) (hinit : init.Nodup)
    (hsub : ∀ p ∈ init, p ∈ projects) (hcost : costOf C.cost init ≤ C.budget)
    (order : List Pid → Except Err (List Pid))
    (hord : ∀ T l, order T = .ok l → (∀ x ∈ l, x ∈ T) ∧ (T ≠ [] → l ≠ []))
    (W : List Pid) (h : run C projects init loads order = .ok W) :
    ValidOutcome (instOf C projects) init W :=
  terminal_valid
    (run_inv_term (rule C) (rule_WF C) order (Inv C projects init) hord
      (fun s t hs ht => inv_buy C projects init s t hs ht)
      (fun s t _ ht => buy_pool_lt C s t ht)
      _ _ W (inv_init C projects init loads hinit hsub hcost) (le_refl _) h)

/-- the executable irresolute run (name-sorted, de-duplicated outcomes) -/
theorem runAll_valid (C : Ctx) (projects init : List Pid) (loads : Nat → Rat) (hinit : init.Nodup)
    (hsub : ∀ p ∈ init, p ∈ projects) (hcost : costOf C.cost init ≤ C.budget)
    (order : List Pid → Except Err (List Pid))
    (hord : ∀ T l, order T = .ok l → (∀ x ∈ l, x ∈ T))
    (Ws : List (List Pid)) (h : runAll C projects init loads order = .ok Ws) :
    ∀ W ∈ Ws, ValidOutcome (instOf C projects) init W := by
  intro W hW
  unfold runAll at h
  cases hr : (rule C).runAll order (initState C projects init loads).pool.length (initState C projects init loads) with
  | error e => rw [hr] at h; simp [Except.map] at h
  | ok ls =>
    rw [hr] at h
    simp only [Except.map] at h
    rw [← Except.ok.inj h] at hW
    obtain ⟨W', hW', hWs⟩ := mem_canonOutcomes ls W hW
    have := terminal_valid
      (runAll_inv_term (rule C) (rule_WF C) order (Inv C projects init) hord
        (fun s t hs ht => inv_buy C projects init s t hs ht)
        (fun s t _ ht => buy_pool_lt C s t ht)
        _ _ ls (inv_init C projects init loads hinit hsub hcost) (le_refl _) hr W' hW')
    rw [hWs]
    exact this.perm (sortLe_perm _ W')

/-! ### P4: the purchase instant -/

theorem sumNat_cast {α : Type} (l : List α) (f : α → Nat) :
    ((sumNat l f : Nat) : Rat) = sumOver l (fun i => (f i : Rat)) := by
  induction l with
  | nil => simp [sumNat, sumOver]
  | cons x xs ih => simp only [sumNat, sumOver, Nat.cast_add, ih]

theorem sumOver_mul_sub {α : Type} (l : List α) (a b : α → Rat) (x : Rat) :
    sumOver l (fun i => a i * (x - b i)) = x * sumOver l a - sumOver l (fun i => a i * b i) := by
  induction l with
  | nil => simp [sumOver]
  | cons y ys ih => simp only [sumOver, ih]; ring

/-- `newMax p = x` iff `p` has a supporter and `x · score = Σ mᵢ·loadᵢ + cost p` -/
theorem newMax_eq_some_iff (C : Ctx) (s : State) (p : Pid) (x : Rat) :
    newMax C s p = some x ↔
      score C p ≠ 0 ∧
      x * ((score C p : Nat) : Rat) = sumOver (supporters C p) (fun i => (C.m i : Rat) * s.load i) + C.cost p := by
  unfold newMax
  by_cases h : score C p = 0
  · rw [if_pos h]
    constructor
    · intro h'; simp at h'
    · intro h'; exact absurd h h'.1
  · rw [if_neg h]
    have hne : ((score C p : Nat) : Rat) ≠ 0 := Nat.cast_ne_zero.mpr h
    constructor
    · intro h'
      refine ⟨h, ?_⟩
      rw [← Option.some.inj h']
      field_simp
    · intro h'
      rw [← h'.2]
      congr 1
      field_simp

/-- the money process: at time `x` every supporter `i` holds `x − loadᵢ` (counted `mᵢ` times);
    `newMax p = x` iff `p` has a supporter and these balances add up to exactly the cost of `p` -/
theorem newMax_eq_some_iff_balances (C : Ctx) (s : State) (p : Pid) (x : Rat) :
    newMax C s p = some x ↔
      score C p ≠ 0 ∧ sumOver (supporters C p) (fun i => (C.m i : Rat) * (x - s.load i)) = C.cost p := by
  rw [newMax_eq_some_iff, sumOver_mul_sub]
  have : ((score C p : Nat) : Rat) = sumOver (supporters C p) (fun i => (C.m i : Rat)) := by
    unfold score; exact sumNat_cast _ _
  rw [this]
  constructor
  · intro ⟨h1, h2⟩; exact ⟨h1, by linarith⟩
  · intro ⟨h1, h2⟩; exact ⟨h1, by linarith⟩

theorem newMax_eq_none_iff (C : Ctx) (s : State) (p : Pid) : newMax C s p = none ↔ score C p = 0 := by
  unfold newMax
  by_cases h : score C p = 0
  · rw [if_pos h]; simp [h]
  · rw [if_neg h]; simp [h]

/-- after the purchase every supporter's load is the purchase instant (their balance is reset to 0) … -/
theorem buy_load_supporter (C : Ctx) (s : State) (t : Pid) (x : Rat) (hx : newMax C s t = some x)
    (i : Nat) (hi : C.app i t = true) : (buy C s t).load i = x := by
  change (if C.app i t then (match newMax C s t with | some x => x | none => s.load i) else s.load i) = x
  rw [if_pos hi, hx]

/-- … and nobody else's load changes -/
theorem buy_load_other (C : Ctx) (s : State) (t : Pid) (i : Nat) (hi : C.app i t = false) :
    (buy C s t).load i = s.load i := by
  change (if C.app i t then (match newMax C s t with | some x => x | none => s.load i) else s.load i) = s.load i
  rw [hi]; rfl

/-- buying an unsupported project changes no load -/
theorem buy_load_unsupported (C : Ctx) (s : State) (t : Pid) (hx : newMax C s t = none) (i : Nat) :
    (buy C s t).load i = s.load i := by
  change (if C.app i t then (match newMax C s t with | some x => x | none => s.load i) else s.load i) = s.load i
  rw [hx]
  by_cases hi : C.app i t = true
  · rw [if_pos hi]
  · rw [if_neg hi]

theorem buy_alloc (C : Ctx) (s : State) (t : Pid) : (buy C s t).alloc = s.alloc ++ [t] := rfl
theorem buy_spent (C : Ctx) (s : State) (t : Pid) : (buy C s t).spent = s.spent + C.cost t := rfl
theorem buy_pool (C : Ctx) (s : State) (t : Pid) : (buy C s t).pool = s.pool.filter (fun q => q != t) := rfl

/-! ### The argmin and the stop rule -/

theorem emin_cons_cons (x y : ERat) (l : List ERat) :
    emin (x :: y :: l) = if ERat.le x (emin (y :: l)) then x else emin (y :: l) := rfl

theorem emin_mem : ∀ l : List ERat, l ≠ [] → emin l ∈ l := by
  intro l
  induction l with
  | nil => intro h; exact absurd rfl h
  | cons x xs ih =>
    intro _
    cases xs with
    | nil => simp [emin]
    | cons y l =>
      rw [emin_cons_cons]
      by_cases h : ERat.le x (emin (y :: l)) = true
      · rw [if_pos h]; simp
      · rw [if_neg h]
        exact List.mem_cons_of_mem _ (ih (by simp))

theorem emin_le : ∀ l : List ERat, ∀ a ∈ l, ERat.le (emin l) a = true := by
  intro l
  induction l with
  | nil => intro a ha; simp at ha
  | cons x xs ih =>
    intro a ha
    cases xs with
    | nil =>
      have : a = x := by simpa using ha
      rw [this]; exact Greedy.ERat_le_refl x
    | cons y l =>
      rw [emin_cons_cons]
      by_cases h : ERat.le x (emin (y :: l)) = true
      · rw [if_pos h]
        rcases List.mem_cons.mp ha with rfl | ha'
        · exact Greedy.ERat_le_refl _
        · exact Greedy.ERat_le_trans h (ih a ha')
      · rw [if_neg h]
        rcases List.mem_cons.mp ha with rfl | ha'
        · rcases Greedy.ERat_le_total a (emin (y :: l)) with h' | h'
          · exact absurd h' h
          · exact h'
        · exact ih a ha'

/-- the minimisers: pool projects whose purchase instant is earliest -/
theorem mem_argmin_iff (C : Ctx) (s : State) (t : Pid) :
    t ∈ argmin C s ↔ t ∈ s.pool ∧ ∀ q ∈ s.pool, ERat.le (newMax C s t) (newMax C s q) = true := by
  constructor
  · intro ht
    unfold argmin at ht
    have h := List.mem_filter.mp ht
    refine ⟨h.1, ?_⟩
    intro q hq
    have he : newMax C s t = emin (s.pool.map (newMax C s)) := eq_of_beq h.2
    rw [he]
    exact emin_le _ _ (List.mem_map.mpr ⟨q, hq, rfl⟩)
  · intro ⟨htp, hmin⟩
    unfold argmin
    apply List.mem_filter.mpr
    refine ⟨htp, ?_⟩
    have hm : s.pool.map (newMax C s) ≠ [] := by
      intro h'
      rw [List.map_eq_nil_iff.mp h'] at htp
      simp at htp
    obtain ⟨p, hp, hpe⟩ := List.mem_map.mp (emin_mem _ hm)
    have h1 := hmin p hp
    rw [hpe] at h1
    have h2 : ERat.le (emin (s.pool.map (newMax C s))) (newMax C s t) = true :=
      emin_le _ _ (List.mem_map.mpr ⟨t, htp, rfl⟩)
    have : newMax C s t = emin (s.pool.map (newMax C s)) := Greedy.ERat_le_antisymm h1 h2
    rw [this]
    exact beq_self_eq_true _

theorem argmin_eq_nil_iff (C : Ctx) (s : State) : argmin C s = [] ↔ s.pool = [] := by
  constructor
  · intro h
    by_contra hne
    have hm : s.pool.map (newMax C s) ≠ [] := by
      intro h'; exact hne (List.map_eq_nil_iff.mp h')
    obtain ⟨p, hp, hpe⟩ := List.mem_map.mp (emin_mem _ hm)
    have : p ∈ argmin C s := by
      unfold argmin
      apply List.mem_filter.mpr
      exact ⟨hp, by rw [hpe]; exact beq_self_eq_true _⟩
    rw [h] at this
    simp at this
  · intro h
    unfold argmin
    rw [h]; rfl

/-- `t` may be bought now: its purchase instant is the earliest among the undecided projects,
    and none of the projects purchasable at that instant would exceed the budget -/
theorem mem_tied_iff (C : Ctx) (s : State) (t : Pid) :
    t ∈ tied C s ↔
      (t ∈ s.pool ∧ ∀ q ∈ s.pool, ERat.le (newMax C s t) (newMax C s q) = true) ∧
      ∀ q ∈ s.pool, (∀ r ∈ s.pool, ERat.le (newMax C s q) (newMax C s r) = true) →
        s.spent + C.cost q ≤ C.budget := by
  constructor
  · intro ht
    obtain ⟨h1, h2⟩ := tied_sub_argmin C s t ht
    refine ⟨(mem_argmin_iff C s t).mp h1, ?_⟩
    intro q hq hmin
    exact h2 q ((mem_argmin_iff C s q).mpr ⟨hq, hmin⟩)
  · intro ⟨h1, h2⟩
    unfold tied
    have : ¬ ((argmin C s).any (fun p => decide (C.budget < s.spent + C.cost p)) = true) := by
      intro h
      rw [List.any_eq_true] at h
      obtain ⟨q, hq, hov⟩ := h
      have hq' := (mem_argmin_iff C s q).mp hq
      have := h2 q hq'.1 hq'.2
      have hov' : C.budget < s.spent + C.cost q := by simpa using hov
      linarith
    rw [if_neg this]
    exact (mem_argmin_iff C s t).mpr h1

/-- the stop rule: the run ends when no project is left or some project purchasable at the next instant
    would exceed the budget -/
theorem tied_eq_nil_iff (C : Ctx) (s : State) :
    tied C s = [] ↔ s.pool = [] ∨
      ∃ q ∈ s.pool, (∀ r ∈ s.pool, ERat.le (newMax C s q) (newMax C s r) = true) ∧
        C.budget < s.spent + C.cost q := by
  unfold tied
  by_cases h : (argmin C s).any (fun p => decide (C.budget < s.spent + C.cost p)) = true
  · rw [if_pos h]
    simp only [true_iff]
    rw [List.any_eq_true] at h
    obtain ⟨q, hq, hov⟩ := h
    have hq' := (mem_argmin_iff C s q).mp hq
    exact Or.inr ⟨q, hq'.1, hq'.2, by simpa using hov⟩
  · rw [if_neg h, argmin_eq_nil_iff]
    constructor
    · intro h'; exact Or.inl h'
    · intro h'
      rcases h' with h' | ⟨q, hq, hmin, hov⟩
      · exact h'
      · exfalso
        apply h
        rw [List.any_eq_true]
        exact ⟨q, (mem_argmin_iff C s q).mpr ⟨hq, hmin⟩, by simpa using hov⟩

/-! ### The run refines the definition -/

/-- `q` is purchasable at the earliest instant among the undecided projects -/
def IsEarliest (C : Ctx) (s : State) (q : Pid) : Prop :=
  q ∈ s.pool ∧ ∀ r ∈ s.pool, ERat.le (newMax C s q) (newMax C s r) = true

/-- `t` may be bought next: it is purchasable at the earliest instant and no project purchasable at that
    instant would exceed the budget -/
def IsNext (C : Ctx) (s : State) (t : Pid) : Prop :=
  IsEarliest C s t ∧ ∀ q, IsEarliest C s q → s.spent + C.cost q ≤ C.budget

/-- the process stops: nothing is left, or a project purchasable at the next instant exceeds the budget -/
def Stops (C : Ctx) (s : State) : Prop :=
  s.pool = [] ∨ ∃ q, IsEarliest C s q ∧ C.budget < s.spent + C.cost q

theorem mem_tied_iff_isNext (C : Ctx) (s : State) (t : Pid) : t ∈ tied C s ↔ IsNext C s t := by
  rw [mem_tied_iff]
  unfold IsNext IsEarliest
  constructor
  · intro ⟨h1, h2⟩; exact ⟨h1, fun q hq => h2 q hq.1 hq.2⟩
  · intro ⟨h1, h2⟩; exact ⟨h1, fun q hq hmin => h2 q ⟨hq, hmin⟩⟩

theorem tied_eq_nil_iff_stops (C : Ctx) (s : State) : tied C s = [] ↔ Stops C s := by
  rw [tied_eq_nil_iff]
  unfold Stops IsEarliest
  constructor
  · intro h
    rcases h with h | ⟨q, h1, h2, h3⟩
    · exact Or.inl h
    · exact Or.inr ⟨q, ⟨h1, h2⟩, h3⟩
  · intro h
    rcases h with h | ⟨q, ⟨h1, h2⟩, h3⟩
    · exact Or.inl h
    · exact Or.inr ⟨q, h1, h2, h3⟩

/-- sequential Phragmén by its definition, with tie-breaking `order`; the state after a purchase is
    `buy C s t` (allocation, spending, pool: `buy_alloc`, `buy_spent`, `buy_pool`; loads:
    `buy_load_supporter`, `buy_load_other`) -/
inductive SpecRun (C : Ctx) (order : List Pid → Except Err (List Pid)) : State → List Pid → Prop
  | stop (s : State) : Stops C s → SpecRun C order s s.alloc
  | step (s : State) (T : List Pid) (t : Pid) (r W : List Pid) : (∀ x, x ∈ T ↔ IsNext C s x) →
      order T = .ok (t :: r) → SpecRun C order (buy C s t) W → SpecRun C order s W

/-- the irresolute definition: any project that may be bought next -/
inductive SpecRunAny (C : Ctx) : State → List Pid → Prop
  | stop (s : State) : Stops C s → SpecRunAny C s s.alloc
  | step (s : State) (t : Pid) (W : List Pid) : IsNext C s t → SpecRunAny C (buy C s t) W → SpecRunAny C s W

theorem pool_nil_stops (C : Ctx) (s : State) (h : s.pool = []) : Stops C s := Or.inl h

theorem run_refines_spec_aux (C : Ctx) (order : List Pid → Except Err (List Pid))
    (hord : ∀ T l, order T = .ok l → (∀ x ∈ l, x ∈ T) ∧ (T ≠ [] → l ≠ [])) :
    ∀ n s W, s.pool.length ≤ n → (rule C).run order n s = .ok W → SpecRun C order s W := by
  intro n
  induction n with
  | zero =>
    intro s W hn h
    have hp : s.pool = [] := List.length_eq_zero_iff.mp (Nat.le_zero.mp hn)
    unfold RoundRule.run at h
    rw [← Except.ok.inj h]
    exact SpecRun.stop s (pool_nil_stops C s hp)
  | succ n ih =>
    intro s W hn h
    unfold RoundRule.run at h
    by_cases hT : (rule C).tied s = []
    · rw [if_pos hT] at h
      rw [← Except.ok.inj h]
      exact SpecRun.stop s ((tied_eq_nil_iff_stops C s).mp hT)
    · rw [if_neg hT] at h
      cases ho : order ((rule C).tied s) with
      | error e => rw [ho] at h; simp at h
      | ok l =>
        rw [ho] at h
        obtain ⟨hmem, hne⟩ := hord _ _ ho
        cases l with
        | nil => exact absurd rfl (hne hT)
        | cons t r =>
          simp only at h
          have ht : t ∈ tied C s := hmem t (by simp)
          have hlt := buy_pool_lt C s t ht
          have := ih (buy C s t) W (by omega) h
          exact SpecRun.step s (tied C s) t r W (mem_tied_iff_isNext C s) ho this

theorem runAllP_sound_aux (C : Ctx) :
    ∀ n s, s.pool.length ≤ n → ∀ W ∈ (rule C).runAllP n s, SpecRunAny C s W := by
  intro n
  induction n with
  | zero =>
    intro s hn W hW
    have hp : s.pool = [] := List.length_eq_zero_iff.mp (Nat.le_zero.mp hn)
    simp [RoundRule.runAllP] at hW
    rw [hW]
    exact SpecRunAny.stop s (pool_nil_stops C s hp)
  | succ n ih =>
    intro s hn W hW
    unfold RoundRule.runAllP at hW
    by_cases hT : (rule C).tied s = []
    · simp [hT] at hW
      rw [hW]
      exact SpecRunAny.stop s ((tied_eq_nil_iff_stops C s).mp hT)
    · simp only [hT, if_false, List.mem_flatMap] at hW
      obtain ⟨t, ht, hW'⟩ := hW
      have hlt := buy_pool_lt C s t ht
      exact SpecRunAny.step s t W ((mem_tied_iff_isNext C s t).mp ht) (ih (buy C s t) (by omega) W hW')

theorem runAllP_complete_aux (C : Ctx) (s : State) (W : List Pid) (h : SpecRunAny C s W) :
    ∀ n, s.pool.length ≤ n → W ∈ (rule C).runAllP n s := by
  induction h with
  | stop s hstop =>
    intro n _
    have ht : (rule C).tied s = [] := (tied_eq_nil_iff_stops C s).mpr hstop
    cases n with
    | zero => simp [RoundRule.runAllP]; rfl
    | succ n => simp [RoundRule.runAllP, ht]; rfl
  | step s t W hnext _ ih =>
    intro n hn
    have ht : t ∈ tied C s := (mem_tied_iff_isNext C s t).mpr hnext
    have htp := tied_sub_pool C s t ht
    have hlt := buy_pool_lt C s t ht
    cases n with
    | zero =>
      have hp : s.pool = [] := List.length_eq_zero_iff.mp (Nat.le_zero.mp hn)
      rw [hp] at htp; simp at htp
    | succ n =>
      have hne : (rule C).tied s ≠ [] := by
        intro h'
        have : t ∈ (rule C).tied s := ht
        rw [h'] at this; simp at this
      simp only [RoundRule.runAllP, hne, if_false, List.mem_flatMap]
      exact ⟨t, ht, ih n (by omega)⟩

/-! ### Multiplicities count as that many identical voters -/

/-- every entry `i` replaced by `m i` copies of multiplicity 1 (copies share the index, hence the load) -/
def expand (C : Ctx) : Ctx :=
  { vs := C.vs.flatMap (fun i => List.replicate (C.m i) i), m := fun _ => 1, app := C.app,
    cost := C.cost, budget := C.budget }

theorem sumNat_replicate_one {α : Type} (n : Nat) (v : α) : sumNat (List.replicate n v) (fun _ => 1) = n := by
  induction n with
  | zero => rfl
  | succ n ih => rw [List.replicate_succ]; simp only [sumNat, ih]; omega

theorem sumOver_replicate {α : Type} (n : Nat) (v : α) (f : α → Rat) :
    sumOver (List.replicate n v) f = (n : Rat) * f v := by
  induction n with
  | zero => simp [sumOver]
  | succ n ih => rw [List.replicate_succ]; simp only [sumOver, ih]; push_cast; ring

theorem sumNat_append {α : Type} (f : α → Nat) (l₁ l₂ : List α) :
    sumNat (l₁ ++ l₂) f = sumNat l₁ f + sumNat l₂ f := by
  induction l₁ with
  | nil => simp [sumNat]
  | cons x xs ih => simp only [List.cons_append, sumNat, ih]; omega

theorem supporters_expand_cons (vs : List Nat) (m : Nat → Nat) (app : Nat → Pid → Bool) (v : Nat) (p : Pid) :
    ((v :: vs).flatMap (fun i => List.replicate (m i) i)).filter (fun i => app i p) =
      (if app v p then List.replicate (m v) v else []) ++
        (vs.flatMap (fun i => List.replicate (m i) i)).filter (fun i => app i p) := by
  rw [List.flatMap_cons, List.filter_append, List.filter_replicate]

theorem score_expand (C : Ctx) (p : Pid) : score (expand C) p = score C p := by
  unfold score supporters expand
  simp only
  generalize C.vs = vs
  induction vs with
  | nil => rfl
  | cons v vs ih =>
    rw [supporters_expand_cons, sumNat_append, ih]
    by_cases h : C.app v p = true
    · have hf : (v :: vs).filter (fun i => C.app i p) = v :: vs.filter (fun i => C.app i p) :=
        List.filter_cons_of_pos (p := fun i => C.app i p) h
      rw [if_pos h, hf, sumNat_replicate_one]; rfl
    · have hf : (v :: vs).filter (fun i => C.app i p) = vs.filter (fun i => C.app i p) :=
        List.filter_cons_of_neg (p := fun i => C.app i p) h
      rw [if_neg h, hf]; simp [sumNat]

theorem loadsum_expand (C : Ctx) (f : Nat → Rat) (p : Pid) :
    sumOver (supporters (expand C) p) (fun i => ((expand C).m i : Rat) * f i) =
      sumOver (supporters C p) (fun i => (C.m i : Rat) * f i) := by
  unfold supporters expand
  simp only
  generalize C.vs = vs
  induction vs with
  | nil => rfl
  | cons v vs ih =>
    rw [supporters_expand_cons, sumOver_append, ih]
    by_cases h : C.app v p = true
    · have hf : (v :: vs).filter (fun i => C.app i p) = v :: vs.filter (fun i => C.app i p) :=
        List.filter_cons_of_pos (p := fun i => C.app i p) h
      rw [if_pos h, hf, sumOver_replicate]
      simp [sumOver]
    · have hf : (v :: vs).filter (fun i => C.app i p) = vs.filter (fun i => C.app i p) :=
        List.filter_cons_of_neg (p := fun i => C.app i p) h
      rw [if_neg h, hf]; simp [sumOver]

theorem newMax_expand (C : Ctx) (s : State) (p : Pid) : newMax (expand C) s p = newMax C s p := by
  unfold newMax
  rw [score_expand, loadsum_expand]
  rfl

theorem rule_expand (C : Ctx) : rule (expand C) = rule C := by
  have h1 : ∀ s, argmin (expand C) s = argmin C s := by
    intro s
    unfold argmin
    have : newMax (expand C) s = newMax C s := funext (newMax_expand C s)
    rw [this]
  have h2 : tied (expand C) = tied C := by
    funext s
    unfold tied
    rw [h1]
    rfl
  have h3 : buy (expand C) = buy C := by
    funext s t
    unfold buy
    rw [newMax_expand]
    rfl
  unfold rule
  rw [h2, h3]

/-- running on the expanded voter list gives the same result -/
theorem run_expand (C : Ctx) (projects init : List Pid) (loads : Nat → Rat)
    (order : List Pid → Except Err (List Pid)) :
    run (expand C) projects init loads order = run C projects init loads order := by
  unfold run
  rw [rule_expand]
  rfl

theorem runAll_expand (C : Ctx) (projects init : List Pid) (loads : Nat → Rat)
    (order : List Pid → Except Err (List Pid)) :
    runAll (expand C) projects init loads order = runAll C projects init loads order := by
  unfold runAll
  rw [rule_expand]
  rfl

end Phragmen
end Pabu
