/-
  Lemmas about the generic round-based rule: invariants lift to outcomes; irresolute = all strict orders.
-/
import PabuModel.RoundRule
import Mathlib.Data.List.Basic
namespace Pabu
variable {σ : Type}

/-- the two structural facts every instance has to provide -/
structure RoundRule.WF (R : RoundRule σ) : Prop where
  tied_sub : ∀ s, ∀ x ∈ R.tied s, x ∈ R.pool s
  pool_buy : ∀ s t, t ∈ R.tied s → ∀ x ∈ R.pool (R.buy s t), x ∈ R.pool s ∧ x ≠ t

/-- first element of the strict order `π` that is tied -/
def pick (π : List Pid) (T : List Pid) : Option Pid := π.find? (fun x => T.contains x)

/-- the order function of a permutation rule, as a total function: tied projects in the order of π -/
def permOrd (π : List Pid) (T : List Pid) : List Pid := π.filter (fun x => T.contains x)

theorem permOrd_head (π T : List Pid) : (permOrd π T).head? = pick π T := by
  unfold permOrd pick
  induction π with
  | nil => rfl
  | cons a l ih =>
    by_cases h : T.contains a = true
    · rw [List.filter_cons_of_pos h, List.find?_cons_of_pos (l := l) (p := fun x => T.contains x) h]; rfl
    · rw [List.filter_cons_of_neg h, List.find?_cons_of_neg (l := l) (p := fun x => T.contains x) h]; exact ih

theorem pick_mem {π T : List Pid} {t : Pid} (h : pick π T = some t) : t ∈ T ∧ t ∈ π := by
  unfold pick at h
  have h1 := List.find?_some h
  have h2 := List.mem_of_find?_eq_some h
  simp at h1
  exact ⟨h1, h2⟩

theorem pick_none {π T : List Pid} (h : pick π T = none) (hT : ∀ x ∈ T, x ∈ π) : T = [] := by
  unfold pick at h
  rw [List.find?_eq_none] at h
  cases T with
  | nil => rfl
  | cons a l =>
    exfalso
    have := h a (hT a (by simp))
    simp at this

theorem pick_prefix (pre : List Pid) (t : Pid) (rest T : List Pid)
    (hpre : ∀ x ∈ pre, x ∉ T) (ht : t ∈ T) : pick (pre ++ t :: rest) T = some t := by
  unfold pick
  rw [List.find?_append]
  have : pre.find? (fun x => T.contains x) = none := by
    rw [List.find?_eq_none]; intro x hx; simp [hpre x hx]
  rw [this]; simp [ht]

theorem pick_nil (π : List Pid) : pick π [] = none := by
  unfold pick; rw [List.find?_eq_none]; simp

/-- resolute run under the strict order π, written with `pick` -/
def RoundRule.runPi (R : RoundRule σ) (π : List Pid) : Nat → σ → List Pid
  | 0, s => R.out s
  | n + 1, s =>
    match pick π (R.tied s) with
    | none => R.out s
    | some t => R.runPi π n (R.buy s t)

theorem runP_permOrd (R : RoundRule σ) (π : List Pid) : ∀ n s, R.runP (permOrd π) n s = R.runPi π n s := by
  intro n
  induction n with
  | zero => intro s; rfl
  | succ n ih =>
    intro s
    have h := permOrd_head π (R.tied s)
    unfold RoundRule.runP RoundRule.runPi
    cases hp : permOrd π (R.tied s) with
    | nil => rw [hp] at h; simp at h; rw [← h]
    | cons t r => rw [hp] at h; simp at h; rw [← h]; exact ih _

/-! ### Invariants lift to outcomes -/

theorem RoundRule.runP_inv (R : RoundRule σ) (ord : List Pid → List Pid) (Inv : σ → Prop)
    (hord : ∀ T, ∀ x ∈ ord T, x ∈ T)
    (hbuy : ∀ s t, Inv s → t ∈ R.tied s → Inv (R.buy s t)) :
    ∀ n s, Inv s → ∃ s', Inv s' ∧ R.runP ord n s = R.out s' := by
  intro n
  induction n with
  | zero => intro s hs; exact ⟨s, hs, rfl⟩
  | succ n ih =>
    intro s hs
    unfold RoundRule.runP
    cases hp : ord (R.tied s) with
    | nil => exact ⟨s, hs, rfl⟩
    | cons t r =>
      have ht : t ∈ R.tied s := hord _ t (by rw [hp]; simp)
      exact ih _ (hbuy s t hs ht)

theorem RoundRule.runAllP_inv (R : RoundRule σ) (Inv : σ → Prop)
    (hbuy : ∀ s t, Inv s → t ∈ R.tied s → Inv (R.buy s t)) :
    ∀ n s, Inv s → ∀ W ∈ R.runAllP n s, ∃ s', Inv s' ∧ W = R.out s' := by
  intro n
  induction n with
  | zero => intro s hs W hW; simp [RoundRule.runAllP] at hW; exact ⟨s, hs, hW⟩
  | succ n ih =>
    intro s hs W hW
    unfold RoundRule.runAllP at hW
    by_cases hT : R.tied s = []
    · simp [hT] at hW; exact ⟨s, hs, hW⟩
    · simp only [hT, if_false, List.mem_flatMap] at hW
      obtain ⟨t, ht, hW'⟩ := hW
      exact ih _ (hbuy s t hs ht) W hW'

/-! ### Irresolute = all strict orders (C08) -/

/-- soundness: every resolute outcome is one of the irresolute outcomes -/
theorem run_mem_runAll (R : RoundRule σ) (π : List Pid) :
    ∀ n s, (∀ x ∈ R.tied s, x ∈ π) →
      (∀ s' t, (∀ x ∈ R.tied s', x ∈ π) → ∀ x ∈ R.tied (R.buy s' t), x ∈ π) →
      R.runPi π n s ∈ R.runAllP n s := by
  intro n
  induction n with
  | zero => intro s _ _; simp [RoundRule.runPi, RoundRule.runAllP]
  | succ n ih =>
    intro s hπ hclosed
    simp only [RoundRule.runPi, RoundRule.runAllP]
    cases hp : pick π (R.tied s) with
    | none =>
      have := pick_none hp hπ
      simp [this]
    | some t =>
      have ⟨htT, _⟩ := pick_mem hp
      have hne : R.tied s ≠ [] := by intro h; rw [h] at htT; simp at htT
      simp only [hne, if_false, List.mem_flatMap]
      exact ⟨t, htT, ih (R.buy s t) (hclosed s t hπ) hclosed⟩

/-- completeness: every irresolute outcome is the resolute outcome under some strict order;
    the witness works under any prefix of already-decided projects and any suffix. -/
theorem runAll_realised (R : RoundRule σ) (hR : R.WF) :
    ∀ n s W, W ∈ R.runAllP n s →
      ∃ l : List Pid, l.Nodup ∧ (∀ x ∈ l, x ∈ R.pool s) ∧
        ∀ pre rest : List Pid, (∀ x ∈ pre, x ∉ R.pool s) → R.runPi (pre ++ l ++ rest) n s = W := by
  intro n
  induction n with
  | zero =>
    intro s W hW
    simp [RoundRule.runAllP] at hW
    exact ⟨[], List.nodup_nil, by simp, by intro pre rest _; simp [RoundRule.runPi, hW]⟩
  | succ n ih =>
    intro s W hW
    simp only [RoundRule.runAllP] at hW
    by_cases hT : R.tied s = []
    · simp [hT] at hW
      refine ⟨[], List.nodup_nil, by simp, ?_⟩
      intro pre rest _
      simp [RoundRule.runPi, hT, pick_nil, hW]
    · simp only [hT, if_false, List.mem_flatMap] at hW
      obtain ⟨t, htT, hW'⟩ := hW
      obtain ⟨l', hnd, hsub, hrun⟩ := ih (R.buy s t) W hW'
      have htl : t ∉ l' := fun h => (hR.pool_buy s t htT t (hsub t h)).2 rfl
      refine ⟨t :: l', List.nodup_cons.mpr ⟨htl, hnd⟩, ?_, ?_⟩
      · intro x hx
        rcases List.mem_cons.mp hx with rfl | hx
        · exact hR.tied_sub s _ htT
        · exact (hR.pool_buy s t htT x (hsub x hx)).1
      · intro pre rest hpre
        have hp : pick (pre ++ (t :: l') ++ rest) (R.tied s) = some t := by
          have : pre ++ (t :: l') ++ rest = pre ++ t :: (l' ++ rest) := by simp
          rw [this]
          exact pick_prefix pre t _ _ (fun x hx h => hpre x hx (hR.tied_sub s x h)) htT
        simp only [RoundRule.runPi, hp]
        have : pre ++ (t :: l') ++ rest = (pre ++ [t]) ++ l' ++ rest := by simp
        rw [this]
        apply hrun
        intro x hx
        rcases List.mem_append.mp hx with hx | hx
        · exact fun h => hpre x hx (hR.pool_buy s t htT x h).1
        · have hxt : x = t := by simpa using hx
          rw [hxt]
          exact fun h => (hR.pool_buy s t htT _ h).2 rfl

end Pabu
