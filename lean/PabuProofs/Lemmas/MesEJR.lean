/-
  Lemmas for "Equal Shares satisfies EJR up to any / one project" (Peters, Pierczyński, Skowron 2021, Thm 2;
  Brill et al. 2023 for the approval measures), on the model `PabuModel.MES`.

  A group is a list `G` of distinct voter entries of the run, its size is the sum of their multiplicities.
  * `exists_poor` / `unbought_means_spent`: if every member of `G` supports a pool project `c` that the run
    did not buy, some member ends with less than `cost c / |G|`, i.e. has spent more than `b0 − cost c / |G|`.
  * `rho_le_of_rich` / `price_bounded_while_rich`: while every member of `G` holds at least `cost c / |G|`, the
    price per unit of utility of `c`, hence of whatever is bought, is at most `cost c / (|G| · u(c))`.
  * `Recorded.track`: the induction along a recorded run that combines the two.
  * `runAt_utility_bound`: the resulting bound for arbitrary additive utilities,
    `runAt_cost_bound` / `runAt_card_bound`: its two approval instances.
-/
import PabuProofs.Lemmas.MES
import Mathlib.Data.List.Perm.Subperm
namespace Pabu
namespace MesEJR
open Pabu.MES

/-! ### sums over lists -/

theorem sumOver_mono {α : Type} (f g : α → Rat) : ∀ l : List α, (∀ x ∈ l, f x ≤ g x) →
    sumOver l f ≤ sumOver l g
  | [], _ => le_refl _
  | x :: xs, h => by
    have h1 := h x (by simp)
    have h2 := sumOver_mono f g xs (fun y hy => h y (by simp [hy]))
    simp only [sumOver]; linarith

theorem sumOver_eq {α : Type} (f g : α → Rat) : ∀ l : List α, (∀ x ∈ l, f x = g x) →
    sumOver l f = sumOver l g
  | [], _ => rfl
  | x :: xs, h => by
    have h1 := h x (by simp)
    have h2 := sumOver_eq f g xs (fun y hy => h y (by simp [hy]))
    simp only [sumOver, h1, h2]

theorem sumOver_sublist {α : Type} (f : α → Rat) {l l' : List α} (h : l.Sublist l')
    (hf : ∀ x ∈ l', 0 ≤ f x) : sumOver l f ≤ sumOver l' f := by
  induction h with
  | slnil => exact le_refl _
  | cons a _ ih =>
    have h1 := hf a (by simp)
    have h2 := ih (fun y hy => hf y (by simp [hy]))
    simp only [sumOver]; linarith
  | cons_cons a _ ih =>
    have h2 := ih (fun y hy => hf y (by simp [hy]))
    simp only [sumOver]; linarith

/-- a list without repeats whose members all occur in `l'` sums to at most `l'` (non-negative terms) -/
theorem sumOver_subset_nodup {α : Type} (f : α → Rat) {l l' : List α} (hnd : l.Nodup)
    (hsub : ∀ x ∈ l, x ∈ l') (hf : ∀ x ∈ l', 0 ≤ f x) : sumOver l f ≤ sumOver l' f := by
  obtain ⟨l'', hperm, hsl⟩ := hnd.subperm (fun x hx => hsub x hx)
  rw [← sumOver_perm f hperm]
  exact sumOver_sublist f hsl hf

theorem sumOver_filter_add {α : Type} (f : α → Rat) (p : α → Bool) : ∀ l : List α,
    sumOver l f = sumOver (l.filter p) f + sumOver (l.filter (fun x => !p x)) f
  | [] => by simp [sumOver]
  | x :: xs => by
    have ih := sumOver_filter_add f p xs
    by_cases hp : p x = true
    · rw [List.filter_cons_of_pos hp, List.filter_cons_of_neg (by simp [hp])]
      simp only [sumOver]; linarith
    · rw [List.filter_cons_of_neg hp, List.filter_cons_of_pos (by simpa using hp)]
      simp only [sumOver]; linarith

theorem sumOver_mul_left {α : Type} (c : Rat) (f : α → Rat) : ∀ l : List α,
    sumOver l (fun x => c * f x) = c * sumOver l f
  | [] => by simp [sumOver]
  | x :: xs => by simp only [sumOver, sumOver_mul_left c f xs]; ring

theorem length_mul_le_sumOver {α : Type} (f : α → Rat) (m : Rat) : ∀ l : List α, (∀ x ∈ l, m ≤ f x) →
    (l.length : Rat) * m ≤ sumOver l f
  | [], _ => by simp [sumOver]
  | x :: xs, h => by
    have h1 := h x (by simp)
    have h2 := length_mul_le_sumOver f m xs (fun y hy => h y (by simp [hy]))
    simp only [sumOver, List.length_cons]; push_cast; linarith

theorem sumOver_one {α : Type} : ∀ l : List α, sumOver l (fun _ => (1 : Rat)) = (l.length : Rat)
  | [] => by simp [sumOver]
  | x :: xs => by simp only [sumOver, sumOver_one xs, List.length_cons]; push_cast; ring

theorem sumOver_indicator_length {α : Type} (a : α → Bool) : ∀ l : List α,
    sumOver l (fun x => if a x = true then (1 : Rat) else 0) = ((l.filter a).length : Rat)
  | [] => by simp [sumOver]
  | x :: xs => by
    have ih := sumOver_indicator_length a xs
    by_cases hp : a x = true
    · rw [List.filter_cons_of_pos hp]
      simp only [sumOver, ih, if_pos hp, List.length_cons]; push_cast; ring
    · rw [List.filter_cons_of_neg hp]
      simp only [sumOver, ih, if_neg hp]; ring

theorem exists_min_image (f : Pid → Rat) : ∀ l : List Pid, l ≠ [] → ∃ c ∈ l, ∀ p ∈ l, f c ≤ f p
  | [], h => absurd rfl h
  | x :: xs, _ => by
    by_cases hxs : xs = []
    · subst hxs
      exact ⟨x, by simp, by intro p hp; have : p = x := by simpa using hp
                            subst this; exact le_refl _⟩
    · obtain ⟨c, hc, hmin⟩ := exists_min_image f xs hxs
      by_cases hxc : f x ≤ f c
      · refine ⟨x, by simp, ?_⟩
        intro p hp
        rcases List.mem_cons.mp hp with rfl | hp
        · exact le_refl _
        · exact le_trans hxc (hmin p hp)
      · refine ⟨c, by simp [hc], ?_⟩
        intro p hp
        rcases List.mem_cons.mp hp with rfl | hp
        · exact le_of_lt (not_le.mp hxc)
        · exact hmin p hp

theorem sumNat_pos {α : Type} (f : α → Nat) : ∀ l : List α, l ≠ [] → (∀ x ∈ l, 1 ≤ f x) → 0 < sumNat l f
  | [], h, _ => absurd rfl h
  | x :: xs, _, h => by
    have := h x (by simp)
    simp only [sumNat]; omega

/-! ### money of the supporters -/

theorem budSum_map (V : VCtx) (b : Nat → Rat) (p : Pid) : ∀ l : List Nat,
    budSum (l.map (fun i => (⟨b i, V.u i p, V.m i⟩ : Sup))) = sumOver l (fun i => (V.m i : Rat) * b i)
  | [] => rfl
  | i :: l => by simp only [List.map_cons, budSum, sumOver, budSum_map V b p l]

theorem budSum_sups (V : VCtx) (b : Nat → Rat) (p : Pid) :
    budSum (sups V b p) = sumOver (supporters V p) (fun i => (V.m i : Rat) * b i) :=
  budSum_map V b p _

theorem paySum_le_budSum (r : Rat) : ∀ l : List Sup, paySum r l ≤ budSum l
  | [] => le_refl _
  | s :: l => by
    have ih := paySum_le_budSum r l
    have h1 : min s.b (r * s.u) ≤ s.b := min_le_left _ _
    have h2 : (0 : Rat) ≤ (s.m : Rat) := Nat.cast_nonneg _
    have h3 := mul_le_mul_of_nonneg_left h1 h2
    simp only [paySum, budSum]; linarith

theorem pay_le_mul (V : VCtx) (b : Nat → Rat) (t : Pid) (r : Rat) (i : Nat) (hu : 0 ≤ V.u i t) :
    pay V b t r i ≤ r * V.u i t := by
  unfold pay
  by_cases h : 0 < V.u i t
  · rw [if_pos h]; exact min_le_right _ _
  · rw [if_neg h]
    have : V.u i t = 0 := le_antisymm (not_lt.mp h) hu
    rw [this]; simp

/-- the size of a group of entries -/
def gsize (V : VCtx) (G : List Nat) : Nat := sumNat G V.m

theorem sumOver_gsize (V : VCtx) (G : List Nat) (x : Rat) :
    sumOver G (fun i => (V.m i : Rat) * x) = ((gsize V G : Nat) : Rat) * x :=
  sumOver_const_mul V.m x G

/-- **(1), one state.**  If the supporters of `c` together hold less than `cost c` and every member of the group
    `G` supports `c`, then some member of `G` holds less than `cost c / |G|`. -/
theorem exists_poor {V : VCtx} {cost : Pid → Rat} {b : Nat → Rat} {c : Pid}
    (hnn : ∀ i ∈ V.vs, 0 ≤ b i) (G : List Nat) (hnd : G.Nodup)
    (hsup : ∀ i ∈ G, i ∈ supporters V c) (hg : 0 < gsize V G)
    (hlt : budSum (sups V b c) < cost c) :
    ∃ j ∈ G, b j < cost c / ((gsize V G : Nat) : Rat) := by
  by_contra hcon
  push Not at hcon
  have hgq : (0 : Rat) < ((gsize V G : Nat) : Rat) := by exact_mod_cast hg
  have h1 : sumOver G (fun i => (V.m i : Rat) * (cost c / ((gsize V G : Nat) : Rat))) = cost c := by
    rw [sumOver_gsize]; field_simp
  have h2 : sumOver G (fun i => (V.m i : Rat) * (cost c / ((gsize V G : Nat) : Rat))) ≤
      sumOver G (fun i => (V.m i : Rat) * b i) := by
    apply sumOver_mono
    intro i hi
    exact mul_le_mul_of_nonneg_left (hcon i hi) (Nat.cast_nonneg _)
  have h3 : sumOver G (fun i => (V.m i : Rat) * b i) ≤
      sumOver (supporters V c) (fun i => (V.m i : Rat) * b i) := by
    apply sumOver_subset_nodup _ hnd hsup
    intro i hi
    exact mul_nonneg (Nat.cast_nonneg _) (hnn i (mem_supporters.mp hi).1)
  rw [budSum_sups] at hlt
  linarith

/-- **(2), one project.**  If every member of `G` values `p` at `w > 0` and holds at least `cost p / |G|`, then `p`
    has a price, and it is at most `cost p / (|G| · w)`. -/
theorem rho_le_of_rich {V : VCtx} {cost : Pid → Rat} {b : Nat → Rat} {p : Pid}
    (hok : VOK V b) (hc : 0 < cost p) (G : List Nat) (hnd : G.Nodup) (hvs : ∀ i ∈ G, i ∈ V.vs)
    (w : Rat) (hw : 0 < w) (hu : ∀ i ∈ G, V.u i p = w) (hg : 0 < gsize V G)
    (hrich : ∀ i ∈ G, cost p / ((gsize V G : Nat) : Rat) ≤ b i) :
    ∃ r, rho V cost b p = some r ∧ r ≤ cost p / (((gsize V G : Nat) : Rat) * w) := by
  have hgq : (0 : Rat) < ((gsize V G : Nat) : Rat) := by exact_mod_cast hg
  have hr'pos : 0 < cost p / (((gsize V G : Nat) : Rat) * w) := by positivity
  have hrw : cost p / (((gsize V G : Nat) : Rat) * w) * w = cost p / ((gsize V G : Nat) : Rat) := by
    field_simp
  have hpay : cost p ≤ paySum (cost p / (((gsize V G : Nat) : Rat) * w)) (sups V b p) := by
    rw [← pay_sum]
    have h1 : sumOver G (fun i => (V.m i : Rat) * (cost p / ((gsize V G : Nat) : Rat))) = cost p := by
      rw [sumOver_gsize]; field_simp
    have h2 : sumOver G (fun i => (V.m i : Rat) * (cost p / ((gsize V G : Nat) : Rat))) ≤
        sumOver G (fun i => (V.m i : Rat) * pay V b p (cost p / (((gsize V G : Nat) : Rat) * w)) i) := by
      apply sumOver_mono
      intro i hi
      have hui : 0 < V.u i p := by rw [hu i hi]; exact hw
      rw [pay_supporter V b p _ i hui, hu i hi, hrw, min_eq_right (hrich i hi)]
    have h3 : sumOver G (fun i => (V.m i : Rat) * pay V b p (cost p / (((gsize V G : Nat) : Rat) * w)) i) ≤
        sumOver V.vs (fun i => (V.m i : Rat) * pay V b p (cost p / (((gsize V G : Nat) : Rat) * w)) i) := by
      apply sumOver_subset_nodup _ hnd hvs
      intro i hi
      exact mul_nonneg (Nat.cast_nonneg _) (pay_nonneg V b p _ i (hok.nonneg i hi) (le_of_lt hr'pos))
    linarith
  cases hr : rho V cost b p with
  | none =>
    exfalso
    have := (rho_none_iff hok hc).mp hr
    have := paySum_le_budSum (cost p / (((gsize V G : Nat) : Rat) * w)) (sups V b p)
    linarith
  | some r => exact ⟨r, rfl, rho_least hok hc hr _ hpay⟩

/-- **(2) price_bounded_while_rich.**  In a state in which the pool project `c` is valued `w > 0` by every member of
    `G` and every member holds at least `cost c / |G|`, whatever Equal Shares buys next (a tied = least-price
    project) has price per unit of utility at most `cost c / (|G| · w)`. -/
theorem price_bounded_while_rich {V : VCtx} {cost : Pid → Rat} {s : State} {c : Pid}
    (hok : VOK V s.b) (hcp : c ∈ s.pool) (hc : 0 < cost c) (G : List Nat) (hnd : G.Nodup)
    (hvs : ∀ i ∈ G, i ∈ V.vs) (w : Rat) (hw : 0 < w) (hu : ∀ i ∈ G, V.u i c = w) (hg : 0 < gsize V G)
    (hrich : ∀ i ∈ G, cost c / ((gsize V G : Nat) : Rat) ≤ s.b i)
    {t : Pid} {r : Rat} (ht : t ∈ tied V cost s) (hr : rho V cost s.b t = some r) :
    r ≤ cost c / (((gsize V G : Nat) : Rat) * w) := by
  obtain ⟨rc, hrc, hle⟩ := rho_le_of_rich hok hc G hnd hvs w hw hu hg hrich
  obtain ⟨_, r0, hr0, _, hmin⟩ := mem_tied.mp ht
  rw [hr] at hr0
  cases hr0
  exact le_trans (hmin c hcp rc hrc) hle

/-! ### the induction along a run -/

/-- what is tracked along the run for a group `G`, a threshold `q`, the initial money `b0` and per-voter caps
    `cap i p` on what voter `i` pays for `p`: either every member still holds at least `q` and has spent at most
    the caps of the projects bought so far, or some member has already been charged more than `b0 − q` worth of caps -/
def Track (G : List Nat) (q b0 : Rat) (cap : Nat → Pid → Rat) (s : State) : Prop :=
  (∀ i ∈ G, q ≤ s.b i ∧ b0 - s.b i ≤ sumOver s.alloc (cap i)) ∨
    (∃ j ∈ G, b0 - q < sumOver s.alloc (cap j))

theorem Recorded.track {V : VCtx} {I : Inst} {init : List Pid} {b1 : Rat} (hm : ∀ i ∈ V.vs, 1 ≤ V.m i)
    {s s' : State} {L : List Iteration} (hrec : Recorded V I.cost s L s')
    (G : List Nat) (c : Pid) (q b0 : Rat) (cap : Nat → Pid → Rat)
    (hcap : ∀ i ∈ G, ∀ p ∈ I.projects, 0 ≤ cap i p)
    (hstep : ∀ (st : State) (t : Pid) (r : Rat), Good V I init b1 st → c ∈ st.pool →
      (∀ i ∈ G, q ≤ st.b i) → t ∈ tied V I.cost st → rho V I.cost st.b t = some r →
      ∀ i ∈ G, pay V st.b t r i ≤ cap i t) :
    Good V I init b1 s → c ∈ s.pool → c ∉ s'.alloc → Track G q b0 cap s → Track G q b0 cap s' := by
  induction hrec with
  | stop s => intro _ _ _ h; exact h
  | step s t r rest s' ht hr hb hrec ih =>
    intro hgood hc hc' hJ
    have halloc := hrec.alloc
    have hbuy := buy_some hr
    have hct : c ≠ t := by
      intro h
      subst h
      apply hc'
      rw [halloc, hbuy]
      simp
    have hcpool' : c ∈ (buy V I.cost s t).pool := by
      rw [buy_pool]
      exact List.mem_filter.mpr ⟨hc, by simpa using hct⟩
    apply ih (good_buy hm s t hgood ht) hcpool' hc'
    rw [hbuy]
    unfold Track
    simp only [sumOver_append, sumOver]
    rcases hJ with h1 | ⟨j, hj, h2⟩
    · have hpay := hstep s t r hgood hc (fun i hi => (h1 i hi).1) ht hr
      by_cases hrich : ∀ i ∈ G, q ≤ s.b i - pay V s.b t r i
      · left
        intro i hi
        refine ⟨hrich i hi, ?_⟩
        have := hpay i hi
        have := (h1 i hi).2
        linarith
      · right
        push Not at hrich
        obtain ⟨j, hj, hlt⟩ := hrich
        refine ⟨j, hj, ?_⟩
        have := hpay j hj
        have := (h1 j hj).2
        linarith
    · right
      refine ⟨j, hj, ?_⟩
      have := hcap j hj t (hgood.2.pool_sub t (tied_sub_pool ht))
      linarith

/-- **(1) unbought_means_spent.**  A successful resolute run is a recorded run to a state `s'` with `W = s'.alloc`;
    if every member of `G` supports the pool project `c` and `c ∉ W`, then some member of `G` has spent more than
    `b0 − cost c / |G|`. -/
theorem unbought_means_spent {V : VCtx} {I : Inst} {init : List Pid} (h : InputOK V I init)
    {order : List Pid → Except Err (List Pid)}
    (hord : ∀ T l, order T = .ok l → ∀ x ∈ l, x ∈ T) (hne : ∀ T, T ≠ [] → order T ≠ .ok [])
    {b0 : Rat} (hb0 : 0 ≤ b0) {W : List Pid} (hW : runAt V I init order b0 = .ok W)
    (G : List Nat) (hnd : G.Nodup) (hg : 0 < gsize V G) (c : Pid) (hcpool : c ∈ initPool V I init)
    (hcW : c ∉ W) (hsup : ∀ i ∈ G, i ∈ supporters V c) :
    ∃ L s', trace V I.cost order (initPool V I init).length (initState V I init b0) = .ok L ∧
      Recorded V I.cost (initState V I init b0) L s' ∧ W = s'.alloc ∧
      Good V I init b0 s' ∧ c ∈ s'.pool ∧
      ∃ j ∈ G, b0 - I.cost c / ((gsize V G : Nat) : Rat) < b0 - s'.b j := by
  obtain ⟨L, s', hL, hrec, hWs, hterm⟩ := runAt_recorded hord hW
  have hgood := hrec.good h.mult
    (good_init V I init b0 hb0 h.proj_nodup h.init_sub h.init_nodup h.cost_nonneg)
  have hcs' : c ∈ s'.pool := by
    rcases hrec.pool c hcpool with h1 | h1
    · exact h1
    · exfalso
      apply hcW
      rw [hWs, hrec.alloc]
      apply List.mem_append_right
      obtain ⟨it, hit, hsel⟩ := List.mem_map.mp h1
      exact List.mem_filterMap.mpr ⟨it, hit, hsel⟩
  have hlt := (rho_none_iff ⟨hgood.1.nonneg, h.mult⟩ (hgood.1.pool_pos c hcs')).mp (hterm hne c hcs')
  obtain ⟨j, hj, hpoor⟩ := exists_poor hgood.1.nonneg G hnd hsup hg hlt
  exact ⟨L, s', hL, hrec, hWs, hgood, hcs', j, hj, by linarith⟩

/-- the run-level combination: with caps that are respected while the group is rich, some member of the group has been
    charged more than `b0 − cost c / |G|` worth of caps by the projects of the outcome -/
theorem runAt_track {V : VCtx} {I : Inst} {init : List Pid} (h : InputOK V I init)
    {order : List Pid → Except Err (List Pid)}
    (hord : ∀ T l, order T = .ok l → ∀ x ∈ l, x ∈ T) (hne : ∀ T, T ≠ [] → order T ≠ .ok [])
    {b0 : Rat} (hb0 : 0 ≤ b0) {W : List Pid} (hW : runAt V I init order b0 = .ok W)
    (G : List Nat) (hnd : G.Nodup) (hg : 0 < gsize V G) (c : Pid) (hcpool : c ∈ initPool V I init)
    (hcW : c ∉ W) (hsup : ∀ i ∈ G, i ∈ supporters V c)
    (hq : I.cost c / ((gsize V G : Nat) : Rat) ≤ b0)
    (cap : Nat → Pid → Rat) (hcap : ∀ i ∈ G, ∀ p ∈ I.projects, 0 ≤ cap i p)
    (hstep : ∀ (st : State) (t : Pid) (r : Rat), Good V I init b0 st → c ∈ st.pool →
      (∀ i ∈ G, I.cost c / ((gsize V G : Nat) : Rat) ≤ st.b i) → t ∈ tied V I.cost st →
      rho V I.cost st.b t = some r → ∀ i ∈ G, pay V st.b t r i ≤ cap i t) :
    ∃ j ∈ G, b0 - I.cost c / ((gsize V G : Nat) : Rat) < sumOver W (cap j) := by
  obtain ⟨L, s', _, hrec, hWs, _, _, j, hj, hpoor⟩ :=
    unbought_means_spent h hord hne hb0 hW G hnd hg c hcpool hcW hsup
  have hgood0 := good_init V I init b0 hb0 h.proj_nodup h.init_sub h.init_nodup h.cost_nonneg
  have hinit : Track G (I.cost c / ((gsize V G : Nat) : Rat)) b0 cap (initState V I init b0) := by
    left
    intro i hi
    refine ⟨hq, ?_⟩
    have : 0 ≤ sumOver (initState V I init b0).alloc (cap i) :=
      MES.sumOver_nonneg _ _ (fun p hp => hcap i hi p (hgood0.2.alloc_sub p hp))
    show b0 - b0 ≤ _
    linarith
  have htr := Recorded.track h.mult hrec G c _ b0 cap hcap hstep
    hgood0 hcpool (by rw [← hWs]; exact hcW) hinit
  rw [hWs]
  rcases htr with h1 | h1
  · exfalso
    have := (h1 j hj).1
    linarith
  · exact h1

/-- **Equal Shares, arbitrary additive utilities.**  If every member of `G` values the unbought pool project `c` at
    `w > 0` and `cost c / |G| ≤ b0`, then some member `j` of `G` has
    `b0 − cost c / |G| < cost c / (|G| · w) · u_j(W)`. -/
theorem runAt_utility_bound {V : VCtx} {I : Inst} {init : List Pid} (h : InputOK V I init)
    {order : List Pid → Except Err (List Pid)}
    (hord : ∀ T l, order T = .ok l → ∀ x ∈ l, x ∈ T) (hne : ∀ T, T ≠ [] → order T ≠ .ok [])
    {b0 : Rat} (hb0 : 0 ≤ b0) {W : List Pid} (hW : runAt V I init order b0 = .ok W)
    (G : List Nat) (hnd : G.Nodup) (hvs : ∀ i ∈ G, i ∈ V.vs) (hg : 0 < gsize V G)
    (c : Pid) (hcpool : c ∈ initPool V I init) (hcW : c ∉ W)
    (hunn : ∀ i ∈ G, ∀ p ∈ I.projects, 0 ≤ V.u i p) (w : Rat) (hw : 0 < w) (huc : ∀ i ∈ G, V.u i c = w)
    (hq : I.cost c / ((gsize V G : Nat) : Rat) ≤ b0) :
    ∃ j ∈ G, b0 - I.cost c / ((gsize V G : Nat) : Rat) <
      I.cost c / (((gsize V G : Nat) : Rat) * w) * sumOver W (V.u j) := by
  have hc : 0 < I.cost c := (mem_initPool.mp hcpool).2.2.2
  have hgq : (0 : Rat) < ((gsize V G : Nat) : Rat) := by exact_mod_cast hg
  have hsup : ∀ i ∈ G, i ∈ supporters V c := fun i hi =>
    mem_supporters.mpr ⟨hvs i hi, by rw [huc i hi]; exact hw⟩
  obtain ⟨j, hj, hlt⟩ := runAt_track h hord hne hb0 hW G hnd hg c hcpool hcW hsup hq
    (fun i p => I.cost c / (((gsize V G : Nat) : Rat) * w) * V.u i p)
    (fun i hi p hp => mul_nonneg (by positivity) (hunn i hi p hp))
    (by
      intro st t r hgood hcp hrich ht hr i hi
      have htp : t ∈ I.projects := hgood.2.pool_sub t (tied_sub_pool ht)
      have hle := price_bounded_while_rich ⟨hgood.1.nonneg, h.mult⟩ hcp hc G hnd hvs w hw huc hg hrich ht hr
      have h1 := pay_le_mul V st.b t r i (hunn i hi t htp)
      have h2 := mul_le_mul_of_nonneg_right hle (hunn i hi t htp)
      linarith)
  refine ⟨j, hj, ?_⟩
  rw [sumOver_mul_left] at hlt
  exact hlt

/-! ### the two approval measures -/

theorem le_sumOver_of_mem {α : Type} (f : α → Rat) : ∀ l : List α, (∀ y ∈ l, 0 ≤ f y) → ∀ x ∈ l, f x ≤ sumOver l f
  | [], _, x, hx => by simp at hx
  | y :: ys, h, x, hx => by
    have h1 := h y (by simp)
    have h2 : 0 ≤ sumOver ys f := MES.sumOver_nonneg f ys (fun z hz => h z (by simp [hz]))
    simp only [sumOver]
    rcases List.mem_cons.mp hx with rfl | hx
    · linarith
    · have := le_sumOver_of_mem f ys (fun z hz => h z (by simp [hz])) x hx
      linarith

theorem sumOver_pos_of {α : Type} (f : α → Rat) : ∀ l : List α, l ≠ [] → (∀ x ∈ l, 0 < f x) → 0 < sumOver l f
  | [], h, _ => absurd rfl h
  | x :: xs, _, h => by
    have h1 := h x (by simp)
    have h2 : 0 ≤ sumOver xs f := MES.sumOver_nonneg f xs (fun z hz => le_of_lt (h z (by simp [hz])))
    simp only [sumOver]; linarith

theorem totalSat_pos {V : VCtx} {p : Pid} {i : Nat} (hm : ∀ i ∈ V.vs, 1 ≤ V.m i)
    (hi : i ∈ supporters V p) : 0 < totalSat V p := by
  unfold totalSat
  apply sumOver_pos_of
  · intro h; rw [h] at hi; simp at hi
  · intro k hk
    have hk' := mem_supporters.mp hk
    have : (0 : Rat) < (V.m k : Rat) := by exact_mod_cast (hm k hk'.1)
    exact mul_pos this hk'.2

/-- **Cost_Sat shape** (`u i p = cost p` on the projects the group agrees on).  If `cost T ≤ |G| · b0`, every member of `G`
    values every `p ∈ T` at `cost p`, and `c ∈ T` is a pool project the run did not buy, then some member `j` of `G`
    has `cost T − cost c < u_j(W)`. -/
theorem runAt_cost_bound {V : VCtx} {I : Inst} {init : List Pid} (h : InputOK V I init)
    {order : List Pid → Except Err (List Pid)}
    (hord : ∀ T l, order T = .ok l → ∀ x ∈ l, x ∈ T) (hne : ∀ T, T ≠ [] → order T ≠ .ok [])
    {b0 : Rat} (hb0 : 0 ≤ b0) {W : List Pid} (hW : runAt V I init order b0 = .ok W)
    (G : List Nat) (hnd : G.Nodup) (hvs : ∀ i ∈ G, i ∈ V.vs) (hg : 0 < gsize V G)
    (T : List Pid) (hTcost : ∀ p ∈ T, 0 ≤ I.cost p)
    (hcoh : costOf I.cost T ≤ ((gsize V G : Nat) : Rat) * b0)
    (hunn : ∀ i ∈ G, ∀ p ∈ I.projects, 0 ≤ V.u i p) (hT : ∀ i ∈ G, ∀ p ∈ T, V.u i p = I.cost p)
    (c : Pid) (hcT : c ∈ T) (hcpool : c ∈ initPool V I init) (hcW : c ∉ W) :
    ∃ j ∈ G, costOf I.cost T - I.cost c < sumOver W (V.u j) := by
  have hc : 0 < I.cost c := (mem_initPool.mp hcpool).2.2.2
  have hgq : (0 : Rat) < ((gsize V G : Nat) : Rat) := by exact_mod_cast hg
  have hcle : I.cost c ≤ costOf I.cost T := le_sumOver_of_mem I.cost T hTcost c hcT
  have hq : I.cost c / ((gsize V G : Nat) : Rat) ≤ b0 := by
    rw [div_le_iff₀ hgq]; linarith
  obtain ⟨j, hj, hlt⟩ := runAt_utility_bound h hord hne hb0 hW G hnd hvs hg c hcpool hcW hunn
    (I.cost c) hc (fun i hi => hT i hi c hcT) hq
  refine ⟨j, hj, ?_⟩
  have e1 : ((gsize V G : Nat) : Rat) * (b0 - I.cost c / ((gsize V G : Nat) : Rat)) =
      ((gsize V G : Nat) : Rat) * b0 - I.cost c := by field_simp
  have e2 : ((gsize V G : Nat) : Rat) *
      (I.cost c / (((gsize V G : Nat) : Rat) * I.cost c) * sumOver W (V.u j)) = sumOver W (V.u j) := by
    field_simp
  have := mul_lt_mul_of_pos_left hlt hgq
  rw [e1, e2] at this
  linarith

/-- **Cardinality_Sat shape** (`u i p ∈ {0, 1}`).  If `cost T ≤ |G| · b0`, every member of `G` approves all of `T` and
    `T ⊄ W`, then some member of `G` approves at least `|T|` projects of `W` (plain EJR). -/
theorem runAt_card_bound {V : VCtx} {I : Inst} {init : List Pid} (h : InputOK V I init)
    {order : List Pid → Except Err (List Pid)}
    (hord : ∀ T l, order T = .ok l → ∀ x ∈ l, x ∈ T) (hne : ∀ T, T ≠ [] → order T ≠ .ok [])
    {b0 : Rat} (hb0 : 0 ≤ b0) {W : List Pid} (hW : runAt V I init order b0 = .ok W)
    (G : List Nat) (hnd : G.Nodup) (hvs : ∀ i ∈ G, i ∈ V.vs) (hg : 0 < gsize V G)
    (T : List Pid) (hTnd : T.Nodup) (hTproj : ∀ p ∈ T, p ∈ I.projects)
    (hcoh : costOf I.cost T ≤ ((gsize V G : Nat) : Rat) * b0)
    (a : Nat → Pid → Bool) (hu : ∀ i ∈ G, ∀ p, V.u i p = if a i p = true then 1 else 0)
    (hT : ∀ i ∈ G, ∀ p ∈ T, a i p = true) (hmiss : ∃ p ∈ T, p ∉ W) :
    ∃ j ∈ G, (T.length : Rat) ≤ sumOver W (V.u j) := by
  have hgq : (0 : Rat) < ((gsize V G : Nat) : Rat) := by exact_mod_cast hg
  obtain ⟨_, hinitW, hWnd, _⟩ := runAt_bounds h hord hb0 hW
  have hTcost : ∀ p ∈ T, 0 ≤ I.cost p := fun p hp => h.cost_nonneg p (hTproj p hp)
  have huT : ∀ i ∈ G, ∀ p ∈ T, V.u i p = 1 := fun i hi p hp => by rw [hu i hi p, if_pos (hT i hi p hp)]
  have hunn : ∀ i ∈ G, ∀ p, 0 ≤ V.u i p := by
    intro i hi p
    rw [hu i hi p]
    by_cases hap : a i p = true
    · rw [if_pos hap]; norm_num
    · rw [if_neg hap]
  have hGne : G ≠ [] := by
    intro hG; rw [hG] at hg; simp [gsize, sumNat] at hg
  -- the cheapest project of `T` the run did not buy
  have hmne : T.filter (fun p => !W.contains p) ≠ [] := by
    obtain ⟨p, hp, hpW⟩ := hmiss
    intro hnil
    have : p ∈ T.filter (fun p => !W.contains p) := List.mem_filter.mpr ⟨hp, by simpa using hpW⟩
    rw [hnil] at this
    simp at this
  obtain ⟨c, hcm, hcmin⟩ := exists_min_image I.cost _ hmne
  have hcT : c ∈ T := (List.mem_filter.mp hcm).1
  have hcW : c ∉ W := by simpa using (List.mem_filter.mp hcm).2
  have hsup : ∀ i ∈ G, i ∈ supporters V c := fun i hi =>
    mem_supporters.mpr ⟨hvs i hi, by rw [huT i hi c hcT]; norm_num⟩
  obtain ⟨i0, hi0⟩ := List.exists_mem_of_ne_nil G hGne
  have hzero : ∀ p ∈ zeroCost V I init, p ∈ W := by
    obtain ⟨L, s', _, hrec, hWs, _⟩ := runAt_recorded hord hW
    intro p hp
    rw [hWs, hrec.alloc]
    apply List.mem_append_left
    show p ∈ init ++ zeroCost V I init
    exact List.mem_append_right _ hp
  have hcinit : c ∉ init := fun hci => hcW (hinitW c hci)
  have htot : 0 < totalSat V c := totalSat_pos h.mult (hsup i0 hi0)
  have hc : 0 < I.cost c := by
    by_contra hnot
    exact hcW (hzero c (mem_zeroCost.mpr ⟨hTproj c hcT, hcinit, htot, hnot⟩))
  have hcpool : c ∈ initPool V I init := mem_initPool.mpr ⟨hTproj c hcT, hcinit, htot, hc⟩
  have hcle : I.cost c ≤ costOf I.cost T := le_sumOver_of_mem I.cost T hTcost c hcT
  have hq : I.cost c / ((gsize V G : Nat) : Rat) ≤ b0 := by
    rw [div_le_iff₀ hgq]; linarith
  obtain ⟨j, hj, hlt⟩ := runAt_track h hord hne hb0 hW G hnd hg c hcpool hcW hsup hq
    (fun i p => V.u i p * (if p ∈ T then I.cost p / ((gsize V G : Nat) : Rat)
      else I.cost c / ((gsize V G : Nat) : Rat)))
    (by
      intro i hi p _
      apply mul_nonneg (hunn i hi p)
      by_cases hp : p ∈ T
      · rw [if_pos hp]; exact div_nonneg (hTcost p hp) (le_of_lt hgq)
      · rw [if_neg hp]; exact div_nonneg (le_of_lt hc) (le_of_lt hgq))
    (by
      intro st t r hgood hcp hrich ht hr i hi
      have hinv := hgood.1
      have hok : VOK V st.b := ⟨hinv.nonneg, h.mult⟩
      have hle := price_bounded_while_rich hok hcp hc G hnd hvs 1 (by norm_num)
        (fun i hi => huT i hi c hcT) hg hrich ht hr
      rw [mul_one] at hle
      have h1 := pay_le_mul V st.b t r i (hunn i hi t)
      have hut := hunn i hi t
      by_cases htT : t ∈ T
      · rw [if_pos htT]
        by_cases hct : I.cost t ≤ I.cost c
        · have hctpos : 0 < I.cost t := hinv.pool_pos t (tied_sub_pool ht)
          obtain ⟨r', hr', hle'⟩ := rho_le_of_rich hok hctpos G hnd hvs 1 (by norm_num)
            (fun i hi => huT i hi t htT) hg
            (fun i hi => le_trans (div_le_div_of_nonneg_right hct (le_of_lt hgq)) (hrich i hi))
          rw [hr] at hr'
          cases hr'
          rw [mul_one] at hle'
          have h2 := mul_le_mul_of_nonneg_right hle' hut
          linarith
        · have h3 : I.cost c / ((gsize V G : Nat) : Rat) ≤ I.cost t / ((gsize V G : Nat) : Rat) :=
            div_le_div_of_nonneg_right (le_of_lt (not_le.mp hct)) (le_of_lt hgq)
          have h2 := mul_le_mul_of_nonneg_right (le_trans hle h3) hut
          linarith
      · rw [if_neg htT]
        have h2 := mul_le_mul_of_nonneg_right hle hut
        linarith)
  refine ⟨j, hj, ?_⟩
  -- split `W` into its part inside `T` and the rest
  rw [sumOver_filter_add _ (fun p => decide (p ∈ T)) W] at hlt
  have hA : sumOver (W.filter (fun p => decide (p ∈ T)))
      (fun p => V.u j p * (if p ∈ T then I.cost p / ((gsize V G : Nat) : Rat)
        else I.cost c / ((gsize V G : Nat) : Rat))) =
      (1 / ((gsize V G : Nat) : Rat)) * sumOver (W.filter (fun p => decide (p ∈ T))) I.cost := by
    rw [← sumOver_mul_left]
    apply sumOver_eq
    intro p hp
    have hpT : p ∈ T := by simpa using (List.mem_filter.mp hp).2
    rw [huT j hj p hpT, if_pos hpT]; ring
  have hB : sumOver (W.filter (fun p => !decide (p ∈ T)))
      (fun p => V.u j p * (if p ∈ T then I.cost p / ((gsize V G : Nat) : Rat)
        else I.cost c / ((gsize V G : Nat) : Rat))) =
      (I.cost c / ((gsize V G : Nat) : Rat)) * sumOver (W.filter (fun p => !decide (p ∈ T))) (V.u j) := by
    rw [← sumOver_mul_left]
    apply sumOver_eq
    intro p hp
    have hpT : p ∉ T := by simpa using (List.mem_filter.mp hp).2
    rw [if_neg hpT]; ring
  rw [hA, hB] at hlt
  have hCW : sumOver (W.filter (fun p => decide (p ∈ T))) I.cost ≤
      sumOver (T.filter (fun p => W.contains p)) I.cost := by
    apply sumOver_subset_nodup _ (hWnd.filter _)
    · intro p hp
      have hp' := List.mem_filter.mp hp
      exact List.mem_filter.mpr ⟨by simpa using hp'.2, by simpa using hp'.1⟩
    · intro p hp; exact hTcost p (List.mem_filter.mp hp).1
  have hsplit : costOf I.cost T = sumOver (T.filter (fun p => W.contains p)) I.cost +
      sumOver (T.filter (fun p => !W.contains p)) I.cost := sumOver_filter_add I.cost _ T
  have hCM := length_mul_le_sumOver I.cost (I.cost c) _ hcmin
  have hmul := mul_lt_mul_of_pos_left hlt hgq
  have e1 : ((gsize V G : Nat) : Rat) * (b0 - I.cost c / ((gsize V G : Nat) : Rat)) =
      ((gsize V G : Nat) : Rat) * b0 - I.cost c := by field_simp
  have e2 : ((gsize V G : Nat) : Rat) *
      (1 / ((gsize V G : Nat) : Rat) * sumOver (W.filter (fun p => decide (p ∈ T))) I.cost +
        I.cost c / ((gsize V G : Nat) : Rat) * sumOver (W.filter (fun p => !decide (p ∈ T))) (V.u j)) =
      sumOver (W.filter (fun p => decide (p ∈ T))) I.cost +
        I.cost c * sumOver (W.filter (fun p => !decide (p ∈ T))) (V.u j) := by field_simp
  rw [e1, e2] at hmul
  -- the number of projects of `W` outside `T` that `j` approves
  have hK : sumOver (W.filter (fun p => !decide (p ∈ T))) (V.u j) =
      (((W.filter (fun p => !decide (p ∈ T))).filter (a j)).length : Rat) := by
    rw [← sumOver_indicator_length]
    apply sumOver_eq
    intro p _
    exact hu j hj p
  have hlt2 : ((T.filter (fun p => !W.contains p)).length : Rat) - 1 <
      sumOver (W.filter (fun p => !decide (p ∈ T))) (V.u j) := by
    have : (((T.filter (fun p => !W.contains p)).length : Rat) - 1) * I.cost c <
        sumOver (W.filter (fun p => !decide (p ∈ T))) (V.u j) * I.cost c := by nlinarith
    exact lt_of_mul_lt_mul_right this (le_of_lt hc)
  have hnat : (T.filter (fun p => !W.contains p)).length ≤
      ((W.filter (fun p => !decide (p ∈ T))).filter (a j)).length := by
    rw [hK] at hlt2
    have : ((T.filter (fun p => !W.contains p)).length : Rat) <
        (((W.filter (fun p => !decide (p ∈ T))).filter (a j)).length : Rat) + 1 := by linarith
    have : (T.filter (fun p => !W.contains p)).length <
        ((W.filter (fun p => !decide (p ∈ T))).filter (a j)).length + 1 := by exact_mod_cast this
    omega
  have hin : ((T.filter (fun p => W.contains p)).length : Rat) ≤
      sumOver (W.filter (fun p => decide (p ∈ T))) (V.u j) := by
    rw [← sumOver_one]
    have h1 : sumOver (T.filter (fun p => W.contains p)) (fun _ => (1 : Rat)) =
        sumOver (T.filter (fun p => W.contains p)) (V.u j) := by
      apply sumOver_eq
      intro p hp
      exact (huT j hj p (List.mem_filter.mp hp).1).symm
    rw [h1]
    apply sumOver_subset_nodup _ (hTnd.filter _)
    · intro p hp
      have hp' := List.mem_filter.mp hp
      exact List.mem_filter.mpr ⟨by simpa using hp'.2, by simpa using hp'.1⟩
    · intro p _; exact hunn j hj p
  have hlen : (T.length : Rat) = ((T.filter (fun p => W.contains p)).length : Rat) +
      ((T.filter (fun p => !W.contains p)).length : Rat) := by
    rw [← sumOver_one, ← sumOver_one, ← sumOver_one]
    exact sumOver_filter_add _ _ T
  rw [sumOver_filter_add (V.u j) (fun p => decide (p ∈ T)) W, hK, hlen]
  have : ((T.filter (fun p => !W.contains p)).length : Rat) ≤
      (((W.filter (fun p => !decide (p ∈ T))).filter (a j)).length : Rat) := by exact_mod_cast hnat
  linarith

end MesEJR
end Pabu
