/-
  Lemmas about the Method-of-Equal-Shares model (PabuModel/MES.lean):
  the supporter sweep finds the least price covering the cost exactly, the sort used by `MES.rho`
  is a sorted permutation, one purchase conserves money, structural invariants of the run,
  and the recorded run (`MES.trace`).
-/
import PabuModel.MES
import PabuProofs.Lemmas.RoundRule
import PabuProofs.Lemmas.RoundRuleExcept
import Mathlib.Tactic.Linarith
import Mathlib.Tactic.FieldSimp
import Mathlib.Tactic.Ring
import Mathlib.Tactic.Positivity
import Mathlib.Algebra.Order.Field.Rat
import Mathlib.Algebra.Order.Field.Basic
import Mathlib.Data.List.Basic
namespace Pabu

/-! ### The supporter sweep -/

/-- well-formed supporter entry: non-negative money, positive utility, at least one copy -/
def Sup.WF (s : Sup) : Prop := 0 ≤ s.b ∧ 0 < s.u ∧ 1 ≤ s.m

/-- sorted by `b/u` ascending, stated cross-multiplied -/
def SortedRatio (l : List Sup) : Prop := l.Pairwise (fun s t => s.b * t.u ≤ t.b * s.u)

theorem utilSum_pos : ∀ (l : List Sup), (∀ s ∈ l, s.WF) → l ≠ [] → 0 < utilSum l
  | [], _, h => absurd rfl h
  | s :: r, hw, _ => by
    have hs := hw s (by simp)
    have hm : (1:Rat) ≤ (s.m : Rat) := by exact_mod_cast hs.2.2
    have h1 : 0 < (s.m : Rat) * s.u := by have := hs.2.1; positivity
    by_cases hr : r = []
    · subst hr; simp [utilSum]; exact h1
    · have := utilSum_pos r (fun t ht => hw t (by simp [ht])) hr
      simp [utilSum]; linarith

theorem paySum_all_rich (rho : Rat) : ∀ (l : List Sup), (∀ t ∈ l, rho * t.u ≤ t.b) →
    paySum rho l = rho * utilSum l
  | [], _ => by simp [paySum, utilSum]
  | s :: r, h => by
    have hs := h s (by simp)
    have ih := paySum_all_rich rho r (fun t ht => h t (by simp [ht]))
    simp only [paySum, utilSum, ih, min_eq_right hs]; ring

/-- core induction: the sweep returns a price that covers `R` exactly, is at least `R / D`, and
    some supporter pays the full `ρ·u` at it. -/
theorem sweep_spec : ∀ (l : List Sup) (R : Rat),
    (∀ s ∈ l, s.WF) → SortedRatio l → l ≠ [] → 0 < R → R ≤ budSum l →
    ∃ rho, sweep R (utilSum l) l = some rho ∧ R / utilSum l ≤ rho ∧ paySum rho l = R ∧
      ∃ s ∈ l, rho * s.u ≤ s.b
  | [], _, _, _, h, _, _ => absurd rfl h
  | s :: rest, R, hw, hsort, _, hR, haff => by
    have hs := hw s (by simp)
    have hsort' := List.pairwise_cons.mp hsort
    have hm : (1:Rat) ≤ (s.m : Rat) := by exact_mod_cast hs.2.2
    have hD : 0 < utilSum (s :: rest) := utilSum_pos _ hw (by simp)
    by_cases htest : R / utilSum (s :: rest) * s.u ≤ s.b
    · refine ⟨R / utilSum (s :: rest), by simp [sweep, htest], le_refl _, ?_, s, by simp, htest⟩
      have hall : ∀ t ∈ s :: rest, R / utilSum (s :: rest) * t.u ≤ t.b := by
        intro t ht
        rcases List.mem_cons.mp ht with rfl | ht
        · exact htest
        · have h1 := hsort'.1 t ht
          have hu := (hw t (by simp [ht])).2.1
          have hsu := hs.2.1
          have h2 : R / utilSum (s :: rest) ≤ s.b / s.u := by
            rw [le_div_iff₀ hsu]; exact htest
          have h3 : s.b / s.u * t.u ≤ t.b := by
            rw [div_mul_eq_mul_div, div_le_iff₀ hsu]; exact h1
          calc R / utilSum (s :: rest) * t.u ≤ s.b / s.u * t.u := by
                apply mul_le_mul_of_nonneg_right h2 (le_of_lt hu)
            _ ≤ t.b := h3
      rw [paySum_all_rich _ _ hall]; field_simp
    · have htest' : s.b < R / utilSum (s :: rest) * s.u := not_le.mp htest
      have hDeq : utilSum (s :: rest) = (s.m:Rat) * s.u + utilSum rest := rfl
      have hBeq : budSum (s :: rest) = (s.m:Rat) * s.b + budSum rest := rfl
      set D := utilSum (s :: rest) with hDdef
      have hsu := hs.2.1
      have hRD : R / D * D = R := by field_simp
      have hrest : rest ≠ [] := by
        intro h; subst h
        simp [budSum] at haff; simp [utilSum] at hDeq
        have : (s.m:Rat) * s.b < (s.m:Rat) * (R / D * s.u) := by
          apply mul_lt_mul_of_pos_left htest'; linarith
        have h4 : (s.m:Rat) * (R / D * s.u) = R := by rw [hDeq] at hRD ⊢; field_simp
        linarith
      have hD' : 0 < utilSum rest := utilSum_pos _ (fun t ht => hw t (by simp [ht])) hrest
      have hpoor : (s.m:Rat) * s.b < (s.m:Rat) * (R / D * s.u) := by
        apply mul_lt_mul_of_pos_left htest'; linarith
      have hkey : R / D * utilSum rest < R - (s.m:Rat) * s.b := by
        have : R / D * utilSum rest = R - (s.m:Rat) * (R / D * s.u) := by
          have : R / D * D = R / D * ((s.m:Rat) * s.u + utilSum rest) := by rw [hDeq]
          linarith [this, hRD]
        linarith
      have hR' : 0 < R - (s.m:Rat) * s.b := by
        have : 0 ≤ R / D * utilSum rest := by positivity
        linarith
      obtain ⟨rho, hsw, hge, hpay, w, hwmem, hwrich⟩ := sweep_spec rest (R - s.m * s.b)
        (fun t ht => hw t (by simp [ht])) hsort'.2 hrest hR' (by linarith)
      have hmono : R / D < rho := by
        have : R / D < (R - (s.m:Rat) * s.b) / utilSum rest := by
          rw [lt_div_iff₀ hD']; exact hkey
        linarith
      refine ⟨rho, ?_, le_of_lt hmono, ?_, w, by simp [hwmem], hwrich⟩
      · have : sweep R D (s :: rest) = sweep (R - s.m * s.b) (D - s.m * s.u) rest := by
          simp [sweep, htest]
        rw [this]
        have : D - (s.m:Rat) * s.u = utilSum rest := by rw [hDeq]; ring
        rw [this]; exact hsw
      · have hmin : min s.b (rho * s.u) = s.b := by
          apply min_eq_left
          have : R / D * s.u < rho * s.u := mul_lt_mul_of_pos_right hmono hsu
          linarith
        simp only [paySum, hmin, hpay]; ring

theorem paySum_mono {r' r : Rat} (h : r' ≤ r) : ∀ (l : List Sup), (∀ s ∈ l, 0 ≤ s.u) →
    paySum r' l ≤ paySum r l
  | [], _ => le_refl _
  | s :: rest, hu => by
    have ih := paySum_mono h rest (fun t ht => hu t (by simp [ht]))
    have h1 : r' * s.u ≤ r * s.u := mul_le_mul_of_nonneg_right h (hu s (by simp))
    have h2 : min s.b (r' * s.u) ≤ min s.b (r * s.u) := min_le_min_left _ h1
    have hm : (0:Rat) ≤ (s.m : Rat) := by positivity
    have h3 := mul_le_mul_of_nonneg_left h2 hm
    simp only [paySum]; linarith

theorem paySum_strictMono {r' r : Rat} (h : r' < r) : ∀ (l : List Sup), (∀ s ∈ l, s.WF) →
    (∃ s ∈ l, r * s.u ≤ s.b) → paySum r' l < paySum r l
  | [], _, ⟨_, hs, _⟩ => by simp at hs
  | s :: rest, hw, ⟨w, hwmem, hwrich⟩ => by
    have hs := hw s (by simp)
    have hm : (1:Rat) ≤ (s.m : Rat) := by exact_mod_cast hs.2.2
    have hm0 : (0:Rat) < (s.m : Rat) := by linarith
    have hwr : ∀ t ∈ rest, t.WF := fun t ht => hw t (by simp [ht])
    have hur : ∀ t ∈ rest, 0 ≤ t.u := fun t ht => le_of_lt (hwr t ht).2.1
    have h1 : r' * s.u < r * s.u := mul_lt_mul_of_pos_right h hs.2.1
    simp only [paySum]
    rcases List.mem_cons.mp hwmem with rfl | hwmem
    · have hle := paySum_mono (le_of_lt h) rest hur
      have h2 : min w.b (r' * w.u) < min w.b (r * w.u) := by
        rw [min_eq_right hwrich]; exact lt_of_le_of_lt (min_le_right _ _) h1
      have h3 := mul_lt_mul_of_pos_left h2 hm0
      linarith
    · have hlt := paySum_strictMono h rest hwr ⟨w, hwmem, hwrich⟩
      have h2 : min s.b (r' * s.u) ≤ min s.b (r * s.u) := min_le_min_left _ (le_of_lt h1)
      have h3 := mul_le_mul_of_nonneg_left h2 (le_of_lt hm0)
      linarith

theorem budSum_nil_of_pos {l : List Sup} {C : Rat} (hC : 0 < C) (h : C ≤ budSum l) : l ≠ [] := by
  intro hl; subst hl; simp [budSum] at h; linarith

/-- (1) the sweep over a ratio-sorted supporter list returns a price at which the supporters,
    each paying `min(b, ρ·u)` per copy, cover the cost exactly -/
theorem sweep_exact (l : List Sup) (C D : Rat) (hw : ∀ s ∈ l, s.WF) (hsort : SortedRatio l)
    (hC : 0 < C) (haff : C ≤ budSum l) (hD : D = utilSum l) :
    ∃ rho, sweep C D l = some rho ∧ paySum rho l = C := by
  subst hD
  obtain ⟨rho, h1, _, h2, _⟩ := sweep_spec l C hw hsort (budSum_nil_of_pos hC haff) hC haff
  exact ⟨rho, h1, h2⟩

/-- (2) … and that price is positive and the least one at which the supporters cover the cost -/
theorem sweep_least (l : List Sup) (C D : Rat) (hw : ∀ s ∈ l, s.WF) (hsort : SortedRatio l)
    (hC : 0 < C) (haff : C ≤ budSum l) (hD : D = utilSum l) :
    ∃ rho, sweep C D l = some rho ∧ paySum rho l = C ∧ 0 < rho ∧
      ∀ rho', C ≤ paySum rho' l → rho ≤ rho' := by
  subst hD
  have hne := budSum_nil_of_pos hC haff
  obtain ⟨rho, h1, h2, h3, h4⟩ := sweep_spec l C hw hsort hne hC haff
  refine ⟨rho, h1, h3, ?_, ?_⟩
  · have := utilSum_pos l hw hne
    have : 0 < C / utilSum l := by positivity
    linarith
  · intro rho' hcov
    by_contra hlt
    have := paySum_strictMono (not_le.mp hlt) l hw h4
    linarith

/-! ### The stable insertion sort is a sorted permutation -/

namespace MES

theorem insertLe_perm {α : Type} (le : α → α → Bool) (x : α) :
    ∀ l : List α, (insertLe le x l).Perm (x :: l)
  | [] => by simp [insertLe]
  | y :: ys => by
    unfold insertLe
    by_cases h : le x y = true
    · rw [if_pos h]
    · rw [if_neg h]
      exact ((insertLe_perm le x ys).cons y).trans (List.Perm.swap x y ys)

theorem sortLe_cons {α : Type} (le : α → α → Bool) (a : α) (l : List α) :
    sortLe le (a :: l) = insertLe le a (sortLe le l) := rfl

theorem sortLe_perm {α : Type} (le : α → α → Bool) : ∀ l : List α, (sortLe le l).Perm l
  | [] => List.Perm.refl _
  | a :: l => by
    rw [sortLe_cons]
    exact (insertLe_perm le a _).trans ((sortLe_perm le l).cons a)

theorem insertLe_pairwise {α : Type} {le : α → α → Bool}
    (tot : ∀ a b, le a b = true ∨ le b a = true)
    (trans : ∀ a b c, le a b = true → le b c = true → le a c = true) (x : α) :
    ∀ l : List α, l.Pairwise (fun a b => le a b = true) →
      (insertLe le x l).Pairwise (fun a b => le a b = true)
  | [], _ => by simp [insertLe]
  | y :: ys, h => by
    have h' := List.pairwise_cons.mp h
    unfold insertLe
    by_cases hxy : le x y = true
    · rw [if_pos hxy]
      refine List.pairwise_cons.mpr ⟨?_, h⟩
      intro z hz
      rcases List.mem_cons.mp hz with rfl | hz
      · exact hxy
      · exact trans _ _ _ hxy (h'.1 z hz)
    · rw [if_neg hxy]
      refine List.pairwise_cons.mpr ⟨?_, insertLe_pairwise tot trans x ys h'.2⟩
      intro z hz
      have hz' := (insertLe_perm le x ys).mem_iff.mp hz
      rcases List.mem_cons.mp hz' with rfl | hz'
      · rcases tot y z with h1 | h1
        · exact h1
        · exact absurd h1 hxy
      · exact h'.1 z hz'

theorem sortLe_pairwise {α : Type} {le : α → α → Bool}
    (tot : ∀ a b, le a b = true ∨ le b a = true)
    (trans : ∀ a b c, le a b = true → le b c = true → le a c = true) :
    ∀ l : List α, (sortLe le l).Pairwise (fun a b => le a b = true)
  | [] => List.Pairwise.nil
  | a :: l => by
    rw [sortLe_cons]
    exact insertLe_pairwise tot trans a _ (sortLe_pairwise tot trans l)

end MES

theorem ratioLe_total (a b : Sup) : ratioLe a b = true ∨ ratioLe b a = true := by
  unfold ratioLe
  rcases le_total (a.b / a.u) (b.b / b.u) with h | h
  · left; exact decide_eq_true h
  · right; exact decide_eq_true h

theorem ratioLe_trans (a b c : Sup) (h1 : ratioLe a b = true) (h2 : ratioLe b c = true) :
    ratioLe a c = true := by
  unfold ratioLe at *
  exact decide_eq_true (le_trans (of_decide_eq_true h1) (of_decide_eq_true h2))

/-- (3a) the list swept by `MES.rho` is sorted by `b/u` … -/
theorem sortLe_ratioLe_sorted (l : List Sup) (hw : ∀ s ∈ l, s.WF) :
    SortedRatio (sortLe ratioLe l) := by
  have hp := MES.sortLe_pairwise ratioLe_total ratioLe_trans l
  unfold SortedRatio
  refine List.Pairwise.imp_of_mem ?_ hp
  intro s t hs ht hst
  have hs' := hw s ((MES.sortLe_perm ratioLe l).mem_iff.mp hs)
  have ht' := hw t ((MES.sortLe_perm ratioLe l).mem_iff.mp ht)
  unfold ratioLe at hst
  have := of_decide_eq_true hst
  rw [div_le_iff₀ hs'.2.1, div_mul_eq_mul_div, le_div_iff₀ ht'.2.1] at this
  exact this

/-- (3b) … and a permutation of the supporters -/
theorem sortLe_ratioLe_perm (l : List Sup) : (sortLe ratioLe l).Perm l := MES.sortLe_perm _ l

theorem paySum_perm (r : Rat) {l l' : List Sup} (h : l.Perm l') : paySum r l = paySum r l' := by
  induction h with
  | nil => rfl
  | cons x _ ih => simp only [paySum, ih]
  | swap x y l => simp only [paySum]; ring
  | trans _ _ ih1 ih2 => exact ih1.trans ih2

theorem budSum_perm {l l' : List Sup} (h : l.Perm l') : budSum l = budSum l' := by
  induction h with
  | nil => rfl
  | cons x _ ih => simp only [budSum, ih]
  | swap x y l => simp only [budSum]; ring
  | trans _ _ ih1 ih2 => exact ih1.trans ih2

theorem utilSum_perm {l l' : List Sup} (h : l.Perm l') : utilSum l = utilSum l' := by
  induction h with
  | nil => rfl
  | cons x _ ih => simp only [utilSum, ih]
  | swap x y l => simp only [utilSum]; ring
  | trans _ _ ih1 ih2 => exact ih1.trans ih2

/-! ### `MES.rho` -/

namespace MES

/-- the hypotheses on voters and budgets under which the sweep is analysed -/
structure VOK (V : VCtx) (b : Nat → Rat) : Prop where
  nonneg : ∀ i ∈ V.vs, 0 ≤ b i
  mult : ∀ i ∈ V.vs, 1 ≤ V.m i

theorem mem_supporters {V : VCtx} {p : Pid} {i : Nat} :
    i ∈ supporters V p ↔ i ∈ V.vs ∧ 0 < V.u i p := by
  unfold supporters; simp

theorem sups_wf {V : VCtx} {b : Nat → Rat} (h : VOK V b) (p : Pid) : ∀ s ∈ sups V b p, s.WF := by
  intro s hs
  unfold sups at hs
  obtain ⟨i, hi, rfl⟩ := List.mem_map.mp hs
  have hi' := mem_supporters.mp hi
  exact ⟨h.nonneg i hi'.1, hi'.2, h.mult i hi'.1⟩

/-- full specification of `rho` when it returns a price -/
theorem rho_spec {V : VCtx} {cost : Pid → Rat} {b : Nat → Rat} {p : Pid} {r : Rat}
    (h : VOK V b) (hc : 0 < cost p) (hr : rho V cost b p = some r) :
    paySum r (sups V b p) = cost p ∧ 0 < r ∧ ∀ r', cost p ≤ paySum r' (sups V b p) → r ≤ r' := by
  unfold rho at hr
  by_cases haff : budSum (sups V b p) < cost p
  · rw [if_pos haff] at hr; cases hr
  · rw [if_neg haff] at hr
    have hperm := sortLe_ratioLe_perm (sups V b p)
    have hw : ∀ s ∈ sortLe ratioLe (sups V b p), s.WF :=
      fun s hs => sups_wf h p s (hperm.mem_iff.mp hs)
    obtain ⟨r0, h1, h2, h3, h4⟩ := sweep_least (sortLe ratioLe (sups V b p)) (cost p)
      (utilSum (sups V b p)) hw (sortLe_ratioLe_sorted _ (sups_wf h p)) hc
      (by rw [budSum_perm hperm]; exact not_lt.mp haff) (utilSum_perm hperm).symm
    rw [h1] at hr
    cases hr
    refine ⟨by rw [← paySum_perm _ hperm]; exact h2, h3, ?_⟩
    intro r' hr'
    exact h4 r' (by rw [paySum_perm _ hperm]; exact hr')

/-- (3c) the price returned for a project makes its supporters cover the cost exactly -/
theorem rho_exact {V : VCtx} {cost : Pid → Rat} {b : Nat → Rat} {p : Pid} {r : Rat}
    (h : VOK V b) (hc : 0 < cost p) (hr : rho V cost b p = some r) :
    paySum r (sups V b p) = cost p := (rho_spec h hc hr).1

theorem rho_pos {V : VCtx} {cost : Pid → Rat} {b : Nat → Rat} {p : Pid} {r : Rat}
    (h : VOK V b) (hc : 0 < cost p) (hr : rho V cost b p = some r) : 0 < r := (rho_spec h hc hr).2.1

theorem rho_least {V : VCtx} {cost : Pid → Rat} {b : Nat → Rat} {p : Pid} {r : Rat}
    (h : VOK V b) (hc : 0 < cost p) (hr : rho V cost b p = some r) :
    ∀ r', cost p ≤ paySum r' (sups V b p) → r ≤ r' := (rho_spec h hc hr).2.2

/-- (3d) no price is returned exactly when the supporters together hold less than the cost -/
theorem rho_none_iff {V : VCtx} {cost : Pid → Rat} {b : Nat → Rat} {p : Pid}
    (h : VOK V b) (hc : 0 < cost p) :
    rho V cost b p = none ↔ budSum (sups V b p) < cost p := by
  constructor
  · intro hr
    by_contra haff
    unfold rho at hr
    rw [if_neg haff] at hr
    have hperm := sortLe_ratioLe_perm (sups V b p)
    have hw : ∀ s ∈ sortLe ratioLe (sups V b p), s.WF :=
      fun s hs => sups_wf h p s (hperm.mem_iff.mp hs)
    obtain ⟨r0, h1, _⟩ := sweep_exact (sortLe ratioLe (sups V b p)) (cost p)
      (utilSum (sups V b p)) hw (sortLe_ratioLe_sorted _ (sups_wf h p)) hc
      (by rw [budSum_perm hperm]; exact not_lt.mp haff) (utilSum_perm hperm).symm
    rw [h1] at hr; cases hr
  · intro haff
    unfold rho
    rw [if_pos haff]

/-! ### One purchase: who pays what -/

/-- "only supporters pay" -/
theorem pay_nonsupporter (V : VCtx) (b : Nat → Rat) (t : Pid) (r : Rat) (i : Nat)
    (h : ¬ 0 < V.u i t) : pay V b t r i = 0 := by
  unfold pay; rw [if_neg h]

/-- "everybody pays min(own money, ρ × own utility) for one common ρ" -/
theorem pay_supporter (V : VCtx) (b : Nat → Rat) (t : Pid) (r : Rat) (i : Nat)
    (h : 0 < V.u i t) : pay V b t r i = min (b i) (r * V.u i t) := by
  unfold pay; rw [if_pos h]

/-- "nobody pays more than they hold" -/
theorem pay_le (V : VCtx) (b : Nat → Rat) (t : Pid) (r : Rat) (i : Nat) (hb : 0 ≤ b i) :
    pay V b t r i ≤ b i := by
  unfold pay
  by_cases h : 0 < V.u i t
  · rw [if_pos h]; exact min_le_left _ _
  · rw [if_neg h]; exact hb

theorem pay_nonneg (V : VCtx) (b : Nat → Rat) (t : Pid) (r : Rat) (i : Nat) (hb : 0 ≤ b i)
    (hr : 0 ≤ r) : 0 ≤ pay V b t r i := by
  unfold pay
  by_cases h : 0 < V.u i t
  · rw [if_pos h]; exact le_min hb (mul_nonneg hr (le_of_lt h))
  · rw [if_neg h]

theorem pay_sum_list (V : VCtx) (b : Nat → Rat) (t : Pid) (r : Rat) : ∀ l : List Nat,
    sumOver l (fun i => (V.m i : Rat) * pay V b t r i) =
      paySum r ((l.filter (fun i => decide (0 < V.u i t))).map (fun i => ⟨b i, V.u i t, V.m i⟩))
  | [] => rfl
  | i :: l => by
    have ih := pay_sum_list V b t r l
    by_cases h : 0 < V.u i t
    · rw [List.filter_cons_of_pos (by simpa using h)]
      simp only [sumOver, List.map_cons, paySum, ih, pay_supporter V b t r i h]
    · rw [List.filter_cons_of_neg (by simpa using h)]
      simp only [sumOver, ih, pay_nonsupporter V b t r i h]; ring

/-- the payments, weighted by multiplicity, are the `paySum` of the supporter list -/
theorem pay_sum (V : VCtx) (b : Nat → Rat) (t : Pid) (r : Rat) :
    sumOver V.vs (fun i => (V.m i : Rat) * pay V b t r i) = paySum r (sups V b t) :=
  pay_sum_list V b t r V.vs

/-- "the payments (weighted by multiplicity) add up exactly to the project's cost" -/
theorem pay_total {V : VCtx} {cost : Pid → Rat} {b : Nat → Rat} {t : Pid} {r : Rat}
    (h : VOK V b) (hc : 0 < cost t) (hr : rho V cost b t = some r) :
    sumOver V.vs (fun i => (V.m i : Rat) * pay V b t r i) = cost t := by
  rw [pay_sum]; exact rho_exact h hc hr

/-! ### The tied set is the arg-min of `rho` over the pool -/

theorem minRat_none : ∀ {l : List Rat}, minRat l = none → l = []
  | [], _ => rfl
  | x :: xs, h => by
    unfold minRat at h
    cases hm : minRat xs with
    | none => rw [hm] at h; cases h
    | some y => rw [hm] at h; cases h

theorem minRat_some : ∀ {l : List Rat} {m : Rat}, minRat l = some m → m ∈ l ∧ ∀ x ∈ l, m ≤ x
  | [], _, h => by cases h
  | x :: xs, m, h => by
    unfold minRat at h
    cases hm : minRat xs with
    | none =>
      rw [hm] at h
      have hxs := minRat_none hm
      subst hxs
      cases h
      simp
    | some y =>
      rw [hm] at h
      dsimp only at h
      have ih := minRat_some hm
      by_cases hxy : x ≤ y
      · rw [if_pos hxy] at h; cases h
        refine ⟨by simp, ?_⟩
        intro z hz
        rcases List.mem_cons.mp hz with rfl | hz
        · exact le_refl _
        · exact le_trans hxy (ih.2 z hz)
      · rw [if_neg hxy] at h; cases h
        refine ⟨by simp [ih.1], ?_⟩
        intro z hz
        rcases List.mem_cons.mp hz with rfl | hz
        · exact le_of_lt (not_le.mp hxy)
        · exact ih.2 z hz

theorem mem_affordable {V : VCtx} {cost : Pid → Rat} {s : State} {p : Pid} {r : Rat} :
    (p, r) ∈ affordable V cost s ↔ p ∈ s.pool ∧ rho V cost s.b p = some r := by
  unfold affordable
  rw [List.mem_filterMap]
  constructor
  · rintro ⟨q, hq, h⟩
    cases hr : rho V cost s.b q with
    | none => rw [hr] at h; cases h
    | some r' =>
      rw [hr] at h
      simp only [Option.map_some, Option.some.injEq, Prod.mk.injEq] at h
      obtain ⟨rfl, rfl⟩ := h
      exact ⟨hq, hr⟩
  · rintro ⟨hp, hr⟩
    exact ⟨p, hp, by rw [hr]; rfl⟩

/-- the projects tied in a round are exactly the pool projects whose price is defined and minimal -/
theorem mem_tied {V : VCtx} {cost : Pid → Rat} {s : State} {t : Pid} :
    t ∈ tied V cost s ↔ t ∈ s.pool ∧ ∃ r, rho V cost s.b t = some r ∧ best V cost s = some r ∧
      ∀ q ∈ s.pool, ∀ r', rho V cost s.b q = some r' → r ≤ r' := by
  unfold tied
  constructor
  · intro h
    cases hb : best V cost s with
    | none => rw [hb] at h; simp at h
    | some r =>
      rw [hb] at h
      simp only [List.mem_map, List.mem_filter, decide_eq_true_eq] at h
      obtain ⟨⟨p, r'⟩, ⟨hmem, hrr⟩, hpt⟩ := h
      simp only at hrr hpt
      subst hrr hpt
      have hm := mem_affordable.mp hmem
      refine ⟨hm.1, r', hm.2, rfl, ?_⟩
      intro q hq r'' hq'
      unfold best at hb
      exact (minRat_some hb).2 r'' (List.mem_map.mpr ⟨(q, r''), mem_affordable.mpr ⟨hq, hq'⟩, rfl⟩)
  · rintro ⟨hp, r, hr, hb, _⟩
    rw [hb]
    simp only [List.mem_map, List.mem_filter, decide_eq_true_eq]
    exact ⟨(t, r), ⟨mem_affordable.mpr ⟨hp, hr⟩, rfl⟩, rfl⟩

theorem best_of_affordable {V : VCtx} {cost : Pid → Rat} {s : State} {p : Pid} {r : Rat}
    (hp : p ∈ s.pool) (hr : rho V cost s.b p = some r) :
    ∃ q r0, q ∈ s.pool ∧ rho V cost s.b q = some r0 ∧ best V cost s = some r0 := by
  cases hb : best V cost s with
  | none =>
    unfold best at hb
    have := minRat_none hb
    have hmem : r ∈ (affordable V cost s).map Prod.snd :=
      List.mem_map.mpr ⟨(p, r), mem_affordable.mpr ⟨hp, hr⟩, rfl⟩
    rw [this] at hmem; simp at hmem
  | some r0 =>
    have hb' := hb
    unfold best at hb'
    obtain ⟨⟨q, r1⟩, hq, hq1⟩ := List.mem_map.mp (minRat_some hb').1
    simp only at hq1; subst hq1
    have := mem_affordable.mp hq
    exact ⟨q, r1, this.1, this.2, rfl⟩

/-- a project is tied iff its price is defined and no pool project has a smaller one -/
theorem mem_tied_iff {V : VCtx} {cost : Pid → Rat} {s : State} {t : Pid} :
    t ∈ tied V cost s ↔ t ∈ s.pool ∧ ∃ r, rho V cost s.b t = some r ∧
      ∀ q ∈ s.pool, ∀ r', rho V cost s.b q = some r' → r ≤ r' := by
  constructor
  · intro h
    obtain ⟨hp, r, hr, _, hmin⟩ := mem_tied.mp h
    exact ⟨hp, r, hr, hmin⟩
  · rintro ⟨hp, r, hr, hmin⟩
    obtain ⟨q, r0, hq, hq0, hb⟩ := best_of_affordable hp hr
    have h1 : r ≤ r0 := hmin q hq r0 hq0
    have h2 : r0 ≤ r := by
      have hb' := hb
      unfold best at hb'
      exact (minRat_some hb').2 r (List.mem_map.mpr ⟨(t, r), mem_affordable.mpr ⟨hp, hr⟩, rfl⟩)
    have : r0 = r := le_antisymm h2 h1
    subst this
    exact mem_tied.mpr ⟨hp, r0, hr, hb, hmin⟩

/-- terminal condition: nothing is tied iff no pool project has a price -/
theorem tied_nil_iff {V : VCtx} {cost : Pid → Rat} {s : State} :
    tied V cost s = [] ↔ ∀ p ∈ s.pool, rho V cost s.b p = none := by
  constructor
  · intro h p hp
    cases hr : rho V cost s.b p with
    | none => rfl
    | some r =>
      exfalso
      obtain ⟨q, r0, hq, hq0, hb⟩ := best_of_affordable hp hr
      have : q ∈ tied V cost s := by
        refine mem_tied.mpr ⟨hq, r0, hq0, hb, ?_⟩
        intro q' hq' r' hr'
        have hb' := hb
        unfold best at hb'
        exact (minRat_some hb').2 r' (List.mem_map.mpr ⟨(q', r'), mem_affordable.mpr ⟨hq', hr'⟩, rfl⟩)
      rw [h] at this; simp at this
  · intro h
    cases ht : tied V cost s with
    | nil => rfl
    | cons t l =>
      exfalso
      have : t ∈ tied V cost s := by rw [ht]; simp
      obtain ⟨hp, r, hr, _⟩ := mem_tied.mp this
      rw [h t hp] at hr; cases hr

theorem tied_sub_pool {V : VCtx} {cost : Pid → Rat} {s : State} {t : Pid}
    (h : t ∈ tied V cost s) : t ∈ s.pool := (mem_tied.mp h).1

theorem tied_rho {V : VCtx} {cost : Pid → Rat} {s : State} {t : Pid}
    (h : t ∈ tied V cost s) : ∃ r, rho V cost s.b t = some r ∧ best V cost s = some r := by
  obtain ⟨_, r, hr, hb, _⟩ := mem_tied.mp h
  exact ⟨r, hr, hb⟩

/-! ### Conservation of money (one purchase) -/

/-- money invariant of a state: nobody is overdrawn, pool projects have positive cost, and the
    money held (with multiplicity) plus the money spent is the constant `B` -/
structure Inv (V : VCtx) (cost : Pid → Rat) (B : Rat) (s : State) : Prop where
  nonneg : ∀ i ∈ V.vs, 0 ≤ s.b i
  pool_pos : ∀ p ∈ s.pool, 0 < cost p
  conserve : sumOver V.vs (fun i => (V.m i : Rat) * s.b i) + costOf cost s.alloc = B

theorem sumOver_sub {α : Type} (f g : α → Rat) : ∀ l : List α,
    sumOver l (fun x => f x - g x) = sumOver l f - sumOver l g
  | [] => by simp [sumOver]
  | x :: xs => by simp only [sumOver, sumOver_sub f g xs]; ring

theorem sumOver_append {α : Type} (f : α → Rat) : ∀ l l' : List α,
    sumOver (l ++ l') f = sumOver l f + sumOver l' f
  | [], l' => by simp [sumOver]
  | x :: xs, l' => by simp only [List.cons_append, sumOver, sumOver_append f xs l']; ring

theorem buy_some {V : VCtx} {cost : Pid → Rat} {s : State} {t : Pid} {r : Rat}
    (hr : rho V cost s.b t = some r) :
    buy V cost s t = { b := fun i => s.b i - pay V s.b t r i
                       pool := s.pool.filter (fun q => q != t)
                       alloc := s.alloc ++ [t] } := by
  unfold buy; rw [hr]

theorem buy_pool (V : VCtx) (cost : Pid → Rat) (s : State) (t : Pid) :
    (buy V cost s t).pool = s.pool.filter (fun q => q != t) := by
  unfold buy
  cases rho V cost s.b t <;> rfl

/-- (4) buying a tied project keeps the money invariant: no overdraft, money conserved -/
theorem buy_inv {V : VCtx} {cost : Pid → Rat} {B : Rat} (hm : ∀ i ∈ V.vs, 1 ≤ V.m i)
    {s : State} {t : Pid} (ht : t ∈ tied V cost s) (h : Inv V cost B s) :
    Inv V cost B (buy V cost s t) := by
  obtain ⟨r, hr, _⟩ := tied_rho ht
  have hc : 0 < cost t := h.pool_pos t (tied_sub_pool ht)
  have hok : VOK V s.b := ⟨h.nonneg, hm⟩
  have htot := pay_total hok hc hr
  refine ⟨?_, ?_, ?_⟩
  · intro i hi
    rw [buy_some hr]
    have := pay_le V s.b t r i (h.nonneg i hi)
    simp only; linarith
  · intro p hp
    rw [buy_pool] at hp
    exact h.pool_pos p (List.mem_filter.mp hp).1
  · rw [buy_some hr]
    simp only [costOf, sumOver_append]
    have h1 : sumOver V.vs (fun i => (V.m i : Rat) * (s.b i - pay V s.b t r i)) =
        sumOver V.vs (fun i => (V.m i : Rat) * s.b i) -
          sumOver V.vs (fun i => (V.m i : Rat) * pay V s.b t r i) := by
      rw [← sumOver_sub]; congr 1; funext i; ring
    rw [h1, htot]
    have h2 := h.conserve
    simp only [costOf] at h2
    simp only [sumOver]
    linarith

/-! ### Structure of the allocation (one purchase) -/

/-- set-structure invariant of a state relative to the instance and the initial allocation -/
structure Shape (I : Inst) (init : List Pid) (s : State) : Prop where
  alloc_nodup : s.alloc.Nodup
  alloc_sub : ∀ p ∈ s.alloc, p ∈ I.projects
  init_sub : ∀ p ∈ init, p ∈ s.alloc
  pool_sub : ∀ p ∈ s.pool, p ∈ I.projects
  disjoint : ∀ p ∈ s.pool, p ∉ s.alloc

theorem buy_shape {V : VCtx} {cost : Pid → Rat} {I : Inst} {init : List Pid}
    {s : State} {t : Pid} (ht : t ∈ tied V cost s) (h : Shape I init s) :
    Shape I init (buy V cost s t) := by
  obtain ⟨r, hr, _⟩ := tied_rho ht
  have htp := tied_sub_pool ht
  rw [buy_some hr]
  refine ⟨?_, ?_, ?_, ?_, ?_⟩
  · simp only
    rw [List.nodup_append]
    refine ⟨h.alloc_nodup, by simp, ?_⟩
    intro a ha b hb
    have : b = t := by simpa using hb
    subst this
    intro hab; subst hab
    exact h.disjoint _ htp ha
  · intro p hp
    simp only [List.mem_append, List.mem_singleton] at hp
    rcases hp with hp | rfl
    · exact h.alloc_sub p hp
    · exact h.pool_sub _ htp
  · intro p hp
    simp only [List.mem_append]
    exact Or.inl (h.init_sub p hp)
  · intro p hp
    exact h.pool_sub p (List.mem_filter.mp hp).1
  · intro p hp
    have hp' := List.mem_filter.mp hp
    simp only [List.mem_append, List.mem_singleton, not_or]
    refine ⟨h.disjoint p hp'.1, ?_⟩
    have := hp'.2
    simpa using this

/-! ### The initial state -/

theorem mem_sortIds {l : List Pid} {p : Pid} : p ∈ sortIds l ↔ p ∈ l :=
  (sortLe_perm _ l).mem_iff

theorem nodup_sortIds {l : List Pid} (h : l.Nodup) : (sortIds l).Nodup :=
  (sortLe_perm _ l).nodup_iff.mpr h

theorem mem_initPool {V : VCtx} {I : Inst} {init : List Pid} {p : Pid} :
    p ∈ initPool V I init ↔ p ∈ I.projects ∧ p ∉ init ∧ 0 < totalSat V p ∧ 0 < I.cost p := by
  unfold initPool
  simp [mem_sortIds, and_assoc]

theorem mem_zeroCost {V : VCtx} {I : Inst} {init : List Pid} {p : Pid} :
    p ∈ zeroCost V I init ↔ p ∈ I.projects ∧ p ∉ init ∧ 0 < totalSat V p ∧ ¬ 0 < I.cost p := by
  unfold zeroCost
  simp [mem_sortIds, and_assoc]

theorem initState_shape (V : VCtx) (I : Inst) (init : List Pid) (b0 : Rat)
    (hproj : I.projects.Nodup) (hinit : ∀ p ∈ init, p ∈ I.projects) (hnd : init.Nodup) :
    Shape I init (initState V I init b0) := by
  unfold initState
  refine ⟨?_, ?_, ?_, ?_, ?_⟩
  · simp only
    rw [List.nodup_append]
    refine ⟨hnd, ?_, ?_⟩
    · unfold zeroCost; exact (nodup_sortIds hproj).filter _
    · intro a ha b hb hab
      subst hab
      exact (mem_zeroCost.mp hb).2.1 ha
  · intro p hp
    simp only [List.mem_append] at hp
    rcases hp with hp | hp
    · exact hinit p hp
    · exact (mem_zeroCost.mp hp).1
  · intro p hp; simp only [List.mem_append]; exact Or.inl hp
  · intro p hp; exact (mem_initPool.mp hp).1
  · intro p hp
    have hp' := mem_initPool.mp hp
    simp only [List.mem_append, not_or]
    exact ⟨hp'.2.1, fun hz => (mem_zeroCost.mp hz).2.2.2 hp'.2.2.2⟩

theorem sumOver_const_mul (m : Nat → Nat) (c : Rat) : ∀ l : List Nat,
    sumOver l (fun i => (m i : Rat) * c) = (sumNat l m : Rat) * c
  | [] => by simp [sumOver, sumNat]
  | x :: xs => by
    simp only [sumOver, sumNat, sumOver_const_mul m c xs]; push_cast; ring

theorem sumOver_nonneg {α : Type} (f : α → Rat) : ∀ l : List α, (∀ x ∈ l, 0 ≤ f x) →
    0 ≤ sumOver l f
  | [], _ => le_refl _
  | x :: xs, h => by
    have h1 := h x (by simp)
    have h2 := sumOver_nonneg f xs (fun y hy => h y (by simp [hy]))
    simp only [sumOver]; linarith

theorem sumOver_zero {α : Type} (f : α → Rat) : ∀ l : List α, (∀ x ∈ l, f x = 0) →
    sumOver l f = 0
  | [], _ => rfl
  | x :: xs, h => by
    have h1 := h x (by simp)
    have h2 := sumOver_zero f xs (fun y hy => h y (by simp [hy]))
    simp only [sumOver, h1, h2]; ring

/-- the constant of the money invariant: all money handed out plus the cost of the initial projects -/
def total (V : VCtx) (I : Inst) (init : List Pid) (b0 : Rat) : Rat :=
  (numVoters V : Rat) * b0 + costOf I.cost init

theorem initState_inv (V : VCtx) (I : Inst) (init : List Pid) (b0 : Rat) (hb0 : 0 ≤ b0)
    (hcost : ∀ p ∈ I.projects, 0 ≤ I.cost p) :
    Inv V I.cost (total V I init b0) (initState V I init b0) := by
  unfold initState
  refine ⟨fun _ _ => hb0, fun p hp => (mem_initPool.mp hp).2.2.2, ?_⟩
  simp only [costOf, sumOver_append, total, numVoters]
  rw [sumOver_const_mul]
  have : sumOver (zeroCost V I init) I.cost = 0 := by
    apply sumOver_zero
    intro p hp
    have hp' := mem_zeroCost.mp hp
    exact le_antisymm (not_lt.mp hp'.2.2.2) (hcost p hp'.1)
  rw [this]; ring

/-- what the two invariants say about the allocation of a state -/
theorem alloc_bounds {V : VCtx} {I : Inst} {init : List Pid} {b0 : Rat} {s : State}
    (h1 : Inv V I.cost (total V I init b0) s) (h2 : Shape I init s) :
    costOf I.cost s.alloc ≤ (numVoters V : Rat) * b0 + costOf I.cost init ∧
      (∀ p ∈ init, p ∈ s.alloc) ∧ s.alloc.Nodup ∧ ∀ p ∈ s.alloc, p ∈ I.projects := by
  refine ⟨?_, h2.init_sub, h2.alloc_nodup, h2.alloc_sub⟩
  have h := h1.conserve
  have hnn : 0 ≤ sumOver V.vs (fun i => (V.m i : Rat) * s.b i) := by
    apply sumOver_nonneg
    intro i hi
    have := h1.nonneg i hi
    positivity
  unfold total at h
  linarith

theorem share_le_budget (n : Nat) (B : Rat) (hB : 0 ≤ B) : (n : Rat) * (B / (n : Nat)) ≤ B := by
  by_cases hn : n = 0
  · subst hn; simpa using hB
  · have : (n : Rat) ≠ 0 := by exact_mod_cast hn
    rw [mul_div_cancel₀ _ this]

/-- the state invariant used to lift to outcomes -/
def Good (V : VCtx) (I : Inst) (init : List Pid) (b0 : Rat) (s : State) : Prop :=
  Inv V I.cost (total V I init b0) s ∧ Shape I init s

theorem good_buy {V : VCtx} {I : Inst} {init : List Pid} {b0 : Rat} (hm : ∀ i ∈ V.vs, 1 ≤ V.m i)
    (s : State) (t : Pid) (h : Good V I init b0 s) (ht : t ∈ (rule V I.cost).tied s) :
    Good V I init b0 ((rule V I.cost).buy s t) :=
  ⟨buy_inv hm ht h.1, buy_shape ht h.2⟩

theorem good_init (V : VCtx) (I : Inst) (init : List Pid) (b0 : Rat) (hb0 : 0 ≤ b0)
    (hproj : I.projects.Nodup) (hinit : ∀ p ∈ init, p ∈ I.projects) (hnd : init.Nodup)
    (hcost : ∀ p ∈ I.projects, 0 ≤ I.cost p) : Good V I init b0 (initState V I init b0) :=
  ⟨initState_inv V I init b0 hb0 hcost, initState_shape V I init b0 hproj hinit hnd⟩

/-- well-formedness of an Equal-Shares input -/
structure InputOK (V : VCtx) (I : Inst) (init : List Pid) : Prop where
  mult : ∀ i ∈ V.vs, 1 ≤ V.m i
  proj_nodup : I.projects.Nodup
  init_sub : ∀ p ∈ init, p ∈ I.projects
  init_nodup : init.Nodup
  cost_nonneg : ∀ p ∈ I.projects, 0 ≤ I.cost p

/-- (5) every resolute outcome of the pure run with per-voter money `b0 ≥ 0` spends at most the
    money handed out on top of the initial projects, contains them, has no repeats, and only
    contains projects of the instance -/
theorem runP_bounds {V : VCtx} {I : Inst} {init : List Pid} (h : InputOK V I init)
    (ord : List Pid → List Pid) (hord : ∀ T, ∀ x ∈ ord T, x ∈ T) (b0 : Rat) (hb0 : 0 ≤ b0) (n : Nat) :
    let W := (rule V I.cost).runP ord n (initState V I init b0)
    costOf I.cost W ≤ (numVoters V : Rat) * b0 + costOf I.cost init ∧
      (∀ p ∈ init, p ∈ W) ∧ W.Nodup ∧ ∀ p ∈ W, p ∈ I.projects := by
  intro W
  obtain ⟨s', hs', hW⟩ := RoundRule.runP_inv (rule V I.cost) ord (Good V I init b0) hord
    (good_buy h.mult) n _
    (good_init V I init b0 hb0 h.proj_nodup h.init_sub h.init_nodup h.cost_nonneg)
  have : W = s'.alloc := hW
  rw [this]
  exact alloc_bounds hs'.1 hs'.2

theorem runAllP_bounds {V : VCtx} {I : Inst} {init : List Pid} (h : InputOK V I init)
    (b0 : Rat) (hb0 : 0 ≤ b0) (n : Nat) :
    ∀ W ∈ (rule V I.cost).runAllP n (initState V I init b0),
    costOf I.cost W ≤ (numVoters V : Rat) * b0 + costOf I.cost init ∧
      (∀ p ∈ init, p ∈ W) ∧ W.Nodup ∧ ∀ p ∈ W, p ∈ I.projects := by
  intro W hWm
  obtain ⟨s', hs', hW⟩ := RoundRule.runAllP_inv (rule V I.cost) (Good V I init b0)
    (good_buy h.mult) n _
    (good_init V I init b0 hb0 h.proj_nodup h.init_sub h.init_nodup h.cost_nonneg) W hWm
  have : W = s'.alloc := hW
  rw [this]
  exact alloc_bounds hs'.1 hs'.2

theorem share_nonneg (V : VCtx) (I : Inst) (hB : 0 ≤ I.budget) :
    0 ≤ I.budget / (numVoters V : Nat) := div_nonneg hB (Nat.cast_nonneg _)

/-! ### The `Except`-valued runs executed by the driver -/

theorem orderIfTie_mem {order : List Pid → Except Err (List Pid)}
    (hord : ∀ T l, order T = .ok l → ∀ x ∈ l, x ∈ T) :
    ∀ T l, orderIfTie order T = .ok l → ∀ x ∈ l, x ∈ T := by
  intro T l h
  unfold orderIfTie at h
  by_cases hl : T.length ≤ 1
  · rw [if_pos hl] at h; cases h; exact fun x hx => hx
  · rw [if_neg hl] at h; exact hord T l h

/-- the pure counterpart of `orderIfTie` -/
def ordIfTie (ord : List Pid → List Pid) (l : List Pid) : List Pid :=
  if l.length ≤ 1 then l else ord l

theorem orderIfTie_ok (ord : List Pid → List Pid) :
    orderIfTie (fun l => .ok (ord l)) = fun l => .ok (ordIfTie ord l) := by
  funext l
  unfold orderIfTie ordIfTie
  by_cases hl : l.length ≤ 1
  · rw [if_pos hl, if_pos hl]
  · rw [if_neg hl, if_neg hl]

theorem ordIfTie_nil (ord : List Pid → List Pid) : ordIfTie ord [] = [] := by
  unfold ordIfTie; simp

theorem ordIfTie_mem {ord : List Pid → List Pid} (hord : ∀ T, ∀ x ∈ ord T, x ∈ T) :
    ∀ T, ∀ x ∈ ordIfTie ord T, x ∈ T := by
  intro T x hx
  unfold ordIfTie at hx
  by_cases hl : T.length ≤ 1
  · rw [if_pos hl] at hx; exact hx
  · rw [if_neg hl] at hx; exact hord T x hx

/-- with a total order function, the driver's resolute run is the pure run -/
theorem runAt_eq_runP (V : VCtx) (I : Inst) (init : List Pid) (ord : List Pid → List Pid) (b0 : Rat) :
    runAt V I init (fun l => .ok (ord l)) b0 =
      .ok ((rule V I.cost).runP (ordIfTie ord) (initPool V I init).length (initState V I init b0)) := by
  unfold runAt
  rw [orderIfTie_ok]
  exact RoundRule.run_eq_runP _ _ (ordIfTie_nil ord) _ _

theorem runAt_bounds {V : VCtx} {I : Inst} {init : List Pid} (h : InputOK V I init)
    {order : List Pid → Except Err (List Pid)}
    (hord : ∀ T l, order T = .ok l → ∀ x ∈ l, x ∈ T) {b0 : Rat} (hb0 : 0 ≤ b0) {W : List Pid}
    (hW : runAt V I init order b0 = .ok W) :
    costOf I.cost W ≤ (numVoters V : Rat) * b0 + costOf I.cost init ∧
      (∀ p ∈ init, p ∈ W) ∧ W.Nodup ∧ ∀ p ∈ W, p ∈ I.projects := by
  unfold runAt at hW
  obtain ⟨s', hs', hWs⟩ := RoundRule.run_inv (rule V I.cost) (orderIfTie order) (Good V I init b0)
    (orderIfTie_mem hord) (good_buy h.mult) _ _ W
    (good_init V I init b0 hb0 h.proj_nodup h.init_sub h.init_nodup h.cost_nonneg) hW
  have : W = s'.alloc := hWs
  rw [this]
  exact alloc_bounds hs'.1 hs'.2

theorem sumOver_perm {α : Type} (f : α → Rat) {l l' : List α} (h : l.Perm l') :
    sumOver l f = sumOver l' f := by
  induction h with
  | nil => rfl
  | cons x _ ih => simp only [sumOver, ih]
  | swap x y l => simp only [sumOver]; ring
  | trans _ _ ih1 ih2 => exact ih1.trans ih2

theorem mem_dedup {α : Type} [BEq α] : ∀ {l : List α} {x : α}, x ∈ dedup l → x ∈ l
  | [], _, h => by simp [dedup] at h
  | y :: ys, x, h => by
    unfold dedup at h
    rcases List.mem_cons.mp h with rfl | h
    · simp
    · exact List.mem_cons_of_mem _ (mem_dedup (List.mem_filter.mp h).1)

theorem mem_canonOutcomes {Ls : List (List Pid)} {W : List Pid} (h : W ∈ canonOutcomes Ls) :
    ∃ W0 ∈ Ls, W = sortIds W0 := by
  unfold canonOutcomes at h
  obtain ⟨W0, h0, rfl⟩ := List.mem_map.mp (mem_dedup h)
  exact ⟨W0, h0, rfl⟩

theorem runAllAt_bounds {V : VCtx} {I : Inst} {init : List Pid} (h : InputOK V I init)
    {order : List Pid → Except Err (List Pid)}
    (hord : ∀ T l, order T = .ok l → ∀ x ∈ l, x ∈ T) {b0 : Rat} (hb0 : 0 ≤ b0)
    {Ws : List (List Pid)} (hWs : runAllAt V I init order b0 = .ok Ws) :
    ∀ W ∈ Ws, costOf I.cost W ≤ (numVoters V : Rat) * b0 + costOf I.cost init ∧
      (∀ p ∈ init, p ∈ W) ∧ W.Nodup ∧ ∀ p ∈ W, p ∈ I.projects := by
  intro W hW
  unfold runAllAt at hWs
  cases hr : (rule V I.cost).runAll (orderIfTie order) (initPool V I init).length
      (initState V I init b0) with
  | error e => rw [hr] at hWs; cases hWs
  | ok Ls =>
    rw [hr] at hWs
    have : Ws = canonOutcomes Ls := by cases hWs; rfl
    subst this
    obtain ⟨W0, hW0, rfl⟩ := mem_canonOutcomes hW
    obtain ⟨s', hs', hWs'⟩ := RoundRule.runAll_inv (rule V I.cost) (orderIfTie order)
      (Good V I init b0) (orderIfTie_mem hord) (good_buy h.mult) _ _ Ls
      (good_init V I init b0 hb0 h.proj_nodup h.init_sub h.init_nodup h.cost_nonneg) hr W0 hW0
    have : W0 = s'.alloc := hWs'
    subst this
    obtain ⟨h1, h2, h3, h4⟩ := alloc_bounds hs'.1 hs'.2
    have hperm : (sortIds s'.alloc).Perm s'.alloc := sortLe_perm _ _
    refine ⟨?_, ?_, ?_, ?_⟩
    · unfold costOf at *; rw [sumOver_perm _ hperm]; exact h1
    · intro p hp; exact hperm.mem_iff.mpr (h2 p hp)
    · exact hperm.nodup_iff.mpr h3
    · intro p hp; exact h4 p (hperm.mem_iff.mp hp)

/-! ### The recorded run -/

/-- `Recorded s L s'`: `L` is a faithful record of a run of the textbook procedure from state `s`
    that stops in state `s'`: every recorded round buys a project tied for the least price, records
    that price and the money before and after; the last entry records the money at the stop. -/
inductive Recorded (V : VCtx) (cost : Pid → Rat) : State → List Iteration → State → Prop
  | stop (s : State) : Recorded V cost s [⟨budgets V s.b, none, none, []⟩] s
  | step (s : State) (t : Pid) (r : Rat) (rest : List Iteration) (s' : State) :
      t ∈ tied V cost s → rho V cost s.b t = some r → best V cost s = some r →
      Recorded V cost (buy V cost s t) rest s' →
      Recorded V cost s (⟨budgets V s.b, some t, some r, budgets V (buy V cost s t).b⟩ :: rest) s'

theorem trace_zero (V : VCtx) (cost : Pid → Rat) (order : List Pid → Except Err (List Pid))
    (s : State) : trace V cost order 0 s = .ok [⟨budgets V s.b, none, none, []⟩] := rfl

theorem trace_succ (V : VCtx) (cost : Pid → Rat) (order : List Pid → Except Err (List Pid))
    (n : Nat) (s : State) : trace V cost order (n + 1) s =
    if tied V cost s = [] then .ok [⟨budgets V s.b, none, none, []⟩]
    else match orderIfTie order (tied V cost s) with
      | .error e => .error e
      | .ok [] => .ok [⟨budgets V s.b, none, none, []⟩]
      | .ok (t :: _) =>
        match trace V cost order n (buy V cost s t) with
        | .error e => .error e
        | .ok rest => .ok (⟨budgets V s.b, some t, best V cost s, budgets V (buy V cost s t).b⟩ :: rest) := by
  rw [trace]; rfl

theorem buy_pool_length_lt {V : VCtx} {cost : Pid → Rat} {s : State} {t : Pid}
    (ht : t ∈ s.pool) : (buy V cost s t).pool.length < s.pool.length := by
  rw [buy_pool]
  exact List.length_filter_lt_length_iff_exists.mpr ⟨t, ht, by simp⟩

/-- (6) a successful `trace` is a faithful record; with enough fuel and an order function that
    does not return an empty list on a non-empty tied set, it stops only when nothing is tied -/
theorem trace_recorded {V : VCtx} {cost : Pid → Rat} {order : List Pid → Except Err (List Pid)}
    (hord : ∀ T l, order T = .ok l → ∀ x ∈ l, x ∈ T) :
    ∀ n s L, trace V cost order n s = .ok L →
      ∃ s', Recorded V cost s L s' ∧
        (s.pool.length ≤ n → (∀ T, T ≠ [] → order T ≠ .ok []) → tied V cost s' = []) := by
  intro n
  induction n with
  | zero =>
    intro s L h
    rw [trace_zero] at h
    cases h
    refine ⟨s, Recorded.stop s, ?_⟩
    intro hlen _
    have hp : s.pool = [] := List.eq_nil_of_length_eq_zero (Nat.le_zero.mp hlen)
    exact tied_nil_iff.mpr (by intro p hp'; rw [hp] at hp'; simp at hp')
  | succ n ih =>
    intro s L h
    rw [trace_succ] at h
    by_cases hT : tied V cost s = []
    · rw [if_pos hT] at h; cases h
      exact ⟨s, Recorded.stop s, fun _ _ => hT⟩
    · rw [if_neg hT] at h
      cases ho : orderIfTie order (tied V cost s) with
      | error e => rw [ho] at h; cases h
      | ok l =>
        rw [ho] at h
        cases l with
        | nil =>
          cases h
          refine ⟨s, Recorded.stop s, ?_⟩
          intro _ hne
          exfalso
          unfold orderIfTie at ho
          by_cases hl : (tied V cost s).length ≤ 1
          · rw [if_pos hl] at ho; exact hT (Except.ok.inj ho)
          · rw [if_neg hl] at ho; exact hne _ hT ho
        | cons t tl =>
          dsimp only at h
          have ht : t ∈ tied V cost s := orderIfTie_mem hord _ _ ho t (by simp)
          cases hr : trace V cost order n (buy V cost s t) with
          | error e => rw [hr] at h; cases h
          | ok rest =>
            rw [hr] at h
            cases h
            obtain ⟨s', hrec, hstop⟩ := ih _ _ hr
            obtain ⟨r, hrho, hbest⟩ := tied_rho ht
            refine ⟨s', ?_, ?_⟩
            · rw [hbest]; exact Recorded.step s t r rest s' ht hrho hbest hrec
            · intro hlen hne
              have := buy_pool_length_lt (V := V) (cost := cost) (tied_sub_pool ht)
              exact hstop (by omega) hne

theorem Recorded.head {V : VCtx} {cost : Pid → Rat} {s s' : State} {L : List Iteration}
    (h : Recorded V cost s L s') : ∃ it rest, L = it :: rest ∧ it.before = budgets V s.b := by
  cases h with
  | stop => exact ⟨_, _, rfl, rfl⟩
  | step => exact ⟨_, _, rfl, rfl⟩

/-- consecutive recorded rounds chain: money after round k = money before round k+1 -/
theorem Recorded.chain {V : VCtx} {cost : Pid → Rat} {s s' : State} {L : List Iteration}
    (h : Recorded V cost s L s') :
    ∀ it it' : Iteration, ∀ pre post, L = pre ++ it :: it' :: post → it.after = it'.before := by
  induction h with
  | stop s =>
    intro it it' pre post hL
    have := congrArg List.length hL
    simp at this; omega
  | step s t r rest s' ht hr hb hrec ih =>
    intro it it' pre post hL
    cases pre with
    | nil =>
      simp only [List.nil_append, List.cons.injEq] at hL
      obtain ⟨rfl, hrest⟩ := hL
      obtain ⟨it0, rest0, h0, h1⟩ := hrec.head
      rw [h0] at hrest
      simp only [List.cons.injEq] at hrest
      rw [← hrest.1, h1]
    | cons a pre' =>
      simp only [List.cons_append, List.cons.injEq] at hL
      exact ih it it' pre' post hL.2

theorem Recorded.isChain {V : VCtx} {cost : Pid → Rat} {s s' : State} {L : List Iteration}
    (h : Recorded V cost s L s') : L.IsChain (fun a b => a.after = b.before) := by
  induction h with
  | stop s => simp
  | step s t r rest s' ht hr hb hrec ih =>
    obtain ⟨it0, rest0, h0, h1⟩ := hrec.head
    rw [h0] at ih ⊢
    exact List.isChain_cons_cons.mpr ⟨h1.symm, ih⟩

/-- the last entry records the stop: nothing selected, money of the final state -/
theorem Recorded.last {V : VCtx} {cost : Pid → Rat} {s s' : State} {L : List Iteration}
    (h : Recorded V cost s L s') : L.getLast? = some ⟨budgets V s'.b, none, none, []⟩ := by
  induction h with
  | stop s => rfl
  | step s t r rest s' ht hr hb hrec ih =>
    obtain ⟨it0, rest0, h0, _⟩ := hrec.head
    rw [h0] at ih ⊢
    rw [List.getLast?_cons_cons]; exact ih

/-- the final allocation is the initial one followed by the recorded selections, in order -/
theorem Recorded.alloc {V : VCtx} {cost : Pid → Rat} {s s' : State} {L : List Iteration}
    (h : Recorded V cost s L s') : s'.alloc = s.alloc ++ L.filterMap (fun it => it.selected) := by
  induction h with
  | stop s => simp
  | step s t r rest s' ht hr hb hrec ih =>
    rw [ih, buy_some hr]
    simp

/-- the final pool is what is left of the pool after removing the recorded selections -/
theorem Recorded.pool {V : VCtx} {cost : Pid → Rat} {s s' : State} {L : List Iteration}
    (h : Recorded V cost s L s') :
    ∀ p ∈ s.pool, p ∈ s'.pool ∨ some p ∈ L.map (fun it => it.selected) := by
  induction h with
  | stop s => intro p hp; exact Or.inl hp
  | step s t r rest s' ht hr hb hrec ih =>
    intro p hp
    by_cases hpt : p = t
    · subst hpt; right; simp
    · have : p ∈ (buy V cost s t).pool := by
        rw [buy_pool]; exact List.mem_filter.mpr ⟨hp, by simpa using hpt⟩
      rcases ih p this with h1 | h1
      · exact Or.inl h1
      · right; simp only [List.map_cons, List.mem_cons]; exact Or.inr h1

theorem Recorded.good {V : VCtx} {I : Inst} {init : List Pid} {b0 : Rat} {s s' : State}
    {L : List Iteration} (hm : ∀ i ∈ V.vs, 1 ≤ V.m i) (h : Recorded V I.cost s L s')
    (hs : Good V I init b0 s) : Good V I init b0 s' := by
  induction h with
  | stop s => exact hs
  | step s t r rest s' ht hr hb hrec ih => exact ih (good_buy hm s t hs ht)

/-- every recorded round is one purchase of the textbook procedure from a state satisfying the
    money invariant -/
theorem Recorded.round {V : VCtx} {cost : Pid → Rat} {B : Rat} {s s' : State} {L : List Iteration}
    (hm : ∀ i ∈ V.vs, 1 ≤ V.m i) (h : Recorded V cost s L s') (hs : Inv V cost B s) :
    ∀ it ∈ L, ∀ t, it.selected = some t → ∃ (st : State) (r : Rat),
      Inv V cost B st ∧ t ∈ tied V cost st ∧ rho V cost st.b t = some r ∧
      it.before = budgets V st.b ∧ it.rho = some r ∧
      it.after = V.vs.map (fun i => st.b i - pay V st.b t r i) := by
  induction h with
  | stop s =>
    intro it hit t ht
    have : it = ⟨budgets V s.b, none, none, []⟩ := by simpa using hit
    subst this; cases ht
  | step s t r rest s' ht hr hb hrec ih =>
    intro it hit t' ht'
    rcases List.mem_cons.mp hit with rfl | hit
    · have : t = t' := by simpa using ht'
      subst this
      refine ⟨s, r, hs, ht, hr, rfl, rfl, ?_⟩
      simp only [budgets, buy_some hr]
    · exact ih (buy_inv hm ht hs) it hit t' ht'

/-- requesting the record does not change the outcome: the resolute run returns the initial
    allocation followed by the recorded selections, and fails exactly when the record fails -/
theorem trace_run {V : VCtx} {cost : Pid → Rat} {order : List Pid → Except Err (List Pid)}
    (hord : ∀ T l, order T = .ok l → ∀ x ∈ l, x ∈ T) :
    ∀ n s, (rule V cost).run (orderIfTie order) n s =
      match trace V cost order n s with
      | .error e => .error e
      | .ok L => .ok (s.alloc ++ L.filterMap (fun it => it.selected)) := by
  intro n
  induction n with
  | zero => intro s; rw [trace_zero]; simp [RoundRule.run, rule]
  | succ n ih =>
    intro s
    rw [trace_succ]
    unfold RoundRule.run
    have htied : (rule V cost).tied s = tied V cost s := rfl
    rw [htied]
    by_cases hT : tied V cost s = []
    · rw [if_pos hT, if_pos hT]; simp [rule]
    · rw [if_neg hT, if_neg hT]
      cases ho : orderIfTie order (tied V cost s) with
      | error e => rfl
      | ok l =>
        cases l with
        | nil => simp [rule]
        | cons t tl =>
          dsimp only
          have ht : t ∈ tied V cost s := orderIfTie_mem hord _ _ ho t (by simp)
          obtain ⟨r, hrho, _⟩ := tied_rho ht
          have hbuy : (rule V cost).buy s t = buy V cost s t := rfl
          rw [hbuy, ih]
          cases hr : trace V cost order n (buy V cost s t) with
          | error e => rfl
          | ok rest =>
            dsimp only
            rw [buy_some hrho]
            simp

/-- a successful resolute run is a faithful textbook run: it goes through tied (= least-price)
    purchases only, returns the allocation of the state it stops in, and — if the order function
    never returns an empty list for a non-empty tied set — stops only when no pool project has a
    price -/
theorem runAt_recorded {V : VCtx} {I : Inst} {init : List Pid}
    {order : List Pid → Except Err (List Pid)}
    (hord : ∀ T l, order T = .ok l → ∀ x ∈ l, x ∈ T) {b0 : Rat} {W : List Pid}
    (hW : runAt V I init order b0 = .ok W) :
    ∃ L s', trace V I.cost order (initPool V I init).length (initState V I init b0) = .ok L ∧
      Recorded V I.cost (initState V I init b0) L s' ∧ W = s'.alloc ∧
      ((∀ T, T ≠ [] → order T ≠ .ok []) → ∀ p ∈ s'.pool, rho V I.cost s'.b p = none) := by
  unfold runAt at hW
  rw [trace_run hord] at hW
  cases hL : trace V I.cost order (initPool V I init).length (initState V I init b0) with
  | error e => rw [hL] at hW; cases hW
  | ok L =>
    rw [hL] at hW
    dsimp only at hW
    obtain ⟨s', hrec, hstop⟩ := trace_recorded hord _ _ L hL
    refine ⟨L, s', rfl, hrec, ?_, ?_⟩
    · rw [hrec.alloc]; exact (Except.ok.inj hW).symm
    · intro hne
      exact tied_nil_iff.mp (hstop (le_refl _) hne)

/-- every recorded round of a run from the initial state, spelled out on the budgets -/
theorem trace_rounds {V : VCtx} {I : Inst} {init : List Pid} (h : InputOK V I init)
    {order : List Pid → Except Err (List Pid)}
    (hord : ∀ T l, order T = .ok l → ∀ x ∈ l, x ∈ T) {b0 : Rat} (hb0 : 0 ≤ b0) {n : Nat}
    {L : List Iteration} (hL : trace V I.cost order n (initState V I init b0) = .ok L) :
    ∀ it ∈ L, ∀ t, it.selected = some t → ∃ (b : Nat → Rat) (r : Rat),
      (∀ i ∈ V.vs, 0 ≤ b i) ∧ 0 < r ∧ it.rho = some r ∧ rho V I.cost b t = some r ∧
      it.before = V.vs.map b ∧ it.after = V.vs.map (fun i => b i - pay V b t r i) ∧
      sumOver V.vs (fun i => (V.m i : Rat) * pay V b t r i) = I.cost t ∧
      (∀ r', I.cost t ≤ sumOver V.vs (fun i => (V.m i : Rat) * pay V b t r' i) → r ≤ r') := by
  intro it hit t ht
  obtain ⟨s', hrec, _⟩ := trace_recorded hord _ _ L hL
  obtain ⟨st, r, hinv, htied, hrho, hbef, hr, haft⟩ :=
    hrec.round h.mult (initState_inv V I init b0 hb0 h.cost_nonneg) it hit t ht
  have hok : VOK V st.b := ⟨hinv.nonneg, h.mult⟩
  have hc : 0 < I.cost t := hinv.pool_pos t (tied_sub_pool htied)
  refine ⟨st.b, r, hinv.nonneg, rho_pos hok hc hrho, hr, hrho, hbef, haft, pay_total hok hc hrho, ?_⟩
  intro r' hr'
  rw [pay_sum] at hr'
  exact rho_least hok hc hrho r' hr'

/-- the stop of a recorded run from the initial state with the driver's fuel -/
theorem trace_terminal {V : VCtx} {I : Inst} {init : List Pid} (h : InputOK V I init)
    {order : List Pid → Except Err (List Pid)}
    (hord : ∀ T l, order T = .ok l → ∀ x ∈ l, x ∈ T)
    (hne : ∀ T, T ≠ [] → order T ≠ .ok []) {b0 : Rat} (hb0 : 0 ≤ b0)
    {L : List Iteration}
    (hL : trace V I.cost order (initPool V I init).length (initState V I init b0) = .ok L) :
    ∃ b : Nat → Rat, (∀ i ∈ V.vs, 0 ≤ b i) ∧ L.getLast? = some ⟨V.vs.map b, none, none, []⟩ ∧
      ∀ p ∈ initPool V I init,
        some p ∈ L.map (fun it => it.selected) ∨ budSum (sups V b p) < I.cost p := by
  obtain ⟨s', hrec, hstop⟩ := trace_recorded hord _ _ L hL
  have hgood := hrec.good h.mult
    (good_init V I init b0 hb0 h.proj_nodup h.init_sub h.init_nodup h.cost_nonneg)
  have hnil := tied_nil_iff.mp (hstop (le_refl _) hne)
  refine ⟨s'.b, hgood.1.nonneg, hrec.last, ?_⟩
  intro p hp
  rcases hrec.pool p hp with h1 | h1
  · right
    exact (rho_none_iff ⟨hgood.1.nonneg, h.mult⟩ (hgood.1.pool_pos p h1)).mp (hnil p h1)
  · exact Or.inl h1

theorem share_total (V : VCtx) (I : Inst) (hn : 0 < numVoters V) :
    (numVoters V : Rat) * (I.budget / (numVoters V : Nat)) = I.budget := by
  have : ((numVoters V : Nat) : Rat) ≠ 0 := by exact_mod_cast (Nat.pos_iff_ne_zero.mp hn)
  rw [mul_div_cancel₀ _ this]

end MES

end Pabu
