/-
  Lemmas about the enumeration of cohesive groups (`JR.cohesiveGroups`, `JR.cohesiveGroupsBy`).
-/
import PabuProofs.Lemmas.JR
namespace Pabu
open List

theorem sublists_map {α β : Type} (f : α → β) (l : List α) : sublists (l.map f) = (sublists l).map (List.map f) := by
  induction l with
  | nil => rfl
  | cons x xs ih =>
    show sublists (f x :: xs.map f) = (sublists (x :: xs)).map (List.map f)
    unfold sublists
    rw [ih, List.map_append, List.map_map, List.map_map]
    rfl

end Pabu

namespace Pabu.JR
open Pabu List

theorem mem_cohesiveGroupsBy {α : Type} (E : Setting) (card : Bool) (vo : α → Voter × Nat) (M : List α)
    (D : List α) (T : List Pid) :
    (D, T) ∈ cohesiveGroupsBy E card vo M ↔
      D <+ M ∧ T <+ E.projects ∧ adm E card .ejr (groupSize (D.map vo)) (members (D.map vo)) T = true := by
  unfold cohesiveGroupsBy
  simp only [List.mem_flatMap, List.mem_map, List.mem_filter, mem_sublists, Prod.mk.injEq]
  constructor
  · rintro ⟨D', hD', T', ⟨hT', ha⟩, rfl, rfl⟩
    exact ⟨hD', hT', ha⟩
  · rintro ⟨hD, hT, ha⟩
    exact ⟨D, hD, T, ⟨hT, ha⟩, rfl, rfl⟩

theorem mem_cohesiveGroups (E : Setting) (M : List (Voter × Nat)) (card : Bool) (D : List (Voter × Nat)) (T : List Pid) :
    (D, T) ∈ cohesiveGroups E M card ↔
      D <+ M ∧ T <+ E.projects ∧ adm E card .ejr (groupSize D) (members D) T = true := by
  unfold cohesiveGroups
  simp only [List.mem_flatMap, List.mem_map, List.mem_filter, mem_sublists, Prod.mk.injEq]
  constructor
  · rintro ⟨D', hD', T', ⟨hT', ha⟩, rfl, rfl⟩
    exact ⟨hD', hT', ha⟩
  · rintro ⟨hD, hT, ha⟩
    exact ⟨D, hD, T, ⟨hT, ha⟩, rfl, rfl⟩

/-- forgetting the tags of the tagged enumeration gives the enumeration of the untagged entries, in the same order -/
theorem cohesiveGroupsBy_map {α : Type} (E : Setting) (card : Bool) (vo : α → Voter × Nat) (M : List α) :
    (cohesiveGroupsBy E card vo M).map (fun x => (x.1.map vo, x.2)) = cohesiveGroups E (M.map vo) card := by
  unfold cohesiveGroupsBy cohesiveGroups
  rw [sublists_map, List.map_flatMap, List.flatMap_map]
  congr 1
  funext D
  rw [List.map_map]
  rfl

/-- the admissibility test of the EJR-type notions does not depend on which of them is asked -/
theorem adm_noncore (E : Setting) (card : Bool) (k : Kind) (hk : k ≠ .core) (size : Nat) (S : List Voter) (T : List Pid) :
    adm E card k size S T = adm E card .ejr size S T := by
  cases k with
  | core => exact absurd rfl hk
  | strong => rfl
  | ejr => rfl
  | pjr => rfl

/-- the double loop of a checker is a single loop over the enumeration of cohesive groups -/
theorem forGroups_eq_all_cohesiveGroups (E : Setting) (M : List (Voter × Nat)) (card : Bool)
    (g : List Voter → List Pid → Bool) :
    forGroups M E.projects (adm E card .ejr) g = (cohesiveGroups E M card).all (fun x => g (members x.1) x.2) := by
  unfold forGroups cohesiveGroups
  rw [List.all_flatMap]
  apply List.all_congr rfl
  intro D
  rw [List.all_map, List.all_filter]
  apply List.all_congr rfl
  intro T
  cases adm E card .ejr (groupSize D) (members D) T <;> simp

/-- all multiplicities 1: the size the code computes is the number of members -/
theorem groupSize_eq_length_members (D : List (Voter × Nat)) (h1 : ∀ e ∈ D, e.2 = 1) : groupSize D = (members D).length := by
  rw [← length_expand]
  have : expand D = members D := by
    induction D with
    | nil => rfl
    | cons e r ih =>
      rw [expand_cons, h1 e (by simp), ih (fun x hx => h1 x (by simp [hx]))]
      rfl
  rw [this]

end Pabu.JR
