/-
  Lemmas about the CSV text layer (PabuModel/Csv.lean): the reader's state machine run over what the writer
  emits, field by field, row by row.
-/
import PabuModel.Csv
set_option linter.unusedSimpArgs false
set_option linter.unusedVariables false
namespace Pabu.Csv
open Pabu.Pabulib

/-- a character the writer does not quote a field for and that does not end a line -/
def Plain (c : Char) : Prop := c ≠ ';' ∧ c ≠ '"' ∧ c ≠ '\n' ∧ c ≠ '\r'

theorem isNl_false {c : Char} (h1 : c ≠ '\n') (h2 : c ≠ '\r') : isNl c = false := by
  simp [isNl, h1, h2]

/-! ### one step of `run` -/

theorem run_ok {lim : Nat} {s s' : RSt} {c : Char} {rest : List Char} (h : stepChar lim s c = .ok s') :
    run lim s (c :: rest) = run lim (afterChar s' c rest) rest := by
  rw [run, h]

theorem run_err {lim : Nat} {s : RSt} {c : Char} {rest : List Char} {e : CsvErr} (h : stepChar lim s c = .error e) :
    run lim s (c :: rest) = (s, some e) := by
  rw [run, h]

theorem afterChar_mid {s : RSt} {c : Char} {rest : List Char} (h1 : c ≠ '\n') (h2 : c ≠ '\r') (h3 : rest ≠ []) :
    afterChar s c rest = s := by
  cases rest with
  | nil => exact absurd rfl h3
  | cons a r => simp [afterChar, eolAfter, h1, h2]

theorem afterChar_inQuoted {F : List Str} {cur : Str} {len : Nat} {R : List (List Str)} {c : Char} {rest : List Char} :
    afterChar ⟨.inQuoted, F, cur, len, R⟩ c rest = ⟨.inQuoted, F, cur, len, R⟩ := by
  unfold afterChar
  split <;> rfl

theorem afterChar_nl {s : RSt} {rest : List Char} : afterChar s '\n' rest = stepEol s := by
  simp [afterChar, eolAfter]

/-! ### unquoted fields -/

theorem step_inField_plain {lim : Nat} {F : List Str} {cur : Str} {len : Nat} {R : List (List Str)} {c : Char}
    (hc : Plain c) (hl : len < lim) :
    stepChar lim ⟨.inField, F, cur, len, R⟩ c = .ok ⟨.inField, F, c :: cur, len + 1, R⟩ := by
  obtain ⟨h1, _, h3, h4⟩ := hc
  simp [stepChar, quote, delim, isNl_false h3 h4, h1, addChar, Nat.not_le.mpr hl]

theorem run_inField_plain {lim : Nat} {F : List Str} {R : List (List Str)} {rest : List Char} (hr : rest ≠ []) :
    ∀ (f cur : Str) (len : Nat), (∀ c ∈ f, Plain c) → len + f.length ≤ lim →
      run lim ⟨.inField, F, cur, len, R⟩ (f ++ rest) = run lim ⟨.inField, F, f.reverse ++ cur, len + f.length, R⟩ rest := by
  intro f
  induction f with
  | nil => intro cur len _ _; simp
  | cons c f ih =>
    intro cur len hp hl
    have hc : Plain c := hp c (by simp)
    simp only [List.length_cons] at hl
    rw [List.cons_append, run_ok (step_inField_plain hc (by omega)),
      afterChar_mid hc.2.2.1 hc.2.2.2 (by simp [hr])]
    rw [ih (c :: cur) (len + 1) (fun x hx => hp x (by simp [hx])) (by omega)]
    simp only [List.reverse_cons, List.append_assoc, List.singleton_append, List.length_cons]
    congr 2
    omega

theorem step_startField_plain {lim : Nat} {F : List Str} {R : List (List Str)} {c : Char} (hc : Plain c) (hl : 0 < lim) :
    stepChar lim ⟨.startField, F, [], 0, R⟩ c = .ok ⟨.inField, F, [c], 1, R⟩ := by
  obtain ⟨h1, h2, h3, h4⟩ := hc
  simp [stepChar, quote, delim, stepStartField, isNl_false h3 h4, h1, h2, addChar, Nat.not_le.mpr hl]

theorem step_startField_delim {lim : Nat} {F : List Str} {R : List (List Str)} :
    stepChar lim ⟨.startField, F, [], 0, R⟩ ';' = .ok ⟨.startField, [] :: F, [], 0, R⟩ := by
  simp [stepChar, quote, delim, stepStartField, isNl, saveField]

theorem step_startField_nl {lim : Nat} {F : List Str} {R : List (List Str)} :
    stepChar lim ⟨.startField, F, [], 0, R⟩ '\n' = .ok ⟨.eatCrnl, [] :: F, [], 0, R⟩ := by
  simp [stepChar, quote, delim, stepStartField, isNl, saveField]

theorem step_startField_quote {lim : Nat} {F : List Str} {R : List (List Str)} :
    stepChar lim ⟨.startField, F, [], 0, R⟩ '"' = .ok ⟨.inQuoted, F, [], 0, R⟩ := by
  simp [stepChar, quote, delim, stepStartField, isNl]

theorem step_inField_delim {lim : Nat} {F : List Str} {cur : Str} {len : Nat} {R : List (List Str)} :
    stepChar lim ⟨.inField, F, cur, len, R⟩ ';' = .ok ⟨.startField, cur.reverse :: F, [], 0, R⟩ := by
  simp [stepChar, quote, delim, isNl, saveField]

theorem step_inField_nl {lim : Nat} {F : List Str} {cur : Str} {len : Nat} {R : List (List Str)} :
    stepChar lim ⟨.inField, F, cur, len, R⟩ '\n' = .ok ⟨.eatCrnl, cur.reverse :: F, [], 0, R⟩ := by
  simp [stepChar, quote, delim, isNl, saveField]

theorem stepEol_eatCrnl {F : List Str} {R : List (List Str)} :
    stepEol ⟨.eatCrnl, F, [], 0, R⟩ = ⟨.startRecord, [], [], 0, F.reverse :: R⟩ := by
  simp [stepEol, yieldRow]

/-- an unquoted field followed by the delimiter -/
theorem run_unquoted_delim {lim : Nat} {F : List Str} {R : List (List Str)} {rest : List Char} (hr : rest ≠ [])
    (f : Str) (hp : ∀ c ∈ f, Plain c) (hl : f.length ≤ lim) :
    run lim ⟨.startField, F, [], 0, R⟩ (f ++ ';' :: rest) = run lim ⟨.startField, f :: F, [], 0, R⟩ rest := by
  cases f with
  | nil => rw [List.nil_append, run_ok step_startField_delim, afterChar_mid (by decide) (by decide) hr]
  | cons c f =>
    have hc : Plain c := hp c (by simp)
    simp only [List.length_cons] at hl
    rw [List.cons_append, run_ok (step_startField_plain hc (by omega)), afterChar_mid hc.2.2.1 hc.2.2.2 (by simp),
      run_inField_plain (by simp) f [c] 1 (fun x hx => hp x (by simp [hx])) (by omega),
      run_ok step_inField_delim, afterChar_mid (by decide) (by decide) hr]
    simp

/-- an unquoted field followed by the line terminator -/
theorem run_unquoted_nl {lim : Nat} {F : List Str} {R : List (List Str)} {rest : List Char}
    (f : Str) (hp : ∀ c ∈ f, Plain c) (hl : f.length ≤ lim) :
    run lim ⟨.startField, F, [], 0, R⟩ (f ++ '\n' :: rest) = run lim ⟨.startRecord, [], [], 0, (f :: F).reverse :: R⟩ rest := by
  cases f with
  | nil => rw [List.nil_append, run_ok step_startField_nl, afterChar_nl, stepEol_eatCrnl]
  | cons c f =>
    have hc : Plain c := hp c (by simp)
    simp only [List.length_cons] at hl
    rw [List.cons_append, run_ok (step_startField_plain hc (by omega)), afterChar_mid hc.2.2.1 hc.2.2.2 (by simp),
      run_inField_plain (by simp) f [c] 1 (fun x hx => hp x (by simp [hx])) (by omega),
      run_ok step_inField_nl, afterChar_nl, stepEol_eatCrnl]
    simp

/-! ### quoted fields -/

theorem step_inQuoted_quote {lim : Nat} {F : List Str} {cur : Str} {len : Nat} {R : List (List Str)} :
    stepChar lim ⟨.inQuoted, F, cur, len, R⟩ '"' = .ok ⟨.quoteInQuoted, F, cur, len, R⟩ := by
  simp [stepChar, quote, delim]

theorem step_inQuoted_other {lim : Nat} {F : List Str} {cur : Str} {len : Nat} {R : List (List Str)} {c : Char}
    (hc : c ≠ '"') (hl : len < lim) :
    stepChar lim ⟨.inQuoted, F, cur, len, R⟩ c = .ok ⟨.inQuoted, F, c :: cur, len + 1, R⟩ := by
  simp [stepChar, quote, delim, hc, addChar, Nat.not_le.mpr hl]

theorem step_quoteInQuoted_quote {lim : Nat} {F : List Str} {cur : Str} {len : Nat} {R : List (List Str)} (hl : len < lim) :
    stepChar lim ⟨.quoteInQuoted, F, cur, len, R⟩ '"' = .ok ⟨.inQuoted, F, '"' :: cur, len + 1, R⟩ := by
  simp [stepChar, quote, delim, addChar, Nat.not_le.mpr hl]

theorem step_quoteInQuoted_delim {lim : Nat} {F : List Str} {cur : Str} {len : Nat} {R : List (List Str)} :
    stepChar lim ⟨.quoteInQuoted, F, cur, len, R⟩ ';' = .ok ⟨.startField, cur.reverse :: F, [], 0, R⟩ := by
  simp [stepChar, quote, delim, saveField]

theorem step_quoteInQuoted_nl {lim : Nat} {F : List Str} {cur : Str} {len : Nat} {R : List (List Str)} :
    stepChar lim ⟨.quoteInQuoted, F, cur, len, R⟩ '\n' = .ok ⟨.eatCrnl, cur.reverse :: F, [], 0, R⟩ := by
  simp [stepChar, quote, delim, saveField, isNl]

/-- the body of a quoted field: every character is taken as it is, `""` is one quote -/
theorem run_inQuoted_body {lim : Nat} {F : List Str} {R : List (List Str)} {rest : List Char} (hr : rest ≠ []) :
    ∀ (f cur : Str) (len : Nat), len + f.length ≤ lim →
      run lim ⟨.inQuoted, F, cur, len, R⟩ (doubleQuotes f ++ rest) =
        run lim ⟨.inQuoted, F, f.reverse ++ cur, len + f.length, R⟩ rest := by
  intro f
  induction f with
  | nil => intro cur len _; simp [doubleQuotes]
  | cons c f ih =>
    intro cur len hl
    simp only [List.length_cons] at hl
    have hfin : run lim ⟨.inQuoted, F, f.reverse ++ (c :: cur), len + 1 + f.length, R⟩ rest =
        run lim ⟨.inQuoted, F, (c :: f).reverse ++ cur, len + (c :: f).length, R⟩ rest := by
      simp only [List.reverse_cons, List.append_assoc, List.singleton_append, List.length_cons]
      congr 2
      omega
    by_cases hc : c = '"'
    · subst hc
      have hd : doubleQuotes ('"' :: f) = '"' :: '"' :: doubleQuotes f := by simp [doubleQuotes]
      rw [hd, List.cons_append, List.cons_append, run_ok step_inQuoted_quote,
        afterChar_mid (by decide) (by decide) (by simp),
        run_ok (step_quoteInQuoted_quote (by omega)), afterChar_inQuoted, ih _ _ (by omega), hfin]
    · have hd : doubleQuotes (c :: f) = c :: doubleQuotes f := by simp [doubleQuotes, hc]
      rw [hd, List.cons_append, run_ok (step_inQuoted_other hc (by omega)), afterChar_inQuoted, ih _ _ (by omega), hfin]

theorem run_quoted_delim {lim : Nat} {F : List Str} {R : List (List Str)} {rest : List Char} (hr : rest ≠ [])
    (f : Str) (hl : f.length ≤ lim) :
    run lim ⟨.startField, F, [], 0, R⟩ (('"' :: (doubleQuotes f ++ ['"'])) ++ ';' :: rest) =
      run lim ⟨.startField, f :: F, [], 0, R⟩ rest := by
  rw [List.cons_append, List.append_assoc, run_ok step_startField_quote, afterChar_inQuoted,
    run_inQuoted_body (by simp) f [] 0 (by omega), List.singleton_append, run_ok step_inQuoted_quote,
    afterChar_mid (by decide) (by decide) (by simp), run_ok step_quoteInQuoted_delim,
    afterChar_mid (by decide) (by decide) hr]
  simp

theorem run_quoted_nl {lim : Nat} {F : List Str} {R : List (List Str)} {rest : List Char}
    (f : Str) (hl : f.length ≤ lim) :
    run lim ⟨.startField, F, [], 0, R⟩ (('"' :: (doubleQuotes f ++ ['"'])) ++ '\n' :: rest) =
      run lim ⟨.startRecord, [], [], 0, (f :: F).reverse :: R⟩ rest := by
  rw [List.cons_append, List.append_assoc, run_ok step_startField_quote, afterChar_inQuoted,
    run_inQuoted_body (by simp) f [] 0 (by omega), List.singleton_append, run_ok step_inQuoted_quote,
    afterChar_mid (by decide) (by decide) (by simp), run_ok step_quoteInQuoted_nl, afterChar_nl, stepEol_eatCrnl]
  simp

/-! ### fields as the writer emits them -/

theorem plain_of_fieldOK {lim : Nat} {f : Str} (hok : FieldOK lim f = true) (hq : needsQuote f = false) :
    ∀ c ∈ f, Plain c := by
  intro c hc
  simp only [FieldOK, Bool.and_eq_true, Bool.or_eq_true, Bool.not_eq_true', hq, Bool.false_eq_true, or_false,
    decide_eq_true_eq] at hok
  have hcr : c ≠ '\r' := by
    intro h
    subst h
    have := hok.2
    simp [List.contains_iff_mem] at this
    exact this hc
  simp only [needsQuote, List.any_eq_false, Bool.or_eq_true, beq_iff_eq, not_or] at hq
  have := hq c hc
  exact ⟨this.1.1, this.1.2, this.2, hcr⟩

theorem length_of_fieldOK {lim : Nat} {f : Str} (hok : FieldOK lim f = true) : f.length ≤ lim := by
  simp only [FieldOK, Bool.and_eq_true, decide_eq_true_eq] at hok
  exact hok.1

theorem run_field_delim {lim : Nat} {F : List Str} {R : List (List Str)} {rest : List Char} (hr : rest ≠ [])
    (f : Str) (hok : FieldOK lim f = true) :
    run lim ⟨.startField, F, [], 0, R⟩ (writeField f ++ ';' :: rest) = run lim ⟨.startField, f :: F, [], 0, R⟩ rest := by
  unfold writeField
  by_cases hq : needsQuote f = true
  · rw [if_pos hq]; exact run_quoted_delim hr f (length_of_fieldOK hok)
  · rw [if_neg hq]
    exact run_unquoted_delim hr f (plain_of_fieldOK hok (by simpa using hq)) (length_of_fieldOK hok)

theorem run_field_nl {lim : Nat} {F : List Str} {R : List (List Str)} {rest : List Char}
    (f : Str) (hok : FieldOK lim f = true) :
    run lim ⟨.startField, F, [], 0, R⟩ (writeField f ++ '\n' :: rest) =
      run lim ⟨.startRecord, [], [], 0, (f :: F).reverse :: R⟩ rest := by
  unfold writeField
  by_cases hq : needsQuote f = true
  · rw [if_pos hq]; exact run_quoted_nl f (length_of_fieldOK hok)
  · rw [if_neg hq]
    exact run_unquoted_nl f (plain_of_fieldOK hok (by simpa using hq)) (length_of_fieldOK hok)

/-- a non-empty list of fields, read from START_FIELD -/
theorem run_fields {lim : Nat} {R : List (List Str)} {rest : List Char} :
    ∀ (fs : List Str) (F : List Str), fs ≠ [] → (∀ f ∈ fs, FieldOK lim f = true) →
      run lim ⟨.startField, F, [], 0, R⟩ (writeFields fs ++ '\n' :: rest) =
        run lim ⟨.startRecord, [], [], 0, (F.reverse ++ fs) :: R⟩ rest := by
  intro fs
  induction fs with
  | nil => intro F h; exact absurd rfl h
  | cons f fs ih =>
    intro F _ hok
    cases fs with
    | nil =>
      rw [writeFields, run_field_nl f (hok f (by simp))]
      simp
    | cons g r =>
      rw [writeFields, List.append_assoc, List.cons_append,
        run_field_delim (by simp) f (hok f (by simp)),
        ih (f :: F) (by simp) (fun x hx => hok x (by simp [hx]))]
      simp

/-! ### rows -/

/-- START_RECORD treats a character that is not a line break as START_FIELD does -/
theorem run_startRecord {lim : Nat} {R : List (List Str)} {c : Char} {rest : List Char}
    (hc : c = ';' ∨ c = '"' ∨ (Plain c ∧ 0 < lim)) :
    run lim ⟨.startRecord, [], [], 0, R⟩ (c :: rest) = run lim ⟨.startField, [], [], 0, R⟩ (c :: rest) := by
  rcases hc with rfl | rfl | ⟨hp, hl⟩
  · have e : stepChar lim ⟨.startRecord, [], [], 0, R⟩ ';' = .ok ⟨.startField, [] :: [], [], 0, R⟩ := by
      simp [stepChar, stepStartField, quote, delim, isNl, saveField]
    rw [run_ok e, run_ok step_startField_delim]
  · have e : stepChar lim ⟨.startRecord, [], [], 0, R⟩ '"' = .ok ⟨.inQuoted, [], [], 0, R⟩ := by
      simp [stepChar, stepStartField, quote, delim, isNl]
    rw [run_ok e, run_ok step_startField_quote]
  · obtain ⟨h1, h2, h3, h4⟩ := hp
    have e : stepChar lim ⟨.startRecord, [], [], 0, R⟩ c = .ok ⟨.inField, [], [c], 1, R⟩ := by
      simp [stepChar, stepStartField, quote, delim, isNl_false h3 h4, h1, h2, addChar, Nat.not_le.mpr hl]
    rw [run_ok e, run_ok (step_startField_plain ⟨h1, h2, h3, h4⟩ hl)]

/-- the first character of a written row that is neither `[]` nor `[""]` -/
theorem writeFields_head {lim : Nat} {f : Str} {fs : List Str} {rest : List Char}
    (hok : FieldOK lim f = true) (hne : ¬ (f = [] ∧ fs = [])) :
    ∃ c tl, writeFields (f :: fs) ++ '\n' :: rest = c :: tl ∧ (c = ';' ∨ c = '"' ∨ (Plain c ∧ 0 < lim)) := by
  cases f with
  | nil =>
    cases fs with
    | nil => exact absurd ⟨rfl, rfl⟩ hne
    | cons g r =>
      exact ⟨';', writeFields (g :: r) ++ '\n' :: rest, by simp [writeFields, writeField, needsQuote], Or.inl rfl⟩
  | cons c f =>
    by_cases hq : needsQuote (c :: f) = true
    · refine ⟨'"', ?_, ?_, Or.inr (Or.inl rfl)⟩
      · exact (doubleQuotes (c :: f) ++ ['"']) ++ (match fs with | [] => [] | g :: r => ';' :: writeFields (g :: r)) ++ '\n' :: rest
      · cases fs <;> simp [writeFields, writeField, hq]
    · have hp := plain_of_fieldOK hok (by simpa using hq) c (by simp)
      have hl := length_of_fieldOK hok
      simp only [List.length_cons] at hl
      refine ⟨c, ?_, ?_, Or.inr (Or.inr ⟨hp, by omega⟩)⟩
      · exact f ++ (match fs with | [] => [] | g :: r => ';' :: writeFields (g :: r)) ++ '\n' :: rest
      · cases fs <;> simp [writeFields, writeField, hq]

theorem run_row {lim : Nat} {R : List (List Str)} {rest : List Char} (r : List Str) (hok : ∀ f ∈ r, FieldOK lim f = true) :
    run lim ⟨.startRecord, [], [], 0, R⟩ (writeRow r ++ '\n' :: rest) = run lim ⟨.startRecord, [], [], 0, r :: R⟩ rest := by
  unfold writeRow
  by_cases h1 : r = [[]]
  · subst h1
    rw [if_pos rfl]
    have e1 : stepChar lim ⟨.startRecord, [], [], 0, R⟩ '"' = .ok ⟨.inQuoted, [], [], 0, R⟩ := by
      simp [stepChar, quote, delim, stepStartField, isNl]
    rw [List.cons_append, List.cons_append, List.nil_append, run_ok e1, afterChar_inQuoted,
      run_ok step_inQuoted_quote, afterChar_mid (by decide) (by decide) (by simp),
      run_ok step_quoteInQuoted_nl, afterChar_nl, stepEol_eatCrnl]
    rfl
  · rw [if_neg h1]
    cases r with
    | nil =>
      have e1 : stepChar lim ⟨.startRecord, [], [], 0, R⟩ '\n' = .ok ⟨.eatCrnl, [], [], 0, R⟩ := by
        simp [stepChar, quote, delim, isNl]
      rw [writeFields, List.nil_append, run_ok e1, afterChar_nl, stepEol_eatCrnl]
      rfl
    | cons f fs =>
      have hne : ¬ (f = [] ∧ fs = []) := by
        rintro ⟨rfl, rfl⟩; exact h1 rfl
      obtain ⟨c, tl, htxt, hc⟩ := writeFields_head (rest := rest) (hok f (by simp)) hne
      have := run_fields (lim := lim) (R := R) (rest := rest) (f :: fs) [] (by simp) hok
      rw [htxt] at this ⊢
      rw [run_startRecord hc, this]
      simp

theorem run_rows {lim : Nat} :
    ∀ (rows : List (List Str)) (R : List (List Str)), RowsOKL lim rows = true →
      run lim ⟨.startRecord, [], [], 0, R⟩ (csvWrite rows) = (⟨.startRecord, [], [], 0, rows.reverse ++ R⟩, none) := by
  intro rows
  induction rows with
  | nil => intro R _; simp [csvWrite, run]
  | cons r rs ih =>
    intro R hok
    simp only [RowsOKL, List.all_cons, Bool.and_eq_true] at hok
    have hr : ∀ f ∈ r, FieldOK lim f = true := by
      intro f hf
      exact (List.all_eq_true.mp hok.1) f hf
    rw [csvWrite, run_row r hr, ih (r :: R) (by simpa [RowsOKL] using hok.2)]
    simp

/-- the reader reads back what the writer wrote -/
theorem csvReadL_csvWrite {lim : Nat} {rows : List (List Str)} (hok : RowsOKL lim rows = true) :
    csvReadL lim (csvWrite rows) = (rows, none) := by
  have h := run_rows (lim := lim) rows [] hok
  have hinit : ({} : RSt) = ⟨.startRecord, [], [], 0, []⟩ := rfl
  unfold csvReadL
  rw [hinit, h]
  simp [finishRows]

/-! ### the field size limit is a real boundary -/

theorem run_limit (lim : Nat) :
    run lim ⟨.startRecord, [], [], 0, []⟩ (List.replicate (lim + 1) 'a' ++ ['\n']) =
      (⟨if lim = 0 then .startRecord else .inField, [], List.replicate lim 'a', lim, []⟩, some .fieldLimit) := by
  have hpa : Plain 'a' := ⟨by decide, by decide, by decide, by decide⟩
  cases lim with
  | zero =>
    have e : stepChar 0 ⟨.startRecord, [], [], 0, []⟩ 'a' = .error .fieldLimit := by
      simp [stepChar, quote, delim, stepStartField, isNl, addChar]
    rw [show List.replicate (0 + 1) 'a' ++ ['\n'] = 'a' :: ['\n'] from rfl, run_err e]
    rfl
  | succ n =>
    have hsplit : List.replicate (n + 1 + 1) 'a' ++ ['\n'] = 'a' :: (List.replicate n 'a' ++ ('a' :: ['\n'])) := by
      rw [List.replicate_succ, List.replicate_succ']
      simp
    have e : stepChar (n + 1) ⟨.inField, [], (List.replicate n 'a').reverse ++ ['a'], 1 + (List.replicate n 'a').length, []⟩ 'a'
        = .error .fieldLimit := by
      simp [stepChar, quote, delim, isNl, addChar]
      omega
    rw [hsplit, run_startRecord (Or.inr (Or.inr ⟨hpa, by omega⟩)), run_ok (step_startField_plain hpa (by omega)),
      afterChar_mid (by decide) (by decide) (by simp),
      run_inField_plain (by simp) (List.replicate n 'a') ['a'] 1 (by intro c hc; rw [List.eq_of_mem_replicate hc]; exact hpa)
        (by simp; omega),
      run_err e]
    simp [List.replicate_succ']
    omega

/-! ### the only error of the reader on lines of `io.StringIO(…, newline="")` is the field size limit -/

/-- EAT_CRNL is only ever left pending between the `\r` and the `\n` of a `\r\n` -/
def CrnlInv (s : RSt) (rest : List Char) : Prop := s.mode = .eatCrnl → rest.head? = some '\n'

theorem stepChar_eatCrnl_isNl {lim : Nat} {s s' : RSt} {c : Char} (h : stepChar lim s c = .ok s')
    (hm : s'.mode = .eatCrnl) : isNl c = true := by
  by_cases hn : isNl c = true
  · exact hn
  · exfalso
    have hn' : isNl c = false := by simpa using hn
    unfold stepChar at h
    cases hmode : s.mode <;> simp only [hmode, hn', Bool.false_eq_true, if_false, stepStartField, addChar, saveField] at h
    all_goals
      repeat' split at h
      all_goals (cases h <;> simp at hm)

theorem stepEol_mode_ne_eatCrnl (s : RSt) : (stepEol s).mode ≠ .eatCrnl := by
  unfold stepEol
  cases hm : s.mode <;> simp [yieldRow, hm]

theorem run_error_fieldLimit {lim : Nat} :
    ∀ (text : List Char) (s s' : RSt) (e : CsvErr), CrnlInv s text → run lim s text = (s', some e) → e = .fieldLimit := by
  intro text
  induction text with
  | nil => intro s s' e _ h; simp [run] at h
  | cons c rest ih =>
    intro s s' e hinv h
    rw [run] at h
    cases hstep : stepChar lim s c with
    | error e' =>
      rw [hstep] at h
      simp only [Prod.mk.injEq, Option.some.injEq] at h
      obtain ⟨_, rfl⟩ := h
      -- which error can a step raise?
      unfold stepChar at hstep
      cases hmode : s.mode <;> simp only [hmode, stepStartField, addChar, saveField] at hstep
      all_goals try (repeat' split at hstep) <;> first | (cases hstep; done) | (injection hstep with hstep; exact hstep.symm) | skip
      -- EAT_CRNL followed by something else: excluded by the invariant
      · have hc : c = '\n' := by
          have := hinv hmode
          simpa using this
        subst hc
        simp [isNl] at *
    | ok s1 =>
      rw [hstep] at h
      refine ih _ _ _ ?_ h
      intro hm
      unfold afterChar at hm
      by_cases he : eolAfter c rest = true
      · rw [if_pos he] at hm
        exact absurd hm (stepEol_mode_ne_eatCrnl s1)
      · rw [if_neg he] at hm
        have hnl := stepChar_eatCrnl_isNl hstep hm
        simp only [eolAfter, Bool.or_eq_true, Bool.and_eq_true, beq_iff_eq, bne_iff_ne, ne_eq, List.isEmpty_iff, not_or, not_and,
          Decidable.not_not] at he
        simp only [isNl, Bool.or_eq_true, beq_iff_eq] at hnl
        rcases hnl with hnl | hnl
        · exact absurd hnl he.1.1
        · exact he.1.2 hnl

/-- for ALL texts: if the reader raises, it is "field larger than field limit" -/
theorem csvReadL_error {lim : Nat} {text : List Char} {e : CsvErr} (h : (csvReadL lim text).2 = some e) : e = .fieldLimit := by
  unfold csvReadL at h
  cases hr : run lim {} text with
  | mk s' oe =>
    rw [hr] at h
    cases oe with
    | none => simp at h
    | some e' =>
      simp only [Option.some.injEq] at h
      subst h
      exact run_error_fieldLimit text {} s' e' (by intro hm; cases hm) hr

end Pabu.Csv
