/-
  Lemmas about canonical freezing and the counter (PabuModel.Multi).
-/
import PabuModel.Multi
import Mathlib.Data.List.Basic
namespace Pabu.Multi
open Pabu

/-! ### approval: sorted insertion -/

theorem mem_insId {x y : Nat} {l : List Nat} : y ∈ insId x l ↔ y = x ∨ y ∈ l := by
  induction l with
  | nil => simp [insId]
  | cons a l ih =>
    unfold insId
    by_cases h1 : x < a
    · rw [if_pos h1]; simp
    · rw [if_neg h1]
      by_cases h2 : x = a
      · rw [if_pos h2]; subst h2; simp
      · rw [if_neg h2]; simp only [List.mem_cons, ih]; tauto

theorem sorted_insId {x : Nat} {l : List Nat} (h : l.Pairwise (· < ·)) : (insId x l).Pairwise (· < ·) := by
  induction l with
  | nil => simp [insId]
  | cons a l ih =>
    have ha : ∀ y ∈ l, a < y := (List.pairwise_cons.1 h).1
    have hl := (List.pairwise_cons.1 h).2
    unfold insId
    by_cases h1 : x < a
    · rw [if_pos h1]
      refine List.pairwise_cons.2 ⟨?_, h⟩
      intro y hy
      rcases List.mem_cons.1 hy with rfl | hy
      · exact h1
      · exact Nat.lt_trans h1 (ha y hy)
    · rw [if_neg h1]
      by_cases h2 : x = a
      · rw [if_pos h2]; exact h
      · rw [if_neg h2]
        refine List.pairwise_cons.2 ⟨?_, ih hl⟩
        intro y hy
        rcases mem_insId.1 hy with rfl | hy
        · omega
        · exact ha y hy

theorem mem_freezeApp {y : Nat} {l : List Nat} : y ∈ freezeApp l ↔ y ∈ l := by
  induction l with
  | nil => simp [freezeApp]
  | cons a l ih =>
    have : freezeApp (a :: l) = insId a (freezeApp l) := rfl
    rw [this, mem_insId, ih]; simp

theorem sorted_freezeApp (l : List Nat) : (freezeApp l).Pairwise (· < ·) := by
  induction l with
  | nil => simp [freezeApp]
  | cons a l ih =>
    have : freezeApp (a :: l) = insId a (freezeApp l) := rfl
    rw [this]; exact sorted_insId ih

/-- strictly ascending lists with the same members are equal -/
theorem sorted_ext : ∀ {l₁ l₂ : List Nat}, l₁.Pairwise (· < ·) → l₂.Pairwise (· < ·) →
    (∀ x, x ∈ l₁ ↔ x ∈ l₂) → l₁ = l₂ := by
  intro l₁
  induction l₁ with
  | nil =>
    intro l₂ _ _ h
    cases l₂ with
    | nil => rfl
    | cons b l₂ => exact absurd ((h b).2 (by simp)) (by simp)
  | cons a l₁ ih =>
    intro l₂ h₁ h₂ h
    cases l₂ with
    | nil => exact absurd ((h a).1 (by simp)) (by simp)
    | cons b l₂ =>
      have ha : ∀ y ∈ l₁, a < y := (List.pairwise_cons.1 h₁).1
      have hb : ∀ y ∈ l₂, b < y := (List.pairwise_cons.1 h₂).1
      have hab : a = b := by
        have h1 : a = b ∨ a ∈ l₂ := List.mem_cons.1 ((h a).1 (by simp))
        have h2 : b = a ∨ b ∈ l₁ := List.mem_cons.1 ((h b).2 (by simp))
        rcases h1 with h1 | h1
        · exact h1
        · rcases h2 with h2 | h2
          · exact h2.symm
          · have := hb a h1; have := ha b h2; omega
      subst hab
      congr 1
      apply ih (List.pairwise_cons.1 h₁).2 (List.pairwise_cons.1 h₂).2
      intro x
      constructor
      · intro hx
        rcases List.mem_cons.1 ((h x).1 (List.mem_cons_of_mem _ hx)) with rfl | hx'
        · have := ha x hx; omega
        · exact hx'
      · intro hx
        rcases List.mem_cons.1 ((h x).2 (List.mem_cons_of_mem _ hx)) with rfl | hx'
        · have := hb x hx; omega
        · exact hx'

theorem freezeApp_ext {l₁ l₂ : List Nat} (h : ∀ x, x ∈ l₁ ↔ x ∈ l₂) : freezeApp l₁ = freezeApp l₂ :=
  sorted_ext (sorted_freezeApp l₁) (sorted_freezeApp l₂) (fun x => by rw [mem_freezeApp, mem_freezeApp]; exact h x)

/-! ### cardinal: sorted score lists -/

def KeySorted (l : List (Nat × Rat)) : Prop := l.Pairwise (fun a b => a.1 < b.1)

theorem getScore_none_of_lt {l : List (Nat × Rat)} {k : Nat} (h : ∀ e ∈ l, k < e.1) : getScore l k = none := by
  induction l with
  | nil => rfl
  | cons e r ih =>
    unfold getScore
    have := h e (by simp)
    rw [if_neg (by omega)]
    exact ih (fun e' he' => h e' (List.mem_cons_of_mem _ he'))

theorem getScore_some_mem {l : List (Nat × Rat)} {k : Nat} {v : Rat} (h : getScore l k = some v) :
    ∃ e ∈ l, e.1 = k := by
  induction l with
  | nil => simp [getScore] at h
  | cons e r ih =>
    unfold getScore at h
    by_cases hk : e.1 = k
    · exact ⟨e, by simp, hk⟩
    · rw [if_neg hk] at h
      obtain ⟨e', he', hk'⟩ := ih h
      exact ⟨e', List.mem_cons_of_mem _ he', hk'⟩

theorem mem_putNew {k : Nat} {v : Rat} {l : List (Nat × Rat)} {e : Nat × Rat} (h : e ∈ putNew k v l) :
    e.1 = k ∨ e ∈ l := by
  induction l with
  | nil => simp [putNew] at h; left; rw [h]
  | cons a r ih =>
    unfold putNew at h
    by_cases h1 : k < a.1
    · rw [if_pos h1] at h
      rcases List.mem_cons.1 h with rfl | h
      · left; rfl
      · right; exact h
    · rw [if_neg h1] at h
      by_cases h2 : k = a.1
      · rw [if_pos h2] at h; right; exact h
      · rw [if_neg h2] at h
        rcases List.mem_cons.1 h with rfl | h
        · right; simp
        · rcases ih h with h | h
          · left; exact h
          · right; exact List.mem_cons_of_mem _ h

theorem sorted_putNew {k : Nat} {v : Rat} {l : List (Nat × Rat)} (h : KeySorted l) : KeySorted (putNew k v l) := by
  unfold KeySorted at *
  induction l with
  | nil => simp [putNew]
  | cons a r ih =>
    have ha : ∀ y ∈ r, a.1 < y.1 := (List.pairwise_cons.1 h).1
    have hr := (List.pairwise_cons.1 h).2
    unfold putNew
    by_cases h1 : k < a.1
    · rw [if_pos h1]
      refine List.pairwise_cons.2 ⟨?_, h⟩
      intro y hy
      rcases List.mem_cons.1 hy with rfl | hy
      · exact h1
      · exact Nat.lt_trans h1 (ha y hy)
    · rw [if_neg h1]
      by_cases h2 : k = a.1
      · rw [if_pos h2]; exact h
      · rw [if_neg h2]
        refine List.pairwise_cons.2 ⟨?_, ih hr⟩
        intro y hy
        rcases mem_putNew hy with hy | hy
        · show a.1 < y.1
          omega
        · exact ha y hy

theorem getScore_putNew {k : Nat} {v : Rat} {l : List (Nat × Rat)} (h : KeySorted l) (k' : Nat) :
    getScore (putNew k v l) k' =
      if (getScore l k').isSome then getScore l k' else if k = k' then some v else none := by
  unfold KeySorted at h
  induction l with
  | nil =>
    simp only [putNew, getScore]
    simp
  | cons a r ih =>
    have ha : ∀ y ∈ r, a.1 < y.1 := (List.pairwise_cons.1 h).1
    have hr := (List.pairwise_cons.1 h).2
    unfold putNew
    by_cases h1 : k < a.1
    · rw [if_pos h1]
      by_cases hk : k = k'
      · subst hk
        have hnone : getScore (a :: r) k = none := by
          apply getScore_none_of_lt
          intro e he
          rcases List.mem_cons.1 he with rfl | he
          · exact h1
          · exact Nat.lt_trans h1 (ha e he)
        rw [hnone]
        simp [getScore]
      · have : getScore ((k, v) :: a :: r) k' = getScore (a :: r) k' := by
          rw [getScore]; exact if_neg hk
        rw [this, if_neg hk]
        cases getScore (a :: r) k' <;> simp
    · rw [if_neg h1]
      by_cases h2 : k = a.1
      · rw [if_pos h2]
        by_cases hk : k = k'
        · subst hk
          have : getScore (a :: r) k = some a.2 := by rw [getScore]; exact if_pos h2.symm
          rw [this]; simp
        · rw [if_neg hk]
          cases getScore (a :: r) k' <;> simp
      · rw [if_neg h2]
        by_cases hak : a.1 = k'
        · have e1 : getScore (a :: putNew k v r) k' = some a.2 := by rw [getScore]; exact if_pos hak
          have e2 : getScore (a :: r) k' = some a.2 := by rw [getScore]; exact if_pos hak
          rw [e1, e2]; simp
        · have e1 : getScore (a :: putNew k v r) k' = getScore (putNew k v r) k' := by
            rw [getScore]; exact if_neg hak
          have e2 : getScore (a :: r) k' = getScore r k' := by rw [getScore]; exact if_neg hak
          rw [e1, e2]; exact ih hr

theorem sorted_freezeCard (l : List (Nat × Rat)) : KeySorted (freezeCard l) := by
  induction l with
  | nil => simp [freezeCard, KeySorted]
  | cons e r ih =>
    have : freezeCard (e :: r) = putNew e.1 e.2 (freezeCard r) := rfl
    rw [this]; exact sorted_putNew ih

/-- freezing preserves the score mapping -/
theorem getScore_freezeCard (l : List (Nat × Rat)) (k : Nat) : getScore (freezeCard l) k = lastScore l k := by
  induction l with
  | nil => rfl
  | cons e r ih =>
    have : freezeCard (e :: r) = putNew e.1 e.2 (freezeCard r) := rfl
    rw [this, getScore_putNew (sorted_freezeCard r), ih, lastScore]

/-- score lists strictly ascending by key with the same `get` are equal -/
theorem keySorted_ext : ∀ {l₁ l₂ : List (Nat × Rat)}, KeySorted l₁ → KeySorted l₂ →
    (∀ k, getScore l₁ k = getScore l₂ k) → l₁ = l₂ := by
  intro l₁
  induction l₁ with
  | nil =>
    intro l₂ _ _ h
    cases l₂ with
    | nil => rfl
    | cons b l₂ =>
      have := h b.1
      rw [getScore, getScore, if_pos rfl] at this
      exact absurd this (by simp)
  | cons a l₁ ih =>
    intro l₂ h₁ h₂ h
    cases l₂ with
    | nil =>
      have := h a.1
      rw [show getScore (a :: l₁) a.1 = some a.2 from by rw [getScore]; exact if_pos rfl, getScore] at this
      exact absurd this (by simp)
    | cons b l₂ =>
      unfold KeySorted at h₁ h₂
      have ha : ∀ y ∈ l₁, a.1 < y.1 := (List.pairwise_cons.1 h₁).1
      have hb : ∀ y ∈ l₂, b.1 < y.1 := (List.pairwise_cons.1 h₂).1
      have hA : getScore (a :: l₁) a.1 = some a.2 := by rw [getScore]; exact if_pos rfl
      have hB : getScore (b :: l₂) b.1 = some b.2 := by rw [getScore]; exact if_pos rfl
      have hkey : a.1 = b.1 := by
        by_cases hk : b.1 = a.1
        · exact hk.symm
        · -- a.1 is found in l₂, b.1 is found in l₁
          have h1 : getScore l₂ a.1 = some a.2 := by
            have := h a.1; rw [hA, getScore, if_neg hk] at this; exact this.symm
          have h2 : getScore l₁ b.1 = some b.2 := by
            have := h b.1; rw [hB, getScore, if_neg (fun e => hk e.symm)] at this; exact this
          obtain ⟨e₁, he₁, hk₁⟩ := getScore_some_mem h1
          obtain ⟨e₂, he₂, hk₂⟩ := getScore_some_mem h2
          have := hb e₁ he₁; have := ha e₂ he₂; omega
      have hab : a = b := by
        have := h a.1
        rw [hA, getScore, if_pos hkey.symm] at this
        exact Prod.ext hkey (Option.some.inj this)
      subst hab
      congr 1
      apply ih (List.pairwise_cons.1 h₁).2 (List.pairwise_cons.1 h₂).2
      intro k
      by_cases hk : a.1 = k
      · subst hk
        rw [getScore_none_of_lt ha, getScore_none_of_lt hb]
      · have := h k
        rw [getScore, if_neg hk, getScore, if_neg hk] at this
        exact this

theorem freezeCard_ext {l₁ l₂ : List (Nat × Rat)} (h : ∀ k, lastScore l₁ k = lastScore l₂ k) :
    freezeCard l₁ = freezeCard l₂ :=
  keySorted_ext (sorted_freezeCard l₁) (sorted_freezeCard l₂)
    (fun k => by rw [getScore_freezeCard, getScore_freezeCard]; exact h k)

/-- with distinct keys the final dict holds exactly the assigned pairs -/
theorem lastScore_eq_some_iff {l : List (Nat × Rat)} (hn : (l.map Prod.fst).Nodup) (k : Nat) (v : Rat) :
    lastScore l k = some v ↔ (k, v) ∈ l := by
  induction l generalizing v with
  | nil => simp [lastScore]
  | cons e r ih =>
    have hn' : e.1 ∉ r.map Prod.fst ∧ (r.map Prod.fst).Nodup := List.nodup_cons.1 (by simpa using hn)
    rw [lastScore]
    by_cases hs : (lastScore r k).isSome = true
    · rw [if_pos hs]
      obtain ⟨w, hw⟩ := Option.isSome_iff_exists.1 hs
      have hmem : (k, w) ∈ r := (ih hn'.2 w).1 hw
      have hne : e.1 ≠ k := by
        intro hek
        apply hn'.1
        rw [hek]
        exact List.mem_map.2 ⟨(k, w), hmem, rfl⟩
      constructor
      · intro h; exact List.mem_cons_of_mem _ ((ih hn'.2 v).1 h)
      · intro h
        rcases List.mem_cons.1 h with h | h
        · exact absurd (by rw [← h]) hne
        · exact (ih hn'.2 v).2 h
    · rw [if_neg hs]
      have hnone : lastScore r k = none := by
        cases hh : lastScore r k with
        | none => rfl
        | some w => rw [hh] at hs; simp at hs
      by_cases hek : e.1 = k
      · rw [if_pos hek]
        constructor
        · intro h
          have : e = (k, v) := Prod.ext hek (Option.some.inj h)
          rw [this]; simp
        · intro h
          rcases List.mem_cons.1 h with h | h
          · rw [← h]
          · have := (ih hn'.2 v).2 h; rw [hnone] at this; exact absurd this (by simp)
      · rw [if_neg hek]
        constructor
        · intro h; exact absurd h (by simp)
        · intro h
          rcases List.mem_cons.1 h with h | h
          · exact absurd (by rw [← h]) hek
          · have := (ih hn'.2 v).2 h; rw [hnone] at this; exact absurd this (by simp)

/-! ### counter -/

/-- number of occurrences of `b` (decidable equality of canonical ballots) -/
def countEq (b : Ballot) : List Ballot → Nat
  | [] => 0
  | x :: xs => (if x = b then 1 else 0) + countEq b xs

theorem countEq_append (b : Ballot) (l₁ l₂ : List Ballot) : countEq b (l₁ ++ l₂) = countEq b l₁ + countEq b l₂ := by
  induction l₁ with
  | nil => simp [countEq]
  | cons x xs ih => simp only [List.cons_append, countEq, ih]; omega

theorem countEq_pos_iff (b : Ballot) (l : List Ballot) : 0 < countEq b l ↔ b ∈ l := by
  induction l with
  | nil => simp [countEq]
  | cons x xs ih =>
    rw [countEq]
    by_cases h : x = b
    · rw [if_pos h]; subst h; simp only [List.mem_cons, true_or, iff_true]; omega
    · rw [if_neg h, Nat.zero_add, ih]
      constructor
      · intro hb; exact List.mem_cons_of_mem _ hb
      · intro hb
        rcases List.mem_cons.1 hb with hb | hb
        · exact absurd hb.symm h
        · exact hb

theorem mult_add (b : Ballot) (c : Nat) (M : Counter) (b' : Ballot) :
    mult (add b c M) b' = mult M b' + (if b = b' then c else 0) := by
  induction M with
  | nil =>
    rw [add, mult, mult, mult]
    by_cases h : b = b'
    · rw [if_pos h]; show c = 0 + c; omega
    · rw [if_neg h]
  | cons e r ih =>
    rw [add]
    by_cases h : e.1 = b
    · rw [if_pos h, mult, mult]
      by_cases h' : e.1 = b'
      · rw [if_pos h', if_pos h', if_pos (h.symm.trans h')]
      · rw [if_neg h', if_neg h', if_neg (fun hb => h' (h.trans hb))]; omega
    · rw [if_neg h, mult, mult]
      by_cases h' : e.1 = b'
      · rw [if_pos h', if_pos h', if_neg (fun hb => h (h'.trans hb.symm))]; omega
      · rw [if_neg h', if_neg h']; exact ih

theorem total_add (b : Ballot) (c : Nat) (M : Counter) : total (add b c M) = total M + c := by
  unfold total
  induction M with
  | nil => simp [add, sumNat]
  | cons e r ih =>
    rw [add]
    by_cases h : e.1 = b
    · rw [if_pos h]; simp only [sumNat]; omega
    · rw [if_neg h]; simp only [sumNat]; rw [ih]; omega

theorem mem_keys_add (b : Ballot) (c : Nat) (M : Counter) (k : Ballot) :
    k ∈ keys (add b c M) ↔ k = b ∨ k ∈ keys M := by
  unfold keys
  induction M with
  | nil => simp [add]
  | cons e r ih =>
    rw [add]
    by_cases h : e.1 = b
    · rw [if_pos h]; simp only [List.map_cons, List.mem_cons]
      constructor
      · intro hk; right; exact hk
      · intro hk
        rcases hk with hk | hk
        · left; rw [hk, h]
        · exact hk
    · rw [if_neg h]; simp only [List.map_cons, List.mem_cons, ih]; tauto

theorem nodup_keys_add (b : Ballot) (c : Nat) (M : Counter) (h : (keys M).Nodup) : (keys (add b c M)).Nodup := by
  induction M with
  | nil => simp [add, keys]
  | cons e r ih =>
    have hn : e.1 ∉ keys r ∧ (keys r).Nodup := List.nodup_cons.1 (by simpa [keys] using h)
    rw [add]
    by_cases hb : e.1 = b
    · rw [if_pos hb]
      have : keys ((e.1, e.2 + c) :: r) = e.1 :: keys r := rfl
      rw [this]; exact List.nodup_cons.2 hn
    · rw [if_neg hb]
      have : keys (e :: add b c r) = e.1 :: keys (add b c r) := rfl
      rw [this]
      refine List.nodup_cons.2 ⟨?_, ih hn.2⟩
      intro hmem
      rcases (mem_keys_add b c r e.1).1 hmem with h1 | h1
      · exact hb h1
      · exact hn.1 h1

theorem pos_add (b : Ballot) (c : Nat) (hc : 0 < c) (M : Counter) (h : ∀ e ∈ M, 0 < e.2) :
    ∀ e ∈ add b c M, 0 < e.2 := by
  induction M with
  | nil => intro e he; simp [add] at he; rw [he]; exact hc
  | cons a r ih =>
    intro e he
    rw [add] at he
    by_cases hb : a.1 = b
    · rw [if_pos hb] at he
      rcases List.mem_cons.1 he with he | he
      · rw [he]; show 0 < a.2 + c; omega
      · exact h e (List.mem_cons_of_mem _ he)
    · rw [if_neg hb] at he
      rcases List.mem_cons.1 he with he | he
      · rw [he]; exact h a (by simp)
      · exact ih (fun e' he' => h e' (List.mem_cons_of_mem _ he')) e he

/-- the invariant of a multiprofile that has seen the (frozen) voters `V` -/
structure Faithful (M : Counter) (V : List Ballot) : Prop where
  total_eq : total M = V.length
  nodup : (keys M).Nodup
  mult_eq : ∀ b, mult M b = countEq b V
  mem_iff : ∀ b, b ∈ keys M ↔ b ∈ V
  pos : ∀ e ∈ M, 0 < e.2

theorem faithful_nil : Faithful [] [] :=
  ⟨rfl, by simp [keys], fun _ => rfl, fun _ => by simp [keys], fun _ h => by simp at h⟩

theorem faithful_append {M : Counter} {V : List Ballot} (h : Faithful M V) (b : Ballot) :
    Faithful (append M b) (V ++ [b]) := by
  unfold append
  refine ⟨?_, nodup_keys_add b 1 M h.nodup, ?_, ?_, pos_add b 1 (by omega) M h.pos⟩
  · rw [total_add, h.total_eq]; simp
  · intro b'
    rw [mult_add, h.mult_eq, countEq_append]
    simp only [countEq, Nat.add_zero]
  · intro b'
    rw [mem_keys_add, h.mem_iff]; simp only [List.mem_append, List.mem_singleton]; tauto

theorem faithful_extend {M : Counter} {V : List Ballot} (h : Faithful M V) (bs : List Ballot) :
    Faithful (extend M bs) (V ++ bs) := by
  unfold extend
  induction bs generalizing M V with
  | nil => simpa using h
  | cons b bs ih =>
    have := ih (faithful_append h b)
    simpa using this

end Pabu.Multi
