/-
  Lemmas for the termination of the iterated Method of Equal Shares (C09, `MES.iterated`).

  The argument: when the per-voter budget `b` is at least the total cost of the buyable pool
  (`MES.initPool`), every supporter alone can pay for every remaining pool project in every reachable
  state, so
  * every remaining pool project has a price (`rich_affordable`), hence something is tied while the
    pool is non-empty (`rich_progress`);
  * the run (fuel = pool length, the pool shrinks strictly) ends with an EMPTY pool
    (`RoundRule.run_exhausts`, `RoundRule.runAll_exhausts`);
  * the outcome contains the whole pool (`runAt_buys_pool`, `runAllAt_buys_pool`) and is therefore
    exhaustive over it (`isExhaustiveOver_of_subset`).

  The invariant `Rich` that carries this: nobody is overdrawn, every voter still holds at least the
  total cost of the REMAINING pool, and every project of the initial pool is in the pool or bought.
  It is preserved by a purchase because a single voter (multiplicity ≥ 1) never pays more than the
  project's cost (`pay_le_cost`).
-/
import PabuProofs.Lemmas.MES
import PabuProofs.Lemmas.Tie
import PabuProofs.Lemmas.Wrappers
namespace Pabu

/-! ### Generic: a run that always makes progress empties its pool -/

section Generic
variable {σ : Type}

/-- the accumulating fold only ever extends the accumulator -/
theorem foldlM_acc_prefix {α β : Type} (f : α → Except Err (List β)) :
    ∀ (ts : List α) (acc L : List β), ts.foldlM (accStep f) acc = .ok L → ∀ W ∈ acc, W ∈ L
  | [], acc, L, h, W, hW => by
    have h' : (Except.ok acc : Except Err (List β)) = .ok L := h
    cases h'; exact hW
  | t :: ts, acc, L, h, W, hW => by
    cases hf : f t with
    | error e =>
      rw [foldlM_cons_error _ t ts acc e (accStep_error f acc t e hf)] at h
      cases h
    | ok r =>
      rw [foldlM_cons_ok _ t ts acc _ (accStep_ok f acc t r hf)] at h
      exact foldlM_acc_prefix f ts _ L h W (List.mem_append_left _ hW)

/-- Resolute.  `P` is an invariant of purchases of tied projects under which a non-empty pool always
    has a tied project; purchases shrink the pool; the order function returns members of the tied set
    and never an empty list for a non-empty one.  Then a successful run with fuel ≥ pool length returns
    the outcome of a state with an EMPTY pool. -/
theorem RoundRule.run_exhausts (R : RoundRule σ) (order : List Pid → Except Err (List Pid))
    (P : σ → Prop)
    (hord : ∀ T l, order T = .ok l → ∀ x ∈ l, x ∈ T)
    (hne : ∀ T, T ≠ [] → order T ≠ .ok [])
    (hbuy : ∀ s t, P s → t ∈ R.tied s → P (R.buy s t))
    (hprog : ∀ s, P s → R.pool s ≠ [] → R.tied s ≠ [])
    (hdec : ∀ s t, t ∈ R.tied s → (R.pool (R.buy s t)).length < (R.pool s).length) :
    ∀ n s W, P s → (R.pool s).length ≤ n → R.run order n s = .ok W →
      ∃ s', P s' ∧ W = R.out s' ∧ R.pool s' = [] := by
  intro n
  induction n with
  | zero =>
    intro s W hs hlen h
    unfold RoundRule.run at h
    cases h
    exact ⟨s, hs, rfl, List.eq_nil_of_length_eq_zero (Nat.le_zero.mp hlen)⟩
  | succ n ih =>
    intro s W hs hlen h
    unfold RoundRule.run at h
    by_cases hT : R.tied s = []
    · rw [if_pos hT] at h
      cases h
      refine ⟨s, hs, rfl, ?_⟩
      by_contra hp
      exact hprog s hs hp hT
    · rw [if_neg hT] at h
      cases ho : order (R.tied s) with
      | error e => rw [ho] at h; cases h
      | ok l =>
        rw [ho] at h
        cases l with
        | nil => exact absurd ho (hne _ hT)
        | cons t r =>
          have ht : t ∈ R.tied s := hord _ _ ho t (by simp)
          have := hdec s t ht
          exact ih _ W (hbuy s t hs ht) (by omega) h

/-- Irresolute: under the same hypotheses a successful branching run returns at least one outcome, and
    every outcome is that of a state with an EMPTY pool. -/
theorem RoundRule.runAll_exhausts (R : RoundRule σ) (order : List Pid → Except Err (List Pid))
    (P : σ → Prop)
    (hord : ∀ T l, order T = .ok l → ∀ x ∈ l, x ∈ T)
    (hne : ∀ T, T ≠ [] → order T ≠ .ok [])
    (hbuy : ∀ s t, P s → t ∈ R.tied s → P (R.buy s t))
    (hprog : ∀ s, P s → R.pool s ≠ [] → R.tied s ≠ [])
    (hdec : ∀ s t, t ∈ R.tied s → (R.pool (R.buy s t)).length < (R.pool s).length) :
    ∀ n s L, P s → (R.pool s).length ≤ n → R.runAll order n s = .ok L →
      L ≠ [] ∧ ∀ W ∈ L, ∃ s', P s' ∧ W = R.out s' ∧ R.pool s' = [] := by
  intro n
  induction n with
  | zero =>
    intro s L hs hlen h
    unfold RoundRule.runAll at h
    cases h
    refine ⟨by simp, ?_⟩
    intro W hW
    have : W = R.out s := by simpa using hW
    exact ⟨s, hs, this, List.eq_nil_of_length_eq_zero (Nat.le_zero.mp hlen)⟩
  | succ n ih =>
    intro s L hs hlen h
    rw [runAll_succ] at h
    by_cases hT : R.tied s = []
    · rw [if_pos hT] at h
      cases h
      refine ⟨by simp, ?_⟩
      intro W hW
      have : W = R.out s := by simpa using hW
      refine ⟨s, hs, this, ?_⟩
      by_contra hp
      exact hprog s hs hp hT
    · rw [if_neg hT] at h
      cases ho : order (R.tied s) with
      | error e => rw [ho] at h; cases h
      | ok ts =>
        rw [ho] at h
        dsimp only at h
        have hbranch : ∀ t ∈ ts, ∀ r, R.runAll order n (R.buy s t) = .ok r →
            r ≠ [] ∧ ∀ W ∈ r, ∃ s', P s' ∧ W = R.out s' ∧ R.pool s' = [] := by
          intro t ht r hr
          have htt : t ∈ R.tied s := hord _ _ ho t ht
          have := hdec s t htt
          exact ih _ r (hbuy s t hs htt) (by omega) hr
        constructor
        · cases ts with
          | nil => exact absurd ho (hne _ hT)
          | cons t ts' =>
            cases hf : R.runAll order n (R.buy s t) with
            | error e =>
              rw [foldlM_cons_error _ t ts' [] e (accStep_error _ [] t e hf)] at h
              cases h
            | ok r =>
              rw [foldlM_cons_ok _ t ts' [] _ (accStep_ok _ [] t r hf)] at h
              obtain ⟨W, hW⟩ := List.exists_mem_of_ne_nil r (hbranch t (by simp) r hf).1
              have := foldlM_acc_prefix _ ts' _ L h W (List.mem_append_right _ hW)
              exact List.ne_nil_of_mem this
        · intro W hW
          rcases foldlM_acc_mem _ ts [] L h W hW with h1 | ⟨t, ht, r, hr, hWr⟩
          · simp at h1
          · exact (hbranch t ht r hr).2 W hWr

/-- with an order function that never raises, the resolute run never raises -/
theorem RoundRule.run_total (R : RoundRule σ) (order : List Pid → Except Err (List Pid))
    (htot : ∀ T, ∃ l, order T = .ok l) : ∀ n s, ∃ W, R.run order n s = .ok W := by
  intro n
  induction n with
  | zero => intro s; exact ⟨_, rfl⟩
  | succ n ih =>
    intro s
    unfold RoundRule.run
    by_cases hT : R.tied s = []
    · rw [if_pos hT]; exact ⟨_, rfl⟩
    · rw [if_neg hT]
      obtain ⟨l, hl⟩ := htot (R.tied s)
      rw [hl]
      cases l with
      | nil => exact ⟨_, rfl⟩
      | cons t r => exact ih _

/-- … nor does the branching run -/
theorem RoundRule.runAll_total (R : RoundRule σ) (order : List Pid → Except Err (List Pid))
    (htot : ∀ T, ∃ l, order T = .ok l) : ∀ n s, ∃ L, R.runAll order n s = .ok L := by
  intro n
  induction n with
  | zero => intro s; exact ⟨_, rfl⟩
  | succ n ih =>
    intro s
    rw [runAll_succ]
    by_cases hT : R.tied s = []
    · rw [if_pos hT]; exact ⟨_, rfl⟩
    · rw [if_neg hT]
      obtain ⟨l, hl⟩ := htot (R.tied s)
      rw [hl]
      dsimp only
      exact ⟨_, foldlM_acc_ok _ (fun t => (ih (R.buy s t)).choose) l []
        (fun t _ => (ih (R.buy s t)).choose_spec)⟩

end Generic

/-! ### Sums -/

theorem sumOver_mem_le {α : Type} (f : α → Rat) : ∀ (l : List α), (∀ y ∈ l, 0 ≤ f y) →
    ∀ x ∈ l, f x ≤ sumOver l f
  | [], _, x, hx => by simp at hx
  | y :: ys, h, x, hx => by
    have h0 := h y (by simp)
    have hnn := MES.sumOver_nonneg f ys (fun z hz => h z (by simp [hz]))
    simp only [sumOver]
    rcases List.mem_cons.mp hx with rfl | hx
    · linarith
    · have := sumOver_mem_le f ys (fun z hz => h z (by simp [hz])) x hx
      linarith

/-- removing (all copies of) a member `t` from a list of non-negative terms lowers the sum by at
    least `f t` -/
theorem sumOver_filter_ne_le (f : Pid → Rat) (t : Pid) : ∀ (l : List Pid), (∀ y ∈ l, 0 ≤ f y) →
    t ∈ l → sumOver (l.filter (fun q => q != t)) f + f t ≤ sumOver l f
  | [], _, ht => by simp at ht
  | y :: ys, h, ht => by
    have h0 := h y (by simp)
    have hys : ∀ z ∈ ys, 0 ≤ f z := fun z hz => h z (by simp [hz])
    by_cases hy : y = t
    · subst hy
      rw [List.filter_cons_of_neg (by simp)]
      simp only [sumOver]
      by_cases hin : y ∈ ys
      · have := sumOver_filter_ne_le f y ys hys hin
        linarith
      · have : ys.filter (fun q => q != y) = ys := by
          rw [List.filter_eq_self]
          intro z hz
          have : z ≠ y := fun e => hin (e ▸ hz)
          simpa using this
        rw [this]
        linarith
    · rw [List.filter_cons_of_pos (by simpa using hy)]
      simp only [sumOver]
      have hin : t ∈ ys := by
        rcases List.mem_cons.mp ht with h1 | h1
        · exact absurd h1.symm hy
        · exact h1
      have := sumOver_filter_ne_le f t ys hys hin
      linarith

theorem budSum_mem_le : ∀ (l : List Sup), (∀ s ∈ l, 0 ≤ s.b) → ∀ s ∈ l, (s.m : Rat) * s.b ≤ budSum l
  | [], _, s, hs => by simp at hs
  | y :: ys, h, s, hs => by
    have h0 : 0 ≤ (y.m : Rat) * y.b := mul_nonneg (Nat.cast_nonneg _) (h y (by simp))
    have hys : ∀ z ∈ ys, 0 ≤ z.b := fun z hz => h z (by simp [hz])
    have hnn : 0 ≤ budSum ys := by
      clear hs h0
      induction ys with
      | nil => simp [budSum]
      | cons z zs ih =>
        have hz : 0 ≤ (z.m : Rat) * z.b := mul_nonneg (Nat.cast_nonneg _) (hys z (by simp))
        have := ih (fun w hw => h w (by
          rcases List.mem_cons.mp hw with rfl | hw
          · simp
          · simp [hw])) (fun w hw => hys w (by simp [hw]))
        simp only [budSum]; linarith
    simp only [budSum]
    rcases List.mem_cons.mp hs with rfl | hs
    · linarith
    · have := budSum_mem_le ys hys s hs
      linarith

namespace MES

/-! ### One voter never pays more than the project costs -/

/-- a single voter entry (multiplicity ≥ 1) pays at most the cost of the project bought -/
theorem pay_le_cost {V : VCtx} {cost : Pid → Rat} {b : Nat → Rat} {t : Pid} {r : Rat}
    (h : VOK V b) (hc : 0 < cost t) (hr : rho V cost b t = some r) {i : Nat} (hi : i ∈ V.vs) :
    pay V b t r i ≤ cost t := by
  have hrpos := rho_pos h hc hr
  have hnn : ∀ j ∈ V.vs, 0 ≤ (V.m j : Rat) * pay V b t r j := fun j hj =>
    mul_nonneg (Nat.cast_nonneg _) (pay_nonneg V b t r j (h.nonneg j hj) (le_of_lt hrpos))
  have h1 := sumOver_mem_le (fun j => (V.m j : Rat) * pay V b t r j) V.vs hnn i hi
  rw [pay_total h hc hr] at h1
  have hp := pay_nonneg V b t r i (h.nonneg i hi) (le_of_lt hrpos)
  have hm : (1 : Rat) ≤ (V.m i : Rat) := by exact_mod_cast h.mult i hi
  have : pay V b t r i ≤ (V.m i : Rat) * pay V b t r i := by nlinarith
  exact le_trans this h1

/-- a project with positive total satisfaction has a supporter -/
theorem exists_supporter {V : VCtx} {p : Pid} (h : 0 < totalSat V p) : ∃ i, i ∈ supporters V p := by
  unfold totalSat at h
  cases hs : supporters V p with
  | nil => rw [hs] at h; simp [sumOver] at h
  | cons i l => exact ⟨i, by simp⟩

/-! ### The invariant -/

/-- state invariant at a generous per-voter budget, relative to the initial pool `pool0` -/
structure Rich (V : VCtx) (cost : Pid → Rat) (pool0 : List Pid) (s : State) : Prop where
  nonneg : ∀ i ∈ V.vs, 0 ≤ s.b i
  pool_pos : ∀ p ∈ s.pool, 0 < cost p
  pool_sup : ∀ p ∈ s.pool, 0 < totalSat V p
  /-- every voter still holds at least the total cost of what is left in the pool -/
  rich : ∀ i ∈ V.vs, costOf cost s.pool ≤ s.b i
  /-- nothing of the initial pool is lost: still in the pool, or bought -/
  cover : ∀ p ∈ pool0, p ∈ s.pool ∨ p ∈ s.alloc

/-- (1a) under the invariant every remaining pool project has a price -/
theorem rich_affordable {V : VCtx} {cost : Pid → Rat} {pool0 : List Pid} {s : State}
    (hm : ∀ i ∈ V.vs, 1 ≤ V.m i) (h : Rich V cost pool0 s) {p : Pid} (hp : p ∈ s.pool) :
    rho V cost s.b p ≠ none := by
  intro hnone
  have hok : VOK V s.b := ⟨h.nonneg, hm⟩
  have hlt := (rho_none_iff hok (h.pool_pos p hp)).mp hnone
  obtain ⟨i, hi⟩ := exists_supporter (h.pool_sup p hp)
  have hi' := mem_supporters.mp hi
  have hmem : (⟨s.b i, V.u i p, V.m i⟩ : Sup) ∈ sups V s.b p := by
    unfold sups; exact List.mem_map.mpr ⟨i, hi, rfl⟩
  have hge := budSum_mem_le (sups V s.b p) (fun t ht => (sups_wf hok p t ht).1) _ hmem
  simp only at hge
  have hmi : (1 : Rat) ≤ (V.m i : Rat) := by exact_mod_cast hm i hi'.1
  have hbi := h.nonneg i hi'.1
  have h1 : s.b i ≤ (V.m i : Rat) * s.b i := by nlinarith
  have h2 : cost p ≤ costOf cost s.pool :=
    sumOver_mem_le cost s.pool (fun q hq => le_of_lt (h.pool_pos q hq)) p hp
  have h3 := h.rich i hi'.1
  linarith

/-- (1b) … hence something is tied while the pool is non-empty -/
theorem rich_progress {V : VCtx} {cost : Pid → Rat} {pool0 : List Pid} {s : State}
    (hm : ∀ i ∈ V.vs, 1 ≤ V.m i) (h : Rich V cost pool0 s) (hp : s.pool ≠ []) :
    tied V cost s ≠ [] := by
  intro hT
  obtain ⟨p, hp'⟩ := List.exists_mem_of_ne_nil _ hp
  exact rich_affordable hm h hp' (tied_nil_iff.mp hT p hp')

/-- (1c) buying a tied project keeps the invariant -/
theorem rich_buy {V : VCtx} {cost : Pid → Rat} {pool0 : List Pid} {s : State} {t : Pid}
    (hm : ∀ i ∈ V.vs, 1 ≤ V.m i) (h : Rich V cost pool0 s) (ht : t ∈ tied V cost s) :
    Rich V cost pool0 (buy V cost s t) := by
  obtain ⟨r, hr, _⟩ := tied_rho ht
  have htp := tied_sub_pool ht
  have hc : 0 < cost t := h.pool_pos t htp
  have hok : VOK V s.b := ⟨h.nonneg, hm⟩
  have hsum := sumOver_filter_ne_le cost t s.pool (fun q hq => le_of_lt (h.pool_pos q hq)) htp
  rw [buy_some hr]
  refine ⟨?_, ?_, ?_, ?_, ?_⟩
  · intro i hi
    have := pay_le V s.b t r i (h.nonneg i hi)
    simp only; linarith
  · intro p hp; exact h.pool_pos p (List.mem_filter.mp hp).1
  · intro p hp; exact h.pool_sup p (List.mem_filter.mp hp).1
  · intro i hi
    have h1 := pay_le_cost hok hc hr hi
    have h2 := h.rich i hi
    simp only [costOf] at h2 ⊢
    linarith
  · intro p hp
    by_cases hpt : p = t
    · right; subst hpt; simp
    · rcases h.cover p hp with h1 | h1
      · left; exact List.mem_filter.mpr ⟨h1, by simpa using hpt⟩
      · right; exact List.mem_append_left _ h1

/-- the initial state satisfies the invariant when the per-voter budget covers the whole pool -/
theorem rich_init (V : VCtx) (I : Inst) (init : List Pid) {b0 : Rat}
    (hb : costOf I.cost (initPool V I init) ≤ b0) :
    Rich V I.cost (initPool V I init) (initState V I init b0) := by
  have hpos : ∀ p ∈ initPool V I init, 0 < I.cost p := fun p hp => (mem_initPool.mp hp).2.2.2
  have hnn : 0 ≤ costOf I.cost (initPool V I init) :=
    sumOver_nonneg _ _ (fun p hp => le_of_lt (hpos p hp))
  unfold initState
  exact ⟨fun _ _ => le_trans hnn hb, hpos, fun p hp => (mem_initPool.mp hp).2.2.1,
    fun _ _ => hb, fun p hp => Or.inl hp⟩

theorem rule_dec (V : VCtx) (cost : Pid → Rat) (s : State) (t : Pid)
    (ht : t ∈ (rule V cost).tied s) :
    ((rule V cost).pool ((rule V cost).buy s t)).length < ((rule V cost).pool s).length :=
  buy_pool_length_lt (V := V) (cost := cost) (tied_sub_pool ht)

/-! ### With enough money everything buyable is bought -/

/-- (1) resolute: if the per-voter budget `b0` is at least the total cost of the buyable pool, the
    outcome contains every project of the pool -/
theorem runAt_buys_pool {V : VCtx} {I : Inst} {init : List Pid}
    {order : List Pid → Except Err (List Pid)}
    (hm : ∀ i ∈ V.vs, 1 ≤ V.m i)
    (hord : ∀ T l, order T = .ok l → ∀ x ∈ l, x ∈ T)
    (hne : ∀ T, T ≠ [] → order T ≠ .ok [])
    {b0 : Rat} (hb : costOf I.cost (initPool V I init) ≤ b0) {W : List Pid}
    (hW : runAt V I init order b0 = .ok W) : ∀ p ∈ initPool V I init, p ∈ W := by
  unfold runAt at hW
  obtain ⟨s', hs', hWs, hpool⟩ := RoundRule.run_exhausts (rule V I.cost) (orderIfTie order)
    (Rich V I.cost (initPool V I init)) (orderIfTie_mem hord) (TieL.orderIfTie_ne_nil hne)
    (fun s t hs ht => rich_buy hm hs ht) (fun s hs hp => rich_progress hm hs hp)
    (rule_dec V I.cost) _ _ W (rich_init V I init hb) (le_refl _) hW
  intro p hp
  have hpool' : s'.pool = [] := hpool
  have hWs' : W = s'.alloc := hWs
  rcases hs'.cover p hp with h1 | h1
  · rw [hpool'] at h1; simp at h1
  · rw [hWs']; exact h1

/-- (1) irresolute: at such a budget there is at least one outcome and EVERY outcome contains every
    project of the pool -/
theorem runAllAt_buys_pool {V : VCtx} {I : Inst} {init : List Pid}
    {order : List Pid → Except Err (List Pid)}
    (hm : ∀ i ∈ V.vs, 1 ≤ V.m i)
    (hord : ∀ T l, order T = .ok l → ∀ x ∈ l, x ∈ T)
    (hne : ∀ T, T ≠ [] → order T ≠ .ok [])
    {b0 : Rat} (hb : costOf I.cost (initPool V I init) ≤ b0) {Ws : List (List Pid)}
    (hWs : runAllAt V I init order b0 = .ok Ws) :
    Ws ≠ [] ∧ ∀ W ∈ Ws, ∀ p ∈ initPool V I init, p ∈ W := by
  unfold runAllAt at hWs
  cases hr : (rule V I.cost).runAll (orderIfTie order) (initPool V I init).length
      (initState V I init b0) with
  | error e => rw [hr] at hWs; cases hWs
  | ok Ls =>
    rw [hr] at hWs
    have : Ws = canonOutcomes Ls := by cases hWs; rfl
    subst this
    obtain ⟨hnil, hall⟩ := RoundRule.runAll_exhausts (rule V I.cost) (orderIfTie order)
      (Rich V I.cost (initPool V I init)) (orderIfTie_mem hord) (TieL.orderIfTie_ne_nil hne)
      (fun s t hs ht => rich_buy hm hs ht) (fun s hs hp => rich_progress hm hs hp)
      (rule_dec V I.cost) _ _ Ls (rich_init V I init hb) (le_refl _) hr
    constructor
    · unfold canonOutcomes
      intro h
      have := Wrap.dedup_eq_nil.mp h
      exact hnil (List.map_eq_nil_iff.mp this)
    · intro W hW p hp
      obtain ⟨W0, hW0, rfl⟩ := mem_canonOutcomes hW
      obtain ⟨s', hs', hWs', hpool⟩ := hall W0 hW0
      have hpool' : s'.pool = [] := hpool
      have hWs'' : W0 = s'.alloc := hWs'
      apply mem_sortIds.mpr
      rcases hs'.cover p hp with h1 | h1
      · rw [hpool'] at h1; simp at h1
      · rw [hWs'']; exact h1

/-- (2) an outcome that contains all the available projects is exhaustive over them -/
theorem isExhaustiveOver_of_subset (I : Inst) {avail W : List Pid} (h : ∀ p ∈ avail, p ∈ W) :
    I.isExhaustiveOver avail W = true := by
  unfold Inst.isExhaustiveOver
  rw [List.all_eq_true]
  intro p hp
  have : W.contains p = true := by simpa using h p hp
  rw [this]; rfl

theorem runAt_total {V : VCtx} {I : Inst} {init : List Pid} {order : List Pid → Except Err (List Pid)}
    (htot : ∀ T, ∃ l, order T = .ok l) (b : Rat) : ∃ W, runAt V I init order b = .ok W := by
  unfold runAt
  apply RoundRule.run_total
  intro T
  unfold orderIfTie
  by_cases hl : T.length ≤ 1
  · rw [if_pos hl]; exact ⟨_, rfl⟩
  · rw [if_neg hl]; exact htot T

theorem runAllAt_total {V : VCtx} {I : Inst} {init : List Pid} {order : List Pid → Except Err (List Pid)}
    (htot : ∀ T, ∃ l, order T = .ok l) (b : Rat) : ∃ Ws, runAllAt V I init order b = .ok Ws := by
  unfold runAllAt
  obtain ⟨L, hL⟩ := RoundRule.runAll_total (rule V I.cost) (orderIfTie order) (by
    intro T
    unfold orderIfTie
    by_cases hl : T.length ≤ 1
    · rw [if_pos hl]; exact ⟨_, rfl⟩
    · rw [if_neg hl]; exact htot T) (initPool V I init).length (initState V I init b)
  rw [hL]
  exact ⟨_, rfl⟩

end MES

/-! ### The wrapper loop: an error at a stopping try comes from the rule -/

namespace Wrap

/-- if every outcome the rule can return at try `N < fuel` ends the loop (it is `bad` or `good`), then an
    error of the loop is an error of the rule at some try `k ≤ N` — the loop never runs out of fuel on
    its own -/
theorem loop_error_of_stop {α : Type} {rule : Rat → Except Err α} {over : Rat → Bool} {bad good : α → Bool}
    {step : Rat} :
    ∀ (N fuel : Nat) (B : Rat) (prev₀ : α) (e : Err), N < fuel →
    (∀ W, rule (B + N * step) = .ok W → bad W = true ∨ good W = true) →
    loop rule over bad good step fuel B prev₀ = .error e →
    ∃ k, k ≤ N ∧ rule (B + k * step) = .error e := by
  intro N
  induction N with
  | zero =>
    intro fuel B prev₀ e hN hstop h
    obtain ⟨f, rfl⟩ : ∃ f, fuel = f + 1 := ⟨fuel - 1, by omega⟩
    have hB : B + ((0 : Nat) : Rat) * step = B := by simp
    rw [hB] at hstop
    rw [loop] at h
    by_cases ho0 : over B = true
    · rw [if_pos ho0] at h; simp at h
    · rw [if_neg ho0] at h
      cases hr : rule B with
      | error e' =>
        rw [hr] at h
        simp only [Except.error.injEq] at h
        exact ⟨0, by omega, by rw [hB, hr, h]⟩
      | ok W =>
        rw [hr] at h
        simp only at h
        by_cases hb : bad W = true
        · rw [if_pos hb] at h; simp at h
        · rw [if_neg hb] at h
          rcases hstop W hr with hb' | hg
          · exact absurd hb' hb
          · rw [if_pos hg] at h; simp at h
  | succ N ih =>
    intro fuel B prev₀ e hN hstop h
    obtain ⟨f, rfl⟩ : ∃ f, fuel = f + 1 := ⟨fuel - 1, by omega⟩
    have hB : B + ((0 : Nat) : Rat) * step = B := by simp
    rw [loop] at h
    by_cases ho0 : over B = true
    · rw [if_pos ho0] at h; simp at h
    · rw [if_neg ho0] at h
      cases hr : rule B with
      | error e' =>
        rw [hr] at h
        simp only [Except.error.injEq] at h
        exact ⟨0, by omega, by rw [hB, hr, h]⟩
      | ok W =>
        rw [hr] at h
        simp only at h
        by_cases hb : bad W = true
        · rw [if_pos hb] at h; simp at h
        · rw [if_neg hb] at h
          by_cases hg : good W = true
          · rw [if_pos hg] at h; simp at h
          · rw [if_neg hg] at h
            rw [← shift] at hstop
            obtain ⟨k, hk, hk'⟩ := ih f (B + step) W e (by omega) hstop h
            rw [shift] at hk'
            exact ⟨k + 1, by omega, hk'⟩

end Wrap

end Pabu
