/-
  Lemmas about the relaxed stable condition of the price-system validator
  (`validate_price_system(..., stable=True, relaxation=R)`): the conditions as propositions, the executable
  `exactRelaxed` decides them, and the relaxed validator differs from the plain one in S5 only.
-/
import PabuProofs.Lemmas.Price
namespace Pabu.Price
open Pabu

/-- `(X.b, payments of X.N)` is a price system for `X.W` whose stability condition S5 holds with the relaxed
    costs `rc` on the right-hand side (all other conditions are those of `Exact`) -/
structure ExactRelaxed (X : Input) (rc : Pid → Rat) (stable exhaustive : Bool) : Prop where
  feasible : X.total ≤ X.budget
  exhaust : exhaustive = true → ∀ c ∈ X.NW, ¬ (X.total + X.cost c ≤ X.budget)
  approved : ∀ v ∈ X.N, ∀ c ∈ X.C, v.app c = false → v.pay c = 0
  nonneg : ∀ v ∈ X.N, ∀ c ∈ X.C, 0 ≤ v.pay c
  within : ∀ v ∈ X.N, spent X v ≤ X.b
  selected : ∀ c ∈ X.W, paidFor X c = X.cost c
  unselected : ∀ c ∈ X.NW, paidFor X c = 0
  noMoney : stable = false → ∀ c ∈ X.NW, leftoverOf X c ≤ X.cost c
  stab : stable = true → ∀ c ∈ X.NW, stableOf X c ≤ rc c

theorem es5R_iff (X : Input) (rc : Pid → Rat) : es5R X rc = true ↔ ∀ c ∈ X.NW, stableOf X c ≤ rc c := by
  unfold es5R; simp [List.all_eq_true]

theorem s5R_iff (X : Input) (rc : Pid → Rat) :
    s5R X rc = true ↔ ∀ c ∈ X.NW, ¬ (0 < roundCmp (stableOf X c) (rc c)) := by
  unfold s5R; simp [List.all_eq_true]

/-- the relaxed S5 test reads `rc` on the unselected projects only -/
theorem s5R_congr (X : Input) (rc rc' : Pid → Rat) (h : ∀ c ∈ X.NW, rc c = rc' c) : s5R X rc = s5R X rc' := by
  rw [Bool.eq_iff_iff, s5R_iff, s5R_iff]
  constructor
  · intro H c hc; rw [← h c hc]; exact H c hc
  · intro H c hc; rw [h c hc]; exact H c hc

theorem es5R_congr (X : Input) (rc rc' : Pid → Rat) (h : ∀ c ∈ X.NW, rc c = rc' c) : es5R X rc = es5R X rc' := by
  rw [Bool.eq_iff_iff, es5R_iff, es5R_iff]
  constructor
  · intro H c hc; rw [← h c hc]; exact H c hc
  · intro H c hc; rw [h c hc]; exact H c hc

theorem s5R_cost (X : Input) : s5R X X.cost = s5 X := rfl

theorem es5R_cost (X : Input) : es5R X X.cost = es5 X := rfl

/-- the executable `exactRelaxed` decides `ExactRelaxed` -/
theorem exactRelaxed_iff (X : Input) (rc : Pid → Rat) (stable exhaustive : Bool) :
    exactRelaxed X rc stable exhaustive = true ↔ ExactRelaxed X rc stable exhaustive := by
  unfold exactRelaxed
  simp only [Bool.and_eq_true, Bool.or_eq_true, Bool.not_eq_true']
  rw [c0a_iff, c1_iff, eNeg_iff, e2_iff, e3_iff, e4_iff]
  constructor
  · rintro ⟨⟨⟨⟨⟨⟨⟨h0, hb⟩, h1⟩, hn⟩, h2⟩, h3⟩, h4⟩, h5⟩
    refine ⟨h0, ?_, h1, hn, h2, h3, h4, ?_, ?_⟩
    · intro he
      rcases hb with hb | hb
      · rw [he] at hb; cases hb
      · exact (c0b_iff X).mp hb
    · intro hs; rw [hs] at h5; exact (e5_iff X).mp h5
    · intro hs; rw [hs] at h5; exact (es5R_iff X rc).mp h5
  · intro E
    refine ⟨⟨⟨⟨⟨⟨⟨E.feasible, ?_⟩, E.approved⟩, E.nonneg⟩, E.within⟩, E.selected⟩, E.unselected⟩, ?_⟩
    · cases exhaustive with
      | false => left; rfl
      | true => right; exact (c0b_iff X).mpr (E.exhaust rfl)
    · cases stable with
      | false => exact (e5_iff X).mpr (E.noMoney rfl)
      | true => exact (es5R_iff X rc).mpr (E.stab rfl)

/-- with the true costs the relaxed notion is the plain one -/
theorem exactRelaxed_cost_iff (X : Input) (stable exhaustive : Bool) :
    ExactRelaxed X X.cost stable exhaustive ↔ Exact X stable exhaustive :=
  ⟨fun E => ⟨E.feasible, E.exhaust, E.approved, E.nonneg, E.within, E.selected, E.unselected, E.noMoney, E.stab⟩,
   fun E => ⟨E.feasible, E.exhaust, E.approved, E.nonneg, E.within, E.selected, E.unselected, E.noMoney, E.stab⟩⟩

/-- some condition is violated by at least `δ`, the stability condition being read with the relaxed costs -/
inductive BrokenByRelaxed (δ : Rat) (X : Input) (rc : Pid → Rat) (stable exhaustive : Bool) : Prop where
  | c0a : X.budget < X.total → BrokenByRelaxed δ X rc stable exhaustive
  | c0b : exhaustive = true → (∃ c ∈ X.NW, X.total + X.cost c ≤ X.budget) → BrokenByRelaxed δ X rc stable exhaustive
  | c1 : (∃ v ∈ X.N, ∃ c ∈ X.C, v.app c = false ∧ v.pay c ≠ 0) → BrokenByRelaxed δ X rc stable exhaustive
  | neg : (∃ v ∈ X.N, ∃ c ∈ X.C, v.pay c ≤ -δ) → BrokenByRelaxed δ X rc stable exhaustive
  | c2 : (∃ v ∈ X.N, X.b + δ ≤ spent X v) → BrokenByRelaxed δ X rc stable exhaustive
  | c3 : (∃ c ∈ X.W, δ ≤ |paidFor X c - X.cost c|) → BrokenByRelaxed δ X rc stable exhaustive
  | c4 : (∃ c ∈ X.NW, δ ≤ |paidFor X c|) → BrokenByRelaxed δ X rc stable exhaustive
  | c5 : stable = false → (∃ c ∈ X.NW, X.cost c + δ ≤ leftoverOf X c) → BrokenByRelaxed δ X rc stable exhaustive
  | s5 : stable = true → (∃ c ∈ X.NW, rc c + δ ≤ stableOf X c) → BrokenByRelaxed δ X rc stable exhaustive

/-- every breakage other than S5 is a breakage of the plain (non-stable) notion, and conversely -/
theorem brokenByRelaxed_plain_iff (δ : Rat) (X : Input) (rc : Pid → Rat) (exhaustive : Bool) :
    BrokenByRelaxed δ X rc false exhaustive ↔ BrokenBy δ X false exhaustive := by
  constructor
  · intro B
    cases B with
    | c0a h => exact BrokenBy.c0a h
    | c0b he h => exact BrokenBy.c0b he h
    | c1 h => exact BrokenBy.c1 h
    | neg h => exact BrokenBy.neg h
    | c2 h => exact BrokenBy.c2 h
    | c3 h => exact BrokenBy.c3 h
    | c4 h => exact BrokenBy.c4 h
    | c5 hs h => exact BrokenBy.c5 hs h
    | s5 hs _ => cases hs
  · intro B
    cases B with
    | c0a h => exact BrokenByRelaxed.c0a h
    | c0b he h => exact BrokenByRelaxed.c0b he h
    | c1 h => exact BrokenByRelaxed.c1 h
    | neg h => exact BrokenByRelaxed.neg h
    | c2 h => exact BrokenByRelaxed.c2 h
    | c3 h => exact BrokenByRelaxed.c3 h
    | c4 h => exact BrokenByRelaxed.c4 h
    | c5 hs h => exact BrokenByRelaxed.c5 hs h
    | s5 hs _ => cases hs

/-- the relaxed validator is the plain-priceability validator with its C5 test replaced by the relaxed S5 test:
    everything but the last conjunct is shared -/
theorem validateRelaxed_stable_iff (X : Input) (rc : Pid → Rat) (exhaustive : Bool) :
    validateRelaxed X rc true exhaustive = true ↔
      (c0a X && (!exhaustive || c0b X) && c1 X && cNeg X && c2 X && c3 X && c4 X) = true ∧ s5R X rc = true := by
  unfold validateRelaxed
  simp only [Bool.and_eq_true, if_true]

theorem validate_stable_iff (X : Input) (exhaustive : Bool) :
    validate X true exhaustive = true ↔
      (c0a X && (!exhaustive || c0b X) && c1 X && cNeg X && c2 X && c3 X && c4 X) = true ∧ s5 X = true := by
  unfold validate
  simp only [Bool.and_eq_true, if_true]

end Pabu.Price
