/-
  The other ways the library runs the Method of Equal Shares, reduced to the resolute run at a
  per-voter budget (`MES.runAt`), for which Lemmas/MesEJR.lean and Lemmas/PriceMes.lean hold:

  * IRRESOLUTE  `runAllAt_realised`: every allocation returned by `MES.runAllAt` (any order
    function that returns members of the tied set — it may fail or skip tied projects) is the
    name-sorted outcome of the resolute run `MES.runAt` under some strict order `π` over the
    projects (tie-breaking rule `.perm π`).  This is the adapter between C08
    (`irresolute_complete`, `mes_runAt_perm`, about the pure `runAllP` / `runPi`) and the
    `Except`-valued, canonicalised `runAllAt`.
  * ITERATED  `iterated_is_runAt`: what `MES.iterated` returns is `prev₀` or the feasible outcome
    of `MES.runAt` at some budget `b0 + k·inc`; started from the share `budget / n` with no initial
    projects the first case cannot occur (`iterated_share_is_runAt`).  Same for `iteratedAll`.
  * the run never reads the instance's budget limit (`runAt_budget_irrel`), so a run at `b0` is the
    plain rule on the instance whose budget limit is `n · b0`.
-/
import PabuProofs.Properties.C08
import PabuProofs.Lemmas.MES
namespace Pabu
variable {σ : Type}

/-! ### the `Except`-valued irresolute run only returns pure irresolute outcomes -/

/-- whatever the order function does (fail, drop tied projects, repeat them), as long as it
    returns members of the tied set every outcome of a successful `runAll` is an outcome of the
    pure irresolute run -/
theorem RoundRule.runAll_sub_runAllP (R : RoundRule σ) (order : List Pid → Except Err (List Pid))
    (hord : ∀ T l, order T = .ok l → ∀ x ∈ l, x ∈ T) :
    ∀ n s L, R.runAll order n s = .ok L → ∀ W ∈ L, W ∈ R.runAllP n s := by
  intro n
  induction n with
  | zero =>
    intro s L h W hW
    unfold RoundRule.runAll at h
    cases h
    exact hW
  | succ n ih =>
    intro s L h W hW
    rw [runAll_succ] at h
    unfold RoundRule.runAllP
    by_cases hT : R.tied s = []
    · rw [if_pos hT] at h; cases h
      rw [if_pos hT]; exact hW
    · rw [if_neg hT] at h
      rw [if_neg hT]
      cases ho : order (R.tied s) with
      | error e => rw [ho] at h; cases h
      | ok ts =>
        rw [ho] at h
        rcases foldlM_acc_mem _ ts [] L h W hW with h1 | ⟨t, ht, r, hr, hWr⟩
        · simp at h1
        · exact List.mem_flatMap.mpr ⟨t, hord _ _ ho t ht, ih _ r hr W hWr⟩

namespace MES
open Pabu.TieL

/-! ### the budget limit of the instance is not read by a run -/

theorem runAt_budget_irrel (V : VCtx) (I : Inst) (init : List Pid)
    (order : List Pid → Except Err (List Pid)) (b0 B' : Rat) :
    runAt V ⟨I.projects, I.cost, B'⟩ init order b0 = runAt V I init order b0 ∧
    runAllAt V ⟨I.projects, I.cost, B'⟩ init order b0 = runAllAt V I init order b0 :=
  ⟨rfl, rfl⟩

/-- the plain rule on the instance with budget limit `n · b0` is the run at `b0` -/
theorem run_scaled (V : VCtx) (I : Inst) (init : List Pid)
    (order : List Pid → Except Err (List Pid)) (b0 : Rat) (hn : 0 < numVoters V) :
    MES.run V ⟨I.projects, I.cost, (numVoters V : Nat) * b0⟩ init order = runAt V I init order b0 ∧
    MES.runAll V ⟨I.projects, I.cost, (numVoters V : Nat) * b0⟩ init order =
      runAllAt V I init order b0 := by
  have hnq : ((numVoters V : Nat) : Rat) ≠ 0 := by exact_mod_cast (Nat.pos_iff_ne_zero.mp hn)
  have e : ((numVoters V : Nat) : Rat) * b0 / ((numVoters V : Nat) : Rat) = b0 := by
    field_simp
  constructor
  · show runAt V ⟨I.projects, I.cost, _⟩ init order (((numVoters V : Nat) : Rat) * b0 / _) = _
    rw [e]; rfl
  · show runAllAt V ⟨I.projects, I.cost, _⟩ init order (((numVoters V : Nat) : Rat) * b0 / _) = _
    rw [e]; rfl

/-! ### irresolute: every returned allocation is a resolute outcome under a strict order -/

/-- **adapter to C08.**  Every allocation `W'` in the list returned by the irresolute run at `b0`
    is `sortIds W` for the outcome `W` of the resolute run at `b0` whose ties are broken by some
    strict order `π` over the projects; that tie-breaking function returns members of the tied set
    and is non-empty on a non-empty set (`Tie.order_mem`, `Tie.order_ne_nil`). -/
theorem runAllAt_realised {V : VCtx} {I : Inst} {init : List Pid}
    {order : List Pid → Except Err (List Pid)}
    (hord : ∀ T l, order T = .ok l → ∀ x ∈ l, x ∈ T) (hP : I.projects.Nodup)
    (cost' : Pid → Rat) (score' : Pid → Nat) {b0 : Rat} {L : List (List Pid)}
    (hL : runAllAt V I init order b0 = .ok L) :
    ∀ W' ∈ L, ∃ π : List Pid, π.Perm I.projects ∧
      ∃ W, runAt V I init (Tie.order (.perm π) cost' score') b0 = .ok W ∧ W' = sortIds W := by
  intro W' hW'
  unfold runAllAt at hL
  cases hraw : (rule V I.cost).runAll (orderIfTie order) (initPool V I init).length
      (initState V I init b0) with
  | error e => rw [hraw] at hL; cases hL
  | ok L0 =>
    rw [hraw] at hL
    have hL' : canonOutcomes L0 = L := Except.ok.inj hL
    rw [← hL'] at hW'
    obtain ⟨W0, hW0, rfl⟩ := mem_canonOutcomes_iff.mp hW'
    have hmem := (rule V I.cost).runAll_sub_runAllP (orderIfTie order) (orderIfTie_mem hord)
      _ _ L0 hraw W0 hW0
    obtain ⟨π, hπ, hrun⟩ := C08.irresolute_complete _ (mes_rule_wf V I.cost) _ _ I.projects hP
      (C08.mes_pool_sub V I init b0) W0 hmem
    refine ⟨π, hπ, W0, ?_, rfl⟩
    rw [C08.mes_runAt_perm V I init b0 π (fun x hx => hπ.mem_iff.mpr hx) cost' score', hrun]

/-! ### iterated: the returned allocation is the outcome of a run at some `b0 + k·inc` -/

theorem iterated_succ (V : VCtx) (I : Inst) (init : List Pid)
    (order : List Pid → Except Err (List Pid)) (inc : Rat) (f : Nat) (b0 : Rat) (prev : List Pid) :
    iterated V I init order inc (f + 1) b0 prev =
      match runAt V I init order b0 with
      | .error e => .error e
      | .ok W =>
        if !I.isFeasible W then .ok prev
        else if I.isExhaustiveOver (initPool V I init) W then .ok W
        else iterated V I init order inc f (b0 + inc) W := by
  rw [iterated]
  rfl

theorem iteratedAll_succ (V : VCtx) (I : Inst) (init : List Pid)
    (order : List Pid → Except Err (List Pid)) (inc : Rat) (f : Nat) (b0 : Rat)
    (prev : List (List Pid)) :
    iteratedAll V I init order inc (f + 1) b0 prev =
      match runAllAt V I init order b0 with
      | .error e => .error e
      | .ok Ws =>
        if Ws.any (fun W => !I.isFeasible W) then .ok prev
        else if Ws.any (fun W => I.isExhaustiveOver (initPool V I init) W) then .ok Ws
        else iteratedAll V I init order inc f (b0 + inc) Ws := by
  rw [iteratedAll]
  rfl

/-- what the iterated rule returns: the allocation it was handed as "previous outcome", or the
    outcome, feasible for the instance, of the run at the per-voter budget of some try -/
theorem iterated_is_runAt {V : VCtx} {I : Inst} {init : List Pid}
    {order : List Pid → Except Err (List Pid)} {inc : Rat} :
    ∀ (fuel : Nat) (b0 : Rat) (prev W : List Pid),
      iterated V I init order inc fuel b0 prev = .ok W →
      W = prev ∨ ∃ k : Nat, runAt V I init order (b0 + k * inc) = .ok W ∧ I.isFeasible W = true := by
  intro fuel
  induction fuel with
  | zero => intro b0 prev W h; unfold iterated at h; cases h
  | succ f ih =>
    intro b0 prev W h
    rw [iterated_succ] at h
    cases hr : runAt V I init order b0 with
    | error e => rw [hr] at h; cases h
    | ok W0 =>
      rw [hr] at h
      dsimp only at h
      by_cases hf : I.isFeasible W0 = true
      · have hf' : (!I.isFeasible W0) = false := by rw [hf]; rfl
        simp only [hf'] at h
        have hrun0 : runAt V I init order (b0 + ((0 : Nat) : Rat) * inc) = .ok W0 := by
          rw [Nat.cast_zero, zero_mul, add_zero]; exact hr
        by_cases he : I.isExhaustiveOver (initPool V I init) W0 = true
        · rw [if_neg (by simp), if_pos he] at h
          cases h
          exact Or.inr ⟨0, hrun0, hf⟩
        · rw [if_neg (by simp), if_neg he] at h
          rcases ih _ _ _ h with h1 | ⟨k, hk, hkf⟩
          · subst h1; exact Or.inr ⟨0, hrun0, hf⟩
          · refine Or.inr ⟨k + 1, ?_, hkf⟩
            have : b0 + ((k + 1 : Nat) : Rat) * inc = b0 + inc + (k : Rat) * inc := by
              push_cast; ring
            rw [this]; exact hk
      · have hf' : (!I.isFeasible W0) = true := by
          cases hb : I.isFeasible W0 with
          | true => exact absurd hb hf
          | false => rfl
        rw [if_pos hf'] at h
        cases h
        exact Or.inl rfl

theorem iteratedAll_is_runAllAt {V : VCtx} {I : Inst} {init : List Pid}
    {order : List Pid → Except Err (List Pid)} {inc : Rat} :
    ∀ (fuel : Nat) (b0 : Rat) (prev Ws : List (List Pid)),
      iteratedAll V I init order inc fuel b0 prev = .ok Ws →
      Ws = prev ∨ ∃ k : Nat, runAllAt V I init order (b0 + k * inc) = .ok Ws ∧
        ∀ W ∈ Ws, I.isFeasible W = true := by
  intro fuel
  induction fuel with
  | zero => intro b0 prev Ws h; unfold iteratedAll at h; cases h
  | succ f ih =>
    intro b0 prev Ws h
    rw [iteratedAll_succ] at h
    cases hr : runAllAt V I init order b0 with
    | error e => rw [hr] at h; cases h
    | ok W0 =>
      rw [hr] at h
      dsimp only at h
      by_cases hf : W0.any (fun W => !I.isFeasible W) = true
      · rw [if_pos hf] at h
        cases h
        exact Or.inl rfl
      · have hfeas : ∀ W ∈ W0, I.isFeasible W = true := by
          intro W hW
          cases hb : I.isFeasible W with
          | true => rfl
          | false =>
            exfalso; apply hf
            exact List.any_eq_true.mpr ⟨W, hW, by rw [hb]; rfl⟩
        rw [if_neg hf] at h
        have hrun0 : runAllAt V I init order (b0 + ((0 : Nat) : Rat) * inc) = .ok W0 := by
          rw [Nat.cast_zero, zero_mul, add_zero]; exact hr
        by_cases he : W0.any (fun W => I.isExhaustiveOver (initPool V I init) W) = true
        · rw [if_pos he] at h
          cases h
          exact Or.inr ⟨0, hrun0, hfeas⟩
        · rw [if_neg he] at h
          rcases ih _ _ _ h with h1 | ⟨k, hk, hkf⟩
          · subst h1; exact Or.inr ⟨0, hrun0, hfeas⟩
          · refine Or.inr ⟨k + 1, ?_, hkf⟩
            have : b0 + ((k + 1 : Nat) : Rat) * inc = b0 + inc + (k : Rat) * inc := by
              push_cast; ring
            rw [this]; exact hk

/-! ### started from the share, with no initial projects, the first try is feasible -/

/-- the outcome of the run at the share `budget / n` (no initial projects) is feasible -/
theorem runAt_share_feasible {V : VCtx} {I : Inst} (h : InputOK V I [])
    {order : List Pid → Except Err (List Pid)}
    (hord : ∀ T l, order T = .ok l → ∀ x ∈ l, x ∈ T) (hB : 0 ≤ I.budget) {W : List Pid}
    (hW : runAt V I [] order (I.budget / (numVoters V : Nat)) = .ok W) : I.isFeasible W = true := by
  obtain ⟨hc, _, _, _⟩ := runAt_bounds h hord (share_nonneg V I hB) hW
  have := share_le_budget (numVoters V) I.budget hB
  unfold Inst.isFeasible Inst.totalCost
  rw [decide_eq_true_eq]
  have h0 : costOf I.cost ([] : List Pid) = 0 := rfl
  rw [h0] at hc
  linarith

/-- … and so are all the irresolute outcomes at the share -/
theorem runAllAt_share_feasible {V : VCtx} {I : Inst} (h : InputOK V I [])
    {order : List Pid → Except Err (List Pid)}
    (hord : ∀ T l, order T = .ok l → ∀ x ∈ l, x ∈ T) (hB : 0 ≤ I.budget) {L : List (List Pid)}
    (hL : runAllAt V I [] order (I.budget / (numVoters V : Nat)) = .ok L) :
    ∀ W ∈ L, I.isFeasible W = true := by
  intro W' hW'
  obtain ⟨π, _, W, hW, rfl⟩ := runAllAt_realised hord h.proj_nodup I.cost (fun _ => 0) hL W' hW'
  have hf := runAt_share_feasible h (Tie.order_mem _ _ _) hB hW
  have hperm : (sortIds W).Perm W := Sorting.sortIds_perm W
  unfold Inst.isFeasible Inst.totalCost at hf ⊢
  unfold costOf at hf ⊢
  rw [sumOver_perm I.cost hperm]
  exact hf

/-- when the first try is feasible the handed-in previous outcome is never returned -/
theorem iterated_first_feasible {V : VCtx} {I : Inst} {init : List Pid}
    {order : List Pid → Except Err (List Pid)} {inc : Rat} {fuel : Nat} {b0 : Rat}
    {prev W W0 : List Pid} (hr : runAt V I init order b0 = .ok W0) (hf : I.isFeasible W0 = true)
    (hW : iterated V I init order inc fuel b0 prev = .ok W) :
    ∃ k : Nat, runAt V I init order (b0 + k * inc) = .ok W ∧ I.isFeasible W = true := by
  have hrun0 : runAt V I init order (b0 + ((0 : Nat) : Rat) * inc) = .ok W0 := by
    rw [Nat.cast_zero, zero_mul, add_zero]; exact hr
  cases fuel with
  | zero => unfold iterated at hW; cases hW
  | succ f =>
    rw [iterated_succ, hr] at hW
    have hf' : (!I.isFeasible W0) = false := by rw [hf]; rfl
    simp only [hf'] at hW
    by_cases he : I.isExhaustiveOver (initPool V I init) W0 = true
    · rw [if_neg (by simp), if_pos he] at hW
      cases hW
      exact ⟨0, hrun0, hf⟩
    · rw [if_neg (by simp), if_neg he] at hW
      rcases iterated_is_runAt _ _ _ _ hW with h1 | ⟨k, hk, hkf⟩
      · subst h1; exact ⟨0, hrun0, hf⟩
      · refine ⟨k + 1, ?_, hkf⟩
        have : b0 + ((k + 1 : Nat) : Rat) * inc = b0 + inc + (k : Rat) * inc := by
          push_cast; ring
        rw [this]; exact hk

theorem iteratedAll_first_feasible {V : VCtx} {I : Inst} {init : List Pid}
    {order : List Pid → Except Err (List Pid)} {inc : Rat} {fuel : Nat} {b0 : Rat}
    {prev Ws W0 : List (List Pid)} (hr : runAllAt V I init order b0 = .ok W0)
    (hf : ∀ W ∈ W0, I.isFeasible W = true)
    (hW : iteratedAll V I init order inc fuel b0 prev = .ok Ws) :
    ∃ k : Nat, runAllAt V I init order (b0 + k * inc) = .ok Ws ∧
      ∀ W ∈ Ws, I.isFeasible W = true := by
  have hrun0 : runAllAt V I init order (b0 + ((0 : Nat) : Rat) * inc) = .ok W0 := by
    rw [Nat.cast_zero, zero_mul, add_zero]; exact hr
  have hnf : ¬ W0.any (fun W => !I.isFeasible W) = true := by
    intro hany
    obtain ⟨W, hW0, hb⟩ := List.any_eq_true.mp hany
    rw [hf W hW0] at hb
    cases hb
  cases fuel with
  | zero => unfold iteratedAll at hW; cases hW
  | succ f =>
    rw [iteratedAll_succ, hr] at hW
    simp only [if_neg hnf] at hW
    by_cases he : W0.any (fun W => I.isExhaustiveOver (initPool V I init) W) = true
    · rw [if_pos he] at hW
      cases hW
      exact ⟨0, hrun0, hf⟩
    · rw [if_neg he] at hW
      rcases iteratedAll_is_runAllAt _ _ _ _ hW with h1 | ⟨k, hk, hkf⟩
      · subst h1; exact ⟨0, hrun0, hf⟩
      · refine ⟨k + 1, ?_, hkf⟩
        have : b0 + ((k + 1 : Nat) : Rat) * inc = b0 + inc + (k : Rat) * inc := by
          push_cast; ring
        rw [this]; exact hk

/-- **iterated, resolute.**  Started from the share `budget / n` with no initial projects (whatever
    it is handed as previous outcome) the iterated rule returns the feasible outcome of the run at
    a per-voter budget `budget / n + k·inc`. -/
theorem iterated_share_is_runAt {V : VCtx} {I : Inst} (h : InputOK V I [])
    {order : List Pid → Except Err (List Pid)}
    (hord : ∀ T l, order T = .ok l → ∀ x ∈ l, x ∈ T) (hB : 0 ≤ I.budget) {inc : Rat}
    {fuel : Nat} {prev W : List Pid}
    (hW : iterated V I [] order inc fuel (I.budget / (numVoters V : Nat)) prev = .ok W) :
    ∃ k : Nat, runAt V I [] order (I.budget / (numVoters V : Nat) + k * inc) = .ok W ∧
      I.isFeasible W = true := by
  cases hr : runAt V I [] order (I.budget / (numVoters V : Nat)) with
  | error e =>
    exfalso
    cases fuel with
    | zero => unfold iterated at hW; cases hW
    | succ f => rw [iterated_succ, hr] at hW; cases hW
  | ok W0 => exact iterated_first_feasible hr (runAt_share_feasible h hord hB hr) hW

/-- **iterated, irresolute.** -/
theorem iteratedAll_share_is_runAllAt {V : VCtx} {I : Inst} (h : InputOK V I [])
    {order : List Pid → Except Err (List Pid)}
    (hord : ∀ T l, order T = .ok l → ∀ x ∈ l, x ∈ T) (hB : 0 ≤ I.budget) {inc : Rat}
    {fuel : Nat} {prev Ws : List (List Pid)}
    (hW : iteratedAll V I [] order inc fuel (I.budget / (numVoters V : Nat)) prev = .ok Ws) :
    ∃ k : Nat, runAllAt V I [] order (I.budget / (numVoters V : Nat) + k * inc) = .ok Ws ∧
      ∀ W ∈ Ws, I.isFeasible W = true := by
  cases hr : runAllAt V I [] order (I.budget / (numVoters V : Nat)) with
  | error e =>
    exfalso
    cases fuel with
    | zero => unfold iteratedAll at hW; cases hW
    | succ f => rw [iteratedAll_succ, hr] at hW; cases hW
  | ok W0 => exact iteratedAll_first_feasible hr (runAllAt_share_feasible h hord hB hr) hW

/-! ### a non-empty initial allocation is kept in every mode

(Equal Shares ignores the COST of the initial allocation — DESIGN.md §10.4 — so the proportionality and
priceability statements are made for the empty initial allocation only; containment is what survives.) -/

theorem runAllAt_keeps_init {V : VCtx} {I : Inst} {init : List Pid} (h : InputOK V I init)
    {order : List Pid → Except Err (List Pid)}
    (hord : ∀ T l, order T = .ok l → ∀ x ∈ l, x ∈ T) {b0 : Rat} (hb0 : 0 ≤ b0) {L : List (List Pid)}
    (hL : runAllAt V I init order b0 = .ok L) : ∀ W ∈ L, ∀ p ∈ init, p ∈ W := by
  intro W' hW' p hp
  obtain ⟨π, _, W, hW, rfl⟩ := runAllAt_realised hord h.proj_nodup I.cost (fun _ => 0) hL W' hW'
  exact Sorting.mem_sortIds.mpr ((runAt_bounds h (Tie.order_mem _ _ _) hb0 hW).2.1 p hp)

theorem iterated_keeps_init {V : VCtx} {I : Inst} {init : List Pid} (h : InputOK V I init)
    {order : List Pid → Except Err (List Pid)}
    (hord : ∀ T l, order T = .ok l → ∀ x ∈ l, x ∈ T) {b0 inc : Rat} (hb0 : 0 ≤ b0) (hinc : 0 ≤ inc)
    {fuel : Nat} {prev W : List Pid} (hprev : ∀ p ∈ init, p ∈ prev)
    (hW : iterated V I init order inc fuel b0 prev = .ok W) : ∀ p ∈ init, p ∈ W := by
  rcases iterated_is_runAt _ _ _ _ hW with h1 | ⟨k, hk, _⟩
  · subst h1; exact hprev
  · exact (runAt_bounds h hord (add_nonneg hb0 (mul_nonneg (Nat.cast_nonneg _) hinc)) hk).2.1

theorem iteratedAll_keeps_init {V : VCtx} {I : Inst} {init : List Pid} (h : InputOK V I init)
    {order : List Pid → Except Err (List Pid)}
    (hord : ∀ T l, order T = .ok l → ∀ x ∈ l, x ∈ T) {b0 inc : Rat} (hb0 : 0 ≤ b0) (hinc : 0 ≤ inc)
    {fuel : Nat} {prev Ws : List (List Pid)} (hprev : ∀ W ∈ prev, ∀ p ∈ init, p ∈ W)
    (hW : iteratedAll V I init order inc fuel b0 prev = .ok Ws) : ∀ W ∈ Ws, ∀ p ∈ init, p ∈ W := by
  rcases iteratedAll_is_runAllAt _ _ _ _ hW with h1 | ⟨k, hk, _⟩
  · subst h1; exact hprev
  · exact runAllAt_keeps_init h hord (add_nonneg hb0 (mul_nonneg (Nat.cast_nonneg _) hinc)) hk

/-- **`init ⊆ W` in every mode** (resolute, irresolute, iterated, iterated irresolute; the iterated ones when
    the allocation handed in as previous outcome contains `init`, as `init ++ zeroCost` in the driver does) -/
theorem variants_keep_init {V : VCtx} {I : Inst} {init : List Pid} (h : InputOK V I init)
    {order : List Pid → Except Err (List Pid)}
    (hord : ∀ T l, order T = .ok l → ∀ x ∈ l, x ∈ T) {b0 inc : Rat} (hb0 : 0 ≤ b0) (hinc : 0 ≤ inc) :
    (∀ W, runAt V I init order b0 = .ok W → ∀ p ∈ init, p ∈ W) ∧
    (∀ L, runAllAt V I init order b0 = .ok L → ∀ W ∈ L, ∀ p ∈ init, p ∈ W) ∧
    (∀ fuel prev W, (∀ p ∈ init, p ∈ prev) → iterated V I init order inc fuel b0 prev = .ok W →
      ∀ p ∈ init, p ∈ W) ∧
    (∀ fuel prev Ws, (∀ W ∈ prev, ∀ p ∈ init, p ∈ W) →
      iteratedAll V I init order inc fuel b0 prev = .ok Ws → ∀ W ∈ Ws, ∀ p ∈ init, p ∈ W) :=
  ⟨fun _ hW => (runAt_bounds h hord hb0 hW).2.1, fun _ hL => runAllAt_keeps_init h hord hb0 hL,
    fun _ _ _ hp hW => iterated_keeps_init h hord hb0 hinc hp hW,
    fun _ _ _ hp hW => iteratedAll_keeps_init h hord hb0 hinc hp hW⟩

end MES
end Pabu
